(* C04 for languages whose operators carry ARBITRARY constraints - class
   [progG] of Infer/SoundGen.v:

        r <= t   r < t        SCSub r t strict
        r << [t1, ..., tn]    SCElim r [t1; ...; tn]

   with r, t, t1..tn any well-scoped, arity-correct schematic types ([scg]).

   What is lifted here is everything of C04 that does not depend on what the
   constraints SAY: application nodes, annotations, the fix traversal and the
   leaf clause "an operator leaf denotes a substitution instance of its
   declared signature body".  (That the declared constraints themselves hold of
   the leaf's instantiation is proved for base targets / base alternatives on a
   bare schematic variable in Infer/ExprSoundSub.v and Infer/ExprSoundElim.v.)

   Part 1  what an instance denotes on stores with arbitrary constraint
           objects ([eval_sty_instG], [instance_instG]): the body is evaluated
           BEFORE the constraints are created; creating and fulfilling the
           constraints and the final fix only refine the store ([lefG] of
           SoundGen: every grounding that satisfies the later store satisfies
           the earlier one), and fix keeps the denotation, so the instance
           still denotes [sinst (sig_of th env) body] under every grounding of
           the store after the instance - and, by the same monotonicity, of
           every later store.
   Part 2  programs of class [progG]: the semantic reading [prog_sem] of every
           command of the ERASED program (CInst reads "is an instance of the
           body": [is_inst] only looks at the body) along a run
           ([run_cmds_goodGQ]); the leaf facts with the leaf's own fresh
           variables explicit ([run_cmds_leavesG], [inst_trace_funG]).
   Part 3  expression trees ([leaves_okG], [code_progG], [expr_gen]).
   Part 4  the whole compiled program with inputs, annotations and the fix
           traversal ([xokG], [xprog_okG], [xexpr_gen]).
   Part 5  the classes of ExprSoundSub / ExprSoundElim are sub-classes. *)
From Coq Require Import List Arith Bool Lia Permutation.
Import ListNotations.
From TF Require Import Base.Hier Base.Ty Sub.SubSpec Infer.Store Infer.Engine Infer.Run
  Infer.Witness Infer.Check Infer.Sched Infer.Inv Infer.Sound Infer.SchedIndep Infer.SoundSub
  Infer.SoundElimS Infer.SoundElimK Infer.SoundElim Infer.ExprSound Infer.ExprSoundSub
  Infer.ExprSoundElim Infer.SoundGen.
From TF Require Infer.Lub Infer.FitsEngineList.

Unset Implicit Arguments.

(* ================================================================== *)
(* Part 1.  What an instance denotes                                    *)
(* ================================================================== *)
Section SemG.
Variable H : hier.
Hypothesis W : wf_hier H.
Local Notation len s := (length (vars s)).

Lemma lefG_sat s s' th : lefG H s s' -> sat H th s' -> sat H th s.
Proof. intros ((_ & M) & _). apply M. Qed.

(* eval_sty: the forward facts of SoundGen.eval_sty_goodG together with what the
   result denotes *)
Definition ev_instG (env : list tyv) (t : sty) (s : store) : tyv -> store -> Prop :=
  fun r s' => JG H s' /\ lefG H s s' /\ tg H (len s') r /\
    forall th, sat H th s' -> sinst H (sig_of th env) t (den th r).

Lemma eval_sty_instG env : forall t s, JG H s -> Forall (tg H (len s)) env -> styg H (length env) t ->
  tr (eval_sty env t) s (ev_instG env t s).
Proof.
  induction t as [i| |o args IH] using sty_ind'; intros s I Fe St; cbn [eval_sty].
  - apply tr_gets_end. split; [exact I|split; [apply lefG_refl|split]].
    + apply SoundGen.tg_follow; auto. inversion St; subst.
      rewrite Forall_forall in Fe. apply Fe. apply nth_In. auto.
    + intros th S. rewrite (den_follow H th s _ S). apply si_var.
  - apply Sound.tr_fresh. apply tr_ret.
    split; [apply JG_alloc; exact I|split; [apply lefG_alloc|split]].
    + constructor. rewrite alloc_var_length. lia.
    + intros th S. cbn [den]. apply si_wild. eapply sat_wf; eauto.
  - inversion St as [| |? ? La Fa]; subst.
    eapply tr_bind with (Q1 := fun xs s1 => JG H s1 /\ lefG H s s1 /\ Forall (tg H (len s1)) xs /\
                                 length xs = length args /\
                                 forall th, sat H th s1 ->
                                   Forall2 (sinst H (sig_of th env)) args (map (den th) xs)).
    + clear La St. revert s I Fe.
      induction IH as [|a r Ha Hr IHr]; intros s I Fe.
      * apply tr_ret. split; [exact I|split; [apply lefG_refl|split; [constructor|split; [reflexivity|]]]].
        intros th _. constructor.
      * inversion Fa as [|? ? Sa Sr]; subst.
        eapply tr_bind; [apply Ha; auto|]. cbv beta. intros x s1 (I1 & L1 & Tx & Dx).
        assert (Fe1 : Forall (tg H (len s1)) env)
          by (eapply Forall_tg_mono; [apply (lefG_len _ _ _ L1)|exact Fe]).
        eapply tr_bind; [apply IHr; auto|]. cbv beta. intros xs s2 (I2 & L2 & Fx & Nx & Dxs).
        apply tr_ret. split; [exact I2|split; [eapply lefG_trans; eauto|split; [|split]]].
        -- constructor; auto. eapply tg_mono; [apply (lefG_len _ _ _ L2)|exact Tx].
        -- cbn. lia.
        -- intros th S2. cbn [map]. constructor.
           ++ apply Dx. eapply lefG_sat; eauto.
           ++ apply Dxs. exact S2.
    + cbv beta. intros xs s1 (I1 & L1 & Fx & Nx & Dxs). apply tr_ret.
      split; [exact I1|split; [exact L1|split]].
      * constructor; auto. congruence.
      * intros th S1. cbn [den]. apply si_op. apply Dxs. exact S1.
Qed.

(* creating (and fulfilling) the declared constraints only refines the store *)
Lemma constrs_goodG fuel env : forall cs s, JG H s -> Forall (tg H (len s)) env ->
  Forall (scg H (length env)) cs ->
  tr (forM cs (eval_constr H fuel env)) s (fun _ s' => JG H s' /\ lefG H s s').
Proof.
  induction cs as [|c cs IH]; intros s I Fe Fc; cbn [forM].
  - apply tr_ret. split; [exact I|apply lefG_refl].
  - inversion Fc as [|? ? Pc1 Fc']; subst.
    eapply tr_bind; [apply (eval_constr_goodG H W); auto|].
    cbv beta. intros _ s1 (I1 & L1).
    eapply tr_conseq; [apply IH; auto|].
    { eapply Forall_tg_mono; [apply (lefG_len _ _ _ L1)|exact Fe]. }
    cbv beta. intros _ s2 (I2 & L2). split; [exact I2|eapply lefG_trans; eauto].
Qed.

(* the instance denotes its body under the substitution given by its own fresh
   variables - whatever its constraints are *)
Theorem instance_instG fuel sc s r s' : JG H s -> styg H (s_n sc) (s_body sc) ->
  Forall (scg H (s_n sc)) (s_constrs sc) ->
  instance H fuel sc s = MOk r s' -> inst_post_env H sc (envof s (s_n sc)) r s'.
Proof.
  intros I Sb Pc E.
  destruct (instance_stages H fuel sc s r s' E) as (env & s1 & body & s2 & s3 & E1 & E2 & E3 & E4).
  destruct (fresh_list_goodG H (s_n sc) s I env s1 E1) as (I1 & L1 & Fe & Ne).
  destruct (fresh_list_env _ _ _ _ E1) as (Een & _ & _). fold (envof s (s_n sc)) in Een.
  assert (Fe' : Forall (tg H (len s1)) env).
  { eapply Forall_impl; [|exact Fe]. intros t. apply isvar_tg. }
  assert (Sb' : styg H (length env) (s_body sc)) by (rewrite Ne; exact Sb).
  destruct (eval_sty_instG env _ s1 I1 Fe' Sb' body s2 E2) as (I2 & L2 & Tb & Db).
  assert (Fe2 : Forall (tg H (len s2)) env)
    by (eapply Forall_tg_mono; [apply (lefG_len _ _ _ L2)|exact Fe']).
  assert (Pc' : Forall (scg H (length env)) (s_constrs sc)) by (rewrite Ne; exact Pc).
  destruct (constrs_goodG fuel env (s_constrs sc) s2 I2 Fe2 Pc' tt s3 E3) as (I3 & L3).
  assert (Tb3 : tg H (len s3) body) by (eapply tg_mono; [apply (lefG_len _ _ _ L3)|exact Tb]).
  destruct (fix_soundG H W fuel true body s3 I3 Tb3 r s' E4) as (Tr & G4).
  pose proof (goodG_lefG H _ _ _ G4) as L4. destruct G4 as (_ & _ & _ & R4).
  rewrite <- Een. intros th S4.
  assert (S3 : sat H th s3) by (eapply lefG_sat; eauto).
  assert (S2 : sat H th s2) by (eapply lefG_sat; eauto).
  split.
  - intros i. unfold sig_of. eapply wf_den with (n := S (len s')); [eapply sat_wf; eauto|].
    destruct (Nat.lt_ge_cases i (length env)) as [Li|Li].
    + rewrite Forall_forall in Fe'. eapply tg_mono; [|apply Fe'; apply nth_In; exact Li].
      pose proof (lefG_len _ _ _ L2). pose proof (lefG_len _ _ _ L3). pose proof (lefG_len _ _ _ L4). lia.
    + rewrite nth_overflow by exact Li. constructor. lia.
  - rewrite (R4 th S4). apply Db. exact S2.
Qed.

End SemG.

(* ================================================================== *)
(* Part 2.  Programs of class progG                                     *)
(* ================================================================== *)
Section ProgsG.
Variable H : hier.
Hypothesis W : wf_hier H.
Local Notation len s := (length (vars s)).

Lemma cmdG_erase n c : cmdG H n c -> cmdQ H n (erase_cmd c).
Proof. intros [sc Sb _|f x b Lf Lx|a b La Lb|a pl La]; cbn [erase_cmd]; constructor; auto. Qed.

Lemma progG_erase : forall cs n, progG H n cs -> progQ H n (map erase_cmd cs).
Proof.
  induction cs as [|c cs IH]; intros n P; cbn [map progQ]; [exact I|].
  destruct P as [Pc Pr]. split; [apply cmdG_erase; exact Pc|]. rewrite nxt_erase. apply IH. exact Pr.
Qed.

Lemma progG_app a : forall n b, progG H n a -> progG H (nxts a n) b -> progG H n (a ++ b).
Proof.
  induction a as [|c a IH]; intros n b Pa Pb; cbn [List.app nxts] in *; [exact Pb|].
  destruct Pa as [Pc Pa]. split; [exact Pc|]. apply IH; auto.
Qed.

(* ---- forward soundness along a run, with the semantic reading of every
   command; a CInst reads "the value is an instance of the declared body" ---- *)
Lemma run_cmd_goodGQ fuel c vals s : JG H s -> Forall (tg H (len s)) vals -> cmdG H (length vals) c ->
  tr (run_cmd H fuel c vals) s
     (fun vals' s' => (exists ext, vals' = vals ++ ext) /\ length vals' = nxt c (length vals) /\
        Forall (tg H (len s')) vals' /\ JG H s' /\ lefG H s s' /\
        forall th, sat H th s' -> cmd_sem H th vals' (erase_cmd c) (length vals)).
Proof.
  intros I0 Fv Pc vals' s' E.
  destruct (run_cmd_goodG H W fuel c vals s I0 Fv Pc vals' s' E) as (A & B & C & I' & L' & Sem).
  split; [exact A|split; [exact B|split; [exact C|split; [exact I'|split; [exact L'|]]]]].
  intros th S. specialize (Sem th S).
  destruct Pc as [sc Sb Pcs|f x b Lf Lx|a b La Lb|a pl La]; cbn [erase_cmd cmd_sem cmd_semG] in *;
    try exact Sem.
  cbn [run_cmd] in E. unfold bindM in E.
  destruct (instance H fuel sc s) as [t s0|e0 s0] eqn:Ei; [|discriminate].
  unfold ret in E. inversion E; subst s0 vals'. clear E.
  rewrite val_app_new. exists (sig_of th (envof s (s_n sc))).
  apply (instance_instG H W fuel sc s t s' I0 Sb Pcs Ei th S).
Qed.

Theorem run_cmds_goodGQ fuel : forall cs i vals s vals' s', JG H s -> Forall (tg H (len s)) vals ->
  progG H (length vals) cs -> run_cmds H fuel cs i vals s = (None, vals', s') ->
  JG H s' /\ lefG H s s' /\ Forall (tg H (len s')) vals' /\ (exists ext, vals' = vals ++ ext) /\
  length vals' = nxts cs (length vals) /\
  forall th, sat H th s' -> prog_sem H th vals' (map erase_cmd cs) (length vals).
Proof.
  induction cs as [|c cs IH]; intros i vals s vals' s' I0 Fv P R; cbn [run_cmds] in R.
  - inversion R; subst. split; [auto|split; [apply lefG_refl|split; [auto|split]]].
    + exists []. rewrite app_nil_r. reflexivity.
    + split; [reflexivity|]. intros th _. exact Logic.I.
  - destruct P as [Pc Pr].
    pose proof (run_cmd_goodGQ fuel c vals s I0 Fv Pc) as T. unfold tr in T.
    destruct (run_cmd H fuel c vals s) as [vals1 s1|e s1] eqn:Ec; [|discriminate].
    destruct (T vals1 s1 eq_refl) as ((ext1 & E1) & Ln & Fv1 & I1 & L1 & Sem1).
    rewrite <- Ln in Pr.
    destruct (IH (S i) vals1 s1 vals' s' I1 Fv1 Pr R) as (I' & L' & Fv' & (ext & ->) & Ln' & Sem').
    split; [auto|split; [eapply lefG_trans; eauto|split; [auto|split]]].
    + exists (ext1 ++ ext). rewrite E1, app_assoc. reflexivity.
    + split; [cbn [nxts]; rewrite <- Ln; exact Ln'|].
      intros th S'. cbn [map prog_sem]. split.
      * apply (cmd_sem_ext H); [apply cmdG_erase; exact Pc|rewrite nxt_erase; lia|].
        apply Sem1. eapply lefG_sat; eauto.
      * rewrite nxt_erase, <- Ln. apply Sem'. exact S'.
Qed.

(* what holds of the final store of an accepted program of the class *)
Theorem progG_final fuel sc prog vals s : progG H 0 prog ->
  run_cmds H fuel prog 0 [] (empty_store sc) = (None, vals, s) ->
  JG H s /\ lefG H (empty_store sc) s /\ Forall (tg H (len s)) vals /\
  forall th, sat H th s -> prog_sem H th vals (map erase_cmd prog) 0.
Proof.
  intros P R.
  destruct (run_cmds_goodGQ fuel prog 0 [] (empty_store sc) vals s (JG_empty H sc) (Forall_nil _) P R)
    as (J0 & L & Fv & _ & _ & Sem).
  auto.
Qed.

(* ---- the leaf instantiated by a CInst, in the final store ---- *)
Lemma run_cmd_lenG fuel c vals s vals' s' : cmdG H (length vals) c ->
  run_cmd H fuel c vals s = MOk vals' s' -> length vals' = nxt c (length vals).
Proof.
  intros Pc E. destruct Pc as [sc Sb Pcs|f x b Lf Lx|a b La Lb|a pl La]; cbn [run_cmd nxt] in *;
    unfold bindM in E;
    match type of E with match ?m with _ => _ end = _ => destruct m; [|discriminate] end;
    inversion E; subst; rewrite ?app_length; cbn; lia.
Qed.

(* n0 = number of the first fresh variable of the leaf's instantiation *)
Definition leaf_factG (n0 : nat) (s' : store) (vals' : list tyv) (k : nat) (sch : schema) : Prop :=
  inst_post_env H sch (map V (seq n0 (s_n sch))) (val vals' k) s'.

Theorem run_cmds_leavesG fuel : forall cs i vals s vals' s', JG H s ->
  Forall (tg H (len s)) vals -> progG H (length vals) cs ->
  run_cmds H fuel cs i vals s = (None, vals', s') ->
  forall k sch, In (k, sch) (insts_of cs (length vals)) ->
  exists n0, In (k, n0) (inst_trace H fuel cs vals s) /\ leaf_factG n0 s' vals' k sch.
Proof.
  induction cs as [|c cs IH]; intros i vals s vals' s' I0 Fv Pc R k sch Hin; [destruct Hin|].
  destruct Pc as [Pc Pr]. cbn [run_cmds] in R.
  pose proof (run_cmd_goodG H W fuel c vals s I0 Fv Pc) as T. unfold tr in T.
  destruct (run_cmd H fuel c vals s) as [vals1 s1|e s1] eqn:E1; [|discriminate].
  destruct (T vals1 s1 eq_refl) as (_ & Ln1 & Fv1 & I1 & L1 & _).
  assert (Tr : inst_trace H fuel (c :: cs) vals s =
               match c with CInst _ => [(length vals, len s)] | _ => [] end ++ inst_trace H fuel cs vals1 s1)
    by (cbn [inst_trace]; rewrite E1; reflexivity).
  assert (Pr1 : progG H (length vals1) cs) by (rewrite Ln1; exact Pr).
  assert (Rest : forall k sch, In (k, sch) (insts_of cs (nxt c (length vals))) ->
            exists n0, In (k, n0) (inst_trace H fuel (c :: cs) vals s) /\ leaf_factG n0 s' vals' k sch).
  { intros k' sch' Hin'. rewrite <- Ln1 in Hin'.
    destruct (IH (S i) vals1 s1 vals' s' I1 Fv1 Pr1 R k' sch' Hin') as (n0 & Hn0 & Lf).
    exists n0. split; [rewrite Tr; apply in_or_app; right; exact Hn0|exact Lf]. }
  destruct Pc as [sc Sb Pcs|f x b Lf Lx|a b La Lb|a pl La]; cbn [insts_of nxt] in Hin, Rest;
    try (apply Rest; exact Hin).
  destruct Hin as [[= <- <-]|Hin]; [|apply Rest; exact Hin].
  (* the leaf instantiated by this command *)
  exists (len s). split; [rewrite Tr; left; reflexivity|]. clear Tr Rest.
  cbn [run_cmd] in E1. unfold bindM in E1.
  destruct (instance H fuel sc s) as [t s0|e0 s0] eqn:Ei; [|discriminate].
  unfold ret in E1. inversion E1; subst s0 vals1. clear E1.
  pose proof (instance_instG H W fuel sc s t s1 I0 Sb Pcs Ei) as Pi.
  destruct (run_cmds_goodG H W fuel cs (S i) (vals ++ [t]) s1 vals' s' I1 Fv1 Pr1 R)
    as (_ & L' & _ & (ext & Ext) & _).
  unfold leaf_factG. rewrite Ext, <- app_assoc. change ([t] ++ ext) with (t :: ext). rewrite val_app_new.
  intros th S. apply Pi. eapply lefG_sat; eauto.
Qed.

(* the trace is a function of the value index *)
Lemma inst_trace_geG fuel : forall cs vals s, progG H (length vals) cs ->
  forall k n0, In (k, n0) (inst_trace H fuel cs vals s) -> length vals <= k.
Proof.
  induction cs as [|c cs IH]; intros vals s Pc k n0 Hin; cbn [inst_trace] in Hin; [destruct Hin|].
  destruct Pc as [Pc Pr].
  destruct (run_cmd H fuel c vals s) as [vals1 s1|e s1] eqn:E1; [|destruct Hin].
  pose proof (run_cmd_lenG fuel c vals s vals1 s1 Pc E1) as Ln. rewrite <- Ln in Pr.
  apply in_app_or in Hin. destruct Hin as [Hin|Hin].
  - destruct c as [sc0|? ? ?|? ? ?|? ?]; [destruct Hin as [Hin|[]]|destruct Hin..]. inversion Hin; subst. lia.
  - apply (IH vals1 s1 Pr) in Hin. pose proof (nxt_le c (length vals)). lia.
Qed.

Lemma inst_trace_funG fuel : forall cs vals s, progG H (length vals) cs ->
  forall k n0 n0', In (k, n0) (inst_trace H fuel cs vals s) -> In (k, n0') (inst_trace H fuel cs vals s) -> n0 = n0'.
Proof.
  induction cs as [|c cs IH]; intros vals s Pc k n0 n0' Hin Hin'; cbn [inst_trace] in Hin, Hin'; [destruct Hin|].
  destruct Pc as [Pc Pr].
  destruct (run_cmd H fuel c vals s) as [vals1 s1|e s1] eqn:E1; [|destruct Hin].
  pose proof (run_cmd_lenG fuel c vals s vals1 s1 Pc E1) as Ln. rewrite <- Ln in Pr.
  apply in_app_or in Hin. apply in_app_or in Hin'.
  assert (Hd : forall m, In (k, m) (match c with CInst _ => [(length vals, length (vars s))] | _ => [] end) ->
            k = length vals /\ m = length (vars s) /\ length vals1 = S (length vals)).
  { intros m Hm. destruct c as [sc0|? ? ?|? ? ?|? ?]; [destruct Hm as [Hm|[]]|destruct Hm..]. inversion Hm; subst.
    cbn [nxt] in Ln. auto. }
  destruct Hin as [Hin|Hin]; destruct Hin' as [Hin'|Hin'].
  - destruct (Hd _ Hin) as (_ & -> & _). destruct (Hd _ Hin') as (_ & -> & _). reflexivity.
  - destruct (Hd _ Hin) as (-> & _ & L1). apply (inst_trace_geG fuel cs vals1 s1 Pr) in Hin'. lia.
  - destruct (Hd _ Hin') as (-> & _ & L1). apply (inst_trace_geG fuel cs vals1 s1 Pr) in Hin. lia.
  - apply (IH vals1 s1 Pr k n0 n0' Hin Hin').
Qed.

(* ---- what is proved of a leaf (a CInst command) in the final store ----
   [env]: the leaf's own fresh variables, one per schematic variable; under
   every satisfying grounding the leaf's value denotes its declared body under
   the substitution  i |-> den th (env_i) *)
Definition leaf_semG (n0 : nat) (s : store) (vals : list tyv) (k : nat) (sch : schema) : Prop :=
  let env := map V (seq n0 (s_n sch)) in
    forall th, sat H th s ->
      (forall i, wf_ty H (sig_of th env i)) /\
      sinst H (sig_of th env) (s_body sch) (den th (val vals k)) /\
      (nowild (s_body sch) = true -> den th (val vals k) = ssubst (sig_of th env) (s_body sch)).

Lemma leaf_semG_of_fact n0 s vals k sch : leaf_factG n0 s vals k sch -> leaf_semG n0 s vals k sch.
Proof.
  intros Pi th S. destruct (Pi th S) as (Ws & Si). split; [exact Ws|split; [exact Si|]].
  intros Nw. eapply sinst_nowild; eauto.
Qed.

(* the leaf clauses of ExprSoundSub / ExprSoundElim contain this one *)
Lemma leaf_sem_semG n0 s vals k sch : leaf_sem H n0 s vals k sch -> leaf_semG n0 s vals k sch.
Proof. intros (A & _). exact A. Qed.

Lemma leaf_semE_semG n0 s vals k sch : leaf_semE H n0 s vals k sch -> leaf_semG n0 s vals k sch.
Proof. intros (A & _). exact A. Qed.

(* every CInst of an accepted program of the class *)
Theorem prog_leaves_gen fuel sc prog vals s : progG H 0 prog ->
  run_cmds H fuel prog 0 [] (empty_store sc) = (None, vals, s) ->
  forall k sch, In (k, sch) (insts_of prog 0) ->
  exists n0, In (k, n0) (prog_vars H fuel sc prog) /\ leaf_semG n0 s vals k sch.
Proof.
  intros P R k sch Hin.
  destruct (run_cmds_leavesG fuel prog 0 [] (empty_store sc) vals s (JG_empty H sc)
              (Forall_nil _) P R k sch Hin) as (n0 & Hn0 & Lf).
  exists n0. split; [exact Hn0|]. apply leaf_semG_of_fact. exact Lf.
Qed.

(* the semantic reading of every command, as for the constraint-free class *)
Theorem prog_sem_gen fuel sc prog vals s : progG H 0 prog ->
  run_cmds H fuel prog 0 [] (empty_store sc) = (None, vals, s) ->
  forall th, sat H th s ->
  (forall f x r, In (f, x, r) (steps_of prog 0) ->
     StepSem H th (val vals f) (val vals x) (val vals r)) /\
  (forall k sch, In (k, sch) (insts_of prog 0) -> is_inst H th sch (val vals k)) /\
  (forall a b, In (a, b) (unifs_of prog) -> Sub H (den th (val vals a)) (den th (val vals b))) /\
  (forall a r, In (a, r) (fixes_of prog 0) -> den th (val vals r) = den th (val vals a)).
Proof.
  intros P R th S.
  destruct (gen_sound_cmds H W fuel sc prog vals s P R th S) as (C & D).
  split; [exact (gen_sound H W fuel sc prog vals s P R th S)|split; [|split; [exact C|exact D]]].
  intros k sch Hin.
  destruct (prog_leaves_gen fuel sc prog vals s P R k sch Hin) as (n0 & _ & Lf).
  destruct (Lf th S) as (Ws & Si & _). eexists. split; [exact Ws|exact Si].
Qed.

Theorem prog_satisfiable_gen fuel sc prog vals s : progG H 0 prog ->
  run_cmds H fuel prog 0 [] (empty_store sc) = (None, vals, s) ->
  exists th, sat H th s /\ forall v, c_bound (cell_of s v) = None -> th v = canon s v.
Proof. apply (gen_satisfiable H W). Qed.

(* ================================================================== *)
(* Part 3.  Expression trees                                            *)
(* ================================================================== *)
(* operator leaves may carry arbitrary well-scoped constraints *)
Fixpoint leaves_okG (e : expr) : Prop :=
  match e with
  | EOp sc => styg H (s_n sc) (s_body sc) /\ Forall (scg H (s_n sc)) (s_constrs sc)
  | ESrc t => styg H (sbound t) t
  | EApp f x => leaves_okG f /\ leaves_okG x
  end.

Lemma nxts_code e : forall n m, nxts (code e n) m = m + size e.
Proof.
  induction e as [sc|t|f IHf x IHx]; intros n m; cbn [code size nxts nxt]; try lia.
  rewrite !nxts_app, IHf, IHx. cbn [nxts nxt]. lia.
Qed.

Lemma code_progG e : leaves_okG e -> forall n, progG H n (code e n).
Proof.
  induction e as [sc|t|f IHf x IHx]; intros L n; cbn [code leaves_okG] in *.
  - destruct L as [Sb Pc]. split; [constructor; auto|exact I].
  - split; [constructor; [exact L|constructor]|exact I].
  - destruct L as [Lf Lx]. apply progG_app; [apply IHf; exact Lf|]. rewrite nxts_code.
    apply progG_app; [apply IHx; exact Lx|]. rewrite nxts_code.
    pose proof (size_pos f). pose proof (size_pos x).
    split; [|exact I]. unfold vidx. constructor; lia.
Qed.

Theorem compile_wfG e : leaves_okG e -> progG H 0 (prog_of e) /\ prog_wf 0 (prog_of e).
Proof.
  intros L. rewrite prog_of_code. pose proof (code_progG e L 0) as P.
  split; [exact P|apply (progG_wf H); exact P].
Qed.

Theorem expr_gen e fuel sc vals s : leaves_okG e ->
  run_cmds H fuel (prog_of e) 0 [] (empty_store sc) = (None, vals, s) ->
  (forall th, sat H th s -> forall f x r, In (f, x, r) (nodes e 0) ->
     StepSem H th (val vals f) (val vals x) (val vals r)) /\
  (forall k sch, In (k, sch) (leaves e 0) ->
     exists n0, In (k, n0) (prog_vars H fuel sc (prog_of e)) /\ leaf_semG n0 s vals k sch).
Proof.
  intros L R. rewrite prog_of_code in R.
  pose proof (code_progG e L 0) as P. split.
  - intros th S f x r Hin. rewrite <- steps_code0 in Hin.
    apply (gen_sound H W fuel sc _ vals s P R th S). exact Hin.
  - intros k sch Hin. rewrite <- insts_code0 in Hin. rewrite prog_of_code.
    apply (prog_leaves_gen fuel sc _ vals s P R k sch Hin).
Qed.

Theorem expr_gen_satisfiable e fuel sc vals s : leaves_okG e ->
  run_cmds H fuel (prog_of e) 0 [] (empty_store sc) = (None, vals, s) ->
  exists th, sat H th s /\ forall v, c_bound (cell_of s v) = None -> th v = canon s v.
Proof.
  intros L R. rewrite prog_of_code in R.
  apply (gen_satisfiable H W fuel sc _ vals s (code_progG e L 0) R).
Qed.

(* ================================================================== *)
(* Part 4.  The whole compiled program: numbered inputs, annotations,   *)
(* typed-source self-unification, the fix traversal                     *)
(* ================================================================== *)
(* k = number of inputs; operator leaves may carry arbitrary constraints *)
Fixpoint xokG (k : nat) (e : xexpr) : Prop :=
  match e with
  | XOp sc _ => styg H (s_n sc) (s_body sc) /\ Forall (scg H (s_n sc)) (s_constrs sc)
  | XSrc t => styg H (sbound t) t
  | XIn i => i < k
  | XApp f x => xokG k f /\ xokG k x
  | XAnn e T => xokG k e /\ styg H (sbound T) T
  end.

Lemma xokG_erase k e : xokG k e -> xok H k (xerase e).
Proof.
  induction e as [sc data|t|i|f IHf x IHx|e IHe T]; cbn [xok xokG xerase]; auto.
  - intros (Sb & _). split; [reflexivity|exact Sb].
  - intros (Kf & Kx). auto.
  - intros (Ke & KT). auto.
Qed.

(* the constraints of every CInst are well scoped *)
Definition scgcmd (c : cmd) : Prop :=
  match c with CInst sc => Forall (scg H (s_n sc)) (s_constrs sc) | _ => True end.

Lemma progG_of_erase : forall cs n, progQ H n (map erase_cmd cs) -> Forall scgcmd cs -> progG H n cs.
Proof.
  induction cs as [|c cs IH]; intros n P F; cbn [map progQ progG] in *; [exact I|].
  destruct P as [Pc Pr]. inversion F as [|? ? Fc Fr]; subst. rewrite nxt_erase in Pr.
  split; [|apply IH; auto].
  destruct c as [sc|f x b|a b sub|a pl]; cbn [erase_cmd scgcmd] in *; inversion Pc; subst; constructor; auto.
Qed.

Lemma xcompile_scgcmd k e : xokG k e -> forall n, Forall scgcmd (fst (fst (xcompile e n))).
Proof.
  induction e as [sc data|t|i|f IHf x IHx|e IHe T]; intros K n; cbn [xcompile xokG] in *.
  - cbn. constructor; [apply K|constructor].
  - cbn [fst]. constructor; [constructor|]. destruct (is_wild t); repeat constructor.
  - constructor.
  - destruct K as [Kf Kx]. specialize (IHf Kf n). destruct (xcompile f n) as [[cf nf] n1].
    specialize (IHx Kx n1). destruct (xcompile x n1) as [[cx nx] n2]. cbn [fst snd] in *.
    apply Forall_app. split; [exact IHf|]. apply Forall_app. split; [exact IHx|repeat constructor].
  - destruct K as [Ke KT]. specialize (IHe Ke n). destruct (xcompile e n) as [[ce ne] n1]. cbn [fst snd] in *.
    apply Forall_app. split; [exact IHe|repeat constructor].
Qed.

Lemma fixc_scgcmd nd : Forall scgcmd (fixc nd).
Proof.
  induction nd as [v|v|v f IHf x IHx]; cbn [fixc]; repeat constructor.
  apply Forall_app. split; [exact IHf|]. apply Forall_app. split; [exact IHx|repeat constructor].
Qed.

Theorem xprog_okG inputs e : Forall (fun t => styg H (sbound t) t) inputs -> xokG (length inputs) e ->
  progG H 0 (xprog inputs e).
Proof.
  intros Fi K. apply progG_of_erase.
  - rewrite <- xprog_erase. apply xprog_ok; [exact Fi|apply xokG_erase; exact K].
  - unfold xprog. pose proof (xcompile_scgcmd _ e K (length inputs)) as Fc.
    destruct (xcompile e (length inputs)) as [[cs nd] n1]. cbn [fst] in Fc.
    apply Forall_app. split; [|apply Forall_app; split; [exact Fc|apply fixc_scgcmd]].
    unfold input_cmds. rewrite Forall_forall. intros c Hc. apply in_map_iff in Hc.
    destruct Hc as (t & <- & _). constructor.
Qed.

(* C04 for the whole compiled program over operators with arbitrary constraints *)
Theorem xexpr_gen inputs e fuel sc vals s :
  Forall (fun t => styg H (sbound t) t) inputs -> xokG (length inputs) e ->
  run_cmds H fuel (xprog inputs e) 0 [] (empty_store sc) = (None, vals, s) ->
  (forall th, sat H th s ->
     let k := length inputs in
     let '(cs, nd, n1) := xcompile e k in
     (forall i t, nth_error inputs i = Some t -> is_inst H th (src_schema t) (val vals i)) /\
     xsem H th vals e k /\ nsem H th vals nd /\
     nsem H th vals (fst (fixed nd n1)) /\
     den th (val vals (nval (fst (fixed nd n1)))) = den th (val vals (nval nd))) /\
  (forall k sch, In (k, sch) (insts_of (xprog inputs e) 0) ->
     exists n0, In (k, n0) (prog_vars H fuel sc (xprog inputs e)) /\ leaf_semG n0 s vals k sch) /\
  (forall k sch, In (k, sch) (xleaves e (length inputs)) ->
     exists n0, In (k, n0) (prog_vars H fuel sc (xprog inputs e)) /\ leaf_semG n0 s vals k sch).
Proof.
  intros Fi K R. pose proof (xprog_okG inputs e Fi K) as P.
  assert (Lf : forall k sch, In (k, sch) (insts_of (xprog inputs e) 0) ->
            exists n0, In (k, n0) (prog_vars H fuel sc (xprog inputs e)) /\ leaf_semG n0 s vals k sch).
  { intros k sch Hin. apply (prog_leaves_gen fuel sc _ vals s P R k sch Hin). }
  split; [|split; [exact Lf|]].
  - intros th S. cbv zeta.
    destruct (progG_final fuel sc _ vals s P R) as (_ & _ & _ & Sem).
    specialize (Sem th S). rewrite <- xprog_erase in Sem.
    pose proof (xsound_of_sem H inputs (xerase e) th vals Fi Sem) as X.
    cbv zeta in X. rewrite xcompile_erase in X.
    destruct (xcompile e (length inputs)) as [[cs nd] n1]. cbn [fst snd] in X.
    rewrite xsem_erase in X. exact X.
  - intros k sch Hin. apply Lf. apply (xleaves_xprog H inputs e Fi). exact Hin.
Qed.

(* the annotations of a tree: (value index of the annotated sub-expression,
   value index of the instance of T, T) *)
Fixpoint xanns (e : xexpr) (n : nat) : list (nat * nat * sty) :=
  match e with
  | XApp f x => xanns f n ++ xanns x (snd (xcompile f n))
  | XAnn e T => xanns e n ++ [(nval (snd (fst (xcompile e n))), snd (xcompile e n), T)]
  | _ => []
  end.

(* every annotation `e : T` of a well-typed tree holds *)
Lemma xsem_anns th vals e : forall n, xsem H th vals e n ->
  forall a b T, In (a, b, T) (xanns e n) ->
    is_inst H th (src_schema T) (val vals b) /\
    Sub H (den th (val vals a)) (den th (val vals b)) /\
    (sbound T = 0 -> nowild T = true -> Sub H (den th (val vals a)) (sty_ty T)).
Proof.
  induction e as [sc data|t|i|f IHf x IHx|e IHe T0]; intros n X a b T Hin; cbn [xanns xsem] in *;
    try (destruct Hin; fail).
  - specialize (IHf n). destruct (xcompile f n) as [[cf nf] n1]. cbn [fst snd] in *.
    specialize (IHx n1). destruct (xcompile x n1) as [[cx nx] n2].
    destruct X as (Xf & Xx & _). apply in_app_or in Hin. destruct Hin as [Hin|Hin]; eauto.
  - specialize (IHe n). destruct (xcompile e n) as [[ce ne] n1]. cbn [fst snd] in *.
    destruct X as (Xe & Xi & Xs). apply in_app_or in Hin. destruct Hin as [Hin|[[= <- <- <-]|[]]]; eauto.
    split; [exact Xi|split; [exact Xs|]]. intros B Nw.
    rewrite <- (closed_inst H th T0 _ B Nw Xi). exact Xs.
Qed.

Theorem xexpr_gen_anns inputs e fuel sc vals s :
  Forall (fun t => styg H (sbound t) t) inputs -> xokG (length inputs) e ->
  run_cmds H fuel (xprog inputs e) 0 [] (empty_store sc) = (None, vals, s) ->
  forall th, sat H th s ->
  forall a b T, In (a, b, T) (xanns e (length inputs)) ->
    is_inst H th (src_schema T) (val vals b) /\
    Sub H (den th (val vals a)) (den th (val vals b)) /\
    (sbound T = 0 -> nowild T = true -> Sub H (den th (val vals a)) (sty_ty T)).
Proof.
  intros Fi K R th S.
  destruct (xexpr_gen inputs e fuel sc vals s Fi K R) as (A & _). specialize (A th S). cbv zeta in A.
  destruct (xcompile e (length inputs)) as [[cs nd] n1]. destruct A as (_ & Xs & _).
  apply xsem_anns. exact Xs.
Qed.

Theorem xexpr_gen_satisfiable inputs e fuel sc vals s :
  Forall (fun t => styg H (sbound t) t) inputs -> xokG (length inputs) e ->
  run_cmds H fuel (xprog inputs e) 0 [] (empty_store sc) = (None, vals, s) ->
  exists th, sat H th s /\ forall v, c_bound (cell_of s v) = None -> th v = canon s v.
Proof.
  intros Fi K R. apply (gen_satisfiable H W fuel sc _ vals s (xprog_okG inputs e Fi K) R).
Qed.

(* ================================================================== *)
(* Part 5.  The existing classes are sub-classes                        *)
(* ================================================================== *)
Lemma pscE_scg n sc : pscE H n sc -> scg H n sc.
Proof. intros [P|P]; [apply psc_scg|apply pec_scg]; exact P. Qed.

Lemma leaves_okE_okG e : leaves_okE H e -> leaves_okG e.
Proof.
  induction e as [sc|t|f IHf x IHx]; cbn [leaves_okE leaves_okG]; auto.
  - intros (Sb & Pc). split; [exact Sb|]. eapply Forall_impl; [|exact Pc]. intros a. apply pscE_scg.
  - intros (Lf & Lx). auto.
Qed.

Lemma leaves_okS_okG e : leaves_okS H e -> leaves_okG e.
Proof. intros L. apply leaves_okE_okG. apply leaves_okS_okE. exact L. Qed.

Lemma leaves_ok_okG e : leaves_ok H e -> leaves_okG e.
Proof. intros L. apply leaves_okS_okG. apply leaves_ok_okS. exact L. Qed.

Lemma xokE_okG k e : xokE H k e -> xokG k e.
Proof.
  induction e as [sc data|t|i|f IHf x IHx|e IHe T]; cbn [xokE xokG]; auto.
  - intros (Sb & Pc). split; [exact Sb|]. eapply Forall_impl; [|exact Pc]. intros a. apply pscE_scg.
  - intros (Kf & Kx). auto.
  - intros (Ke & KT). auto.
Qed.

Lemma xokS_okG k e : xokS H k e -> xokG k e.
Proof. intros K. apply xokE_okG. apply xokS_okE. exact K. Qed.

Lemma xok_okG k e : xok H k e -> xokG k e.
Proof. intros K. apply xokS_okG. apply xok_okS. exact K. Qed.

Lemma progEQ_progG : forall cs n, progEQ H n cs -> progG H n cs.
Proof.
  induction cs as [|c cs IH]; intros n P; cbn [progG]; [exact I|].
  destruct P as [Pc Pr]. split; [|apply IH; exact Pr].
  destruct Pc as [sc Sb Pc|f x b Lf Lx|a b La Lb|a pl La]; constructor; auto.
  eapply Forall_impl; [|exact Pc]. intros k. apply pscE_scg.
Qed.

End ProgsG.
