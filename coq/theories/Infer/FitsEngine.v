(* C06 (link between the specification of Infer/Fits.v and the engine model):
   on the faithful fuelled model of Infer/Engine.v the simplest family of
   elimination-constrained signatures, `a ** a [a << {B}]` with one base-type
   alternative B, applied to a base type A, is accepted exactly when A fits B,
   for EVERY well-formed hierarchy, all base operators A and B (including Top
   and Bottom) and every sufficient fuel.

   Method: symbolic execution of the model.  The hierarchy is abstract, so the
   run is driven step by step: fuel is kept as a chain of variables
   n0 = S n1, n1 = S n2, ... and only the call in head position is given one
   more unit ([c06_bump1]) and unfolded by one of the equations [unify_S] ...
   [fix_ty_S] (each proved by [reflexivity] from the text of Engine.v), so that
   continuations are never unfolded; the observations of the hierarchy the run
   asks for (variance of A, B, Function; operator order) are rewritten from
   hypotheses ([facts]). *)
From Coq Require Import List Arith Bool Lia.
Import ListNotations.
From TF Require Import Base.Hier Base.Ty Sub.Match Sub.SubSpec Sub.SubProofs
  Infer.Store Infer.Engine Infer.Run Infer.Fits.

Definition single_schema (b : nat) : schema :=
  mkSchema 1 (SOp Function [SVar 0; SVar 0]) [SCElim (SVar 0) [SOp b []]].
Definition conc_schema (a : nat) : schema := mkSchema 0 (SOp a []) [].
Definition single_prog (a b : nat) : list cmd :=
  [CInst (single_schema b); CInst (conc_schema a); CApply 0 1 true].

(* evaluation control: the monad operations unfold when applied to a store, the
   mutually recursive core never unfolds by itself (one level at a time with the
   equations below), the operator order stays symbolic *)
Local Arguments op_subtype : simpl never.
Local Arguments bindM {A B} m f s /.
Local Arguments gets {A} f s /.
Local Arguments ret {A} a s /.
Local Arguments fail {A} e s /.
Local Arguments modify f s /.
Local Arguments lift {A} r s /.
Local Arguments fresh wild s /.
Local Arguments next_choice s /.
Local Arguments unify : simpl never.
Local Arguments bind : simpl never.
Local Arguments above : simpl never.
Local Arguments below : simpl never.
Local Arguments check_constraints : simpl never.
Local Arguments fulfill : simpl never.
Local Arguments minimize : simpl never.
Local Arguments fix_ty : simpl never.

Section Unfold.
  Variable H : hier.
  Local Notation unify := (Engine.unify H).
  Local Notation bind := (Engine.bind H).
  Local Notation above := (Engine.above H).
  Local Notation below := (Engine.below H).
  Local Notation check_constraints := (Engine.check_constraints H).
  Local Notation fulfill := (Engine.fulfill H).
  Local Notation minimize := (Engine.minimize H).
  Local Notation fix_ty := (Engine.fix_ty H).
  Local Notation basic := (Engine.basic H).
  Local Notation osub := (Engine.osub H).
  Local Notation match_f := (Engine.match_f H).
  Local Notation occurs_f := (Engine.occurs_f H).

  Lemma unify_S f sub skb skw a0 b0 :
    unify (S f) sub skb skw a0 b0 =
        a <- gets (fun s => follow s a0) ;;
        b <- gets (fun s => follow s b0) ;;
        match a, b with
        | V va, V vb =>
            wa <- gets (fun s => c_wild (cell_of s va)) ;;
            wb <- gets (fun s => c_wild (cell_of s vb)) ;;
            if negb skw || negb (wa && wb) then bind f va b else ret tt
        | O oa xs, O ob ys =>
            if Nat.eqb oa Bottom || Nat.eqb ob Top then ret tt
            else if basic oa then
              if skb then ret tt
              else if sub && negb (osub false oa ob) then fail ESubtypeMismatch
              else if negb sub && negb (Nat.eqb oa ob) then fail ETypeMismatch
              else ret tt
            else if Nat.eqb oa ob then
              (fix go (vs : list bool) (xs ys : list tyv) : M unit :=
                 match vs, xs, ys with
                 | v :: vs', x :: xs', y :: ys' =>
                     (if v then unify f sub skb skw x y else unify f sub skb skw y x) ;;;
                     go vs' xs' ys'
                 | _, _, _ => ret tt
                 end) (variance H oa) xs ys
            else fail ETypeMismatch
        | V va, O ob ys =>
            if Nat.eqb ob Top then ret tt
            else
              oc <- lift (fun s => occurs_f f s b a) ;;
              if oc then fail ERecursive
              else if basic ob then
                wa <- gets (fun s => c_wild (cell_of s va)) ;;
                if skb || (skw && wa) then ret tt
                else if sub then below f va ob
                else bind f va b
              else if skw || skb then
                fr <- fresh_list (length ys) ;;
                bind f va (O ob fr) ;;;
                unify f sub skb skw a b
              else bind f va b
        | O oa xs, V vb =>
            if Nat.eqb oa Bottom then ret tt
            else
              oc <- lift (fun s => occurs_f f s a b) ;;
              if oc then fail ERecursive
              else if basic oa then
                wb <- gets (fun s => c_wild (cell_of s vb)) ;;
                if skb || (skw && wb) then ret tt
                else if sub then above f vb oa
                else bind f vb a
              else if skw || skb then
                fr <- fresh_list (length xs) ;;
                bind f vb (O oa fr) ;;;
                unify f sub skb skw b b          (* sic: line 627 unifies b with itself *)
              else bind f vb a
        end.
  Proof. reflexivity. Qed.

  Lemma bind_S f v t :
    bind (S f) v t =
        c <- gets (fun s => cell_of s v) ;;
        match c_bound c with
        | Some _ => fail (ECrash site_bind_twice)
        | None =>
            set_wild v false ;;;
            match t with
            | V w =>
                if Nat.eqb v w then ret tt
                else
                  set_bound v (Some t) ;;;
                  (* t._constraints.update(self._constraints); self._constraints = t._constraints *)
                  modify (fun s =>
                    let iv := c_cs (cell_of s v) in
                    let iw := c_cs (cell_of s w) in
                    set_cset s iw (union (cset_of s iv) (cset_of s iw))) ;;;
                  iw <- gets (fun s => c_cs (cell_of s w)) ;;
                  set_cs v iw ;;;
                  set_wild w false ;;;
                  (match c_lower c with Some l => above f w l | None => ret tt end) ;;;
                  (match c_upper c with Some u => below f w u | None => ret tt end) ;;;
                  check_constraints f v
            | O o args =>
                set_bound v (Some t) ;;;
                (if basic o then
                   if (match c_lower c with Some l => osub true o l | None => false end)
                   then fail ESubtypeMismatch
                   else if (match c_upper c with Some u => osub true u o | None => false end)
                   then fail ESubtypeMismatch
                   else ret tt
                 else if (match c_lower c, c_upper c with None, None => false | _, _ => true end)
                 then fail ETypeMismatch      (* a variable bounded by base types is a base type *)
                 else
                   vs <- lift (fun s => vars_f f s t []) ;;
                   modify (fun s =>
                     let iv := c_cs (cell_of s v) in
                     let all := fold_right (fun w acc => union (cset_of s (c_cs (cell_of s w))) acc)
                                           (cset_of s iv) vs in
                     set_cset s iv all) ;;;
                   iv <- gets (fun s => c_cs (cell_of s v)) ;;
                   forM vs (fun w => set_cs w iv)) ;;;
                check_constraints f v
            end
        end.
  Proof. reflexivity. Qed.

  Lemma above_S f v new :
    above (S f) v new =
        if Nat.eqb new Top then bind f v (O Top [])
        else
          set_wild v false ;;;
          c <- gets (fun s => cell_of s v) ;;
          match c_bound c with
          | Some t => unify f true false false (O new []) t   (* already resolved: check the resolved type *)
          | None =>
              (match c_upper c, c_lower c with
               | Some u, _ =>
                   if osub true u new then fail ESubtypeMismatch
                   else if negb (osub false new u) then fail ESubtypeMismatch
                   else match c_lower c with
                        | Some l =>
                            if osub true new l then ret tt
                            else if osub false l new then set_lower v (Some new) ;;; check_constraints f v
                            else fail ESubtypeMismatch
                        | None => set_lower v (Some new) ;;; check_constraints f v
                        end
               | None, Some l =>
                   if osub true new l then ret tt
                   else if osub false l new then set_lower v (Some new) ;;; check_constraints f v
                   else fail ESubtypeMismatch
               | None, None => set_lower v (Some new) ;;; check_constraints f v
               end) ;;;
              c' <- gets (fun s => cell_of s v) ;;
              match c_bound c', c_lower c', c_upper c' with
              | None, Some l, Some u => if Nat.eqb l u then bind f v (O l []) else ret tt
              | _, _, _ => ret tt
              end
          end.
  Proof. reflexivity. Qed.

  Lemma below_S f v new :
    below (S f) v new =
        if Nat.eqb new Bottom then bind f v (O Bottom [])
        else
          set_wild v false ;;;
          c <- gets (fun s => cell_of s v) ;;
          match c_bound c with
          | Some t => unify f true false false t (O new [])
          | None =>
              (match c_lower c, c_upper c with
               | Some l, _ =>
                   if osub true new l then fail ESubtypeMismatch
                   else if negb (osub false l new) then fail ESubtypeMismatch
                   else match c_upper c with
                        | Some u =>
                            if osub true u new then ret tt
                            else if osub false new u then set_upper v (Some new) ;;; check_constraints f v
                            else fail ESubtypeMismatch
                        | None => set_upper v (Some new) ;;; check_constraints f v
                        end
               | None, Some u =>
                   if osub true u new then ret tt
                   else if osub false new u then set_upper v (Some new) ;;; check_constraints f v
                   else fail ESubtypeMismatch
               | None, None => set_upper v (Some new) ;;; check_constraints f v
               end) ;;;
              c' <- gets (fun s => cell_of s v) ;;
              match c_bound c', c_upper c', c_lower c' with
              | None, Some u, Some l => if Nat.eqb u l then bind f v (O u []) else ret tt
              | _, _, _ => ret tt
              end
          end.
  Proof. reflexivity. Qed.

  Lemma check_constraints_S f v :
    check_constraints (S f) v =
        pending <- gets (fun s => cset_of s (c_cs (cell_of s v))) ;;
        order <- (if 2 <=? length pending
                  then r <- next_choice ;; ret (permute (length pending) r pending)
                  else ret pending) ;;
        forM order (fun c =>
          done <- fulfill f c ;;
          if done then
            modify (fun s => let i := c_cs (cell_of s v) in set_cset s i (remove_nat c (cset_of s i)))
          else ret tt).
  Proof. reflexivity. Qed.

  Lemma fulfill_S f c :
    fulfill (S f) c =
        k <- gets (fun s => constr_of s c) ;;
        if k_elim k then
          if k_done k then ret true
          else
            minimize f c ;;;
            k1 <- gets (fun s => constr_of s c) ;;
            norm <- gets (fun s => forallb (fun t => match t with
                                                   | V v => match c_bound (cell_of s v) with Some _ => false | None => true end
                                                   | O _ _ => true end) (constr_terms k1)) ;;
            if negb norm then fail (ECrash site_elim_normalized)
            else
              alts <- lift (fun s =>
                (fix go (l : list tyv) : res (list tyv) :=
                   match l with
                   | [] => Ok []
                   | t :: r =>
                       match match_f f s true true (k_ref k1) t with
                       | Er e => Er e
                       | Ok (Some false) => go r
                       | Ok _ => match go r with Er e => Er e | Ok r' => Ok (t :: r') end
                       end
                   end) (k_alts k1)) ;;
              upd_constr c (fun k => mkConstr true (k_ref k) alts (k_strict k) (k_done k)) ;;;
              match alts with
              | [] => fail EConstraintViolation
              | [t] =>
                  upd_constr c (fun k => mkConstr true (k_ref k) (k_alts k) (k_strict k) true) ;;;
                  unify f true false false (k_ref k1) t ;;;
                  d <- gets (fun s => k_done (constr_of s c)) ;; ret d
              | _ => d <- gets (fun s => k_done (constr_of s c)) ;; ret d
              end
        else
          match k_alts k with
          | [target] =>
              unify f true true false (k_ref k) target ;;;
              r <- lift (fun s => match_f f s true false (k_ref k) target) ;;
              match r with
              | Some true =>
                  same <- (if k_strict k
                           then lift (fun s => match_f f s false false (k_ref k) target)
                           else ret (Some false)) ;;
                  match same with
                  | Some true => fail EConstraintViolation     (* strict excludes equality *)
                  | None => d <- gets (fun s => k_done (constr_of s c)) ;; ret d
                  | Some false =>
                      upd_constr c (fun k => mkConstr false (k_ref k) (k_alts k) (k_strict k) true) ;;;
                      ret true
                  end
              | Some false => fail EConstraintViolation
              | None => d <- gets (fun s => k_done (constr_of s c)) ;; ret d
              end
          | _ => fail (ECrash site_arity)
          end.
  Proof. reflexivity. Qed.

  Lemma minimize_S f c :
    minimize (S f) c =
        k <- gets (fun s => constr_of s c) ;;
        mins <-
          (fix outer (objs : list tyv) (mins : list tyv) : M (list tyv) :=
             match objs with
             | [] => ret mins
             | obj :: rest =>
                 r <- (fix inner (pre post : list tyv) (add : bool) : M (list tyv * bool) :=
                         match post with
                         | [] => ret (pre, add)
                         | mi :: post' =>
                             r1 <- lift (fun s => match_f f s true false mi obj) ;;
                             mi' <- (match r1 with
                                     | Some true => gets (fun s => follow s obj)
                                     | _ => ret mi end) ;;
                             r2 <- lift (fun s => match_f f s true false obj mi') ;;
                             inner (pre ++ [mi']) post'
                                   (match r2 with Some true => false | _ => add end)
                         end) [] mins true ;;
                 let (mins', add) := r in
                 if add then
                   o <- gets (fun s => follow s obj) ;;
                   o' <- fix_ty f true o ;;
                   outer rest (mins' ++ [o'])
                 else outer rest mins'
             end) (k_alts k) [] ;;
        rf <- gets (fun s => follow s (k_ref k)) ;;
        mins' <- gets (fun s => map (follow s) mins) ;;
        upd_constr c (fun k => mkConstr (k_elim k) rf mins' (k_strict k) (k_done k)).
  Proof. reflexivity. Qed.

  Lemma fix_ty_S f prefer_lower t :
    fix_ty (S f) prefer_lower t =
        a <- gets (fun s => follow s t) ;;
        (match a with
         | O o args =>
             (fix go (vs : list bool) (ps : list tyv) : M unit :=
                match vs, ps with
                | v :: vs', p :: ps' =>
                    fix_ty f (if v then prefer_lower else negb prefer_lower) p ;;; go vs' ps'
                | _, _ => ret tt
                end) (variance H o) args
         | V v =>
             c <- gets (fun s => cell_of s v) ;;
             if prefer_lower then
               match c_lower c with Some l => bind f v (O l []) | None => ret tt end
             else
               match c_upper c with Some u => bind f v (O u []) | None => ret tt end
         end) ;;;
        gets (fun s => follow s a).
  Proof. reflexivity. Qed.
End Unfold.

(* give the call in head position (the only closed one) fuel [m] instead of [n] *)
Ltac c06_bump1 n m En :=
  match goal with
  | |- context [unify ?H n ?a ?b ?c ?d ?e ?s] => replace (unify H n a b c d e s) with (unify H m a b c d e s) by (rewrite En; reflexivity); rewrite unify_S
  | |- context [bind ?H n ?a ?b ?s] => replace (bind H n a b s) with (bind H m a b s) by (rewrite En; reflexivity); rewrite bind_S
  | |- context [above ?H n ?a ?b ?s] => replace (above H n a b s) with (above H m a b s) by (rewrite En; reflexivity); rewrite above_S
  | |- context [below ?H n ?a ?b ?s] => replace (below H n a b s) with (below H m a b s) by (rewrite En; reflexivity); rewrite below_S
  | |- context [check_constraints ?H n ?a ?s] => replace (check_constraints H n a s) with (check_constraints H m a s) by (rewrite En; reflexivity); rewrite check_constraints_S
  | |- context [fulfill ?H n ?a ?s] => replace (fulfill H n a s) with (fulfill H m a s) by (rewrite En; reflexivity); rewrite fulfill_S
  | |- context [minimize ?H n ?a ?s] => replace (minimize H n a s) with (minimize H m a s) by (rewrite En; reflexivity); rewrite minimize_S
  | |- context [fix_ty ?H n ?a ?b ?s] => replace (fix_ty H n a b s) with (fix_ty H m a b s) by (rewrite En; reflexivity); rewrite fix_ty_S
  | |- context [match_f ?H n ?s ?a ?b ?c ?d] => replace (match_f H n s a b c d) with (match_f H m s a b c d) by (rewrite En; reflexivity)
  | |- context [occurs_f ?H n ?s ?a ?b] => replace (occurs_f H n s a b) with (occurs_f H m s a b) by (rewrite En; reflexivity)
  | |- context [vars_f n ?s ?a ?b] => replace (vars_f n s a b) with (vars_f m s a b) by (rewrite En; reflexivity)
  | |- context [closure_f n ?s ?a ?b] => replace (closure_f n s a b) with (closure_f m s a b) by (rewrite En; reflexivity)
  end.
Section Single.
Variable H : hier.
Hypothesis W : wf_hier H.

Lemma strict_irrefl o : op_subtype H true (S (S o)) (S (S o)) = false.
Proof.
  destruct (op_subtype H true (S (S o)) (S (S o))) eqn:E; auto.
  apply op_subtype_strict_spec in E; auto. destruct E as [E|[E|[_ E]]]; try discriminate. congruence.
Qed.
Lemma basic_of o : variance H o = [] -> basic H o = true.
Proof. intros V. unfold basic, arity. now rewrite V. Qed.
Lemma osub_top s x : op_subtype H s x Top = true.
Proof. unfold op_subtype. cbn [Nat.eqb Top]. now rewrite orb_true_r. Qed.
Lemma osub_bot s x : op_subtype H s Bottom x = true.
Proof. unfold op_subtype. cbn [Nat.eqb Bottom]. now rewrite orb_true_r. Qed.
Lemma osub_false x y : x <> Bottom -> y <> Top -> ~ Anc H x y -> op_subtype H false x y = false.
Proof.
  intros NB NT NA. destruct (op_subtype H false x y) eqn:E; auto.
  apply op_subtype_ns_spec in E; auto. destruct E as [E|[E|E]]; contradiction.
Qed.
Lemma osub_top_l y : op_subtype H false Top (S y) = false.
Proof.
  apply osub_false; try discriminate. intros A. apply (Anc_top H W) in A. discriminate.
Qed.
Lemma osub_to_bot x : op_subtype H false (S (S x)) Bottom = false.
Proof.
  apply osub_false; try discriminate. intros A. apply (Anc_to_bot H W) in A. discriminate.
Qed.
Lemma osub_strict_top_l y : op_subtype H true Top (S y) = false.
Proof.
  destruct (op_subtype H true Top (S y)) eqn:E; auto.
  apply op_subtype_strict_spec in E; auto. destruct E as [E|[E|[A _]]]; try discriminate.
  apply (Anc_top H W) in A. discriminate.
Qed.

Lemma osub_top' s x : op_subtype H s x 0 = true. Proof. exact (osub_top s x). Qed.
Lemma osub_bot' s x : op_subtype H s 1 x = true. Proof. exact (osub_bot s x). Qed.
Lemma osub_top_l' y : op_subtype H false 0 (S y) = false. Proof. exact (osub_top_l y). Qed.
Lemma osub_to_bot' x : op_subtype H false (S (S x)) 1 = false. Proof. exact (osub_to_bot x). Qed.
Lemma osub_strict_top_l' y : op_subtype H true 0 (S y) = false. Proof. exact (osub_strict_top_l y). Qed.
Lemma basic_top : basic H Top = true. Proof. apply basic_of, (var_top H W). Qed.
Lemma basic_bot : basic H Bottom = true. Proof. apply basic_of, (var_bot H W). Qed.
Lemma basic_top' : basic H 0 = true. Proof. exact basic_top. Qed.
Lemma basic_bot' : basic H 1 = true. Proof. exact basic_bot. Qed.
Lemma vr_top : variance H Top = []. Proof. apply (var_top H W). Qed.
Lemma vr_bot : variance H Bottom = []. Proof. apply (var_bot H W). Qed.
Lemma vr_top' : variance H 0 = []. Proof. exact vr_top. Qed.
Lemma vr_bot' : variance H 1 = []. Proof. exact vr_bot. Qed.

Ltac facts :=
  progress (unfold osub, Top, Bottom;
    rewrite ?strict_irrefl, ?osub_top', ?osub_bot', ?osub_top_l', ?osub_to_bot', ?osub_strict_top_l',
            ?basic_top', ?basic_bot', ?vr_top', ?vr_bot';
    repeat match goal with
    | [E : variance _ _ = _ |- _] => rewrite E
    | [E : basic _ _ = _ |- _] => rewrite E
    | [E : op_subtype _ _ _ _ = _ |- _] => rewrite E
    end).
Ltac bump_any := match goal with [E : ?n = S ?m |- _] => is_var n; is_var m; c06_bump1 n (S m) E end.
Ltac run := cbn; repeat (first [bump_any|facts]; cbn).

Definition outcome (fuel : nat) (sc : list nat) (a b : nat) : option (err * nat) :=
  fst (fst (run_cmds H fuel (single_prog a b) 0 [] (empty_store sc))).

Lemma run_chain a b n0 n1 n2 n3 n4 n5 n6 n7 n8 sc :
  variance H a = [] -> variance H b = [] ->
  n0 = S n1 -> n1 = S n2 -> n2 = S n3 -> n3 = S n4 -> n4 = S n5 -> n5 = S n6 -> n6 = S n7 -> n7 = S n8 ->
  outcome n0 sc a b = if op_subtype H false a b then None else Some (ESubtypeMismatch, 2).
Proof.
  intros Va Vb E0 E1 E2 E3 E4 E5 E6 E7. pose proof (wf_fun H W) as Vf.
  pose proof (basic_of _ Va) as Ba. pose proof (basic_of _ Vb) as Bb.
  unfold outcome, single_prog.
  destruct a as [|[|a']]; destruct b as [|[|b']].
  all: run.
  all: try reflexivity.
  destruct (op_subtype H false (S (S a')) (S (S b'))) eqn:E; run; reflexivity.
Qed.

(* the simplest family: `a ** a [a << {B}]` applied to the base type A.
   Sufficient fuel: 9. *)
Theorem engine_single a b fuel sc :
  variance H a = [] -> variance H b = [] -> 9 <= fuel ->
  outcome fuel sc a b = if op_subtype H false a b then None else Some (ESubtypeMismatch, 2).
Proof.
  intros Va Vb L.
  destruct fuel as [|n1]; [lia|]. destruct n1 as [|n2]; [lia|]. destruct n2 as [|n3]; [lia|].
  destruct n3 as [|n4]; [lia|]. destruct n4 as [|n5]; [lia|]. destruct n5 as [|n6]; [lia|].
  destruct n6 as [|n7]; [lia|]. destruct n7 as [|n8]; [lia|].
  eapply run_chain; eauto.
Qed.

Lemma Sub_base_iff a b : variance H a = [] -> variance H b = [] ->
  (Sub H (TOp a []) (TOp b []) <-> op_subtype H false a b = true).
Proof.
  intros Va Vb. rewrite op_subtype_ns_spec by exact W. split.
  - intros S. inversion S as [t|t|a0 b0 V A|o xs ys Vo AR]; subst; auto. congruence.
  - intros [->|[->|A]]; [constructor|constructor|now constructor].
Qed.

Theorem engine_single_fits a b fuel sc :
  variance H a = [] -> variance H b = [] -> 9 <= fuel ->
  (outcome fuel sc a b = None <-> Fits H (TOp a []) (SOp b [])) /\
  (outcome fuel sc a b = None <-> accept_spec H (TOp a []) [SOp b []] = true) /\
  (outcome fuel sc a b <> None -> outcome fuel sc a b = Some (ESubtypeMismatch, 2)).
Proof.
  intros Va Vb L. rewrite (engine_single a b fuel sc Va Vb L).
  assert (Wx : wf_ty H (TOp a [])) by (apply wf_ty_unfold; rewrite Va; auto).
  assert (Wp : wf_sty H (SOp b [])) by (apply wf_sty_unfold; rewrite Vb; auto).
  assert (Lp : linear (SOp b [])) by constructor.
  assert (F : Fits H (TOp a []) (SOp b []) <-> op_subtype H false a b = true).
  { change (SOp b []) with (sconc (TOp b [])). rewrite (Fits_concrete H W).
    now apply Sub_base_iff. }
  split; [|split].
  - rewrite F. destruct (op_subtype H false a b); split; congruence.
  - unfold accept_spec. cbn [existsb]. rewrite orb_false_r.
    rewrite (fitsb_spec H W _ _ Wx Wp Lp), F.
    destruct (op_subtype H false a b); split; congruence.
  - destruct (op_subtype H false a b); congruence.
Qed.
End Single.
