(* C04, the per-leaf CONSTRAINT clause, for languages whose operators carry
   constraints with CONCRETE targets / alternatives of any shape - class
   [progC] of Infer/SoundElimCS.v:

        x <= T    x < T        SCSub (SVar i) (sconc T) strict
        x << [T1, ..., Tn]     SCElim (SVar i) [sconc T1; ...; sconc Tn]

   x a schematic variable of the signature, T, T1..Tn well-formed concrete
   types (base, F(A), G(B, C), function types, nested).

   Infer/ExprSoundGen.v gives node typing, leaf instances and annotations for
   this class (progC is a sub-class of progG).  What is added here is the
   clause "every declared constraint of an operator leaf whose variable is
   fully resolved HOLDS of that leaf's instantiation", from clause (iii) of
   C03_conc (Infer/SoundElimC.v: every constraint OBJECT of the final store
   whose reference is fully resolved holds by a declared alternative) and the
   allocation bookkeeping that ties the j-th declared constraint of the leaf
   instantiated by the k-th CInst to constraint object c0 + j of the final
   store:

   Part 1  allocation order ([instance_allocC]): an instance of a schema with m
           constraints of class [pcc] allocates exactly m constraint objects,
           in declaration order, the j-th of the declared kind (strictness,
           target), with a reference on the binding chain of the fresh variable
           of the schematic variable it constrains.  Uses the constraint frame
           [kfr] / [kq_all] of Infer/ExprSoundElim.v, which holds of every
           engine operation from every store (no invariant, no class
           assumption), and its [new_constraint_allocE].
   Part 2  along a run of a [progC] program ([run_cmds_kfrC],
           [run_cmds_leavesC]): for the leaf instantiated by the CInst with
           value index k the j-th declared constraint is constraint object
           c0 + j of the FINAL store, entry c0 + j of [declsC prog] is what it
           declares, its kind / strictness / target are as declared and its
           reference is on the binding chain of the leaf's own variable.
   Part 3  a binding chain keeps full resolution and the resolved value
           ([breach_grd]); the leaf clause [leaf_semC] from
           [conc_constraints_hold]; [prog_leaves_conc].
   Part 4  expression trees: [leaves_okC], [code_progC], [leaves_okE_okC],
           [leaves_okC_okG], [expr_conc], [expr_conc_full] (node typing + leaf
           instance of ExprSoundGen + the constraint clause).

   The same for the WHOLE compiled program of harness/c04.py: numbered inputs,
   annotations `e : T` (CInst T; CUnify), typed-source self-unification, data
   operators and the fix traversal of Expr.fix ([xexpr], [xprog] of
   Infer/ExprSound.v).  C03_conc (Infer/SoundElimC.v) covers CInst / CApply
   programs only; its per-operation theorems for unify (subtype mode) and fix -
   forward soundness [unify_soundC] / [fix_soundC] of Infer/SoundElimCS.v and
   the constraint invariant [unifyK] / [fixK] of Infer/SoundElimCK.v - are what
   the two further commands need:

   Part 5  class [progCQ] = CInst ([pcc] constraints) / CApply / CUnify
           (subtype mode) / CFix; the invariants along a run
           ([run_cmds_goodCQ], [run_cmds_finCQ]): JC, dn, inv, Kc for the
           declared context [declsC prog], satisfiability ([finC]).
   Part 6  clause (iii) of C03_conc re-derived from the invariants alone
           ([fin_conc_hold]), so that it applies to [progCQ] programs
           ([concQ_constraints_hold]); the frame and the leaf facts along a
           [progCQ] run ([run_cmds_kfrCQ], [run_cmds_leavesCQ]); the leaf
           clause ([prog_leaves_concQ]).
   Part 7  [xokC], [xprog_okC], [xexpr_conc], [xexpr_conc_full]. *)
From Coq Require Import List Arith Bool Lia Permutation.
Import ListNotations.
From TF Require Import Base.Hier Base.Ty Sub.SubSpec Infer.Store Infer.Engine Infer.Run
  Infer.Witness Infer.Check Infer.Sched Infer.Inv Infer.Sound Infer.SchedIndep Infer.SoundSub
  Infer.ExprSound Infer.ExprSoundSub Infer.ExprSoundElim Infer.SoundGen Infer.ExprSoundGen
  Infer.Fits Infer.ConcMatch Infer.SoundElimCS Infer.SoundElimCK Infer.SoundElimC.
From TF Require Infer.SoundElimS.

Unset Implicit Arguments.

(* the binding chain of Infer/ExprSoundElim.v ([reach] of Infer/SoundElimCK.v is
   a different relation: the unbound variables met below a term) *)
Notation breach := ExprSoundElim.reach.

(* ================================================================== *)
(* Part 1.  Allocation order of the constraints of an instance          *)
(* ================================================================== *)
Section AllocC.
Variable H : hier.
Local Notation pcc := (SoundElimCS.pcc H).

(* what the constraint object created for a declared constraint keeps for ever:
   its kind; a subtype constraint also its strictness and its target *)
Definition kdeclC (sc : sconstr) (k : constr) : Prop :=
  match sc with
  | SCSub _ t st => k_elim k = false /\ k_strict k = st /\ k_alts k = [inj (unconc t)]
  | SCElim _ _ => k_elim k = true
  end.

(* k is the constraint object of the declared constraint sc on the variable x *)
Definition cobjC (s : store) (x : tyv) (sc : sconstr) (k : constr) : Prop :=
  breach s x (k_ref k) /\ kdeclC sc k.

Lemma kdeclC_keep sc s k k' : kdeclC sc k -> kkeep s k k' -> kdeclC sc k'.
Proof.
  intros D (_ & Ee & Es & Ea). destruct sc as [r t st|r alts]; cbn [kdeclC] in *.
  - destruct D as (De & Ds & Da). split; [congruence|split; [congruence|]]. rewrite Ea; auto.
  - congruence.
Qed.

Lemma cobjC_keep s s' x sc k k' : cellext s s' -> cobjC s x sc k -> kkeep s' k k' -> cobjC s' x sc k'.
Proof.
  intros C (R & D) Kk. split; [|eapply kdeclC_keep; eauto].
  eapply ExprSoundElim.reach_trans; [eapply ExprSoundElim.reach_mono; eauto|apply Kk].
Qed.

Lemma eval_constr_allocC fuel env n sc s u s' : pcc n sc ->
  eval_constr H fuel env sc s = MOk u s' ->
  kfr 1 s s' /\ cobjC s' (nth (cvar sc) env (V 0)) sc (constr_of s' (length (constrs s))).
Proof.
  intros Pc E.
  assert (G : forall k, new_constraint H fuel k s = MOk u s' ->
            breach s (nth (cvar sc) env (V 0)) (k_ref k) -> kdeclC sc k ->
            kfr 1 s s' /\ cobjC s' (nth (cvar sc) env (V 0)) sc (constr_of s' (length (constrs s)))).
  { intros k En R D. destruct (new_constraint_allocE H fuel k s u s' En) as (K1 & Kk).
    split; [exact K1|]. eapply cobjC_keep; [apply K1|split; [exact R|exact D]|exact Kk]. }
  assert (Rf : forall i, breach s (nth i env (V 0)) (follow s (follow s (nth i env (V 0))))).
  { intros i. eapply ExprSoundElim.reach_trans; apply ExprSoundElim.reach_follow. }
  destruct sc as [r t st|r alts]; cbn [SoundElimCS.pcc] in Pc.
  - destruct r as [i| |]; try tauto. destruct Pc as (Li & B & WB & ->).
    rewrite eval_constr_subC in E. apply (G _ E); [apply Rf|].
    cbn [kdeclC sub_constrC k_elim k_strict k_alts]. rewrite unconc_sconc. auto.
  - destruct r as [i| |]; try tauto. destruct Pc as (Li & l & Wl & ->).
    rewrite eval_constr_elimC in E. apply (G _ E); [apply Rf|]. reflexivity.
Qed.

Lemma constrs_allocC fuel env n : forall cs s u s', Forall (pcc n) cs ->
  forM cs (eval_constr H fuel env) s = MOk u s' ->
  kfr (length cs) s s' /\
  forall j sc, nth_error cs j = Some sc ->
    cobjC s' (nth (cvar sc) env (V 0)) sc (constr_of s' (length (constrs s) + j)).
Proof.
  induction cs as [|sc cs IH]; intros s u s' Pc E; cbn [forM] in E.
  - inversion E; subst. split; [apply kfr_refl|]. intros j sc Hn. destruct j; discriminate.
  - inversion Pc as [|? ? Psc Pcs]; subst.
    unfold bindM at 1 in E.
    destruct (eval_constr H fuel env sc s) as [u1 s1|e1 s1] eqn:E1; [|discriminate].
    destruct (eval_constr_allocC fuel env n sc s u1 s1 Psc E1) as (K1 & O1).
    destruct (IH s1 u s' Pcs E) as (K2 & Hj).
    split.
    + replace (length (sc :: cs)) with (length cs + 1) by (cbn; lia). eapply kfr_trans; eauto.
    + intros j sc0 Hn. destruct j as [|j]; cbn [nth_error] in Hn.
      * inversion Hn; subst sc0. rewrite Nat.add_0_r.
        eapply cobjC_keep; [apply K2|exact O1|]. apply K2. destruct K1 as (_ & L1 & _). lia.
      * replace (length (constrs s) + S j) with (length (constrs s1) + j)
          by (destruct K1 as (_ & L1 & _); lia).
        apply (Hj j sc0 Hn).
Qed.

(* an instance of a schema with m constraints of the class allocates exactly m
   constraint objects, in declaration order, the j-th of the declared kind
   (strictness, target) and with a reference on the binding chain of the fresh
   variable of the schematic variable it constrains *)
Theorem instance_allocC fuel sc s r s' : Forall (pcc (s_n sc)) (s_constrs sc) ->
  instance H fuel sc s = MOk r s' ->
  kfr (length (s_constrs sc)) s s' /\
  forall j scj, nth_error (s_constrs sc) j = Some scj ->
    cobjC s' (nth (cvar scj) (envof s (s_n sc)) (V 0)) scj (constr_of s' (length (constrs s) + j)).
Proof.
  intros Pc E. destruct (instance_stages H fuel sc s r s' E) as (env & s1 & body & s2 & s3 & E1 & E2 & E3 & E4).
  pose proof (kq_fresh_list (s_n sc) s env s1 E1) as C1.
  destruct (fresh_list_env _ _ _ _ E1) as (Een & _ & _). fold (envof s (s_n sc)) in Een.
  pose proof (kq_eval_sty env (s_body sc) s1 body s2 E2) as C2.
  destruct (constrs_allocC fuel env (s_n sc) (s_constrs sc) s2 tt s3 Pc E3) as (C3 & Hj).
  pose proof (kq_fix_ty H fuel true body s3 r s' E4) as C4.
  pose proof (kfr_trans _ _ _ _ _ (kfr_trans _ _ _ _ _ (kfr_trans _ _ _ _ _ C1 C2) C3) C4) as C.
  replace (0 + (length (s_constrs sc) + (0 + 0))) with (length (s_constrs sc)) in C by lia.
  split; [exact C|]. intros j scj Hn.
  assert (Lj : j < length (s_constrs sc)) by (apply nth_error_Some; congruence).
  assert (L2 : length (constrs s2) = length (constrs s)).
  { destruct C1 as (_ & L1 & _). destruct C2 as (_ & L2 & _). lia. }
  pose proof (Hj j scj Hn) as Oj. rewrite L2, Een in Oj.
  eapply cobjC_keep; [apply C4|exact Oj|]. apply C4. destruct C3 as (_ & L3 & _). lia.
Qed.

End AllocC.

(* ================================================================== *)
(* Part 2.  The leaf facts along a run of a progC program               *)
(* ================================================================== *)
Section RunC.
Variable H : hier.
Local Notation pcc := (SoundElimCS.pcc H).
Local Notation cmdC := (SoundElimCS.cmdC H).
Local Notation progC := (SoundElimCS.progC H).

Lemma run_cmd_kfrC fuel c vals s vals' s' : cmdC (length vals) c ->
  run_cmd H fuel c vals s = MOk vals' s' ->
  kfr (ncon c) s s' /\ length vals' = S (length vals).
Proof.
  intros Pc E. destruct Pc as [sc Sb Pcs|f x b Lf Lx]; cbn [run_cmd ncon] in *; unfold bindM in E.
  - destruct (instance H fuel sc s) as [t s1|e s1] eqn:Ei; [|discriminate]. inversion E; subst.
    split; [apply (instance_allocC H fuel sc s t s' Pcs Ei)|rewrite app_length; cbn; lia].
  - destruct (apply H fuel (val vals f) (val vals x) b s) as [t s1|e s1] eqn:Ei; [|discriminate].
    inversion E; subst. split; [eapply kq_apply; eauto|rewrite app_length; cbn; lia].
Qed.

Lemma run_cmds_kfrC fuel : forall cs i vals s vals' s', progC (length vals) cs ->
  run_cmds H fuel cs i vals s = (None, vals', s') -> kfr (ncons cs) s s'.
Proof.
  induction cs as [|c cs IH]; intros i vals s vals' s' P R; cbn [run_cmds ncons] in *.
  - inversion R; subst. apply kfr_refl.
  - destruct P as [Pc Pr].
    destruct (run_cmd H fuel c vals s) as [vals1 s1|e s1] eqn:E1; [|discriminate].
    destruct (run_cmd_kfrC fuel c vals s vals1 s1 Pc E1) as (K1 & Ln).
    rewrite <- Ln in Pr.
    pose proof (IH (S i) vals1 s1 vals' s' Pr R) as K2.
    replace (ncon c + ncons cs) with (ncons cs + ncon c) by lia. eapply kfr_trans; eauto.
Qed.

Lemma declsC_cmd_length c : length (declsC_cmd c) = ncon c.
Proof. destruct c; cbn; try reflexivity. apply map_length. Qed.

(* n0 = number of the first fresh variable of the leaf's instantiation; its m
   declared constraints are the constraint objects c0 .. c0+m-1, entry c0+j of
   D is what the j-th one declares *)
Definition leaf_factC (D : list (list ty)) (n0 : nat) (s' : store) (sch : schema) : Prop :=
  exists c0,
    c0 + length (s_constrs sch) <= length (constrs s') /\
    forall j scj, nth_error (s_constrs sch) j = Some scj ->
      cobjC s' (nth (cvar scj) (map V (seq n0 (s_n sch))) (V 0)) scj (constr_of s' (c0 + j)) /\
      nth (c0 + j) D [] = declC scj.

Theorem run_cmds_leavesC fuel : forall cs i vals D0 s vals' s',
  progC (length vals) cs -> length D0 = length (constrs s) ->
  run_cmds H fuel cs i vals s = (None, vals', s') ->
  forall k sch, In (k, sch) (insts_of cs (length vals)) ->
  exists n0, In (k, n0) (inst_trace H fuel cs vals s) /\
             Forall (pcc (s_n sch)) (s_constrs sch) /\ leaf_factC (D0 ++ declsC cs) n0 s' sch.
Proof.
  induction cs as [|c cs IH]; intros i vals D0 s vals' s' Pc LD R k sch Hin; [destruct Hin|].
  destruct Pc as [Pc Pr]. cbn [run_cmds] in R.
  destruct (run_cmd H fuel c vals s) as [vals1 s1|e s1] eqn:E1; [|discriminate].
  destruct (run_cmd_kfrC fuel c vals s vals1 s1 Pc E1) as (K1 & Ln1).
  assert (Tr : inst_trace H fuel (c :: cs) vals s =
               match c with CInst _ => [(length vals, length (vars s))] | _ => [] end ++ inst_trace H fuel cs vals1 s1)
    by (cbn [inst_trace]; rewrite E1; reflexivity).
  assert (Pr1 : progC (length vals1) cs) by (rewrite Ln1; exact Pr).
  assert (LD1 : length (D0 ++ declsC_cmd c) = length (constrs s1)).
  { rewrite app_length, declsC_cmd_length. destruct K1 as (_ & L1 & _). lia. }
  assert (Rest : forall k sch, In (k, sch) (insts_of cs (S (length vals))) ->
            exists n0, In (k, n0) (inst_trace H fuel (c :: cs) vals s) /\
                       Forall (pcc (s_n sch)) (s_constrs sch) /\
                       leaf_factC (D0 ++ declsC (c :: cs)) n0 s' sch).
  { intros k' sch' Hin'. rewrite <- Ln1 in Hin'.
    destruct (IH (S i) vals1 (D0 ++ declsC_cmd c) s1 vals' s' Pr1 LD1 R k' sch' Hin') as (n0 & Hn0 & Pk & Lf).
    exists n0. split; [rewrite Tr; apply in_or_app; right; exact Hn0|]. split; [exact Pk|].
    cbn [declsC]. rewrite app_assoc. exact Lf. }
  destruct Pc as [sc Sb Pcs|f x b Lf Lx]; cbn [insts_of] in Hin; [|apply Rest; exact Hin].
  destruct Hin as [[= <- <-]|Hin]; [|apply Rest; exact Hin].
  (* the leaf instantiated by this command *)
  exists (length (vars s)). split; [rewrite Tr; left; reflexivity|]. split; [exact Pcs|]. clear Tr Rest.
  cbn [run_cmd] in E1. unfold bindM in E1.
  destruct (instance H fuel sc s) as [t s0|e0 s0] eqn:Ei; [|discriminate].
  unfold ret in E1. inversion E1; subst s0 vals1. clear E1.
  destruct (instance_allocC H fuel sc s t s1 Pcs Ei) as (C1 & Hj).
  pose proof (run_cmds_kfrC fuel cs (S i) (vals ++ [t]) s1 vals' s' Pr1 R) as C2.
  exists (length (constrs s)).
  destruct C1 as (_ & Lc1 & _). destruct C2 as (Ce2 & Lc2 & K2).
  split; [lia|].
  intros j scj Hn.
  assert (Lj : j < length (s_constrs sc)) by (apply nth_error_Some; congruence).
  split.
  - eapply cobjC_keep; [exact Ce2|apply (Hj j scj Hn)|]. apply K2. lia.
  - cbn [declsC declsC_cmd]. rewrite app_nth2 by lia. rewrite LD.
    replace (length (constrs s) + j - length (constrs s)) with j by lia.
    rewrite app_nth1 by (rewrite map_length; exact Lj).
    rewrite (nth_indep _ [] (declC scj)) by (rewrite map_length; exact Lj).
    rewrite map_nth. f_equal. apply nth_error_nth. exact Hn.
Qed.

End RunC.

(* ================================================================== *)
(* Part 3.  The constraint clause of a leaf                             *)
(* ================================================================== *)
Section LeafC.
Variable H : hier.
Hypothesis W : wf_hier H.
Local Notation pcc := (SoundElimCS.pcc H).
Local Notation progC := (SoundElimCS.progC H).

(* what lies on the binding chain of a fully resolved term is fully resolved,
   to the same value *)
Lemma breach_grd s a b : breach s a b -> forall T, grd s a T -> grd s b T.
Proof.
  induction 1 as [a|v t b Hv Hr IH]; intros T G; [exact G|].
  apply IH. inversion G as [v' t' T' Hb G'|]; subst. rewrite Hv in Hb. injection Hb as <-. exact G'.
Qed.

(* ---- what is proved of the declared constraints of a leaf (a CInst
   command) in the final store ----
   [env]: the leaf's own fresh variables, one per schematic variable.
   (2) every declared subtype constraint  x_i <= B  (x_i < B)  whose variable is
       FULLY resolved in the final store (to the value T) holds: Sub T B, and
       T <> B when strict; under every satisfying grounding the substitution
       sigma i = den th (env_i) is T;
   (3) for every declared elimination constraint  x_i << [B1..Bn]  whose
       variable is fully resolved to T there is a DECLARED alternative B with
       Sub T B. *)
Definition leaf_semC (n0 : nat) (s : store) (sch : schema) : Prop :=
  let env := map V (seq n0 (s_n sch)) in
    (forall i B st, In (SCSub (SVar i) (sconc B) st) (s_constrs sch) ->
       forall T, grd s (nth i env (V 0)) T ->
         Sub H T B /\ (st = true -> T <> B) /\
         forall th, sat H th s -> sig_of th env i = T) /\
    (forall i l, In (SCElim (SVar i) (map sconc l)) (s_constrs sch) ->
       forall T, grd s (nth i env (V 0)) T ->
         (exists B, In B l /\ Sub H T B) /\
         forall th, sat H th s -> sig_of th env i = T).

Lemma leaf_semC_of_fact fuel sc prog vals s : progC 0 prog ->
  run_cmds H fuel prog 0 [] (empty_store sc) = (None, vals, s) ->
  forall n0 sch, leaf_factC (declsC prog) n0 s sch -> leaf_semC n0 s sch.
Proof.
  intros P R n0 sch (c0 & Lc & Hj). unfold leaf_semC.
  set (env := map V (seq n0 (s_n sch))) in *.
  split.
  - intros i B st Hin T G.
    destruct (In_nth_error _ _ Hin) as (j & Hn).
    assert (Lj : j < length (s_constrs sch)) by (apply nth_error_Some; congruence).
    destruct (Hj j _ Hn) as ((Rc & Ke & Ks & Ka) & Ed). cbn [cvar] in Rc. cbn [declC] in Ed.
    rewrite unconc_sconc in Ed.
    pose proof (breach_grd s _ _ Rc T G) as Gc.
    assert (Lcj : c0 + j < length (constrs s)) by lia.
    pose proof (conc_constraints_hold H W fuel sc prog vals s P R (c0 + j) Lcj T Gc) as Hc.
    rewrite Ke in Hc. destruct Hc as (B' & Ib & _ & Sb & Ne).
    rewrite Ed in Ib. destruct Ib as [<-|[]].
    split; [exact Sb|split].
    + intros Es. apply Ne. rewrite Ks. exact Es.
    + intros th S. unfold sig_of. apply (grd_den H s th S _ _ G).
  - intros i l Hin T G.
    destruct (In_nth_error _ _ Hin) as (j & Hn).
    assert (Lj : j < length (s_constrs sch)) by (apply nth_error_Some; congruence).
    destruct (Hj j _ Hn) as ((Rc & Ke) & Ed). cbn [cvar kdeclC] in Rc, Ke. cbn [declC] in Ed.
    rewrite map_unconc_sconc in Ed.
    pose proof (breach_grd s _ _ Rc T G) as Gc.
    assert (Lcj : c0 + j < length (constrs s)) by lia.
    pose proof (conc_constraints_hold H W fuel sc prog vals s P R (c0 + j) Lcj T Gc) as Hc.
    rewrite Ke in Hc. destruct Hc as (B & Ib & _ & Sb).
    rewrite Ed in Ib.
    split; [exists B; split; [exact Ib|exact Sb]|].
    intros th S. unfold sig_of. apply (grd_den H s th S _ _ G).
Qed.

(* every CInst of an accepted program of the class *)
Theorem prog_leaves_conc fuel sc prog vals s : progC 0 prog ->
  run_cmds H fuel prog 0 [] (empty_store sc) = (None, vals, s) ->
  forall k sch, In (k, sch) (insts_of prog 0) ->
  exists n0, In (k, n0) (prog_vars H fuel sc prog) /\ leaf_semC n0 s sch.
Proof.
  intros P R k sch Hin.
  destruct (run_cmds_leavesC H fuel prog 0 [] [] (empty_store sc) vals s P eq_refl R k sch Hin)
    as (n0 & Hn0 & _ & Lf).
  exists n0. split; [exact Hn0|]. apply (leaf_semC_of_fact fuel sc prog vals s P R). exact Lf.
Qed.

(* the constraint objects of a leaf in the final store: the whole invariant
   C03_conc_constraints applies to them *)
Theorem prog_leaf_objectsC fuel sc prog vals s : progC 0 prog ->
  run_cmds H fuel prog 0 [] (empty_store sc) = (None, vals, s) ->
  forall k sch, In (k, sch) (insts_of prog 0) ->
  exists n0 c0, In (k, n0) (prog_vars H fuel sc prog) /\
    c0 + length (s_constrs sch) <= length (constrs s) /\
    forall j scj, nth_error (s_constrs sch) j = Some scj ->
      let x := nth (cvar scj) (map V (seq n0 (s_n sch))) (V 0) in
      let kc := constr_of s (c0 + j) in
      breach s x (k_ref kc) /\ follow s (k_ref kc) = follow s x /\
      (forall T, grd s x T -> grd s (k_ref kc) T) /\
      (forall th, sat H th s -> den th (k_ref kc) = den th x) /\
      kdeclC scj kc /\ nth (c0 + j) (declsC prog) [] = declC scj.
Proof.
  intros P R k sch Hin.
  destruct (run_cmds_leavesC H fuel prog 0 [] [] (empty_store sc) vals s P eq_refl R k sch Hin)
    as (n0 & Hn0 & _ & c0 & Lc & Hj).
  destruct (conc_final H W fuel sc prog vals s P R) as (Iv & _).
  exists n0, c0. split; [exact Hn0|split; [exact Lc|]]. intros j scj Hn. cbv zeta.
  destruct (Hj j scj Hn) as ((Rc & Kd) & Ed).
  split; [exact Rc|split; [apply (ExprSoundElim.reach_follow_eq s _ _ (proj1 Iv) Rc)|split; [|split; [|split; [exact Kd|exact Ed]]]]].
  - intros T G. apply (breach_grd s _ _ Rc T G).
  - intros th S. rewrite <- (den_follow H th s (k_ref _) S), <- (den_follow H th s (nth _ _ _) S).
    f_equal. apply (ExprSoundElim.reach_follow_eq s _ _ (proj1 Iv) Rc).
Qed.

End LeafC.

(* ================================================================== *)
(* Part 4.  Expression trees                                            *)
(* ================================================================== *)
Section ExprC.
Variable H : hier.
Hypothesis W : wf_hier H.
Local Notation pcc := (SoundElimCS.pcc H).
Local Notation cmdC := (SoundElimCS.cmdC H).
Local Notation progC := (SoundElimCS.progC H).

(* operator leaves may carry subtype constraints with a concrete target and
   elimination constraints over concrete alternatives, of any shape, on their
   schematic variables *)
Fixpoint leaves_okC (e : expr) : Prop :=
  match e with
  | EOp sc => styg H (s_n sc) (s_body sc) /\ Forall (pcc (s_n sc)) (s_constrs sc)
  | ESrc t => styg H (sbound t) t
  | EApp f x => leaves_okC f /\ leaves_okC x
  end.

Lemma leaves_okE_okC e : leaves_okE H e -> leaves_okC e.
Proof.
  induction e as [sc|t|f IHf x IHx]; cbn [leaves_okE leaves_okC]; auto.
  - intros (Sb & Pc). split; [exact Sb|]. eapply Forall_impl; [|exact Pc].
    intros a [Pa|Pa]; [apply psc_pcc|apply pec_pcc]; exact Pa.
  - intros (Lf & Lx). auto.
Qed.

Lemma leaves_okC_okG e : leaves_okC e -> leaves_okG H e.
Proof.
  induction e as [sc|t|f IHf x IHx]; cbn [leaves_okG leaves_okC]; auto.
  - intros (Sb & Pc). split; [exact Sb|]. eapply Forall_impl; [|exact Pc]. intros a. apply pcc_scg.
  - intros (Lf & Lx). auto.
Qed.

Lemma progC_app : forall a n b, progC n a -> progC (n + length a) b -> progC n (a ++ b).
Proof.
  induction a as [|c a IH]; intros n b Pa Pb; cbn [List.app length] in *.
  - rewrite Nat.add_0_r in Pb. exact Pb.
  - destruct Pa as [Pc Pa]. split; [exact Pc|]. apply IH; [exact Pa|].
    replace (S n + length a) with (n + S (length a)) by lia. exact Pb.
Qed.

Lemma code_progC e : leaves_okC e -> forall n, progC n (code e n).
Proof.
  induction e as [sc|t|f IHf x IHx]; intros L n; cbn [code leaves_okC] in *.
  - destruct L as [Sb Pc]. split; [constructor; auto|exact I].
  - split; [constructor; [exact L|constructor]|exact I].
  - destruct L as [Lf Lx]. apply progC_app; [apply IHf; exact Lf|]. rewrite code_length.
    apply progC_app; [apply IHx; exact Lx|]. rewrite code_length.
    pose proof (size_pos f). pose proof (size_pos x).
    split; [|exact I]. unfold vidx. constructor; lia.
Qed.

Theorem compile_wfC e : leaves_okC e -> progC 0 (prog_of e) /\ prog_wf 0 (prog_of e).
Proof.
  intros L. rewrite prog_of_code. pose proof (code_progC e L 0) as P.
  split; [exact P|apply (progG_wf H); apply progC_progG; exact P].
Qed.

(* the constraint clause for every leaf of an accepted expression *)
Theorem expr_conc e fuel sc vals s : leaves_okC e ->
  run_cmds H fuel (prog_of e) 0 [] (empty_store sc) = (None, vals, s) ->
  forall k sch, In (k, sch) (leaves e 0) ->
    exists n0, In (k, n0) (prog_vars H fuel sc (prog_of e)) /\ leaf_semC H n0 s sch.
Proof.
  intros L R k sch Hin. rewrite prog_of_code in *.
  pose proof (code_progC e L 0) as P. rewrite <- insts_code0 in Hin.
  apply (prog_leaves_conc H W fuel sc _ vals s P R k sch Hin).
Qed.

Theorem expr_leaf_objectsC e fuel sc vals s : leaves_okC e ->
  run_cmds H fuel (prog_of e) 0 [] (empty_store sc) = (None, vals, s) ->
  forall k sch, In (k, sch) (leaves e 0) ->
  exists n0 c0, In (k, n0) (prog_vars H fuel sc (prog_of e)) /\
    c0 + length (s_constrs sch) <= length (constrs s) /\
    forall j scj, nth_error (s_constrs sch) j = Some scj ->
      let x := nth (cvar scj) (map V (seq n0 (s_n sch))) (V 0) in
      let kc := constr_of s (c0 + j) in
      breach s x (k_ref kc) /\ follow s (k_ref kc) = follow s x /\
      (forall T, grd s x T -> grd s (k_ref kc) T) /\
      (forall th, sat H th s -> den th (k_ref kc) = den th x) /\
      kdeclC scj kc /\ nth (c0 + j) (declsC (prog_of e)) [] = declC scj.
Proof.
  intros L R k sch Hin. rewrite prog_of_code in *.
  pose proof (code_progC e L 0) as P. rewrite <- insts_code0 in Hin.
  apply (prog_leaf_objectsC H W fuel sc _ vals s P R k sch Hin).
Qed.

(* the value index determines n0 *)
Lemma prog_vars_funC e fuel sc : leaves_okC e ->
  forall k n0 n0', In (k, n0) (prog_vars H fuel sc (prog_of e)) ->
    In (k, n0') (prog_vars H fuel sc (prog_of e)) -> n0 = n0'.
Proof.
  intros L. rewrite prog_of_code.
  apply (inst_trace_funG H fuel (code e 0) [] (empty_store sc)). apply code_progG.
  apply leaves_okC_okG. exact L.
Qed.

(* node typing + leaf instance (ExprSoundGen) + the constraint clause *)
Theorem expr_conc_full e fuel sc vals s : leaves_okC e ->
  run_cmds H fuel (prog_of e) 0 [] (empty_store sc) = (None, vals, s) ->
  (forall th, sat H th s -> forall f x r, In (f, x, r) (nodes e 0) ->
     StepSem H th (val vals f) (val vals x) (val vals r)) /\
  (forall k sch, In (k, sch) (leaves e 0) ->
     exists n0, In (k, n0) (prog_vars H fuel sc (prog_of e)) /\
       leaf_semG H n0 s vals k sch /\ leaf_semC H n0 s sch).
Proof.
  intros L R.
  destruct (expr_gen H W e fuel sc vals s (leaves_okC_okG e L) R) as (A & B).
  split; [exact A|]. intros k sch Hin.
  destruct (B k sch Hin) as (n0 & Hn0 & Lg).
  destruct (expr_conc e fuel sc vals s L R k sch Hin) as (n1 & Hn1 & Lc).
  rewrite (prog_vars_funC e fuel sc L k n1 n0 Hn1 Hn0) in Lc.
  exists n0. auto.
Qed.

Theorem expr_conc_satisfiable e fuel sc vals s : leaves_okC e ->
  run_cmds H fuel (prog_of e) 0 [] (empty_store sc) = (None, vals, s) ->
  exists th, sat H th s /\ forall v, c_bound (cell_of s v) = None -> th v = canon s v.
Proof.
  intros L R. apply (expr_gen_satisfiable H W e fuel sc vals s (leaves_okC_okG e L) R).
Qed.

End ExprC.

(* ================================================================== *)
(* Part 5.  Programs of class progCQ                                    *)
(* ================================================================== *)
Section ProgsCQ.
Variable H : hier.
Hypothesis W : wf_hier H.
Local Notation len s := (length (vars s)).
Local Notation inv := (invb true).
Local Notation tg := (Sound.tg H).
Local Notation sat := (Sound.sat H).
Local Notation JC := (SoundElimCS.JC H).
Local Notation lefC := (SoundElimCS.lefC H).
Local Notation dn := (SoundElimCS.dn H).
Local Notation pcc := (SoundElimCS.pcc H).
Local Notation Kc := (SoundElimCK.Kc H).

Inductive cmdCQ (n : nat) : cmd -> Prop :=
| cCQ_inst sc : styg H (s_n sc) (s_body sc) -> Forall (pcc (s_n sc)) (s_constrs sc) -> cmdCQ n (CInst sc)
| cCQ_apply f x b : f < n -> x < n -> cmdCQ n (CApply f x b)
| cCQ_unify a b : a < n -> b < n -> cmdCQ n (CUnify a b true)
| cCQ_fix a pl : a < n -> cmdCQ n (CFix a pl).

Fixpoint progCQ (n : nat) (cs : list cmd) : Prop :=
  match cs with
  | [] => True
  | c :: r => cmdCQ n c /\ progCQ (nxt c n) r
  end.

Lemma progC_CQ : forall cs n, progC H n cs -> progCQ n cs.
Proof.
  induction cs as [|c cs IH]; intros n P; cbn [progCQ]; [exact I|].
  destruct P as [Pc Pr]. destruct Pc as [sc Sb Pc|f x b Lf Lx]; (split; [constructor; auto|apply IH; exact Pr]).
Qed.

Lemma progCQ_progG : forall cs n, progCQ n cs -> progG H n cs.
Proof.
  induction cs as [|c cs IH]; intros n P; cbn [progG]; [exact I|].
  destruct P as [Pc Pr]. split; [|apply IH; exact Pr].
  destruct Pc as [sc Sb Pc|f x b Lf Lx|a b La Lb|a pl La]; constructor; auto.
  eapply Forall_impl; [|exact Pc]. intros k. apply pcc_scg.
Qed.

(* ---- forward soundness along a run ---- *)
Lemma run_cmd_goodCQ fuel c vals s vals' s' : JC s -> Forall (tg (len s)) vals -> cmdCQ (length vals) c ->
  run_cmd H fuel c vals s = MOk vals' s' ->
  length vals' = nxt c (length vals) /\ Forall (tg (len s')) vals' /\ JC s' /\ lefC s s' /\
  length (constrs s') = length (constrs s) + ncon c.
Proof.
  intros I Fv Pc E.
  assert (Push : forall t s1, tg (len s1) t -> lefC s s1 ->
            length (vals ++ [t]) = S (length vals) /\ Forall (tg (len s1)) (vals ++ [t])).
  { intros t s1 Tt L. split; [rewrite app_length; cbn; lia|].
    apply Forall_app. split; [eapply Forall_tg_mono; [apply (lefC_len H _ _ L)|exact Fv]|constructor; auto]. }
  destruct Pc as [sc Sb Pcs|f x b Lf Lx|a b La Lb|a pl La]; cbn [run_cmd nxt ncon] in *; unfold bindM in E.
  - destruct (instance H fuel sc s) as [t s1|e s1] eqn:Ei; [|discriminate]. inversion E; subst.
    destruct (instance_goodC H W fuel sc s I Sb Pcs t s' Ei) as (I1 & L1 & Tt & N1).
    destruct (Push t s' Tt L1) as (A & B). auto.
  - destruct (apply H fuel (val vals f) (val vals x) b s) as [t s1|e s1] eqn:Ei; [|discriminate].
    inversion E; subst.
    destruct (apply_goodC H W fuel (val vals f) (val vals x) b s I (tg_val H _ _ _ Fv Lf) (tg_val H _ _ _ Fv Lx)
                t s' Ei) as (Tt & G1).
    pose proof (goodC_lefC H _ _ _ G1) as L1. destruct (Push t s' Tt L1) as (A & B).
    split; [exact A|split; [exact B|split; [apply G1|split; [exact L1|]]]].
    rewrite (goodC_cnt H _ _ _ G1). lia.
  - destruct (unify H fuel true false false (val vals a) (val vals b) s) as [u s1|e s1] eqn:Ei; [|discriminate].
    inversion E; subst. destruct u.
    pose proof (unify_soundC H W fuel false _ _ s I (tg_val H _ _ _ Fv La)
                  (tg_val H _ _ _ Fv Lb) tt s' Ei) as G1.
    pose proof (goodC_lefC H _ _ _ G1) as L1.
    split; [reflexivity|split; [eapply Forall_tg_mono; [apply (lefC_len H _ _ L1)|exact Fv]|]].
    split; [apply G1|split; [exact L1|]]. rewrite (goodC_cnt H _ _ _ G1). lia.
  - destruct (fix_ty H fuel pl (val vals a) s) as [t s1|e s1] eqn:Ei; [|discriminate].
    inversion E; subst.
    destruct (fix_soundC H W fuel pl (val vals a) s I (tg_val H _ _ _ Fv La) t s' Ei) as (Tt & G1).
    pose proof (goodC_lefC H _ _ _ G1) as L1. destruct (Push t s' Tt L1) as (A & B).
    split; [exact A|split; [exact B|split; [apply G1|split; [exact L1|]]]].
    rewrite (goodC_cnt H _ _ _ G1). lia.
Qed.

(* ---- the constraint invariant along a run ---- *)
Lemma run_cmdKQ fuel D c vals s : inv s -> JC s -> Kc D none s -> dlen D (length (constrs s)) ->
  Forall (tg (len s)) vals -> cmdCQ (length vals) c ->
  ok true s (run_cmd H fuel c vals)
     (fun vals' s' => exists D', dext D D' (declsC_cmd c) /\ Kc D' none s') s.
Proof.
  intros I J0 Kk LD Fv Pc.
  destruct Pc as [sc Sb Pcs|f x b Lf Lx|a b La Lb|a pl La]; cbn [run_cmd declsC_cmd].
  - eapply ok_bind; [apply (instanceK H W); eauto|]. intros t s1 I1 E1 (K1 & _). apply ok_ret; auto.
  - eapply ok_bind; [apply (applyK H W fuel D); auto; apply (tg_sct H); apply (tg_val H); auto|].
    intros t s1 I1 E1 (K1 & _). apply ok_ret; auto. exists D. split; [apply dext_refl|exact K1].
  - eapply ok_bind; [apply (unifyK H W fuel D none); auto; apply (tg_sct H); apply (tg_val H); auto|].
    intros u s1 I1 E1 K1. apply ok_ret; auto. exists D. split; [apply dext_refl|exact K1].
  - eapply ok_bind; [apply (fixK H W fuel D none); auto; apply (tg_sct H); apply (tg_val H); auto|].
    intros t s1 I1 E1 (K1 & _). apply ok_ret; auto. exists D. split; [apply dext_refl|exact K1].
Qed.

Lemma declsC_cmd_ncon c : length (declsC_cmd c) = ncon c.
Proof. destruct c; cbn; try reflexivity. apply map_length. Qed.

Theorem run_cmds_goodCQ fuel : forall cs i vals D s vals' s', inv s -> JC s -> Kc D none s ->
  dlen D (length (constrs s)) -> Forall (tg (len s)) vals ->
  progCQ (length vals) cs -> run_cmds H fuel cs i vals s = (None, vals', s') ->
  inv s' /\ JC s' /\ lefC s s' /\ Forall (tg (len s')) vals' /\
  length (constrs s') = length (constrs s) + ncons cs /\
  exists D', dext D D' (declsC cs) /\ Kc D' none s'.
Proof.
  induction cs as [|c cs IH]; intros i vals D s vals' s' I J0 Kk LD Fv P R; cbn [run_cmds declsC ncons] in *.
  - inversion R; subst. split; [exact I|split; [exact J0|split; [apply lefC_refl|split; [exact Fv|split; [lia|]]]]].
    exists D. split; [apply dext_refl|exact Kk].
  - destruct P as [Pc Pr].
    pose proof (run_cmdKQ fuel D c vals s I J0 Kk LD Fv Pc) as O. unfold ok in O.
    destruct (run_cmd H fuel c vals s) as [vals1 s1|e s1] eqn:E1; [|discriminate].
    destruct O as (I1 & _ & (D1 & X1 & K1)).
    destruct (run_cmd_goodCQ fuel c vals s vals1 s1 J0 Fv Pc E1) as (Ln & Fv1 & J1 & L1 & N1).
    destruct (IH (S i) vals1 D1 s1 vals' s' I1 J1 K1) as (I' & J' & L' & Fv' & N' & D' & X' & K'); auto.
    + rewrite N1, <- declsC_cmd_ncon. eapply dlen_ext; eauto.
    + rewrite Ln. exact Pr.
    + split; [exact I'|split; [exact J'|split; [eapply lefC_trans; eauto|split; [exact Fv'|split; [lia|]]]]].
      exists D'. split; [apply (dext_trans _ _ _ _ _ X1 X')|exact K'].
Qed.

(* what holds of the final store of an accepted program of the class *)
Definition finC (Dd : list (list ty)) (s : store) : Prop :=
  inv s /\ JC s /\ dn s /\ (exists R, length R = length Dd /\ Kc (Dd, R) none s) /\ exists th, sat th s.

Theorem run_cmds_finCQ fuel sc prog vals s : progCQ 0 prog ->
  run_cmds H fuel prog 0 [] (empty_store sc) = (None, vals, s) ->
  finC (declsC prog) s /\ Forall (tg (len s)) vals /\ length (constrs s) = ncons prog.
Proof.
  intros P R.
  destruct (run_cmds_goodCQ fuel prog 0 [] ([], []) (empty_store sc) vals s (inv_empty true sc) (JC_empty H sc)
              (Kc_empty H _ sc) (conj eq_refl eq_refl) (Forall_nil _) P R)
    as (I & J0 & L & Fv & N & D' & (E1 & E2) & K').
  destruct (gen_satisfiable H W fuel sc prog vals s (progCQ_progG _ _ P) R) as (th & S & _).
  split; [|split; [exact Fv|exact N]].
  split; [exact I|split; [exact J0|split; [eapply dn_lefC; [apply dn_empty|exact L]|split; [|exists th; exact S]]]].
  destruct D' as [D1 R1]. cbn [fst snd] in *. subst D1. exists R1. split; [exact E2|exact K'].
Qed.

(* ================================================================== *)
(* Part 6.  Clause (iii) from the invariants; leaves of progCQ programs *)
(* ================================================================== *)
(* SoundElimC.conc_constraints_hold, stated for any store that satisfies [finC] *)
Theorem fin_conc_hold Dd s : finC Dd s ->
  forall c, c < length (constrs s) ->
  forall T, grd s (k_ref (constr_of s c)) T ->
  if k_elim (constr_of s c)
  then exists B, In B (nth c Dd []) /\ In (inj B) (k_alts (constr_of s c)) /\ Sub H T B
  else exists B, In B (nth c Dd []) /\ k_alts (constr_of s c) = [inj B] /\ Sub H T B /\
                 (k_strict (constr_of s c) = true -> T <> B).
Proof.
  intros (I & J0 & Dn & (R0 & LR & Kk) & (th0 & S0)) c Lc T G.
  destruct (proj1 (proj2 J0) c Lc) as (Tr & _).
  destruct (Kk c Lc) as (Sh & Ha & Hg). destruct Sh as (l & Ea & Il & Wl & Hs). cbn [fst] in Il.
  set (k := constr_of s c) in *.
  assert (WT : wf_ty H T) by (eapply (grd_wf H); eauto).
  pose proof (grd_den H s th0 S0 _ _ G) as Dt.
  assert (Done : k_done k = true -> exists B, l = [B] /\ Sub H T B /\
            (k_elim k = false -> k_strict k = true -> T <> B)).
  { intros Ed. destruct (Dn c Ed) as (B & Eb & Hb). fold k in Eb, Hb. exists B.
    destruct (Hb th0 S0) as (Sb & Ne). rewrite Dt in Sb, Ne. split; [|split; [exact Sb|exact Ne]].
    rewrite Ea in Eb. destruct l as [|B1 [|B2 l']]; cbn [map] in Eb; try discriminate.
    injection Eb as Eb. apply (inj_inj) in Eb. subst. reflexivity. }
  destruct (k_elim k) eqn:Ee.
  - destruct (Hg T G WT) as [Ok|(_ & [])]. unfold okg in Ok. rewrite Ee in Ok.
    destruct Ok as [Ed|(Ne & Hb)].
    + destruct (Done Ed) as (B & -> & Sb & _). exists B. split; [apply Il; left; reflexivity|].
      split; [rewrite Ea; left; reflexivity|exact Sb].
    + destruct l as [|B l']; [rewrite Ea in Ne; cbn in Ne; congruence|].
      assert (HB : In (inj B) (k_alts k)) by (rewrite Ea; left; reflexivity).
      exists B. split; [apply Il; left; reflexivity|split; [exact HB|apply Hb; exact HB]].
  - destruct (Hg T G WT) as [Ok|(_ & [])]. unfold okg in Ok. rewrite Ee in Ok.
    destruct (Done Ok) as (B & -> & Sb & Ne). exists B.
    split; [apply Il; left; reflexivity|split; [rewrite Ea; reflexivity|split; [exact Sb|apply Ne; reflexivity]]].
Qed.

(* clause (iii) of C03_conc for programs with CUnify / CFix *)
Theorem concQ_constraints_hold fuel sc prog vals s : progCQ 0 prog ->
  run_cmds H fuel prog 0 [] (empty_store sc) = (None, vals, s) ->
  forall c, c < length (constrs s) ->
  forall T, grd s (k_ref (constr_of s c)) T ->
  if k_elim (constr_of s c)
  then exists B, In B (nth c (declsC prog) []) /\ In (inj B) (k_alts (constr_of s c)) /\ Sub H T B
  else exists B, In B (nth c (declsC prog) []) /\ k_alts (constr_of s c) = [inj B] /\ Sub H T B /\
                 (k_strict (constr_of s c) = true -> T <> B).
Proof.
  intros P R. destruct (run_cmds_finCQ fuel sc prog vals s P R) as (F & _). exact (fin_conc_hold _ s F).
Qed.

(* ---- the constraint frame along a run ---- *)
Lemma run_cmd_kfrCQ fuel c vals s vals' s' : cmdCQ (length vals) c ->
  run_cmd H fuel c vals s = MOk vals' s' ->
  kfr (ncon c) s s' /\ length vals' = nxt c (length vals).
Proof.
  intros Pc E. destruct Pc as [sc Sb Pcs|f x b Lf Lx|a b La Lb|a pl La]; cbn [run_cmd ncon nxt] in *; unfold bindM in E.
  - destruct (instance H fuel sc s) as [t s1|e s1] eqn:Ei; [|discriminate]. inversion E; subst.
    split; [apply (instance_allocC H fuel sc s t s' Pcs Ei)|rewrite app_length; cbn; lia].
  - destruct (apply H fuel (val vals f) (val vals x) b s) as [t s1|e s1] eqn:Ei; [|discriminate].
    inversion E; subst. split; [eapply kq_apply; eauto|rewrite app_length; cbn; lia].
  - destruct (unify H fuel true false false (val vals a) (val vals b) s) as [t s1|e s1] eqn:Ei; [|discriminate].
    inversion E; subst. split; [eapply kq_unify; eauto|reflexivity].
  - destruct (fix_ty H fuel pl (val vals a) s) as [t s1|e s1] eqn:Ei; [|discriminate].
    inversion E; subst. split; [eapply kq_fix_ty; eauto|rewrite app_length; cbn; lia].
Qed.

Lemma run_cmds_kfrCQ fuel : forall cs i vals s vals' s', progCQ (length vals) cs ->
  run_cmds H fuel cs i vals s = (None, vals', s') -> kfr (ncons cs) s s'.
Proof.
  induction cs as [|c cs IH]; intros i vals s vals' s' P R; cbn [run_cmds ncons] in *.
  - inversion R; subst. apply kfr_refl.
  - destruct P as [Pc Pr].
    destruct (run_cmd H fuel c vals s) as [vals1 s1|e s1] eqn:E1; [|discriminate].
    destruct (run_cmd_kfrCQ fuel c vals s vals1 s1 Pc E1) as (K1 & Ln).
    rewrite <- Ln in Pr.
    pose proof (IH (S i) vals1 s1 vals' s' Pr R) as K2.
    replace (ncon c + ncons cs) with (ncons cs + ncon c) by lia. eapply kfr_trans; eauto.
Qed.

Theorem run_cmds_leavesCQ fuel : forall cs i vals D0 s vals' s',
  progCQ (length vals) cs -> length D0 = length (constrs s) ->
  run_cmds H fuel cs i vals s = (None, vals', s') ->
  forall k sch, In (k, sch) (insts_of cs (length vals)) ->
  exists n0, In (k, n0) (inst_trace H fuel cs vals s) /\
             Forall (pcc (s_n sch)) (s_constrs sch) /\ leaf_factC (D0 ++ declsC cs) n0 s' sch.
Proof.
  induction cs as [|c cs IH]; intros i vals D0 s vals' s' Pc LD R k sch Hin; [destruct Hin|].
  destruct Pc as [Pc Pr]. cbn [run_cmds] in R.
  destruct (run_cmd H fuel c vals s) as [vals1 s1|e s1] eqn:E1; [|discriminate].
  destruct (run_cmd_kfrCQ fuel c vals s vals1 s1 Pc E1) as (K1 & Ln1).
  assert (Tr : inst_trace H fuel (c :: cs) vals s =
               match c with CInst _ => [(length vals, length (vars s))] | _ => [] end ++ inst_trace H fuel cs vals1 s1)
    by (cbn [inst_trace]; rewrite E1; reflexivity).
  assert (Pr1 : progCQ (length vals1) cs) by (rewrite Ln1; exact Pr).
  assert (LD1 : length (D0 ++ declsC_cmd c) = length (constrs s1)).
  { rewrite app_length, declsC_cmd_ncon. destruct K1 as (_ & L1 & _). lia. }
  assert (Rest : forall k sch, In (k, sch) (insts_of cs (nxt c (length vals))) ->
            exists n0, In (k, n0) (inst_trace H fuel (c :: cs) vals s) /\
                       Forall (pcc (s_n sch)) (s_constrs sch) /\
                       leaf_factC (D0 ++ declsC (c :: cs)) n0 s' sch).
  { intros k' sch' Hin'. rewrite <- Ln1 in Hin'.
    destruct (IH (S i) vals1 (D0 ++ declsC_cmd c) s1 vals' s' Pr1 LD1 R k' sch' Hin') as (n0 & Hn0 & Pk & Lf).
    exists n0. split; [rewrite Tr; apply in_or_app; right; exact Hn0|]. split; [exact Pk|].
    cbn [declsC]. rewrite app_assoc. exact Lf. }
  destruct Pc as [sc Sb Pcs|f x b Lf Lx|a b La Lb|a pl La]; cbn [insts_of nxt] in Hin, Rest;
    try (apply Rest; exact Hin).
  destruct Hin as [[= <- <-]|Hin]; [|apply Rest; exact Hin].
  (* the leaf instantiated by this command *)
  exists (length (vars s)). split; [rewrite Tr; left; reflexivity|]. split; [exact Pcs|]. clear Tr Rest.
  cbn [run_cmd] in E1. unfold bindM in E1.
  destruct (instance H fuel sc s) as [t s0|e0 s0] eqn:Ei; [|discriminate].
  unfold ret in E1. inversion E1; subst s0 vals1. clear E1.
  destruct (instance_allocC H fuel sc s t s1 Pcs Ei) as (C1 & Hj).
  pose proof (run_cmds_kfrCQ fuel cs (S i) (vals ++ [t]) s1 vals' s' Pr1 R) as C2.
  exists (length (constrs s)).
  destruct C1 as (_ & Lc1 & _). destruct C2 as (Ce2 & Lc2 & K2).
  split; [lia|].
  intros j scj Hn.
  assert (Lj : j < length (s_constrs sc)) by (apply nth_error_Some; congruence).
  split.
  - eapply cobjC_keep; [exact Ce2|apply (Hj j scj Hn)|]. apply K2. lia.
  - cbn [declsC declsC_cmd]. rewrite app_nth2 by lia. rewrite LD.
    replace (length (constrs s) + j - length (constrs s)) with j by lia.
    rewrite app_nth1 by (rewrite map_length; exact Lj).
    rewrite (nth_indep _ [] (declC scj)) by (rewrite map_length; exact Lj).
    rewrite map_nth. f_equal. apply nth_error_nth. exact Hn.
Qed.

(* the leaf clause from the invariants and the leaf facts *)
Lemma leaf_semC_of_fin Dd s : finC Dd s ->
  forall n0 sch, leaf_factC Dd n0 s sch -> leaf_semC H n0 s sch.
Proof.
  intros F n0 sch (c0 & Lc & Hj). unfold leaf_semC.
  set (env := map V (seq n0 (s_n sch))) in *.
  split.
  - intros i B st Hin T G.
    destruct (In_nth_error _ _ Hin) as (j & Hn).
    assert (Lj : j < length (s_constrs sch)) by (apply nth_error_Some; congruence).
    destruct (Hj j _ Hn) as ((Rc & Ke & Ks & Ka) & Ed). cbn [cvar] in Rc. cbn [declC] in Ed.
    rewrite unconc_sconc in Ed.
    pose proof (breach_grd s _ _ Rc T G) as Gc.
    assert (Lcj : c0 + j < length (constrs s)) by lia.
    pose proof (fin_conc_hold Dd s F (c0 + j) Lcj T Gc) as Hc.
    rewrite Ke in Hc. destruct Hc as (B' & Ib & _ & Sb & Ne).
    rewrite Ed in Ib. destruct Ib as [<-|[]].
    split; [exact Sb|split].
    + intros Es. apply Ne. rewrite Ks. exact Es.
    + intros th S. unfold sig_of. apply (grd_den H s th S _ _ G).
  - intros i l Hin T G.
    destruct (In_nth_error _ _ Hin) as (j & Hn).
    assert (Lj : j < length (s_constrs sch)) by (apply nth_error_Some; congruence).
    destruct (Hj j _ Hn) as ((Rc & Ke) & Ed). cbn [cvar kdeclC] in Rc, Ke. cbn [declC] in Ed.
    rewrite map_unconc_sconc in Ed.
    pose proof (breach_grd s _ _ Rc T G) as Gc.
    assert (Lcj : c0 + j < length (constrs s)) by lia.
    pose proof (fin_conc_hold Dd s F (c0 + j) Lcj T Gc) as Hc.
    rewrite Ke in Hc. destruct Hc as (B & Ib & _ & Sb).
    rewrite Ed in Ib.
    split; [exists B; split; [exact Ib|exact Sb]|].
    intros th S. unfold sig_of. apply (grd_den H s th S _ _ G).
Qed.

(* every CInst of an accepted program of the class *)
Theorem prog_leaves_concQ fuel sc prog vals s : progCQ 0 prog ->
  run_cmds H fuel prog 0 [] (empty_store sc) = (None, vals, s) ->
  forall k sch, In (k, sch) (insts_of prog 0) ->
  exists n0, In (k, n0) (prog_vars H fuel sc prog) /\ leaf_semC H n0 s sch.
Proof.
  intros P R k sch Hin.
  destruct (run_cmds_leavesCQ fuel prog 0 [] [] (empty_store sc) vals s P eq_refl R k sch Hin)
    as (n0 & Hn0 & _ & Lf).
  destruct (run_cmds_finCQ fuel sc prog vals s P R) as (F & _).
  exists n0. split; [exact Hn0|]. apply (leaf_semC_of_fin _ s F). exact Lf.
Qed.

End ProgsCQ.

(* ================================================================== *)
(* Part 7.  The whole compiled program: numbered inputs, annotations,   *)
(* typed-source self-unification, the fix traversal                     *)
(* ================================================================== *)
Section FullC.
Variable H : hier.
Hypothesis W : wf_hier H.
Local Notation pcc := (SoundElimCS.pcc H).

(* k = number of inputs; operator leaves may carry constraints with concrete
   targets / alternatives *)
Fixpoint xokC (k : nat) (e : xexpr) : Prop :=
  match e with
  | XOp sc _ => styg H (s_n sc) (s_body sc) /\ Forall (pcc (s_n sc)) (s_constrs sc)
  | XSrc t => styg H (sbound t) t
  | XIn i => i < k
  | XApp f x => xokC k f /\ xokC k x
  | XAnn e T => xokC k e /\ styg H (sbound T) T
  end.

Lemma xokE_okC k e : xokE H k e -> xokC k e.
Proof.
  induction e as [sc data|t|i|f IHf x IHx|e IHe T]; cbn [xokE xokC]; auto.
  - intros (Sb & Pc). split; [exact Sb|]. eapply Forall_impl; [|exact Pc].
    intros a [Pa|Pa]; [apply psc_pcc|apply pec_pcc]; exact Pa.
  - intros (Kf & Kx). auto.
  - intros (Ke & KT). auto.
Qed.

Lemma xokC_okG k e : xokC k e -> xokG H k e.
Proof.
  induction e as [sc data|t|i|f IHf x IHx|e IHe T]; cbn [xokG xokC]; auto.
  - intros (Sb & Pc). split; [exact Sb|]. eapply Forall_impl; [|exact Pc]. intros a. apply pcc_scg.
  - intros (Kf & Kx). auto.
  - intros (Ke & KT). auto.
Qed.

(* the constraints of every CInst are of the class *)
Definition pcccmd (c : cmd) : Prop :=
  match c with CInst sc => Forall (pcc (s_n sc)) (s_constrs sc) | _ => True end.

Lemma progCQ_of_G : forall cs n, progG H n cs -> Forall pcccmd cs -> progCQ H n cs.
Proof.
  induction cs as [|c cs IH]; intros n P F; cbn [progG progCQ] in *; [exact I|].
  destruct P as [Pc Pr]. inversion F as [|? ? Fc Fr]; subst.
  split; [|apply IH; auto].
  destruct Pc as [sc Sb _|f x b Lf Lx|a b La Lb|a pl La]; cbn [pcccmd] in *; constructor; auto.
Qed.

Lemma xcompile_pcccmd k e : xokC k e -> forall n, Forall pcccmd (fst (fst (xcompile e n))).
Proof.
  induction e as [sc data|t|i|f IHf x IHx|e IHe T]; intros K n; cbn [xcompile xokC] in *.
  - cbn. constructor; [apply K|constructor].
  - cbn [fst]. constructor; [constructor|]. destruct (is_wild t); repeat constructor.
  - constructor.
  - destruct K as [Kf Kx]. specialize (IHf Kf n). destruct (xcompile f n) as [[cf nf] n1].
    specialize (IHx Kx n1). destruct (xcompile x n1) as [[cx nx] n2]. cbn [fst snd] in *.
    apply Forall_app. split; [exact IHf|]. apply Forall_app. split; [exact IHx|repeat constructor].
  - destruct K as [Ke KT]. specialize (IHe Ke n). destruct (xcompile e n) as [[ce ne] n1]. cbn [fst snd] in *.
    apply Forall_app. split; [exact IHe|repeat constructor].
Qed.

Lemma fixc_pcccmd nd : Forall pcccmd (fixc nd).
Proof.
  induction nd as [v|v|v f IHf x IHx]; cbn [fixc]; repeat constructor.
  apply Forall_app. split; [exact IHf|]. apply Forall_app. split; [exact IHx|repeat constructor].
Qed.

Theorem xprog_okC inputs e : Forall (fun t => styg H (sbound t) t) inputs -> xokC (length inputs) e ->
  progCQ H 0 (xprog inputs e).
Proof.
  intros Fi K. apply progCQ_of_G.
  - apply xprog_okG; [exact Fi|apply xokC_okG; exact K].
  - unfold xprog. pose proof (xcompile_pcccmd _ e K (length inputs)) as Fc.
    destruct (xcompile e (length inputs)) as [[cs nd] n1]. cbn [fst] in Fc.
    apply Forall_app. split; [|apply Forall_app; split; [exact Fc|apply fixc_pcccmd]].
    unfold input_cmds. rewrite Forall_forall. intros c Hc. apply in_map_iff in Hc.
    destruct Hc as (t & <- & _). constructor.
Qed.

(* the constraint clause for the whole compiled program *)
Theorem xexpr_conc inputs e fuel sc vals s :
  Forall (fun t => styg H (sbound t) t) inputs -> xokC (length inputs) e ->
  run_cmds H fuel (xprog inputs e) 0 [] (empty_store sc) = (None, vals, s) ->
  (forall k sch, In (k, sch) (insts_of (xprog inputs e) 0) ->
     exists n0, In (k, n0) (prog_vars H fuel sc (xprog inputs e)) /\ leaf_semC H n0 s sch) /\
  (forall k sch, In (k, sch) (xleaves e (length inputs)) ->
     exists n0, In (k, n0) (prog_vars H fuel sc (xprog inputs e)) /\ leaf_semC H n0 s sch).
Proof.
  intros Fi K R. pose proof (xprog_okC inputs e Fi K) as P.
  assert (Lf : forall k sch, In (k, sch) (insts_of (xprog inputs e) 0) ->
            exists n0, In (k, n0) (prog_vars H fuel sc (xprog inputs e)) /\ leaf_semC H n0 s sch).
  { intros k sch Hin. apply (prog_leaves_concQ H W fuel sc _ vals s P R k sch Hin). }
  split; [exact Lf|].
  intros k sch Hin. apply Lf. apply (xleaves_xprog H inputs e Fi). exact Hin.
Qed.

(* C04_gen_full + the constraint clause, for the same n0 *)
Theorem xexpr_conc_full inputs e fuel sc vals s :
  Forall (fun t => styg H (sbound t) t) inputs -> xokC (length inputs) e ->
  run_cmds H fuel (xprog inputs e) 0 [] (empty_store sc) = (None, vals, s) ->
  (forall th, sat H th s ->
     let k := length inputs in
     let '(cs, nd, n1) := xcompile e k in
     (forall i t, nth_error inputs i = Some t -> is_inst H th (src_schema t) (val vals i)) /\
     xsem H th vals e k /\ nsem H th vals nd /\
     nsem H th vals (fst (fixed nd n1)) /\
     den th (val vals (nval (fst (fixed nd n1)))) = den th (val vals (nval nd))) /\
  (forall k sch, In (k, sch) (xleaves e (length inputs)) ->
     exists n0, In (k, n0) (prog_vars H fuel sc (xprog inputs e)) /\
       leaf_semG H n0 s vals k sch /\ leaf_semC H n0 s sch).
Proof.
  intros Fi K R.
  destruct (xexpr_gen H W inputs e fuel sc vals s Fi (xokC_okG _ e K) R) as (A & _ & B).
  destruct (xexpr_conc inputs e fuel sc vals s Fi K R) as (_ & C).
  split; [exact A|]. intros k sch Hin.
  destruct (B k sch Hin) as (n0 & Hn0 & Lg). destruct (C k sch Hin) as (n1 & Hn1 & Lc).
  assert (n1 = n0) as ->.
  { apply (inst_trace_funG H fuel (xprog inputs e) [] (empty_store sc)
             (xprog_okG H inputs e Fi (xokC_okG _ e K)) k n1 n0 Hn1 Hn0). }
  exists n0. auto.
Qed.

End FullC.
