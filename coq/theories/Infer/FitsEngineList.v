(* C06, engine link for a LIST of base-type alternatives:
   `a ** a [a << {B1, ..., Bn}]` applied to a base type A, on the faithful
   fuelled model of Infer/Engine.v, for every well-formed hierarchy, every
   non-empty list of user base operators (no distinctness or incomparability
   assumption), every user base operator A and every sufficient fuel
   (9 <= fuel and length bs + 2 <= fuel).

   Method: as in FitsEngine.v (symbolic execution, one-level unfolding
   equations), plus loop lemmas: the anonymous list loops of the model
   (minimize's outer/inner loops, fulfill's filter, eval_constr's evaluation of
   the alternatives) are given names here, the unfolding equations are restated
   with those names (proved by [reflexivity] from the text of Engine.v) and each
   loop is characterised on lists of base operations by a pure function:
     minimize     ->  [mins_of]   (a more general alternative replaces the more
                                   specific ones; duplicates may arise)
     the filter   ->  [filter (le a)] when the reference variable has lower bound a. *)
From Coq Require Import List Arith Bool Lia.
Import ListNotations.
From TF Require Import Base.Hier Base.Ty Sub.Match Sub.SubSpec Sub.SubProofs
  Infer.Store Infer.Engine Infer.Run Infer.Fits Infer.FitsEngine.

Definition ob (b : nat) : tyv := O b [].
Definition sb (b : nat) : sty := SOp b [].
Definition obs (l : list nat) : list tyv := map ob l.

Definition bases_schema (bs : list nat) : schema :=
  mkSchema 1 (SOp Function [SVar 0; SVar 0]) [SCElim (SVar 0) (map sb bs)].
Definition bases_prog (a : nat) (bs : list nat) : list cmd :=
  [CInst (bases_schema bs); CInst (conc_schema a); CApply 0 1 true].

(* ---------- the loops of the model, named ---------- *)
Section Loops.
  Variable H : hier.

  Definition min_inner (f : nat) (obj : tyv) :=
    fix inner (pre post : list tyv) (add : bool) : M (list tyv * bool) :=
      match post with
      | [] => ret (pre, add)
      | mi :: post' =>
          r1 <- lift (fun s => match_f H f s true false mi obj) ;;
          mi' <- (match r1 with
                  | Some true => gets (fun s => follow s obj)
                  | _ => ret mi end) ;;
          r2 <- lift (fun s => match_f H f s true false obj mi') ;;
          inner (pre ++ [mi']) post'
                (match r2 with Some true => false | _ => add end)
      end.

  Definition min_outer (f : nat) :=
    fix outer (objs : list tyv) (mins : list tyv) : M (list tyv) :=
      match objs with
      | [] => ret mins
      | obj :: rest =>
          r <- min_inner f obj [] mins true ;;
          let (mins', add) := r in
          if add then
            o <- gets (fun s => follow s obj) ;;
            o' <- fix_ty H f true o ;;
            outer rest (mins' ++ [o'])
          else outer rest mins'
      end.

  Definition filt (f : nat) (s : store) (ref : tyv) :=
    fix go (l : list tyv) : res (list tyv) :=
      match l with
      | [] => Ok []
      | t :: r =>
          match match_f H f s true true ref t with
          | Er e => Er e
          | Ok (Some false) => go r
          | Ok _ => match go r with Er e => Er e | Ok r' => Ok (t :: r') end
          end
      end.

  Definition eval_list (env : list tyv) :=
    fix go (l : list sty) : M (list tyv) :=
      match l with
      | [] => ret []
      | a :: rest => x <- eval_sty env a ;; xs <- go rest ;; ret (x :: xs)
      end.

  Lemma minimize_S' f c :
    minimize H (S f) c =
        k <- gets (fun s => constr_of s c) ;;
        mins <- min_outer f (k_alts k) [] ;;
        rf <- gets (fun s => follow s (k_ref k)) ;;
        mins' <- gets (fun s => map (follow s) mins) ;;
        upd_constr c (fun k => mkConstr (k_elim k) rf mins' (k_strict k) (k_done k)).
  Proof. reflexivity. Qed.

  Lemma fulfill_S' f c :
    fulfill H (S f) c =
        k <- gets (fun s => constr_of s c) ;;
        if k_elim k then
          if k_done k then ret true
          else
            minimize H f c ;;;
            k1 <- gets (fun s => constr_of s c) ;;
            norm <- gets (fun s => forallb (fun t => match t with
                                                   | V v => match c_bound (cell_of s v) with Some _ => false | None => true end
                                                   | O _ _ => true end) (constr_terms k1)) ;;
            if negb norm then fail (ECrash site_elim_normalized)
            else
              alts <- lift (fun s => filt f s (k_ref k1) (k_alts k1)) ;;
              upd_constr c (fun k => mkConstr true (k_ref k) alts (k_strict k) (k_done k)) ;;;
              match alts with
              | [] => fail EConstraintViolation
              | [t] =>
                  upd_constr c (fun k => mkConstr true (k_ref k) (k_alts k) (k_strict k) true) ;;;
                  unify H f true false false (k_ref k1) t ;;;
                  d <- gets (fun s => k_done (constr_of s c)) ;; ret d
              | _ => d <- gets (fun s => k_done (constr_of s c)) ;; ret d
              end
        else
          match k_alts k with
          | [target] =>
              unify H f true true false (k_ref k) target ;;;
              r <- lift (fun s => match_f H f s true false (k_ref k) target) ;;
              match r with
              | Some true =>
                  same <- (if k_strict k
                           then lift (fun s => match_f H f s false false (k_ref k) target)
                           else ret (Some false)) ;;
                  match same with
                  | Some true => fail EConstraintViolation
                  | None => d <- gets (fun s => k_done (constr_of s c)) ;; ret d
                  | Some false =>
                      upd_constr c (fun k => mkConstr false (k_ref k) (k_alts k) (k_strict k) true) ;;;
                      ret true
                  end
              | Some false => fail EConstraintViolation
              | None => d <- gets (fun s => k_done (constr_of s c)) ;; ret d
              end
          | _ => fail (ECrash site_arity)
          end.
  Proof. reflexivity. Qed.

  Lemma eval_constr_elim fuel env r alts :
    eval_constr H fuel env (SCElim r alts) =
        r' <- eval_sty env r ;;
        alts' <- eval_list env alts ;;
        r'' <- gets (fun s => follow s r') ;;
        alts'' <- gets (fun s => map (follow s) alts') ;;
        new_constraint H fuel (mkConstr true r'' alts'' false false).
  Proof. reflexivity. Qed.
End Loops.

(* ---------- the pure description of minimize on base operators ---------- *)
Section Pure.
  Variable H : hier.
  Hypothesis W : wf_hier H.

  Definition good (b : nat) : Prop := variance H b = [] /\ b <> Top /\ b <> Bottom.
  Definition le (a b : nat) : bool := op_subtype H false a b.

  (* one step of EliminationConstraint.minimize: the new alternative b replaces
     every kept alternative below it, and is added unless a kept one is above it *)
  Definition repl (b m : nat) : nat := if le m b then b else m.
  Definition min_step (mins : list nat) (b : nat) : list nat :=
    let mins' := map (repl b) mins in
    if existsb (le b) mins' then mins' else mins' ++ [b].
  Definition mins_of (l : list nat) : list nat := fold_left min_step l [].

  Lemma le_refl a : le a a = true.
  Proof. unfold le, op_subtype. now rewrite Nat.eqb_refl. Qed.

  Lemma eqb_or_le a b : Nat.eqb a b || le a b = le a b.
  Proof. destruct (Nat.eqb_spec a b) as [->|]; [now rewrite le_refl|reflexivity]. Qed.

  Lemma le_Anc a b : good a -> good b -> (le a b = true <-> Anc H a b).
  Proof.
    intros (_ & _ & Na) (_ & Nb & _). unfold le. rewrite (op_subtype_ns_spec H W).
    split; [intros [E|[E|E]]; [contradiction|contradiction|exact E]|auto].
  Qed.

  Lemma le_trans a b c : good a -> good b -> good c ->
    le a b = true -> le b c = true -> le a c = true.
  Proof.
    intros Ga Gb Gc. rewrite !le_Anc by assumption. apply Anc_trans.
  Qed.

  Lemma strict_false_of_le a t : good a -> good t -> le a t = true ->
    op_subtype H true t a = false.
  Proof.
    intros Ga Gt L. apply le_Anc in L; auto.
    destruct (op_subtype H true t a) eqn:E; auto.
    apply (op_subtype_strict_spec H W) in E.
    destruct Ga as (_ & Ta & _), Gt as (_ & _ & Bt).
    destruct E as [E|[E|[A N]]]; try contradiction.
    exfalso. apply N. now apply (Anc_antisym H W).
  Qed.

  Lemma good_SS b : good b -> exists b', b = S (S b').
  Proof.
    intros (_ & T & B). destruct b as [|[|b']]; [now elim T|now elim B|eauto].
  Qed.

  Lemma repl_cases b m : repl b m = b \/ repl b m = m.
  Proof. unfold repl. destruct (le m b); auto. Qed.

  Lemma le_repl b m : le m (repl b m) = true.
  Proof. unfold repl. destruct (le m b) eqn:E; auto using le_refl. Qed.

  Lemma min_step_in ms b x : In x (min_step ms b) -> x = b \/ In x ms.
  Proof.
    unfold min_step. intros I.
    assert (In x (map (repl b) ms) \/ x = b) as [I'|E]; auto.
    { destruct (existsb (le b) (map (repl b) ms)); auto.
      apply in_app_or in I. destruct I as [I|[E|[]]]; auto. }
    apply in_map_iff in I'. destruct I' as (m & E & Im).
    destruct (repl_cases b m) as [R|R]; rewrite R in E; subst; auto.
  Qed.

  Lemma fold_in l : forall ms x, In x (fold_left min_step l ms) -> In x l \/ In x ms.
  Proof.
    induction l as [|b l IH]; cbn [fold_left]; intros ms x I; auto.
    apply IH in I. destruct I as [I|I]; [left; now right|].
    apply min_step_in in I. destruct I as [->|I]; [left; now left|now right].
  Qed.

  Lemma mins_of_in l x : In x (mins_of l) -> In x l.
  Proof. intros I. apply fold_in in I. destruct I as [I|[]]; auto. Qed.

  Lemma mins_of_good l : Forall good l -> Forall good (mins_of l).
  Proof.
    rewrite !Forall_forall. intros G x I. apply G, mins_of_in, I.
  Qed.

  (* every alternative seen so far stays covered by a kept one *)
  Lemma min_step_cover ms b x : Forall good ms -> good b -> good x ->
    (x = b \/ exists m, In m ms /\ le x m = true) ->
    exists m, In m (min_step ms b) /\ le x m = true.
  Proof.
    intros Gm Gb Gx C. unfold min_step.
    assert (C' : (exists m, In m (map (repl b) ms) /\ le x m = true) \/
                 (x = b /\ existsb (le b) (map (repl b) ms) = false)).
    { destruct C as [->|(m & Im & L)].
      - destruct (existsb (le b) (map (repl b) ms)) eqn:E; auto.
        apply existsb_exists in E. destruct E as (m & Im & L). left; eauto.
      - left. exists (repl b m). split; [now apply in_map|].
        rewrite Forall_forall in Gm.
        assert (Gr : good (repl b m)) by (destruct (repl_cases b m) as [-> | ->]; auto).
        eapply le_trans; [| |exact Gr|exact L|apply le_repl]; auto. }
    destruct C' as [(m & Im & L)|(-> & E)].
    - exists m. split; auto.
      destruct (existsb (le b) (map (repl b) ms)); auto. apply in_or_app; auto.
    - rewrite E. exists b. split; [apply in_or_app; right; now left|apply le_refl].
  Qed.

  Lemma min_step_good ms b : Forall good ms -> good b -> Forall good (min_step ms b).
  Proof.
    rewrite !Forall_forall. intros G Gb x I. apply min_step_in in I.
    destruct I as [->|I]; auto.
  Qed.

  Lemma fold_cover l : forall ms x, Forall good l -> Forall good ms -> good x ->
    (In x l \/ exists m, In m ms /\ le x m = true) ->
    exists m, In m (fold_left min_step l ms) /\ le x m = true.
  Proof.
    induction l as [|b l IH]; cbn [fold_left]; intros ms x Gl Gm Gx C.
    - destruct C as [[]|C]; auto.
    - inversion Gl as [|? ? Gb Gl']; subst.
      apply IH; auto using min_step_good.
      destruct C as [[->|I]|C]; auto.
      + right. apply min_step_cover; auto.
      + right. apply min_step_cover; auto.
  Qed.

  Lemma mins_of_cover l x : Forall good l -> In x l ->
    exists m, In m (mins_of l) /\ le x m = true.
  Proof.
    intros G I. apply fold_cover; auto.
    rewrite Forall_forall in G. auto.
  Qed.

  Lemma mins_of_nonempty l : Forall good l -> l <> [] -> mins_of l <> [].
  Proof.
    intros G N. destruct l as [|b l]; [congruence|].
    destruct (mins_of_cover (b :: l) b G (or_introl eq_refl)) as (m & I & _).
    intros E. rewrite E in I. exact I.
  Qed.

  (* the kept alternatives accept exactly what the given ones accept *)
  Lemma mins_of_exists a l : good a -> Forall good l ->
    existsb (le a) (mins_of l) = existsb (le a) l.
  Proof.
    intros Ga G. apply eq_true_iff_eq. rewrite !existsb_exists. split.
    - intros (m & I & L). exists m. split; auto using mins_of_in.
    - intros (b & I & L). destruct (mins_of_cover l b G I) as (m & Im & Lm).
      exists m. split; auto.
      pose proof (mins_of_good l G) as Gm. rewrite Forall_forall in G, Gm.
      apply (le_trans a b m); auto.
  Qed.

  (* pairwise incomparable alternatives are all kept, in order *)
  Definition incomp (x y : nat) : Prop := le x y = false /\ le y x = false.

  Lemma min_step_incomp ms b : Forall (fun m => incomp m b) ms -> min_step ms b = ms ++ [b].
  Proof.
    intros F. unfold min_step. rewrite Forall_forall in F.
    assert (E : map (repl b) ms = ms).
    { rewrite <- (map_id ms) at 2. apply map_ext_in. intros m I. unfold repl.
      destruct (F m I) as (E1 & _). now rewrite E1. }
    rewrite E.
    assert (X : existsb (le b) ms = false).
    { destruct (existsb (le b) ms) eqn:X; auto. apply existsb_exists in X. destruct X as (m & I & L).
      destruct (F m I) as (_ & E2). congruence. }
    now rewrite X.
  Qed.

  Lemma fold_incomp l : forall ms, ForallOrdPairs incomp l ->
    Forall (fun m => Forall (incomp m) l) ms -> fold_left min_step l ms = ms ++ l.
  Proof.
    induction l as [|b l IH]; intros ms P F; cbn [fold_left].
    - now rewrite app_nil_r.
    - inversion P as [|? ? Pb Pl]; subst.
      rewrite min_step_incomp.
      + rewrite IH; auto.
        * rewrite <- app_assoc. reflexivity.
        * apply Forall_app. split.
          -- eapply Forall_impl; [|exact F]. intros m Fm. now inversion Fm.
          -- constructor; auto.
      + eapply Forall_impl; [|exact F]. intros m Fm. now inversion Fm.
  Qed.

  Lemma mins_of_incomp l : ForallOrdPairs incomp l -> mins_of l = l.
  Proof. intros P. unfold mins_of. now rewrite fold_incomp. Qed.

  Lemma filter_nil_exists a l : filter (le a) l = [] -> existsb (le a) l = false.
  Proof.
    induction l as [|b l IH]; cbn [filter existsb]; auto.
    destruct (le a b); [discriminate|auto].
  Qed.

  Lemma filter_cons_exists a l t r : filter (le a) l = t :: r -> existsb (le a) l = true.
  Proof.
    intros E. apply existsb_exists. exists t.
    assert (I : In t (filter (le a) l)) by (rewrite E; now left).
    apply filter_In in I. exact I.
  Qed.

  Lemma accept_spec_bases a l : good a -> Forall good l ->
    accept_spec H (TOp a []) (map sb l) = existsb (le a) l.
  Proof.
    intros Ga G. unfold accept_spec. induction G as [|b l Gb G IH]; cbn [map existsb]; auto.
    rewrite IH. f_equal.
    destruct Ga as (Va & Ta & Ba), Gb as (Vb & Tb & Bb).
    unfold sb, fitsb. cbn [fitsb_dir].
    apply Nat.eqb_neq in Ba, Tb. rewrite Ba, Tb. cbn [orb].
    unfold arity. rewrite Va. cbn [length Nat.eqb]. apply eqb_or_le.
  Qed.
End Pure.

(* evaluation control, as in FitsEngine.v *)
Local Arguments op_subtype : simpl never.
Local Arguments bindM {A B} m f s /.
Local Arguments gets {A} f s /.
Local Arguments ret {A} a s /.
Local Arguments fail {A} e s /.
Local Arguments modify f s /.
Local Arguments lift {A} r s /.
Local Arguments fresh wild s /.
Local Arguments next_choice s /.
Local Arguments unify : simpl never.
Local Arguments bind : simpl never.
Local Arguments above : simpl never.
Local Arguments below : simpl never.
Local Arguments check_constraints : simpl never.
Local Arguments fulfill : simpl never.
Local Arguments minimize : simpl never.
Local Arguments fix_ty : simpl never.
Local Arguments min_inner : simpl never.
Local Arguments min_outer : simpl never.
Local Arguments filt : simpl never.
Local Arguments eval_list : simpl never.
Local Arguments eval_constr : simpl never.
Local Arguments closure_f : simpl never.
Local Arguments mins_of : simpl never.
Local Arguments obs : simpl never.
Local Arguments le : simpl never.

Lemma follow_O s o args : follow s (O o args) = O o args.
Proof. reflexivity. Qed.

Lemma bindM_eq {A B} (m : M A) (k : A -> M B) s :
  bindM m k s = match m s with MOk a s' => k a s' | MEr e s' => MEr e s' end.
Proof. reflexivity. Qed.

Lemma follow_unbound s v : c_bound (cell_of s v) = None -> follow s (V v) = V v.
Proof. intros E. unfold follow. cbn [follow_f]. now rewrite E. Qed.

Section LoopLemmas.
  Variable H : hier.
  Hypothesis W : wf_hier H.
  Local Notation good := (good H).
  Local Notation le := (le H).

  Lemma match_base f s x y : good x -> good y ->
    match_f H (S f) s true false (O x []) (O y []) = Ok (Some (le x y)).
  Proof.
    intros (Vx & _ & Bx) (_ & Ty & _).
    cbn [match_f]. rewrite !follow_O.
    apply Nat.eqb_neq in Bx, Ty. rewrite Bx, Ty. cbn [andb orb].
    unfold basic, arity. rewrite Vx. cbn [length Nat.eqb]. unfold osub.
    now rewrite (eqb_or_le H).
  Qed.

  Lemma fix_base f s b : variance H b = [] ->
    fix_ty H (S f) true (O b []) s = MOk (O b []) s.
  Proof. intros Vb. rewrite fix_ty_S. cbn. rewrite Vb. reflexivity. Qed.

  Lemma min_inner_nil f obj pre add : min_inner H f obj pre [] add = ret (pre, add).
  Proof. reflexivity. Qed.

  Lemma min_inner_cons f obj pre mi post' add :
    min_inner H f obj pre (mi :: post') add =
          r1 <- lift (fun s => match_f H f s true false mi obj) ;;
          mi' <- (match r1 with
                  | Some true => gets (fun s => follow s obj)
                  | _ => ret mi end) ;;
          r2 <- lift (fun s => match_f H f s true false obj mi') ;;
          min_inner H f obj (pre ++ [mi']) post'
                (match r2 with Some true => false | _ => add end).
  Proof. reflexivity. Qed.

  Lemma inner_bases f b s : good b -> forall post pre add, Forall good post ->
    min_inner H (S f) (ob b) pre (obs post) add s =
    MOk (pre ++ obs (map (repl H b) post),
         add && negb (existsb (le b) (map (repl H b) post))) s.
  Proof.
    intros Gb. induction post as [|m post IH]; intros pre add G.
    - unfold obs. cbn [map existsb negb]. rewrite min_inner_nil, app_nil_r, andb_true_r. reflexivity.
    - inversion G as [|? ? Gm G']; subst.
      unfold obs in *. cbn [map]. rewrite min_inner_cons. unfold ob at 1 2.
      rewrite bindM_eq. unfold lift at 1. rewrite match_base by assumption. cbn beta iota.
      rewrite bindM_eq.
      assert (E : (match le m b with
                   | true => gets (fun s0 => follow s0 (ob b))
                   | false => ret (ob m) end) s = MOk (ob (repl H b m)) s).
      { unfold repl. destruct (le m b); reflexivity. }
      rewrite E. cbn beta iota.
      assert (Gr : good (repl H b m)) by (destruct (repl_cases H b m) as [-> | ->]; auto).
      rewrite bindM_eq. unfold lift at 1. unfold ob at 1 2. rewrite match_base by assumption.
      cbn beta iota. rewrite IH by assumption.
      rewrite <- app_assoc. cbn [app existsb].
      destruct (le b (repl H b m)); destruct add; reflexivity.
  Qed.

  Lemma min_outer_nil f mins : min_outer H f [] mins = ret mins.
  Proof. reflexivity. Qed.

  Lemma min_outer_cons f obj rest mins :
    min_outer H f (obj :: rest) mins =
          r <- min_inner H f obj [] mins true ;;
          let (mins', add) := r in
          if add then
            o <- gets (fun s => follow s obj) ;;
            o' <- fix_ty H f true o ;;
            min_outer H f rest (mins' ++ [o'])
          else min_outer H f rest mins'.
  Proof. reflexivity. Qed.

  Lemma obs_app l1 l2 : obs (l1 ++ l2) = obs l1 ++ obs l2.
  Proof. apply map_app. Qed.

  Lemma outer_bases f s : forall l ms, Forall good l -> Forall good ms ->
    min_outer H (S (S f)) (obs l) (obs ms) s = MOk (obs (fold_left (min_step H) l ms)) s.
  Proof.
    induction l as [|b l IH]; intros ms Gl Gm.
    - reflexivity.
    - inversion Gl as [|? ? Gb Gl']; subst.
      unfold obs at 1. cbn [map]. fold (obs l). rewrite min_outer_cons.
      rewrite bindM_eq, (inner_bases (S f) b s Gb ms [] true Gm).
      cbn [app andb]. cbn beta iota.
      cbn [fold_left]. unfold min_step at 2.
      destruct (existsb (le b) (map (repl H b) ms)) eqn:E.
      all: cbn [negb].
      + apply IH; auto. pose proof (min_step_good H ms b Gm Gb) as G. unfold min_step in G. now rewrite E in G.
      + rewrite bindM_eq. unfold gets at 1. unfold ob at 1. rewrite follow_O. cbn beta iota. rewrite bindM_eq.
        rewrite fix_base by apply Gb. fold (ob b). change [ob b] with (obs [b]).
        rewrite <- obs_app. apply IH; auto.
        pose proof (min_step_good H ms b Gm Gb) as G. unfold min_step in G. now rewrite E in G.
  Qed.

  Lemma follow_obs s l : map (follow s) (obs l) = obs l.
  Proof. unfold obs. rewrite map_map. apply map_ext. intros b. apply follow_O. Qed.

  (* EliminationConstraint.minimize on a list of base alternatives *)
  Lemma minimize_bases f c s l : Forall good l -> k_alts (constr_of s c) = obs l ->
    minimize H (S (S (S f))) c s =
    MOk tt (set_constr s c (mkConstr (k_elim (constr_of s c)) (follow s (k_ref (constr_of s c)))
                                     (obs (mins_of H l)) (k_strict (constr_of s c)) (k_done (constr_of s c)))).
  Proof.
    intros G E. rewrite minimize_S'. rewrite bindM_eq. unfold gets at 1. rewrite E.
    rewrite bindM_eq. change (@nil tyv) with (obs []).
    rewrite outer_bases by auto.
    rewrite bindM_eq. unfold gets at 1. rewrite bindM_eq. unfold gets at 1.
    rewrite follow_obs. reflexivity.
  Qed.

  (* the filter of EliminationConstraint.fulfill *)
  Lemma filt_nil f s ref : filt H f s ref [] = Ok [].
  Proof. reflexivity. Qed.
  Lemma filt_cons f s ref t r :
    filt H f s ref (t :: r) =
          match match_f H f s true true ref t with
          | Er e => Er e
          | Ok (Some false) => filt H f s ref r
          | Ok _ => match filt H f s ref r with Er e => Er e | Ok r' => Ok (t :: r') end
          end.
  Proof. reflexivity. Qed.

  Lemma filt_bases f s ref (keep : nat -> bool) : forall l, Forall good l ->
    (forall m, good m -> exists r, match_f H f s true true ref (O m []) = Ok r /\
                                   keep m = match r with Some false => false | _ => true end) ->
    filt H f s ref (obs l) = Ok (obs (filter keep l)).
  Proof.
    intros l G HM. induction G as [|m l Gm G IH]; [reflexivity|].
    unfold obs. cbn [map filter]. rewrite filt_cons. fold (obs l). rewrite IH.
    change (ob m) with (O m []).
    destruct (HM m Gm) as (r & -> & ->).
    destruct r as [[|]|]; reflexivity.
  Qed.

  Lemma filter_all {A} (p : A -> bool) l : Forall (fun x => p x = true) l -> filter p l = l.
  Proof. induction 1 as [|x l E _ IH]; cbn [filter]; [auto|now rewrite E, IH]. Qed.

  (* reference variable without bounds, not a wildcard: every alternative stays *)
  Lemma filt_unbounded f s v l : Forall good l ->
    c_wild (cell_of s v) = false -> c_bound (cell_of s v) = None ->
    c_lower (cell_of s v) = None -> c_upper (cell_of s v) = None ->
    filt H (S f) s (V v) (obs l) = Ok (obs l).
  Proof.
    intros G Cw Cb Cl Cu. rewrite (filt_bases (S f) s (V v) (fun _ => true)); auto.
    - f_equal. f_equal. apply filter_all. rewrite Forall_forall. auto.
    - intros m (_ & Tm & _). exists None. split; auto.
      cbn [match_f]. rewrite follow_O, follow_unbound by assumption. cbn beta iota zeta.
      rewrite Cw, Cl, Cu. cbn [andb].
      apply Nat.eqb_neq in Tm. rewrite Tm. reflexivity.
  Qed.

  (* reference variable with lower bound a only: the alternatives above a stay *)
  Lemma filt_lower f s v a l : Forall good l ->
    c_wild (cell_of s v) = false -> c_bound (cell_of s v) = None ->
    c_lower (cell_of s v) = Some a -> c_upper (cell_of s v) = None ->
    filt H (S f) s (V v) (obs l) = Ok (obs (filter (le a) l)).
  Proof.
    intros G Cw Cb Cl Cu. apply filt_bases; auto.
    intros m (Vm & Tm & _). exists (if le a m then None else Some false). split.
    - cbn [match_f]. rewrite follow_O, follow_unbound by assumption. cbn beta iota zeta.
      rewrite Cw, Cl, Cu. cbn [andb].
      apply Nat.eqb_neq in Tm. rewrite Tm. unfold basic, arity. rewrite Vm. cbn [length Nat.eqb negb andb].
      unfold osub. fold (le a m). destruct (le a m); reflexivity.
    - destruct (le a m); reflexivity.
  Qed.

  (* reference already resolved to the base type a *)
  Lemma filt_conc f s a l : good a -> Forall good l ->
    filt H (S f) s (O a []) (obs l) = Ok (obs (filter (le a) l)).
  Proof.
    intros (Va & _ & Ba) G. apply filt_bases; auto.
    intros m (Vm & Tm & _). exists (Some (le a m)). split.
    - cbn [match_f]. rewrite !follow_O.
      apply Nat.eqb_neq in Tm, Ba. rewrite Tm, Ba. cbn [andb orb]. unfold basic, arity. rewrite Va.
      cbn [length Nat.eqb]. unfold osub. now rewrite (eqb_or_le H).
    - destruct (le a m); reflexivity.
  Qed.

  (* evaluation of the alternatives of the schema *)
  Lemma eval_list_bases env s : forall l,
    eval_list env (map sb l) s = MOk (obs l) s.
  Proof.
    induction l as [|b l IH]; [reflexivity|].
    cbn [map]. unfold eval_list in *. cbn [eval_sty sb]. rewrite bindM_eq.
    change ((xs <- ret [];; ret (O b xs)) s) with (MOk (ob b) s). cbn beta iota.
    rewrite bindM_eq, IH. reflexivity.
  Qed.

  (* Constraint.variables(indirect=True) over base alternatives finds nothing new *)
  Lemma closure_nil fuel s seen : closure_f (S fuel) s [] seen = Ok seen.
  Proof. reflexivity. Qed.
  Lemma closure_base fuel s b rest seen :
    closure_f (S fuel) s (O b [] :: rest) seen = closure_f fuel s rest seen.
  Proof. reflexivity. Qed.

  Lemma closure_bases s seen : forall l fuel, length l < fuel ->
    closure_f fuel s (obs l) seen = Ok seen.
  Proof.
    induction l as [|b l IH]; intros fuel L; (destruct fuel as [|fuel]; [cbn in L; lia|]).
    - apply closure_nil.
    - unfold obs. cbn [map]. unfold ob at 1. rewrite closure_base.
      apply IH. cbn in L. lia.
  Qed.

  Lemma closure_cons f s t rest seen :
    closure_f (S f) s (t :: rest) seen =
            match vars_f (S f) s t [] with
            | Er e => Er e
            | Ok vs =>
                let new := filter (fun v => negb (mem v seen)) vs in
                let seen' := union new seen in
                let more := flat_map (fun v =>
                              flat_map (fun c => constr_terms (constr_of s c))
                                       (cset_of s (c_cs (cell_of s v)))) new in
                closure_f f s (more ++ rest) seen'
            end.
  Proof. reflexivity. Qed.

  Lemma closure_start s l fuel : length l + 1 < fuel ->
    c_bound (cell_of s 0) = None -> cset_of s (c_cs (cell_of s 0)) = [] ->
    closure_f fuel s (V 0 :: obs l) [] = Ok [0].
  Proof.
    intros L B C. destruct fuel as [|fuel]; [lia|].
    assert (E : closure_f (S fuel) s (V 0 :: obs l) [] = closure_f fuel s (obs l) [0]).
    { rewrite closure_cons. cbn [vars_f]. rewrite (follow_unbound s 0 B). cbn [ins filter mem existsb negb union fold_right flat_map].
      rewrite C. reflexivity. }
    rewrite E. apply closure_bases. lia.
  Qed.

  Lemma minimize_bases' n c s l : 3 <= n -> Forall good l -> k_alts (constr_of s c) = obs l ->
    minimize H n c s =
    MOk tt (set_constr s c (mkConstr (k_elim (constr_of s c)) (follow s (k_ref (constr_of s c)))
                                     (obs (mins_of H l)) (k_strict (constr_of s c)) (k_done (constr_of s c)))).
  Proof.
    intros L. destruct n as [|[|[|n]]]; try lia. apply minimize_bases.
  Qed.
End LoopLemmas.

(* like c06_bump1 of FitsEngine.v, with the loop-named equations; minimize and
   closure_f are never unfolded (they are rewritten with the loop lemmas) *)
Ltac c06l_bump1 n m En :=
  match goal with
  | |- context [unify ?H n ?a ?b ?c ?d ?e ?s] => replace (unify H n a b c d e s) with (unify H m a b c d e s) by (rewrite En; reflexivity); rewrite unify_S
  | |- context [bind ?H n ?a ?b ?s] => replace (bind H n a b s) with (bind H m a b s) by (rewrite En; reflexivity); rewrite bind_S
  | |- context [above ?H n ?a ?b ?s] => replace (above H n a b s) with (above H m a b s) by (rewrite En; reflexivity); rewrite above_S
  | |- context [below ?H n ?a ?b ?s] => replace (below H n a b s) with (below H m a b s) by (rewrite En; reflexivity); rewrite below_S
  | |- context [check_constraints ?H n ?a ?s] => replace (check_constraints H n a s) with (check_constraints H m a s) by (rewrite En; reflexivity); rewrite check_constraints_S
  | |- context [fulfill ?H n ?a ?s] => replace (fulfill H n a s) with (fulfill H m a s) by (rewrite En; reflexivity); rewrite fulfill_S'
  | |- context [fix_ty ?H n ?a ?b ?s] => replace (fix_ty H n a b s) with (fix_ty H m a b s) by (rewrite En; reflexivity); rewrite fix_ty_S
  | |- context [match_f ?H n ?s ?a ?b ?c ?d] => replace (match_f H n s a b c d) with (match_f H m s a b c d) by (rewrite En; reflexivity)
  | |- context [occurs_f ?H n ?s ?a ?b] => replace (occurs_f H n s a b) with (occurs_f H m s a b) by (rewrite En; reflexivity)
  | |- context [vars_f n ?s ?a ?b] => replace (vars_f n s a b) with (vars_f m s a b) by (rewrite En; reflexivity)
  | |- context [filt ?H n ?s ?a ?b] => replace (filt H n s a b) with (filt H m s a b) by (rewrite En; reflexivity)
  end.

Lemma forallb_obs (g : nat -> bool) l :
  forallb (fun t => match t with V v => g v | O _ _ => true end) (obs l) = true.
Proof. induction l as [|b l IH]; [reflexivity|exact IH]. Qed.

Lemma obs_cons x l : obs (x :: l) = O x [] :: obs l.
Proof. reflexivity. Qed.
Lemma obs_nil : obs [] = [].
Proof. reflexivity. Qed.

Section Bases.
Variable H : hier.
Hypothesis W : wf_hier H.
Local Notation good := (good H).
Local Notation le := (le H).
Local Notation mins_of := (mins_of H).

Ltac facts :=
  progress (unfold osub, Top, Bottom;
    rewrite ?(strict_irrefl H W), ?(osub_top' H), ?(osub_bot' H), ?(osub_top_l' H W), ?(osub_to_bot' H W),
            ?(osub_strict_top_l' H W), ?(basic_top' H W), ?(basic_bot' H W), ?(vr_top' H W), ?(vr_bot' H W), ?Nat.eqb_refl;
    repeat match goal with
    | [E : variance _ _ = _ |- _] => rewrite E
    | [E : basic _ _ = _ |- _] => rewrite E
    | [E : op_subtype _ _ _ _ = _ |- _] => rewrite E
    | [E : Nat.eqb _ _ = _ |- _] => rewrite E
    end).
Ltac bump_any := match goal with [E : ?n = S ?m |- _] => is_var n; is_var m; c06l_bump1 n (S m) E end.
Ltac run := cbn; repeat (first [bump_any|facts]; cbn).

Definition st_multi (sc : list nat) (ms : list nat) : store :=
  mkStore [mkCell false None None None 0] [[0]] [mkConstr true (V 0) (obs ms) false false] sc.

Lemma stage1_multi bs m1 m2 ms n0 n1 n2 n3 n4 n5 n6 n7 n8 sc :
  Forall good bs -> mins_of bs = m1 :: m2 :: ms -> length bs + 2 <= n0 ->
  n0 = S n1 -> n1 = S n2 -> n2 = S n3 -> n3 = S n4 -> n4 = S n5 -> n5 = S n6 -> n6 = S n7 -> n7 = S n8 ->
  instance H n0 (bases_schema bs) (empty_store sc) = MOk (O Function [V 0; V 0]) (st_multi sc (mins_of bs)).
Proof.
  intros Gb Em L E0 E1 E2 E3 E4 E5 E6 E7. pose proof (wf_fun H W) as Vf.
  unfold bases_schema.
  run.
  rewrite eval_constr_elim. run.
  rewrite eval_list_bases. run. rewrite follow_obs. run.
  unfold constr_terms at 1. cbn [k_ref k_alts]. rewrite closure_start by (cbn; auto; lia). run.
  rewrite (minimize_bases' H n1 0 _ bs) by (auto; lia). run.
  rewrite forallb_obs. run.
  rewrite filt_unbounded by (auto using mins_of_good). run.
  rewrite Em, !obs_cons. run.
  reflexivity.
Qed.

Definition st_single (sc : list nat) (m : nat) : store :=
  mkStore [mkCell false (Some (O m [])) None (Some m) 0] [[]] [mkConstr true (V 0) [O m []] false true] sc.

Lemma stage1_single bs m n0 n1 n2 n3 n4 n5 n6 n7 n8 sc :
  Forall good bs -> mins_of bs = [m] -> length bs + 2 <= n0 ->
  n0 = S n1 -> n1 = S n2 -> n2 = S n3 -> n3 = S n4 -> n4 = S n5 -> n5 = S n6 -> n6 = S n7 -> n7 = S n8 ->
  instance H n0 (bases_schema bs) (empty_store sc) = MOk (O Function [V 0; V 0]) (st_single sc m).
Proof.
  intros Gb Em L E0 E1 E2 E3 E4 E5 E6 E7. pose proof (wf_fun H W) as Vf.
  assert (Gm : good m).
  { pose proof (mins_of_good H bs Gb) as G. rewrite Em in G. now inversion G. }
  pose proof Gm as (Vm & Tm & Bm). pose proof (basic_of H _ Vm) as Bsm.
  destruct (good_SS H m Gm) as (m' & ->).
  unfold bases_schema.
  run.
  rewrite eval_constr_elim. run.
  rewrite eval_list_bases. run. rewrite follow_obs. run.
  unfold constr_terms at 1. cbn [k_ref k_alts]. rewrite closure_start by (cbn; auto; lia). run.
  rewrite (minimize_bases' H n1 0 _ bs) by (auto; lia). run.
  rewrite forallb_obs. run.
  rewrite filt_unbounded by (auto using mins_of_good). run.
  rewrite Em, !obs_cons, obs_nil. run.
  reflexivity.
Qed.

Lemma stage2 a n0 n1 s : variance H a = [] -> n0 = S n1 ->
  instance H n0 (conc_schema a) s = MOk (O a []) s.
Proof.
  intros Va E0. unfold conc_schema. run. reflexivity.
Qed.

Lemma stage3_single a m n0 n1 n2 n3 n4 n5 n6 n7 n8 sc :
  good a -> good m ->
  n0 = S n1 -> n1 = S n2 -> n2 = S n3 -> n3 = S n4 -> n4 = S n5 -> n5 = S n6 -> n6 = S n7 -> n7 = S n8 ->
  if le a m
  then exists s', apply H n0 (O Function [V 0; V 0]) (O a []) true (st_single sc m) = MOk (O m []) s'
  else exists s', apply H n0 (O Function [V 0; V 0]) (O a []) true (st_single sc m) = MEr ESubtypeMismatch s'.
Proof.
  intros Ga Gm E0 E1 E2 E3 E4 E5 E6 E7. pose proof (wf_fun H W) as Vf.
  pose proof Gm as (Vm & Tm & Bm). pose proof (basic_of H _ Vm) as Bsm.
  pose proof Ga as (Va & Ta & Ba). pose proof (basic_of H _ Va) as Bsa.
  destruct (good_SS H m Gm) as (m' & ->). destruct (good_SS H a Ga) as (a' & ->).
  unfold le. destruct (op_subtype H false (S (S a')) (S (S m'))) eqn:E; eexists; unfold st_single; run; reflexivity.
Qed.

Lemma stage3_multi a ms n0 n1 n2 n3 n4 n5 n6 n7 n8 sc :
  good a -> Forall good ms ->
  n0 = S n1 -> n1 = S n2 -> n2 = S n3 -> n3 = S n4 -> n4 = S n5 -> n5 = S n6 -> n6 = S n7 -> n7 = S n8 ->
  match filter (le a) (mins_of ms) with
  | [] => exists s', apply H n0 (O Function [V 0; V 0]) (O a []) true (st_multi sc ms) = MEr EConstraintViolation s'
  | _ => exists s' r, apply H n0 (O Function [V 0; V 0]) (O a []) true (st_multi sc ms) = MOk r s' /\ follow s' r = O a []
  end.
Proof.
  intros Ga Gm E0 E1 E2 E3 E4 E5 E6 E7. pose proof (wf_fun H W) as Vf.
  pose proof Ga as (Va & Ta & Ba). pose proof (basic_of H _ Va) as Bsa.
  destruct (good_SS H a Ga) as (a' & Ea).
  destruct (filter (le a) (mins_of ms)) as [|t [|t2 fl]] eqn:Ef.
  - eexists. unfold st_multi. subst a. run.
    rewrite (minimize_bases' H n4 0 _ ms) by (auto; lia). run.
    rewrite forallb_obs. run.
    rewrite (filt_lower H n5 _ 0 (S (S a'))) by (auto using mins_of_good). run.
    rewrite Ef, ?obs_cons, ?obs_nil. run.
    reflexivity.
  - assert (It : In t (filter (le a) (mins_of ms))) by (rewrite Ef; now left).
    apply filter_In in It. destruct It as (It & Lt).
    assert (Gt : good t).
    { pose proof (mins_of_good H ms Gm) as G. rewrite Forall_forall in G. auto. }
    pose proof (strict_false_of_le H W a t Ga Gt Lt) as St. unfold le in Lt.
    pose proof Gt as (Vt & Tt & Bt). pose proof (basic_of H _ Vt) as Bst.
    destruct (good_SS H t Gt) as (t' & Et).
    subst a t.
    assert (Q : (t' =? a') = true \/ ((t' =? a') = false /\ (a' =? t') = false)).
    { destruct (Nat.eqb_spec t' a') as [->|N]; auto. right. split; auto. apply Nat.eqb_neq. congruence. }
    destruct Q as [Q|[Q Q']]; [apply Nat.eqb_eq in Q; subst t'|].
    all: eexists; eexists; unfold st_multi; run.
    all: rewrite (minimize_bases' H n4 0 _ ms) by (auto; lia); run.
    all: rewrite forallb_obs; run.
    all: rewrite (filt_lower H n5 _ 0 (S (S a'))) by (auto using mins_of_good); run.
    all: rewrite Ef, ?obs_cons, ?obs_nil; run.
    all: split; reflexivity.
  - assert (F2 : forall x, In x (t :: t2 :: fl) -> good x /\ le a x = true).
    { intros x I. rewrite <- Ef in I. apply filter_In in I. destruct I as (I & Lx). split; auto.
      pose proof (mins_of_good H ms Gm) as G. rewrite Forall_forall in G. auto. }
    assert (G2 : Forall good (t :: t2 :: fl)) by (apply Forall_forall; intros x I; now apply F2).
    assert (F3 : forall x, In x (mins_of (t :: t2 :: fl)) -> good x /\ le a x = true).
    { intros x I. apply F2. now apply (mins_of_in H). }
    assert (G3 : Forall good (mins_of (t :: t2 :: fl))) by (apply Forall_forall; intros x I; now apply F3).
    assert (Ef3 : filter (le a) (mins_of (t :: t2 :: fl)) = mins_of (t :: t2 :: fl)).
    { apply filter_all. apply Forall_forall. intros x I. now apply F3. }
    pose proof (mins_of_nonempty H W (t :: t2 :: fl) G2 ltac:(discriminate)) as NE3.
    destruct (mins_of (t :: t2 :: fl)) as [|u [|u2 ul]] eqn:Eu; [congruence| |].
    + destruct (F3 u (or_introl eq_refl)) as (Gu & Lu). unfold le in Lu.
      pose proof Gu as (Vu & Tu & Bu). pose proof (basic_of H _ Vu) as Bsu.
      destruct (good_SS H u Gu) as (u' & Eu').
      subst a u.
      eexists; eexists; unfold st_multi; run.
      rewrite (minimize_bases' H n4 0 _ ms) by (auto; lia); run.
      rewrite forallb_obs; run.
      rewrite (filt_lower H n5 _ 0 (S (S a'))) by (auto using mins_of_good); run.
      rewrite Ef, ?obs_cons, ?obs_nil; run.
      rewrite <- !obs_cons.
      rewrite (minimize_bases' H n4 0 _ (t :: t2 :: fl)) by (auto; lia); run.
      rewrite forallb_obs; run.
      rewrite Eu. rewrite (filt_conc H n5 _ (S (S a'))) by auto. rewrite Ef3, ?obs_cons, ?obs_nil; run.
      split; reflexivity.
    + subst a.
      eexists; eexists; unfold st_multi; run.
      rewrite (minimize_bases' H n4 0 _ ms) by (auto; lia); run.
      rewrite forallb_obs; run.
      rewrite (filt_lower H n5 _ 0 (S (S a'))) by (auto using mins_of_good); run.
      rewrite Ef, ?obs_cons, ?obs_nil; run.
      rewrite <- !obs_cons.
      rewrite (minimize_bases' H n4 0 _ (t :: t2 :: fl)) by (auto; lia); run.
      rewrite forallb_obs; run.
      rewrite Eu. rewrite (filt_conc H n5 _ (S (S a'))) by auto. rewrite Ef3, ?obs_cons, ?obs_nil; run.
      split; reflexivity.
Qed.
Lemma run3 n sch1 sch2 s0 t1 s1 t2 s2 :
  instance H n sch1 s0 = MOk t1 s1 -> instance H n sch2 s1 = MOk t2 s2 ->
  run_cmds H n [CInst sch1; CInst sch2; CApply 0 1 true] 0 [] s0 =
  match apply H n t1 t2 true s2 with
  | MOk r s3 => (None, [t1; t2; r], s3)
  | MEr e s3 => (Some (e, 2), [t1; t2], s3)
  end.
Proof.
  intros E1 E2. cbn [run_cmds run_cmd]. rewrite bindM_eq, E1. cbn [ret app].
  rewrite bindM_eq, E2. cbn [ret app]. rewrite bindM_eq. cbn [val nth].
  destruct (apply H n t1 t2 true s2); reflexivity.
Qed.

(* what is observed of a run: the error (with the index of the failing
   command) and the values pushed so far, resolved in the final store *)
Definition observe (r : option (err * nat) * list tyv * store) : option (err * nat) * list tyv :=
  (fst (fst r), map (follow (snd r)) (snd (fst r))).

Definition expected (a : nat) (bs : list nat) : option (err * nat) * list tyv :=
  if existsb (le a) bs
  then (None, [O Function [V 0; V 0]; O a []; O (match mins_of bs with [m] => m | _ => a end) []])
  else (Some (match mins_of bs with [m] => ESubtypeMismatch | _ => EConstraintViolation end, 2),
        [O Function [V 0; V 0]; O a []]).

Lemma run_chain_bases a bs n0 n1 n2 n3 n4 n5 n6 n7 n8 sc :
  good a -> Forall good bs -> bs <> [] -> length bs + 2 <= n0 ->
  n0 = S n1 -> n1 = S n2 -> n2 = S n3 -> n3 = S n4 -> n4 = S n5 -> n5 = S n6 -> n6 = S n7 -> n7 = S n8 ->
  observe (run_cmds H n0 (bases_prog a bs) 0 [] (empty_store sc)) = expected a bs.
Proof.
  intros Ga Gb NE L E0 E1 E2 E3 E4 E5 E6 E7.
  pose proof (mins_of_nonempty H W bs Gb NE) as NEm.
  pose proof (mins_of_good H bs Gb) as Gms.
  pose proof (mins_of_exists H W a bs Ga Gb) as Ex.
  unfold expected, bases_prog. rewrite <- Ex.
  destruct (mins_of bs) as [|m1 [|m2 ms]] eqn:Em; [congruence| |].
  - assert (Gm : good m1) by now inversion Gms.
    rewrite (run3 n0 _ _ _ _ _ _ _
               (stage1_single bs m1 n0 n1 n2 n3 n4 n5 n6 n7 n8 sc Gb Em L E0 E1 E2 E3 E4 E5 E6 E7)
               (stage2 a n0 n1 _ (proj1 Ga) E0)).
    pose proof (stage3_single a m1 n0 n1 n2 n3 n4 n5 n6 n7 n8 sc Ga Gm E0 E1 E2 E3 E4 E5 E6 E7) as S3.
    cbn [existsb]. rewrite orb_false_r.
    destruct (le a m1); destruct S3 as (s' & ->); reflexivity.
  - rewrite <- Em in Gms.
    rewrite (run3 n0 _ _ _ _ _ _ _
               (stage1_multi bs m1 m2 ms n0 n1 n2 n3 n4 n5 n6 n7 n8 sc Gb Em L E0 E1 E2 E3 E4 E5 E6 E7)
               (stage2 a n0 n1 _ (proj1 Ga) E0)).
    pose proof (stage3_multi a (mins_of bs) n0 n1 n2 n3 n4 n5 n6 n7 n8 sc Ga Gms E0 E1 E2 E3 E4 E5 E6 E7) as S3.
    rewrite <- Em. rewrite <- (mins_of_exists H W a (mins_of bs) Ga Gms).
    destruct (filter (le a) (mins_of (mins_of bs))) as [|t fl] eqn:Ef.
    + rewrite (filter_nil_exists H a _ Ef). destruct S3 as (s' & ->). reflexivity.
    + rewrite (filter_cons_exists H a _ _ _ Ef). destruct S3 as (s' & r & -> & Fr).
      unfold observe. cbn [fst snd map]. rewrite !follow_O, Fr. reflexivity.
Qed.

(* `a ** a [a << {B1..Bn}]` applied to the base type A.  Sufficient fuel: 9
   and length bs + 2 (the closure computation of Constraint.__init__ walks the
   alternatives). *)
Theorem engine_bases a bs fuel sc :
  good a -> Forall good bs -> bs <> [] -> 9 <= fuel -> length bs + 2 <= fuel ->
  observe (run_cmds H fuel (bases_prog a bs) 0 [] (empty_store sc)) = expected a bs.
Proof.
  intros Ga Gb NE L9 L.
  destruct fuel as [|n1]; [lia|]. destruct n1 as [|n2]; [lia|]. destruct n2 as [|n3]; [lia|].
  destruct n3 as [|n4]; [lia|]. destruct n4 as [|n5]; [lia|]. destruct n5 as [|n6]; [lia|].
  destruct n6 as [|n7]; [lia|]. destruct n7 as [|n8]; [lia|].
  eapply run_chain_bases; eauto.
Qed.

Definition outcome_bases (fuel : nat) (sc : list nat) (a : nat) (bs : list nat) : option (err * nat) :=
  fst (fst (run_cmds H fuel (bases_prog a bs) 0 [] (empty_store sc))).

Lemma Fits_base_iff a b : good a -> good b ->
  (Fits H (TOp a []) (SOp b []) <-> op_subtype H false a b = true).
Proof.
  intros (Va & _) (Vb & _).
  change (SOp b []) with (sconc (TOp b [])). rewrite (Fits_concrete H W).
  now apply Sub_base_iff.
Qed.

Theorem engine_bases_accept a bs fuel sc :
  good a -> Forall good bs -> bs <> [] -> 9 <= fuel -> length bs + 2 <= fuel ->
  (outcome_bases fuel sc a bs = None <-> existsb (fun b => op_subtype H false a b) bs = true) /\
  (outcome_bases fuel sc a bs = None <-> accept_spec H (TOp a []) (map (fun b => SOp b []) bs) = true) /\
  (outcome_bases fuel sc a bs = None <-> exists b, In b bs /\ Fits H (TOp a []) (SOp b [])) /\
  (outcome_bases fuel sc a bs <> None ->
     outcome_bases fuel sc a bs = Some (EConstraintViolation, 2) \/
     outcome_bases fuel sc a bs = Some (ESubtypeMismatch, 2)).
Proof.
  intros Ga Gb NE L9 L.
  pose proof (engine_bases a bs fuel sc Ga Gb NE L9 L) as E.
  apply (f_equal fst) in E. unfold observe in E. cbn [fst] in E. fold (outcome_bases fuel sc a bs) in E.
  assert (E' : outcome_bases fuel sc a bs =
               if existsb (le a) bs then None
               else Some (match mins_of bs with [m] => ESubtypeMismatch | _ => EConstraintViolation end, 2)).
  { rewrite E. unfold expected. destruct (existsb (le a) bs); reflexivity. }
  clear E. rewrite E'.
  change (fun b => op_subtype H false a b) with (le a).
  change (fun b => SOp b []) with sb.
  rewrite (accept_spec_bases H a bs Ga Gb).
  assert (X : existsb (le a) bs = true <-> exists b, In b bs /\ Fits H (TOp a []) (SOp b [])).
  { rewrite existsb_exists. rewrite Forall_forall in Gb. split; intros (b & I & F); exists b; split; auto.
    - apply Fits_base_iff; auto.
    - apply Fits_base_iff in F; auto. }
  rewrite <- X.
  destruct (existsb (le a) bs).
  - repeat split; auto; congruence.
  - repeat split; try congruence.
    intros _. destruct (mins_of bs) as [|? [|? ?]]; auto.
Qed.

(* the result of the accepted application: the argument itself, except when
   minimize has merged the alternatives into a single one m (then instance()
   already resolved the variable to m and the result is m); in both cases it
   lies between the argument and a fitting alternative *)
Theorem engine_bases_result a bs fuel sc :
  good a -> Forall good bs -> bs <> [] -> 9 <= fuel -> length bs + 2 <= fuel ->
  existsb (fun b => op_subtype H false a b) bs = true ->
  exists r,
    observe (run_cmds H fuel (bases_prog a bs) 0 [] (empty_store sc)) =
      (None, [O Function [V 0; V 0]; O a []; O r []]) /\
    r = match mins_of bs with [m] => m | _ => a end /\
    op_subtype H false a r = true /\
    exists b, In b bs /\ op_subtype H false a b = true /\ op_subtype H false r b = true.
Proof.
  intros Ga Gb NE L9 L Ex. change (fun b => op_subtype H false a b) with (le a) in Ex.
  exists (match mins_of bs with [m] => m | _ => a end).
  split; [|split; [reflexivity|]].
  - rewrite (engine_bases a bs fuel sc Ga Gb NE L9 L). unfold expected. now rewrite Ex.
  - destruct (mins_of bs) as [|m [|m2 ms]] eqn:Em.
    + split; [apply le_refl|]. apply existsb_exists in Ex. destruct Ex as (b & I & Lb).
      exists b. repeat split; auto.
    + rewrite <- (mins_of_exists H W a bs Ga Gb), Em in Ex. cbn [existsb] in Ex. rewrite orb_false_r in Ex.
      split; [exact Ex|]. exists m.
      assert (I : In m bs) by (apply (mins_of_in H); rewrite Em; now left).
      repeat split; auto. apply le_refl.
    + split; [apply le_refl|]. apply existsb_exists in Ex. destruct Ex as (b & I & Lb).
      exists b. repeat split; auto.
Qed.
End Bases.
