(* C03 for schemas with ELIMINATION constraints over base-type alternatives
   x << [A1, ..., An]  (x a schematic variable of the schema, every Ai a user
   base operator), possibly together with pure subtype constraints x <= A /
   x < A: class [progE] (CInst / CApply commands, schemas well-scoped).

   Assembly of
     Infer/SoundElimS.v  forward soundness ([le]/[fr]/[sat] refinement; every
                         fulfilled elimination constraint satisfies its done
                         clause [dcl]; the number of constraints), and
     Infer/SoundElimK.v  the constraint invariant [Kp] (shape, declared
                         alternatives, resolved => filtered, unresolved =>
                         attached)
   into the four clauses of C03 for every accepted progE program:
     (i)+(ii) every satisfying grounding makes every apply step well typed;
     (iii)    every elimination constraint whose reference is resolved to
              O o args has a DECLARED alternative a with  o <= a  (Sub), and
              every subtype constraint whose reference is resolved holds;
     (iv)     a variable that carries a bound is never resolved to a compound
              type.
   (iii) for a fulfilled elimination constraint (one alternative a left,
   below(ref, a) was run) is semantic: every satisfying grounding puts the
   reference below a, a satisfying grounding exists ([elim_satisfiable]), and
   under it the reference denotes TOp o _.  For a pending one it is the filter
   of fulfill, re-run on every bind of the reference by ATTACHMENT. *)
From Coq Require Import List Arith Bool Lia Permutation.
Import ListNotations.
From TF Require Import Base.Hier Base.Ty Sub.SubSpec Infer.Store Infer.Engine Infer.Run
  Infer.Witness Infer.Check Infer.Sched Infer.Inv Infer.Sound Infer.SchedIndep Infer.SoundSub
  Infer.SoundElimS Infer.SoundElimK.
From TF Require Infer.Lub Infer.FitsEngineList.

Unset Implicit Arguments.

Section Main.
Variable H : hier.
Hypothesis W : wf_hier H.
Local Notation gd := (FL.good H).
Local Notation obs := FL.obs.
Local Notation len s := (length (vars s)).

(* ---- satisfiability ---- *)
Lemma wsc_strip s : wsc s -> wsc (strip s).
Proof.
  intros [A B C Dw]. constructor.
  - exact A.
  - intros c Lc. cbn in Lc. lia.
  - intros v Lv. unfold strip. cbn [csets]. rewrite map_length. apply C. exact Lv.
  - intros v. eapply wft_bound_eq; [|apply Dw]. reflexivity.
Qed.

Lemma nocs_strip s : nocs (strip s).
Proof.
  intros i. unfold cset_of, strip. cbn [csets]. revert i.
  induction (csets s) as [|x l IH]; intros [|i]; cbn; auto.
Qed.

Theorem JE_satisfiable s : invb true s -> JE H s ->
  exists th, sat H th s /\ forall v, c_bound (cell_of s v) = None -> th v = canon s v.
Proof.
  intros I (Jv0 & _).
  assert (J0 : J H (strip s)) by (apply (J_of_Jv H s (strip s) Jv0 eq_refl (nocs_strip s))).
  destruct (satisfiable H W (strip s) (wsc_strip s (proj2 I eq_refl)) J0) as (th & S & C).
  exists th. split; [apply (sat_vars H th s (strip s) eq_refl); exact S|exact C].
Qed.

Theorem elim_satisfiable fuel sc prog vals s : progE H 0 prog ->
  run_cmds H fuel prog 0 [] (empty_store sc) = (None, vals, s) ->
  exists th, sat H th s /\ forall v, c_bound (cell_of s v) = None -> th v = canon s v.
Proof.
  intros P R.
  destruct (elimS_final H W fuel sc prog vals s P R) as (J0 & _).
  destruct (elimK_final H W fuel sc prog vals s P R) as (I & _).
  apply JE_satisfiable; auto.
Qed.

(* ---- (i)+(ii) ---- *)
Theorem elim_sound12 fuel sc prog vals s : progE H 0 prog ->
  run_cmds H fuel prog 0 [] (empty_store sc) = (None, vals, s) ->
  forall th, sat H th s -> forall f x r, In (f, x, r) (steps_of prog 0) ->
    StepSem H th (val vals f) (val vals x) (val vals r).
Proof.
  intros P R. destruct (elimS_final H W fuel sc prog vals s P R) as (_ & _ & _ & _ & _ & St). exact St.
Qed.

(* ---- (iv) ---- *)
Theorem elim_bounded fuel sc prog vals s : progE H 0 prog ->
  run_cmds H fuel prog 0 [] (empty_store sc) = (None, vals, s) ->
  forall v t o args, c_bound (cell_of s v) = Some t ->
    (c_lower (cell_of s v) <> None \/ c_upper (cell_of s v) <> None) ->
    follow s t = O o args -> args = [].
Proof.
  intros P R v t o args Hv Hb Ef.
  destruct (elimS_final H W fuel sc prog vals s P R) as (_ & (_ & Fr & _) & _).
  destruct (elim_satisfiable fuel sc prog vals s P R) as (th & S & _).
  assert (B : isbase (th v)).
  { apply (fr_new _ _ _ Fr v); auto; [|congruence].
    unfold cell_of. cbn. destruct v; reflexivity. }
  destruct (S v) as [_ Sv]. rewrite Hv in Sv.
  rewrite <- (den_follow H th s t S), Ef in Sv. cbn [den] in Sv.
  destruct B as (b & Eb). rewrite Eb in Sv. injection Sv as _ Em.
  destruct args; [reflexivity|discriminate].
Qed.

(* ---- (iii) ---- *)
Lemma obs_inv1 l a : obs l = [O a []] -> l = [a].
Proof.
  destruct l as [|x [|y r]]; cbn; intros E; try discriminate. injection E as ->. reflexivity.
Qed.

Lemma holdE_Sub o m : holdE H o m -> Sub H (TOp o []) (TOp m []).
Proof.
  intros [->|(Bo & Lo)]; [apply SubBot|]. apply ole_Sub; auto. apply Lub.basic_iff. exact Bo.
Qed.

(* the whole constraint invariant on the final store *)
Theorem elim_constraints fuel sc prog vals s : progE H 0 prog ->
  run_cmds H fuel prog 0 [] (empty_store sc) = (None, vals, s) ->
  length (constrs s) = ncons prog /\
  forall c, c < length (constrs s) ->
  let k := constr_of s c in
  tg H (len s) (k_ref k) /\
  if k_elim k then
    (* elimination constraint *)
    (exists l, Forall gd l /\ k_alts k = obs l /\ incl l (nth c (decls prog) [])) /\
    (k_done k = true ->
       exists a, k_alts k = [O a []] /\
         forall th, sat H th s -> Sub H (den th (k_ref k)) (TOp a [])) /\
    (k_done k = false ->
       (forall o args, follow s (k_ref k) = O o args ->
          k_alts k <> [] /\ forall m, In (O m []) (k_alts k) -> Sub H (TOp o []) (TOp m [])) /\
       (forall u, follow s (k_ref k) = V u -> In c (cset_of s (c_cs (cell_of s u)))))
  else
    (* subtype constraint *)
    exists a, k_alts k = [O a []] /\ variance H a = [] /\
      (forall o args, follow s (k_ref k) = O o args ->
         Sub H (TOp o []) (TOp a []) /\ (k_strict k = true -> o <> a)) /\
      (forall u, follow s (k_ref k) = V u ->
         if k_done k then a = Top /\ k_strict k = false
         else In c (cset_of s (c_cs (cell_of s u)))).
Proof.
  intros P R.
  destruct (elimS_final H W fuel sc prog vals s P R) as ((_ & Cw) & _ & Dn & _ & N & _).
  destruct (elimK_final H W fuel sc prog vals s P R) as (I & Kk).
  split; [exact N|]. intros c Lc k.
  destruct (Cw c Lc) as (Tr & _). fold k in Tr. split; [exact Tr|].
  destruct (Kk c Lc) as (Sh & Hr). fold k in Sh, Hr.
  pose proof (follow_rsv s (k_ref k) (proj1 I)) as R0.
  unfold shp in Sh. destruct (k_elim k) eqn:Ee.
  - split; [exact Sh|]. split.
    + intros Ed. apply (Dn c Ee Ed).
    + intros Ed. split.
      * intros o args Ef. rewrite Ef in R0. specialize (Hr _ R0). cbn [rcl] in Hr.
        destruct Hr as [Ok|(_ & [])]. unfold okres in Ok. rewrite Ee in Ok.
        destruct Ok as [Ok|(Ne & Ok)]; [congruence|]. split; [exact Ne|].
        intros m Hm. apply holdE_Sub. apply Ok. exact Hm.
      * intros u Ef. rewrite Ef in R0. specialize (Hr _ R0). cbn [rcl] in Hr. rewrite Ed in Hr. exact Hr.
  - destruct Sh as (a & Ea & Ba). exists a. split; [exact Ea|]. split; [apply Lub.basic_iff; exact Ba|]. split.
    + intros o args Ef. rewrite Ef in R0. specialize (Hr _ R0). cbn [rcl] in Hr.
      destruct Hr as [Ok|(_ & [])]. unfold okres in Ok. rewrite Ee in Ok.
      destruct Ok as (a' & Ea' & (Ho & Hs)). rewrite Ea in Ea'. injection Ea' as <-.
      split; [|exact Hs].
      destruct Ho as [->|[->|(Bo & Lo)]]; [apply SubBot|apply SubTop|].
      apply ole_Sub; auto. apply Lub.basic_iff. exact Bo.
    + intros u Ef. rewrite Ef in R0. specialize (Hr _ R0). cbn [rcl] in Hr.
      destruct (k_done k); [|exact Hr]. unfold okvar in Hr. rewrite Ee in Hr.
      destruct Hr as (a' & Ea' & -> & Es). rewrite Ea in Ea'. injection Ea' as ->. auto.
Qed.

(* clause (iii) for elimination constraints: the resolved reference fits a
   DECLARED alternative *)
Theorem elim_constraints_hold fuel sc prog vals s : progE H 0 prog ->
  run_cmds H fuel prog 0 [] (empty_store sc) = (None, vals, s) ->
  forall c, c < length (constrs s) -> k_elim (constr_of s c) = true ->
  forall o args, follow s (k_ref (constr_of s c)) = O o args ->
  exists a, In a (nth c (decls prog) []) /\ In (O a []) (k_alts (constr_of s c)) /\
            Sub H (TOp o []) (TOp a []).
Proof.
  intros P R c Lc Ee o args Ef.
  destruct (elim_constraints fuel sc prog vals s P R) as (_ & Hc).
  destruct (Hc c Lc) as (_ & Hk). cbv zeta in Hk. rewrite Ee in Hk.
  destruct Hk as ((l & Gl & Ea & Il) & Hd & Hn).
  destruct (k_done (constr_of s c)) eqn:Ed.
  - destruct (Hd eq_refl) as (a & Ea' & Ha).
    assert (El : l = [a]) by (apply obs_inv1; congruence). subst l.
    assert (Ga : gd a) by (inversion Gl; assumption).
    destruct (elim_satisfiable fuel sc prog vals s P R) as (th & S & _).
    pose proof (Ha th S) as Sb. rewrite <- (den_follow H th s _ S), Ef in Sb. cbn [den] in Sb.
    exists a. split; [apply Il; left; reflexivity|split; [rewrite Ea'; left; reflexivity|]].
    destruct Ga as (Va & Ta & Ba).
    inversion Sb as [t|t|a0 b0 Va0 A0|o0 xs ys Vo AR]; subst.
    + apply SubBot.
    + congruence.
    + apply SubBase; auto.
    + congruence.
  - destruct (Hn eq_refl) as (Hres & _). destruct (Hres o args Ef) as (Ne & Hm).
    destruct l as [|m l]; [rewrite Ea in Ne; cbn in Ne; congruence|].
    exists m. split; [apply Il; left; reflexivity|].
    assert (In (O m []) (k_alts (constr_of s c))) by (rewrite Ea; left; reflexivity).
    split; [assumption|apply Hm; assumption].
Qed.

(* clause (iii) for the subtype constraints, as in C03_sub_sound *)
Theorem elim_sub_constraints_hold fuel sc prog vals s : progE H 0 prog ->
  run_cmds H fuel prog 0 [] (empty_store sc) = (None, vals, s) ->
  forall c, c < length (constrs s) -> k_elim (constr_of s c) = false ->
  exists a, k_alts (constr_of s c) = [O a []] /\
    forall o args, follow s (k_ref (constr_of s c)) = O o args ->
      Sub H (TOp o []) (TOp a []) /\ (k_strict (constr_of s c) = true -> o <> a) /\
      (args = [] \/ a = Top).
Proof.
  intros P R c Lc Ee.
  destruct (elim_constraints fuel sc prog vals s P R) as (_ & Hc).
  destruct (Hc c Lc) as (Tr & Hk). cbv zeta in Hk. rewrite Ee in Hk.
  destruct Hk as (a & Ea & Va & Hres & _). exists a. split; [exact Ea|].
  intros o args Ef. destruct (Hres o args Ef) as (Sb & St). split; [exact Sb|split; [exact St|]].
  destruct (Nat.eq_dec a Top) as [->|Na]; [right; reflexivity|left].
  destruct (elimS_final H W fuel sc prog vals s P R) as (J0 & _).
  pose proof (SoundElimS.tg_follow H s _ J0 Tr) as Tf. rewrite Ef in Tf.
  inversion Tf as [|? ? La _]; subst.
  assert (Vo : variance H o = []).
  { inversion Sb as [t|t|a0 b0 Va0 A0|o0 xs ys Vo AR]; subst; auto; try congruence.
    apply (var_bot H W). }
  rewrite Vo in La. destruct args; [reflexivity|discriminate].
Qed.

(* ---- C03 for progE programs, all clauses ---- *)
Theorem elim_sound fuel sc prog vals s : progE H 0 prog ->
  run_cmds H fuel prog 0 [] (empty_store sc) = (None, vals, s) ->
  (* (i)+(ii) every application step is well typed under every grounding *)
  (forall th, sat H th s -> forall f x r, In (f, x, r) (steps_of prog 0) ->
     StepSem H th (val vals f) (val vals x) (val vals r)) /\
  (* (iii) elimination constraints: the resolved reference fits a declared alternative *)
  (forall c, c < length (constrs s) -> k_elim (constr_of s c) = true ->
     forall o args, follow s (k_ref (constr_of s c)) = O o args ->
     exists a, In a (nth c (decls prog) []) /\ Sub H (TOp o []) (TOp a [])) /\
  (* (iii) subtype constraints: every resolved constraint holds *)
  (forall c, c < length (constrs s) -> k_elim (constr_of s c) = false ->
     exists a, k_alts (constr_of s c) = [O a []] /\
       forall o args, follow s (k_ref (constr_of s c)) = O o args ->
         Sub H (TOp o []) (TOp a []) /\ (k_strict (constr_of s c) = true -> o <> a) /\
         (args = [] \/ a = Top)) /\
  (* (iv) a variable that carries a bound is never resolved to a compound type *)
  (forall v t o args, c_bound (cell_of s v) = Some t ->
     (c_lower (cell_of s v) <> None \/ c_upper (cell_of s v) <> None) ->
     follow s t = O o args -> args = []).
Proof.
  intros P R. split; [exact (elim_sound12 fuel sc prog vals s P R)|split; [|split]].
  - intros c Lc Ee o args Ef.
    destruct (elim_constraints_hold fuel sc prog vals s P R c Lc Ee o args Ef) as (a & Ia & _ & Sa).
    exists a. auto.
  - exact (elim_sub_constraints_hold fuel sc prog vals s P R).
  - exact (elim_bounded fuel sc prog vals s P R).
Qed.

(* the hypotheses of the per-operation statements hold of every reachable store *)
Theorem elim_final fuel sc prog vals s : progE H 0 prog ->
  run_cmds H fuel prog 0 [] (empty_store sc) = (None, vals, s) ->
  invb true s /\ Kp H (decls prog) none s /\ JE H s /\ dn H s /\ Forall (tg H (len s)) vals.
Proof.
  intros P R.
  destruct (elimS_final H W fuel sc prog vals s P R) as (J0 & _ & Dn & Fv & _).
  destruct (elimK_final H W fuel sc prog vals s P R) as (I & Kk). auto.
Qed.

End Main.
