(* C18, positive half: for constraints of the form  x <= A / x < A  (a subtype
   constraint of a bare variable against a concrete base type) the order in
   which pending constraints are re-examined is unobservable.

   Such a constraint only READS the store when it is re-checked
   ([fulfill_pure]: the skip_basic unification does nothing, the verdict is
   computed by match_f from the variable cells alone), so two re-checks commute
   ([step_swap]) and a whole re-check round is invariant under permutation of
   the pending list ([loop_perm], [check_constraints_perm]).  A relational
   induction on fuel over the mutually recursive engine ([rels_all]) lifts this
   to whole programs ([run_cmds_pure]). *)
From Coq Require Import List Arith Bool Lia Permutation.
Import ListNotations.
From TF Require Import Base.Hier Base.Ty Infer.Store Infer.Engine Infer.Run Infer.Sched Infer.Inv.

(* ------------------------------------------------------------------ *)
(* list primitives                                                      *)
(* ------------------------------------------------------------------ *)

Lemma si_upd_oob {A} (x : A) : forall l i, length l <= i -> upd i x l = l.
Proof.
  induction l as [|y l IH]; intros [|i] L; cbn in *; try reflexivity; try lia.
  f_equal. apply IH. lia.
Qed.

Lemma si_upd_upd {A} (x y : A) : forall l i, upd i y (upd i x l) = upd i y l.
Proof. induction l as [|z l IH]; intros [|i]; cbn; auto. f_equal. apply IH. Qed.

Lemma si_upd_comm {A} (x y : A) : forall l i j, i <> j ->
  upd i x (upd j y l) = upd j y (upd i x l).
Proof.
  induction l as [|z l IH]; intros [|i] [|j] N; cbn; try reflexivity; try lia.
  f_equal. apply IH. lia.
Qed.

Lemma si_remove_nat_comm x y l : remove_nat x (remove_nat y l) = remove_nat y (remove_nat x l).
Proof.
  unfold remove_nat. induction l as [|z l IH]; cbn; [reflexivity|].
  destruct (y =? z) eqn:Ey; destruct (x =? z) eqn:Ex; cbn; rewrite ?Ey, ?Ex; cbn; auto.
  f_equal. exact IH.
Qed.

(* ------------------------------------------------------------------ *)
(* stores that differ only in the schedule                              *)
(* ------------------------------------------------------------------ *)

Definition eqv (s1 s2 : store) : Prop :=
  vars s1 = vars s2 /\ csets s1 = csets s2 /\ constrs s1 = constrs s2.

Lemma eqv_refl s : eqv s s.
Proof. repeat split. Qed.
Lemma eqv_sym s1 s2 : eqv s1 s2 -> eqv s2 s1.
Proof. intros (a & b & c). repeat split; auto. Qed.
Lemma eqv_trans s1 s2 s3 : eqv s1 s2 -> eqv s2 s3 -> eqv s1 s3.
Proof. intros (a & b & c) (a' & b' & c'). repeat split; congruence. Qed.

Lemma cell_of_vars s s' v : vars s = vars s' -> cell_of s v = cell_of s' v.
Proof. unfold cell_of. intros ->. reflexivity. Qed.

Lemma follow_vars s s' t : vars s = vars s' -> follow s t = follow s' t.
Proof.
  intros E. unfold follow. rewrite E. apply follow_f_bound_eq.
  intros v. rewrite (cell_of_vars s s' v E). reflexivity.
Qed.

Lemma cell_of_eqv s1 s2 v : eqv s1 s2 -> cell_of s1 v = cell_of s2 v.
Proof. intros E. apply cell_of_vars, E. Qed.
Lemma cset_of_eqv s1 s2 i : eqv s1 s2 -> cset_of s1 i = cset_of s2 i.
Proof. intros (_ & E & _). unfold cset_of. rewrite E. reflexivity. Qed.
Lemma constr_of_eqv s1 s2 c : eqv s1 s2 -> constr_of s1 c = constr_of s2 c.
Proof. intros (_ & _ & E). unfold constr_of. rewrite E. reflexivity. Qed.
Lemma follow_eqv s1 s2 t : eqv s1 s2 -> follow s1 t = follow s2 t.
Proof. intros E. apply follow_vars, E. Qed.

Lemma eqv_set_cell s1 s2 v c : eqv s1 s2 -> eqv (set_cell s1 v c) (set_cell s2 v c).
Proof. intros (a & b & d). unfold set_cell, eqv; cbn. rewrite a. auto. Qed.
Lemma eqv_set_cset s1 s2 i l : eqv s1 s2 -> eqv (set_cset s1 i l) (set_cset s2 i l).
Proof. intros (a & b & d). unfold set_cset, eqv; cbn. rewrite b. auto. Qed.
Lemma eqv_set_constr s1 s2 i k : eqv s1 s2 -> eqv (set_constr s1 i k) (set_constr s2 i k).
Proof. intros (a & b & d). unfold set_constr, eqv; cbn. rewrite d. auto. Qed.

Section Readers.
Variable H : hier.

Lemma match_f_vars : forall fuel s s' sub aw a b, vars s = vars s' ->
  match_f H fuel s sub aw a b = match_f H fuel s' sub aw a b.
Proof.
  induction fuel as [|f IH]; intros s s' sub aw a b E; cbn [match_f]; [reflexivity|].
  rewrite <- (follow_vars s s' a E), <- (follow_vars s s' b E).
  destruct (follow s a) as [va|oa xs]; destruct (follow s b) as [vb|ob ys];
    rewrite <- ?(cell_of_vars s s' _ E); try reflexivity.
  destruct (sub && ((oa =? Bottom) || (ob =? Top))); [reflexivity|].
  destruct (basic H oa); [reflexivity|].
  destruct (negb (oa =? ob)); [reflexivity|].
  generalize (Some true). generalize (variance H oa) as vs. revert ys.
  induction xs as [|x xs IHx]; intros ys vs acc; destruct vs as [|v vs]; try reflexivity;
    destruct ys as [|y ys]; try reflexivity.
  rewrite <- (IH s s' sub aw x y E), <- (IH s s' sub aw y x E).
  destruct v.
  - destruct (match_f H f s sub aw x y) as [[[|]|]|e]; auto.
  - destruct (match_f H f s sub aw y x) as [[[|]|]|e]; auto.
Qed.

Lemma occurs_f_vars : forall fuel s s' a b, vars s = vars s' ->
  occurs_f H fuel s a b = occurs_f H fuel s' a b.
Proof.
  induction fuel as [|f IH]; intros s s' a b E; cbn [occurs_f]; [reflexivity|].
  rewrite <- (follow_vars s s' a E), <- (follow_vars s s' b E).
  rewrite <- (match_f_vars f s s' false false _ _ E).
  destruct (match_f H f s false false (follow s a) (follow s b)) as [r|e]; [|reflexivity].
  assert (G : match follow s a with
              | V _ => Ok false
              | O _ args =>
                  (fix go (l : list tyv) : res bool :=
                     match l with
                     | [] => Ok false
                     | t :: r0 => match occurs_f H f s t (follow s b) with
                                  | Er e => Er e | Ok true => Ok true | Ok false => go r0 end
                     end) args
              end =
              match follow s a with
              | V _ => Ok false
              | O _ args =>
                  (fix go (l : list tyv) : res bool :=
                     match l with
                     | [] => Ok false
                     | t :: r0 => match occurs_f H f s' t (follow s b) with
                                  | Er e => Er e | Ok true => Ok true | Ok false => go r0 end
                     end) args
              end).
  { destruct (follow s a) as [va|oa xs]; [reflexivity|].
    induction xs as [|x xs IHx]; [reflexivity|].
    rewrite <- (IH s s' x (follow s b) E).
    destruct (occurs_f H f s x (follow s b)) as [[|]|e]; auto. }
  destruct r as [[|]|]; auto.
Qed.

Lemma vars_f_vars : forall fuel s s' t acc, vars s = vars s' ->
  vars_f fuel s t acc = vars_f fuel s' t acc.
Proof.
  induction fuel as [|f IH]; intros s s' t acc E; cbn [vars_f]; [reflexivity|].
  rewrite <- (follow_vars s s' t E).
  destruct (follow s t) as [v|o args]; [reflexivity|].
  revert acc. induction args as [|x xs IHx]; intros acc; [reflexivity|].
  rewrite <- (IH s s' x acc E).
  destruct (vars_f f s x acc) as [acc'|e]; auto.
Qed.

Lemma closure_f_eqv : forall fuel s s' todo seen, eqv s s' ->
  closure_f fuel s todo seen = closure_f fuel s' todo seen.
Proof.
  induction fuel as [|f IH]; intros s s' todo seen E; [reflexivity|].
  cbn [closure_f]. destruct todo as [|t rest]; [reflexivity|].
  rewrite <- (vars_f_vars (S f) s s' t [] (proj1 E)).
  destruct (vars_f (S f) s t []) as [vs|e]; [|reflexivity].
  assert (G : forall l, flat_map (fun v => flat_map (fun c => constr_terms (constr_of s c))
                                       (cset_of s (c_cs (cell_of s v)))) l =
                        flat_map (fun v => flat_map (fun c => constr_terms (constr_of s' c))
                                       (cset_of s' (c_cs (cell_of s' v)))) l).
  { induction l as [|v l IHl]; [reflexivity|]. cbn [flat_map]. rewrite IHl.
    rewrite (cell_of_eqv s s' v E), (cset_of_eqv s s' _ E). f_equal.
    induction (cset_of s' (c_cs (cell_of s' v))) as [|c cs IHc]; [reflexivity|].
    cbn [flat_map]. rewrite IHc, (constr_of_eqv s s' c E). reflexivity. }
  rewrite G. apply IH. exact E.
Qed.

End Readers.

(* ------------------------------------------------------------------ *)
(* following twice never turns a variable into an operation             *)
(* ------------------------------------------------------------------ *)

Lemma nb_follow_f_chain s : forall n x, nb s (follow_f n s x) -> chain s x.
Proof.
  induction n as [|n IH]; intros [v|o args]; cbn [follow_f].
  - destruct (c_bound (cell_of s v)) as [t'|] eqn:Hv; cbn [nb]; intros N.
    + rewrite Hv in N. discriminate.
    + exists []. constructor. exact Hv.
  - intros _. exists []. apply cl_op.
  - destruct (c_bound (cell_of s v)) as [t'|] eqn:Hv; intros N.
    + destruct (IH _ N) as (l & C). exists (v :: l). econstructor; eauto.
    + exists []. constructor. exact Hv.
  - intros _. exists []. apply cl_op.
Qed.

Lemma chain_follow_f_back s : forall n x, chain s (follow_f n s x) -> chain s x.
Proof.
  induction n as [|n IH]; intros [v|o args]; cbn [follow_f]; auto.
  - destruct (c_bound (cell_of s v)); auto.
  - destruct (c_bound (cell_of s v)) as [t'|] eqn:Hv; auto. intros C.
    destruct (IH _ C) as (l & C'). exists (v :: l). econstructor; eauto.
Qed.

Lemma follow_V_V s t va : follow s t = V va -> exists w, follow s (V va) = V w.
Proof.
  intros E. destruct (follow s (V va)) as [w|o args] eqn:E2; [eauto|exfalso].
  assert (C : chain s (V va)).
  { apply (nb_follow_f_chain s (S (length (vars s)))). fold (follow s (V va)). rewrite E2. exact I. }
  assert (Ct : chain s t).
  { apply (chain_follow_f_back s (S (length (vars s)))). fold (follow s t). rewrite E. exact C. }
  apply follow_nb_chain in Ct. rewrite E in Ct. cbn in Ct.
  rewrite (follow_of_nb s (V va)) in E2 by exact Ct. discriminate.
Qed.

Lemma follow_O s o args : follow s (O o args) = O o args.
Proof. reflexivity. Qed.

(* ------------------------------------------------------------------ *)
(* pure constraints: a subtype constraint against a concrete base type  *)
(* ------------------------------------------------------------------ *)
Section Pure.
Variable H : hier.
Local Notation basic := (Engine.basic H).

(* shape of the constraint object (independent of the store) *)
Definition pureK (k : constr) : Prop :=
  k_elim k = false /\ forall t, k_alts k = [t] -> exists a, t = O a [] /\ basic a = true.

(* item 1: the constraint c of store s only reads the store when re-checked *)
Definition readonly_constr (s : store) (c : nat) : Prop :=
  let k := constr_of s c in
  k_elim k = false /\
  (exists a, k_alts k = [O a []] /\ basic a = true) /\
  match follow s (k_ref k) with V _ => True | O o _ => basic o = true end.

Lemma readonly_pureK s c : readonly_constr s c -> pureK (constr_of s c).
Proof.
  intros (E & (a & Ea & Ba) & _). split; [exact E|]. intros t Et. rewrite Ea in Et.
  inversion Et; subst. eauto.
Qed.

(* outcome of  unify(ref, A, subtype, skip_basic=True):  nothing or an error *)
Definition ubase (f : nat) (s : store) (ref : tyv) (a : nat) : option err :=
  match f with
  | 0 => Some EFuel
  | S f' =>
      match follow s ref with
      | V va =>
          if a =? Top then None
          else match occurs_f H f' s (O a []) (V va) with
               | Er e => Some e
               | Ok true => Some ERecursive
               | Ok false => None
               end
      | O oa xs =>
          if (oa =? Bottom) || (a =? Top) then None
          else if basic oa then None else Some ETypeMismatch
      end
  end.

Lemma unify_base f s ref a : basic a = true ->
  unify H f true true false ref (O a []) s =
  match ubase f s ref a with None => MOk tt s | Some e => MEr e s end.
Proof.
  intros Ba. destruct f as [|f]; [reflexivity|].
  rewrite unify_S. unfold bindM, gets. rewrite follow_O. cbn [ubase].
  destruct (follow s ref) as [va|oa xs].
  - destruct (a =? Top); [reflexivity|]. unfold lift.
    destruct (occurs_f H f s (O a []) (V va)) as [[|]|e]; try reflexivity.
    rewrite Ba. reflexivity.
  - destruct ((oa =? Bottom) || (a =? Top)); [reflexivity|].
    destruct (basic oa) eqn:Boa; [reflexivity|].
    destruct (oa =? a) eqn:Eo; [|reflexivity].
    apply Nat.eqb_eq in Eo. subst oa. congruence.
Qed.

Inductive pres := PErr (e : err) | PDone | PKeep.

(* the verdict of re-checking a constraint object k in store s *)
Definition pfc (n : nat) (s : store) (k : constr) : pres :=
  match n with
  | 0 => PErr EFuel
  | S f =>
      match k_alts k with
      | [t] =>
          match t with
          | O a [] =>
              match ubase f s (k_ref k) a with
              | Some e => PErr e
              | None =>
                  match match_f H f s true false (k_ref k) (O a []) with
                  | Er e => PErr e
                  | Ok (Some true) =>
                      if k_strict k then
                        match match_f H f s false false (k_ref k) (O a []) with
                        | Er e => PErr e
                        | Ok (Some true) => PErr EConstraintViolation
                        | Ok None => PKeep
                        | Ok (Some false) => PDone
                        end
                      else PDone
                  | Ok (Some false) => PErr EConstraintViolation
                  | Ok None => PKeep
                  end
              end
          | _ => PErr (ECrash site_arity)
          end
      | _ => PErr (ECrash site_arity)
      end
  end.

Definition done_of (k : constr) : constr := mkConstr false (k_ref k) (k_alts k) (k_strict k) true.
Definition markd (c : nat) (s : store) : store := set_constr s c (done_of (constr_of s c)).

Lemma constr_of_markd c s c' :
  constr_of (markd c s) c' = constr_of s c' \/
  (c' = c /\ constr_of (markd c s) c' = done_of (constr_of s c)).
Proof.
  unfold markd. destruct (constr_of_set_constr s c (done_of (constr_of s c)) c') as [(E & E' & L)|E]; auto.
Qed.

(* item 2, first half: what re-checking a pure constraint does *)
Lemma fulfill_pure n c s : pureK (constr_of s c) ->
  fulfill H n c s =
  match pfc n s (constr_of s c) with
  | PErr e => MEr e s
  | PDone => MOk true (markd c s)
  | PKeep => MOk (k_done (constr_of s c)) s
  end.
Proof.
  intros (El & Al). destruct n as [|f]; [reflexivity|].
  rewrite fulfill_S. unfold bindM at 1. unfold gets at 1. rewrite El. cbn [pfc].
  destruct (k_alts (constr_of s c)) as [|t [|t2 r]] eqn:Ea; try reflexivity.
  destruct (Al t eq_refl) as (a & -> & Ba).
  unfold bindM at 1. rewrite (unify_base f s _ a Ba).
  destruct (ubase f s (k_ref (constr_of s c)) a) as [e|]; [reflexivity|].
  unfold bindM at 1. unfold lift at 1.
  destruct (match_f H f s true false (k_ref (constr_of s c)) (O a [])) as [[[|]|]|e]; try reflexivity.
  destruct (k_strict (constr_of s c)).
  - unfold bindM at 1. unfold lift at 1.
    destruct (match_f H f s false false (k_ref (constr_of s c)) (O a [])) as [[[|]|]|e]; reflexivity.
  - reflexivity.
Qed.

(* item 2, second half: the verdict depends only on the variable cells and on
   the constraint's own ref/target/strictness - not on any k_done flag, not on
   the constraint sets, not on the schedule *)
Lemma ubase_vars f s s' ref a : vars s = vars s' -> ubase f s ref a = ubase f s' ref a.
Proof.
  intros E. destruct f as [|f]; [reflexivity|]. cbn [ubase].
  rewrite <- (follow_vars s s' ref E).
  destruct (follow s ref) as [va|oa xs]; [|reflexivity].
  rewrite <- (occurs_f_vars H f s s' _ _ E). reflexivity.
Qed.

Lemma pfc_vars n s s' k k' : vars s = vars s' ->
  k_ref k = k_ref k' -> k_alts k = k_alts k' -> k_strict k = k_strict k' ->
  pfc n s k = pfc n s' k'.
Proof.
  intros E Er Ea Es. destruct n as [|f]; [reflexivity|]. cbn [pfc].
  rewrite <- Er, <- Ea, <- Es.
  destruct (k_alts k) as [|t [|t2 r]]; try reflexivity.
  destruct t as [v|a [|x xs]]; try reflexivity.
  rewrite <- (ubase_vars f s s' _ a E).
  rewrite <- (match_f_vars H f s s' true false _ _ E), <- (match_f_vars H f s s' false false _ _ E).
  reflexivity.
Qed.

(* the errors a pure re-check can raise *)
Definition cerr (e : err) : Prop :=
  e = ETypeMismatch \/ e = EConstraintViolation \/ e = EFuel \/ e = ECrash site_arity.

Lemma occurs_base_not_true f s t va a : follow s t = V va ->
  occurs_f H f s (O a []) (V va) <> Ok true.
Proof.
  intros E. destruct f as [|f]; [discriminate|]. cbn [occurs_f]. rewrite follow_O.
  destruct (follow_V_V s t va E) as (w & Ew). rewrite Ew.
  destruct f as [|f]; [discriminate|]. cbn [match_f]. rewrite follow_O.
  destruct (follow_V_V s (V va) w Ew) as (w' & Ew'). rewrite Ew'.
  cbn [andb].
  repeat match goal with |- context[if ?c then _ else _] => destruct c end; discriminate.
Qed.

Lemma ubase_err f s ref a e : ubase f s ref a = Some e -> e = EFuel \/ e = ETypeMismatch.
Proof.
  destruct f as [|f]; cbn [ubase]; [intros X; inversion X; auto|].
  destruct (follow s ref) as [va|oa xs] eqn:Ef.
  - destruct (a =? Top); [discriminate|].
    pose proof (occurs_base_not_true f s ref va a Ef) as N.
    destruct (occurs_f H f s (O a []) (V va)) as [[|]|e'] eqn:Eo; try discriminate; try congruence.
    intros X; inversion X; subst. left. eapply occurs_f_err; eauto.
  - repeat match goal with |- context[if ?c then _ else _] => destruct c end; try discriminate.
    intros X; inversion X; auto.
Qed.

Lemma pfc_err n s k e : pfc n s k = PErr e -> cerr e.
Proof.
  unfold cerr. destruct n as [|f]; cbn [pfc]; [intros X; inversion X; auto|].
  destruct (k_alts k) as [|t [|t2 r]]; try (intros X; inversion X; auto; fail).
  destruct t as [v|a [|x xs]]; try (intros X; inversion X; auto; fail).
  destruct (ubase f s (k_ref k) a) as [e'|] eqn:Eu.
  { intros X; inversion X; subst. destruct (ubase_err _ _ _ _ _ Eu); auto. }
  destruct (match_f H f s true false (k_ref k) (O a [])) as [[[|]|]|e'] eqn:Em;
    try (intros X; inversion X; auto; fail).
  - destruct (k_strict k); [|discriminate].
    destruct (match_f H f s false false (k_ref k) (O a [])) as [[[|]|]|e''] eqn:Em';
      try (intros X; inversion X; auto; fail).
    intros X; inversion X; subst. right; right; left. eapply match_f_err; eauto.
  - intros X; inversion X; subst. right; right; left. eapply match_f_err; eauto.
Qed.

(* for a readonly constraint (ref resolved to a variable or a base type) the
   only error is ConstraintViolation - or fuel exhaustion below 4 units *)
Lemma match_base_ok f s sub ref a :
  match follow s ref with V _ => True | O o _ => basic o = true end ->
  exists r, match_f H (S f) s sub false ref (O a []) = Ok r.
Proof.
  intros R. cbn [match_f]. rewrite follow_O. destruct (follow s ref) as [va|oa xs].
  - repeat match goal with |- context[if ?c then _ else _] => destruct c end; eauto.
  - rewrite R. destruct (sub && ((oa =? Bottom) || (a =? Top))); eauto.
Qed.

Lemma pfc_readonly_err n s c e : readonly_constr s c -> pfc n s (constr_of s c) = PErr e ->
  (e = EConstraintViolation \/ e = EFuel) /\ (4 <= n -> e = EConstraintViolation).
Proof.
  intros (El & (a & Ea & Ba) & R). destruct n as [|f]; cbn [pfc].
  { intros X; inversion X; subst. split; [auto|lia]. }
  rewrite Ea.
  destruct (ubase f s (k_ref (constr_of s c)) a) as [e'|] eqn:Eu.
  { intros X; inversion X; subst. clear X. destruct f as [|f]; cbn [ubase] in Eu.
    { inversion Eu; subst. split; [auto|lia]. }
    destruct (follow s (k_ref (constr_of s c))) as [va|oa xs] eqn:Ef.
    - destruct (a =? Top); [discriminate|].
      pose proof (occurs_base_not_true f s _ va a Ef) as N.
      destruct f as [|f]; [cbn in Eu; inversion Eu; subst; split; [auto|lia]|].
      cbn [occurs_f] in Eu, N. rewrite follow_O in Eu, N.
      destruct f as [|f]; [cbn in Eu; inversion Eu; subst; split; [auto|lia]|].
      destruct (follow_V_V s _ va Ef) as (w & Ew). rewrite Ew in Eu, N.
      destruct (match_base_ok f s false (V w) a) as (r & Er).
      { destruct (follow_V_V s (V va) w Ew) as (w' & ->). exact I. }
      exfalso. revert Eu N. cbn [match_f]. cbn [match_f] in Er. rewrite follow_O in *.
      destruct (follow_V_V s (V va) w Ew) as (w' & Ew'). rewrite Ew' in *.
      cbn [andb] in *.
      repeat match goal with |- context[if ?c then _ else _] => destruct c end;
        try discriminate; congruence.
    - rewrite R in Eu. destruct ((oa =? Bottom) || (a =? Top)); discriminate. }
  destruct f as [|f]; [cbn [ubase] in Eu; discriminate|].
  destruct (match_base_ok f s true _ a R) as (r & ->).
  destruct (match_base_ok f s false _ a R) as (r' & ->).
  destruct r as [[|]|]; try (intros X; inversion X; subst; split; auto; fail).
  destruct (k_strict (constr_of s c)); [|discriminate].
  destruct r' as [[|]|]; try discriminate.
  intros X; inversion X; subst; split; auto.
Qed.

(* item 2, spelled out for readonly constraints *)
Lemma markd_spec c s :
  vars (markd c s) = vars s /\ csets (markd c s) = csets s /\ sched (markd c s) = sched s /\
  forall c', constr_of (markd c s) c' = constr_of s c' \/
             (c' = c /\ constr_of (markd c s) c' = done_of (constr_of s c)).
Proof. repeat split. apply constr_of_markd. Qed.

Theorem fulfill_readonly n c s : readonly_constr s c ->
  match fulfill H n c s with
  | MOk b s' => (b = k_done (constr_of s c) /\ s' = s) \/ (b = true /\ s' = markd c s)
  | MEr e s' => s' = s /\ (e = EConstraintViolation \/ e = EFuel) /\
                (4 <= n -> e = EConstraintViolation)
  end.
Proof.
  intros R. rewrite (fulfill_pure n c s (readonly_pureK s c R)).
  destruct (pfc n s (constr_of s c)) as [e| |] eqn:Ep; auto.
  split; [reflexivity|]. eapply pfc_readonly_err; eauto.
Qed.

Theorem fulfill_readonly_vars n c s s2 : pureK (constr_of s c) ->
  vars s2 = vars s ->
  k_elim (constr_of s2 c) = false ->
  k_ref (constr_of s2 c) = k_ref (constr_of s c) ->
  k_alts (constr_of s2 c) = k_alts (constr_of s c) ->
  k_strict (constr_of s2 c) = k_strict (constr_of s c) ->
  forall e, (exists s', fulfill H n c s = MEr e s') <-> (exists s', fulfill H n c s2 = MEr e s').
Proof.
  intros P Ev El Er Ea Es e.
  assert (P2 : pureK (constr_of s2 c)).
  { split; [exact El|]. rewrite Ea. apply P. }
  rewrite (fulfill_pure n c s P), (fulfill_pure n c s2 P2).
  rewrite (pfc_vars n s2 s (constr_of s2 c) (constr_of s c) Ev Er Ea Es).
  destruct (pfc n s (constr_of s c)); split; intros (s' & X); inversion X; subst; eauto.
Qed.

(* ------------------------------------------------------------------ *)
(* one re-check step of check_constraints, in closed form               *)
(* ------------------------------------------------------------------ *)

Definition allpure (s : store) : Prop := forall c, pureK (constr_of s c).

Definition rmc (v c : nat) (s : store) : store :=
  let i := c_cs (cell_of s v) in set_cset s i (remove_nat c (cset_of s i)).

Inductive act := AErr (e : err) | AMark | ARm | ANone.

Definition act_of (n : nat) (s : store) (c : nat) : act :=
  match pfc n s (constr_of s c) with
  | PErr e => AErr e
  | PDone => AMark
  | PKeep => if k_done (constr_of s c) then ARm else ANone
  end.

Definition app (v c : nat) (a : act) (s : store) : store :=
  match a with
  | AMark => rmc v c (markd c s)
  | ARm => rmc v c s
  | _ => s
  end.

Definition step (n v c : nat) (s : store) : mres unit :=
  match act_of n s c with
  | AErr e => MEr e s
  | a => MOk tt (app v c a s)
  end.

Definition body (n v : nat) (c : nat) : M unit :=
  done <- fulfill H n c ;;
  if done then
    modify (fun s => let i := c_cs (cell_of s v) in set_cset s i (remove_nat c (cset_of s i)))
  else ret tt.

Lemma body_step n v c s : pureK (constr_of s c) -> body n v c s = step n v c s.
Proof.
  intros P. unfold body, bindM, step, act_of. rewrite (fulfill_pure n c s P).
  destruct (pfc n s (constr_of s c)) as [e| |]; try reflexivity.
  destruct (k_done (constr_of s c)); reflexivity.
Qed.

Lemma pureK_done k : pureK k -> pureK (done_of k).
Proof. intros (E & A). split; [reflexivity|exact A]. Qed.

Lemma allpure_constrs s s' : constrs s' = constrs s -> allpure s -> allpure s'.
Proof. intros E P c. unfold constr_of. rewrite E. apply P. Qed.

Lemma allpure_markd c s : allpure s -> allpure (markd c s).
Proof.
  intros P c'. destruct (constr_of_markd c s c') as [E|(_ & E)]; rewrite E; [|apply pureK_done]; apply P.
Qed.

Lemma allpure_app v c a s : allpure s -> allpure (app v c a s).
Proof.
  intros P. destruct a; cbn [app]; auto.
  eapply allpure_constrs; [|apply allpure_markd; exact P]. reflexivity.
Qed.

Lemma vars_app v c a s : vars (app v c a s) = vars s.
Proof. destruct a; reflexivity. Qed.

Lemma sched_app v c a s : sched (app v c a s) = sched s.
Proof. destruct a; reflexivity. Qed.

(* a step on x leaves the constraint object y <> x alone *)
Lemma constr_of_app v x a s y : x <> y -> constr_of (app v x a s) y = constr_of s y.
Proof.
  intros N. destruct a; cbn [app]; try reflexivity.
  change (constr_of (rmc v x (markd x s)) y) with (constr_of (markd x s) y).
  unfold markd, constr_of, set_constr; cbn. apply nth_upd_other. auto.
Qed.

Lemma act_of_app n v x a s y : x <> y -> act_of n (app v x a s) y = act_of n s y.
Proof.
  intros N. unfold act_of. rewrite (constr_of_app v x a s y N).
  rewrite (pfc_vars n (app v x a s) s (constr_of s y) (constr_of s y)); auto using vars_app.
Qed.

(* a step on x does not change the verdict on x either (k_done is not read) *)
Lemma pfc_app_same n v x a s :
  pfc n (app v x a s) (constr_of (app v x a s) x) = pfc n s (constr_of s x).
Proof.
  assert (G : constr_of (app v x a s) x = constr_of s x \/
              constr_of (app v x a s) x = done_of (constr_of s x)).
  { destruct a; cbn [app]; auto.
    change (constr_of (rmc v x (markd x s)) x) with (constr_of (markd x s) x).
    destruct (constr_of_markd x s x) as [E|(_ & E)]; auto. }
  apply pfc_vars; auto using vars_app; destruct G as [-> | ->]; reflexivity.
Qed.

(* the store transformers of different constraints commute *)
Lemma markd_comm x y s : x <> y -> markd x (markd y s) = markd y (markd x s).
Proof.
  intros N. unfold markd, set_constr, constr_of; cbn [constrs vars csets sched].
  rewrite (nth_upd_other _ dconstr (constrs s) (j := x) (i := y)) by auto.
  rewrite (nth_upd_other _ dconstr (constrs s) (j := y) (i := x)) by auto.
  f_equal. apply si_upd_comm. exact N.
Qed.

Lemma rmc_comm v x y s : rmc v x (rmc v y s) = rmc v y (rmc v x s).
Proof.
  unfold rmc, set_cset, cset_of, cell_of; cbn.
  set (i := c_cs (nth v (vars s) dcell)). f_equal.
  destruct (Nat.lt_ge_cases i (length (csets s))) as [L|L].
  - rewrite !nth_upd_same by exact L. rewrite !si_upd_upd. f_equal. apply si_remove_nat_comm.
  - rewrite !(si_upd_oob _ (csets s) i) by exact L.
    rewrite ?(si_upd_oob _ (csets s) i) by exact L. reflexivity.
Qed.

Lemma markd_rmc v x y s : markd x (rmc v y s) = rmc v y (markd x s).
Proof. reflexivity. Qed.

Lemma app_comm v x y a b s : x <> y -> app v x a (app v y b s) = app v y b (app v x a s).
Proof.
  intros N. destruct a, b; cbn [app]; try reflexivity;
    rewrite ?markd_rmc, ?(rmc_comm v x y), ?(markd_comm x y s N); reflexivity.
Qed.

(* ------------------------------------------------------------------ *)
(* a re-check round is invariant under permutation of the pending list  *)
(* ------------------------------------------------------------------ *)

Definition loop (n v : nat) (l : list nat) : M unit := forM l (body n v).

(* the errors the pending constraints of l raise in store s *)
Definition errs (n : nat) (s : store) (l : list nat) (e : err) : Prop :=
  exists c, In c l /\ act_of n s c = AErr e.

Definition LR (Q1 Q2 : err -> Prop) (r1 r2 : mres unit) : Prop :=
  match r1, r2 with
  | MOk _ s1, MOk _ s2 => s1 = s2
  | MEr e1 _, MEr e2 _ => Q1 e1 /\ Q2 e2
  | _, _ => False
  end.

Lemma act_err_app n v x a s c e : act_of n (app v x a s) c = AErr e -> act_of n s c = AErr e.
Proof.
  destruct (Nat.eq_dec x c) as [->|N].
  - unfold act_of. rewrite pfc_app_same.
    destruct (pfc n s (constr_of s c)) as [e'| |]; auto; try discriminate.
    destruct (k_done (constr_of (app v c a s) c)); discriminate.
  - rewrite act_of_app by exact N. auto.
Qed.

Lemma errs_app n v x a s l e : errs n (app v x a s) l e -> errs n s (x :: l) e.
Proof. intros (c & Hc & E). exists c. split; [right; exact Hc|]. eapply act_err_app; eauto. Qed.

(* purity is only needed of the constraints that are re-checked *)
Definition lpure (s : store) (l : list nat) : Prop := forall c, In c l -> pureK (constr_of s c).

Lemma pureK_app v x a s c : pureK (constr_of s c) -> pureK (constr_of (app v x a s) c).
Proof.
  intros P. destruct a; cbn [app]; auto.
  change (constr_of (rmc v x (markd x s)) c) with (constr_of (markd x s) c).
  destruct (constr_of_markd x s c) as [E|(-> & E)]; rewrite E; [|apply pureK_done]; exact P.
Qed.

Lemma lpure_app v x a s l : lpure s l -> lpure (app v x a s) l.
Proof. intros P c Hc. apply pureK_app. apply P. exact Hc. Qed.

Lemma lpure_tl s x l : lpure s (x :: l) -> lpure s l.
Proof. intros P c Hc. apply P. right. exact Hc. Qed.

Lemma lpure_perm s l l' : Permutation l l' -> lpure s l -> lpure s l'.
Proof. intros Hp P c Hc. apply P. eapply Permutation_in; [apply Permutation_sym; exact Hp|exact Hc]. Qed.

Lemma allpure_lpure s l : allpure s -> lpure s l.
Proof. intros P c _. apply P. Qed.

Lemma loop_cons n v x l s : lpure s (x :: l) ->
  loop n v (x :: l) s =
  match act_of n s x with
  | AErr e => MEr e s
  | a => loop n v l (app v x a s)
  end.
Proof.
  intros P. unfold loop. cbn [forM]. unfold bindM at 1.
  rewrite (body_step n v x s (P x (or_introl eq_refl))).
  unfold step. destruct (act_of n s x); reflexivity.
Qed.

Lemma loop_err n v : forall l s e s', lpure s l -> loop n v l s = MEr e s' -> errs n s l e.
Proof.
  induction l as [|x l IH]; intros s e s' P; [discriminate|].
  rewrite (loop_cons n v x l s P).
  destruct (act_of n s x) as [e'| | |] eqn:Ea;
    try (intros X; eapply errs_app, IH; [apply lpure_app; eapply lpure_tl; exact P|exact X]).
  intros X; inversion X; subst. exists x. split; [left; reflexivity|exact Ea].
Qed.

Lemma loop_refl n v l s : lpure s l -> LR (errs n s l) (errs n s l) (loop n v l s) (loop n v l s).
Proof.
  intros P. unfold LR. destruct (loop n v l s) as [u s'|e s'] eqn:E; [reflexivity|].
  split; eapply loop_err; eauto.
Qed.

Lemma LR_weaken (Q1 Q2 Q1' Q2' : err -> Prop) r1 r2 :
  (forall e, Q1 e -> Q1' e) -> (forall e, Q2 e -> Q2' e) -> LR Q1 Q2 r1 r2 -> LR Q1' Q2' r1 r2.
Proof. intros A B. unfold LR. destruct r1, r2; auto. intros (X & Y). auto. Qed.

Lemma LR_trans (Q1 Q2 Q3 : err -> Prop) r1 r2 r3 : LR Q1 Q2 r1 r2 -> LR Q2 Q3 r2 r3 -> LR Q1 Q3 r1 r3.
Proof.
  unfold LR. destruct r1, r2, r3; try tauto; try congruence.
Qed.

Lemma errs_swap n s x y l e : errs n s (x :: y :: l) e -> errs n s (y :: x :: l) e.
Proof. intros (c & Hc & E). exists c. split; [|exact E]. cbn in *. tauto. Qed.

Theorem loop_perm n v : forall l1 l2, Permutation l1 l2 -> forall s, lpure s l1 ->
  LR (errs n s l1) (errs n s l2) (loop n v l1 s) (loop n v l2 s).
Proof.
  induction 1 as [|x l l' Hp IH|x y l|l1 l2 l3 H12 IH12 H23 IH23]; intros s P.
  - reflexivity.
  - assert (P' : lpure s (x :: l')) by (eapply lpure_perm; [apply perm_skip; exact Hp|exact P]).
    rewrite (loop_cons n v x _ s P), (loop_cons n v x _ s P').
    destruct (act_of n s x) as [e| | |] eqn:Ea;
      try (eapply LR_weaken; [apply errs_app|apply errs_app
                             |apply IH; apply lpure_app; eapply lpure_tl; exact P]).
    split; exists x; (split; [left; reflexivity|exact Ea]).
  - destruct (Nat.eq_dec x y) as [->|N]; [apply loop_refl; exact P|].
    assert (P' : lpure s (x :: y :: l)) by (eapply lpure_perm; [apply perm_swap|exact P]).
    assert (Pl : lpure s l) by (eapply lpure_tl, lpure_tl; exact P).
    assert (Px : forall a, lpure (app v y a s) (x :: l)).
    { intros a. apply lpure_app. intros c [<-|Hc]; apply P; cbn; auto. }
    assert (Py : forall a, lpure (app v x a s) (y :: l)).
    { intros a. apply lpure_app. intros c [<-|Hc]; apply P; cbn; auto. }
    rewrite (loop_cons n v y _ s P), (loop_cons n v x (y :: l) s P').
    destruct (act_of n s y) as [ey| | |] eqn:Ey; destruct (act_of n s x) as [ex| | |] eqn:Ex;
      rewrite ?(loop_cons n v x l) by apply Px;
      rewrite ?(loop_cons n v y l) by apply Py;
      rewrite ?act_of_app by auto; rewrite ?Ex, ?Ey;
      try (split;
           first [exists y; split; [cbn; auto|exact Ey] | exists x; split; [cbn; auto|exact Ex]]; fail);
      rewrite (app_comm v x y) by exact N;
      (eapply LR_weaken; cycle 2;
         [apply loop_refl; repeat apply lpure_app; exact Pl
         |intros e He; apply errs_swap; do 2 apply errs_app in He; exact He
         |intros e He; do 2 apply errs_app in He; exact He]).
  - eapply LR_trans; [apply IH12; exact P|apply IH23]. eapply lpure_perm; eauto.
Qed.

(* check_constraints as one round of [loop] over a scheduled order *)
Lemma cc_S_eq f v s :
  check_constraints H (S f) v s =
  let p := cset_of s (c_cs (cell_of s v)) in
  if 2 <=? length p then
    match sched s with
    | [] => loop f v (permute (length p) 0 p) s
    | r :: rest => loop f v (permute (length p) r p) (mkStore (vars s) (csets s) (constrs s) rest)
    end
  else loop f v p s.
Proof.
  rewrite check_constraints_S. unfold bindM at 1. unfold gets at 1. cbv zeta.
  destruct (2 <=? length (cset_of s (c_cs (cell_of s v)))).
  - unfold bindM at 1. unfold bindM at 1. unfold next_choice.
    destruct (sched s); reflexivity.
  - reflexivity.
Qed.

Lemma errs_cerr n s l e : errs n s l e -> cerr e.
Proof.
  intros (c & _ & E). unfold act_of in E.
  destruct (pfc n s (constr_of s c)) as [e'| |] eqn:Ep; try discriminate.
  - inversion E; subst. eapply pfc_err; eauto.
  - destruct (k_done (constr_of s c)); discriminate.
Qed.

Lemma errs_readonly n s l e : (forall c, In c l -> readonly_constr s c) -> errs n s l e ->
  (e = EConstraintViolation \/ e = EFuel) /\ (4 <= n -> e = EConstraintViolation).
Proof.
  intros R (c & Hc & E). unfold act_of in E.
  destruct (pfc n s (constr_of s c)) as [e'| |] eqn:Ep; try discriminate.
  - inversion E; subst. eapply pfc_readonly_err; eauto.
  - destruct (k_done (constr_of s c)); discriminate.
Qed.

Definition with_sched (s : store) (sc : list nat) : store :=
  mkStore (vars s) (csets s) (constrs s) sc.

Definition lift_sched {A} (sc : list nat) (r : mres A) : mres A :=
  match r with
  | MOk a s' => MOk a (with_sched s' sc)
  | MEr e s' => MEr e (with_sched s' sc)
  end.

Lemma eqv_with_sched s sc : eqv s (with_sched s sc).
Proof. repeat split. Qed.

Lemma eqv_is_with_sched s1 s2 : eqv s1 s2 -> s2 = with_sched s1 (sched s2).
Proof. destruct s1, s2; unfold eqv, with_sched; cbn. intros (-> & -> & ->). reflexivity. Qed.

Lemma act_of_sched n s sc c : act_of n (with_sched s sc) c = act_of n s c.
Proof.
  unfold act_of. change (constr_of (with_sched s sc) c) with (constr_of s c).
  rewrite (pfc_vars n (with_sched s sc) s (constr_of s c) (constr_of s c)); reflexivity.
Qed.

Lemma app_sched v c a s sc : app v c a (with_sched s sc) = with_sched (app v c a s) sc.
Proof. destruct a; reflexivity. Qed.

(* the re-check loop never looks at the schedule *)
Lemma loop_sched n v sc : forall l s, lpure s l ->
  loop n v l (with_sched s sc) = lift_sched sc (loop n v l s).
Proof.
  induction l as [|x l IH]; intros s P; [reflexivity|].
  rewrite (loop_cons n v x l s P).
  rewrite (loop_cons n v x l (with_sched s sc)) by exact P.
  rewrite act_of_sched.
  destruct (act_of n s x); try reflexivity;
    rewrite app_sched; apply IH; apply lpure_app; eapply lpure_tl; exact P.
Qed.

Lemma loop_vars n v : forall l s u s', lpure s l -> loop n v l s = MOk u s' -> vars s' = vars s.
Proof.
  induction l as [|x l IH]; intros s u s' P; [intros X; inversion X; reflexivity|].
  rewrite (loop_cons n v x l s P).
  destruct (act_of n s x) eqn:Ea; try discriminate; intros X;
    (apply IH in X; [rewrite X; apply vars_app|apply lpure_app; eapply lpure_tl; exact P]).
Qed.

Lemma loop_allpure n v : forall l s u s', allpure s -> loop n v l s = MOk u s' -> allpure s'.
Proof.
  induction l as [|x l IH]; intros s u s' P; [intros X; inversion X; subst; exact P|].
  rewrite (loop_cons n v x l s (allpure_lpure s _ P)).
  destruct (act_of n s x) eqn:Ea; try discriminate; intros X;
    (eapply IH; [|exact X]); apply allpure_app; exact P.
Qed.

Lemma cc_sched f v s r rest : lpure s (cset_of s (c_cs (cell_of s v))) ->
  check_constraints H (S f) v (with_sched s (r :: rest)) =
  let p := cset_of s (c_cs (cell_of s v)) in
  if 2 <=? length p
  then lift_sched rest (loop f v (permute (length p) r p) s)
  else lift_sched (r :: rest) (loop f v p s).
Proof.
  intros P. rewrite cc_S_eq. cbv zeta.
  change (cset_of (with_sched s (r :: rest)) (c_cs (cell_of (with_sched s (r :: rest)) v)))
    with (cset_of s (c_cs (cell_of s v))).
  set (p := cset_of s (c_cs (cell_of s v))) in *.
  destruct (2 <=? length p).
  - cbn [sched with_sched vars csets constrs]. fold (with_sched s rest).
    apply loop_sched. eapply lpure_perm; [|exact P].
    apply Permutation_sym, permute_perm. lia.
  - apply loop_sched. exact P.
Qed.

Lemma readonly_sched s sc c : readonly_constr s c -> readonly_constr (with_sched s sc) c.
Proof.
  unfold readonly_constr. change (constr_of (with_sched s sc) c) with (constr_of s c).
  rewrite (follow_vars (with_sched s sc) s) by reflexivity. auto.
Qed.

(* item 3: one re-check point, two schedule entries *)
Theorem check_constraints_perm f v s r1 r2 rest :
  (forall c, In c (cset_of s (c_cs (cell_of s v))) -> readonly_constr s c) ->
  match check_constraints H (S f) v (with_sched s (r1 :: rest)),
        check_constraints H (S f) v (with_sched s (r2 :: rest)) with
  | MOk _ s1, MOk _ s2 => eqv s1 s2 /\ vars s1 = vars s
  | MEr e1 _, MEr e2 _ =>
      (e1 = EConstraintViolation \/ e1 = EFuel) /\ (e2 = EConstraintViolation \/ e2 = EFuel) /\
      (4 <= f -> e1 = EConstraintViolation /\ e2 = EConstraintViolation)
  | _, _ => False
  end.
Proof.
  intros R.
  assert (Pp : lpure s (cset_of s (c_cs (cell_of s v)))).
  { intros c Hc. apply (readonly_pureK s c). apply R. exact Hc. }
  rewrite !cc_sched by exact Pp. cbv zeta.
  set (p := cset_of s (c_cs (cell_of s v))) in *.
  assert (P1 : Permutation (permute (length p) r1 p) p) by (apply permute_perm; lia).
  assert (P2 : Permutation (permute (length p) r2 p) p) by (apply permute_perm; lia).
  assert (Rp : forall l, Permutation l p -> forall c, In c l -> readonly_constr s c).
  { intros l Hl c Hc. apply (R c). eapply Permutation_in; eauto. }
  destruct (2 <=? length p).
  - pose proof (loop_perm f v _ _ (Permutation_trans P1 (Permutation_sym P2)) s
                  (lpure_perm _ _ _ (Permutation_sym P1) Pp)) as L.
    unfold LR in L.
    destruct (loop f v (permute (length p) r1 p) s) as [u1 s1|e1 s1] eqn:E1;
      destruct (loop f v (permute (length p) r2 p) s) as [u2 s2|e2 s2] eqn:E2;
      try contradiction; cbn [lift_sched].
    + subst s2. split; [apply eqv_refl|].
      apply loop_vars in E1; [exact E1|]. eapply lpure_perm; [apply Permutation_sym; exact P1|exact Pp].
    + destruct L as (L1 & L2).
      destruct (errs_readonly f _ _ e1 (Rp _ P1) L1) as (A1 & B1).
      destruct (errs_readonly f _ _ e2 (Rp _ P2) L2) as (A2 & B2). auto.
  - destruct (loop f v p s) as [u1 s1|e1 s1] eqn:E1; cbn [lift_sched].
    + split; [repeat split|]. apply loop_vars in E1; auto.
    + apply loop_err in E1; [|exact Pp].
      destruct (errs_readonly f _ _ e1 R E1) as (A1 & B1). auto.
Qed.

(* the kind of error a violated pure constraint is reported with is determined
   by what its variable is resolved to: ConstraintViolation for an unbound
   variable or a base type, TypeMismatch for a compound type *)
Definition kind_of_root (s : store) (c : nat) (e : err) : Prop :=
  match follow s (k_ref (constr_of s c)) with
  | V _ => e = EConstraintViolation
  | O o _ => if basic o then e = EConstraintViolation else e = ETypeMismatch
  end.

Lemma pfc_root_kind n s c e :
  k_elim (constr_of s c) = false ->
  (exists a, k_alts (constr_of s c) = [O a []] /\ basic a = true) ->
  pfc n s (constr_of s c) = PErr e -> e = EFuel \/ kind_of_root s c e.
Proof.
  intros El (a & Ea & Ba) Ep. unfold kind_of_root.
  destruct (follow s (k_ref (constr_of s c))) as [va|oa xs] eqn:Ef.
  - destruct (pfc_readonly_err n s c e) as ([->| ->] & _); auto.
    split; [exact El|]. split; [eauto|]. rewrite Ef. exact I.
  - destruct (basic oa) eqn:Boa.
    + destruct (pfc_readonly_err n s c e) as ([->| ->] & _); auto.
      split; [exact El|]. split; [eauto|]. rewrite Ef. exact Boa.
    + destruct n as [|f]; cbn [pfc] in Ep; [inversion Ep; auto|]. rewrite Ea in Ep.
      destruct (ubase f s (k_ref (constr_of s c)) a) as [e'|] eqn:Eu.
      { inversion Ep; subst. destruct (ubase_err _ _ _ _ _ Eu); auto. }
      destruct f as [|f]; [cbn [ubase] in Eu; discriminate|].
      cbn [ubase] in Eu. rewrite Ef, Boa in Eu.
      destruct ((oa =? Bottom) || (a =? Top)) eqn:Et; [|discriminate].
      revert Ep. cbn [match_f]. rewrite follow_O, Ef, Boa. cbn [andb]. rewrite Et.
      assert (Na : (oa =? a) = false).
      { apply Nat.eqb_neq. intros ->. congruence. }
      rewrite Na. cbn [negb]. destruct (k_strict (constr_of s c)); discriminate.
Qed.

Theorem check_constraints_perm_kind f v s r1 r2 rest :
  (forall c, In c (cset_of s (c_cs (cell_of s v))) ->
     k_elim (constr_of s c) = false /\
     exists a, k_alts (constr_of s c) = [O a []] /\ basic a = true) ->
  (* all pending constraints are resolved to the same thing *)
  (forall c c', In c (cset_of s (c_cs (cell_of s v))) -> In c' (cset_of s (c_cs (cell_of s v))) ->
     follow s (k_ref (constr_of s c)) = follow s (k_ref (constr_of s c'))) ->
  match check_constraints H (S f) v (with_sched s (r1 :: rest)),
        check_constraints H (S f) v (with_sched s (r2 :: rest)) with
  | MOk _ s1, MOk _ s2 => eqv s1 s2
  | MEr e1 _, MEr e2 _ => e1 = e2 \/ e1 = EFuel \/ e2 = EFuel
  | _, _ => False
  end.
Proof.
  intros Pq Rt.
  assert (Pp : lpure s (cset_of s (c_cs (cell_of s v)))).
  { intros c Hc. destruct (Pq c Hc) as (El & a & Ea & Ba). split; [exact El|].
    intros t Et. rewrite Ea in Et. inversion Et; subst. eauto. }
  rewrite !cc_sched by exact Pp. cbv zeta.
  set (p := cset_of s (c_cs (cell_of s v))) in *.
  assert (P1 : Permutation (permute (length p) r1 p) p) by (apply permute_perm; lia).
  assert (P2 : Permutation (permute (length p) r2 p) p) by (apply permute_perm; lia).
  assert (K : forall l1 l2 e1 e2, Permutation l1 p -> Permutation l2 p ->
              errs f s l1 e1 -> errs f s l2 e2 -> e1 = e2 \/ e1 = EFuel \/ e2 = EFuel).
  { intros l1 l2 e1 e2 Q1 Q2 (c1 & H1 & A1) (c2 & H2 & A2).
    apply (Permutation_in _ Q1) in H1. apply (Permutation_in _ Q2) in H2.
    unfold act_of in A1, A2.
    destruct (pfc f s (constr_of s c1)) as [e1'| |] eqn:B1;
      [|discriminate|destruct (k_done (constr_of s c1)); discriminate].
    destruct (pfc f s (constr_of s c2)) as [e2'| |] eqn:B2;
      [|discriminate|destruct (k_done (constr_of s c2)); discriminate].
    inversion A1; inversion A2; subst.
    destruct (Pq c1 H1) as (El1 & X1). destruct (Pq c2 H2) as (El2 & X2).
    destruct (pfc_root_kind f s c1 e1 El1 X1 B1) as [->|G1]; auto.
    destruct (pfc_root_kind f s c2 e2 El2 X2 B2) as [->|G2]; auto.
    left. unfold kind_of_root in *. rewrite (Rt c1 c2 H1 H2) in G1.
    destruct (follow s (k_ref (constr_of s c2))) as [w|o xs]; [congruence|].
    destruct (basic o); congruence. }
  destruct (2 <=? length p).
  - pose proof (loop_perm f v _ _ (Permutation_trans P1 (Permutation_sym P2)) s
                  (lpure_perm _ _ _ (Permutation_sym P1) Pp)) as L.
    unfold LR in L.
    destruct (loop f v (permute (length p) r1 p) s) as [u1 s1|e1 s1] eqn:E1;
      destruct (loop f v (permute (length p) r2 p) s) as [u2 s2|e2 s2] eqn:E2;
      try contradiction; cbn [lift_sched].
    + subst s2. apply eqv_refl.
    + destruct L as (L1 & L2). exact (K _ _ e1 e2 P1 P2 L1 L2).
  - destruct (loop f v p s) as [u1 s1|e1 s1] eqn:E1; cbn [lift_sched]; [repeat split|auto].
Qed.

(* the same for pure constraints whose variable may meanwhile be bound to a
   compound type: success and the resulting store agree; a failure may be
   reported as TypeMismatch by one violated constraint and as
   ConstraintViolation by another, depending on which is met first *)
Theorem check_constraints_perm_pure f v s r1 r2 rest :
  lpure s (cset_of s (c_cs (cell_of s v))) ->
  match check_constraints H (S f) v (with_sched s (r1 :: rest)),
        check_constraints H (S f) v (with_sched s (r2 :: rest)) with
  | MOk _ s1, MOk _ s2 => eqv s1 s2 /\ vars s1 = vars s
  | MEr e1 _, MEr e2 _ => cerr e1 /\ cerr e2
  | _, _ => False
  end.
Proof.
  intros Pp. rewrite !cc_sched by exact Pp. cbv zeta.
  set (p := cset_of s (c_cs (cell_of s v))) in *.
  assert (P1 : Permutation (permute (length p) r1 p) p) by (apply permute_perm; lia).
  assert (P2 : Permutation (permute (length p) r2 p) p) by (apply permute_perm; lia).
  destruct (2 <=? length p).
  - pose proof (loop_perm f v _ _ (Permutation_trans P1 (Permutation_sym P2)) s
                  (lpure_perm _ _ _ (Permutation_sym P1) Pp)) as L.
    unfold LR in L.
    destruct (loop f v (permute (length p) r1 p) s) as [u1 s1|e1 s1] eqn:E1;
      destruct (loop f v (permute (length p) r2 p) s) as [u2 s2|e2 s2] eqn:E2;
      try contradiction; cbn [lift_sched].
    + subst s2. split; [apply eqv_refl|].
      apply loop_vars in E1; [exact E1|]. eapply lpure_perm; [apply Permutation_sym; exact P1|exact Pp].
    + destruct L as (L1 & L2). split; eapply errs_cerr; eauto.
  - destruct (loop f v p s) as [u1 s1|e1 s1] eqn:E1; cbn [lift_sched].
    + split; [repeat split|]. apply loop_vars in E1; auto.
    + apply loop_err in E1; [|exact Pp]. split; eapply errs_cerr; eauto.
Qed.

(* ------------------------------------------------------------------ *)
(* relational logic: two runs from stores that differ only in the       *)
(* schedule, all constraints pure                                       *)
(* ------------------------------------------------------------------ *)

(* errors agree, or both are violations reported by a re-check round (which
   of several violated constraints is met first depends on the order) *)
Definition ER (e1 e2 : err) : Prop := e1 = e2 \/ (cerr e1 /\ cerr e2).

Definition RR {A} (r1 r2 : mres A) : Prop :=
  match r1, r2 with
  | MOk a s1, MOk b s2 => a = b /\ eqv s1 s2 /\ allpure s1
  | MEr e1 _, MEr e2 _ => ER e1 e2
  | _, _ => False
  end.

Definition rel {A} (m : M A) : Prop :=
  forall s1 s2, eqv s1 s2 -> allpure s1 -> RR (m s1) (m s2).

Lemma ER_refl e : ER e e.
Proof. left. reflexivity. Qed.

Lemma allpure_eqv s1 s2 : eqv s1 s2 -> allpure s1 -> allpure s2.
Proof. intros (_ & _ & E). apply allpure_constrs. symmetry. exact E. Qed.

Lemma rel_ret {A} (a : A) : rel (ret a).
Proof. intros s1 s2 E P. cbn. auto. Qed.

Lemma rel_fail {A} e : rel (@fail A e).
Proof. intros s1 s2 E P. apply ER_refl. Qed.

Lemma rel_bind {A B} (m : M A) (k : A -> M B) : rel m -> (forall a, rel (k a)) -> rel (bindM m k).
Proof.
  intros Rm Rk s1 s2 E P. unfold bindM. specialize (Rm s1 s2 E P). unfold RR in Rm.
  destruct (m s1) as [a s1'|e1 s1'], (m s2) as [b s2'|e2 s2']; try contradiction.
  - destruct Rm as (-> & E' & P'). apply Rk; auto.
  - exact Rm.
Qed.

Lemma rel_gets {A} (g : store -> A) : (forall s1 s2, eqv s1 s2 -> g s1 = g s2) -> rel (gets g).
Proof. intros G s1 s2 E P. cbn. auto. Qed.

Lemma rel_modify (g : store -> store) :
  (forall s1 s2, eqv s1 s2 -> eqv (g s1) (g s2)) -> (forall s, constrs (g s) = constrs s) ->
  rel (modify g).
Proof.
  intros G C s1 s2 E P. cbn. split; [reflexivity|]. split; [apply G; exact E|].
  eapply allpure_constrs; [apply C|exact P].
Qed.

Lemma rel_lift {A} (r : store -> res A) : (forall s1 s2, eqv s1 s2 -> r s1 = r s2) -> rel (lift r).
Proof.
  intros G s1 s2 E P. unfold lift. rewrite <- (G s1 s2 E).
  destruct (r s1); cbn; auto using ER_refl.
Qed.

Lemma rel_forM {A} (f : A -> M unit) : (forall x, rel (f x)) -> forall l, rel (forM l f).
Proof.
  intros F. induction l as [|x l IH]; cbn [forM]; [apply rel_ret|].
  apply rel_bind; auto.
Qed.

Lemma rel_upd_cell v g : rel (upd_cell v g).
Proof.
  unfold upd_cell. apply rel_modify; [|reflexivity].
  intros s1 s2 E. rewrite (cell_of_eqv s1 s2 v E). apply eqv_set_cell. exact E.
Qed.

Lemma rel_fresh w : rel (fresh w).
Proof.
  intros s1 s2 E P. unfold fresh, alloc_var. destruct E as (Ev & Ec & Ek). cbn.
  rewrite <- Ev, <- Ec. split; [reflexivity|]. split; [unfold eqv; cbn; rewrite Ek; auto|].
  eapply allpure_constrs; [|exact P]. reflexivity.
Qed.

Lemma rel_fresh_list : forall n, rel (fresh_list n).
Proof.
  induction n as [|n IH]; cbn [fresh_list]; [apply rel_ret|].
  apply rel_bind; [apply rel_fresh|]. intros v.
  apply rel_bind; [exact IH|]. intros r. apply rel_ret.
Qed.

(* re-checking one pure constraint *)
Lemma rel_fulfill n c : rel (fulfill H n c).
Proof.
  intros s1 s2 E P.
  rewrite (fulfill_pure n c s1 (P c)), (fulfill_pure n c s2 (allpure_eqv s1 s2 E P c)).
  rewrite <- (constr_of_eqv s1 s2 c E).
  rewrite <- (pfc_vars n s1 s2 (constr_of s1 c) (constr_of s1 c) (proj1 E)) by reflexivity.
  destruct (pfc n s1 (constr_of s1 c)); cbn; auto using ER_refl.
  split; [reflexivity|]. split; [|apply allpure_markd; exact P].
  unfold markd. rewrite <- (constr_of_eqv s1 s2 c E). apply eqv_set_constr. exact E.
Qed.

Lemma LR_RR (Q1 Q2 : err -> Prop) (r1 r2 r3 : mres unit) :
  (forall e, Q1 e -> cerr e) -> (forall e, Q2 e -> cerr e) ->
  LR Q1 Q2 r1 r2 -> RR r2 r3 -> RR r1 r3.
Proof.
  intros C1 C2. unfold LR, RR.
  destruct r1 as [[] s1|e1 s1], r2 as [[] s2|e2 s2], r3 as [[] s3|e3 s3]; try tauto.
  - intros -> X. exact X.
  - intros (A & B) [->|(C & D)]; right; auto.
Qed.

(* check_constraints: the only place where the schedule is read *)
Lemma rel_cc n v : rel (check_constraints H n v).
Proof.
  destruct n as [|f]; [apply rel_fail|].
  intros s1 s2 E P. rewrite !cc_S_eq. cbv zeta.
  rewrite <- (cell_of_eqv s1 s2 v E), <- (cset_of_eqv s1 s2 _ E).
  set (p := cset_of s1 (c_cs (cell_of s1 v))).
  assert (RL : forall l sc1 sc2,
             RR (loop f v l (with_sched s1 sc1)) (loop f v l (with_sched s1 sc2))).
  { intros l sc1 sc2. rewrite !loop_sched by (apply allpure_lpure; exact P).
    destruct (loop f v l s1) as [[] s'|e s'] eqn:El; cbn; auto using ER_refl.
    split; [reflexivity|]. split; [repeat split|].
    eapply allpure_constrs; [|eapply loop_allpure; eauto]. reflexivity. }
  assert (S1 : s1 = with_sched s1 (sched s1)) by (destruct s1; reflexivity).
  pose proof (eqv_is_with_sched s1 s2 E) as S2.
  destruct (2 <=? length p) eqn:E2.
  - assert (G : forall r1 r2 sc1 sc2,
               RR (loop f v (permute (length p) r1 p) (with_sched s1 sc1))
                  (loop f v (permute (length p) r2 p) (with_sched s1 sc2))).
    { intros r1 r2 sc1 sc2.
      assert (P1 : Permutation (permute (length p) r1 p) p) by (apply permute_perm; lia).
      assert (P2 : Permutation (permute (length p) r2 p) p) by (apply permute_perm; lia).
      eapply LR_RR; [apply errs_cerr|apply errs_cerr| |apply (RL _ sc1 sc2)].
      apply loop_perm; [exact (Permutation_trans P1 (Permutation_sym P2))|].
      apply allpure_lpure. eapply allpure_constrs; [|exact P]. reflexivity. }
    destruct E as (Ev & Ec & Ek).
    destruct (sched s1) as [|r1 rest1] eqn:Es1; destruct (sched s2) as [|r2 rest2] eqn:Es2;
      rewrite <- ?Ev, <- ?Ec, <- ?Ek.
    + rewrite S1 at 1. rewrite S2. apply G.
    + rewrite S1 at 1. apply (G 0 r2 [] rest2).
    + rewrite S2. apply (G r1 0 rest1 []).
    + apply (G r1 r2 rest1 rest2).
  - rewrite S1 at 1. rewrite S2. apply RL.
Qed.

(* ------------------------------------------------------------------ *)
(* the mutually recursive core: relational induction on fuel            *)
(* ------------------------------------------------------------------ *)

Lemma cell_of_eqv' s1 s2 : eqv s1 s2 -> forall v, cell_of s1 v = cell_of s2 v.
Proof. intros E v. apply cell_of_eqv. exact E. Qed.
Lemma cset_of_eqv' s1 s2 : eqv s1 s2 -> forall i, cset_of s1 i = cset_of s2 i.
Proof. intros E v. apply cset_of_eqv. exact E. Qed.
Lemma constr_of_eqv' s1 s2 : eqv s1 s2 -> forall c, constr_of s1 c = constr_of s2 c.
Proof. intros E v. apply constr_of_eqv. exact E. Qed.
Lemma follow_eqv' s1 s2 : eqv s1 s2 -> forall t, follow s1 t = follow s2 t.
Proof. intros E v. apply follow_eqv. exact E. Qed.

Ltac eqv_rw E :=
  rewrite ?(cell_of_eqv' _ _ E), ?(cset_of_eqv' _ _ E), ?(constr_of_eqv' _ _ E), ?(follow_eqv' _ _ E).

Ltac eqv_rd :=
  let s1 := fresh "s1" in let s2 := fresh "s2" in let E := fresh "E" in
  intros s1 s2 E;
  first [ apply occurs_f_vars; apply E
        | apply vars_f_vars; apply E
        | apply match_f_vars; apply E
        | apply closure_f_eqv; exact E
        | cbv zeta; eqv_rw E;
          first [ reflexivity
                | apply eqv_set_cset; exact E
                | apply eqv_set_cell; exact E
                | apply eqv_set_constr; exact E ] ].

Ltac rel_step :=
  first
    [ apply rel_ret
    | apply rel_fail
    | apply rel_fresh_list
    | apply rel_fresh
    | apply rel_cc
    | apply rel_fulfill
    | apply rel_upd_cell
    | apply rel_gets; eqv_rd
    | apply rel_lift; eqv_rd
    | apply rel_modify; [eqv_rd|reflexivity]
    | apply rel_bind; [|intro]
    | apply rel_forM; intro
    | match goal with
      | |- rel (if ?c then _ else _) => destruct c
      | |- rel (match ?x with _ => _ end) => destruct x
      end ].

Definition rels (f : nat) : Prop :=
  (forall sub skb skw a b, rel (unify H f sub skb skw a b)) /\
  (forall v t, rel (bind H f v t)) /\
  (forall v o, rel (above H f v o)) /\
  (forall v o, rel (below H f v o)) /\
  (forall pl t, rel (fix_ty H f pl t)).

Lemma rels_0 : rels 0.
Proof. repeat split; intros; apply rel_fail. Qed.

Lemma fold_union_eqv s1 s2 : eqv s1 s2 -> forall vs base,
  fold_right (fun w acc => union (cset_of s1 (c_cs (cell_of s1 w))) acc) base vs =
  fold_right (fun w acc => union (cset_of s2 (c_cs (cell_of s2 w))) acc) base vs.
Proof.
  intros E. induction vs as [|w vs IH]; intros base; cbn [fold_right]; [reflexivity|].
  rewrite IH. eqv_rw E. reflexivity.
Qed.

Lemma rels_step f : rels f -> rels (S f).
Proof.
  intros (IHu & IHb & IHa & IHl & IHx).
  assert (Hb : forall v t, rel (bind H (S f) v t)).
  { intros v t. rewrite bind_S. unfold set_wild, set_bound, set_cs.
    repeat rel_step; auto.
    apply rel_modify; [|reflexivity]. intros s1 s2 E. cbv zeta. eqv_rw E.
    rewrite (fold_union_eqv s1 s2 E). apply eqv_set_cset. exact E. }
  assert (Ha : forall v o, rel (above H (S f) v o)).
  { intros v o. rewrite above_S. unfold set_wild, set_lower. repeat rel_step; auto. }
  assert (Hl : forall v o, rel (below H (S f) v o)).
  { intros v o. rewrite below_S. unfold set_wild, set_upper. repeat rel_step; auto. }
  assert (Hx : forall pl t, rel (fix_ty H (S f) pl t)).
  { intros pl t. rewrite fix_ty_S. repeat rel_step; auto.
    generalize (variance H o) as vs.
    induction args as [|p ps IHp]; intros [|b0 vs]; repeat rel_step; auto. }
  repeat split; auto.
  intros sub skb skw a b. rewrite unify_S. repeat rel_step; auto.
  generalize (variance H o) as vs. revert args0.
  induction args as [|x xs IHxs]; intros [|y ys] [|b0 vs]; repeat rel_step; auto.
Qed.

Theorem rels_all : forall f, rels f.
Proof. induction f as [|f IH]; [apply rels_0|apply rels_step; exact IH]. Qed.

Lemma rel_unify f sub skb skw a b : rel (unify H f sub skb skw a b).
Proof. apply rels_all. Qed.
Lemma rel_bind_var f v t : rel (bind H f v t).
Proof. apply rels_all. Qed.
Lemma rel_fix_ty f pl t : rel (fix_ty H f pl t).
Proof. apply rels_all. Qed.

(* ------------------------------------------------------------------ *)
(* schemas with pure constraints, application, programs                 *)
(* ------------------------------------------------------------------ *)

(* x <= A  /  x < A  for a schematic variable x and a concrete base type A *)
Definition pure_sconstr (sc : sconstr) : Prop :=
  match sc with
  | SCSub (SVar _) (SOp a []) _ => variance H a = []
  | _ => False
  end.

Definition pure_schema (sc : schema) : Prop := Forall pure_sconstr (s_constrs sc).

Definition pure_cmd (c : cmd) : Prop :=
  match c with CInst sc => pure_schema sc | _ => True end.

Lemma rel_eval_sty env : forall t, rel (eval_sty env t).
Proof.
  induction t as [i| |o args IH] using sty_ind'; cbn [eval_sty]; repeat rel_step.
  induction IH as [|a r Ha Hr IHr]; repeat rel_step; auto.
Qed.

Lemma allpure_alloc_constr s k : allpure s -> pureK k -> allpure (snd (alloc_constr s k)).
Proof.
  intros P Pk c. destruct (Nat.lt_ge_cases c (length (constrs s))) as [L|L].
  - rewrite alloc_constr_old by exact L. apply P.
  - destruct (Nat.eq_dec c (length (constrs s))) as [->|N].
    + rewrite alloc_constr_new. exact Pk.
    + rewrite (@constr_of_oob (snd (alloc_constr s k)) c) by (rewrite alloc_constr_length; lia).
      rewrite <- (@constr_of_oob s c L). apply P.
Qed.

Lemma rel_new_constraint fuel k : pureK k -> rel (new_constraint H fuel k).
Proof.
  intros Pk. unfold new_constraint. apply rel_bind.
  - intros s1 s2 E P. cbn. destruct E as (Ev & Ec & Ek). rewrite <- Ek.
    split; [reflexivity|]. split; [unfold eqv; cbn; rewrite Ek; auto|].
    apply (allpure_alloc_constr s1 k P Pk).
  - intros c. repeat rel_step.
Qed.

Lemma rel_eval_constr fuel env sc : pure_sconstr sc -> rel (eval_constr H fuel env sc).
Proof.
  destruct sc as [r t strict|r alts]; cbn [pure_sconstr]; [|tauto].
  destruct r as [i| |]; try tauto. destruct t as [| |a [|x xs]]; try tauto. intros Va.
  cbn [eval_constr eval_sty].
  intros s1 s2 E P. unfold bindM, gets, ret.
  rewrite !follow_O. rewrite <- !(follow_eqv s1 s2 _ E).
  apply rel_new_constraint; auto.
  split; [reflexivity|]. cbn [k_alts]. intros t Et. inversion Et; subst.
  exists a. split; [reflexivity|]. unfold Engine.basic, arity. rewrite Va. reflexivity.
Qed.

Lemma rel_forM_Forall {A} (Q : A -> Prop) (f : A -> M unit) :
  (forall x, Q x -> rel (f x)) -> forall l, Forall Q l -> rel (forM l f).
Proof.
  intros F. induction 1 as [|x l Hx Hl IH]; cbn [forM]; [apply rel_ret|].
  apply rel_bind; auto.
Qed.

Lemma rel_instance fuel sc : pure_schema sc -> rel (instance H fuel sc).
Proof.
  intros Ps. unfold instance.
  apply rel_bind; [apply rel_fresh_list|]. intros env.
  apply rel_bind; [apply rel_eval_sty|]. intros body0.
  apply rel_bind; [|intros _; apply rel_fix_ty].
  apply (rel_forM_Forall pure_sconstr); [|exact Ps].
  intros x Hx. apply rel_eval_constr. exact Hx.
Qed.

Lemma rel_apply fuel f x fixb : rel (apply H fuel f x fixb).
Proof.
  unfold apply. repeat rel_step; auto using rel_bind_var, rel_unify, rel_fix_ty.
Qed.

Lemma rel_run_cmd fuel c vals : pure_cmd c -> rel (run_cmd H fuel c vals).
Proof.
  destruct c as [sc|f x fixb|a b sub|a pl]; cbn [pure_cmd run_cmd]; intros Pc.
  - apply rel_bind; [apply rel_instance; exact Pc|intro; apply rel_ret].
  - apply rel_bind; [apply rel_apply|intro; apply rel_ret].
  - apply rel_bind; [apply rel_unify|intro; apply rel_ret].
  - apply rel_bind; [apply rel_fix_ty|intro; apply rel_ret].
Qed.

Definition outcome_rel (r1 r2 : option (err * nat) * list tyv * store) : Prop :=
  match fst (fst r1), fst (fst r2) with
  | None, None => snd (fst r1) = snd (fst r2) /\ eqv (snd r1) (snd r2)
  | Some (e1, i1), Some (e2, i2) => i1 = i2 /\ ER e1 e2
  | _, _ => False
  end.

Lemma run_cmds_rel fuel : forall cs i vals s1 s2, Forall pure_cmd cs -> eqv s1 s2 -> allpure s1 ->
  outcome_rel (run_cmds H fuel cs i vals s1) (run_cmds H fuel cs i vals s2).
Proof.
  induction cs as [|c cs IH]; intros i vals s1 s2 Pc E P; cbn [run_cmds].
  - unfold outcome_rel; cbn. auto.
  - inversion Pc as [|c' cs' Hc Hcs]; subst.
    pose proof (rel_run_cmd fuel c vals Hc s1 s2 E P) as R. unfold RR in R.
    destruct (run_cmd H fuel c vals s1) as [v1 s1'|e1 s1'],
             (run_cmd H fuel c vals s2) as [v2 s2'|e2 s2']; try contradiction.
    + destruct R as (-> & E' & P'). apply IH; auto.
    + unfold outcome_rel; cbn. auto.
Qed.

Lemma allpure_empty sc : allpure (empty_store sc).
Proof.
  intros c. unfold constr_of; cbn. destruct c; (split; [reflexivity|intros t Et; discriminate]).
Qed.

End Pure.

(* ------------------------------------------------------------------ *)
(* item 4: whole programs                                               *)
(* ------------------------------------------------------------------ *)

(* the errors a violated pure constraint can be reported with *)
Definition viol_err (e : err) : Prop :=
  e = ETypeMismatch \/ e = EConstraintViolation \/ e = EFuel.

Definition pure_prog (H : hier) (prog : list cmd) : Prop := Forall (pure_cmd H) prog.

Theorem run_cmds_pure : forall H fuel prog sc1 sc2, pure_prog H prog ->
  let r1 := run_cmds H fuel prog 0 [] (empty_store sc1) in
  let r2 := run_cmds H fuel prog 0 [] (empty_store sc2) in
  match fst (fst r1), fst (fst r2) with
  | None, None =>
      snd (fst r1) = snd (fst r2) /\
      vars (snd r1) = vars (snd r2) /\ csets (snd r1) = csets (snd r2) /\
      constrs (snd r1) = constrs (snd r2)
  | Some (e1, i1), Some (e2, i2) => i1 = i2 /\ (e1 = e2 \/ (viol_err e1 /\ viol_err e2))
  | _, _ => False
  end.
Proof.
  intros H fuel prog sc1 sc2 Pp r1 r2.
  pose proof (run_cmds_rel H fuel prog 0 [] (empty_store sc1) (empty_store sc2) Pp
                (conj eq_refl (conj eq_refl eq_refl)) (allpure_empty H sc1)) as R.
  unfold outcome_rel in R. fold r1 r2 in R.
  destruct r1 as [[o1 v1] s1] eqn:E1, r2 as [[o2 v2] s2] eqn:E2. cbn [fst snd] in *.
  destruct o1 as [[e1 i1]|], o2 as [[e2 i2]|]; try contradiction; [|exact R].
  destruct R as (-> & [->|(C1 & C2)]); split; auto.
  assert (N1 : forall site, e1 <> ECrash site) by (eapply engine_nocrash; exact E1).
  assert (N2 : forall site, e2 <> ECrash site) by (eapply engine_nocrash; exact E2).
  right. unfold cerr, viol_err in *. split.
  - destruct C1 as [?|[?|[?|C]]]; auto. destruct (N1 _ C).
  - destruct C2 as [?|[?|[?|C]]]; auto. destruct (N2 _ C).
Qed.

(* a successful run leaves the same dump whatever the schedule *)
Theorem run_dump_pure : forall H fuel prog sc1 sc2, pure_prog H prog ->
  fst (fst (run_cmds H fuel prog 0 [] (empty_store sc1))) = None ->
  run_dump H fuel sc1 prog = run_dump H fuel sc2 prog.
Proof.
  intros H fuel prog sc1 sc2 Pp N. pose proof (run_cmds_pure H fuel prog sc1 sc2 Pp) as R.
  cbv zeta in R. unfold run_dump.
  destruct (run_cmds H fuel prog 0 [] (empty_store sc1)) as [[o1 v1] s1].
  destruct (run_cmds H fuel prog 0 [] (empty_store sc2)) as [[o2 v2] s2].
  cbn [fst snd] in *. subst o1. destruct o2 as [[e2 i2]|]; [contradiction|].
  destruct R as (-> & Ev & Ec & Ek). unfold dump. rewrite Ev, Ec, Ek. reflexivity.
Qed.
