(* C18 for the class progE, part P: towards whole programs.

   [GI pend s]  the invariant of the stores in which the engine starts a re-check
                round: JE, inv, alternatives pairwise equal-or-incomparable
                ([PIall]), every pending elimination constraint with an unresolved
                reference is ATTACHED to the set of the variable it refers to and
                is settled - or is in [pend] (waiting for the round about to start)
                - or has never been in another set ([uq]: a constraint whose
                minimized alternatives still contain duplicates stays unsettled
                until the first round on its set) ([SE]); a fulfilled subtype
                constraint holds ([SDall]).
   [GI_RoundPre]  GI (with the pending constraints referring to variables of the
                set of v) implies the hypothesis RoundPre of the one-round theorem.
   [GI_cc]      a round re-establishes GI with nothing pending.
   [GS_bindb] [GS_above] [GS_below] [GS_bindV] [GS_bindC] [GS_unify_all]
   [GS_fix_all] [GS_apply]   every engine operation except TypeSchema.instance
                keeps GI; every round they start is started from a store with GI
                and [share].  [GI_empty]: the empty store.
   Missing: instance (constraint creation) and hence "reachable -> GI"; the
   relational lifting modulo eqk (see props/C18_elim_prog.v).
   [same_outcome]  executable comparison of two program outcomes up to eqk. *)
From Coq Require Import List Arith Bool Lia Permutation.
Import ListNotations.
From TF Require Import Base.Hier Base.Ty Sub.SubSpec Infer.Store Infer.Engine Infer.Run
  Infer.Sched Infer.Inv Infer.Sound Infer.FixLeast Infer.TermP Infer.SchedIndep Infer.SoundSub
  Infer.TermSub Infer.SoundElimS Infer.SoundElimK Infer.SoundElim Infer.TermElim
  Infer.SchedIndepElimA Infer.SchedIndepElimR Infer.SchedIndepElim.
From TF Require Infer.Frame.
From TF Require Infer.Lub Infer.FitsEngineList.

Unset Implicit Arguments.

Section P.
Variable H : hier.
Hypothesis W : wf_hier H.
Local Notation inv := (invb true).
Local Notation len s := (length (vars s)).
Local Notation vd s k := (pfc H 4 s k).
Local Notation cs s v := (c_cs (cell_of s v)).

Definition nop : nat -> Prop := fun _ => False.

Definition uq (s : store) (c w : nat) : Prop :=
  (forall j, In c (cset_of s j) -> j = cs s w) /\
  (forall x, x < len s -> c_bound (cell_of s x) = None -> cs s x = cs s w -> x = w).

Definition PIall (s : store) : Prop :=
  forall c l, c < length (constrs s) -> k_elim (constr_of s c) = true ->
    k_alts (constr_of s c) = FL.obs l -> PI H l.

Definition SE (pend : nat -> Prop) (s : store) : Prop :=
  forall c w, c < length (constrs s) -> k_elim (constr_of s c) = true ->
    k_done (constr_of s c) = false -> follow s (k_ref (constr_of s c)) = V w ->
    In c (cset_of s (cs s w)) /\ (pend c \/ stlE H s c \/ uq s c w).

Definition SDall (s : store) : Prop :=
  forall c, c < length (constrs s) -> k_elim (constr_of s c) = false ->
    k_done (constr_of s c) = true -> vd s (constr_of s c) = PDone.

Definition GI (pend : nat -> Prop) (s : store) : Prop :=
  JE H s /\ inv s /\ PIall s /\ SE pend s /\ SDall s.

(* the constraints waiting for the round on v sit in the set of v and refer to
   variables of that set *)
Definition share (s : store) (pend : nat -> Prop) (v : nat) : Prop :=
  forall c, pend c -> In c (cset_of s (cs s v)) /\
    forall w, follow s (k_ref (constr_of s c)) = V w -> cs s w = cs s v.

Lemma share_nop s v : share s nop v.
Proof. intros c []. Qed.

Lemma SE_mono (p q : nat -> Prop) s : (forall c, p c -> q c) -> SE p s -> SE q s.
Proof.
  intros M Se c w Lc E D Ef. destruct (Se c w Lc E D Ef) as (A & [X|X]); split; auto.
Qed.

Lemma GI_mono (p q : nat -> Prop) s : (forall c, p c -> q c) -> GI p s -> GI q s.
Proof. intros M (J & I & Pi & Se & Sd). split; [exact J|split; [exact I|split; [exact Pi|split; [exact (SE_mono p q s M Se)|exact Sd]]]]. Qed.

Lemma ref_var_range s c w : inv s -> c < length (constrs s) ->
  follow s (k_ref (constr_of s c)) = V w -> w < len s /\ c_bound (cell_of s w) = None.
Proof.
  intros I Lc Ef. split.
  - pose proof (@scts_of_constr true s c I Lc) as F. inversion F as [|x l Hx _]; subst.
    pose proof (follow_sct I Hx eq_refl) as T. rewrite Ef in T. inversion T; assumption.
  - pose proof (@Inv.follow_unbound true s (k_ref (constr_of s c)) I) as N. rewrite Ef in N. exact N.
Qed.

Theorem GI_RoundPre pend s v : GI pend s -> share s pend v -> RoundPre H s v.
Proof.
  intros (J & I & Pi & Se & Sd) Sh. apply RoundPre_intro; auto.
  - intros c w Hc E D Ef. pose proof (inv_cs I _ _ Hc) as Lc.
    destruct (ref_var_range s c w I Lc Ef) as (Lw & Uw).
    destruct (Se c w Lc E D Ef) as (_ & [X|[X|X]]).
    + left. repeat split; auto. apply (proj2 (Sh c X)). exact Ef.
    + right. exact X.
    + left. repeat split; auto. symmetry. apply (proj1 X). exact Hc.
  - intros c Hc E D. apply Sd; auto. apply (inv_cs I _ _ Hc).
Qed.

(* what a round leaves alone *)
Definition FrB (s s' : store) : Prop :=
  len s' = len s /\
  forall x, cs s' x = cs s x /\
    (forall t, c_bound (cell_of s x) = Some t -> c_bound (cell_of s' x) = Some t) /\
    (forall t, c_bound (cell_of s' x) = Some t -> c_bound (cell_of s x) = Some t \/ exists a, t = O a []).

Lemma FrB_refl s : FrB s s.
Proof. split; [reflexivity|]. intros x. repeat split; auto. Qed.

Lemma FrB_trans s1 s2 s3 : FrB s1 s2 -> FrB s2 s3 -> FrB s1 s3.
Proof.
  intros (L1 & F1) (L2 & F2). split; [congruence|]. intros x.
  destruct (F1 x) as (A1 & B1 & C1), (F2 x) as (A2 & B2 & C2). split; [congruence|split].
  - intros t Ht. auto.
  - intros t Ht. destruct (C2 t Ht) as [X|X]; auto.
Qed.

Lemma crel_FrB i s s' : len s' = len s -> (forall w, crel H i (cell_of s w) (cell_of s' w)) -> FrB s s'.
Proof.
  intros L C. split; [exact L|]. intros x. pose proof (C x) as R. split; [apply (crel_cs H i _ _ R)|split].
  - intros t Ht. rewrite (crel_bound H i _ _ t R Ht). exact Ht.
  - intros t Ht. destruct R as [E|(N & _ & (_ & _ & _ & D))]; [left; rewrite <- E; exact Ht|].
    destruct D as [(Bn & _)|(a & E & _)]; [congruence|]. rewrite E in Ht. cbn in Ht. injection Ht as <-. right. eauto.
Qed.

Theorem GI_cc pend f v s u s' : GI pend s -> share s pend v ->
  check_constraints H f v s = MOk u s' -> GI nop s' /\ FrB s s'.
Proof.
  intros G Sh E. pose proof (GI_RoundPre pend s v G Sh) as P. destruct G as (J & I & Pi & Se & Sd).
  set (i := cs s v) in *.
  destruct (no_dom H W i s) as (td & Ntd).
  assert (FHd : forall s1, Step H i s s1 -> Dom H i s1 td -> FinT H i s td) by (intros s1 S1 D; destruct (Ntd s1 S1 D)).
  assert (So : startok s s) by (split; [reflexivity|split; [reflexivity|split; [reflexivity|exact I]]]).
  pose proof (round_run H W i s P f v s td So eq_refl FHd) as R. unfold wp in R. rewrite E in R.
  destruct R as ((St & P' & T & Sl) & _).
  assert (J' : JE H s') by (apply (cc_soundE H W f v s J u s' E)).
  assert (I' : inv s').
  { pose proof (cc_ok H f v I) as K. unfold ok in K. rewrite E in K. apply K. }
  pose proof (st_cell H i s s' St) as C.
  split; [|apply (crel_FrB i); [apply (st_len H i s s' St)|exact C]].
  destruct P' as (L' & Hr' & Sd').
  assert (Lk : length (constrs s') = length (constrs s)) by apply St.
  split; [exact J'|split; [exact I'|split; [|split]]].
  - intros c l Lc. apply (lw_pi H s' L' c l Lc).
  - intros c w Lc Ek Dn Ef. rewrite Lk in Lc.
    destruct (in_dec Nat.eq_dec c (cset_of s i)) as [Hc|Hc].
    + (* a constraint of the set: settled by the round *)
      pose proof (s_in H i s s' c St Hc Dn) as Hc'.
      pose proof (Sl c Hc') as X. unfold settled in X. rewrite Ek in X.
      split; [|right; left; exact X].
      assert (E0 : k_elim (constr_of s c) = true).
      { destruct (k_elim (constr_of s c)) eqn:E0; [reflexivity|].
        destruct (st_sub H i s s' St c E0) as [Y|Y]; rewrite Y in Ek; cbn in Ek; congruence. }
      assert (D0 : k_done (constr_of s c) = false).
      { destruct (k_done (constr_of s c)) eqn:D0; [|reflexivity]. rewrite (st_don H i s s' St c E0 D0) in Dn. congruence. }
      pose proof (lw_kw H s (proj1 P) c Lc) as Sh0. unfold shape in Sh0. rewrite E0 in Sh0. destruct Sh0 as (l0 & _ & Ea0).
      pose proof (proj2 (st_elm H i s s' St c l0 Hc E0 D0 Ea0)) as Er. rewrite Ef in Er.
      pose proof (rho_var H i s P s' c w St (eq_sym Er)) as Rw. unfold rho in Rw.
      destruct (Se c w Lc E0 D0 Rw) as (At & _).
      rewrite (crel_cs H i _ _ (C w)).
      destruct (Nat.eq_dec (cs s w) i) as [Ei|Ni]; [rewrite Ei; exact Hc'|].
      rewrite (st_cso H i s s' St _ Ni). exact At.
    + (* a constraint outside the set: untouched, and so is its variable *)
      rewrite (st_out H i s s' St c Hc) in *.
      pose proof (follow_var_back H i s s' _ w I I' C Ef) as Ef0.
      destruct (Se c w Lc Ek Dn Ef0) as (At & Dj).
      assert (Ni : cs s w <> i) by (intros X; rewrite X in At; contradiction).
      assert (Ew : cell_of s' w = cell_of s w).
      { destruct (C w) as [X|(_ & X & _)]; [exact X|contradiction]. }
      rewrite Ew. rewrite (st_cso H i s s' St _ Ni). split; [exact At|].
      destruct Dj as [X|[X|X]].
      * exfalso. apply Hc. apply (proj1 (Sh c X)).
      * right. left. destruct X as (Dn0 & En & l & Ea & An & Le & Kp). unfold stlE. rewrite (st_out H i s s' St c Hc).
        assert (Ekr : k_ref (constr_of s c) = V w) by congruence.
        destruct (ref_var_range s c w I Lc Ef0) as (_ & Uw).
        split; [exact Dn0|split; [rewrite Ekr; apply Lub.follow_V_unbound; rewrite Ew; exact Uw|]].
        exists l. repeat split; auto. intros m Hm. rewrite <- (Kp m Hm). rewrite Ekr. unfold kp.
        rewrite !Lub.follow_V_unbound; [rewrite Ew; reflexivity|exact Uw|rewrite Ew; exact Uw].
      * right. right. split.
        -- intros j Hj. rewrite Ew.
           destruct (Nat.eq_dec j i) as [->|Nj]; [exfalso; apply Hc; apply (csi_incl H i s s' c St Hj)|].
           rewrite (st_cso H i s s' St j Nj) in Hj. apply (proj1 X). exact Hj.
        -- intros x Lx Ux Ex. rewrite Ew in Ex. rewrite (crel_cs H i _ _ (C x)) in Ex.
           apply (proj2 X x); [rewrite <- (st_len H i s s' St); exact Lx|apply (crel_unb H i _ _ (C x) Ux)|exact Ex].
  - intros c Lc Ek Dn. rewrite Lk in Lc.
    destruct (in_dec Nat.eq_dec c (cset_of s i)) as [Hc|Hc]; [apply Sd'; auto|].
    rewrite (st_out H i s s' St c Hc) in *.
    pose proof (lw_kw H s (proj1 P) c Lc) as Sh0. unfold shape in Sh0. rewrite Ek in Sh0. destruct Sh0 as (a & Ea & Ba).
    apply (vd_done_mono H W i s s' _ a I I' C Ea Ba). apply Sd; auto.
Qed.


(* ================================================================== *)
(* the invariant under the primitive updates                            *)
(* ================================================================== *)
Definition Qt (s s' : store) : Prop :=
  len s' = len s /\ (forall x, ceqw (cell_of s x) (cell_of s' x)) /\
  constrs s' = constrs s /\ csets s' = csets s.

Lemma Qt_refl s : Qt s s.
Proof. repeat split. Qed.

Lemma Qt_FrB s s' : Qt s s' -> FrB s s'.
Proof.
  intros (L & C & _). split; [exact L|]. intros x. destruct (C x) as (B & _ & _ & Cs).
  split; [exact Cs|split; intros t Ht; [rewrite B; exact Ht|left; rewrite <- B; exact Ht]].
Qed.

Lemma sub_shape s c : JE H s -> c < length (constrs s) -> k_elim (constr_of s c) = false ->
  exists a, k_alts (constr_of s c) = [O a []] /\ basic H a = true.
Proof.
  intros J Lc E. pose proof (CW_KW H s J c Lc) as Sh. unfold shape in Sh. rewrite E in Sh. exact Sh.
Qed.

(* a fulfilled subtype constraint stays fulfilled when bindings are added and bounds change *)
Lemma vd_done_ext s s' k a : inv s -> inv s' -> bext s s' ->
  k_alts k = [O a []] -> basic H a = true -> vd s k = PDone -> vd s' k = PDone.
Proof.
  intros I I' B Ea Ba D.
  pose proof (@Inv.follow_unbound true s (k_ref k) I) as N.
  pose proof (follow_ext s s' (k_ref k) I' B) as Fe.
  destruct (follow s (k_ref k)) as [w1|o xs] eqn:Ef.
  - pose proof (pfc_var H W 0 s k w1 a (@inv_chain true s I) Ef Ea Ba) as X. change (4 + 0) with 4 in X.
    rewrite X in D. clear X. unfold vdv in D.
    destruct (a =? Top) eqn:ET; [|destruct (kpc H (cell_of s w1) a); discriminate].
    destruct (k_strict k) eqn:Es; [discriminate|]. apply Nat.eqb_eq in ET. subst a.
    destruct (follow s' (V w1)) as [w2|o xs] eqn:E2.
    + pose proof (pfc_var H W 0 s' k w2 Top (@inv_chain true s' I') (eq_sym Fe) Ea Ba) as X. change (4 + 0) with 4 in X.
      rewrite X. unfold vdv. rewrite Es. reflexivity.
    + cbn [pfc]. rewrite Ea. cbn [ubase]. rewrite <- Fe. cbn [Nat.eqb Top orb]. rewrite orb_true_r.
      cbn [match_f]. rewrite Lub.follow_O, <- Fe. cbn [andb Nat.eqb Top]. rewrite orb_true_r. rewrite Es. reflexivity.
  - rewrite Lub.follow_O in Fe.
    rewrite <- (pfc_res H 4 s s' k o xs a Ef (eq_sym Fe) Ea Ba). exact D.
Qed.

Lemma stlE_transfer s s' c : inv s -> constr_of s' c = constr_of s c ->
  (forall w, k_ref (constr_of s c) = V w -> cell_of s' w = cell_of s w) -> stlE H s c -> stlE H s' c.
Proof.
  intros I Ek Ec (Dn & En & l & Ea & An & Le & Kp). unfold stlE. rewrite Ek.
  pose proof (@Inv.follow_unbound true s (k_ref (constr_of s c)) I) as N. rewrite En in N.
  destruct (k_ref (constr_of s c)) as [w|o xs] eqn:Er.
  - cbn [nb] in N. assert (U' : c_bound (cell_of s' w) = None) by (rewrite (Ec w eq_refl); exact N).
    split; [exact Dn|split; [apply Lub.follow_V_unbound; exact U'|]].
    exists l. repeat split; auto. intros m Hm. rewrite <- (Kp m Hm). unfold kp.
    rewrite !Lub.follow_V_unbound by assumption. rewrite (Ec w eq_refl). reflexivity.
  - split; [exact Dn|split; [reflexivity|]]. exists l. repeat split; auto.
Qed.

Lemma stlE_ceqw s s' c : Qt s s' -> stlE H s c -> stlE H s' c.
Proof.
  intros (L & C & Ek & _) (Dn & En & l & Ea & An & Le & Kp). unfold stlE.
  rewrite (constr_of_same s s' c Ek).
  split; [exact Dn|split; [rewrite (follow_ceqw s s' _ C L); exact En|]].
  exists l. repeat split; auto. intros m Hm. rewrite (kp_ceqw H s s' _ m C L). auto.
Qed.

Lemma cset_of_same s s' j : csets s' = csets s -> cset_of s' j = cset_of s j.
Proof. unfold cset_of. intros ->. reflexivity. Qed.

Lemma GI_quiet pend s s' : GI pend s -> Qt s s' -> JE H s' -> inv s' -> GI pend s'.
Proof.
  intros (J & I & Pi & Se & Sd) Q J' I'. pose proof Q as (L & C & Ek & Ec).
  assert (Ecn : forall c, constr_of s' c = constr_of s c) by (intros c; apply constr_of_same; exact Ek).
  split; [exact J'|split; [exact I'|split; [|split]]].
  - intros c l. rewrite Ek, Ecn. apply Pi.
  - intros c w. rewrite Ek, Ecn, (follow_ceqw s s' _ C L). intros Lc E D Ef.
    destruct (Se c w Lc E D Ef) as (At & Dj). destruct (C w) as (_ & _ & _ & Cw).
    rewrite Cw, (cset_of_same s s' _ Ec). split; [exact At|].
    destruct Dj as [X|[X|X]]; [left; exact X|right; left; apply (stlE_ceqw s s' c Q X)|right; right].
    split.
    + intros j Hj. rewrite (cset_of_same s s' _ Ec) in Hj. rewrite Cw. apply (proj1 X). exact Hj.
    + intros x Lx Ux Ex. destruct (C x) as (Bx & _ & _ & Cx). rewrite Cx, Cw in Ex.
      apply (proj2 X x); [rewrite <- L; exact Lx|rewrite <- Bx; exact Ux|exact Ex].
  - intros c. rewrite Ek, Ecn. intros Lc E D.
    destruct (sub_shape s c J Lc E) as (a & Ea & Ba).
    rewrite (vd_ceqw H W s s' _ a I I' C L Ea Ba). apply Sd; auto.
Qed.

Lemma share_quiet pend s s' v : Qt s s' -> share s pend v -> share s' pend v.
Proof.
  intros (L & C & Ek & Ec) Sh c Pc. destruct (Sh c Pc) as (A & B).
  destruct (C v) as (_ & _ & _ & Cv). rewrite Cv, (cset_of_same s s' _ Ec). split; [exact A|].
  intros w. rewrite (constr_of_same s s' c Ek), (follow_ceqw s s' _ C L). intros Ef.
  destruct (C w) as (_ & _ & _ & Cw). rewrite Cw. apply B. exact Ef.
Qed.

(* JE and inv when a cell is replaced by one with the same binding and set *)
Lemma JEinv_cell s v c' : JE H s -> inv s -> v < len s ->
  c_bound c' = c_bound (cell_of s v) -> c_cs c' = cs s v -> Sound.bok H c' ->
  JE H (set_cell s v c') /\ inv (set_cell s v c').
Proof.
  intros J I Lv Eb Ecs Bk. split.
  - apply JE_set_cell; [exact J|exact Bk|]. intros t Ht. rewrite Eb in Ht. apply (JE_sc H s J v t Ht).
  - destruct Bk as (Bl & Bu & _). apply inv_set_cell; [exact I| | |left; exact Eb| |].
    + intros X. destruct (Bl _ X) as (_ & _ & Y). apply Y. reflexivity.
    + intros X. destruct (Bu _ X) as (_ & _ & Y). apply Y. reflexivity.
    + intros t Ht. rewrite Eb in Ht. apply (@sct_of_bound true s v t I Ht).
    + intros _ _. rewrite Ecs. apply (sc_cs (proj2 I eq_refl)). exact Lv.
Qed.

Lemma Qt_wild s v c' : v < len s -> ceqw (cell_of s v) c' -> Qt s (set_cell s v c').
Proof.
  intros Lv Cq. split; [cbn; apply upd_length|split; [|split; reflexivity]].
  intros x. destruct (cell_of_set_cell s v c' x) as [(E & -> & _)|E]; rewrite E; [exact Cq|repeat split].
Qed.

(* the constraints that refer to v *)
Definition refs (s : store) (v : nat) : nat -> Prop :=
  fun c => c < length (constrs s) /\ k_elim (constr_of s c) = true /\ k_done (constr_of s c) = false /\
           follow s (k_ref (constr_of s c)) = V v.

Definition por (p q : nat -> Prop) : nat -> Prop := fun c => p c \/ q c.

(* changing the bounds of an unbound variable: the constraints that refer to it wait *)
Lemma GI_bounds pend s v c' : GI pend s -> v < len s -> c_bound (cell_of s v) = None ->
  c_bound c' = None -> c_cs c' = cs s v -> Sound.bok H c' ->
  GI (por pend (refs s v)) (set_cell s v c').
Proof.
  intros (J & I & Pi & Se & Sd) Lv U Eb Ecs Bk. set (s' := set_cell s v c').
  destruct (JEinv_cell s v c' J I Lv (eq_trans Eb (eq_sym U)) Ecs Bk) as (J' & I'). fold s' in J', I'.
  assert (Fs : forall r, follow s' r = follow s r).
  { intros r. apply follow_set_same. rewrite Eb, U. reflexivity. }
  assert (Cs : forall x, cs s' x = cs s x).
  { intros x. unfold s'. destruct (cell_of_set_cell s v c' x) as [(E & -> & _)|E]; rewrite E; auto. }
  split; [exact J'|split; [exact I'|split; [exact Pi|split]]].
  - intros c w Lc E D Ef. change (constr_of s' c) with (constr_of s c) in *. rewrite Fs in Ef.
    destruct (Se c w Lc E D Ef) as (At & Dj). rewrite Cs. split; [exact At|].
    destruct (Nat.eq_dec w v) as [->|Nw]; [left; right; repeat split; auto|].
    destruct Dj as [X|[X|X]]; [left; left; exact X|right; left|right; right].
    + apply (stlE_transfer s s' c I eq_refl); [|exact X]. intros w' Ew.
      assert (w' = w) by (destruct X as (_ & En & _); congruence).
      subst w'. unfold s'. apply cell_of_set_cell_other. exact Nw.
    + split; [intros j Hj; rewrite Cs; apply (proj1 X); exact Hj|].
      intros x Lx Ux Ex. rewrite !Cs in Ex. apply (proj2 X x); [unfold s' in Lx; cbn in Lx; rewrite upd_length in Lx; exact Lx| |exact Ex].
      unfold s' in Ux. destruct (cell_of_set_cell s v c' x) as [(Ey & -> & _)|Ey]; rewrite Ey in Ux; [exact U|exact Ux].
  - intros c Lc E D. change (constr_of s' c) with (constr_of s c) in *.
    destruct (sub_shape s c J Lc E) as (a & Ea & Ba).
    apply (vd_done_ext s s' _ a I I'); auto.
    intros x t Hx. unfold s'. destruct (cell_of_set_cell s v c' x) as [(Ex & -> & _)|Ex]; rewrite Ex; [congruence|exact Hx].
Qed.


(* binding an unbound variable to an operation *)
Definition cbd (c : cell) (t : tyv) : cell := mkCell false (Some t) (c_lower c) (c_upper c) (c_cs c).

Lemma follow_bindO s v o args r : inv s -> inv (set_cell s v (cbd (cell_of s v) (O o args))) ->
  v < len s -> c_bound (cell_of s v) = None ->
  follow (set_cell s v (cbd (cell_of s v) (O o args))) r =
  match follow s r with V x => if x =? v then O o args else V x | t => t end.
Proof.
  intros I I' Lv U. set (s' := set_cell s v _).
  assert (B : bext s s').
  { intros x t Hx. unfold s'. destruct (cell_of_set_cell s v (cbd (cell_of s v) (O o args)) x) as [(E & -> & _)|E]; rewrite E; [congruence|exact Hx]. }
  rewrite <- (follow_ext s s' r I' B).
  pose proof (@Inv.follow_unbound true s r I) as N.
  destruct (follow s r) as [x|o' xs]; [|apply Lub.follow_O].
  destruct (x =? v) eqn:Ex.
  - apply Nat.eqb_eq in Ex. subst x. apply Lub.follow_V_bound_O. unfold s'. rewrite cell_of_set_cell_same by exact Lv. reflexivity.
  - apply Nat.eqb_neq in Ex. apply Lub.follow_V_unbound. unfold s'. rewrite cell_of_set_cell_other by exact Ex. exact N.
Qed.

Lemma GI_bindO pend s v o args : GI pend s -> v < len s -> c_bound (cell_of s v) = None ->
  tg H (len s) (O o args) -> nocc s v (O o args) ->
  GI pend (set_cell s v (cbd (cell_of s v) (O o args))).
Proof.
  intros (J & I & Pi & Se & Sd) Lv U Tg No. set (c' := cbd (cell_of s v) (O o args)). set (s' := set_cell s v c').
  assert (J' : JE H s').
  { apply JE_set_cell; [exact J|apply (JE_b H s J v)|]. intros t [= <-]. exact Tg. }
  assert (I' : inv s').
  { apply inv_set_cell; [exact I|apply (inv_lo I v)|apply (inv_up I v)| | |].
    - right. split; [exact U|]. exists (O o args). cbn. repeat split; auto. discriminate.
    - intros t [= <-]. apply (tg_sct H). exact Tg.
    - intros _ _. apply (sc_cs (proj2 I eq_refl)). exact Lv. }
  assert (Cs : forall x, cs s' x = cs s x).
  { intros x. unfold s'. destruct (cell_of_set_cell s v c' x) as [(E & -> & _)|E]; rewrite E; auto. }
  split; [exact J'|split; [exact I'|split; [exact Pi|split]]].
  - intros c w Lc E D Ef. change (constr_of s' c) with (constr_of s c) in *.
    unfold s', c' in Ef. rewrite (follow_bindO s v o args _ I I' Lv U) in Ef.
    destruct (follow s (k_ref (constr_of s c))) as [x|o' xs] eqn:Ef0; [|discriminate].
    destruct (x =? v) eqn:Ex; [discriminate|]. injection Ef as <-. apply Nat.eqb_neq in Ex.
    destruct (Se c x Lc E D Ef0) as (At & Dj). rewrite Cs. split; [exact At|].
    destruct Dj as [X|[X|X]]; [left; exact X|right; left|right; right].
    + apply (stlE_transfer s s' c I eq_refl); [|exact X]. intros w' Ew.
      assert (w' = x) by (destruct X as (_ & En & _); congruence).
      subst w'. unfold s'. apply cell_of_set_cell_other. exact Ex.
    + split; [intros j Hj; rewrite Cs; apply (proj1 X); exact Hj|].
      intros y Ly Uy Ey. rewrite !Cs in Ey. apply (proj2 X y); [unfold s' in Ly; cbn in Ly; rewrite upd_length in Ly; exact Ly| |exact Ey].
      unfold s' in Uy. destruct (cell_of_set_cell s v c' y) as [(Ez & -> & _)|Ez]; rewrite Ez in Uy; [discriminate|exact Uy].
  - intros c Lc E D. change (constr_of s' c) with (constr_of s c) in *.
    destruct (sub_shape s c J Lc E) as (a & Ea & Ba).
    apply (vd_done_ext s s' _ a I I'); auto.
    intros x t Hx. unfold s'. destruct (cell_of_set_cell s v c' x) as [(Ex & -> & _)|Ex]; rewrite Ex; [congruence|exact Hx].
Qed.

Lemma share_bindO pend s v o args x : inv s -> inv (set_cell s v (cbd (cell_of s v) (O o args))) ->
  v < len s -> c_bound (cell_of s v) = None -> share s pend x ->
  share (set_cell s v (cbd (cell_of s v) (O o args))) pend x.
Proof.
  intros I I' Lv U Sh c Pc. destruct (Sh c Pc) as (A & B). set (s' := set_cell s v _).
  assert (Cs : forall y, cs s' y = cs s y).
  { intros y. unfold s'. destruct (cell_of_set_cell s v (cbd (cell_of s v) (O o args)) y) as [(E & -> & _)|E]; rewrite E; auto. }
  rewrite Cs. split; [exact A|]. intros w Ef. change (constr_of s' c) with (constr_of s c) in Ef.
  unfold s' in Ef. rewrite (follow_bindO s v o args _ I I' Lv U) in Ef.
  destruct (follow s (k_ref (constr_of s c))) as [y|o' xs] eqn:Ef0; [|discriminate].
  destruct (y =? v); [discriminate|]. injection Ef as <-. rewrite !Cs. apply B. reflexivity.
Qed.


(* ================================================================== *)
(* bind to a base type, above, below                                    *)
(* ================================================================== *)
Definition PostG (pend : nat -> Prop) (s s' : store) : Prop :=
  (GI nop s' \/ (GI pend s' /\ Qt s s')) /\ FrB s s'.

Definition base_or_unb (s : store) (v : nat) : Prop :=
  c_bound (cell_of s v) = None \/ exists a, c_bound (cell_of s v) = Some (O a []).

Lemma nocc_O0 s v o : nocc s v (O o []).
Proof. apply nocc_op. intros x []. Qed.

Lemma tg_O0 n o : variance H o = [] -> tg H n (O o []).
Proof. intros Vo. constructor; [rewrite Vo; reflexivity|constructor]. Qed.

Theorem GS_bindb f pend v o s : GI pend s -> share s pend v -> v < len s ->
  c_bound (cell_of s v) = None -> variance H o = [] ->
  tr (bind H f v (O o [])) s (fun _ s' => GI nop s' /\ FrB s s').
Proof.
  intros G Sh Lv U Vo. destruct f as [|f]; [rewrite bind_0; apply tr_fail|].
  rewrite Inv.bind_S. apply tr_gets. rewrite U.
  unfold set_wild at 1. apply tr_upd_cell. unfold set_bound at 1. apply tr_upd_cell.
  rewrite set_cell_twice. rewrite cell_of_set_cell_same by exact Lv. cbn [c_wild c_lower c_upper c_cs].
  fold (cbd (cell_of s v) (O o [])). set (s2 := set_cell s v (cbd (cell_of s v) (O o []))).
  pose proof (GI_bindO pend s v o [] G Lv U (tg_O0 _ o Vo) (nocc_O0 s v o)) as G2. fold s2 in G2.
  assert (Sh2 : share s2 pend v).
  { apply share_bindO; auto; [apply G|apply G2]. }
  assert (F2 : FrB s s2).
  { split; [unfold s2; cbn; apply upd_length|]. intros x. unfold s2.
    destruct (cell_of_set_cell s v (cbd (cell_of s v) (O o [])) x) as [(E & -> & _)|E]; rewrite E.
    - split; [reflexivity|split; [intros t Ht; congruence|]]. intros t [= <-]. right. eauto.
    - repeat split; auto. }
  eapply tr_bind with (Q1 := fun _ s3 => s3 = s2).
  - assert (Bo : basic H o = true) by (unfold basic, arity; rewrite Vo; reflexivity). rewrite Bo.
    repeat match goal with |- tr (if ?c then _ else _) _ _ => destruct c end; try apply tr_fail. apply tr_ret. reflexivity.
  - intros _ s3 ->. intros u s' E. destruct (GI_cc pend f v s2 u s' G2 Sh2 E) as (G' & F').
    split; [exact G'|eapply FrB_trans; eauto].
Qed.

Lemma unify_OO_same f a b s u s' : basic H a = true ->
  unify H f true false false (O a []) (O b []) s = MOk u s' -> s' = s.
Proof.
  intros Ba. destruct f as [|f]; [rewrite unify_0; discriminate|].
  rewrite unify_S. unfold bindM, gets. rewrite !Lub.follow_O.
  destruct ((a =? Bottom) || (b =? Top)); [intros X; inversion X; reflexivity|]. rewrite Ba.
  cbn [andb negb]. destruct (negb (osub H false a b)); [discriminate|]. intros X; inversion X; reflexivity.
Qed.

Lemma unify_OO_same_r f a b s u s' : basic H a = true ->
  unify H f true false false (O b []) (O a []) s = MOk u s' -> s' = s.
Proof.
  intros Ba. destruct f as [|f]; [rewrite unify_0; discriminate|].
  rewrite unify_S. unfold bindM, gets. rewrite !Lub.follow_O.
  destruct ((b =? Bottom) || (a =? Top)); [intros X; inversion X; reflexivity|].
  destruct (basic H b).
  - cbn [andb negb]. destruct (negb (osub H false b a)); [discriminate|]. intros X; inversion X; reflexivity.
  - destruct (b =? a) eqn:Eb; [|discriminate]. apply Nat.eqb_eq in Eb. subst b.
    destruct (variance H a) eqn:Va; [intros X; inversion X; reflexivity|].
    unfold basic, arity in Ba. rewrite Va in Ba. discriminate.
Qed.

(* the part of above / below after the bounds have been set *)
Lemma tail_GS f pend v s (g : store -> option nat) :
  (GI nop s \/ exists s0, GI pend s /\ Qt s0 s /\ share s0 pend v) -> v < len s ->
  forall o, variance H o = [] ->
  tr (bind H f v (O o [])) s (fun _ s' => c_bound (cell_of s v) = None -> GI nop s' /\ FrB s s').
Proof.
  intros Dj Lv o Vo u s' E U. destruct Dj as [G|(s0 & G & Q & Sh)].
  - apply (GS_bindb f nop v o s G (share_nop s v) Lv U Vo u s' E).
  - apply (GS_bindb f pend v o s G (share_quiet pend s0 s v Q Sh) Lv U Vo u s' E).
Qed.


Definition cwf' (c : cell) : cell := mkCell false (c_bound c) (c_lower c) (c_upper c) (c_cs c).

Lemma share_bounds pend s v c' : GI pend s -> v < len s -> c_bound (cell_of s v) = None ->
  c_bound c' = None -> c_cs c' = cs s v -> share s pend v ->
  share (set_cell s v c') (por pend (refs s v)) v.
Proof.
  intros (J & I & Pi & Se & Sd) Lv U Eb Ecs Sh c Pc. set (s' := set_cell s v c').
  assert (Fs : forall r, follow s' r = follow s r).
  { intros r. apply follow_set_same. rewrite Eb, U. reflexivity. }
  assert (Cs : forall x, cs s' x = cs s x).
  { intros x. unfold s'. destruct (cell_of_set_cell s v c' x) as [(E & -> & _)|E]; rewrite E; auto. }
  change (constr_of s' c) with (constr_of s c). rewrite Cs.
  destruct Pc as [Pc|(Lc & E & D & Ef)].
  - destruct (Sh c Pc) as (A & B). split; [exact A|]. intros w. rewrite Fs, Cs. apply B.
  - split; [apply (Se c v Lc E D Ef)|]. intros w. rewrite Fs, Ef. intros [= <-]. apply Cs.
Qed.

Lemma bind_bound_fails f v t s u s' b : c_bound (cell_of s v) = Some b -> bind H f v t s = MOk u s' -> False.
Proof.
  intros Hb E. destruct f as [|f]; [rewrite bind_0 in E; discriminate|].
  rewrite Inv.bind_S in E. unfold bindM, gets in E. rewrite Hb in E. discriminate.
Qed.

(* the middle part of above / below: either a complete round ran, or nothing happened *)
Definition Mid (s1 s2 : store) : Prop := (GI nop s2 /\ FrB s1 s2) \/ s2 = s1.

Lemma mid_tail f pend v s s1 (body : M unit) (tl : cell -> M unit) :
  GI pend s1 -> Qt s s1 -> share s1 pend v -> v < len s1 ->
  (forall c, Sound.bok H c -> tl c = ret tt \/
     (c_bound c = None /\ exists o, variance H o = [] /\ tl c = bind H f v (O o []))) ->
  tr body s1 (fun _ s2 => Mid s1 s2) ->
  tr (body ;;; (c' <- gets (fun s => cell_of s v) ;; tl c')) s1 (fun _ s' => PostG pend s s').
Proof.
  intros G1 Q Sh1 Lv Htl Tb. eapply tr_bind; [exact Tb|]. cbv beta. intros _ s2 M2. apply tr_gets.
  assert (F01 : FrB s s1) by (apply Qt_FrB; exact Q).
  destruct M2 as [(G2 & F12)| ->].
  - assert (Lv2 : v < len s2) by (rewrite (proj1 F12); exact Lv).
    destruct (Htl _ (JE_b H s2 (proj1 G2) v)) as [->|(Hb & o & Vo & ->)].
    + apply tr_ret. split; [left; exact G2|eapply FrB_trans; eauto].
    + intros u s' E.
      destruct (GS_bindb f nop v o s2 G2 (share_nop s2 v) Lv2 Hb Vo u s' E) as (G' & F').
      split; [left; exact G'|]. eapply FrB_trans; [exact F01|eapply FrB_trans; eauto].
  - destruct (Htl _ (JE_b H s1 (proj1 G1) v)) as [->|(Hb & o & Vo & ->)].
    + apply tr_ret. split; [right; auto|exact F01].
    + intros u s' E.
      destruct (GS_bindb f pend v o s1 G1 Sh1 Lv Hb Vo u s' E) as (G' & F').
      split; [left; exact G'|]. eapply FrB_trans; eauto.
Qed.

Lemma set_bounds_round f pend v s1 c1 : GI pend s1 -> share s1 pend v -> v < len s1 ->
  c_bound (cell_of s1 v) = None -> c_bound c1 = None -> c_cs c1 = cs s1 v -> Sound.bok H c1 ->
  tr (check_constraints H f v) (set_cell s1 v c1) (fun _ s2 => Mid s1 s2).
Proof.
  intros G1 Sh1 Lv U Eb Ecs Bk u s2 E.
  pose proof (GI_bounds pend s1 v c1 G1 Lv U Eb Ecs Bk) as G2.
  pose proof (share_bounds pend s1 v c1 G1 Lv U Eb Ecs Sh1) as Sh2.
  destruct (GI_cc _ f v _ u s2 G2 Sh2 E) as (G' & F'). left. split; [exact G'|].
  eapply FrB_trans; [|exact F']. split; [cbn; apply upd_length|]. intros x.
  destruct (cell_of_set_cell s1 v c1 x) as [(Ex & -> & _)|Ex]; rewrite Ex.
  - split; [exact Ecs|split; [intros t Ht; congruence|intros t Ht; congruence]].
  - repeat split; auto.
Qed.

Theorem GS_above f pend v new s : GI pend s -> share s pend v -> v < len s -> base_or_unb s v ->
  variance H new = [] -> new <> Bottom ->
  tr (above H f v new) s (fun _ s' => PostG pend s s').
Proof.
  intros G Sh Lv Bu Vn NBn. destruct f as [|f]; [rewrite above_0; apply tr_fail|].
  rewrite Inv.above_S. destruct (new =? Top) eqn:ET.
  { apply Nat.eqb_eq in ET. subst new. destruct Bu as [U|(a & Hb)].
    - intros u s' E. destruct (GS_bindb f pend v Top s G Sh Lv U Vn u s' E) as (G' & F'). split; [left; exact G'|exact F'].
    - intros u s' E. destruct (bind_bound_fails f v _ s u s' _ Hb E). }
  apply Nat.eqb_neq in ET.
  assert (Bn : basic H new = true) by (unfold basic, arity; rewrite Vn; reflexivity).
  unfold set_wild at 1. apply tr_upd_cell. fold (cwf' (cell_of s v)).
  set (s1 := set_cell s v (cwf' (cell_of s v))).
  assert (Q : Qt s s1) by (apply Qt_wild; [exact Lv|repeat split]).
  destruct (JEinv_cell s v (cwf' (cell_of s v)) (proj1 G) (proj1 (proj2 G)) Lv eq_refl eq_refl (JE_b H s (proj1 G) v)) as (J1 & I1).
  fold s1 in J1, I1.
  pose proof (GI_quiet pend s s1 G Q J1 I1) as G1. pose proof (share_quiet pend s s1 v Q Sh) as Sh1.
  assert (Lv1 : v < len s1) by (rewrite (proj1 Q); exact Lv).
  assert (C1 : cell_of s1 v = cwf' (cell_of s v)) by (apply cell_of_set_cell_same; exact Lv).
  apply tr_gets. rewrite C1. cbn [cwf' c_bound c_lower c_upper].
  destruct Bu as [U|(a & Hb)].
  2:{ rewrite Hb. intros u s' E. apply (unify_OO_same f new a s1 u s' Bn) in E. subst s'.
      split; [right; auto|apply Qt_FrB; exact Q]. }
  rewrite U.
  assert (U1 : c_bound (cell_of s1 v) = None) by (rewrite C1; exact U).
  destruct (JE_b H s (proj1 G) v) as (B1 & B2 & B3).
  assert (SET : (forall u, c_upper (cell_of s v) = Some u -> Lub.ole H new u) ->
    tr (set_lower v (Some new) ;;; check_constraints H f v) s1 (fun _ s2 => Mid s1 s2)).
  { intros Hu. unfold set_lower. apply tr_upd_cell. rewrite C1. cbn [cwf' c_wild c_bound c_upper c_cs].
    apply (set_bounds_round f pend v s1 _ G1 Sh1 Lv1 U1); [exact U|rewrite C1; reflexivity|].
    split; [|split]; cbn.
    - intros l [= <-]. auto.
    - exact B2.
    - intros l u [= <-] Hu'. apply Hu. exact Hu'. }
  apply (mid_tail f pend v s s1 _ (fun c' => match c_bound c', c_lower c', c_upper c' with
            | None, Some l, Some u => if l =? u then bind H f v (O l []) else ret tt
            | _, _, _ => ret tt end) G1 Q Sh1 Lv1).
  - intros c (Bl & _). destruct (c_bound c); [left; reflexivity|].
    destruct (c_lower c) as [l|] eqn:Hl; [|left; reflexivity]. destruct (c_upper c); [|left; reflexivity].
    destruct (l =? n); [right|left; reflexivity]. split; [reflexivity|]. exists l. split; [apply (Bl l eq_refl)|reflexivity].
  - destruct (c_upper (cell_of s v)) as [u|] eqn:Hu.
    + destruct (osub H true u new); [apply tr_fail|].
      destruct (negb (osub H false new u)) eqn:En; [apply tr_fail|].
      assert (Le : forall u', Some u = Some u' -> Lub.ole H new u').
      { intros u' [= <-]. apply (osubF_ole H W). apply negb_false_iff in En. exact En. }
      destruct (c_lower (cell_of s v)) as [l|]; [|apply SET; exact Le].
      destruct (osub H true new l); [apply tr_ret; right; reflexivity|].
      destruct (osub H false l new); [apply SET; exact Le|apply tr_fail].
    + destruct (c_lower (cell_of s v)) as [l|]; [|apply SET; discriminate].
      destruct (osub H true new l); [apply tr_ret; right; reflexivity|].
      destruct (osub H false l new); [apply SET; discriminate|apply tr_fail].
Qed.


Theorem GS_below f pend v new s : GI pend s -> share s pend v -> v < len s -> base_or_unb s v ->
  variance H new = [] -> new <> Top ->
  tr (below H f v new) s (fun _ s' => PostG pend s s').
Proof.
  intros G Sh Lv Bu Vn NTn. destruct f as [|f]; [rewrite below_0; apply tr_fail|].
  rewrite Inv.below_S. destruct (new =? Bottom) eqn:EB.
  { apply Nat.eqb_eq in EB. subst new. destruct Bu as [U|(a & Hb)].
    - intros u s' E. destruct (GS_bindb f pend v Bottom s G Sh Lv U Vn u s' E) as (G' & F'). split; [left; exact G'|exact F'].
    - intros u s' E. destruct (bind_bound_fails f v _ s u s' _ Hb E). }
  apply Nat.eqb_neq in EB.
  assert (Bn : basic H new = true) by (unfold basic, arity; rewrite Vn; reflexivity).
  unfold set_wild at 1. apply tr_upd_cell. fold (cwf' (cell_of s v)).
  set (s1 := set_cell s v (cwf' (cell_of s v))).
  assert (Q : Qt s s1) by (apply Qt_wild; [exact Lv|repeat split]).
  destruct (JEinv_cell s v (cwf' (cell_of s v)) (proj1 G) (proj1 (proj2 G)) Lv eq_refl eq_refl (JE_b H s (proj1 G) v)) as (J1 & I1).
  fold s1 in J1, I1.
  pose proof (GI_quiet pend s s1 G Q J1 I1) as G1. pose proof (share_quiet pend s s1 v Q Sh) as Sh1.
  assert (Lv1 : v < len s1) by (rewrite (proj1 Q); exact Lv).
  assert (C1 : cell_of s1 v = cwf' (cell_of s v)) by (apply cell_of_set_cell_same; exact Lv).
  apply tr_gets. rewrite C1. cbn [cwf' c_bound c_lower c_upper].
  destruct Bu as [U|(a & Hb)].
  2:{ rewrite Hb. intros u s' E. apply (unify_OO_same_r f new a s1 u s' Bn) in E. subst s'.
      split; [right; auto|apply Qt_FrB; exact Q]. }
  rewrite U.
  assert (U1 : c_bound (cell_of s1 v) = None) by (rewrite C1; exact U).
  destruct (JE_b H s (proj1 G) v) as (B1 & B2 & B3).
  assert (SET : (forall l, c_lower (cell_of s v) = Some l -> Lub.ole H l new) ->
    tr (set_upper v (Some new) ;;; check_constraints H f v) s1 (fun _ s2 => Mid s1 s2)).
  { intros Hl. unfold set_upper. apply tr_upd_cell. rewrite C1. cbn [cwf' c_wild c_bound c_lower c_cs].
    apply (set_bounds_round f pend v s1 _ G1 Sh1 Lv1 U1); [exact U|rewrite C1; reflexivity|].
    split; [|split]; cbn.
    - exact B1.
    - intros u [= <-]. auto.
    - intros l u Hl' [= <-]. apply Hl. exact Hl'. }
  apply (mid_tail f pend v s s1 _ (fun c' => match c_bound c', c_upper c', c_lower c' with
            | None, Some u, Some l => if u =? l then bind H f v (O u []) else ret tt
            | _, _, _ => ret tt end) G1 Q Sh1 Lv1).
  - intros c (_ & Bu' & _). destruct (c_bound c); [left; reflexivity|].
    destruct (c_upper c) as [u|] eqn:Hu; [|left; reflexivity]. destruct (c_lower c); [|left; reflexivity].
    destruct (u =? n); [right|left; reflexivity]. split; [reflexivity|]. exists u. split; [apply (Bu' u eq_refl)|reflexivity].
  - destruct (c_lower (cell_of s v)) as [l|] eqn:Hl.
    + destruct (osub H true new l); [apply tr_fail|].
      destruct (negb (osub H false l new)) eqn:En; [apply tr_fail|].
      assert (Le : forall l', Some l = Some l' -> Lub.ole H l' new).
      { intros l' [= <-]. apply (osubF_ole H W). apply negb_false_iff in En. exact En. }
      destruct (c_upper (cell_of s v)) as [u|]; [|apply SET; exact Le].
      destruct (osub H true u new); [apply tr_ret; right; reflexivity|].
      destruct (osub H false new u); [apply SET; exact Le|apply tr_fail].
    + destruct (c_upper (cell_of s v)) as [u|]; [|apply SET; discriminate].
      destruct (osub H true u new); [apply tr_ret; right; reflexivity|].
      destruct (osub H false new u); [apply SET; discriminate|apply tr_fail].
Qed.


(* ================================================================== *)
(* binding a variable to a variable                                     *)
(* ================================================================== *)
Definition vv_store (s : store) (v w : nat) : store :=
  let c := cell_of s v in
  let iw := cs s w in
  let sB := set_cell s v (cbd c (V w)) in
  let sC := set_cset sB iw (union (cset_of s (cs s v)) (cset_of s iw)) in
  let sD := set_cell sC v (mkCell false (Some (V w)) (c_lower c) (c_upper c) iw) in
  set_cell sD w (cwf' (cell_of s w)).

Lemma follow_bound_step s v t e : core s -> c_bound (cell_of s v) = Some t -> follow s t = e -> nb s e ->
  follow s (V v) = e.
Proof.
  intros C Hb Ef N. apply follow_reach_nb; [exact C| |exact N].
  eapply reach_step; [exact Hb|]. rewrite <- Ef. apply reach_follow.
Qed.

Lemma vv_facts s v w : GI nop s -> v < len s -> w < len s -> v <> w ->
  c_bound (cell_of s v) = None -> c_bound (cell_of s w) = None ->
  let s4 := vv_store s v w in
  JE H s4 /\ inv s4 /\ len s4 = len s /\
  cell_of s4 v = mkCell false (Some (V w)) (c_lower (cell_of s v)) (c_upper (cell_of s v)) (cs s w) /\
  cell_of s4 w = cwf' (cell_of s w) /\
  (forall x, x <> v -> x <> w -> cell_of s4 x = cell_of s x) /\
  constrs s4 = constrs s /\
  cset_of s4 (cs s w) = union (cset_of s (cs s v)) (cset_of s (cs s w)) /\
  (forall j, j <> cs s w -> cset_of s4 j = cset_of s j).
Proof.
  intros (J & I & Pi & Se & Sd) Lv Lw Nvw Uv Uw. unfold vv_store.
  set (c := cell_of s v). set (iw := cs s w).
  set (sB := set_cell s v (cbd c (V w))).
  set (sC := set_cset sB iw (union (cset_of s (cs s v)) (cset_of s iw))).
  set (sD := set_cell sC v (mkCell false (Some (V w)) (c_lower c) (c_upper c) iw)).
  set (sE := set_cell sD w (cwf' (cell_of s w))). cbv zeta.
  assert (Liw : iw < length (csets s)) by (apply (sc_cs (proj2 I eq_refl)); exact Lw).
  assert (JB : JE H sB).
  { apply JE_set_cell; [exact J|apply (JE_b H s J v)|]. intros t [= <-]. constructor. exact Lw. }
  assert (IB : inv sB).
  { apply inv_set_cell; [exact I|apply (inv_lo I v)|apply (inv_up I v)| | |].
    - right. split; [exact Uv|]. exists (V w). cbn. repeat split; auto; [congruence|].
      intros _. apply nocc_unb; [congruence|exact Uw].
    - intros t [= <-] _. constructor. exact Lw.
    - intros _ _. apply (sc_cs (proj2 I eq_refl)). exact Lv. }
  assert (JC : JE H sC) by exact JB.
  assert (IC : inv sC).
  { apply inv_set_cset; [exact IB|]. change (length (constrs sB)) with (length (constrs s)).
    apply Forall_union; apply (@inv_cs_Forall true s); exact I. }
  assert (CDv : cell_of sC v = cbd c (V w)) by (apply cell_of_set_cell_same; exact Lv).
  assert (JD : JE H sD).
  { apply JE_set_cell; [exact JC|apply (JE_b H s J v)|]. intros t [= <-]. constructor. cbn. rewrite upd_length. exact Lw. }
  assert (ID : inv sD).
  { apply inv_set_cell; [exact IC|apply (inv_lo I v)|apply (inv_up I v)|left; rewrite CDv; reflexivity| |].
    - intros t [= <-] _. constructor. cbn. rewrite upd_length. exact Lw.
    - intros _ _. cbn. rewrite upd_length. exact Liw. }
  assert (CDw : cell_of sD w = cell_of s w).
  { unfold sD. rewrite cell_of_set_cell_other by congruence. change (cell_of sC w) with (cell_of sB w).
    unfold sB. apply cell_of_set_cell_other. congruence. }
  assert (LD : len sD = len s) by (cbn; rewrite !upd_length; reflexivity).
  destruct (JEinv_cell sD w (cwf' (cell_of s w)) JD ID ltac:(rewrite LD; exact Lw)) as (JE' & IE).
  { rewrite CDw. reflexivity. } { rewrite CDw. reflexivity. } { apply (JE_b H s J w). }
  fold sE in JE', IE.
  split; [exact JE'|split; [exact IE|split; [cbn; rewrite !upd_length; reflexivity|]]].
  split.
  { unfold sE. rewrite cell_of_set_cell_other by congruence. unfold sD. apply cell_of_set_cell_same.
    cbn. rewrite upd_length. exact Lv. }
  split.
  { unfold sE. apply cell_of_set_cell_same. cbn. rewrite !upd_length. exact Lw. }
  split.
  { intros x Nv Nw. unfold sE. rewrite cell_of_set_cell_other by exact Nw.
    unfold sD. rewrite cell_of_set_cell_other by exact Nv. change (cell_of sC x) with (cell_of sB x).
    unfold sB. apply cell_of_set_cell_other. exact Nv. }
  split; [reflexivity|split].
  - change (cset_of sE iw) with (cset_of sC iw). unfold sC, cset_of. cbn. apply nth_upd_same. exact Liw.
  - intros j Nj. change (cset_of sE j) with (cset_of sC j). unfold sC.
    destruct (cset_of_set_cset sB iw (union (cset_of s (cs s v)) (cset_of s iw)) j) as [(_ & X & _)|X]; [congruence|exact X].
Qed.


Lemma stlE_transfer2 s s' c : inv s -> constr_of s' c = constr_of s c ->
  (forall w, k_ref (constr_of s c) = V w ->
     c_bound (cell_of s' w) = c_bound (cell_of s w) /\ c_lower (cell_of s' w) = c_lower (cell_of s w) /\
     c_upper (cell_of s' w) = c_upper (cell_of s w)) -> stlE H s c -> stlE H s' c.
Proof.
  intros I Ek Ec (Dn & En & l & Ea & An & Le & Kp). unfold stlE. rewrite Ek.
  pose proof (@Inv.follow_unbound true s (k_ref (constr_of s c)) I) as N. rewrite En in N.
  destruct (k_ref (constr_of s c)) as [w|o xs] eqn:Er.
  - cbn [nb] in N. destruct (Ec w eq_refl) as (Eb & El & Eu).
    assert (U' : c_bound (cell_of s' w) = None) by (rewrite Eb; exact N).
    split; [exact Dn|split; [apply Lub.follow_V_unbound; exact U'|]].
    exists l. repeat split; auto. intros m Hm. rewrite <- (Kp m Hm). unfold kp.
    rewrite !Lub.follow_V_unbound by assumption. apply kpc_ext; assumption.
  - split; [exact Dn|split; [reflexivity|]]. exists l. repeat split; auto.
Qed.

Lemma vv_GI s v w : GI nop s -> v < len s -> w < len s -> v <> w ->
  c_bound (cell_of s v) = None -> c_bound (cell_of s w) = None ->
  let s4 := vv_store s v w in
  GI (refs s v) s4 /\ share s4 (refs s v) w /\ share s4 (refs s v) v.
Proof.
  intros G Lv Lw Nvw Uv Uw s4.
  destruct (vv_facts s v w G Lv Lw Nvw Uv Uw) as (J4 & I4 & L4 & Cv & Cw & Co & Ek & Ci & Cj). fold s4 in J4, I4, L4, Cv, Cw, Co, Ek, Ci, Cj.
  destruct G as (J & I & Pi & Se & Sd).
  assert (Ecn : forall c, constr_of s4 c = constr_of s c) by (intros c; apply constr_of_same; exact Ek).
  assert (Cs : forall x, x <> v -> cs s4 x = cs s x).
  { intros x Nx. destruct (Nat.eq_dec x w) as [->|Nw]; [rewrite Cw; reflexivity|rewrite (Co x Nx Nw); reflexivity]. }
  assert (Csv : cs s4 v = cs s w) by (rewrite Cv; reflexivity).
  assert (Ub : forall x, x <> v -> c_bound (cell_of s4 x) = c_bound (cell_of s x) /\
                 c_lower (cell_of s4 x) = c_lower (cell_of s x) /\ c_upper (cell_of s4 x) = c_upper (cell_of s x)).
  { intros x Nx. destruct (Nat.eq_dec x w) as [->|Nw]; [rewrite Cw; auto|rewrite (Co x Nx Nw); auto]. }
  assert (Bx : bext s s4).
  { intros x t Hx. assert (Nx : x <> v) by (intros ->; congruence). rewrite (proj1 (Ub x Nx)). exact Hx. }
  assert (Fw : follow s4 (V w) = V w) by (apply Lub.follow_V_unbound; rewrite (proj1 (Ub w ltac:(congruence))); exact Uw).
  assert (Fo : forall r, follow s4 r = match follow s r with V y => if y =? v then V w else V y | t => t end).
  { intros r. rewrite <- (follow_ext s s4 r I4 Bx).
    pose proof (@Inv.follow_unbound true s r I) as N.
    destruct (follow s r) as [y|o xs]; [|apply Lub.follow_O].
    destruct (y =? v) eqn:Ey.
    - apply Nat.eqb_eq in Ey. subst y. apply (follow_bound_step s4 v (V w) (V w) (proj1 I4)); [rewrite Cv; reflexivity|exact Fw|].
      change (c_bound (cell_of s4 w) = None). rewrite (proj1 (Ub w ltac:(congruence))). exact Uw.
    - apply Nat.eqb_neq in Ey. apply Lub.follow_V_unbound. rewrite (proj1 (Ub y Ey)). exact N. }
  assert (Inw : forall c, In c (cset_of s (cs s v)) \/ In c (cset_of s (cs s w)) -> In c (cset_of s4 (cs s w))).
  { intros c Hc. rewrite Ci. apply In_union. exact Hc. }
  assert (Sup : forall j c, In c (cset_of s j) -> In c (cset_of s4 j)).
  { intros j c Hc. destruct (Nat.eq_dec j (cs s w)) as [->|Nj]; [apply Inw; auto|rewrite (Cj j Nj); exact Hc]. }
  assert (Att : forall c, refs s v c -> In c (cset_of s4 (cs s w))).
  { intros c (Lc & E & D & Ef). apply Inw. left. apply (Se c v Lc E D Ef). }
  split; [|split].
  - split; [exact J4|split; [exact I4|split; [|split]]].
    + intros c l. rewrite Ek, Ecn. apply Pi.
    + intros c x. rewrite Ek, Ecn, Fo. intros Lc E D Ef.
      destruct (follow s (k_ref (constr_of s c))) as [y|o xs] eqn:Ef0; [|discriminate].
      destruct (y =? v) eqn:Ey.
      * apply Nat.eqb_eq in Ey. subst y. injection Ef as <-. rewrite (Cs w ltac:(congruence)).
        split; [apply Att; repeat split; auto|left; repeat split; auto].
      * apply Nat.eqb_neq in Ey. injection Ef as <-. destruct (Se c y Lc E D Ef0) as (At & Dj).
        rewrite (Cs y Ey). split; [apply Sup; exact At|].
        destruct Dj as [[]|[X|X]]; [right; left|right; right].
        -- apply (stlE_transfer2 s s4 c I (Ecn c)); [|exact X]. intros w' Ew.
           assert (w' = y) by (destruct X as (_ & En & _); congruence). subst w'. apply Ub. exact Ey.
        -- destruct X as (X1 & X2). split.
           ++ intros j Hj. rewrite (Cs y Ey). destruct (Nat.eq_dec j (cs s w)) as [->|Nj].
              ** rewrite Ci in Hj. apply In_union in Hj. destruct Hj as [Hj|Hj]; [|apply X1; exact Hj].
                 exfalso. apply Ey. symmetry. apply (X2 v Lv Uv). apply X1. exact Hj.
              ** rewrite (Cj j Nj) in Hj. apply X1. exact Hj.
           ++ intros x Lx Ux Ex. assert (Nx : x <> v) by (intros ->; rewrite Cv in Ux; discriminate).
              rewrite (Cs x Nx), (Cs y Ey) in Ex. apply (X2 x); [rewrite <- L4; exact Lx|rewrite <- (proj1 (Ub x Nx)); exact Ux|exact Ex].
    + intros c. rewrite Ek, Ecn. intros Lc E D.
      destruct (sub_shape s c J Lc E) as (a & Ea & Ba).
      apply (vd_done_ext s s4 _ a I I4 Bx Ea Ba). apply Sd; auto.
  - intros c Rc. rewrite (Cs w ltac:(congruence)). split; [apply Att; exact Rc|].
    intros x. rewrite Ecn, Fo. destruct Rc as (_ & _ & _ & ->). rewrite Nat.eqb_refl. intros [= <-]. apply Cs. congruence.
  - intros c Rc. rewrite Csv. split; [apply Att; exact Rc|].
    intros x. rewrite Ecn, Fo. destruct Rc as (_ & _ & _ & ->). rewrite Nat.eqb_refl. intros [= <-].
    apply Cs. congruence.
Qed.


Theorem GS_bindV f v w s : GI nop s -> v < len s -> w < len s ->
  c_bound (cell_of s v) = None -> c_bound (cell_of s w) = None ->
  tr (bind H f v (V w)) s (fun _ s' => GI nop s').
Proof.
  intros G Lv Lw Uv Uw. destruct f as [|f]; [rewrite bind_0; apply tr_fail|].
  rewrite Inv.bind_S. apply tr_gets. rewrite Uv.
  unfold set_wild at 1. apply tr_upd_cell. fold (cwf' (cell_of s v)).
  destruct (v =? w) eqn:Evw.
  { apply tr_ret. set (s1 := set_cell s v (cwf' (cell_of s v))).
    assert (Q : Qt s s1) by (apply Qt_wild; [exact Lv|repeat split]).
    destruct (JEinv_cell s v (cwf' (cell_of s v)) (proj1 G) (proj1 (proj2 G)) Lv eq_refl eq_refl (JE_b H s (proj1 G) v)) as (J1 & I1).
    apply (GI_quiet nop s s1 G Q J1 I1). }
  apply Nat.eqb_neq in Evw.
  unfold set_bound at 1. apply tr_upd_cell. apply tr_modify. apply tr_gets. unfold set_cs at 1. apply tr_upd_cell.
  unfold set_wild at 1. apply tr_upd_cell.
  match goal with |- tr _ ?st _ => assert (Es : st = vv_store s v w) end.
  { unfold vv_store, cell_of, cset_of, set_cell, set_cset, cbd, cwf'.
    cbn [vars csets constrs sched c_wild c_bound c_lower c_upper c_cs].
    assert (Nwv : w <> v) by congruence.
    repeat match goal with
           | |- context[nth v (upd v ?x (vars s)) dcell] => rewrite (nth_upd_same x dcell (vars s) Lv)
           | |- context[nth w (upd v ?x (vars s)) dcell] => rewrite (nth_upd_other x dcell (vars s) Nwv)
           | |- context[upd ?i ?y (upd ?i ?x ?l)] => rewrite si_upd_upd
           | _ => progress cbn [c_wild c_bound c_lower c_upper c_cs]
           end.
    reflexivity. }
  rewrite Es. clear Es.
  destruct (vv_GI s v w G Lv Lw Evw Uv Uw) as (G4 & Shw & Shv).
  destruct (vv_facts s v w G Lv Lw Evw Uv Uw) as (_ & _ & L4 & _ & Cw & _).
  set (s4 := vv_store s v w) in *.
  assert (Nx : forall p sA sB, PostG p sA sB -> share sA p w -> share sA p v ->
                exists p', GI p' sB /\ share sB p' w /\ share sB p' v).
  { intros p sA sB ([Gn|(Gp & Q)] & _) S1 S2.
    - exists nop. split; [exact Gn|split; apply share_nop].
    - exists p. split; [exact Gp|split; apply (share_quiet p sA sB _ Q); assumption]. }
  destruct (JE_b H s (proj1 G) v) as (B1 & B2 & _).
  eapply tr_bind with (Q1 := fun _ s5 => PostG (refs s v) s4 s5).
  { destruct (c_lower (cell_of s v)) as [l|] eqn:El.
    - destruct (B1 l eq_refl) as (Vl & NBl & _).
      apply (GS_above f (refs s v) w l s4 G4 Shw); [rewrite L4; exact Lw|left; rewrite Cw; exact Uw|exact Vl|exact NBl].
    - apply tr_ret. split; [right; split; [exact G4|apply Qt_refl]|apply FrB_refl]. }
  intros _ s5 P5. destruct (Nx _ _ _ P5 Shw Shv) as (p5 & G5 & Sw5 & Sv5). destruct P5 as (_ & F45).
  assert (L5 : len s5 = len s) by (rewrite (proj1 F45); exact L4).
  assert (Bw5 : base_or_unb s5 w).
  { unfold base_or_unb. destruct (c_bound (cell_of s5 w)) as [t|] eqn:Hb; [right|left; reflexivity].
    destruct (proj2 (proj2 (proj2 F45 w)) t Hb) as [X|(a & ->)]; [rewrite Cw in X; cbn in X; congruence|eauto]. }
  eapply tr_bind with (Q1 := fun _ s6 => PostG p5 s5 s6).
  { destruct (c_upper (cell_of s v)) as [u|] eqn:Eu.
    - destruct (B2 u eq_refl) as (Vu & NTu & _).
      apply (GS_below f p5 w u s5 G5 Sw5); [rewrite L5; exact Lw|exact Bw5|exact Vu|exact NTu].
    - apply tr_ret. split; [right; split; [exact G5|apply Qt_refl]|apply FrB_refl]. }
  intros _ s6 P6. destruct (Nx _ _ _ P6 Sw5 Sv5) as (p6 & G6 & _ & Sv6).
  intros u s7 E. apply (GI_cc p6 f v s6 u s7 G6 Sv6 E).
Qed.


(* ================================================================== *)
(* binding a variable to a compound type                                *)
(* ================================================================== *)
Definition ccs (c : cell) (j : nat) : cell := mkCell (c_wild c) (c_bound c) (c_lower c) (c_upper c) j.

Lemma forM_set_cs_spec iv : forall vs s u s', forM vs (fun x => set_cs x iv) s = MOk u s' ->
  len s' = len s /\ csets s' = csets s /\ constrs s' = constrs s /\
  forall x, cell_of s' x = if existsb (Nat.eqb x) vs && (x <? len s) then ccs (cell_of s x) iv else cell_of s x.
Proof.
  induction vs as [|y vs IH]; intros s u s' E; cbn [forM] in E.
  - inversion E; subst. repeat split; auto.
  - unfold bindM at 1, set_cs at 1, upd_cell, modify in E.
    set (s1 := set_cell s y (ccs (cell_of s y) iv)) in E. fold (ccs (cell_of s y) iv) in E.
    destruct (IH s1 u s' E) as (L & Cs & Ck & Cc).
    assert (L1 : len s1 = len s) by (unfold s1; cbn; apply upd_length).
    split; [congruence|split; [exact Cs|split; [exact Ck|]]].
    intros x. rewrite Cc, L1. cbn [existsb].
    destruct (cell_of_set_cell s y (ccs (cell_of s y) iv) x) as [(Ex & -> & Ly)|Ex]; fold s1 in Ex; rewrite Ex.
    + rewrite Nat.eqb_refl. cbn [orb]. apply Nat.ltb_lt in Ly. rewrite Ly. cbn [andb].
      destruct (existsb (Nat.eqb y) vs); reflexivity.
    + destruct (x =? y) eqn:Exy; cbn [orb]; [|reflexivity].
      apply Nat.eqb_eq in Exy. subst x. destruct (y <? len s) eqn:Ly; [|rewrite andb_false_r; reflexivity].
      apply Nat.ltb_lt in Ly. unfold s1 in Ex. rewrite cell_of_set_cell_same in Ex by exact Ly.
      rewrite <- Ex. destruct (existsb (Nat.eqb y) vs); reflexivity.
Qed.


Lemma follow_bound_same s s' r : (forall x, c_bound (cell_of s' x) = c_bound (cell_of s x)) ->
  len s' = len s -> follow s' r = follow s r.
Proof. intros B L. unfold follow. rewrite L. apply follow_f_bound_eq. exact B. Qed.

Lemma inv_ccs s s' : inv s -> len s' = len s -> csets s' = csets s -> constrs s' = constrs s ->
  (forall x, c_bound (cell_of s' x) = c_bound (cell_of s x) /\ c_lower (cell_of s' x) = c_lower (cell_of s x) /\
             c_upper (cell_of s' x) = c_upper (cell_of s x)) ->
  (forall x, x < len s' -> cs s' x < length (csets s')) -> inv s'.
Proof.
  intros (C & Ws) L Ec Ek B Cs. specialize (Ws eq_refl).
  assert (Bb : forall x, c_bound (cell_of s' x) = c_bound (cell_of s x)) by (intros x; apply B).
  split.
  - constructor.
    + intros v. eapply chain_bound_eq; [exact Bb|apply (core_chain C)].
    + intros v. rewrite (proj1 (proj2 (B v))). apply (core_lo C).
    + intros v. rewrite (proj2 (proj2 (B v))). apply (core_up C).
    + intros j c. rewrite (cset_of_same s s' j Ec), Ek. apply (core_cs C).
    + intros c. rewrite Ek, (constr_of_same s s' c Ek). apply (core_ar C).
  - intros _. constructor.
    + intros v t. rewrite Bb, L. apply (sc_bound Ws).
    + intros c. rewrite Ek, (constr_of_same s s' c Ek), L. apply (sc_constr Ws).
    + exact Cs.
    + intros v. eapply wft_bound_eq; [exact Bb|apply (sc_wf Ws)].
Qed.


Lemma In_existsb x vs : existsb (Nat.eqb x) vs = true <-> In x vs.
Proof.
  rewrite existsb_exists. split.
  - intros (y & Hy & E). apply Nat.eqb_eq in E. subst. exact Hy.
  - intros Hx. exists x. split; [exact Hx|apply Nat.eqb_refl].
Qed.

Lemma cm_GI s v o args vs s4 : GI nop s -> v < len s -> c_bound (cell_of s v) = None ->
  tg H (len s) (O o args) -> nocc s v (O o args) ->
  let s2 := set_cell s v (cbd (cell_of s v) (O o args)) in
  let iv := cs s v in
  let all := fold_right (fun w acc => union (cset_of s2 (cs s2 w)) acc) (cset_of s2 (cs s2 v)) vs in
  Forall (fun w => c_bound (cell_of s2 w) = None) vs -> Forall (fun w => w < len s) vs ->
  len s4 = len s -> csets s4 = csets (set_cset s2 (cs s2 v) all) -> constrs s4 = constrs s ->
  (forall x, cell_of s4 x = if existsb (Nat.eqb x) vs && (x <? len s2) then ccs (cell_of s2 x) (cs s2 v) else cell_of s2 x) ->
  let pend2 := fun c => exists x, In x vs /\ refs s2 x c in
  GI pend2 s4 /\ share s4 pend2 v.
Proof.
  intros G Lv Uv Tg No s2 iv all Fv Fr L4 Ec4 Ek4 Cc pend2.
  pose proof (GI_bindO nop s v o args G Lv Uv Tg No) as G2. fold s2 in G2.
  destruct G as (J & I & Pi & Se & Sd). destruct G2 as (J2 & I2 & _ & Se2 & _).
  assert (L2 : len s2 = len s) by (unfold s2; cbn; apply upd_length).
  assert (C2v : cell_of s2 v = cbd (cell_of s v) (O o args)) by (apply cell_of_set_cell_same; exact Lv).
  assert (C2o : forall x, x <> v -> cell_of s2 x = cell_of s x) by (intros x Nx; apply cell_of_set_cell_other; exact Nx).
  assert (Eiv : cs s2 v = iv) by (rewrite C2v; reflexivity).
  assert (Nvs : forall w, In w vs -> w <> v).
  { intros w Hw ->. rewrite Forall_forall in Fv. specialize (Fv v Hw). rewrite C2v in Fv. discriminate. }
  assert (Eall : all = fold_right (fun w acc => union (cset_of s (cs s w)) acc) (cset_of s iv) vs).
  { unfold all. rewrite Eiv. clear - Nvs C2o. induction vs as [|w vs IH]; [reflexivity|]. cbn [fold_right].
    rewrite IH by (intros x Hx; apply Nvs; right; exact Hx). rewrite (C2o w) by (apply Nvs; left; reflexivity). reflexivity. }
  assert (Liv : iv < length (csets s)) by (apply (sc_cs (proj2 I eq_refl)); exact Lv).
  assert (Civ : cset_of s4 iv = all).
  { unfold cset_of. rewrite Ec4, Eiv. cbn. apply nth_upd_same. exact Liv. }
  assert (Cj : forall j, j <> iv -> cset_of s4 j = cset_of s j).
  { intros j Nj. unfold cset_of. rewrite Ec4, Eiv. cbn. apply nth_upd_other. exact Nj. }
  assert (Inall : forall c, In c all <-> In c (cset_of s iv) \/ exists w, In w vs /\ In c (cset_of s (cs s w))).
  { intros c. rewrite Eall. apply In_fold_union. }
  (* the cells of s4 *)
  assert (C4v : cell_of s4 v = cbd (cell_of s v) (O o args)).
  { rewrite Cc. destruct (existsb (Nat.eqb v) vs) eqn:Ex; [apply In_existsb in Ex; destruct (Nvs v Ex eq_refl)|]. exact C2v. }
  assert (C4in : forall x, In x vs -> x < len s -> cell_of s4 x = ccs (cell_of s x) iv).
  { intros x Hx Lx. rewrite Cc, (proj2 (In_existsb x vs) Hx), L2, (proj2 (Nat.ltb_lt _ _) Lx). cbn [andb].
    rewrite Eiv, (C2o x (Nvs x Hx)). reflexivity. }
  assert (C4out : forall x, ~ In x vs -> x <> v -> cell_of s4 x = cell_of s x).
  { intros x Hx Nx. rewrite Cc. destruct (existsb (Nat.eqb x) vs) eqn:Ex; [apply In_existsb in Ex; contradiction|]. apply C2o. exact Nx. }
  assert (Bs : forall x, c_bound (cell_of s4 x) = c_bound (cell_of s2 x) /\ c_lower (cell_of s4 x) = c_lower (cell_of s2 x) /\
                         c_upper (cell_of s4 x) = c_upper (cell_of s2 x)).
  { intros x. rewrite Cc. destruct (existsb (Nat.eqb x) vs && (x <? len s2)); auto. }
  assert (Bso : forall x, x <> v -> c_bound (cell_of s4 x) = c_bound (cell_of s x) /\ c_lower (cell_of s4 x) = c_lower (cell_of s x) /\
                         c_upper (cell_of s4 x) = c_upper (cell_of s x)).
  { intros x Nx. rewrite <- (C2o x Nx). apply Bs. }
  assert (Cso : forall x, ~ In x vs -> cs s4 x = cs s x).
  { intros x Hx. destruct (Nat.eq_dec x v) as [->|Nx]; [rewrite C4v; reflexivity|rewrite (C4out x Hx Nx); reflexivity]. }
  assert (Csi : forall x, In x vs -> x < len s -> cs s4 x = iv) by (intros x Hx Lx; rewrite (C4in x Hx Lx); reflexivity).
  (* JE, inv *)
  set (s3 := set_cset s2 (cs s2 v) all).
  assert (J4 : JE H s4).
  { apply (JE_semeq H s2 s4); [split; [congruence|intros x; apply Bs]|exact Ek4|exact J2]. }
  assert (I3 : inv s3).
  { apply inv_set_cset; [exact I2|]. change (length (constrs s2)) with (length (constrs s)).
    apply Forall_fold_union; [apply (@inv_cs_Forall true s); exact I|intros w; apply (@inv_cs_Forall true s); exact I]. }
  assert (I4 : inv s4).
  { apply (inv_ccs s3 s4 I3); [cbn; rewrite upd_length; exact L4|exact Ec4|exact Ek4|intros x; apply Bs|].
    intros x Lx. rewrite Ec4. cbn. rewrite upd_length.
    destruct (in_dec Nat.eq_dec x vs) as [Hx|Hx]; [rewrite (Csi x Hx) by (rewrite <- L4; exact Lx); exact Liv|].
    rewrite (Cso x Hx). apply (sc_cs (proj2 I eq_refl)). rewrite <- L4. exact Lx. }
  (* follow *)
  assert (Fo4 : forall r, follow s4 r = follow s2 r).
  { intros r. apply follow_bound_same; [intros x; apply Bs|congruence]. }
  assert (Fo : forall r x, follow s4 r = V x -> follow s r = V x /\ x <> v).
  { intros r x Ef. rewrite Fo4 in Ef. unfold s2 in Ef. rewrite (follow_bindO s v o args r I I2 Lv Uv) in Ef.
    destruct (follow s r) as [y|o' xs]; [|discriminate]. destruct (y =? v) eqn:Ey; [discriminate|].
    injection Ef as <-. apply Nat.eqb_neq in Ey. auto. }
  assert (Ecn : forall c, constr_of s4 c = constr_of s c) by (intros c; apply constr_of_same; exact Ek4).
  assert (Bx : bext s s4).
  { intros x t Hx. assert (Nx : x <> v) by (intros ->; congruence). rewrite (proj1 (Bso x Nx)). exact Hx. }
  assert (Att : forall c x, c < length (constrs s) -> k_elim (constr_of s c) = true -> k_done (constr_of s c) = false ->
                 follow s (k_ref (constr_of s c)) = V x -> x <> v -> In c (cset_of s4 (cs s4 x))).
  { intros c x Lc E D Ef Nx. destruct (Se c x Lc E D Ef) as (At & _).
    destruct (ref_var_range s c x I Lc Ef) as (Lx & _).
    destruct (in_dec Nat.eq_dec x vs) as [Hx|Hx].
    - rewrite (Csi x Hx Lx), Civ. apply Inall. right. exists x. auto.
    - rewrite (Cso x Hx). destruct (Nat.eq_dec (cs s x) iv) as [Ei|Ni].
      + rewrite Ei, Civ. apply Inall. left. rewrite <- Ei. exact At.
      + rewrite (Cj _ Ni). exact At. }
  split.
  - split; [exact J4|split; [exact I4|split; [|split]]].
    + intros c l. rewrite Ek4, Ecn. apply Pi.
    + intros c x. rewrite Ek4, Ecn. intros Lc E D Ef. destruct (Fo _ x Ef) as (Ef0 & Nx).
      split; [apply (Att c x Lc E D Ef0 Nx)|].
      destruct (in_dec Nat.eq_dec x vs) as [Hx|Hx].
      { left. exists x. split; [exact Hx|]. split; [exact Lc|split; [exact E|split; [exact D|]]].
        change (follow s2 (k_ref (constr_of s c)) = V x). rewrite <- Fo4. exact Ef. }
      destruct (Se c x Lc E D Ef0) as (At & [[]|[X|X]]); [right; left|right; right].
      * apply (stlE_transfer2 s s4 c I (Ecn c)); [|exact X]. intros w' Ew.
        assert (w' = x) by (destruct X as (_ & En & _); congruence). subst w'. apply Bso. exact Nx.
      * destruct X as (X1 & X2).
        assert (Nxi : cs s x <> iv) by (intros Ei; apply Nx; symmetry; apply (X2 v Lv Uv); symmetry; exact Ei).
        split.
        -- intros j Hj. rewrite (Cso x Hx). destruct (Nat.eq_dec j iv) as [->|Nj]; [|rewrite (Cj j Nj) in Hj; apply X1; exact Hj].
           exfalso. rewrite Civ in Hj. apply Inall in Hj. destruct Hj as [Hj|(w & Hw & Hj)].
           ++ apply Nxi. symmetry. apply X1. exact Hj.
           ++ apply Hx. assert (w = x); [|subst; exact Hw].
              rewrite Forall_forall in Fv. pose proof (Fv w Hw) as Uw. rewrite (C2o w (Nvs w Hw)) in Uw.
              rewrite Forall_forall in Fr. apply (X2 w (Fr w Hw) Uw). apply X1. exact Hj.
        -- intros y Ly Uy Ey. rewrite (Cso x Hx) in Ey.
           destruct (in_dec Nat.eq_dec y vs) as [Hy|Hy].
           ++ exfalso. apply Nxi. rewrite <- Ey. apply (Csi y Hy). rewrite <- L4. exact Ly.
           ++ rewrite (Cso y Hy) in Ey. assert (Ny : y <> v) by (intros ->; rewrite C4v in Uy; discriminate).
              apply (X2 y); [rewrite <- L4; exact Ly|rewrite <- (proj1 (Bso y Ny)); exact Uy|exact Ey].
    + intros c. rewrite Ek4, Ecn. intros Lc E D.
      destruct (sub_shape s c J Lc E) as (a & Ea & Ba).
      apply (vd_done_ext s s4 _ a I I4 Bx Ea Ba). apply Sd; auto.
  - intros c (x & Hx & Lc & E & D & Ef). change (constr_of s2 c) with (constr_of s c) in *.
    change (length (constrs s2)) with (length (constrs s)) in Lc.
    assert (Ef4 : follow s4 (k_ref (constr_of s c)) = V x) by (rewrite Fo4; exact Ef).
    destruct (Fo _ x Ef4) as (Ef0 & Nx).
    destruct (ref_var_range s c x I Lc Ef0) as (Lx & _).
    assert (Nv : ~ In v vs) by (intros Hv; destruct (Nvs v Hv eq_refl)).
    rewrite (Cso v Nv). fold iv. split.
    + rewrite Civ. apply Inall. right. exists x. split; [exact Hx|]. apply (Se c x Lc E D Ef0).
    + intros y. rewrite Ecn. intros Ey. rewrite Ef4 in Ey. injection Ey as <-. apply (Csi x Hx Lx).
Qed.


Theorem GS_bindC f v o args s : GI nop s -> v < len s -> c_bound (cell_of s v) = None ->
  tg H (len s) (O o args) -> nocc s v (O o args) -> basic H o = false ->
  tr (bind H f v (O o args)) s (fun _ s' => GI nop s').
Proof.
  intros G Lv Uv Tg No Bo. destruct f as [|f]; [rewrite bind_0; apply tr_fail|].
  rewrite Inv.bind_S. apply tr_gets. rewrite Uv.
  unfold set_wild at 1. apply tr_upd_cell. unfold set_bound at 1. apply tr_upd_cell.
  rewrite set_cell_twice. rewrite cell_of_set_cell_same by exact Lv. cbn [c_wild c_lower c_upper c_cs].
  fold (cbd (cell_of s v) (O o args)). set (s2 := set_cell s v (cbd (cell_of s v) (O o args))).
  pose proof (GI_bindO nop s v o args G Lv Uv Tg No) as G2. fold s2 in G2.
  rewrite Bo.
  eapply tr_bind with (Q1 := fun _ s4 => exists p, GI p s4 /\ share s4 p v).
  - match goal with |- tr (if ?c then _ else _) _ _ => destruct c end; [apply tr_fail|].
    apply tr_lift. intros vs Evs. apply tr_modify. apply tr_gets.
    intros u s4 E.
    match type of E with forM _ _ ?st = _ => set (s3 := st) in E end.
    destruct (forM_set_cs_spec _ vs s3 u s4 E) as (L4 & Ec4 & Ek4 & Cc).
    assert (Fv : Forall (fun w => c_bound (cell_of s2 w) = None) vs).
    { eapply vars_f_unbound; [exact (proj1 (proj1 (proj2 G2)))|constructor|exact Evs]. }
    assert (Fr : Forall (fun w => w < len s) vs).
    { assert (L2 : len s2 = len s) by (unfold s2; cbn; apply upd_length). rewrite <- L2.
      eapply Frame.vars_f_scope; [exact (proj2 (proj1 (proj2 G2)) eq_refl)| |constructor|exact Evs].
      rewrite L2. apply tg_tsc with (H := H). exact Tg. }
    eexists. apply (cm_GI s v o args vs s4 G Lv Uv Tg No Fv Fr).
    + rewrite L4. unfold s3, s2. cbn. apply upd_length.
    + rewrite Ec4. reflexivity.
    + rewrite Ek4. reflexivity.
    + intros x. rewrite Cc. reflexivity.
  - intros _ s4 (p & G4 & Sh4). intros u s' E. apply (GI_cc p f v s4 u s' G4 Sh4 E).
Qed.


(* ================================================================== *)
(* unify, fix                                                           *)
(* ================================================================== *)
Definition GS_unify f := forall a b s, GI nop s -> tg H (len s) a -> tg H (len s) b ->
  tr (unify H f true false false a b) s (fun _ s' => GI nop s').

Lemma basic_var o : basic H o = true -> variance H o = [].
Proof. unfold basic, arity. intros E. apply Nat.eqb_eq in E. destruct (variance H o); [reflexivity|discriminate]. Qed.

Lemma unify_len f a b s u s' : inv s -> tg H (len s) a -> tg H (len s) b ->
  unify H f true false false a b s = MOk u s' -> len s <= len s'.
Proof.
  intros I Ta Tb E. pose proof (unify_ok H f true false false I (tg_sct H s a Ta) (tg_sct H s b Tb)) as K.
  unfold ok in K. rewrite E in K. apply (ext_vars (proj1 (proj2 K))).
Qed.

Lemma tg_follow' s t : GI nop s -> tg H (len s) t -> tg H (len s) (follow s t).
Proof. intros G. apply tg_follow. apply G. Qed.

Lemma PostG_nop s s' : PostG nop s s' -> GI nop s'.
Proof. intros ([G|(G & _)] & _); exact G. Qed.

Definition uargs (f : nat) : list bool -> list tyv -> list tyv -> M unit :=
  fix go (vs : list bool) (xs ys : list tyv) : M unit :=
    match vs, xs, ys with
    | v :: vs', x :: xs', y :: ys' =>
        (if v then unify H f true false false x y else unify H f true false false y x) ;;; go vs' xs' ys'
    | _, _, _ => ret tt
    end.

Lemma uargs_GS f : GS_unify f -> forall vs xs ys s u s', GI nop s ->
  Forall (tg H (len s)) xs -> Forall (tg H (len s)) ys -> uargs f vs xs ys s = MOk u s' -> GI nop s'.
Proof.
  intros IH. induction vs as [|b vs IHv]; intros xs ys s u s' G Fx Fy E.
  - cbn in E. inversion E; subst. exact G.
  - destruct xs as [|x xs]; [cbn in E; inversion E; subst; exact G|].
    destruct ys as [|y ys]; [cbn in E; inversion E; subst; exact G|].
    inversion Fx as [|? ? Tx Fxs]; inversion Fy as [|? ? Ty Fys]; subst. cbn [uargs] in E. unfold bindM in E.
    assert (K : forall p q, tg H (len s) p -> tg H (len s) q -> forall u1 s1,
              unify H f true false false p q s = MOk u1 s1 -> uargs f vs xs ys s1 = MOk u s' -> GI nop s').
    { intros p q Tp Tq u1 s1 E1 E2. pose proof (IH p q s G Tp Tq u1 s1 E1) as G1.
      pose proof (unify_len f p q s u1 s1 (proj1 (proj2 G)) Tp Tq E1) as Ln.
      apply (IHv xs ys s1 u s' G1); [| |exact E2]; eapply Forall_impl; try eassumption; intros t Ht; eapply tg_mono; eauto. }
    destruct b.
    + destruct (unify H f true false false x y s) as [u1 s1|e s1] eqn:E1; [|discriminate]. apply (K x y Tx Ty u1 s1 E1 E).
    + destruct (unify H f true false false y x s) as [u1 s1|e s1] eqn:E1; [|discriminate]. apply (K y x Ty Tx u1 s1 E1 E).
Qed.

Lemma unify_step f : GS_unify f -> GS_unify (S f).
Proof.
  intros IH a0 b0 s G Ta0 Tb0. rewrite unify_S. apply tr_gets. apply tr_gets.
  pose proof (tg_follow' s a0 G Ta0) as Ta. pose proof (tg_follow' s b0 G Tb0) as Tb.
  pose proof (@Inv.follow_unbound true s a0 (proj1 (proj2 G))) as Na.
  pose proof (@Inv.follow_unbound true s b0 (proj1 (proj2 G))) as Nb.
  destruct (follow s a0) as [va|oa xs] eqn:Ea; destruct (follow s b0) as [vb|ob ys] eqn:Eb.
  - apply tr_gets. apply tr_gets. cbn [negb orb].
    inversion Ta; inversion Tb; subst. apply GS_bindV; auto.
  - destruct (ob =? Top) eqn:ET; [apply tr_ret; exact G|].
    apply tr_lift. intros oc Eo. destruct oc; [apply tr_fail|].
    inversion Ta; subst.
    destruct (basic H ob) eqn:Bo.
    + apply tr_gets. cbn [orb andb]. eapply tr_conseq; [|intros u1 s1 P1; exact (PostG_nop s s1 P1)].
      apply (GS_below f nop va ob s G (share_nop s va)); auto; [left; exact Na|apply basic_var; exact Bo|].
      apply Nat.eqb_neq. exact ET.
    + cbn [orb]. apply GS_bindC; auto.
      eapply occurs_false_nocc; [exact (proj1 (proj1 (proj2 G)))|exact Na|exact Eo].
  - destruct (oa =? Bottom) eqn:EB; [apply tr_ret; exact G|].
    apply tr_lift. intros oc Eo. destruct oc; [apply tr_fail|].
    inversion Tb; subst.
    destruct (basic H oa) eqn:Bo.
    + apply tr_gets. cbn [orb andb]. eapply tr_conseq; [|intros u1 s1 P1; exact (PostG_nop s s1 P1)].
      apply (GS_above f nop vb oa s G (share_nop s vb)); auto; [left; exact Nb|apply basic_var; exact Bo|].
      apply Nat.eqb_neq. exact EB.
    + cbn [orb]. apply GS_bindC; auto.
      eapply occurs_false_nocc; [exact (proj1 (proj1 (proj2 G)))|exact Nb|exact Eo].
  - destruct ((oa =? Bottom) || (ob =? Top)); [apply tr_ret; exact G|].
    destruct (basic H oa).
    + cbn [andb negb]. destruct (negb (osub H false oa ob)); [apply tr_fail|apply tr_ret; exact G].
    + destruct (oa =? ob); [|apply tr_fail].
      inversion Ta as [|? ? _ Fx]; inversion Tb as [|? ? _ Fy]; subst.
      intros u s' E. apply (uargs_GS f IH (variance H oa) xs ys s u s' G Fx Fy E).
Qed.

Theorem GS_unify_all : forall f, GS_unify f.
Proof.
  induction f as [|f IH]; [|apply unify_step; exact IH].
  intros a b s _ _ _. rewrite unify_0. apply tr_fail.
Qed.


Definition GS_fix f := forall pl t s, GI nop s -> tg H (len s) t ->
  tr (fix_ty H f pl t) s (fun _ s' => GI nop s').

Definition fargs (f : nat) (pl : bool) : list bool -> list tyv -> M unit :=
  fix go (vs : list bool) (ps : list tyv) : M unit :=
    match vs, ps with
    | v :: vs', p :: ps' => fix_ty H f (if v then pl else negb pl) p ;;; go vs' ps'
    | _, _ => ret tt
    end.

Lemma fix_len f pl t s r s' : inv s -> tg H (len s) t -> fix_ty H f pl t s = MOk r s' -> len s <= len s'.
Proof.
  intros I Tt E. pose proof (fix_ok H f pl I (tg_sct H s t Tt)) as K.
  unfold ok in K. rewrite E in K. apply (ext_vars (proj1 (proj2 K))).
Qed.

Lemma fargs_GS f pl : GS_fix f -> forall vs ps s u s', GI nop s -> Forall (tg H (len s)) ps ->
  fargs f pl vs ps s = MOk u s' -> GI nop s'.
Proof.
  intros IH. induction vs as [|b vs IHv]; intros ps s u s' G Fp E.
  - cbn in E. inversion E; subst. exact G.
  - destruct ps as [|p ps]; [cbn in E; inversion E; subst; exact G|].
    inversion Fp as [|? ? Tp Fps]; subst. cbn [fargs] in E. unfold bindM in E.
    destruct (fix_ty H f (if b then pl else negb pl) p s) as [r1 s1|e s1] eqn:E1; [|discriminate].
    pose proof (IH _ p s G Tp r1 s1 E1) as G1.
    pose proof (fix_len f _ p s r1 s1 (proj1 (proj2 G)) Tp E1) as Ln.
    apply (IHv ps s1 u s' G1); [|exact E]. eapply Forall_impl; [|exact Fps]. intros t Ht. eapply tg_mono; eauto.
Qed.

Lemma fix_step f : GS_fix f -> GS_fix (S f).
Proof.
  intros IH pl t s G Tt. rewrite fix_ty_S. apply tr_gets.
  pose proof (tg_follow' s t G Tt) as Ta.
  pose proof (@Inv.follow_unbound true s t (proj1 (proj2 G))) as Na.
  eapply tr_bind with (Q1 := fun _ s1 => GI nop s1); [|intros _ s1 G1; apply tr_gets_end; exact G1].
  destruct (follow s t) as [v|o args] eqn:Ef.
  - apply tr_gets. inversion Ta; subst. destruct (JE_b H s (proj1 G) v) as (B1 & B2 & _).
    destruct pl.
    + destruct (c_lower (cell_of s v)) as [l|] eqn:El; [|apply tr_ret; exact G].
      eapply tr_conseq; [apply (GS_bindb f nop v l s G (share_nop s v)); auto; apply (B1 l eq_refl)|].
      intros u1 s1 (G1 & _). exact G1.
    + destruct (c_upper (cell_of s v)) as [u|] eqn:Eu; [|apply tr_ret; exact G].
      eapply tr_conseq; [apply (GS_bindb f nop v u s G (share_nop s v)); auto; apply (B2 u eq_refl)|].
      intros u1 s1 (G1 & _). exact G1.
  - inversion Ta as [|? ? _ Fa]; subst. intros u s' E. apply (fargs_GS f pl IH (variance H o) args s u s' G Fa E).
Qed.

Theorem GS_fix_all : forall f, GS_fix f.
Proof.
  induction f as [|f IH]; [|apply fix_step; exact IH].
  intros pl t s _ _. rewrite fix_ty_0. apply tr_fail.
Qed.


(* ================================================================== *)
(* fresh variables, apply                                               *)
(* ================================================================== *)
Lemma GI_alloc s w : GI nop s -> GI nop (snd (alloc_var s w)).
Proof.
  intros (J & I & Pi & Se & Sd). set (s' := snd (alloc_var s w)).
  assert (J' : JE H s') by (apply JE_alloc; exact J).
  assert (I' : inv s') by (apply inv_alloc_var; exact I).
  assert (Bx : bext s s') by (intros x t Hx; unfold s'; rewrite alloc_var_bound; exact Hx).
  assert (Fo : forall r x, follow s' r = V x -> follow s r = V x).
  { intros r x Ef. rewrite <- (follow_ext s s' r I' Bx) in Ef.
    pose proof (@Inv.follow_unbound true s r I) as N.
    destruct (follow s r) as [y|o xs]; [|rewrite Lub.follow_O in Ef; discriminate].
    rewrite Lub.follow_V_unbound in Ef by (unfold s'; rewrite alloc_var_bound; exact N). exact Ef. }
  split; [exact J'|split; [exact I'|split; [exact Pi|split]]].
  - intros c x Lc E D Ef. change (constr_of s' c) with (constr_of s c) in *.
    change (length (constrs s')) with (length (constrs s)) in Lc.
    pose proof (Fo _ x Ef) as Ef0. destruct (ref_var_range s c x I Lc Ef0) as (Lx & Ux).
    destruct (Se c x Lc E D Ef0) as (At & Dj).
    assert (Cx : cs s' x = cs s x) by (apply alloc_var_cs_old; exact Lx).
    rewrite Cx. unfold s'. rewrite alloc_var_cset. split; [exact At|].
    destruct Dj as [[]|[X|X]]; [right; left|right; right].
    + apply (stlE_transfer2 s s' c I eq_refl); [|exact X]. intros y _. unfold s'.
      rewrite alloc_var_bound, alloc_var_lower, alloc_var_upper. auto.
    + destruct X as (X1 & X2). split.
      * intros j Hj. fold s'. rewrite Cx. unfold s' in Hj. rewrite alloc_var_cset in Hj. apply X1. exact Hj.
      * intros y Ly Uy Ey. fold s' in Ey. rewrite Cx in Ey. unfold s' in Ly, Uy, Ey. rewrite alloc_var_length in Ly.
        rewrite alloc_var_bound in Uy.
        destruct (Nat.eq_dec y (len s)) as [->|Ny].
        -- exfalso. rewrite alloc_var_cs_new in Ey. pose proof (sc_cs (proj2 I eq_refl) Lx). lia.
        -- assert (Ly' : y < len s) by lia. rewrite (alloc_var_cs_old s w Ly') in Ey. apply (X2 y Ly' Uy Ey).
  - intros c Lc E D. change (constr_of s' c) with (constr_of s c) in *.
    destruct (sub_shape s c J Lc E) as (a & Ea & Ba).
    apply (vd_done_ext s s' _ a I I' Bx Ea Ba). apply Sd; auto.
Qed.

Lemma bindO_len fuel v o args s u s' : inv s -> v < len s -> c_bound (cell_of s v) = None ->
  tg H (len s) (O o args) -> nocc s v (O o args) -> bind H fuel v (O o args) s = MOk u s' -> len s <= len s'.
Proof.
  intros I Lv U Tg No E.
  pose proof (bind_ok H fuel I U (Logic.I : nb s (O o args)) (fun _ => Lv) (tg_sct H s _ Tg) (fun _ => or_intror No)) as K.
  unfold ok in K. rewrite E in K. apply (ext_vars (proj1 (proj2 K))).
Qed.

Theorem GS_apply fuel f0 x0 fixb s : GI nop s -> tg H (len s) f0 -> tg H (len s) x0 ->
  tr (apply H fuel f0 x0 fixb) s (fun _ s' => GI nop s').
Proof.
  intros G Tf Tx. unfold apply. apply tr_gets. apply tr_gets.
  pose proof (tg_follow' s f0 G Tf) as Tf'. pose proof (tg_follow' s x0 G Tx) as Tx'.
  pose proof (@Inv.follow_unbound true s f0 (proj1 (proj2 G))) as Nf.
  eapply tr_bind with (Q1 := fun f' s1 => GI nop s1 /\ len s <= len s1 /\ tg H (len s1) f').
  - destruct (follow s f0) as [vf|o args] eqn:Ef; [|apply tr_ret; auto].
    apply tr_fresh. apply tr_fresh.
    set (s1 := snd (alloc_var s false)). set (s2 := snd (alloc_var s1 false)).
    pose proof (GI_alloc s false G) as G1. fold s1 in G1. pose proof (GI_alloc s1 false G1) as G2. fold s2 in G2.
    assert (L1 : len s1 = S (len s)) by apply alloc_var_length.
    assert (L2 : len s2 = S (len s1)) by apply alloc_var_length.
    inversion Tf' as [? Lvf|]; subst. cbn [nb] in Nf.
    assert (U2 : forall x, c_bound (cell_of s2 x) = c_bound (cell_of s x)) by (intros x; unfold s2, s1; rewrite !alloc_var_bound; reflexivity).
    assert (Un : forall x, len s <= x -> c_bound (cell_of s x) = None) by (intros x Lx; rewrite (cell_of_oob s Lx); reflexivity).
    assert (Tg2 : tg H (len s2) (O Function [V (len s); V (len s1)])).
    { constructor; [rewrite (wf_fun H W); reflexivity|]. repeat constructor; lia. }
    assert (No2 : nocc s2 vf (O Function [V (len s); V (len s1)])).
    { apply nocc_op. intros x [<-|[<-|[]]]; apply nocc_unb; try lia; rewrite U2; apply Un; lia. }
    assert (Bf : basic H Function = false) by (unfold basic, arity; rewrite (wf_fun H W); reflexivity).
    assert (Uvf : c_bound (cell_of s2 vf) = None) by (rewrite U2; exact Nf).
    eapply tr_bind with (Q1 := fun _ s3 => GI nop s3 /\ len s2 <= len s3).
    + intros u s3 E. split.
      * apply (GS_bindC fuel vf Function _ s2 G2 ltac:(lia) Uvf Tg2 No2 Bf u s3 E).
      * apply (bindO_len fuel vf Function _ s2 u s3 (proj1 (proj2 G2)) ltac:(lia) Uvf Tg2 No2 E).
    + intros _ s3 (G3 & L3). apply tr_gets_end. split; [exact G3|split; [lia|]].
      apply tg_follow'; [exact G3|]. constructor. lia.
  - intros f' s1 (G1 & L1 & Tf1).
    assert (Tx1 : tg H (len s1) (follow s x0)) by (eapply tg_mono; eauto).
    destruct f' as [vf|o [|lft [|rgt [|z zs]]]]; try (apply tr_fail); try (destruct (o =? Top); [apply tr_ret; exact G1|apply tr_fail]).
    destruct (o =? Function); [|destruct (o =? Top); [apply tr_ret; exact G1|apply tr_fail]].
    inversion Tf1 as [|? ? _ Fa]; subst. inversion Fa as [|? ? Tl Fb]; subst. inversion Fb as [|? ? Tr _]; subst.
    intros r s' E. unfold bindM in E.
    destruct (unify H fuel true false false (follow s x0) lft s1) as [u2 s2|e s2] eqn:E2; [|discriminate].
    pose proof (GS_unify_all fuel _ _ s1 G1 Tx1 Tl u2 s2 E2) as G2.
    pose proof (unify_len fuel _ _ s1 u2 s2 (proj1 (proj2 G1)) Tx1 Tl E2) as L2.
    destruct (fixb && negb (is_fun rgt)); [|inversion E; subst; exact G2].
    apply (GS_fix_all fuel true rgt s2 G2 ltac:(eapply tg_mono; eauto) r s' E).
Qed.


(* the initial store *)
Lemma GI_empty sc : GI nop (empty_store sc).
Proof.
  split; [|split; [apply inv_empty|split; [|split]]].
  - split; [split|].
    + intros v t. unfold cell_of. cbn. destruct v; discriminate.
    + intros v. unfold cell_of. cbn. destruct v; repeat split; discriminate.
    + intros c Lc. cbn in Lc. lia.
  - intros c l Lc. cbn in Lc. lia.
  - intros c w Lc. cbn in Lc. lia.
  - intros c Lc. cbn in Lc. lia.
Qed.

End P.

(* ================================================================== *)
(* an executable comparison of two outcomes up to the raw reference of   *)
(* fulfilled elimination constraints                                    *)
(* ================================================================== *)
Fixpoint tyv_eqb (a b : tyv) : bool :=
  match a, b with
  | V x, V y => Nat.eqb x y
  | O o xs, O p ys =>
      Nat.eqb o p &&
      (fix go (l1 l2 : list tyv) : bool :=
         match l1, l2 with
         | [], [] => true
         | x :: r1, y :: r2 => tyv_eqb x y && go r1 r2
         | _, _ => false
         end) xs ys
  | _, _ => false
  end.

Definition constr_eqb (s1 s2 : store) (k1 k2 : constr) : bool :=
  Bool.eqb (k_elim k1) (k_elim k2) && Bool.eqb (k_strict k1) (k_strict k2) && Bool.eqb (k_done k1) (k_done k2) &&
  (length (k_alts k1) =? length (k_alts k2)) && forallb (fun p => tyv_eqb (fst p) (snd p)) (combine (k_alts k1) (k_alts k2)) &&
  tyv_eqb (follow s1 (k_ref k1)) (follow s2 (k_ref k2)) &&
  (tyv_eqb (k_ref k1) (k_ref k2) || (k_elim k1 && k_done k1)).

Definition cell_eqb (c1 c2 : cell) : bool :=
  Bool.eqb (c_wild c1) (c_wild c2) &&
  match c_bound c1, c_bound c2 with Some a, Some b => tyv_eqb a b | None, None => true | _, _ => false end &&
  match c_lower c1, c_lower c2 with Some a, Some b => a =? b | None, None => true | _, _ => false end &&
  match c_upper c1, c_upper c2 with Some a, Some b => a =? b | None, None => true | _, _ => false end &&
  (c_cs c1 =? c_cs c2).

Definition eqkb (s1 s2 : store) : bool :=
  (length (vars s1) =? length (vars s2)) && forallb (fun p => cell_eqb (fst p) (snd p)) (combine (vars s1) (vars s2)) &&
  (length (csets s1) =? length (csets s2)) &&
  forallb (fun p => (length (fst p) =? length (snd p)) && forallb (fun q => fst q =? snd q) (combine (fst p) (snd p)))
          (combine (csets s1) (csets s2)) &&
  (length (constrs s1) =? length (constrs s2)) &&
  forallb (fun p => constr_eqb s1 s2 (fst p) (snd p)) (combine (constrs s1) (constrs s2)).

(* both fail at the same command, or both succeed with the same values and eqk stores *)
Definition same_outcome (r1 r2 : option (err * nat) * list tyv * store) : bool :=
  match fst (fst r1), fst (fst r2) with
  | None, None =>
      (length (snd (fst r1)) =? length (snd (fst r2))) &&
      forallb (fun p => tyv_eqb (fst p) (snd p)) (combine (snd (fst r1)) (snd (fst r2))) && eqkb (snd r1) (snd r2)
  | Some (_, i1), Some (_, i2) => i1 =? i2
  | _, _ => false
  end.
