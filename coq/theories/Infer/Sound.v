(* C03 (core): soundness of the inference engine model w.r.t. the declarative
   subtype order [Sub], for the constraint-free fragment P (schemas with
   s_constrs = [], programs of CInst / CApply commands; unify runs in subtype
   mode without skip flags).

   Semantics.  A grounding [th : nat -> ty] SATISFIES a store s ([sat th s])
   when every [th v] is a well-formed type and
     - a bound variable denotes its binding:  th v = den th t,
     - an unbound variable with lower bound l denotes a base type b with
       l <= b in the operator order (upper bound u: b <= u).
   [den th t] replaces the variables of a term by their denotations; under
   [sat th s] it commutes with following bindings ([den_follow]), so it needs
   no store argument: the denotation of a term is the same in every store
   that th satisfies.

   Refinement.  Every successful engine operation s ~> s' only refines the
   store: [le s s'] = no variable is deallocated and [sat th s' -> sat th s];
   [fr s s'] = bound variables stay bound and keep their bounds, and a variable
   that carries a bound when it gets bound denotes a base type.
   Soundness of unify: every grounding satisfying the final store makes the
   left term a subtype of the right one; bind: th v = den th t; above/below:
   th v is a base type above/below the new bound; fix_ty: the result denotes
   what the argument denotes.  All by ONE induction on fuel ([specs_all]) under
   a forward invariant [J]: all constraint sets empty (fragment P), bindings
   well-scoped and arity-correct, bounds are proper base operators with
   lower <= upper.  No use of the store invariant of Infer/Inv.v is needed for
   soundness; acyclicity (Inv.v, [engine_inv]) is used for satisfiability.

   Results: [core_sound] (StepSem for EVERY satisfying grounding),
   [core_StepHolds] (the same as Witness.StepHolds for every list-grounding
   within the bounds), [sat_extend]/[core_satisfiable] (every assignment of the
   unbound variables within their bounds extends to a satisfying grounding),
   [core_bounded] (a variable with a bound is never bound to a compound type).

   Only successful runs are specified ([tr]): after an error the store may be
   inconsistent (e.g. bind sets the binding before it checks the bounds), and
   run_cmds stops at the first error. *)
From Coq Require Import List Arith Bool Lia.
Import ListNotations.
From TF Require Import Base.Hier Base.Ty Sub.SubSpec Infer.Store Infer.Engine Infer.Run
  Infer.Witness Infer.Check Infer.Inv.
From TF Require Infer.Lub.

Unset Implicit Arguments.

(* ------------------------------------------------------------------ *)
(* a partial-correctness triple: only successful runs matter           *)
(* ------------------------------------------------------------------ *)
Definition tr {A} (m : M A) (s : store) (Q : A -> store -> Prop) : Prop :=
  forall a s', m s = MOk a s' -> Q a s'.

Lemma tr_ret {A} (a : A) s (Q : A -> store -> Prop) : Q a s -> tr (ret a) s Q.
Proof. intros HQ a' s' E. inversion E; subst. exact HQ. Qed.

Lemma tr_fail {A} e s (Q : A -> store -> Prop) : tr (fail e) s Q.
Proof. intros a' s' E. discriminate. Qed.

Lemma tr_bind {A B} (m : M A) (k : A -> M B) s (Q1 : A -> store -> Prop) (Q : B -> store -> Prop) :
  tr m s Q1 -> (forall a s1, Q1 a s1 -> tr (k a) s1 Q) -> tr (bindM m k) s Q.
Proof.
  intros T1 K b s' E. unfold bindM in E. destruct (m s) as [a s1|e s1] eqn:Em; [|discriminate].
  eapply K; eauto.
Qed.

Lemma tr_gets {A B} (g : store -> A) (k : A -> M B) s (Q : B -> store -> Prop) :
  tr (k (g s)) s Q -> tr (bindM (gets g) k) s Q.
Proof. intros T b s' E. apply T. exact E. Qed.

Lemma tr_gets_end {A} (g : store -> A) s (Q : A -> store -> Prop) : Q (g s) s -> tr (gets g) s Q.
Proof. intros HQ a s' E. inversion E; subst. exact HQ. Qed.

Lemma tr_modify {B} (g : store -> store) (k : unit -> M B) s (Q : B -> store -> Prop) :
  tr (k tt) (g s) Q -> tr (bindM (modify g) k) s Q.
Proof. intros T b s' E. apply T. exact E. Qed.

Lemma tr_modify_end (g : store -> store) s (Q : unit -> store -> Prop) :
  Q tt (g s) -> tr (modify g) s Q.
Proof. intros HQ a s' E. inversion E; subst. exact HQ. Qed.

Lemma tr_upd_cell {B} v g (k : unit -> M B) s (Q : B -> store -> Prop) :
  tr (k tt) (set_cell s v (g (cell_of s v))) Q -> tr (bindM (upd_cell v g) k) s Q.
Proof. unfold upd_cell. intros T. apply (tr_modify (fun s => set_cell s v (g (cell_of s v))) k s Q T). Qed.

Lemma tr_upd_cell_end v g s (Q : unit -> store -> Prop) :
  Q tt (set_cell s v (g (cell_of s v))) -> tr (upd_cell v g) s Q.
Proof. unfold upd_cell. intros T. apply (tr_modify_end (fun s => set_cell s v (g (cell_of s v))) s Q T). Qed.

Lemma tr_lift {A B} (r : store -> res A) (k : A -> M B) s (Q : B -> store -> Prop) :
  (forall a, r s = Ok a -> tr (k a) s Q) -> tr (bindM (lift r) k) s Q.
Proof.
  intros K b s' E. unfold bindM, lift in E. destruct (r s) as [a|e] eqn:Er; [|discriminate].
  eapply K; eauto.
Qed.

Lemma tr_conseq {A} (m : M A) s (Q1 Q : A -> store -> Prop) :
  tr m s Q1 -> (forall a s1, Q1 a s1 -> Q a s1) -> tr m s Q.
Proof. intros T K a s' E. apply K. apply T. exact E. Qed.

Section Sound.
Variable H : hier.
Hypothesis W : wf_hier H.

Local Notation ole := (Lub.ole H).

(* ------------------------------------------------------------------ *)
(* semantics                                                            *)
(* ------------------------------------------------------------------ *)
Fixpoint den (th : nat -> ty) (t : tyv) : ty :=
  match t with
  | V v => th v
  | O o args => TOp o (map (den th) args)
  end.

(* d is a base type above l / below u in the operator order *)
Definition lbo (l : nat) (d : ty) : Prop := exists b, d = TOp b [] /\ ole l b.
Definition ubo (u : nat) (d : ty) : Prop := exists b, d = TOp b [] /\ ole b u.

Definition inb (c : cell) (d : ty) : Prop :=
  (forall l, c_lower c = Some l -> lbo l d) /\ (forall u, c_upper c = Some u -> ubo u d).

Definition sat (th : nat -> ty) (s : store) : Prop :=
  forall v, wf_ty H (th v) /\
    match c_bound (cell_of s v) with
    | Some t => th v = den th t
    | None => inb (cell_of s v) (th v)
    end.

(* refinement of stores *)
Definition le (s s' : store) : Prop :=
  length (vars s) <= length (vars s') /\ forall th, sat th s' -> sat th s.

Lemma le_refl s : le s s.
Proof. split; auto. Qed.

Lemma le_trans s1 s2 s3 : le s1 s2 -> le s2 s3 -> le s1 s3.
Proof. intros [L1 M1] [L2 M2]. split; [lia|auto]. Qed.

(* well-scoped, arity-correct terms *)
Inductive tg (n : nat) : tyv -> Prop :=
| tg_V v : v < n -> tg n (V v)
| tg_O o args : length args = length (variance H o) -> Forall (tg n) args -> tg n (O o args).

Lemma tg_mono n m : n <= m -> forall t, tg n t -> tg m t.
Proof.
  intros L. induction t as [v|o args IH] using tyv_ind'; intros Ht; inversion Ht; subst.
  - constructor. lia.
  - constructor; auto. rewrite Forall_forall in *. auto.
Qed.

Lemma tg_O0 n o : variance H o = [] -> tg n (O o []).
Proof. intros V0. constructor; [rewrite V0; reflexivity|constructor]. Qed.

Lemma wf_den th n t : (forall v, wf_ty H (th v)) -> tg n t -> wf_ty H (den th t).
Proof.
  intros Wt. induction t as [v|o args IH] using tyv_ind'; intros Ht; inversion Ht; subst; cbn [den].
  - apply Wt.
  - apply wf_ty_unfold. rewrite map_length. split; auto.
    rewrite Forall_forall in *. intros x Hx. apply in_map_iff in Hx.
    destruct Hx as (y & <- & Hy). auto.
Qed.

Lemma sat_wf th s : sat th s -> forall v, wf_ty H (th v).
Proof. intros S v. apply S. Qed.

Lemma den_follow_f th s : sat th s -> forall fuel t, den th (follow_f fuel s t) = den th t.
Proof.
  intros S. induction fuel as [|f IH]; intros [v|o args]; cbn [follow_f]; auto.
  - destruct (c_bound (cell_of s v)); reflexivity.
  - destruct (c_bound (cell_of s v)) as [t'|] eqn:Hv; auto.
    rewrite IH. cbn [den]. destruct (S v) as [_ Sv]. rewrite Hv in Sv. auto.
Qed.

Lemma den_follow th s t : sat th s -> den th (follow s t) = den th t.
Proof. intros S. apply den_follow_f. exact S. Qed.

(* ------------------------------------------------------------------ *)
(* the forward invariant of fragment P                                  *)
(* ------------------------------------------------------------------ *)
Definition bok (c : cell) : Prop :=
  (forall l, c_lower c = Some l -> variance H l = [] /\ l <> Bottom /\ l <> Top) /\
  (forall u, c_upper c = Some u -> variance H u = [] /\ u <> Top /\ u <> Bottom) /\
  (forall l u, c_lower c = Some l -> c_upper c = Some u -> ole l u).

Definition nocs (s : store) : Prop := forall i, cset_of s i = [].

Record J (s : store) : Prop := mkJ {
  J_cs : nocs s;
  J_sc : forall v t, c_bound (cell_of s v) = Some t -> tg (length (vars s)) t;
  J_b : forall v, bok (cell_of s v)
}.

Lemma tg_follow_f s : J s -> forall fuel t, tg (length (vars s)) t -> tg (length (vars s)) (follow_f fuel s t).
Proof.
  intros I. induction fuel as [|f IH]; intros [v|o args] Ht; cbn [follow_f]; auto.
  - destruct (c_bound (cell_of s v)); auto.
  - destruct (c_bound (cell_of s v)) as [t'|] eqn:Hv; auto. apply IH. eapply J_sc; eauto.
Qed.

Lemma tg_follow s t : J s -> tg (length (vars s)) t -> tg (length (vars s)) (follow s t).
Proof. intros I. apply tg_follow_f. exact I. Qed.

(* stores that agree on what [sat] and [J] read *)
Definition cell_sem (c c' : cell) : Prop :=
  c_bound c' = c_bound c /\ c_lower c' = c_lower c /\ c_upper c' = c_upper c.

Definition semeq (s s' : store) : Prop :=
  length (vars s') = length (vars s) /\ forall v, cell_sem (cell_of s v) (cell_of s' v).

Lemma semeq_refl s : semeq s s.
Proof. split; auto. intros v. repeat split. Qed.

Lemma semeq_trans s1 s2 s3 : semeq s1 s2 -> semeq s2 s3 -> semeq s1 s3.
Proof.
  intros [L1 C1] [L2 C2]. split; [congruence|]. intros v.
  destruct (C1 v) as (a & b & c), (C2 v) as (a' & b' & c'). repeat split; congruence.
Qed.

Lemma semeq_set_cell s v c' : cell_sem (cell_of s v) c' -> semeq s (set_cell s v c').
Proof.
  intros Cs. split; [cbn; apply upd_length|]. intros w.
  destruct (cell_of_set_cell s v c' w) as [(E & -> & L)|E]; rewrite E; auto. repeat split.
Qed.

Lemma semeq_set_cset s i l : semeq s (set_cset s i l).
Proof. split; auto. intros v. repeat split. Qed.

Lemma sat_semeq th s s' : semeq s s' -> sat th s' -> sat th s.
Proof.
  intros [L C] S v. destruct (S v) as [Wv Sv]. split; auto.
  destruct (C v) as (Eb & El & Eu). rewrite Eb in Sv.
  destruct (c_bound (cell_of s v)); auto.
  unfold inb in *. rewrite El, Eu in Sv. exact Sv.
Qed.

Lemma sat_semeq' th s s' : semeq s s' -> sat th s -> sat th s'.
Proof.
  intros [L C] S v. destruct (S v) as [Wv Sv]. split; auto.
  destruct (C v) as (Eb & El & Eu). rewrite Eb.
  destruct (c_bound (cell_of s v)); auto.
  unfold inb in *. rewrite El, Eu. exact Sv.
Qed.

Lemma le_semeq s s' : semeq s s' -> le s s'.
Proof. intros E. split; [destruct E as [L _]; lia|]. intros th. apply sat_semeq. exact E. Qed.

Lemma J_semeq s s' : semeq s s' -> nocs s' -> J s -> J s'.
Proof.
  intros [L C] N I. constructor; auto.
  - intros v t Hv. destruct (C v) as (Eb & _). rewrite Eb in Hv. rewrite L. eapply J_sc; eauto.
  - intros v. destruct (C v) as (_ & El & Eu). pose proof (J_b s I v) as B.
    unfold bok in *. rewrite El, Eu. exact B.
Qed.

Lemma nocs_set_cell s v c : nocs s -> nocs (set_cell s v c).
Proof. intros N i. apply N. Qed.

Lemma nocs_set_cset s i : nocs s -> nocs (set_cset s i []).
Proof.
  intros N j. destruct (cset_of_set_cset s i [] j) as [(E & _)|E]; rewrite E; auto.
Qed.

(* frame: bound variables stay bound and keep their bounds; a variable that
   carries a bound when it gets bound denotes a base type (this is what makes
   "a bounded variable is never resolved to a compound type" true) *)
Definition hasb (c : cell) : Prop := c_lower c <> None \/ c_upper c <> None.
Definition isbase (d : ty) : Prop := exists b, d = TOp b [].

Record fr (s s' : store) : Prop := mkFr {
  fr_keep : forall x, c_bound (cell_of s x) <> None -> c_bound (cell_of s' x) <> None;
  fr_frame : forall x, c_bound (cell_of s x) <> None ->
    c_lower (cell_of s' x) = c_lower (cell_of s x) /\ c_upper (cell_of s' x) = c_upper (cell_of s x);
  fr_new : forall x, c_bound (cell_of s x) = None -> c_bound (cell_of s' x) <> None ->
    hasb (cell_of s' x) -> forall th, sat th s' -> isbase (th x)
}.

Lemma inb_hasb_base c d : inb c d -> hasb c -> isbase d.
Proof.
  intros [Il Iu] [Hl|Hu].
  - destruct (c_lower c) as [l|]; [|congruence]. destruct (Il l eq_refl) as (b & -> & _). exists b. reflexivity.
  - destruct (c_upper c) as [u|]; [|congruence]. destruct (Iu u eq_refl) as (b & -> & _). exists b. reflexivity.
Qed.

Lemma fr_refl s : fr s s.
Proof. constructor; auto. intros x Hx Hx'. congruence. Qed.

Lemma fr_trans s1 s2 s3 : fr s1 s2 -> fr s2 s3 -> (forall th, sat th s3 -> sat th s2) -> fr s1 s3.
Proof.
  intros [K1 F1 N1] [K2 F2 N2] M. constructor.
  - auto.
  - intros x Hx. destruct (F1 x Hx) as [A B]. destruct (F2 x (K1 x Hx)) as [A' B']. split; congruence.
  - intros x Hx Hx3 Hb th S3.
    destruct (c_bound (cell_of s2 x)) as [t|] eqn:Hx2.
    + apply (N1 x Hx); [congruence| |auto].
      destruct (F2 x) as [A B]; [congruence|]. unfold hasb in *. rewrite <- A, <- B. exact Hb.
    + apply (N2 x Hx2 Hx3 Hb th S3).
Qed.

Lemma fr_semeq s s' : semeq s s' -> fr s s'.
Proof.
  intros [L C]. constructor.
  - intros x. destruct (C x) as (Eb & _). rewrite Eb. auto.
  - intros x _. destruct (C x) as (_ & El & Eu). auto.
  - intros x Hx. destruct (C x) as (Eb & _). rewrite Eb. congruence.
Qed.

(* setting a field of an unbound variable that stays unbound *)
Lemma fr_set_cell_unb s v c' : c_bound (cell_of s v) = None -> c_bound c' = None -> fr s (set_cell s v c').
Proof.
  intros Hv Hc. constructor.
  - intros x Hx. destruct (cell_of_set_cell s v c' x) as [(E & -> & L)|E]; [congruence|rewrite E; auto].
  - intros x Hx. destruct (cell_of_set_cell s v c' x) as [(E & -> & L)|E]; [congruence|rewrite E; auto].
  - intros x Hx Hx'. destruct (cell_of_set_cell s v c' x) as [(E & -> & L)|E]; rewrite E in Hx'; congruence.
Qed.

(* the whole of a bind: v gets bound (store s2), bookkeeping (s5), then the
   rest of the operation (s'), which as a whole refines s *)
Lemma fr_bind s s2 s5 s' v t : c_bound (cell_of s v) = None ->
  (forall x, x <> v -> cell_sem (cell_of s x) (cell_of s2 x)) ->
  c_bound (cell_of s2 v) = Some t ->
  c_lower (cell_of s2 v) = c_lower (cell_of s v) -> c_upper (cell_of s2 v) = c_upper (cell_of s v) ->
  semeq s2 s5 -> fr s5 s' -> (forall th, sat th s' -> sat th s) -> fr s s'.
Proof.
  intros Hv Hx Hb Hl Hu [_ C25] [K F N] M.
  assert (Cx : forall x, x <> v -> cell_sem (cell_of s x) (cell_of s5 x)).
  { intros x Ne. destruct (Hx x Ne) as (a & b & c). destruct (C25 x) as (a' & b' & c').
    repeat split; congruence. }
  assert (Bv : c_bound (cell_of s5 v) <> None).
  { destruct (C25 v) as (a & _). rewrite a, Hb. discriminate. }
  constructor.
  - intros x Hx0. assert (Ne : x <> v) by (intros ->; congruence).
    apply K. destruct (Cx x Ne) as (a & _). congruence.
  - intros x Hx0. assert (Ne : x <> v) by (intros ->; congruence).
    destruct (Cx x Ne) as (a & b & c). destruct (F x) as [A B]; [congruence|]. split; congruence.
  - intros x Hx0 Hx' Hbx th S'. destruct (Nat.eq_dec x v) as [->|Ne].
    + destruct (F v Bv) as [A B]. destruct (C25 v) as (_ & b & c).
      assert (Hbv : hasb (cell_of s v)).
      { unfold hasb in *. rewrite <- Hl, <- Hu, <- b, <- c, <- A, <- B. exact Hbx. }
      destruct (M th S' v) as [_ Sv]. rewrite Hv in Sv. eapply inb_hasb_base; eauto.
    + destruct (Cx x Ne) as (a & _). apply (N x); auto. congruence.
Qed.

(* the standard postcondition: the final store satisfies J, refines the
   initial one, and every grounding satisfying it has property R *)
Definition good (s : store) (R : (nat -> ty) -> Prop) (s' : store) : Prop :=
  J s' /\ le s s' /\ fr s s' /\ forall th, sat th s' -> R th.

Lemma good_refl s (R : (nat -> ty) -> Prop) : J s -> (forall th, sat th s -> R th) -> good s R s.
Proof. intros I HR. split; [auto|split; [apply le_refl|split; [apply fr_refl|auto]]]. Qed.

Lemma good_trans s s1 s2 (R1 R2 R : (nat -> ty) -> Prop) :
  good s R1 s1 -> good s1 R2 s2 ->
  (forall th, sat th s2 -> sat th s1 -> sat th s -> R1 th -> R2 th -> R th) -> good s R s2.
Proof.
  intros (I1 & L1 & F1 & H1) (I2 & L2 & F2 & H2) K.
  split; [auto|split; [eapply le_trans; eauto|split; [eapply fr_trans; eauto; apply L2|]]].
  intros th S2. pose proof (proj2 L2 th S2) as S1. pose proof (proj2 L1 th S1) as S0.
  apply K; auto.
Qed.

Lemma good_semeq s s' (R : (nat -> ty) -> Prop) :
  J s -> semeq s s' -> nocs s' -> (forall th, sat th s -> R th) -> good s R s'.
Proof.
  intros I E N HR. split; [eapply J_semeq; eauto|split; [apply le_semeq; auto|split; [apply fr_semeq; auto|]]].
  intros th S. apply HR. eapply sat_semeq; eauto.
Qed.

(* ------------------------------------------------------------------ *)
(* the operator order                                                   *)
(* ------------------------------------------------------------------ *)
Lemma osubF_true a b : osub H false a b = true -> ole a b.
Proof. apply Lub.osubF_iff. exact W. Qed.

Lemma osubF_neg a b : negb (osub H false a b) = false -> ole a b.
Proof. intros E. apply osubF_true. destruct (osub H false a b); [reflexivity|discriminate]. Qed.

Lemma ole_refl a : ole a a.
Proof. apply Lub.ole_refl. Qed.

Lemma ole_trans a b c : ole a b -> ole b c -> ole a c.
Proof. apply Lub.ole_trans. exact W. Qed.

Lemma ole_top a : ole a Top.
Proof. right; left; reflexivity. Qed.

Lemma ole_bot a : ole Bottom a.
Proof. left; reflexivity. Qed.

(* "not strictly below" plus comparability gives "above" *)
Lemma osubT_false_cmp o l : osub H true o l = false -> (ole l o \/ ole o l) -> ole l o.
Proof.
  intros E [C|C]; auto.
  destruct (Nat.eq_dec o l) as [->|N]; [apply ole_refl|].
  exfalso. assert (T : osub H true o l = true); [|congruence].
  apply Lub.osubT_iff; auto. destruct C as [->|[->|A]]; auto.
Qed.

Lemma osubT_true_ole a b : osub H true a b = true -> ole a b.
Proof.
  intros E. apply Lub.osubT_iff in E; auto. destruct E as [->|[->|[A _]]].
  - apply ole_bot.
  - apply ole_top.
  - right; right; exact A.
Qed.

Lemma wf_base b : wf_ty H (TOp b []) -> variance H b = [].
Proof.
  intros Wb. apply wf_ty_unfold in Wb. destruct Wb as [L _].
  destruct (variance H b); [reflexivity|discriminate].
Qed.

Lemma ole_Sub a b : variance H a = [] -> ole a b -> Sub H (TOp a []) (TOp b []).
Proof.
  intros Va [->|[->|A]]; [apply SubBot|apply SubTop|apply SubBase; auto].
Qed.

Lemma Sub_lbo new d : variance H new = [] -> new <> Bottom -> Sub H (TOp new []) d -> lbo new d.
Proof.
  intros Vn NB S. inversion S as [t|t|a b Va A|o xs ys Vo AR]; subst.
  - congruence.
  - exists Top. split; [reflexivity|apply ole_top].
  - exists b. split; [reflexivity|right; right; exact A].
  - congruence.
Qed.

Lemma Sub_ubo new d : variance H new = [] -> new <> Top -> Sub H d (TOp new []) -> ubo new d.
Proof.
  intros Vn NT S. inversion S as [t|t|a b Va A|o xs ys Vo AR]; subst.
  - exists Bottom. split; [reflexivity|apply ole_bot].
  - congruence.
  - exists a. split; [reflexivity|right; right; exact A].
  - congruence.
Qed.

Lemma lbo_trans l new d : ole l new -> lbo new d -> lbo l d.
Proof. intros L (b & -> & Lb). exists b. split; [reflexivity|eapply ole_trans; eauto]. Qed.

Lemma ubo_trans u new d : ole new u -> ubo new d -> ubo u d.
Proof. intros L (b & -> & Lb). exists b. split; [reflexivity|eapply ole_trans; eauto]. Qed.

Lemma basic_var o : basic H o = true -> variance H o = [].
Proof. apply Lub.basic_iff. Qed.

Lemma var_basic o : variance H o = [] -> basic H o = true.
Proof. apply Lub.basic_iff. Qed.

(* ------------------------------------------------------------------ *)
(* store updates                                                        *)
(* ------------------------------------------------------------------ *)
Lemma J_set_cell s v c' : J s -> bok c' ->
  (forall t, c_bound c' = Some t -> tg (length (vars s)) t) -> J (set_cell s v c').
Proof.
  intros I B Ht. constructor.
  - apply nocs_set_cell. apply I.
  - intros w t. cbn [vars set_cell]. rewrite upd_length.
    destruct (cell_of_set_cell s v c' w) as [(E & -> & L)|E]; rewrite E; auto. apply (J_sc s I).
  - intros w. destruct (cell_of_set_cell s v c' w) as [(E & -> & L)|E]; rewrite E; auto. apply (J_b s I).
Qed.

Lemma sat_set_cell_back th s v c' : sat th (set_cell s v c') ->
  match c_bound (cell_of s v) with
  | Some t => th v = den th t
  | None => inb (cell_of s v) (th v)
  end -> sat th s.
Proof.
  intros S Hv w. destruct (S w) as [Ww Sw]. split; auto.
  destruct (cell_of_set_cell s v c' w) as [(E & -> & L)|E]; [exact Hv|].
  rewrite E in Sw. exact Sw.
Qed.

Lemma sat_at_set_cell th s v c' : v < length (vars s) -> sat th (set_cell s v c') ->
  match c_bound c' with Some t => th v = den th t | None => inb c' (th v) end.
Proof.
  intros L S. destruct (S v) as [_ Sv]. rewrite cell_of_set_cell_same in Sv by exact L. exact Sv.
Qed.

Lemma nocs_csets s s' : csets s' = csets s -> nocs s -> nocs s'.
Proof. intros E N i. unfold cset_of. rewrite E. apply N. Qed.

Lemma union_nil_l b : union [] b = b.
Proof. reflexivity. Qed.

Lemma fold_union_nocs s iv vs : nocs s ->
  fold_right (fun w acc => union (cset_of s (c_cs (cell_of s w))) acc) (cset_of s iv) vs = [].
Proof.
  intros N. induction vs as [|w vs IH]; cbn [fold_right]; [apply N|].
  rewrite IH, N. reflexivity.
Qed.

(* under nocs, check_constraints does nothing *)
Lemma tr_cc f v s : nocs s -> tr (check_constraints H f v) s (fun _ s' => s' = s).
Proof.
  intros N. destruct f as [|f]; [apply tr_fail|].
  rewrite check_constraints_S. apply tr_gets. rewrite N. cbn [length Nat.leb].
  intros a s' E. cbv [bindM ret forM] in E. inversion E; subst. reflexivity.
Qed.

Lemma forM_set_cs iv : forall vs s,
  tr (forM vs (fun w => set_cs w iv)) s (fun _ s' => semeq s s' /\ csets s' = csets s).
Proof.
  induction vs as [|w vs IH]; intros s; cbn [forM].
  - apply tr_ret. split; [apply semeq_refl|reflexivity].
  - unfold set_cs at 1. apply tr_upd_cell.
    eapply tr_conseq; [apply IH|]. cbv beta. intros _ s1 [E C]. split.
    + eapply semeq_trans; [|exact E]. apply semeq_set_cell. repeat split.
    + rewrite C. reflexivity.
Qed.

Lemma good_weaken s s' (R1 R : (nat -> ty) -> Prop) :
  good s R1 s' -> (forall th, sat th s' -> R1 th -> R th) -> good s R s'.
Proof. intros (I & L & F & HR) K. split; [auto|split; [auto|split; [auto|]]]. intros th S. apply K; auto. Qed.

(* ------------------------------------------------------------------ *)
(* specifications (fragment P: subtype mode, no skip flags)            *)
(* ------------------------------------------------------------------ *)
Local Notation len s := (length (vars s)).

Definition spec_unify f := forall a b s, J s -> tg (len s) a -> tg (len s) b ->
  tr (unify H f true false false a b) s
     (fun _ s' => good s (fun th => Sub H (den th a) (den th b)) s').

(* a base type bound to a bounded variable must be comparable with the bounds
   (the code only rejects "strictly on the wrong side") *)
Definition cmpb (c : cell) (o : nat) : Prop :=
  (forall l, c_lower c = Some l -> ole l o \/ ole o l) /\
  (forall u, c_upper c = Some u -> ole u o \/ ole o u).

Definition spec_bind f := forall v t s, J s -> v < len s -> tg (len s) t ->
  (forall o args, t = O o args -> basic H o = true -> cmpb (cell_of s v) o) ->
  tr (bind H f v t) s (fun _ s' => good s (fun th => th v = den th t) s').

Definition spec_above f := forall v new s, J s -> v < len s -> variance H new = [] -> new <> Bottom ->
  tr (above H f v new) s (fun _ s' => good s (fun th => lbo new (th v)) s').

Definition spec_below f := forall v new s, J s -> v < len s -> variance H new = [] -> new <> Top ->
  tr (below H f v new) s (fun _ s' => good s (fun th => ubo new (th v)) s').

Definition spec_fix f := forall pl t s, J s -> tg (len s) t ->
  tr (fix_ty H f pl t) s
     (fun r s' => tg (len s') r /\ good s (fun th => den th r = den th t) s').

Definition specs f := spec_unify f /\ spec_bind f /\ spec_above f /\ spec_below f /\ spec_fix f.

Lemma specs_0 : specs 0.
Proof.
  unfold specs, spec_unify, spec_bind, spec_above, spec_below, spec_fix.
  repeat apply conj; intros; intros ? ? E; inversion E.
Qed.

(* ---- bind ---- *)
Lemma bind_step f : spec_above f -> spec_below f -> spec_bind (S f).
Proof.
  intros Ab Be v t s I Lv Tt Cmp. rewrite bind_S. apply tr_gets.
  destruct (c_bound (cell_of s v)) eqn:Hb; [apply tr_fail|].
  unfold set_wild at 1. apply tr_upd_cell. rewrite Hb.
  set (c := cell_of s v) in *.
  set (s1 := set_cell s v (mkCell false None (c_lower c) (c_upper c) (c_cs c))).
  assert (E1 : semeq s s1). { apply semeq_set_cell. unfold cell_sem. cbn [c_bound c_lower c_upper]. fold c. rewrite Hb. auto. }
  assert (I1 : J s1). { eapply J_semeq; eauto. apply nocs_set_cell. apply I. }
  assert (L1 : len s1 = len s) by apply E1.
  assert (C1 : cell_of s1 v = mkCell false None (c_lower c) (c_upper c) (c_cs c)).
  { unfold s1. rewrite cell_of_set_cell_same by exact Lv. reflexivity. }
  (* the binding step, for any store s2 = s1 with v bound to t *)
  assert (BS : forall wld cs th, sat th (set_cell s1 v (mkCell wld (Some t) (c_lower c) (c_upper c) cs)) ->
               th v = den th t /\ (inb c (th v) -> sat th s)).
  { intros wld cs th S2. split.
    - apply sat_at_set_cell in S2; [exact S2|lia].
    - intros Hin. eapply sat_semeq; [exact E1|]. eapply sat_set_cell_back; [exact S2|].
      rewrite C1. cbn [c_bound]. exact Hin. }
  assert (IS : forall wld cs, J (set_cell s1 v (mkCell wld (Some t) (c_lower c) (c_upper c) cs))).
  { intros wld cs. apply J_set_cell; auto.
    - pose proof (J_b s I v) as B. exact B.
    - cbn [c_bound]. intros t' [= <-]. rewrite L1. exact Tt. }
  assert (CS : forall wld cs, let s2 := set_cell s1 v (mkCell wld (Some t) (c_lower c) (c_upper c) cs) in
               (forall x, x <> v -> cell_sem (cell_of s x) (cell_of s2 x)) /\
               c_bound (cell_of s2 v) = Some t /\ c_lower (cell_of s2 v) = c_lower c /\
               c_upper (cell_of s2 v) = c_upper c).
  { intros wld cs s2. split; [|unfold s2; rewrite cell_of_set_cell_same by lia; cbn; auto].
    intros x Ne. unfold s2. rewrite cell_of_set_cell_other by exact Ne. apply (proj2 E1). }
  clearbody s1.
  destruct t as [w|o args].
  - destruct (Nat.eqb v w) eqn:Evw.
    + apply tr_ret. apply Nat.eqb_eq in Evw. subst w.
      apply good_semeq; auto; apply I1.
    + apply Nat.eqb_neq in Evw. unfold set_bound. apply tr_upd_cell. rewrite C1. cbn [c_wild c_lower c_upper c_cs].
      set (s2 := set_cell s1 v (mkCell false (Some (V w)) (c_lower c) (c_upper c) (c_cs c))).
      specialize (BS false (c_cs c)). specialize (IS false (c_cs c)). fold s2 in BS, IS.
      specialize (CS false (c_cs c)). cbv zeta in CS. fold s2 in CS. destruct CS as (Cx & Cb & Clo & Cup).
      assert (L2 : len s2 = len s1) by (unfold s2; cbn; apply upd_length).
      clearbody s2.
      apply tr_modify. rewrite !(J_cs s2 IS). rewrite union_nil_l.
      set (s3 := set_cset s2 _ []).
      assert (E3 : semeq s2 s3) by apply semeq_set_cset.
      assert (N3 : nocs s3) by (apply nocs_set_cset; apply IS).
      clearbody s3. apply tr_gets. unfold set_cs. apply tr_upd_cell.
      set (s4 := set_cell s3 v _).
      assert (E4 : semeq s3 s4) by (apply semeq_set_cell; repeat split).
      assert (N4 : nocs s4) by (apply nocs_set_cell; exact N3).
      clearbody s4. unfold set_wild. apply tr_upd_cell.
      set (s5 := set_cell s4 w _).
      assert (E5 : semeq s4 s5) by (apply semeq_set_cell; repeat split).
      assert (N5 : nocs s5) by (apply nocs_set_cell; exact N4).
      clearbody s5.
      assert (E25 : semeq s2 s5) by (eapply semeq_trans; [exact E3|eapply semeq_trans; eauto]).
      assert (I5 : J s5) by (eapply J_semeq; eauto).
      assert (L5 : len s5 = len s) by (destruct E25 as [L _]; lia).
      assert (Lw : w < len s) by (inversion Tt; auto).
      pose proof (J_b s I v) as (Bl & Bu & _). fold c in Bl, Bu.
      eapply tr_bind with (Q1 := fun _ s6 => good s5 (fun th => forall l, c_lower c = Some l -> lbo l (th w)) s6).
      { destruct (c_lower c) as [l|] eqn:El.
        - destruct (Bl l eq_refl) as (Vl & NB & _).
          eapply tr_conseq; [apply Ab; auto; lia|]. cbv beta. intros _ s6 G.
          eapply good_weaken; [exact G|]. intros th _ Hl l' [= <-]. exact Hl.
        - apply tr_ret. apply good_refl; auto. intros th _ l' [=]. }
      intros _ s6 G6.
      eapply tr_bind with (Q1 := fun _ s7 => good s6 (fun th => forall u, c_upper c = Some u -> ubo u (th w)) s7).
      { destruct G6 as (I6 & [L6 _] & _). destruct (c_upper c) as [u|] eqn:Eu.
        - destruct (Bu u eq_refl) as (Vu & NT & _).
          eapply tr_conseq; [apply Be; auto; lia|]. cbv beta. intros _ s7 G.
          eapply good_weaken; [exact G|]. intros th _ Hu u' [= <-]. exact Hu.
        - apply tr_ret. apply good_refl; auto. intros th _ u' [=]. }
      intros _ s7 G7.
      eapply tr_conseq; [apply tr_cc; apply G7|]. cbv beta. intros _ s' ->.
      pose proof (good_trans _ _ _ _ _ (fun th => (forall l, c_lower c = Some l -> lbo l (th w)) /\
                                               (forall u, c_upper c = Some u -> ubo u (th w)))
                             G6 G7) as G57.
      destruct G57 as (I7 & [L7 M7] & F57 & R7); [intros; split; assumption|].
      assert (M07 : forall th, sat th s7 -> sat th s).
      { intros th S7. pose proof (M7 th S7) as S5. destruct (R7 th S7) as [Rl Ru].
        assert (S2 : sat th s2) by (eapply sat_semeq; eauto).
        destruct (BS th S2) as [Ev Back]. apply Back. cbn [den] in Ev. rewrite Ev.
        split; assumption. }
      split; [exact I7|split; [split; [lia|exact M07]|split]].
      * apply (fr_bind s s2 s5 s7 v (V w) Hb Cx Cb Clo Cup E25 F57 M07).
      * intros th S7. pose proof (M7 th S7) as S5.
        assert (S2 : sat th s2) by (eapply sat_semeq; eauto).
        destruct (BS th S2) as [Ev _]. exact Ev.
  - unfold set_bound. apply tr_upd_cell. rewrite C1. cbn [c_wild c_lower c_upper c_cs].
    set (s2 := set_cell s1 v (mkCell false (Some (O o args)) (c_lower c) (c_upper c) (c_cs c))).
    specialize (BS false (c_cs c)). specialize (IS false (c_cs c)). fold s2 in BS, IS.
    specialize (CS false (c_cs c)). cbv zeta in CS. fold s2 in CS. destruct CS as (Cx & Cb & Clo & Cup).
    assert (L2 : len s2 = len s1) by (unfold s2; cbn; apply upd_length).
    clearbody s2.
    eapply tr_bind with (Q1 := fun _ s3 => J s3 /\ semeq s2 s3 /\ forall th, inb c (den th (O o args))).
    + destruct (basic H o) eqn:Eb.
      * destruct (Cmp o args eq_refl Eb) as [Cl Cu]. fold c in Cl, Cu.
        destruct (match c_lower c with Some l => osub H true o l | None => false end) eqn:K1; [apply tr_fail|].
        destruct (match c_upper c with Some u => osub H true u o | None => false end) eqn:K2; [apply tr_fail|].
        apply tr_ret. split; [exact IS|split; [apply semeq_refl|]]. intros th.
        inversion Tt as [|? ? La _]; subst. rewrite (basic_var o Eb) in La.
        destruct args; [|discriminate]. cbn [den map]. split.
        -- intros l El. rewrite El in K1. exists o. split; [reflexivity|].
           apply osubT_false_cmp; auto.
        -- intros u Eu. rewrite Eu in K2. exists o. split; [reflexivity|].
           destruct (Cu u Eu) as [C|C]; [|exact C].
           apply osubT_false_cmp; auto.
      * destruct (c_lower c) eqn:El; [apply tr_fail|].
        destruct (c_upper c) eqn:Eu; [apply tr_fail|].
        apply tr_lift. intros vs _. apply tr_modify.
        rewrite (fold_union_nocs s2 _ vs (J_cs s2 IS)).
        set (s3 := set_cset s2 _ []).
        assert (E3 : semeq s2 s3) by apply semeq_set_cset.
        assert (N3 : nocs s3) by (apply nocs_set_cset; apply IS).
        clearbody s3. apply tr_gets.
        eapply tr_conseq; [apply forM_set_cs|]. cbv beta. intros _ s4 [E4 C4].
        assert (E24 : semeq s2 s4) by (eapply semeq_trans; eauto).
        split; [eapply J_semeq; [exact E24| |exact IS]; eapply nocs_csets; eauto|].
        split; [exact E24|]. intros th. split; intros x Hx; congruence.
    + intros _ s3 (I3 & E23 & Hin).
      eapply tr_conseq; [apply tr_cc; apply I3|]. cbv beta. intros _ s' ->.
      assert (M03 : forall th, sat th s3 -> sat th s).
      { intros th S3. assert (S2 : sat th s2) by (eapply sat_semeq; eauto).
        destruct (BS th S2) as [Ev Back]. apply Back. rewrite Ev. apply Hin. }
      split; [exact I3|split; [split; [destruct E23 as [L _]; lia|exact M03]|split]].
      * apply (fr_bind s s2 s3 s3 v (O o args) Hb Cx Cb Clo Cup E23 (fr_refl s3) M03).
      * intros th S3. assert (S2 : sat th s2) by (eapply sat_semeq; eauto).
        destruct (BS th S2) as [Ev _]. exact Ev.
Qed.

(* ---- above ---- *)
Lemma set_lower_good f v new s : J s -> v < len s ->
  variance H new = [] -> new <> Bottom -> new <> Top -> c_bound (cell_of s v) = None ->
  (forall l, c_lower (cell_of s v) = Some l -> ole l new) ->
  (forall u, c_upper (cell_of s v) = Some u -> ole new u) ->
  tr (set_lower v (Some new) ;;; check_constraints H f v) s
     (fun _ s' => good s (fun th => lbo new (th v)) s').
Proof.
  intros I Lv Vn NB NT Hb Hl Hu. unfold set_lower. apply tr_upd_cell.
  set (c := cell_of s v) in *. rewrite Hb.
  set (s1 := set_cell s v _).
  assert (I1 : J s1).
  { apply J_set_cell; auto; [|cbn; discriminate].
    pose proof (J_b s I v) as (Bl & Bu & Bc). fold c in Bl, Bu, Bc.
    split; [|split]; cbn [c_lower c_upper].
    - intros l [= <-]. auto.
    - exact Bu.
    - intros l u [= <-] Eu. auto. }
  eapply tr_conseq; [apply tr_cc; apply I1|]. cbv beta. intros _ s' ->.
  assert (K : forall th, sat th s1 -> lbo new (th v)).
  { intros th S1. apply sat_at_set_cell in S1; [|exact Lv]. cbn [c_bound] in S1.
    destruct S1 as [Sl _]. apply Sl. reflexivity. }
  split; [exact I1|split; [split; [unfold s1; cbn; rewrite upd_length; lia|]|split; [apply fr_set_cell_unb; auto|exact K]]].
  intros th S1. eapply sat_set_cell_back; [exact S1|]. fold c. rewrite Hb.
  pose proof (K th S1) as Kl. apply sat_at_set_cell in S1; [|exact Lv]. cbn [c_bound] in S1.
  destruct S1 as [_ Su]. split.
  - intros l El. eapply lbo_trans; [apply Hl; exact El|exact Kl].
  - exact Su.
Qed.

Lemma keep_lower_good v new l s : J s -> c_bound (cell_of s v) = None ->
  c_lower (cell_of s v) = Some l -> osub H true new l = true ->
  good s (fun th => lbo new (th v)) s.
Proof.
  intros I Hb El Eo. apply good_refl; auto. intros th S.
  destruct (S v) as [_ Sv]. rewrite Hb in Sv. destruct Sv as [Sl _].
  eapply lbo_trans; [|apply Sl; exact El]. apply osubT_true_ole. exact Eo.
Qed.

Lemma above_step f : spec_unify f -> spec_bind f -> spec_above (S f).
Proof.
  intros U B v new s I Lv Vn NB. rewrite above_S.
  destruct (Nat.eqb new Top) eqn:Et.
  - apply Nat.eqb_eq in Et. subst new.
    eapply tr_conseq; [apply B; auto|].
    + apply tg_O0. exact Vn.
    + intros o args [= <- <-] _. split; intros x _; left; apply ole_top.
    + cbv beta. intros _ s' G. eapply good_weaken; [exact G|]. intros th _ E. cbn in E.
      exists Top. split; [exact E|apply ole_refl].
  - apply Nat.eqb_neq in Et. unfold set_wild. apply tr_upd_cell.
    set (c := cell_of s v).
    set (s1 := set_cell s v _).
    assert (E1 : semeq s s1). { apply semeq_set_cell. unfold cell_sem. cbn. auto. }
    assert (I1 : J s1). { eapply J_semeq; eauto. apply nocs_set_cell. apply I. }
    assert (L1 : len s1 = len s) by apply E1.
    assert (G01 : good s (fun _ => True) s1) by (apply good_semeq; auto; apply I1).
    clearbody s1. apply tr_gets.
    destruct (c_bound (cell_of s1 v)) as [t|] eqn:Hb.
    + eapply tr_conseq; [apply U; auto|].
      * apply tg_O0. exact Vn.
      * eapply J_sc; eauto.
      * cbv beta. intros _ s' G. eapply good_trans; [exact G01|exact G|]. cbv beta.
        intros th _ S1 _ _ Sb. cbn [den map] in Sb.
        destruct (S1 v) as [_ Sv]. rewrite Hb in Sv. rewrite Sv.
        apply Sub_lbo; auto.
    + eapply tr_bind with (Q1 := fun _ s2 => good s1 (fun th => lbo new (th v)) s2).
      * pose proof (set_lower_good f v new s1 I1) as SL.
        pose proof (keep_lower_good v new) as KL.
        destruct (c_upper (cell_of s1 v)) as [u|] eqn:Eu; destruct (c_lower (cell_of s1 v)) as [l|] eqn:El;
          repeat match goal with |- tr (if ?c then _ else _) _ _ => destruct c eqn:? end;
          try apply tr_fail; try (apply tr_ret; eapply KL; eauto; fail);
          apply SL; auto; try lia; try (intros x [= <-]); try (intros x [=]);
          try (apply osubF_true; assumption); try (apply osubF_neg; assumption).
      * intros _ s2 G2. apply tr_gets. destruct G2 as (I2 & [L2 M2] & R2).
        assert (G12 : good s1 (fun th => lbo new (th v)) s2) by (split; [auto|split; [split; auto|auto]]).
        assert (Gret : good s (fun th => lbo new (th v)) s2).
        { eapply good_trans; [exact G01|exact G12|]. cbv beta. auto. }
        destruct (c_bound (cell_of s2 v)) eqn:Hb2; [apply tr_ret; exact Gret|].
        destruct (c_lower (cell_of s2 v)) as [l|] eqn:El2; [|apply tr_ret; exact Gret].
        destruct (c_upper (cell_of s2 v)) as [u|] eqn:Eu2; [|apply tr_ret; exact Gret].
        destruct (Nat.eqb l u) eqn:Elu; [|apply tr_ret; exact Gret].
        apply Nat.eqb_eq in Elu. subst u.
        pose proof (J_b s2 I2 v) as (Bl & _). destruct (Bl l El2) as (Vl & _).
        eapply tr_conseq; [apply B; auto; try lia|].
        -- apply tg_O0. exact Vl.
        -- intros o args [= <- <-] _. split; intros x Ex; left.
           ++ rewrite El2 in Ex. injection Ex as <-. apply ole_refl.
           ++ rewrite Eu2 in Ex. injection Ex as <-. apply ole_refl.
        -- cbv beta. intros _ s' G. eapply good_trans; [exact Gret|exact G|]. cbv beta. auto.
Qed.

(* ---- below ---- *)
Lemma set_upper_good f v new s : J s -> v < len s ->
  variance H new = [] -> new <> Top -> new <> Bottom -> c_bound (cell_of s v) = None ->
  (forall l, c_lower (cell_of s v) = Some l -> ole l new) ->
  (forall u, c_upper (cell_of s v) = Some u -> ole new u) ->
  tr (set_upper v (Some new) ;;; check_constraints H f v) s
     (fun _ s' => good s (fun th => ubo new (th v)) s').
Proof.
  intros I Lv Vn NT NB Hb Hl Hu. unfold set_upper. apply tr_upd_cell.
  set (c := cell_of s v) in *. rewrite Hb.
  set (s1 := set_cell s v _).
  assert (I1 : J s1).
  { apply J_set_cell; auto; [|cbn; discriminate].
    pose proof (J_b s I v) as (Bl & Bu & Bc). fold c in Bl, Bu, Bc.
    split; [|split]; cbn [c_lower c_upper].
    - exact Bl.
    - intros u [= <-]. auto.
    - intros l u El [= <-]. auto. }
  eapply tr_conseq; [apply tr_cc; apply I1|]. cbv beta. intros _ s' ->.
  assert (K : forall th, sat th s1 -> ubo new (th v)).
  { intros th S1. apply sat_at_set_cell in S1; [|exact Lv]. cbn [c_bound] in S1.
    destruct S1 as [_ Su]. apply Su. reflexivity. }
  split; [exact I1|split; [split; [unfold s1; cbn; rewrite upd_length; lia|]|split; [apply fr_set_cell_unb; auto|exact K]]].
  intros th S1. eapply sat_set_cell_back; [exact S1|]. fold c. rewrite Hb.
  pose proof (K th S1) as Ku. apply sat_at_set_cell in S1; [|exact Lv]. cbn [c_bound] in S1.
  destruct S1 as [Sl _]. split.
  - exact Sl.
  - intros u Eu. eapply ubo_trans; [apply Hu; exact Eu|exact Ku].
Qed.

Lemma keep_upper_good v new u s : J s -> c_bound (cell_of s v) = None ->
  c_upper (cell_of s v) = Some u -> osub H true u new = true ->
  good s (fun th => ubo new (th v)) s.
Proof.
  intros I Hb Eu Eo. apply good_refl; auto. intros th S.
  destruct (S v) as [_ Sv]. rewrite Hb in Sv. destruct Sv as [_ Su].
  eapply ubo_trans; [|apply Su; exact Eu]. apply osubT_true_ole. exact Eo.
Qed.

Lemma below_step f : spec_unify f -> spec_bind f -> spec_below (S f).
Proof.
  intros U B v new s I Lv Vn NT. rewrite below_S.
  destruct (Nat.eqb new Bottom) eqn:Et.
  - apply Nat.eqb_eq in Et. subst new.
    eapply tr_conseq; [apply B; auto|].
    + apply tg_O0. exact Vn.
    + intros o args [= <- <-] _. split; intros x _; right; apply ole_bot.
    + cbv beta. intros _ s' G. eapply good_weaken; [exact G|]. intros th _ E. cbn in E.
      exists Bottom. split; [exact E|apply ole_refl].
  - apply Nat.eqb_neq in Et. unfold set_wild. apply tr_upd_cell.
    set (c := cell_of s v).
    set (s1 := set_cell s v _).
    assert (E1 : semeq s s1). { apply semeq_set_cell. unfold cell_sem. cbn. auto. }
    assert (I1 : J s1). { eapply J_semeq; eauto. apply nocs_set_cell. apply I. }
    assert (L1 : len s1 = len s) by apply E1.
    assert (G01 : good s (fun _ => True) s1) by (apply good_semeq; auto; apply I1).
    clearbody s1. apply tr_gets.
    destruct (c_bound (cell_of s1 v)) as [t|] eqn:Hb.
    + eapply tr_conseq; [apply U; auto|].
      * eapply J_sc; eauto.
      * apply tg_O0. exact Vn.
      * cbv beta. intros _ s' G. eapply good_trans; [exact G01|exact G|]. cbv beta.
        intros th _ S1 _ _ Sb. cbn [den map] in Sb.
        destruct (S1 v) as [_ Sv]. rewrite Hb in Sv. rewrite Sv.
        apply Sub_ubo; auto.
    + eapply tr_bind with (Q1 := fun _ s2 => good s1 (fun th => ubo new (th v)) s2).
      * pose proof (set_upper_good f v new s1 I1) as SL.
        pose proof (keep_upper_good v new) as KL.
        destruct (c_lower (cell_of s1 v)) as [l|] eqn:El; destruct (c_upper (cell_of s1 v)) as [u|] eqn:Eu;
          repeat match goal with |- tr (if ?c then _ else _) _ _ => destruct c eqn:? end;
          try apply tr_fail; try (apply tr_ret; eapply KL; eauto; fail);
          apply SL; auto; try lia; try (intros x [= <-]); try (intros x [=]);
          try (apply osubF_true; assumption); try (apply osubF_neg; assumption).
      * intros _ s2 G2. apply tr_gets. destruct G2 as (I2 & [L2 M2] & R2).
        assert (G12 : good s1 (fun th => ubo new (th v)) s2) by (split; [auto|split; [split; auto|auto]]).
        assert (Gret : good s (fun th => ubo new (th v)) s2).
        { eapply good_trans; [exact G01|exact G12|]. cbv beta. auto. }
        destruct (c_bound (cell_of s2 v)) eqn:Hb2; [apply tr_ret; exact Gret|].
        destruct (c_upper (cell_of s2 v)) as [u|] eqn:Eu2; [|apply tr_ret; exact Gret].
        destruct (c_lower (cell_of s2 v)) as [l|] eqn:El2; [|apply tr_ret; exact Gret].
        destruct (Nat.eqb u l) eqn:Elu; [|apply tr_ret; exact Gret].
        apply Nat.eqb_eq in Elu. subst l.
        pose proof (J_b s2 I2 v) as (_ & Bu & _). destruct (Bu u Eu2) as (Vu & _).
        eapply tr_conseq; [apply B; auto; try lia|].
        -- apply tg_O0. exact Vu.
        -- intros o args [= <- <-] _. split; intros x Ex; left.
           ++ rewrite El2 in Ex. injection Ex as <-. apply ole_refl.
           ++ rewrite Eu2 in Ex. injection Ex as <-. apply ole_refl.
        -- cbv beta. intros _ s' G. eapply good_trans; [exact Gret|exact G|]. cbv beta. auto.
Qed.

(* ---- fix_ty ---- *)
Lemma tg_args n o args : tg n (O o args) -> length args = length (variance H o) /\ Forall (tg n) args.
Proof. intros Ht; inversion Ht; auto. Qed.

Lemma Forall_tg_mono n m l : n <= m -> Forall (tg n) l -> Forall (tg m) l.
Proof. intros L. apply Forall_impl. intros t. apply tg_mono. exact L. Qed.

Lemma fix_args f pl : spec_fix f -> forall ps vs s, J s -> Forall (tg (len s)) ps ->
  tr ((fix go (vs : list bool) (ps : list tyv) : M unit :=
         match vs, ps with
         | v :: vs', p :: ps' =>
             fix_ty H f (if v then pl else negb pl) p ;;; go vs' ps'
         | _, _ => ret tt
         end) vs ps) s (fun _ s' => good s (fun _ => True) s').
Proof.
  intros Fx. induction ps as [|p ps IH]; intros vs s I Fp; destruct vs as [|b vs];
    try (apply tr_ret; apply good_refl; auto).
  inversion Fp as [|? ? Tp Fp']; subst.
  eapply tr_bind; [apply Fx; auto|]. cbv beta. intros r s1 (_ & G1).
  destruct G1 as (I1 & [L1 M1] & F1 & R1).
  eapply tr_conseq; [apply IH; auto; eapply Forall_tg_mono; eauto|].
  cbv beta. intros _ s2 G2.
  assert (G1 : good s (fun _ => True) s1) by (split; [auto|split; [split; auto|split; auto]]).
  eapply good_trans; [exact G1|exact G2|auto].
Qed.

Lemma fix_step f : spec_bind f -> spec_fix f -> spec_fix (S f).
Proof.
  intros B Fx pl t s I Tt. rewrite fix_ty_S. apply tr_gets.
  pose proof (tg_follow s t I Tt) as Ta.
  assert (Da : forall th, sat th s -> den th (follow s t) = den th t) by (intros; apply den_follow; auto).
  set (a := follow s t) in *. clearbody a.
  eapply tr_bind with (Q1 := fun _ s1 => good s (fun _ => True) s1).
  - destruct a as [v|o args].
    + apply tr_gets. assert (Lv : v < len s) by (inversion Ta; auto).
      pose proof (J_b s I v) as (Bl & Bu & Bc).
      destruct pl.
      * destruct (c_lower (cell_of s v)) as [l|] eqn:El; [|apply tr_ret; apply good_refl; auto].
        destruct (Bl l eq_refl) as (Vl & _).
        eapply tr_conseq; [apply B; auto|].
        -- apply tg_O0. exact Vl.
        -- intros o args [= <- <-] _. split; intros x Ex.
           ++ rewrite El in Ex. injection Ex as <-. left. apply ole_refl.
           ++ right. apply Bc; auto.
        -- cbv beta. intros _ s1 G. eapply good_weaken; [exact G|auto].
      * destruct (c_upper (cell_of s v)) as [u|] eqn:Eu; [|apply tr_ret; apply good_refl; auto].
        destruct (Bu u eq_refl) as (Vu & _).
        eapply tr_conseq; [apply B; auto|].
        -- apply tg_O0. exact Vu.
        -- intros o args [= <- <-] _. split; intros x Ex.
           ++ left. apply Bc; auto.
           ++ rewrite Eu in Ex. injection Ex as <-. left. apply ole_refl.
        -- cbv beta. intros _ s1 G. eapply good_weaken; [exact G|auto].
    + apply fix_args; auto. apply (tg_args _ _ _ Ta).
  - intros _ s1 G1. apply tr_gets_end. destruct G1 as (I1 & [L1 M1] & F1 & _).
    split.
    + apply tg_follow; auto. eapply tg_mono; eauto.
    + split; [auto|split; [split; auto|split; [auto|]]]. intros th S1.
      rewrite den_follow by exact S1. apply Da. auto.
Qed.

(* ---- unify ---- *)
Lemma unify_args f : spec_unify f -> forall vs xs ys s, J s ->
  Forall (tg (len s)) xs -> Forall (tg (len s)) ys -> length xs = length vs -> length ys = length vs ->
  tr ((fix go (vs : list bool) (xs ys : list tyv) : M unit :=
         match vs, xs, ys with
         | v :: vs', x :: xs', y :: ys' =>
             (if v then unify H f true false false x y else unify H f true false false y x) ;;;
             go vs' xs' ys'
         | _, _, _ => ret tt
         end) vs xs ys) s
     (fun _ s' => good s (fun th => ArgsRel (Sub H) vs (map (den th) xs) (map (den th) ys)) s').
Proof.
  intros U. induction vs as [|v vs IH]; intros xs ys s I Fx Fy Lx Ly.
  - destruct xs; [|discriminate]. destruct ys; [|discriminate].
    apply tr_ret. apply good_refl; auto. intros th _. constructor.
  - destruct xs as [|x xs]; [discriminate|]. destruct ys as [|y ys]; [discriminate|].
    inversion Fx as [|? ? Tx Fx']; subst. inversion Fy as [|? ? Ty Fy']; subst.
    eapply tr_bind with (Q1 := fun _ s1 => good s (fun th => if v then Sub H (den th x) (den th y)
                                                         else Sub H (den th y) (den th x)) s1).
    + destruct v; apply U; auto.
    + intros _ s1 G1. pose proof G1 as (I1 & [L1 M1] & R1).
      eapply tr_conseq; [apply IH; auto; try (eapply Forall_tg_mono; eauto); cbn in *; lia|].
      cbv beta. intros _ s2 G2. eapply good_trans; [exact G1|exact G2|]. cbv beta.
      intros th _ _ _ Hv Hr. cbn [map]. apply AR_cons; auto.
Qed.

Lemma den_O_wf th n o args : (forall v, wf_ty H (th v)) -> tg n (O o args) -> variance H o = [] ->
  den th (O o args) = TOp o [].
Proof.
  intros Wt Ht V0. apply tg_args in Ht. destruct Ht as [L _]. rewrite V0 in L.
  destruct args; [reflexivity|discriminate].
Qed.

Lemma unify_step f : spec_unify f -> spec_bind f -> spec_above f -> spec_below f -> spec_unify (S f).
Proof.
  intros U B Ab Be a0 b0 s I Ta0 Tb0. rewrite unify_S. apply tr_gets. apply tr_gets.
  pose proof (tg_follow s a0 I Ta0) as Ta. pose proof (tg_follow s b0 I Tb0) as Tb.
  assert (Da : forall th, sat th s -> den th (follow s a0) = den th a0) by (intros; apply den_follow; auto).
  assert (Db : forall th, sat th s -> den th (follow s b0) = den th b0) by (intros; apply den_follow; auto).
  set (a := follow s a0) in *. set (b := follow s b0) in *. clearbody a b.
  (* a common final step: conclude from a fact about the followed terms *)
  assert (Fin : forall s' (R : (nat -> ty) -> Prop), good s R s' ->
            (forall th, sat th s' -> R th -> Sub H (den th a) (den th b)) ->
            good s (fun th => Sub H (den th a0) (den th b0)) s').
  { intros s' R G K. eapply good_weaken; [exact G|]. intros th S' HR.
    destruct G as (_ & [_ M] & _). rewrite <- Da, <- Db by auto. auto. }
  destruct a as [va|oa xs]; destruct b as [vb|ob ys].
  - apply tr_gets. apply tr_gets. cbn [negb orb].
    eapply tr_conseq; [apply B; auto; [inversion Ta; auto|intros; discriminate]|].
    cbv beta. intros _ s' G. eapply Fin; [exact G|]. cbv beta. intros th S' E. cbn [den] in *.
    rewrite E. apply Sub_refl; auto. apply (sat_wf th s' S').
  - destruct (Nat.eqb ob Top) eqn:Et.
    + apply Nat.eqb_eq in Et. subst ob. apply tr_ret. eapply Fin; [apply (good_refl s (fun _ => True)); auto|].
      cbv beta. intros th S _. erewrite (den_O_wf th _ Top ys); eauto using sat_wf, var_top. apply SubTop.
    + apply Nat.eqb_neq in Et. apply tr_lift. intros oc _. destruct oc; [apply tr_fail|].
      assert (Lv : va < len s) by (inversion Ta; auto).
      destruct (basic H ob) eqn:Eb.
      * apply tr_gets. cbn [orb andb].
        eapply tr_conseq; [apply Be; auto; apply basic_var; auto|].
        cbv beta. intros _ s' G. eapply Fin; [exact G|]. cbv beta. intros th S' (bb & E & Lb).
        erewrite (den_O_wf th _ ob ys); eauto using sat_wf, basic_var. cbn [den]. rewrite E.
        apply ole_Sub; auto. apply wf_base. rewrite <- E. apply (sat_wf th s' S').
      * cbn [orb].
        eapply tr_conseq; [apply B; auto; intros o args [= <- <-]; congruence|].
        cbv beta. intros _ s' G. eapply Fin; [exact G|]. cbv beta. intros th S' E.
        change (den th (V va)) with (th va). rewrite E. apply Sub_refl; auto.
        rewrite <- E. apply (sat_wf th s' S').
  - destruct (Nat.eqb oa Bottom) eqn:Et.
    + apply Nat.eqb_eq in Et. subst oa. apply tr_ret. eapply Fin; [apply (good_refl s (fun _ => True)); auto|].
      cbv beta. intros th S _. erewrite (den_O_wf th _ Bottom xs); eauto using sat_wf, var_bot. apply SubBot.
    + apply Nat.eqb_neq in Et. apply tr_lift. intros oc _. destruct oc; [apply tr_fail|].
      assert (Lv : vb < len s) by (inversion Tb; auto).
      destruct (basic H oa) eqn:Eb.
      * apply tr_gets. cbn [orb andb].
        eapply tr_conseq; [apply Ab; auto; apply basic_var; auto|].
        cbv beta. intros _ s' G. eapply Fin; [exact G|]. cbv beta. intros th S' (bb & E & Lb).
        erewrite (den_O_wf th _ oa xs); eauto using sat_wf, basic_var. cbn [den]. rewrite E.
        apply ole_Sub; auto. apply basic_var; auto.
      * cbn [orb].
        eapply tr_conseq; [apply B; auto; intros o args [= <- <-]; congruence|].
        cbv beta. intros _ s' G. eapply Fin; [exact G|]. cbv beta. intros th S' E.
        change (den th (V vb)) with (th vb). rewrite E. apply Sub_refl; auto.
        rewrite <- E. apply (sat_wf th s' S').
  - destruct (Nat.eqb oa Bottom || Nat.eqb ob Top) eqn:E1.
    { apply tr_ret. eapply Fin; [apply (good_refl s (fun _ => True)); auto|]. cbv beta. intros th S _.
      apply orb_true_iff in E1. destruct E1 as [E|E]; apply Nat.eqb_eq in E; subst.
      - erewrite (den_O_wf th _ Bottom xs); eauto using sat_wf, var_bot. apply SubBot.
      - erewrite (den_O_wf th _ Top ys); eauto using sat_wf, var_top. apply SubTop. }
    apply orb_false_iff in E1. destruct E1 as [NB NT]. apply Nat.eqb_neq in NB, NT.
    destruct (basic H oa) eqn:Eb.
    { cbn [negb andb orb].
      destruct (negb (osub H false oa ob)) eqn:Eo; [apply tr_fail|].
      apply tr_ret. eapply Fin; [apply (good_refl s (fun _ => True)); auto|]. cbv beta. intros th S _.
      apply osubF_neg in Eo. destruct Eo as [E|[E|A]]; try congruence.
      pose proof (basic_var oa Eb) as Va.
      assert (Vb : variance H ob = []).
      { destruct (Anc_inv H W _ _ A) as [<-|(_ & Vb & _)]; auto. }
      erewrite (den_O_wf th _ oa xs); eauto using sat_wf.
      erewrite (den_O_wf th _ ob ys); eauto using sat_wf.
      apply SubBase; auto. }
    destruct (Nat.eqb oa ob) eqn:Eab; [|apply tr_fail].
    apply Nat.eqb_eq in Eab. subst ob.
    destruct (tg_args _ _ _ Ta) as [Lx Fx]. destruct (tg_args _ _ _ Tb) as [Ly Fy].
    eapply tr_conseq; [apply unify_args; auto|].
    cbv beta. intros _ s' G. eapply Fin; [exact G|]. cbv beta. intros th S' AR. cbn [den].
    apply SubComp; auto. intros V0. apply var_basic in V0. congruence.
Qed.

(* ---- the induction on fuel ---- *)
Theorem specs_all : forall f, specs f.
Proof.
  induction f as [|f (U & B & Ab & Be & Fx)]; [apply specs_0|].
  unfold specs. repeat apply conj.
  - apply unify_step; auto.
  - apply bind_step; auto.
  - apply above_step; auto.
  - apply below_step; auto.
  - apply fix_step; auto.
Qed.

Lemma unify_sound f : spec_unify f. Proof. apply specs_all. Qed.
Lemma bind_sound f : spec_bind f. Proof. apply specs_all. Qed.
Lemma above_sound f : spec_above f. Proof. apply specs_all. Qed.
Lemma below_sound f : spec_below f. Proof. apply specs_all. Qed.
Lemma fix_sound f : spec_fix f. Proof. apply specs_all. Qed.

(* ------------------------------------------------------------------ *)
(* allocation, schemas, instance, apply                                 *)
(* ------------------------------------------------------------------ *)
Lemma J_alloc s w : J s -> J (snd (alloc_var s w)).
Proof.
  intros I. constructor.
  - intros i. rewrite alloc_var_cset. apply I.
  - intros v t. rewrite alloc_var_bound, alloc_var_length. intros Hv.
    eapply tg_mono; [|eapply J_sc; eauto]. lia.
  - intros v. pose proof (J_b s I v) as B. unfold bok in *.
    rewrite alloc_var_lower, alloc_var_upper. exact B.
Qed.

Lemma le_alloc s w : le s (snd (alloc_var s w)).
Proof.
  split; [rewrite alloc_var_length; lia|]. intros th S v. destruct (S v) as [Wv Sv]. split; auto.
  rewrite alloc_var_bound in Sv. destruct (c_bound (cell_of s v)); auto.
  unfold inb in *. rewrite alloc_var_lower, alloc_var_upper in Sv. exact Sv.
Qed.

Lemma fr_alloc s w : fr s (snd (alloc_var s w)).
Proof.
  constructor.
  - intros x. rewrite alloc_var_bound. auto.
  - intros x _. rewrite alloc_var_lower, alloc_var_upper. auto.
  - intros x Hx. rewrite alloc_var_bound. congruence.
Qed.

(* refinement with frame, for the operations that allocate *)
Definition lef (s s' : store) : Prop := le s s' /\ fr s s'.

Lemma lef_refl s : lef s s.
Proof. split; [apply le_refl|apply fr_refl]. Qed.

Lemma lef_trans s1 s2 s3 : lef s1 s2 -> lef s2 s3 -> lef s1 s3.
Proof.
  intros [L1 F1] [L2 F2]. split; [eapply le_trans; eauto|eapply fr_trans; eauto; apply L2].
Qed.

Lemma lef_alloc s w : lef s (snd (alloc_var s w)).
Proof. split; [apply le_alloc|apply fr_alloc]. Qed.

Lemma lef_len s s' : lef s s' -> len s <= len s'.
Proof. intros [[L _] _]. exact L. Qed.

Lemma good_lef s R s' : good s R s' -> lef s s'.
Proof. intros (_ & L & F & _). split; auto. Qed.

Lemma tr_fresh {B} w (k : nat -> M B) s (Q : B -> store -> Prop) :
  tr (k (len s)) (snd (alloc_var s w)) Q -> tr (bindM (fresh w) k) s Q.
Proof. intros T b s' E. apply T. exact E. Qed.

Definition isvar (n : nat) (t : tyv) : Prop := exists v, t = V v /\ v < n.

Lemma isvar_tg n t : isvar n t -> tg n t.
Proof. intros (v & -> & L). constructor. exact L. Qed.

Lemma isvar_mono n m t : n <= m -> isvar n t -> isvar m t.
Proof. intros L (v & -> & Lv). exists v. split; [reflexivity|lia]. Qed.

Lemma fresh_list_good n : forall s, J s ->
  tr (fresh_list n) s (fun env s' => J s' /\ lef s s' /\ Forall (isvar (len s')) env /\ length env = n).
Proof.
  induction n as [|n IH]; intros s I; cbn [fresh_list].
  - apply tr_ret. split; [auto|split; [apply lef_refl|split; [constructor|reflexivity]]].
  - apply tr_fresh. pose proof (J_alloc s false I) as I1. pose proof (lef_alloc s false) as L1.
    pose proof (alloc_var_length s false) as Ln.
    set (s1 := snd (alloc_var s false)) in *. clearbody s1.
    eapply tr_bind; [apply IH; exact I1|]. cbv beta. intros r s2 (I2 & L2 & F2 & N2).
    apply tr_ret. split; [auto|split; [eapply lef_trans; eauto|split]].
    + constructor; auto. exists (len s). split; [reflexivity|]. apply lef_len in L2. lia.
    + cbn. lia.
Qed.

Lemma tr_ret_bind {A B} (a : A) (k : A -> M B) s (Q : B -> store -> Prop) :
  tr (k a) s Q -> tr (bindM (ret a) k) s Q.
Proof. intros T b s' E. apply T. exact E. Qed.

(* well-scoped, arity-correct schematic types *)
Inductive styg (n : nat) : sty -> Prop :=
| sg_V i : i < n -> styg n (SVar i)
| sg_W : styg n SWild
| sg_O o args : length args = length (variance H o) -> Forall (styg n) args -> styg n (SOp o args).

Definition ev_post (s : store) : tyv -> store -> Prop :=
  fun r s' => J s' /\ lef s s' /\ tg (len s') r.

Lemma eval_sty_good env : forall t s, J s -> Forall (tg (len s)) env -> styg (length env) t ->
  tr (eval_sty env t) s (ev_post s).
Proof.
  induction t as [i| |o args IH] using sty_ind'; intros s I Fe St; cbn [eval_sty].
  - apply tr_gets_end. split; [auto|split; [apply lef_refl|]]. apply tg_follow; auto.
    inversion St; subst. rewrite Forall_forall in Fe. apply Fe. apply nth_In. auto.
  - apply tr_fresh. apply tr_ret. split; [apply J_alloc; auto|split; [apply lef_alloc|]].
    constructor. rewrite alloc_var_length. lia.
  - inversion St as [| |? ? La Fa]; subst.
    eapply tr_bind with (Q1 := fun xs s1 => J s1 /\ lef s s1 /\ Forall (tg (len s1)) xs /\ length xs = length args).
    + clear La St. revert s I Fe.
      induction IH as [|a r Ha Hr IHr]; intros s I Fe; [apply tr_ret; split; [auto|split; [apply lef_refl|split; [constructor|reflexivity]]]|].
      inversion Fa as [|? ? Sa Sr]; subst.
      eapply tr_bind; [apply Ha; auto|]. cbv beta. intros x s1 (I1 & L1 & Tx).
      assert (Fe1 : Forall (tg (len s1)) env) by (eapply Forall_tg_mono; [apply (lef_len _ _ L1)|exact Fe]).
      eapply tr_bind; [apply IHr; auto|]. cbv beta. intros xs s2 (I2 & L2 & Fx & Nx).
      apply tr_ret. split; [auto|split; [eapply lef_trans; eauto|split]].
      * constructor; auto. eapply tg_mono; [apply (lef_len _ _ L2)|exact Tx].
      * cbn. lia.
    + cbv beta. intros xs s1 (I1 & L1 & Fx & Nx). apply tr_ret.
      split; [auto|split; [auto|]]. constructor; auto. congruence.
Qed.

Lemma instance_good fuel sc s : J s -> s_constrs sc = [] -> styg (s_n sc) (s_body sc) ->
  tr (instance H fuel sc) s (ev_post s).
Proof.
  intros I Nc Sb. unfold instance. rewrite Nc. cbn [forM].
  eapply tr_bind; [apply fresh_list_good; auto|]. cbv beta. intros env s1 (I1 & L1 & Fe & Ne).
  eapply tr_bind; [apply eval_sty_good; auto|].
  { eapply Forall_impl; [|exact Fe]. intros t. apply isvar_tg. }
  { rewrite Ne. exact Sb. }
  cbv beta. intros body s2 (I2 & L2 & Tb).
  apply tr_ret_bind.
  eapply tr_conseq; [apply fix_sound; auto|]. cbv beta. intros r s3 (Tr & G3).
  split; [apply G3|split; [|auto]]. eapply lef_trans; [exact L1|]. eapply lef_trans; [exact L2|].
  eapply good_lef; eauto.
Qed.

(* the semantic content of one application step *)
Definition StepSem (th : nat -> ty) (f x r : tyv) : Prop :=
  (exists a b, den th f = TOp Function [a; b] /\ Sub H (den th x) a /\ den th r = b) \/
  (den th f = TOp Top [] /\ den th r = TOp Top []).

Lemma var_fun : variance H Function = [false; true].
Proof. apply (wf_fun H W). Qed.

Lemma good_of_lef s s' (R : (nat -> ty) -> Prop) :
  J s' -> lef s s' -> (forall th, sat th s' -> R th) -> good s R s'.
Proof. intros I [L F] HR. split; [auto|split; [auto|split; auto]]. Qed.

Lemma apply_good fuel f0 x0 fixb s : J s -> tg (len s) f0 -> tg (len s) x0 ->
  tr (apply H fuel f0 x0 fixb) s
     (fun r s' => tg (len s') r /\ good s (fun th => StepSem th f0 x0 r) s').
Proof.
  intros I Tf0 Tx0. unfold apply. apply tr_gets. apply tr_gets.
  pose proof (tg_follow s f0 I Tf0) as Tf. pose proof (tg_follow s x0 I Tx0) as Tx.
  assert (Df : forall th, sat th s -> den th (follow s f0) = den th f0) by (intros; apply den_follow; auto).
  assert (Dx : forall th, sat th s -> den th (follow s x0) = den th x0) by (intros; apply den_follow; auto).
  set (f := follow s f0) in *. set (x := follow s x0) in *. clearbody f x.
  eapply tr_bind with (Q1 := fun f' s1 => tg (len s1) f' /\ good s (fun th => den th f' = den th f) s1).
  - destruct f as [vf|o args]; [|apply tr_ret; split; [auto|apply good_refl; auto]].
    apply tr_fresh. pose proof (J_alloc s false I) as I1. pose proof (lef_alloc s false) as L1.
    pose proof (alloc_var_length s false) as N1.
    set (s1 := snd (alloc_var s false)) in *. clearbody s1.
    apply tr_fresh. pose proof (J_alloc s1 false I1) as I2. pose proof (lef_alloc s1 false) as L2.
    pose proof (alloc_var_length s1 false) as N2.
    set (s2 := snd (alloc_var s1 false)) in *. clearbody s2.
    assert (Lv : vf < len s) by (inversion Tf; auto).
    eapply tr_bind; [apply bind_sound; auto; try lia|].
    + constructor; [rewrite var_fun; reflexivity|].
      constructor; [constructor; lia|constructor; [constructor; lia|constructor]].
    + intros o args [= <- <-] Eb. apply basic_var in Eb. rewrite var_fun in Eb. discriminate.
    + cbv beta. intros _ s3 G3. apply tr_gets_end.
      assert (L03 : lef s s3) by (eapply lef_trans; [exact L1|eapply lef_trans; [exact L2|eapply good_lef; eauto]]).
      split.
      * apply tg_follow; [apply G3|]. constructor. apply lef_len in L03. lia.
      * apply good_of_lef; [apply G3|exact L03|]. intros th S3. apply den_follow. exact S3.
  - cbv beta. intros f' s1 (Tf' & G1). pose proof G1 as (I1 & [L1 M1] & F1 & R1).
    assert (Tx1 : tg (len s1) x) by (eapply tg_mono; eauto).
    assert (TopCase : forall args, tg (len s1) (O Top args) -> f' = O Top args ->
              tg (len s1) (O Top []) /\ good s (fun th => StepSem th f0 x0 (O Top [])) s1).
    { intros args Ta ->. split; [apply tg_O0; apply var_top; auto|].
      eapply good_weaken; [exact G1|]. intros th S1 E. right. split; [|reflexivity].
      rewrite <- Df, <- E by auto. eapply den_O_wf; eauto using sat_wf, var_top. }
    destruct f' as [v|o [|lft [|rgt [|z r]]]]; try apply tr_fail.
    + destruct (Nat.eqb o Top) eqn:Et; [|apply tr_fail]. apply Nat.eqb_eq in Et. subst o.
      apply tr_ret. eapply TopCase; eauto.
    + destruct (Nat.eqb o Top) eqn:Et; [|apply tr_fail]. apply Nat.eqb_eq in Et. subst o.
      apply tr_ret. eapply TopCase; eauto.
    + destruct (Nat.eqb o Function) eqn:Ef.
      * apply Nat.eqb_eq in Ef. subst o.
        destruct (tg_args _ _ _ Tf') as [_ Fa]. inversion Fa as [|? ? Tl Fa']; subst.
        inversion Fa' as [|? ? Tr _]; subst.
        eapply tr_bind; [apply unify_sound; auto|]. cbv beta. intros _ s2 G2.
        pose proof G2 as (I2 & [L2 M2] & F2 & R2).
        assert (Fin : forall r s3, tg (len s3) r -> good s2 (fun th => den th r = den th rgt) s3 ->
                  tg (len s3) r /\ good s (fun th => StepSem th f0 x0 r) s3).
        { intros r s3 Trr G3. split; [exact Trr|].
          eapply good_trans; [exact G1|eapply good_trans; [exact G2|exact G3|]|].
          - cbv beta. intros th _ _ _ A B. exact (conj A B).
          - cbv beta. intros th _ S1 S0 E [Sb Er]. left.
            exists (den th lft), (den th rgt). rewrite <- Df, <- E by auto. split; [reflexivity|].
            split; [|exact Er]. rewrite <- Dx by auto. exact Sb. }
        destruct (fixb && negb (is_fun rgt)).
        -- eapply tr_conseq; [apply fix_sound; auto; eapply tg_mono; eauto|].
           cbv beta. intros r s3 (Trr & G3). apply Fin; auto.
        -- apply tr_ret. apply Fin; [eapply tg_mono; eauto|]. apply good_refl; auto.
      * destruct (Nat.eqb o Top) eqn:Et; [|apply tr_fail]. apply Nat.eqb_eq in Et. subst o.
        apply tr_ret. eapply TopCase; eauto.
    + destruct (Nat.eqb o Top) eqn:Et; [|apply tr_fail]. apply Nat.eqb_eq in Et. subst o.
      apply tr_ret. eapply TopCase; eauto.
Qed.

(* ------------------------------------------------------------------ *)
(* command programs of fragment P                                       *)
(* ------------------------------------------------------------------ *)
Inductive cmdP (n : nat) : cmd -> Prop :=
| cP_inst sc : s_constrs sc = [] -> styg (s_n sc) (s_body sc) -> cmdP n (CInst sc)
| cP_apply f x b : f < n -> x < n -> cmdP n (CApply f x b).

(* n = number of values pushed so far *)
Fixpoint progP (n : nat) (cs : list cmd) : Prop :=
  match cs with
  | [] => True
  | c :: r => cmdP n c /\ progP (S n) r
  end.

Lemma tg_val s vals i : Forall (tg (len s)) vals -> i < length vals -> tg (len s) (val vals i).
Proof. intros F L. rewrite Forall_forall in F. apply F. apply nth_In. exact L. Qed.

Definition step_of_cmd (c : cmd) (n : nat) : list (nat * nat * nat) :=
  match c with CApply f x _ => [(f, x, n)] | _ => [] end.

Lemma run_cmd_good fuel c vals s : J s -> Forall (tg (len s)) vals -> cmdP (length vals) c ->
  tr (run_cmd H fuel c vals) s
     (fun vals' s' => exists t, vals' = vals ++ [t] /\ tg (len s') t /\
        good s (fun th => forall f x r, In (f, x, r) (step_of_cmd c (length vals)) ->
                            StepSem th (val vals f) (val vals x) t) s').
Proof.
  intros I Fv Pc. destruct Pc as [sc Nc Sb|f x b Lf Lx]; cbn [run_cmd].
  - eapply tr_bind; [apply instance_good; auto|]. cbv beta. intros t s1 (I1 & L1 & Tt).
    apply tr_ret. exists t. split; [reflexivity|split; [exact Tt|]].
    apply good_of_lef; auto. intros th _ f x r [].
  - eapply tr_bind; [apply apply_good; auto using tg_val|]. cbv beta. intros t s1 (Tt & G1).
    apply tr_ret. exists t. split; [reflexivity|split; [exact Tt|]].
    eapply good_weaken; [exact G1|]. intros th _ St f' x' r' [[= <- <- <-]|[]]. exact St.
Qed.

Lemma steps_of_cons c cs n : cmdP n c ->
  steps_of (c :: cs) n = step_of_cmd c n ++ steps_of cs (S n).
Proof. intros [sc _ _|f x b _ _]; reflexivity. Qed.

Lemma val_app_l vals ext i : i < length vals -> val (vals ++ ext) i = val vals i.
Proof. intros L. unfold val. apply app_nth1. exact L. Qed.

Lemma val_app_new vals t ext : val (vals ++ t :: ext) (length vals) = t.
Proof. unfold val. rewrite app_nth2 by lia. rewrite Nat.sub_diag. reflexivity. Qed.

Theorem run_cmds_good fuel : forall cs i vals s vals' s', J s -> Forall (tg (len s)) vals ->
  progP (length vals) cs -> run_cmds H fuel cs i vals s = (None, vals', s') ->
  J s' /\ lef s s' /\ Forall (tg (len s')) vals' /\ (exists ext, vals' = vals ++ ext) /\
  forall th, sat th s' -> forall f x r, In (f, x, r) (steps_of cs (length vals)) ->
    StepSem th (val vals' f) (val vals' x) (val vals' r).
Proof.
  induction cs as [|c cs IH]; intros i vals s vals' s' I Fv P R; cbn [run_cmds] in R.
  - inversion R; subst. split; [auto|split; [apply lef_refl|split; [auto|split]]].
    + exists []. rewrite app_nil_r. reflexivity.
    + intros th _ f x r [].
  - destruct P as [Pc Pr].
    pose proof (run_cmd_good fuel c vals s I Fv Pc) as T. unfold tr in T.
    destruct (run_cmd H fuel c vals s) as [vals1 s1|e s1] eqn:Ec; [|discriminate].
    destruct (T vals1 s1 eq_refl) as (t & -> & Tt & G1).
    pose proof G1 as (I1 & L1 & F1 & R1).
    assert (Fv1 : Forall (tg (len s1)) (vals ++ [t])).
    { apply Forall_app. split; [eapply Forall_tg_mono; [apply L1|exact Fv]|constructor; auto]. }
    assert (Pr1 : progP (length (vals ++ [t])) cs) by (rewrite app_length; cbn; rewrite Nat.add_1_r; exact Pr).
    destruct (IH (S i) (vals ++ [t]) s1 vals' s' I1 Fv1 Pr1 R) as (I' & L' & Fv' & (ext & ->) & R').
    split; [auto|split; [eapply lef_trans; [eapply good_lef; eauto|exact L']|split; [auto|split]]].
    + exists ([t] ++ ext). rewrite app_assoc. reflexivity.
    + intros th S' f x r Hin. rewrite steps_of_cons in Hin by exact Pc.
      apply in_app_or in Hin. destruct Hin as [Hin|Hin].
      * pose proof (proj2 (proj1 L') th S') as S1. specialize (R1 th S1 f x r Hin).
        destruct Pc as [sc _ _|f' x' b Lf Lx]; cbn in Hin; [destruct Hin|].
        destruct Hin as [[= <- <- <-]|[]].
        rewrite <- app_assoc. cbn [app]. rewrite !val_app_l by lia. rewrite val_app_new. exact R1.
      * apply R'; [exact S'|]. rewrite app_length. cbn. rewrite Nat.add_1_r. exact Hin.
Qed.

Lemma J_empty sc : J (empty_store sc).
Proof.
  constructor.
  - intros i. unfold cset_of. cbn. destruct i; reflexivity.
  - intros v t. unfold cell_of. cbn. destruct v; discriminate.
  - intros v. unfold cell_of. cbn. split; [|split]; intros; destruct v; discriminate.
Qed.

Theorem core_sound fuel sc prog vals s : progP 0 prog ->
  run_cmds H fuel prog 0 [] (empty_store sc) = (None, vals, s) ->
  forall th, sat th s -> forall f x r, In (f, x, r) (steps_of prog 0) ->
    StepSem th (val vals f) (val vals x) (val vals r).
Proof.
  intros P R. destruct (run_cmds_good fuel prog 0 [] (empty_store sc) vals s (J_empty sc)) as (_ & _ & _ & _ & K);
    auto.
Qed.

Theorem core_final_J fuel sc prog vals s : progP 0 prog ->
  run_cmds H fuel prog 0 [] (empty_store sc) = (None, vals, s) ->
  J s /\ Forall (tg (len s)) vals.
Proof.
  intros P R. destruct (run_cmds_good fuel prog 0 [] (empty_store sc) vals s (J_empty sc)) as (I & _ & F & _);
    auto.
Qed.

(* ------------------------------------------------------------------ *)
(* satisfiability: any assignment of the unbound variables within their *)
(* bounds extends to a satisfying grounding (bindings are acyclic)      *)
(* ------------------------------------------------------------------ *)
Section Extend.
  Variable s : store.
  Variable g : nat -> ty.

  Fixpoint gr (fuel : nat) (t : tyv) : ty :=
    match fuel with
    | 0 => TOp Top []
    | S f =>
        match t with
        | V v => match c_bound (cell_of s v) with Some t' => gr f t' | None => g v end
        | O o args => TOp o (map (gr f) args)
        end
    end.

  (* depth through bindings and operators *)
  Inductive dp : tyv -> nat -> Prop :=
  | dp_unb v n : c_bound (cell_of s v) = None -> dp (V v) (S n)
  | dp_bnd v t n : c_bound (cell_of s v) = Some t -> dp t n -> dp (V v) (S n)
  | dp_op o args n : (forall x, In x args -> dp x n) -> dp (O o args) (S n).

  Lemma dp_mono t n : dp t n -> forall m, n <= m -> dp t m.
  Proof.
    induction 1 as [v n Hv|v t n Hv D IH|o args n D IH]; intros m L;
      (destruct m as [|m]; [lia|]).
    - apply dp_unb; auto.
    - eapply dp_bnd; eauto. apply IH. lia.
    - apply dp_op. intros x Hx. apply IH; auto. lia.
  Qed.

  Lemma wft_dp t : wft s t -> exists n, dp t n.
  Proof.
    induction 1 as [v Hv|v t Hv Wt (n & D)|o args Wa IH].
    - exists 1. apply dp_unb; auto.
    - exists (S n). eapply dp_bnd; eauto.
    - assert (G : exists n, forall x, In x args -> dp x n).
      { clear Wa. induction args as [|a r IHr]; [exists 0; intros x []|].
        destruct (IH a (or_introl eq_refl)) as (na & Da).
        destruct IHr as (nr & Dr); [intros x Hx; apply IH; right; exact Hx|].
        exists (max na nr). intros x [<-|Hx]; eapply dp_mono; eauto; lia. }
      destruct G as (n & D). exists (S n). apply dp_op. exact D.
  Qed.

  Lemma gr_stable t n : dp t n -> forall f, n <= f -> gr f t = gr n t.
  Proof.
    induction 1 as [v n Hv|v t n Hv D IH|o args n D IH]; intros f L;
      (destruct f as [|f]; [lia|]); cbn [gr].
    - rewrite Hv. reflexivity.
    - rewrite Hv. apply IH. lia.
    - f_equal. apply map_ext_in. intros x Hx. apply IH; auto. lia.
  Qed.

  Lemma gr_stable2 t n m : dp t n -> dp t m -> gr n t = gr m t.
  Proof.
    intros Dn Dm. destruct (Nat.le_ge_cases n m) as [L|L].
    - symmetry. apply gr_stable; auto.
    - apply gr_stable; auto.
  Qed.

  Hypothesis Ws : wsc s.
  Hypothesis Is : J s.
  Hypothesis Gok : forall v, c_bound (cell_of s v) = None -> wf_ty H (g v) /\ inb (cell_of s v) (g v).

  Lemma dp_all_vars : exists N, forall v, dp (V v) (S N).
  Proof.
    assert (K : forall k, exists N, forall v, v < k -> dp (V v) (S N)).
    { induction k as [|k (N & IH)]; [exists 0; intros v L; lia|].
      destruct (wft_dp (V k) (sc_wf Ws k)) as (n & D).
      exists (max N n). intros v L. destruct (Nat.eq_dec v k) as [->|Ne].
      - eapply dp_mono; eauto. lia.
      - eapply dp_mono; [apply IH; lia|lia]. }
    destruct (K (len s)) as (N & D). exists N. intros v.
    destruct (Nat.lt_ge_cases v (len s)) as [L|L]; [auto|].
    apply dp_unb. rewrite cell_of_oob by exact L. reflexivity.
  Qed.

  Lemma gr_wf : forall f t n, tg n t -> wf_ty H (gr f t).
  Proof.
    induction f as [|f IH]; intros t n Ht; cbn [gr].
    - apply wf_ty_unfold. rewrite (var_top H W). split; [reflexivity|constructor].
    - destruct t as [v|o args].
      + destruct (c_bound (cell_of s v)) as [t'|] eqn:Hv.
        * eapply IH. eapply J_sc; eauto.
        * apply Gok. exact Hv.
      + destruct (tg_args _ _ _ Ht) as [La Fa]. apply wf_ty_unfold. rewrite map_length.
        split; [exact La|]. rewrite Forall_forall in *. intros x Hx.
        apply in_map_iff in Hx. destruct Hx as (y & <- & Hy). eapply IH; eauto.
  Qed.

  Theorem sat_extend : exists th, sat th s /\ forall v, c_bound (cell_of s v) = None -> th v = g v.
  Proof.
    destruct dp_all_vars as (N & DN).
    set (th := fun v => gr (S N) (V v)).
    assert (A : forall t n, dp t n -> forall f, n <= f -> gr f t = den th t).
    { induction t as [v|o args IH] using tyv_ind'; intros n D f L.
      - cbn [den]. unfold th. rewrite (gr_stable _ _ D f L). apply gr_stable2; auto.
      - inversion D as [| |? ? n' Da]; subst. destruct f as [|f]; [lia|]. cbn [gr den]. f_equal.
        apply map_ext_in. intros x Hx. rewrite Forall_forall in IH. eapply IH; eauto. lia. }
    exists th. split.
    - intros v. split.
      + unfold th. eapply gr_wf. constructor. apply Nat.lt_succ_diag_r.
      + destruct (c_bound (cell_of s v)) as [t|] eqn:Hv.
        * unfold th at 1. cbn [gr]. rewrite Hv.
          pose proof (DN v) as D. inversion D as [|? t' ? Hv' Dt|]; subst; [congruence|].
          rewrite Hv in Hv'. injection Hv' as <-. eapply A; eauto.
        * unfold th. cbn [gr]. rewrite Hv. apply Gok. exact Hv.
    - intros v Hv. unfold th. cbn [gr]. rewrite Hv. reflexivity.
  Qed.
End Extend.

(* the canonical choice: lower bound, else upper bound, else Top *)
Definition canon (s : store) (v : nat) : ty :=
  match c_lower (cell_of s v), c_upper (cell_of s v) with
  | Some l, _ => TOp l []
  | None, Some u => TOp u []
  | None, None => TOp Top []
  end.

Lemma wf_base_ty b : variance H b = [] -> wf_ty H (TOp b []).
Proof. intros V0. apply wf_ty_unfold. rewrite V0. split; [reflexivity|constructor]. Qed.

Lemma canon_ok s : J s -> forall v, wf_ty H (canon s v) /\ inb (cell_of s v) (canon s v).
Proof.
  intros I v. pose proof (J_b s I v) as (Bl & Bu & Bc). unfold canon, inb.
  destruct (c_lower (cell_of s v)) as [l|] eqn:El; [|destruct (c_upper (cell_of s v)) as [u|] eqn:Eu].
  - destruct (Bl l eq_refl) as (Vl & _). split; [apply wf_base_ty; auto|]. split.
    + intros l' [= <-]. exists l. split; [reflexivity|apply ole_refl].
    + intros u Eu. exists l. split; [reflexivity|]. apply Bc; auto.
  - destruct (Bu u eq_refl) as (Vu & _). split; [apply wf_base_ty; auto|]. split.
    + intros l' [=].
    + intros u' [= <-]. exists u. split; [reflexivity|apply ole_refl].
  - split; [apply wf_base_ty; apply (var_top H W)|]. split; intros x [=].
Qed.

Theorem satisfiable s : wsc s -> J s ->
  exists th, sat th s /\ forall v, c_bound (cell_of s v) = None -> th v = canon s v.
Proof.
  intros Ws I. apply (sat_extend s (canon s) Ws I).
  intros v _. apply canon_ok. exact I.
Qed.

(* fragment-P programs are well-scoped in the sense of Infer/Inv.v *)
Lemma styg_wf n t : styg n t -> sty_wf n t.
Proof.
  induction t as [i| |o args IH] using sty_ind'; intros St; inversion St; subst; constructor; auto.
  rewrite Forall_forall in *. auto.
Qed.

Lemma progP_wf : forall cs n, progP n cs -> prog_wf n cs.
Proof.
  induction cs as [|c cs IH]; intros n P; cbn [prog_wf]; [exact Logic.I|].
  destruct P as [Pc Pr]. destruct Pc as [sc Nc Sb|f x b Lf Lx].
  - split; [|apply IH; exact Pr]. cbn [cmd_wf]. split; [apply styg_wf; exact Sb|].
    rewrite Nc. constructor.
  - split; [|apply IH; exact Pr]. cbn [cmd_wf]. auto.
Qed.

Theorem core_satisfiable fuel sc prog vals s : progP 0 prog ->
  run_cmds H fuel prog 0 [] (empty_store sc) = (None, vals, s) ->
  exists th, sat th s /\ forall v, c_bound (cell_of s v) = None -> th v = canon s v.
Proof.
  intros P R. destruct (core_final_J fuel sc prog vals s P R) as (I & _).
  destruct (engine_inv H fuel sc prog (progP_wf _ _ P) R) as (Iv & _).
  apply satisfiable; auto. apply inv_wsc. exact Iv.
Qed.

(* ------------------------------------------------------------------ *)
(* connection with the executable grounding of Infer/Witness.v          *)
(* ------------------------------------------------------------------ *)
Lemma mapM_Some {A B} (f : A -> option B) : forall l ys, mapM f l = Some ys ->
  length ys = length l /\ forall i a, nth_error l i = Some a -> exists y, nth_error ys i = Some y /\ f a = Some y.
Proof.
  induction l as [|a l IH]; intros ys E; cbn [mapM] in E.
  - inversion E; subst. split; [reflexivity|]. intros [|i] a' Hn; discriminate.
  - destruct (f a) as [y|] eqn:Ea; [|discriminate]. destruct (mapM f l) as [ys'|] eqn:El; [|discriminate].
    inversion E; subst. destruct (IH ys' eq_refl) as [L K]. split; [cbn; lia|].
    intros [|i] a' Hn; cbn in *.
    + inversion Hn; subst. eauto.
    + apply K. exact Hn.
Qed.

Lemma mapM_map {A B} (f : A -> option B) (h : A -> B) : forall l ys, mapM f l = Some ys ->
  (forall a y, In a l -> f a = Some y -> y = h a) -> ys = map h l.
Proof.
  induction l as [|a l IH]; intros ys E K; cbn [mapM] in E.
  - inversion E; reflexivity.
  - destruct (f a) as [y|] eqn:Ea; [|discriminate]. destruct (mapM f l) as [ys'|] eqn:El; [|discriminate].
    inversion E; subst. cbn [map]. f_equal.
    + apply K; [left; reflexivity|exact Ea].
    + apply IH; auto. intros a' y' Hin. apply K. right. exact Hin.
Qed.

Lemma ground_den th s thl dflt : core s -> sat th s ->
  (forall v, c_bound (cell_of s v) = None -> th_get thl dflt v = th v) ->
  forall fuel t d, ground fuel s thl dflt t = Some d -> d = den th t.
Proof.
  intros C S Ag. induction fuel as [|f IH]; intros t d E; cbn [ground] in E; [discriminate|].
  pose proof (follow_unbound_core t C) as Nb. pose proof (den_follow th s t S) as Df.
  destruct (follow s t) as [v|o args].
  - inversion E; subst. rewrite <- Df. cbn [den]. apply Ag. exact Nb.
  - destruct (mapM (ground f s thl dflt) args) as [xs|] eqn:Em; [|discriminate].
    inversion E; subst. rewrite <- Df. cbn [den]. f_equal.
    eapply mapM_map; [exact Em|]. intros a y _ Ea. apply IH. exact Ea.
Qed.

(* StepHolds of Witness.v for EVERY list-grounding within the bounds *)
Theorem core_StepHolds fuel sc prog vals s : progP 0 prog ->
  run_cmds H fuel prog 0 [] (empty_store sc) = (None, vals, s) ->
  forall thl dflt,
    (forall v, c_bound (cell_of s v) = None ->
       wf_ty H (th_get thl dflt v) /\ inb (cell_of s v) (th_get thl dflt v)) ->
  forall f x r, In (f, x, r) (steps_of prog 0) ->
  forall fuel' df dx dr,
    ground fuel' s thl dflt (val vals f) = Some df ->
    ground fuel' s thl dflt (val vals x) = Some dx ->
    ground fuel' s thl dflt (val vals r) = Some dr ->
    StepHolds H fuel' s thl dflt (val vals f, val vals x, val vals r).
Proof.
  intros P R thl dflt Gok f x r Hin fuel' df dx dr Ef Ex Er.
  destruct (core_final_J fuel sc prog vals s P R) as (I & _).
  destruct (engine_inv H fuel sc prog (progP_wf _ _ P) R) as (Iv & _).
  destruct (sat_extend s (th_get thl dflt) (inv_wsc Iv) I Gok) as (th & S & Ag).
  assert (Ag' : forall v, c_bound (cell_of s v) = None -> th_get thl dflt v = th v)
    by (intros v Hv; symmetry; auto).
  pose proof (ground_den th s thl dflt (inv_core Iv) S Ag' fuel') as GD.
  pose proof (core_sound fuel sc prog vals s P R th S f x r Hin) as St.
  pose proof (GD _ _ Ef) as Df. pose proof (GD _ _ Ex) as Dx. pose proof (GD _ _ Er) as Dr.
  subst df dx dr. unfold StepHolds.
  destruct St as [(a & b & E1 & E2 & E3)|[E1 E2]].
  - left. exists a, b, (den th (val vals x)). rewrite Ef, Ex, Er, E1, E3. auto.
  - right. rewrite Ef, Er, E1, E2. auto.
Qed.

(* ------------------------------------------------------------------ *)
(* a variable that carries a bound is never resolved to a compound type *)
(* ------------------------------------------------------------------ *)
Theorem core_final fuel sc prog vals s : progP 0 prog ->
  run_cmds H fuel prog 0 [] (empty_store sc) = (None, vals, s) ->
  J s /\ lef (empty_store sc) s /\ Forall (tg (len s)) vals.
Proof.
  intros P R. destruct (run_cmds_good fuel prog 0 [] (empty_store sc) vals s (J_empty sc)) as (I & L & F & _);
    auto.
Qed.

Theorem core_bounded fuel sc prog vals s : progP 0 prog ->
  run_cmds H fuel prog 0 [] (empty_store sc) = (None, vals, s) ->
  forall v t o args, c_bound (cell_of s v) = Some t ->
    (c_lower (cell_of s v) <> None \/ c_upper (cell_of s v) <> None) ->
    follow s t = O o args -> args = [].
Proof.
  intros P R v t o args Hv Hb Ef.
  destruct (core_final fuel sc prog vals s P R) as (I & [_ Fr] & _).
  destruct (core_satisfiable fuel sc prog vals s P R) as (th & S & _).
  assert (B : isbase (th v)).
  { apply (fr_new _ _ Fr v); auto; [|congruence].
    unfold cell_of. cbn. destruct v; reflexivity. }
  destruct (S v) as [_ Sv]. rewrite Hv in Sv.
  rewrite <- (den_follow th s t S), Ef in Sv. cbn [den] in Sv.
  destruct B as (b & Eb). rewrite Eb in Sv. injection Sv as _ Em.
  destruct args; [reflexivity|discriminate].
Qed.

(* the mechanism: bind rejects a compound type for a bounded variable *)
Lemma bind_bounded_compound f v o args s : c_bound (cell_of s v) = None ->
  (c_lower (cell_of s v) <> None \/ c_upper (cell_of s v) <> None) -> basic H o = false ->
  exists s', bind H (S f) v (O o args) s = MEr ETypeMismatch s'.
Proof.
  intros Hv Hb Eb. rewrite bind_S. unfold bindM at 1. unfold gets at 1. cbv beta iota. rewrite Hv.
  unfold set_wild, set_bound, upd_cell, modify, bindM. cbv beta iota. rewrite Eb.
  destruct (c_lower (cell_of s v)) as [l|]; [eexists; reflexivity|].
  destruct (c_upper (cell_of s v)) as [u|]; [eexists; reflexivity|].
  destruct Hb; congruence.
Qed.

(* reading [sat] with the declarative order *)
Lemma sat_Sub th s : J s -> sat th s -> forall v, c_bound (cell_of s v) = None ->
  (forall l, c_lower (cell_of s v) = Some l -> exists b, th v = TOp b [] /\ Sub H (TOp l []) (TOp b [])) /\
  (forall u, c_upper (cell_of s v) = Some u -> exists b, th v = TOp b [] /\ Sub H (TOp b []) (TOp u [])).
Proof.
  intros I S v Hv. destruct (S v) as [Wv Sv]. rewrite Hv in Sv. destruct Sv as [Sl Su].
  pose proof (J_b s I v) as (Bl & Bu & _). split.
  - intros l El. destruct (Sl l El) as (b & E & L). exists b. split; [exact E|].
    apply ole_Sub; auto. apply (Bl l El).
  - intros u Eu. destruct (Su u Eu) as (b & E & L). exists b. split; [exact E|].
    apply ole_Sub; auto. apply wf_base. rewrite <- E. exact Wv.
Qed.

End Sound.

(* ------------------------------------------------------------------ *)
(* the per-operation statements with [tr] and [good] unfolded           *)
(* ------------------------------------------------------------------ *)
Section Explicit.
Variable H : hier.
Hypothesis W : wf_hier H.
Local Notation len s := (length (vars s)).

Theorem unify_sound_x fuel a b s s' :
  J H s -> tg H (len s) a -> tg H (len s) b ->
  unify H fuel true false false a b s = MOk tt s' ->
  J H s' /\ le H s s' /\ fr H s s' /\
  forall th, sat H th s' -> Sub H (den th a) (den th b).
Proof. intros I Ta Tb E. exact (unify_sound H W fuel a b s I Ta Tb tt s' E). Qed.

Theorem bind_sound_x fuel v t s s' :
  J H s -> v < len s -> tg H (len s) t ->
  (forall o args, t = O o args -> basic H o = true -> cmpb H (cell_of s v) o) ->
  bind H fuel v t s = MOk tt s' ->
  J H s' /\ le H s s' /\ fr H s s' /\ forall th, sat H th s' -> th v = den th t.
Proof. intros I Lv Tt C E. exact (bind_sound H W fuel v t s I Lv Tt C tt s' E). Qed.

Theorem above_sound_x fuel v new s s' :
  J H s -> v < len s -> variance H new = [] -> new <> Bottom ->
  above H fuel v new s = MOk tt s' ->
  J H s' /\ le H s s' /\ fr H s s' /\ forall th, sat H th s' -> lbo H new (th v).
Proof. intros I Lv Vn N E. exact (above_sound H W fuel v new s I Lv Vn N tt s' E). Qed.

Theorem below_sound_x fuel v new s s' :
  J H s -> v < len s -> variance H new = [] -> new <> Top ->
  below H fuel v new s = MOk tt s' ->
  J H s' /\ le H s s' /\ fr H s s' /\ forall th, sat H th s' -> ubo H new (th v).
Proof. intros I Lv Vn N E. exact (below_sound H W fuel v new s I Lv Vn N tt s' E). Qed.

Theorem fix_sound_x fuel pl t s r s' :
  J H s -> tg H (len s) t -> fix_ty H fuel pl t s = MOk r s' ->
  tg H (len s') r /\ J H s' /\ le H s s' /\ fr H s s' /\
  forall th, sat H th s' -> den th r = den th t.
Proof. intros I Tt E. exact (fix_sound H W fuel pl t s I Tt r s' E). Qed.

Theorem instance_good_x fuel sc s r s' :
  J H s -> s_constrs sc = [] -> styg H (s_n sc) (s_body sc) ->
  instance H fuel sc s = MOk r s' ->
  J H s' /\ (le H s s' /\ fr H s s') /\ tg H (len s') r.
Proof. intros I Nc Sb E. exact (instance_good H W fuel sc s I Nc Sb r s' E). Qed.

Theorem apply_good_x fuel f x fixb s r s' :
  J H s -> tg H (len s) f -> tg H (len s) x ->
  apply H fuel f x fixb s = MOk r s' ->
  tg H (len s') r /\ J H s' /\ le H s s' /\ fr H s s' /\
  forall th, sat H th s' -> StepSem H th f x r.
Proof. intros I Tf Tx E. exact (apply_good H W fuel f x fixb s I Tf Tx r s' E). Qed.

(* the denotation of a term does not depend on the store: it is the same in
   every store the grounding satisfies (den has no store argument), and it
   commutes with [follow] *)
Theorem den_stable th s s' t :
  sat H th s' -> le H s s' -> sat H th s /\ den th (follow s' t) = den th t /\ den th (follow s t) = den th t.
Proof.
  intros S' [_ M]. pose proof (M th S') as S. split; [exact S|].
  split; apply (den_follow H); assumption.
Qed.
End Explicit.
