(* The engine never reaches an internal assertion.

   A store invariant is preserved by every operation of the faithful engine
   model (Infer/Engine.v), on success and on failure, and under it no
   operation returns [ECrash _].  One induction on fuel over the conjunction
   of the specifications of unify / bind / above / below / check_constraints /
   fulfill / minimize / fix_ty ([specs_all]), then instance, apply, run_cmd,
   run_cmds.

   The invariant has two strengths, selected by a flag so that one induction
   proves both:
     [invb false s] = [core s]: acyclic binding chains (so [follow] ends in an
        unbound variable or an operation: [follow_unbound]), a lower bound is
        never Top and an upper bound never Bottom, constraint ids in constraint
        sets exist, subtype constraints have exactly one target.  This is all
        crash-freedom needs and it holds for every program: [engine_nocrash].
     [invb true s] = [inv s] = core + [wsc s]: every variable index in a
        binding, constraint term or value is in range, every c_cs is in range,
        and the bindings are fully acyclic ([wft], using the soundness of the
        occurs check [occurs_false_nocc]).  Needs a well-scoped program
        ([prog_wf]): [engine_inv].
   [ext s s']: what every step guarantees - nothing is deallocated, constraint
   kinds are fixed, bindings are write-once.
   Last part: fuel bounds for the pure readers (match_f, occurs_f, vars_f). *)
From Coq Require Import List Arith Bool Lia.
Import ListNotations.
From TF Require Import Base.Hier Base.Ty Infer.Store Infer.Engine Infer.Run.

Set Implicit Arguments.

(* ------------------------------------------------------------------ *)
(* list and store primitives                                            *)
(* ------------------------------------------------------------------ *)

Lemma upd_length {A} (x : A) : forall l i, length (upd i x l) = length l.
Proof.
  induction l as [|y l IH]; intros [|i]; cbn; auto.
Qed.

Lemma nth_upd {A} (x d : A) : forall l i j,
  nth j (upd i x l) d = x /\ j = i /\ i < length l \/ nth j (upd i x l) d = nth j l d.
Proof.
  induction l as [|y l IH]; intros i j.
  - right. destruct i; reflexivity.
  - destruct i as [|i]; destruct j as [|j]; cbn.
    + left. repeat split; lia.
    + right. reflexivity.
    + right. reflexivity.
    + destruct (IH i j) as [(E & -> & L)|E].
      * left. repeat split; auto; lia.
      * right. exact E.
Qed.

Lemma nth_upd_same {A} (x d : A) : forall l i, i < length l -> nth i (upd i x l) d = x.
Proof.
  induction l as [|y l IH]; intros [|i] L; cbn in *; try lia; auto.
  apply IH. lia.
Qed.

Lemma nth_upd_other {A} (x d : A) : forall l i j, j <> i -> nth j (upd i x l) d = nth j l d.
Proof.
  induction l as [|y l IH]; intros [|i] [|j] N; cbn; try reflexivity; try lia.
  apply IH. lia.
Qed.

Lemma cell_of_set_cell s v c w :
  cell_of (set_cell s v c) w = c /\ w = v /\ v < length (vars s)
  \/ cell_of (set_cell s v c) w = cell_of s w.
Proof. unfold cell_of, set_cell; cbn. apply nth_upd. Qed.

Lemma cell_of_set_cell_same s v c : v < length (vars s) -> cell_of (set_cell s v c) v = c.
Proof. unfold cell_of, set_cell; cbn. apply nth_upd_same. Qed.

Lemma cell_of_set_cell_other s v c w : w <> v -> cell_of (set_cell s v c) w = cell_of s w.
Proof. unfold cell_of, set_cell; cbn. apply nth_upd_other. Qed.

Lemma cset_of_set_cset s i l j :
  cset_of (set_cset s i l) j = l /\ j = i /\ i < length (csets s)
  \/ cset_of (set_cset s i l) j = cset_of s j.
Proof. unfold cset_of, set_cset; cbn. apply nth_upd. Qed.

Lemma constr_of_set_constr s i k j :
  constr_of (set_constr s i k) j = k /\ j = i /\ i < length (constrs s)
  \/ constr_of (set_constr s i k) j = constr_of s j.
Proof. unfold constr_of, set_constr; cbn. apply nth_upd. Qed.

Lemma constr_of_set_constr_same s i k : i < length (constrs s) -> constr_of (set_constr s i k) i = k.
Proof. unfold constr_of, set_constr; cbn. apply nth_upd_same. Qed.

Lemma cell_of_oob s v : length (vars s) <= v -> cell_of s v = dcell.
Proof. intros L. unfold cell_of. apply nth_overflow. exact L. Qed.

Lemma constr_of_oob s c : length (constrs s) <= c -> constr_of s c = dconstr.
Proof. intros L. unfold constr_of. apply nth_overflow. exact L. Qed.

(* allocation does not change the binding of any index *)
Lemma alloc_var_bound s w v :
  c_bound (cell_of (snd (alloc_var s w)) v) = c_bound (cell_of s v).
Proof.
  unfold alloc_var, cell_of; cbn.
  destruct (Nat.lt_ge_cases v (length (vars s))) as [L|L].
  - rewrite app_nth1 by exact L. reflexivity.
  - rewrite (nth_overflow (vars s)) by exact L.
    rewrite app_nth2 by exact L.
    destruct (v - length (vars s)) as [|[|n]]; reflexivity.
Qed.

Lemma alloc_var_lower s w v :
  c_lower (cell_of (snd (alloc_var s w)) v) = c_lower (cell_of s v).
Proof.
  unfold alloc_var, cell_of; cbn.
  destruct (Nat.lt_ge_cases v (length (vars s))) as [L|L].
  - rewrite app_nth1 by exact L. reflexivity.
  - rewrite (nth_overflow (vars s)) by exact L.
    rewrite app_nth2 by exact L.
    destruct (v - length (vars s)) as [|[|n]]; reflexivity.
Qed.

Lemma alloc_var_upper s w v :
  c_upper (cell_of (snd (alloc_var s w)) v) = c_upper (cell_of s v).
Proof.
  unfold alloc_var, cell_of; cbn.
  destruct (Nat.lt_ge_cases v (length (vars s))) as [L|L].
  - rewrite app_nth1 by exact L. reflexivity.
  - rewrite (nth_overflow (vars s)) by exact L.
    rewrite app_nth2 by exact L.
    destruct (v - length (vars s)) as [|[|n]]; reflexivity.
Qed.

Lemma alloc_var_cset s w i : cset_of (snd (alloc_var s w)) i = cset_of s i.
Proof.
  unfold alloc_var, cset_of; cbn.
  destruct (Nat.lt_ge_cases i (length (csets s))) as [L|L].
  - rewrite app_nth1 by exact L. reflexivity.
  - rewrite (nth_overflow (csets s)) by exact L.
    rewrite app_nth2 by exact L.
    destruct (i - length (csets s)) as [|[|n]]; reflexivity.
Qed.

Lemma alloc_constr_old s k c : c < length (constrs s) ->
  constr_of (snd (alloc_constr s k)) c = constr_of s c.
Proof. intros L. unfold alloc_constr, constr_of; cbn. apply app_nth1. exact L. Qed.

Lemma alloc_constr_new s k : constr_of (snd (alloc_constr s k)) (length (constrs s)) = k.
Proof.
  unfold alloc_constr, constr_of; cbn. rewrite app_nth2 by lia.
  rewrite Nat.sub_diag. reflexivity.
Qed.

Lemma alloc_constr_length s k : length (constrs (snd (alloc_constr s k))) = S (length (constrs s)).
Proof. cbn. rewrite app_length. cbn. lia. Qed.

(* sorted-set operations keep a pointwise property *)
Lemma Forall_ins (P : nat -> Prop) x : forall l, P x -> Forall P l -> Forall P (ins x l).
Proof.
  induction l as [|y l IH]; intros Px Fl; cbn [ins].
  - constructor; auto.
  - destruct (x <? y); [constructor; auto|].
    destruct (x =? y); [exact Fl|].
    inversion Fl; subst. constructor; auto.
Qed.

Lemma Forall_union (P : nat -> Prop) : forall a b, Forall P a -> Forall P b -> Forall P (union a b).
Proof.
  unfold union. induction a as [|x a IH]; intros b Fa Fb; cbn [fold_right]; [exact Fb|].
  inversion Fa; subst. apply Forall_ins; auto.
Qed.

Lemma Forall_remove_nat (P : nat -> Prop) x l : Forall P l -> Forall P (remove_nat x l).
Proof.
  unfold remove_nat. intros F. rewrite Forall_forall in *. intros y Hy.
  apply filter_In in Hy. apply F. tauto.
Qed.

Lemma Forall_remove_nth {A} (P : A -> Prop) : forall l i, Forall P l -> Forall P (remove_nth i l).
Proof.
  induction l as [|y l IH]; intros [|i] F; cbn; auto; inversion F; subst; auto.
Qed.

Lemma Forall_permute (P : nat -> Prop) : forall fuel r l, Forall P l -> Forall P (permute fuel r l).
Proof.
  induction fuel as [|f IH]; intros r l F; cbn [permute]; [exact F|].
  destruct l as [|x l']; [constructor|].
  set (l := x :: l') in *.
  assert (Hn : length l <> 0) by (subst l; cbn; lia).
  assert (Hi : r mod length l < length l) by (apply Nat.mod_upper_bound; exact Hn).
  constructor.
  - rewrite Forall_forall in F. apply F. apply nth_In. exact Hi.
  - apply IH. apply Forall_remove_nth. exact F.
Qed.

(* ------------------------------------------------------------------ *)
(* binding chains                                                       *)
(* ------------------------------------------------------------------ *)

(* [nb s t]: t is "followed" - an operation or an unbound variable *)
Definition nb (s : store) (t : tyv) : Prop :=
  match t with V v => c_bound (cell_of s v) = None | O _ _ => True end.

(* the variable-to-variable binding chain from t is finite; l lists the bound
   variables it passes through *)
Inductive chainl (s : store) : tyv -> list nat -> Prop :=
| cl_unb v : c_bound (cell_of s v) = None -> chainl s (V v) []
| cl_bnd v t l : c_bound (cell_of s v) = Some t -> chainl s t l -> chainl s (V v) (v :: l)
| cl_op o args : chainl s (O o args) [].

Definition chain (s : store) (t : tyv) : Prop := exists l, chainl s t l.

Lemma chainl_det s t l1 : chainl s t l1 -> forall l2, chainl s t l2 -> l1 = l2.
Proof.
  induction 1 as [v Hv|v t l Hv Hc IH|o args]; intros l2 H2; inversion H2; subst; auto; try congruence.
  rewrite Hv in *. match goal with E : Some _ = Some _ |- _ => inversion E; subst end.
  f_equal. auto.
Qed.

Lemma chainl_range s t l : chainl s t l -> Forall (fun v => v < length (vars s)) l.
Proof.
  induction 1 as [v Hv|v t l Hv Hc IH|o args]; constructor; auto.
  destruct (Nat.lt_ge_cases v (length (vars s))) as [L|L]; auto.
  rewrite cell_of_oob in Hv by exact L. discriminate.
Qed.

Lemma chainl_suffix s t l : chainl s t l -> forall w, In w l ->
  exists l', chainl s (V w) l' /\ length l' <= length l.
Proof.
  induction 1 as [v Hv|v t l Hv Hc IH|o args]; intros w Hw; cbn in Hw; try tauto.
  destruct Hw as [->|Hw].
  - exists (w :: l). split; [econstructor; eauto|lia].
  - destruct (IH w Hw) as (l' & C & L). exists l'. split; auto. cbn. lia.
Qed.

Lemma chainl_nodup s t l : chainl s t l -> NoDup l.
Proof.
  induction 1 as [v Hv|v t l Hv Hc IH|o args]; try constructor; auto.
  intros Hin. destruct (chainl_suffix Hc v Hin) as (l' & C & L).
  assert (E : l' = v :: l) by (eapply chainl_det; [exact C|econstructor; eauto]).
  subst l'. cbn in L. lia.
Qed.

Lemma chainl_length s t l : chainl s t l -> length l <= length (vars s).
Proof.
  intros C. rewrite <- (seq_length (length (vars s)) 0).
  apply NoDup_incl_length; [eapply chainl_nodup; eauto|].
  intros x Hx. apply in_seq. pose proof (chainl_range C) as F.
  rewrite Forall_forall in F. specialize (F x Hx). lia.
Qed.

Lemma follow_f_chainl s t l : chainl s t l -> forall fuel, length l <= fuel -> nb s (follow_f fuel s t).
Proof.
  induction 1 as [v Hv|v t l Hv Hc IH|o args]; intros fuel L.
  - destruct fuel; cbn; rewrite Hv; cbn; exact Hv.
  - destruct fuel as [|f]; cbn in L; [lia|]. cbn. rewrite Hv. apply IH. lia.
  - destruct fuel; cbn; exact I.
Qed.

Lemma follow_nb_chain s t : chain s t -> nb s (follow s t).
Proof.
  intros (l & C). unfold follow. eapply follow_f_chainl; eauto.
  pose proof (chainl_length C). lia.
Qed.

Lemma follow_f_of_nb s t : nb s t -> forall fuel, follow_f fuel s t = t.
Proof. intros N fuel. destruct t; destruct fuel; cbn in *; try rewrite N; reflexivity. Qed.

Lemma follow_of_nb s t : nb s t -> follow s t = t.
Proof. intros N. apply follow_f_of_nb. exact N. Qed.

(* chains only depend on the bindings *)
Lemma chainl_bound_eq s s' : (forall v, c_bound (cell_of s' v) = c_bound (cell_of s v)) ->
  forall t l, chainl s t l -> chainl s' t l.
Proof.
  intros E t l C. induction C as [v Hv|v t l Hv Hc IH|o args].
  - constructor. rewrite E. exact Hv.
  - econstructor; eauto. rewrite E. exact Hv.
  - constructor.
Qed.

Lemma chain_bound_eq s s' : (forall v, c_bound (cell_of s' v) = c_bound (cell_of s v)) ->
  forall t, chain s t -> chain s' t.
Proof. intros E t (l & C). exists l. eapply chainl_bound_eq; eauto. Qed.

Lemma nb_bound_eq s s' : (forall v, c_bound (cell_of s' v) = c_bound (cell_of s v)) ->
  forall t, nb s t -> nb s' t.
Proof. intros E [v|o args] N; cbn in *; auto. rewrite E. exact N. Qed.

Lemma follow_f_bound_eq s s' : (forall v, c_bound (cell_of s' v) = c_bound (cell_of s v)) ->
  forall fuel t, follow_f fuel s' t = follow_f fuel s t.
Proof.
  intros E. induction fuel as [|f IH]; intros [v|o args]; cbn; auto; rewrite E; auto.
  destruct (c_bound (cell_of s v)); auto.
Qed.

Lemma chain_vars_eq s s' : vars s' = vars s -> forall v, chain s (V v) -> chain s' (V v).
Proof.
  intros E v. apply chain_bound_eq. intros u. unfold cell_of. rewrite E. reflexivity.
Qed.

(* binding an unbound variable v to a followed term other than itself keeps
   every chain finite *)
Lemma chain_set_bound s v c' t :
  c_bound (cell_of s v) = None -> c_bound c' = Some t -> nb s t -> t <> V v ->
  forall x, chain s x -> chain (set_cell s v c') x.
Proof.
  intros Hv Hc' Nt Ne x (l & C).
  assert (Ct : chain (set_cell s v c') t).
  { destruct t as [w|o args]; [|exists []; constructor].
    exists []. constructor. rewrite cell_of_set_cell_other by congruence. exact Nt. }
  induction C as [u Hu|u t' l Hu Hc IH|o args].
  - destruct (cell_of_set_cell s v c' u) as [(E & -> & L)|E].
    + destruct Ct as (lt & Ct). exists (v :: lt). econstructor; eauto. rewrite E. exact Hc'.
    + exists []. constructor. rewrite E. exact Hu.
  - destruct (cell_of_set_cell s v c' u) as [(E & -> & L)|E]; [congruence|].
    destruct IH as (l' & C'). exists (u :: l'). econstructor; eauto. rewrite E. exact Hu.
  - exists []. constructor.
Qed.

(* ------------------------------------------------------------------ *)
(* full acyclicity: every term is well-founded for the relation        *)
(* [occurs in the binding of]; this is the accessibility form of: there *)
(* is a rank under which every variable occurring in the binding of v   *)
(* has smaller rank than v                                              *)
(* ------------------------------------------------------------------ *)
Inductive wft (s : store) : tyv -> Prop :=
| wft_unb v : c_bound (cell_of s v) = None -> wft s (V v)
| wft_bnd v t : c_bound (cell_of s v) = Some t -> wft s t -> wft s (V v)
| wft_op o args : (forall x, In x args -> wft s x) -> wft s (O o args).

(* v does not occur in t, looking through bindings *)
Inductive nocc (s : store) (v : nat) : tyv -> Prop :=
| nocc_unb w : w <> v -> c_bound (cell_of s w) = None -> nocc s v (V w)
| nocc_bnd w t : w <> v -> c_bound (cell_of s w) = Some t -> nocc s v t -> nocc s v (V w)
| nocc_op o args : (forall x, In x args -> nocc s v x) -> nocc s v (O o args).

Lemma wft_bound_eq s s' : (forall v, c_bound (cell_of s' v) = c_bound (cell_of s v)) ->
  forall t, wft s t -> wft s' t.
Proof.
  intros E t W. induction W as [v Hv|v t Hv W IH|o args W IH].
  - apply wft_unb. rewrite E. exact Hv.
  - eapply wft_bnd; eauto. rewrite E. exact Hv.
  - apply wft_op. exact IH.
Qed.

Lemma nocc_bound_eq s s' v : (forall w, c_bound (cell_of s' w) = c_bound (cell_of s w)) ->
  forall t, nocc s v t -> nocc s' v t.
Proof.
  intros E t W. induction W as [w Nw Hw|w t Nw Hw W IH|o args W IH].
  - apply nocc_unb; auto. rewrite E. exact Hw.
  - eapply nocc_bnd; eauto. rewrite E. exact Hw.
  - apply nocc_op. exact IH.
Qed.

Lemma nocc_wft s v t : nocc s v t -> wft s t.
Proof.
  induction 1 as [w Nw Hw|w t Nw Hw W IH|o args W IH].
  - apply wft_unb; auto.
  - eapply wft_bnd; eauto.
  - apply wft_op; auto.
Qed.

(* binding an unbound v to a term in which v does not occur keeps everything
   well-founded *)
Lemma wft_set_bound s v c' t :
  c_bound (cell_of s v) = None -> c_bound c' = Some t -> nocc s v t ->
  forall x, wft s x -> wft (set_cell s v c') x.
Proof.
  intros Hv Hc' Nt.
  assert (A : forall x, nocc s v x -> wft (set_cell s v c') x).
  { intros x W. induction W as [w Nw Hw|w t' Nw Hw W IH|o args W IH].
    - apply wft_unb. rewrite cell_of_set_cell_other by exact Nw. exact Hw.
    - eapply wft_bnd; eauto. rewrite cell_of_set_cell_other by exact Nw. exact Hw.
    - apply wft_op. exact IH. }
  intros x W. induction W as [u Hu|u t' Hu W IH|o args W IH].
  - destruct (cell_of_set_cell s v c' u) as [(E & -> & L)|E].
    + eapply wft_bnd; [rewrite E; exact Hc'|apply A; exact Nt].
    + apply wft_unb. rewrite E. exact Hu.
  - destruct (cell_of_set_cell s v c' u) as [(E & -> & L)|E]; [congruence|].
    eapply wft_bnd; eauto. rewrite E. exact Hu.
  - apply wft_op. exact IH.
Qed.

Lemma nocc_follow_f s v : c_bound (cell_of s v) = None ->
  forall fuel t, nocc s v (follow_f fuel s t) -> nocc s v t.
Proof.
  intros Hv. induction fuel as [|f IH]; intros [w|o args]; cbn; auto.
  - destruct (c_bound (cell_of s w)); auto.
  - destruct (c_bound (cell_of s w)) as [t'|] eqn:Hw; auto.
    intros N. eapply nocc_bnd; eauto. congruence.
Qed.

(* ------------------------------------------------------------------ *)
(* the invariant                                                        *)
(* ------------------------------------------------------------------ *)

(* The part of the invariant that crash-freedom needs.  It holds of every
   reachable store, whatever the program (even ill-scoped ones). *)
Record core (s : store) : Prop := mkCore {
  (* (b, chains) binding chains are acyclic: following terminates *)
  core_chain : forall v, chain s (V v);
  (* (c) a lower bound is never Top, an upper bound never Bottom *)
  core_lo : forall v, c_lower (cell_of s v) <> Some Top;
  core_up : forall v, c_upper (cell_of s v) <> Some Bottom;
  (* (a, constraint ids) every constraint id in a constraint set exists *)
  core_cs : forall i c, In c (cset_of s i) -> c < length (constrs s);
  (* (d) subtype constraints have exactly one target *)
  core_ar : forall c, c < length (constrs s) -> k_elim (constr_of s c) = false ->
                      length (k_alts (constr_of s c)) = 1
}.

(* what every engine step guarantees about the store it leaves behind:
   nothing is deallocated, no constraint changes its kind, and a binding,
   once made, is never changed (bindings are write-once) *)
Record ext (s s' : store) : Prop := mkExt {
  ext_vars : length (vars s) <= length (vars s');
  ext_csets : length (csets s) <= length (csets s');
  ext_constrs : length (constrs s) <= length (constrs s');
  ext_elim : forall c, c < length (constrs s) -> k_elim (constr_of s' c) = k_elim (constr_of s c);
  ext_bound : forall v t, c_bound (cell_of s v) = Some t -> c_bound (cell_of s' v) = Some t
}.

Lemma ext_refl s : ext s s.
Proof. constructor; auto. Qed.

Lemma ext_trans s1 s2 s3 : ext s1 s2 -> ext s2 s3 -> ext s1 s3.
Proof.
  intros [a b c d e] [a' b' c' d' e']. constructor; try lia; auto.
  intros k L. rewrite d' by lia. apply d. exact L.
Qed.

Lemma core_empty sc : core (empty_store sc).
Proof.
  constructor; unfold cell_of, cset_of, constr_of; cbn; intros.
  - exists []. constructor. unfold cell_of; cbn. destruct v; reflexivity.
  - destruct v; cbn; discriminate.
  - destruct v; cbn; discriminate.
  - destruct i; cbn in *; tauto.
  - lia.
Qed.

Lemma core_set_cell s v c' :
  core s -> c_lower c' <> Some Top -> c_upper c' <> Some Bottom ->
  (c_bound c' = c_bound (cell_of s v) \/
   c_bound (cell_of s v) = None /\ exists t, c_bound c' = Some t /\ nb s t /\ t <> V v) ->
  core (set_cell s v c').
Proof.
  intros I Hl Hu Hb. constructor.
  - intros w. destruct Hb as [Hb|(Hv & t & Hc & Nt & Ne)].
    + eapply chain_bound_eq; [|apply (core_chain I)].
      intros u. destruct (cell_of_set_cell s v c' u) as [(E & -> & L)|E]; rewrite E; auto.
    + eapply chain_set_bound; eauto. apply (core_chain I).
  - intros w. destruct (cell_of_set_cell s v c' w) as [(E & -> & L)|E]; rewrite E; auto.
    apply (core_lo I).
  - intros w. destruct (cell_of_set_cell s v c' w) as [(E & -> & L)|E]; rewrite E; auto.
    apply (core_up I).
  - exact (core_cs I).
  - exact (core_ar I).
Qed.

Lemma ext_set_cell s v c' :
  (forall t, c_bound (cell_of s v) = Some t -> c_bound c' = Some t) -> ext s (set_cell s v c').
Proof.
  intros Hb. constructor; cbn [vars csets constrs set_cell]; auto.
  - rewrite upd_length. auto.
  - intros w t Hw. destruct (cell_of_set_cell s v c' w) as [(E & -> & L)|E]; rewrite E; auto.
Qed.

Lemma core_set_cset s i l :
  core s -> Forall (fun c => c < length (constrs s)) l -> core (set_cset s i l).
Proof.
  intros I F. constructor.
  - intros v. eapply chain_vars_eq; [|apply (core_chain I)]. reflexivity.
  - exact (core_lo I).
  - exact (core_up I).
  - intros j c Hc. change (length (constrs (set_cset s i l))) with (length (constrs s)).
    destruct (cset_of_set_cset s i l j) as [(E & -> & L)|E]; rewrite E in Hc.
    + rewrite Forall_forall in F. auto.
    + eapply (core_cs I); eauto.
  - exact (core_ar I).
Qed.

Lemma ext_set_cset s i l : ext s (set_cset s i l).
Proof. constructor; cbn [vars csets constrs set_cset]; auto. rewrite upd_length. auto. Qed.

Lemma core_set_constr s i k :
  core s -> (k_elim k = false -> length (k_alts k) = 1) -> core (set_constr s i k).
Proof.
  intros I A. constructor.
  - intros v. eapply chain_vars_eq; [|apply (core_chain I)]. reflexivity.
  - exact (core_lo I).
  - exact (core_up I).
  - intros j c Hc. cbn. rewrite upd_length. eapply (core_cs I); eauto.
  - intros c. cbn [constrs set_constr]. rewrite upd_length. intros L.
    destruct (constr_of_set_constr s i k c) as [(E & -> & L')|E]; rewrite E; auto.
    apply (core_ar I). exact L.
Qed.

Lemma ext_set_constr s i k :
  (i < length (constrs s) -> k_elim k = k_elim (constr_of s i)) -> ext s (set_constr s i k).
Proof.
  intros A. constructor; cbn [vars csets constrs set_constr]; auto.
  - rewrite upd_length. auto.
  - intros c L. destruct (constr_of_set_constr s i k c) as [(E & -> & L')|E]; rewrite E; auto.
Qed.

Lemma core_alloc_var s w : core s -> core (snd (alloc_var s w)).
Proof.
  intros I. constructor.
  - intros v. eapply chain_bound_eq; [|apply (core_chain I)]. intros u. apply alloc_var_bound.
  - intros v. rewrite alloc_var_lower. apply (core_lo I).
  - intros v. rewrite alloc_var_upper. apply (core_up I).
  - intros i c. rewrite alloc_var_cset. apply (core_cs I).
  - exact (core_ar I).
Qed.

Lemma ext_alloc_var s w : ext s (snd (alloc_var s w)).
Proof.
  constructor; auto.
  - cbn. rewrite app_length; lia.
  - cbn. rewrite app_length; lia.
  - intros v t. rewrite alloc_var_bound. auto.
Qed.

Lemma core_alloc_constr s k :
  core s -> (k_elim k = false -> length (k_alts k) = 1) -> core (snd (alloc_constr s k)).
Proof.
  intros I A. constructor.
  - intros v. eapply chain_vars_eq; [|apply (core_chain I)]. reflexivity.
  - exact (core_lo I).
  - exact (core_up I).
  - intros i c Hc. rewrite alloc_constr_length.
    pose proof (core_cs I i c Hc). lia.
  - intros c. rewrite alloc_constr_length. intros L.
    destruct (Nat.eq_dec c (length (constrs s))) as [->|N].
    + rewrite alloc_constr_new. exact A.
    + rewrite alloc_constr_old by lia. apply (core_ar I). lia.
Qed.

Lemma ext_alloc_constr s k : ext s (snd (alloc_constr s k)).
Proof.
  constructor; auto.
  - rewrite alloc_constr_length. lia.
  - intros c L. rewrite alloc_constr_old by exact L. reflexivity.
Qed.

Lemma core_sched s r : core s -> core (mkStore (vars s) (csets s) (constrs s) r).
Proof. intros [a b c d e]. constructor; auto. intros v. eapply chain_bound_eq; [|apply a]. reflexivity. Qed.

Lemma ext_sched s r : ext s (mkStore (vars s) (csets s) (constrs s) r).
Proof. constructor; auto. Qed.

Lemma follow_unbound_core s t : core s -> nb s (follow s t).
Proof.
  intros I. destruct t as [v|o args]; [|exact Logic.I].
  apply follow_nb_chain. apply core_chain. exact I.
Qed.

(* ---- well-scopedness (a): every variable index mentioned anywhere exists ---- *)
Inductive tsc (n : nat) : tyv -> Prop :=
| tsc_V v : v < n -> tsc n (V v)
| tsc_O o args : Forall (tsc n) args -> tsc n (O o args).

Lemma tsc_mono n m : n <= m -> forall t, tsc n t -> tsc m t.
Proof.
  intros L. induction t as [v|o args IH] using tyv_ind'; intros Ht; inversion Ht; subst.
  - constructor. lia.
  - constructor. rewrite Forall_forall in *. auto.
Qed.

Lemma tsc_args n o args : tsc n (O o args) -> Forall (tsc n) args.
Proof. intros Ht; inversion Ht; auto. Qed.

Lemma tsc_var n v : tsc n (V v) -> v < n.
Proof. intros Ht; inversion Ht; auto. Qed.

Record wsc (s : store) : Prop := mkWsc {
  sc_bound : forall v t, c_bound (cell_of s v) = Some t -> tsc (length (vars s)) t;
  sc_constr : forall c, c < length (constrs s) ->
                        Forall (tsc (length (vars s))) (constr_terms (constr_of s c));
  sc_cs : forall v, v < length (vars s) -> c_cs (cell_of s v) < length (csets s);
  (* (b) full acyclicity of the bindings *)
  sc_wf : forall v, wft s (V v)
}.

Lemma wsc_empty sc : wsc (empty_store sc).
Proof.
  constructor; cbn; intros; try lia.
  - unfold cell_of in *; cbn in *. destruct v; discriminate.
  - apply wft_unb. unfold cell_of; cbn. destruct v; reflexivity.
Qed.

Lemma follow_f_tsc s : wsc s -> forall fuel t, tsc (length (vars s)) t -> tsc (length (vars s)) (follow_f fuel s t).
Proof.
  intros W. induction fuel as [|f IH]; intros [v|o args] Ht; cbn; auto.
  - destruct (c_bound (cell_of s v)); auto.
  - destruct (c_bound (cell_of s v)) eqn:Eb; auto. apply IH. eapply sc_bound; eauto.
Qed.

Lemma wsc_set_cell s v c' :
  wsc s -> (forall t, c_bound c' = Some t -> tsc (length (vars s)) t) ->
  (v < length (vars s) -> c_cs c' < length (csets s)) ->
  (c_bound c' = c_bound (cell_of s v) \/
   c_bound (cell_of s v) = None /\ exists t, c_bound c' = Some t /\ nocc s v t) ->
  wsc (set_cell s v c').
Proof.
  intros W Hb Hc Hn. constructor; cbn [vars csets constrs set_cell]; rewrite ?upd_length.
  4:{ intros w. destruct Hn as [Hn|(Hv & t & Ht & Nt)].
      - eapply wft_bound_eq; [|apply (sc_wf W)].
        intros u. destruct (cell_of_set_cell s v c' u) as [(E & -> & L)|E]; rewrite E; auto.
      - eapply wft_set_bound; eauto. apply (sc_wf W). }
  - intros w t. destruct (cell_of_set_cell s v c' w) as [(E & -> & L)|E]; rewrite E; auto.
    apply (sc_bound W).
  - exact (sc_constr W).
  - intros w Lw. destruct (cell_of_set_cell s v c' w) as [(E & -> & L)|E]; rewrite E; auto.
    apply (sc_cs W). exact Lw.
Qed.

Lemma wsc_set_cset s i l : wsc s -> wsc (set_cset s i l).
Proof.
  intros W. constructor; cbn [vars csets constrs set_cset]; rewrite ?upd_length.
  - exact (sc_bound W).
  - exact (sc_constr W).
  - exact (sc_cs W).
  - intros v. eapply wft_bound_eq; [|apply (sc_wf W)]. reflexivity.
Qed.

Lemma wsc_set_constr s i k :
  wsc s -> Forall (tsc (length (vars s))) (constr_terms k) -> wsc (set_constr s i k).
Proof.
  intros W Hk. constructor; cbn [vars csets constrs set_constr]; rewrite ?upd_length.
  - exact (sc_bound W).
  - intros c L. destruct (constr_of_set_constr s i k c) as [(E & -> & L')|E]; rewrite E; auto.
    apply (sc_constr W). exact L.
  - exact (sc_cs W).
  - intros v. eapply wft_bound_eq; [|apply (sc_wf W)]. reflexivity.
Qed.

Lemma alloc_var_cs_old s w v : v < length (vars s) ->
  c_cs (cell_of (snd (alloc_var s w)) v) = c_cs (cell_of s v).
Proof. intros L. unfold alloc_var, cell_of; cbn. rewrite app_nth1 by exact L. reflexivity. Qed.

Lemma alloc_var_cs_new s w :
  c_cs (cell_of (snd (alloc_var s w)) (length (vars s))) = length (csets s).
Proof.
  unfold alloc_var, cell_of; cbn. rewrite app_nth2 by lia. rewrite Nat.sub_diag. reflexivity.
Qed.

Lemma alloc_var_length s w : length (vars (snd (alloc_var s w))) = S (length (vars s)).
Proof. cbn. rewrite app_length. cbn. lia. Qed.

Lemma alloc_var_cslength s w : length (csets (snd (alloc_var s w))) = S (length (csets s)).
Proof. cbn. rewrite app_length. cbn. lia. Qed.

Lemma wsc_alloc_var s w : wsc s -> wsc (snd (alloc_var s w)).
Proof.
  intros W. constructor; rewrite ?alloc_var_length, ?alloc_var_cslength.
  - intros v t. rewrite alloc_var_bound. intros Hb.
    eapply tsc_mono; [|eapply (sc_bound W); eauto]. lia.
  - intros c L. change (constr_of (snd (alloc_var s w)) c) with (constr_of s c).
    eapply Forall_impl; [|apply (sc_constr W); exact L]. intros t. apply tsc_mono. lia.
  - intros v L. destruct (Nat.eq_dec v (length (vars s))) as [->|N].
    + rewrite alloc_var_cs_new. lia.
    + rewrite alloc_var_cs_old by lia. pose proof (sc_cs W (v := v)). lia.
  - intros v. eapply wft_bound_eq; [|apply (sc_wf W)]. intros u. apply alloc_var_bound.
Qed.

Lemma wsc_alloc_constr s k :
  wsc s -> Forall (tsc (length (vars s))) (constr_terms k) -> wsc (snd (alloc_constr s k)).
Proof.
  intros W Hk. constructor.
  - exact (sc_bound W).
  - intros c. rewrite alloc_constr_length. intros L.
    change (length (vars (snd (alloc_constr s k)))) with (length (vars s)).
    destruct (Nat.eq_dec c (length (constrs s))) as [->|N].
    + rewrite alloc_constr_new. exact Hk.
    + rewrite alloc_constr_old by lia. apply (sc_constr W). lia.
  - exact (sc_cs W).
  - intros v. eapply wft_bound_eq; [|apply (sc_wf W)]. reflexivity.
Qed.

Lemma wsc_sched s r : wsc s -> wsc (mkStore (vars s) (csets s) (constrs s) r).
Proof.
  intros [a b c d]. constructor; auto. intros v. eapply wft_bound_eq; [|apply d]. reflexivity.
Qed.

(* ---- the invariant, with the scoping part switched by a flag: [invb false]
   is what every run satisfies; [invb true] needs a well-scoped program ---- *)
Definition invb (b : bool) (s : store) : Prop := core s /\ (b = true -> wsc s).

(* ------------------------------------------------------------------ *)
(* the pure readers only fail by running out of fuel                    *)
(* ------------------------------------------------------------------ *)
Section WithH.
Variable H : hier.

Lemma match_f_err : forall fuel s sub aw a b e, match_f H fuel s sub aw a b = Er e -> e = EFuel.
Proof.
  induction fuel as [|f IH]; intros s sub aw a b e; cbn [match_f]; [congruence|].
  destruct (follow s a) as [va|oa xs]; destruct (follow s b) as [vb|ob ys].
  - repeat match goal with |- context[if ?c then _ else _] => destruct c end; try discriminate.
    destruct (c_lower (cell_of s va)); try discriminate.
    destruct (c_upper (cell_of s vb)); try discriminate.
    destruct (osub H true n0 n); discriminate.
  - repeat match goal with |- context[if ?c then _ else _] => destruct c end; discriminate.
  - repeat match goal with |- context[if ?c then _ else _] => destruct c end; discriminate.
  - repeat match goal with |- context[if ?c then _ else _] => destruct c end; try discriminate.
    generalize (Some true). generalize (variance H oa) as vs. revert xs ys.
    induction xs as [|x xs IHx]; intros ys vs acc; destruct vs as [|v vs]; try discriminate;
      destruct ys as [|y ys]; try discriminate.
    destruct v.
    + destruct (match_f H f s sub aw x y) as [[[|]|]|e'] eqn:E; try discriminate; try apply IHx.
      intros X; inversion X; subst. eapply IH; eauto.
    + destruct (match_f H f s sub aw y x) as [[[|]|]|e'] eqn:E; try discriminate; try apply IHx.
      intros X; inversion X; subst. eapply IH; eauto.
Qed.

Lemma occurs_f_err : forall fuel s a b e, occurs_f H fuel s a b = Er e -> e = EFuel.
Proof.
  induction fuel as [|f IH]; intros s a b e; cbn [occurs_f]; [congruence|].
  destruct (match_f H f s false false (follow s a) (follow s b)) as [r|e'] eqn:E.
  2:{ intros X; inversion X; subst. eapply match_f_err; eauto. }
  assert (G : match follow s a with
       | V _ => Ok false
       | O _ args =>
           (fix go (l : list tyv) : res bool :=
              match l with
              | [] => Ok false
              | t :: r0 =>
                  match occurs_f H f s t (follow s b) with
                  | Ok true => Ok true
                  | Ok false => go r0
                  | Er e0 => Er e0
                  end
              end) args
       end = Er e -> e = EFuel).
  { clear E. destruct (follow s a) as [va|oa xs]; [discriminate|].
    induction xs as [|x xs IHx]; [discriminate|].
    destruct (occurs_f H f s x (follow s b)) as [[|]|e'] eqn:E'; try discriminate; auto.
    intros X; inversion X; subst. eapply IH; eauto. }
  destruct r as [[|]|]; auto; discriminate.
Qed.

Lemma vars_f_err : forall fuel s t acc e, vars_f fuel s t acc = Er e -> e = EFuel.
Proof.
  induction fuel as [|f IH]; intros s t acc e; cbn [vars_f]; [congruence|].
  destruct (follow s t) as [v|o args]; [discriminate|].
  revert acc. induction args as [|x xs IHx]; intros acc; [discriminate|].
  destruct (vars_f f s x acc) as [acc'|e'] eqn:E.
  - apply IHx.
  - intros X; inversion X; subst. eapply IH; eauto.
Qed.

Lemma closure_f_err : forall fuel s todo seen e, closure_f fuel s todo seen = Er e -> e = EFuel.
Proof.
  induction fuel as [|f IH]; intros s todo seen e; [cbn; congruence|].
  cbn [closure_f]. destruct todo as [|t rest]; [discriminate|].
  destruct (vars_f (S f) s t []) as [vs|e'] eqn:E.
  - apply IH.
  - intros X; inversion X; subst. eapply vars_f_err; eauto.
Qed.

(* the variables they report are unbound *)
Lemma vars_f_unbound : forall fuel s t acc r, core s ->
  Forall (fun v => c_bound (cell_of s v) = None) acc ->
  vars_f fuel s t acc = Ok r -> Forall (fun v => c_bound (cell_of s v) = None) r.
Proof.
  induction fuel as [|f IH]; intros s t acc r I F; cbn [vars_f]; [discriminate|].
  pose proof (follow_unbound_core t I) as N.
  destruct (follow s t) as [v|o args].
  - intros X; inversion X; subst. apply Forall_ins; auto.
  - clear N. revert acc F. induction args as [|x xs IHx]; intros acc F.
    + intros X; inversion X; subst; auto.
    + destruct (vars_f f s x acc) as [acc'|e'] eqn:E; [|discriminate].
      apply IHx. eapply IH; eauto.
Qed.

Lemma closure_f_unbound : forall fuel s todo seen r, core s ->
  Forall (fun v => c_bound (cell_of s v) = None) seen ->
  closure_f fuel s todo seen = Ok r -> Forall (fun v => c_bound (cell_of s v) = None) r.
Proof.
  induction fuel as [|f IH]; intros s todo seen r I F; [cbn; discriminate|].
  cbn [closure_f]. destruct todo as [|t rest]; [intros X; inversion X; subst; auto|].
  destruct (vars_f (S f) s t []) as [vs|e'] eqn:E; [|discriminate].
  apply IH; auto. apply Forall_union; auto.
  apply vars_f_unbound in E; auto.
  rewrite Forall_forall in *. intros x Hx. apply filter_In in Hx. apply E. tauto.
Qed.

(* a negative occurs check really means: the variable does not occur *)
Lemma match_f_var_same : forall fuel s sub aw v,
  c_bound (cell_of s v) = None -> fuel <> 0 ->
  match_f H fuel s sub aw (V v) (V v) = Ok (Some true).
Proof.
  intros [|f] s sub aw v Hv Hf; [congruence|]. cbn [match_f].
  rewrite (follow_of_nb s (V v)) by exact Hv. rewrite Nat.eqb_refl. reflexivity.
Qed.

Lemma occurs_false_nocc : forall fuel s a v, core s -> c_bound (cell_of s v) = None ->
  occurs_f H fuel s a (V v) = Ok false -> nocc s v a.
Proof.
  induction fuel as [|f IH]; intros s a v I Hv; cbn [occurs_f]; [discriminate|].
  rewrite (follow_of_nb s (V v)) by exact Hv.
  pose proof (follow_unbound_core a I) as Na.
  intros Hoc. apply (nocc_follow_f Hv (S (length (vars s)))). fold (follow s a).
  destruct (follow s a) as [w|o args].
  - cbn in Na. apply nocc_unb; auto. intros ->.
    destruct f as [|f']; [cbn in Hoc; discriminate|].
    rewrite match_f_var_same in Hoc by (auto; discriminate). discriminate.
  - apply nocc_op.
    assert (G : (fix go (l : list tyv) : res bool :=
                   match l with
                   | [] => Ok false
                   | t :: r => match occurs_f H f s t (V v) with
                               | Er e => Er e
                               | Ok true => Ok true
                               | Ok false => go r
                               end
                   end) args = Ok false).
    { destruct (match_f H f s false false (O o args) (V v)) as [[[|]|]|]; auto; discriminate. }
    clear Hoc Na. induction args as [|t r IHr]; intros x Hx; [destruct Hx|].
    destruct (occurs_f H f s t (V v)) as [[|]|] eqn:Et; try discriminate.
    destruct Hx as [<-|Hx]; [apply IH; auto|apply IHr; auto].
Qed.
End WithH.

(* ------------------------------------------------------------------ *)
(* one-level unfoldings of the mutual fixpoint (bodies copied verbatim  *)
(* from Infer/Engine.v; each is proved by reflexivity)                  *)
(* ------------------------------------------------------------------ *)
Section Specs.
Variable H : hier.
Local Notation unify := (Engine.unify H) (only parsing).
Local Notation bind := (Engine.bind H) (only parsing).
Local Notation above := (Engine.above H) (only parsing).
Local Notation below := (Engine.below H) (only parsing).
Local Notation check_constraints := (Engine.check_constraints H) (only parsing).
Local Notation fulfill := (Engine.fulfill H) (only parsing).
Local Notation minimize := (Engine.minimize H) (only parsing).
Local Notation fix_ty := (Engine.fix_ty H) (only parsing).
Local Notation basic := (Engine.basic H) (only parsing).
Local Notation osub := (Engine.osub H) (only parsing).
Local Notation match_f := (Engine.match_f H) (only parsing).
Local Notation occurs_f := (Engine.occurs_f H) (only parsing).

Lemma unify_S (f : nat) (sub skb skw : bool) (a0 b0 : tyv) :
  unify (S f) sub skb skw a0 b0 =
  (
        a <- gets (fun s => follow s a0) ;;
        b <- gets (fun s => follow s b0) ;;
        match a, b with
        | V va, V vb =>
            wa <- gets (fun s => c_wild (cell_of s va)) ;;
            wb <- gets (fun s => c_wild (cell_of s vb)) ;;
            if negb skw || negb (wa && wb) then bind f va b else ret tt
        | O oa xs, O ob ys =>
            if Nat.eqb oa Bottom || Nat.eqb ob Top then ret tt
            else if basic oa then
              if skb then ret tt
              else if sub && negb (osub false oa ob) then fail ESubtypeMismatch
              else if negb sub && negb (Nat.eqb oa ob) then fail ETypeMismatch
              else ret tt
            else if Nat.eqb oa ob then
              (fix go (vs : list bool) (xs ys : list tyv) : M unit :=
                 match vs, xs, ys with
                 | v :: vs', x :: xs', y :: ys' =>
                     (if v then unify f sub skb skw x y else unify f sub skb skw y x) ;;;
                     go vs' xs' ys'
                 | _, _, _ => ret tt
                 end) (variance H oa) xs ys
            else fail ETypeMismatch
        | V va, O ob ys =>
            if Nat.eqb ob Top then ret tt
            else
              oc <- lift (fun s => occurs_f f s b a) ;;
              if oc then fail ERecursive
              else if basic ob then
                wa <- gets (fun s => c_wild (cell_of s va)) ;;
                if skb || (skw && wa) then ret tt
                else if sub then below f va ob
                else bind f va b
              else if skw || skb then
                fr <- fresh_list (length ys) ;;
                bind f va (O ob fr) ;;;
                unify f sub skb skw a b
              else bind f va b
        | O oa xs, V vb =>
            if Nat.eqb oa Bottom then ret tt
            else
              oc <- lift (fun s => occurs_f f s a b) ;;
              if oc then fail ERecursive
              else if basic oa then
                wb <- gets (fun s => c_wild (cell_of s vb)) ;;
                if skb || (skw && wb) then ret tt
                else if sub then above f vb oa
                else bind f vb a
              else if skw || skb then
                fr <- fresh_list (length xs) ;;
                bind f vb (O oa fr) ;;;
                unify f sub skb skw b b          (* sic: line 627 unifies b with itself *)
              else bind f vb a
        end
  ).
Proof. reflexivity. Qed.

Lemma unify_0 (sub skb skw : bool) (a0 b0 : tyv) : unify 0 sub skb skw a0 b0 = fail EFuel.
Proof. reflexivity. Qed.

Lemma bind_S (f : nat) (v : nat) (t : tyv) :
  bind (S f) v t =
  (
        c <- gets (fun s => cell_of s v) ;;
        match c_bound c with
        | Some _ => fail (ECrash site_bind_twice)
        | None =>
            set_wild v false ;;;
            match t with
            | V w =>
                if Nat.eqb v w then ret tt
                else
                  set_bound v (Some t) ;;;
                  (* t._constraints.update(self._constraints); self._constraints = t._constraints *)
                  modify (fun s =>
                    let iv := c_cs (cell_of s v) in
                    let iw := c_cs (cell_of s w) in
                    set_cset s iw (union (cset_of s iv) (cset_of s iw))) ;;;
                  iw <- gets (fun s => c_cs (cell_of s w)) ;;
                  set_cs v iw ;;;
                  set_wild w false ;;;
                  (match c_lower c with Some l => above f w l | None => ret tt end) ;;;
                  (match c_upper c with Some u => below f w u | None => ret tt end) ;;;
                  check_constraints f v
            | O o args =>
                set_bound v (Some t) ;;;
                (if basic o then
                   if (match c_lower c with Some l => osub true o l | None => false end)
                   then fail ESubtypeMismatch
                   else if (match c_upper c with Some u => osub true u o | None => false end)
                   then fail ESubtypeMismatch
                   else ret tt
                 else if (match c_lower c, c_upper c with None, None => false | _, _ => true end)
                 then fail ETypeMismatch      (* a variable bounded by base types is a base type *)
                 else
                   vs <- lift (fun s => vars_f f s t []) ;;
                   modify (fun s =>
                     let iv := c_cs (cell_of s v) in
                     let all := fold_right (fun w acc => union (cset_of s (c_cs (cell_of s w))) acc)
                                           (cset_of s iv) vs in
                     set_cset s iv all) ;;;
                   iv <- gets (fun s => c_cs (cell_of s v)) ;;
                   forM vs (fun w => set_cs w iv)) ;;;
                check_constraints f v
            end
        end
  ).
Proof. reflexivity. Qed.

Lemma bind_0 (v : nat) (t : tyv) : bind 0 v t = fail EFuel.
Proof. reflexivity. Qed.

Lemma above_S (f : nat) (v : nat) (new : nat) :
  above (S f) v new =
  (
        if Nat.eqb new Top then bind f v (O Top [])
        else
          set_wild v false ;;;
          c <- gets (fun s => cell_of s v) ;;
          match c_bound c with
          | Some t => unify f true false false (O new []) t   (* already resolved: check the resolved type *)
          | None =>
              (match c_upper c, c_lower c with
               | Some u, _ =>
                   if osub true u new then fail ESubtypeMismatch
                   else if negb (osub false new u) then fail ESubtypeMismatch
                   else match c_lower c with
                        | Some l =>
                            if osub true new l then ret tt
                            else if osub false l new then set_lower v (Some new) ;;; check_constraints f v
                            else fail ESubtypeMismatch
                        | None => set_lower v (Some new) ;;; check_constraints f v
                        end
               | None, Some l =>
                   if osub true new l then ret tt
                   else if osub false l new then set_lower v (Some new) ;;; check_constraints f v
                   else fail ESubtypeMismatch
               | None, None => set_lower v (Some new) ;;; check_constraints f v
               end) ;;;
              c' <- gets (fun s => cell_of s v) ;;
              match c_bound c', c_lower c', c_upper c' with
              | None, Some l, Some u => if Nat.eqb l u then bind f v (O l []) else ret tt
              | _, _, _ => ret tt
              end
          end
  ).
Proof. reflexivity. Qed.

Lemma above_0 (v : nat) (new : nat) : above 0 v new = fail EFuel.
Proof. reflexivity. Qed.

Lemma below_S (f : nat) (v : nat) (new : nat) :
  below (S f) v new =
  (
        if Nat.eqb new Bottom then bind f v (O Bottom [])
        else
          set_wild v false ;;;
          c <- gets (fun s => cell_of s v) ;;
          match c_bound c with
          | Some t => unify f true false false t (O new [])
          | None =>
              (match c_lower c, c_upper c with
               | Some l, _ =>
                   if osub true new l then fail ESubtypeMismatch
                   else if negb (osub false l new) then fail ESubtypeMismatch
                   else match c_upper c with
                        | Some u =>
                            if osub true u new then ret tt
                            else if osub false new u then set_upper v (Some new) ;;; check_constraints f v
                            else fail ESubtypeMismatch
                        | None => set_upper v (Some new) ;;; check_constraints f v
                        end
               | None, Some u =>
                   if osub true u new then ret tt
                   else if osub false new u then set_upper v (Some new) ;;; check_constraints f v
                   else fail ESubtypeMismatch
               | None, None => set_upper v (Some new) ;;; check_constraints f v
               end) ;;;
              c' <- gets (fun s => cell_of s v) ;;
              match c_bound c', c_upper c', c_lower c' with
              | None, Some u, Some l => if Nat.eqb u l then bind f v (O u []) else ret tt
              | _, _, _ => ret tt
              end
          end
  ).
Proof. reflexivity. Qed.

Lemma below_0 (v : nat) (new : nat) : below 0 v new = fail EFuel.
Proof. reflexivity. Qed.

Lemma check_constraints_S (f : nat) (v : nat) :
  check_constraints (S f) v =
  (
        pending <- gets (fun s => cset_of s (c_cs (cell_of s v))) ;;
        order <- (if 2 <=? length pending
                  then r <- next_choice ;; ret (permute (length pending) r pending)
                  else ret pending) ;;
        forM order (fun c =>
          done <- fulfill f c ;;
          if done then
            modify (fun s => let i := c_cs (cell_of s v) in set_cset s i (remove_nat c (cset_of s i)))
          else ret tt)
  ).
Proof. reflexivity. Qed.

Lemma check_constraints_0 (v : nat) : check_constraints 0 v = fail EFuel.
Proof. reflexivity. Qed.

Lemma fulfill_S (f : nat) (c : nat) :
  fulfill (S f) c =
  (
        k <- gets (fun s => constr_of s c) ;;
        if k_elim k then
          if k_done k then ret true
          else
            minimize f c ;;;
            k1 <- gets (fun s => constr_of s c) ;;
            norm <- gets (fun s => forallb (fun t => match t with
                                                   | V v => match c_bound (cell_of s v) with Some _ => false | None => true end
                                                   | O _ _ => true end) (constr_terms k1)) ;;
            if negb norm then fail (ECrash site_elim_normalized)
            else
              alts <- lift (fun s =>
                (fix go (l : list tyv) : res (list tyv) :=
                   match l with
                   | [] => Ok []
                   | t :: r =>
                       match match_f f s true true (k_ref k1) t with
                       | Er e => Er e
                       | Ok (Some false) => go r
                       | Ok _ => match go r with Er e => Er e | Ok r' => Ok (t :: r') end
                       end
                   end) (k_alts k1)) ;;
              upd_constr c (fun k => mkConstr true (k_ref k) alts (k_strict k) (k_done k)) ;;;
              match alts with
              | [] => fail EConstraintViolation
              | [t] =>
                  upd_constr c (fun k => mkConstr true (k_ref k) (k_alts k) (k_strict k) true) ;;;
                  unify f true false false (k_ref k1) t ;;;
                  d <- gets (fun s => k_done (constr_of s c)) ;; ret d
              | _ => d <- gets (fun s => k_done (constr_of s c)) ;; ret d
              end
        else
          match k_alts k with
          | [target] =>
              unify f true true false (k_ref k) target ;;;
              r <- lift (fun s => match_f f s true false (k_ref k) target) ;;
              match r with
              | Some true =>
                  same <- (if k_strict k
                           then lift (fun s => match_f f s false false (k_ref k) target)
                           else ret (Some false)) ;;
                  match same with
                  | Some true => fail EConstraintViolation     (* strict excludes equality *)
                  | None => d <- gets (fun s => k_done (constr_of s c)) ;; ret d
                  | Some false =>
                      upd_constr c (fun k => mkConstr false (k_ref k) (k_alts k) (k_strict k) true) ;;;
                      ret true
                  end
              | Some false => fail EConstraintViolation
              | None => d <- gets (fun s => k_done (constr_of s c)) ;; ret d
              end
          | _ => fail (ECrash site_arity)
          end
  ).
Proof. reflexivity. Qed.

Lemma fulfill_0 (c : nat) : fulfill 0 c = fail EFuel.
Proof. reflexivity. Qed.

Lemma minimize_S (f : nat) (c : nat) :
  minimize (S f) c =
  (
        k <- gets (fun s => constr_of s c) ;;
        mins <-
          (fix outer (objs : list tyv) (mins : list tyv) : M (list tyv) :=
             match objs with
             | [] => ret mins
             | obj :: rest =>
                 r <- (fix inner (pre post : list tyv) (add : bool) : M (list tyv * bool) :=
                         match post with
                         | [] => ret (pre, add)
                         | mi :: post' =>
                             r1 <- lift (fun s => match_f f s true false mi obj) ;;
                             mi' <- (match r1 with
                                     | Some true => gets (fun s => follow s obj)
                                     | _ => ret mi end) ;;
                             r2 <- lift (fun s => match_f f s true false obj mi') ;;
                             inner (pre ++ [mi']) post'
                                   (match r2 with Some true => false | _ => add end)
                         end) [] mins true ;;
                 let (mins', add) := r in
                 if add then
                   o <- gets (fun s => follow s obj) ;;
                   o' <- fix_ty f true o ;;
                   outer rest (mins' ++ [o'])
                 else outer rest mins'
             end) (k_alts k) [] ;;
        rf <- gets (fun s => follow s (k_ref k)) ;;
        mins' <- gets (fun s => map (follow s) mins) ;;
        upd_constr c (fun k => mkConstr (k_elim k) rf mins' (k_strict k) (k_done k))
  ).
Proof. reflexivity. Qed.

Lemma minimize_0 (c : nat) : minimize 0 c = fail EFuel.
Proof. reflexivity. Qed.

Lemma fix_ty_S (f : nat) (prefer_lower : bool) (t : tyv) :
  fix_ty (S f) prefer_lower t =
  (
        a <- gets (fun s => follow s t) ;;
        (match a with
         | O o args =>
             (fix go (vs : list bool) (ps : list tyv) : M unit :=
                match vs, ps with
                | v :: vs', p :: ps' =>
                    fix_ty f (if v then prefer_lower else negb prefer_lower) p ;;; go vs' ps'
                | _, _ => ret tt
                end) (variance H o) args
         | V v =>
             c <- gets (fun s => cell_of s v) ;;
             if prefer_lower then
               match c_lower c with Some l => bind f v (O l []) | None => ret tt end
             else
               match c_upper c with Some u => bind f v (O u []) | None => ret tt end
         end) ;;;
        gets (fun s => follow s a)
  ).
Proof. reflexivity. Qed.

Lemma fix_ty_0 (prefer_lower : bool) (t : tyv) : fix_ty 0 prefer_lower t = fail EFuel.
Proof. reflexivity. Qed.

(* ------------------------------------------------------------------ *)
(* a small program logic: [ok s0 m Q s] - running m from s ends, with or *)
(* without an error, in a store that satisfies inv and extends s0; the   *)
(* error is never a crash; on success Q holds                            *)
(* ------------------------------------------------------------------ *)
Variable b : bool.
Local Notation inv := (invb b).

Lemma inv_chain s : inv s -> forall v, chain s (V v). Proof. intros I. apply (core_chain (proj1 I)). Qed.
Lemma inv_lo s : inv s -> forall v, c_lower (cell_of s v) <> Some Top. Proof. intros I. apply (core_lo (proj1 I)). Qed.
Lemma inv_up s : inv s -> forall v, c_upper (cell_of s v) <> Some Bottom. Proof. intros I. apply (core_up (proj1 I)). Qed.
Lemma inv_cs s : inv s -> forall i c, In c (cset_of s i) -> c < length (constrs s). Proof. intros I. apply (core_cs (proj1 I)). Qed.
Lemma inv_ar s : inv s -> forall c, c < length (constrs s) -> k_elim (constr_of s c) = false ->
  length (k_alts (constr_of s c)) = 1. Proof. intros I. apply (core_ar (proj1 I)). Qed.

Lemma follow_unbound s t : inv s -> nb s (follow s t).
Proof. intros I. apply follow_unbound_core. apply I. Qed.

(* scoping of arguments, switched by the flag *)
Definition sct (s : store) (t : tyv) : Prop := b = true -> tsc (length (vars s)) t.
Definition scv (s : store) (v : nat) : Prop := b = true -> v < length (vars s).

Lemma sct_ext s s' t : ext s s' -> sct s t -> sct s' t.
Proof. intros E Ht Hb. eapply tsc_mono; [apply (ext_vars E)|auto]. Qed.
Lemma scv_ext s s' v : ext s s' -> scv s v -> scv s' v.
Proof. intros E Hv Hb. pose proof (ext_vars E). specialize (Hv Hb). lia. Qed.
Lemma scts_ext s s' l : ext s s' -> Forall (sct s) l -> Forall (sct s') l.
Proof. intros E. apply Forall_impl. intros t. apply sct_ext. exact E. Qed.

Lemma sct_O s o args : Forall (sct s) args -> sct s (O o args).
Proof.
  intros F Hb. constructor. rewrite Forall_forall in *. intros x Hx. apply (F x Hx Hb).
Qed.
Lemma sct_args s o args : sct s (O o args) -> Forall (sct s) args.
Proof.
  intros Ht. rewrite Forall_forall. intros x Hx Hb. specialize (Ht Hb).
  apply tsc_args in Ht. rewrite Forall_forall in Ht. auto.
Qed.
Lemma sct_V s v : sct s (V v) -> scv s v.
Proof. intros Ht Hb. apply tsc_var. auto. Qed.
Lemma scv_V s v : scv s v -> sct s (V v).
Proof. intros Hv Hb. constructor. auto. Qed.
Lemma sct_O0 s o : sct s (O o []).
Proof. apply sct_O. constructor. Qed.

Lemma follow_sct s t : inv s -> sct s t -> sct s (follow s t).
Proof. intros I Ht Hb. apply follow_f_tsc; [apply (proj2 I Hb)|auto]. Qed.
Lemma sct_of_bound s v t : inv s -> c_bound (cell_of s v) = Some t -> sct s t.
Proof. intros I Hv Hb. eapply (sc_bound (proj2 I Hb)); eauto. Qed.
Lemma scts_of_constr s c : inv s -> c < length (constrs s) ->
  Forall (sct s) (constr_terms (constr_of s c)).
Proof.
  intros I L. rewrite Forall_forall. intros x Hx Hb.
  pose proof (sc_constr (proj2 I Hb) L) as F. rewrite Forall_forall in F. auto.
Qed.
Lemma Forall_tsc_of_scts s l : Forall (sct s) l -> b = true -> Forall (tsc (length (vars s))) l.
Proof. intros F Hb. rewrite Forall_forall in *. intros x Hx. apply (F x Hx Hb). Qed.

Lemma inv_empty sc : inv (empty_store sc).
Proof. split; [apply core_empty|intros _; apply wsc_empty]. Qed.

Lemma inv_set_cell s v c' :
  inv s -> c_lower c' <> Some Top -> c_upper c' <> Some Bottom ->
  (c_bound c' = c_bound (cell_of s v) \/
   c_bound (cell_of s v) = None /\
   exists t, c_bound c' = Some t /\ nb s t /\ t <> V v /\ (b = true -> nocc s v t)) ->
  (forall t, c_bound c' = Some t -> sct s t) ->
  (b = true -> v < length (vars s) -> c_cs c' < length (csets s)) ->
  inv (set_cell s v c').
Proof.
  intros I Hl Hu Hb Hs Hc. split.
  - apply core_set_cell; auto. apply I.
    destruct Hb as [Hb|(Hv & t & Ht & Nt & Ne & _)]; [left; auto|right; eauto].
  - intros B. apply wsc_set_cell; auto. apply (proj2 I B). intros t Ht. apply (Hs t Ht B).
    destruct Hb as [Hb|(Hv & t & Ht & Nt & Ne & No)]; [left; auto|right; eauto].
Qed.

Lemma inv_set_cset s i l :
  inv s -> Forall (fun c => c < length (constrs s)) l -> inv (set_cset s i l).
Proof.
  intros I F. split; [apply core_set_cset; auto; apply I|].
  intros B. apply wsc_set_cset. apply (proj2 I B).
Qed.

Lemma inv_set_constr s i k :
  inv s -> (k_elim k = false -> length (k_alts k) = 1) -> Forall (sct s) (constr_terms k) ->
  inv (set_constr s i k).
Proof.
  intros I A F. split; [apply core_set_constr; auto; apply I|].
  intros B. apply wsc_set_constr; [apply (proj2 I B)|apply Forall_tsc_of_scts; auto].
Qed.

Lemma inv_alloc_var s w : inv s -> inv (snd (alloc_var s w)).
Proof.
  intros I. split; [apply core_alloc_var; apply I|].
  intros B. apply wsc_alloc_var. apply (proj2 I B).
Qed.

Lemma inv_alloc_constr s k :
  inv s -> (k_elim k = false -> length (k_alts k) = 1) -> Forall (sct s) (constr_terms k) ->
  inv (snd (alloc_constr s k)).
Proof.
  intros I A F. split; [apply core_alloc_constr; auto; apply I|].
  intros B. apply wsc_alloc_constr; [apply (proj2 I B)|apply Forall_tsc_of_scts; auto].
Qed.

Lemma inv_sched s r : inv s -> inv (mkStore (vars s) (csets s) (constrs s) r).
Proof.
  intros I. split; [apply core_sched; apply I|]. intros B. apply wsc_sched. apply (proj2 I B).
Qed.

Definition ok {A} (s0 : store) (m : M A) (Q : A -> store -> Prop) (s : store) : Prop :=
  match m s with
  | MOk a s' => inv s' /\ ext s0 s' /\ Q a s'
  | MEr e s' => inv s' /\ ext s0 s' /\ forall n, e <> ECrash n
  end.

Lemma ok_ret {A} s0 (a : A) (Q : A -> store -> Prop) s :
  inv s -> ext s0 s -> Q a s -> ok s0 (ret a) Q s.
Proof. unfold ok, ret. auto. Qed.

Lemma ok_fail {A} s0 e (Q : A -> store -> Prop) s :
  inv s -> ext s0 s -> (forall n, e <> ECrash n) -> ok s0 (fail e) Q s.
Proof. unfold ok, fail. auto. Qed.

Lemma ok_bind {A B} s0 (m : M A) (k : A -> M B) Q1 (Q : B -> store -> Prop) s :
  ok s0 m Q1 s ->
  (forall a s1, inv s1 -> ext s0 s1 -> Q1 a s1 -> ok s0 (k a) Q s1) ->
  ok s0 (bindM m k) Q s.
Proof.
  unfold ok, bindM. destruct (m s) as [a s1|e s1]; intros (I & E & HQ) K; [apply K; auto|auto].
Qed.

Lemma ok_conseq {A} s0 (m : M A) (Q1 Q : A -> store -> Prop) s :
  ok s0 m Q1 s -> (forall a s1, inv s1 -> ext s0 s1 -> Q1 a s1 -> Q a s1) -> ok s0 m Q s.
Proof.
  unfold ok. destruct (m s) as [a s1|e s1]; intros (I & E & HQ) K; auto.
Qed.

Lemma ok_gets {A B} s0 (g : store -> A) (k : A -> M B) (Q : B -> store -> Prop) s :
  ok s0 (k (g s)) Q s -> ok s0 (bindM (gets g) k) Q s.
Proof. unfold ok, bindM, gets. auto. Qed.

Lemma ok_gets_end {A} s0 (g : store -> A) (Q : A -> store -> Prop) s :
  inv s -> ext s0 s -> Q (g s) s -> ok s0 (gets g) Q s.
Proof. unfold ok, gets. auto. Qed.

Lemma ok_modify {B} s0 (g : store -> store) (k : unit -> M B) (Q : B -> store -> Prop) s :
  ok s0 (k tt) Q (g s) -> ok s0 (bindM (modify g) k) Q s.
Proof. unfold ok, bindM, modify. auto. Qed.

Lemma ok_modify_end s0 (g : store -> store) (Q : unit -> store -> Prop) s :
  inv (g s) -> ext s0 (g s) -> Q tt (g s) -> ok s0 (modify g) Q s.
Proof. unfold ok, modify. auto. Qed.

Lemma ok_lift {A B} s0 (r : store -> res A) (k : A -> M B) (Q : B -> store -> Prop) s :
  inv s -> ext s0 s -> (forall e, r s = Er e -> e = EFuel) ->
  (forall a, r s = Ok a -> ok s0 (k a) Q s) -> ok s0 (bindM (lift r) k) Q s.
Proof.
  unfold ok, bindM, lift. intros I E Hr K. destruct (r s) as [a|e].
  - apply K. reflexivity.
  - split; [exact I|split; [exact E|]]. intros n. rewrite (Hr e eq_refl). discriminate.
Qed.

Lemma ok_lift_end {A} s0 (r : store -> res A) (Q : A -> store -> Prop) s :
  inv s -> ext s0 s -> (forall e, r s = Er e -> e = EFuel) ->
  (forall a, r s = Ok a -> Q a s) -> ok s0 (lift r) Q s.
Proof.
  unfold ok, lift. intros I E Hr K. destruct (r s) as [a|e].
  - auto.
  - split; [exact I|split; [exact E|]]. intros n. rewrite (Hr e eq_refl). discriminate.
Qed.

(* loops: any property J stable along the loop *)
Lemma ok_forM {A} s0 (J : store -> Prop) (f : A -> M unit) : forall l s,
  inv s -> ext s0 s -> J s ->
  (forall x s1, In x l -> inv s1 -> ext s0 s1 -> J s1 -> ok s0 (f x) (fun _ s2 => J s2) s1) ->
  ok s0 (forM l f) (fun _ s2 => J s2) s.
Proof.
  induction l as [|x l IH]; intros s I E HJ F; cbn [forM].
  - apply ok_ret; auto.
  - eapply ok_bind; [apply F; cbn; auto|].
    intros u s1 I1 E1 J1. apply IH; auto. intros y s2 Hy. apply F. cbn; auto.
Qed.

Lemma not_crash_EFuel : forall n, EFuel <> ECrash n. Proof. discriminate. Qed.
Lemma not_crash_sub : forall n, ESubtypeMismatch <> ECrash n. Proof. discriminate. Qed.
Lemma not_crash_ty : forall n, ETypeMismatch <> ECrash n. Proof. discriminate. Qed.
Lemma not_crash_rec : forall n, ERecursive <> ECrash n. Proof. discriminate. Qed.
Lemma not_crash_cv : forall n, EConstraintViolation <> ECrash n. Proof. discriminate. Qed.
Lemma not_crash_fun : forall n, EFunApp <> ECrash n. Proof. discriminate. Qed.
#[local] Hint Resolve not_crash_EFuel not_crash_sub not_crash_ty not_crash_rec not_crash_cv
  not_crash_fun : core.

Definition T {A} : A -> store -> Prop := fun _ _ => True.

Lemma ok_use {A} s0 (m : M A) (Q : A -> store -> Prop) s :
  ext s0 s -> ok s m Q s -> ok s0 m (fun a s' => Q a s' /\ ext s s') s.
Proof.
  unfold ok. intros E. destruct (m s) as [a s1|e s1]; intros (I1 & E1 & HQ);
    (split; [exact I1|split; [eapply ext_trans; eauto|auto]]).
Qed.

Lemma ok_next_choice {B} s0 (k : nat -> M B) (Q : B -> store -> Prop) s :
  inv s -> ext s0 s ->
  (forall r s1, inv s1 -> ext s0 s1 -> ext s s1 -> vars s1 = vars s -> csets s1 = csets s ->
                constrs s1 = constrs s -> ok s0 (k r) Q s1) ->
  ok s0 (bindM next_choice k) Q s.
Proof.
  intros I E K. unfold ok, bindM, next_choice. destruct (sched s) as [|r rest].
  - apply K; auto using ext_refl.
  - apply K; auto using inv_sched, ext_sched. eapply ext_trans; eauto using ext_sched.
Qed.

Lemma ok_upd_cell {B} s0 v g (k : unit -> M B) (Q : B -> store -> Prop) s :
  inv s -> ext s0 s -> (forall c, c_bound (g c) = c_bound c) -> (forall c, c_cs (g c) = c_cs c) ->
  c_lower (g (cell_of s v)) <> Some Top -> c_upper (g (cell_of s v)) <> Some Bottom ->
  (forall s1, s1 = set_cell s v (g (cell_of s v)) -> inv s1 -> ext s0 s1 -> ext s s1 ->
              ok s0 (k tt) Q s1) ->
  ok s0 (bindM (upd_cell v g) k) Q s.
Proof.
  intros I E Hb Hc Hl Hu K. unfold upd_cell. apply ok_modify.
  assert (E1 : ext s (set_cell s v (g (cell_of s v)))).
  { apply ext_set_cell. intros t. rewrite Hb. auto. }
  apply K; auto.
  - apply inv_set_cell; auto.
    + intros t. rewrite Hb. apply sct_of_bound. exact I.
    + intros Bt L. rewrite Hc. apply (sc_cs (proj2 I Bt)). exact L.
  - eapply ext_trans; [exact E|exact E1].
Qed.

Lemma ok_upd_cell_end s0 v g (Q : unit -> store -> Prop) s :
  inv s -> ext s0 s -> (forall c, c_bound (g c) = c_bound c) ->
  (b = true -> v < length (vars s) -> c_cs (g (cell_of s v)) < length (csets s)) ->
  c_lower (g (cell_of s v)) <> Some Top -> c_upper (g (cell_of s v)) <> Some Bottom ->
  (forall s1, s1 = set_cell s v (g (cell_of s v)) -> inv s1 -> ext s0 s1 -> ext s s1 -> Q tt s1) ->
  ok s0 (upd_cell v g) Q s.
Proof.
  intros I E Hb Hc Hl Hu K. unfold upd_cell.
  assert (E1 : ext s (set_cell s v (g (cell_of s v)))).
  { apply ext_set_cell. intros t. rewrite Hb. auto. }
  assert (I1 : inv (set_cell s v (g (cell_of s v)))).
  { apply inv_set_cell; auto. intros t. rewrite Hb. apply sct_of_bound. exact I. }
  apply ok_modify_end; auto.
  - eapply ext_trans; [exact E|exact E1].
  - apply K; auto. eapply ext_trans; [exact E|exact E1].
Qed.

Lemma bound_set_cell_same s v c' : c_bound c' = c_bound (cell_of s v) ->
  forall w, c_bound (cell_of (set_cell s v c') w) = c_bound (cell_of s w).
Proof.
  intros Eb w. destruct (cell_of_set_cell s v c' w) as [(E & -> & L)|E]; rewrite E; auto.
Qed.

Ltac done_ret := apply ok_ret; unfold T; auto using ext_refl.
Ltac done_fail := apply ok_fail; auto using ext_refl.
Ltac use X := eapply ok_conseq;
  [apply ok_use; [first [eassumption|apply ext_refl]|apply X; auto]|unfold T; auto].
Ltac break_if := repeat match goal with |- context[if ?c then _ else _] => destruct c eqn:? end.

(* ---- specifications (relative to the start store; [ok_use] rebases) ---- *)
Definition spec_unify f := forall sub skb skw a b0 s, inv s -> sct s a -> sct s b0 ->
  ok s (unify f sub skb skw a b0) T s.
Definition noccb (s : store) (v : nat) (t : tyv) : Prop := b = true -> t = V v \/ nocc s v t.
Definition spec_bind f := forall v t s, inv s ->
  c_bound (cell_of s v) = None -> nb s t -> scv s v -> sct s t -> noccb s v t ->
  ok s (bind f v t) T s.
Definition spec_above f := forall v new s, inv s ->
  (new = Top -> c_bound (cell_of s v) = None) -> scv s v -> ok s (above f v new) T s.
Definition spec_below f := forall v new s, inv s ->
  (new = Bottom -> c_bound (cell_of s v) = None) -> scv s v -> ok s (below f v new) T s.
Definition spec_cc f := forall v s, inv s -> ok s (check_constraints f v) T s.
Definition spec_fulfill f := forall c s, inv s ->
  c < length (constrs s) -> ok s (fulfill f c) T s.
Definition spec_minimize f := forall c s, inv s ->
  k_elim (constr_of s c) = true ->
  ok s (minimize f c) (fun _ s' => Forall (nb s') (constr_terms (constr_of s' c))) s.
Definition spec_fix f := forall pl t s, inv s -> sct s t ->
  ok s (fix_ty f pl t) (fun r s' => nb s' r /\ sct s' r) s.

Definition specs f :=
  spec_unify f /\ spec_bind f /\ spec_above f /\ spec_below f /\
  spec_cc f /\ spec_fulfill f /\ spec_minimize f /\ spec_fix f.

Lemma specs_0 : specs 0.
Proof.
  unfold specs, spec_unify, spec_bind, spec_above, spec_below, spec_cc, spec_fulfill,
    spec_minimize, spec_fix.
  repeat apply conj; intros; apply ok_fail; auto using ext_refl.
Qed.

Lemma noccb_O0 s v o : noccb s v (O o []).
Proof. intros _. right. apply nocc_op. intros x []. Qed.

Lemma inv_cs_Forall s i : inv s -> Forall (fun c => c < length (constrs s)) (cset_of s i).
Proof. intros I. rewrite Forall_forall. intros c Hc. eapply (inv_cs I); eauto. Qed.

(* ---- check_constraints ---- *)
Lemma cc_step f : spec_fulfill f -> spec_cc (S f).
Proof.
  intros F v s I. rewrite check_constraints_S. apply ok_gets.
  set (pending := cset_of s (c_cs (cell_of s v))).
  assert (FP : Forall (fun c => c < length (constrs s)) pending) by (apply inv_cs_Forall; auto).
  eapply ok_bind with (Q1 := fun order s1 => Forall (fun c => c < length (constrs s1)) order).
  - destruct (2 <=? length pending).
    + apply ok_next_choice; auto using ext_refl. intros r s1 I1 E1 _ _ _ Hc.
      apply ok_ret; auto. apply Forall_permute. rewrite Hc. exact FP.
    + apply ok_ret; auto using ext_refl.
  - intros order s1 I1 E1 FO.
    eapply ok_conseq; [apply ok_forM with (J := fun s2 => ext s1 s2); auto using ext_refl|unfold T; auto].
    intros c s2 Hc I2 E2 E12.
    assert (Lc : c < length (constrs s2)).
    { rewrite Forall_forall in FO. specialize (FO c Hc). pose proof (ext_constrs E12). lia. }
    eapply ok_bind; [apply ok_use; [exact E2|apply F; auto]|].
    intros d s3 I3 E3 (_ & E23). destruct d.
    + apply ok_modify_end.
      * apply inv_set_cset; auto. apply Forall_remove_nat. apply inv_cs_Forall; auto.
      * eapply ext_trans; [exact E3|apply ext_set_cset].
      * eapply ext_trans; [exact E12|]. eapply ext_trans; [exact E23|apply ext_set_cset].
    + apply ok_ret; auto. eapply ext_trans; eauto.
Qed.

(* ---- fix_ty ---- *)
Lemma fix_step f : spec_bind f -> spec_fix f -> spec_fix (S f).
Proof.
  intros B Fx pl t s I St. rewrite fix_ty_S. apply ok_gets.
  pose proof (follow_unbound t I) as N. pose proof (follow_sct I St) as Sa.
  destruct (follow s t) as [v|o args] eqn:Ef.
  - eapply ok_bind with (Q1 := T).
    + apply ok_gets. destruct pl.
      * destruct (c_lower (cell_of s v)); [apply B; cbn; auto using sct_V, sct_O0, noccb_O0|done_ret].
      * destruct (c_upper (cell_of s v)); [apply B; cbn; auto using sct_V, sct_O0, noccb_O0|done_ret].
    + intros u s1 I1 E1 _. apply ok_gets_end; auto. split.
      * apply follow_unbound; auto.
      * apply follow_sct; auto. eapply sct_ext; eauto.
  - eapply ok_bind with (Q1 := T).
    + apply sct_args in Sa. clear Ef N St.
      assert (G : forall vs s1, inv s1 -> ext s s1 ->
                ok s1 ((fix go (vs : list bool) (ps : list tyv) : M unit :=
                   match vs, ps with
                   | v :: vs', p :: ps' =>
                       Engine.fix_ty H f (if v then pl else negb pl) p ;;; go vs' ps'
                   | _, _ => ret tt
                   end) vs args) T s1); [|apply G; auto using ext_refl].
      induction args as [|p ps IHp]; intros vs s1 I1 E1; destruct vs as [|b' vs]; try done_ret.
      inversion Sa; subst.
      eapply ok_bind with (Q1 := T); [use Fx; eapply sct_ext; eauto|]. intros r s2 I2 E2 _.
      use IHp. eapply ext_trans; eauto.
    + intros u s1 I1 E1 _. apply ok_gets_end; auto. split; [exact Logic.I|].
      apply follow_sct; auto. eapply sct_ext; eauto.
Qed.

(* ---- above / below ---- *)
Lemma above_step f : spec_unify f -> spec_bind f -> spec_cc f -> spec_above (S f).
Proof.
  intros U B C v new s I P Sv. rewrite above_S. destruct (Nat.eqb new Top) eqn:Et.
  - apply Nat.eqb_eq in Et. apply B; cbn; auto using sct_O0, noccb_O0.
  - apply Nat.eqb_neq in Et. unfold set_wild.
    apply ok_upd_cell; auto using ext_refl; cbn [c_lower c_upper]; try apply (inv_lo I); try apply (inv_up I).
    intros s1 _ I1 E1 _. apply ok_gets.
    destruct (c_bound (cell_of s1 v)) as [t|] eqn:Eb; [use U; eauto using sct_O0, sct_of_bound|].
    assert (SL : ok s (set_lower v (Some new);;; Engine.check_constraints H f v) T s1).
    { unfold set_lower. apply ok_upd_cell; auto; cbn [c_lower c_upper]; try apply (inv_up I1); try congruence.
      intros s2 _ I2 E2 _. use C. }
    eapply ok_bind with (Q1 := T).
    + destruct (c_upper (cell_of s1 v)), (c_lower (cell_of s1 v)); break_if;
        try exact SL; try done_ret; try done_fail.
    + intros u s2 I2 E2 _. apply ok_gets.
      destruct (c_bound (cell_of s2 v)) eqn:Eb2; try done_ret.
      destruct (c_lower (cell_of s2 v)); try done_ret.
      destruct (c_upper (cell_of s2 v)); try done_ret.
      break_if; try done_ret. use B; cbn; eauto using sct_O0, scv_ext, noccb_O0.
Qed.

Lemma below_step f : spec_unify f -> spec_bind f -> spec_cc f -> spec_below (S f).
Proof.
  intros U B C v new s I P Sv. rewrite below_S. destruct (Nat.eqb new Bottom) eqn:Et.
  - apply Nat.eqb_eq in Et. apply B; cbn; auto using sct_O0, noccb_O0.
  - apply Nat.eqb_neq in Et. unfold set_wild.
    apply ok_upd_cell; auto using ext_refl; cbn [c_lower c_upper]; try apply (inv_lo I); try apply (inv_up I).
    intros s1 _ I1 E1 _. apply ok_gets.
    destruct (c_bound (cell_of s1 v)) as [t|] eqn:Eb; [use U; eauto using sct_O0, sct_of_bound|].
    assert (SL : ok s (set_upper v (Some new);;; Engine.check_constraints H f v) T s1).
    { unfold set_upper. apply ok_upd_cell; auto; cbn [c_lower c_upper]; try apply (inv_lo I1); try congruence.
      intros s2 _ I2 E2 _. use C. }
    eapply ok_bind with (Q1 := T).
    + destruct (c_upper (cell_of s1 v)), (c_lower (cell_of s1 v)); break_if;
        try exact SL; try done_ret; try done_fail.
    + intros u s2 I2 E2 _. apply ok_gets.
      destruct (c_bound (cell_of s2 v)) eqn:Eb2; try done_ret.
      destruct (c_upper (cell_of s2 v)); try done_ret.
      destruct (c_lower (cell_of s2 v)); try done_ret.
      break_if; try done_ret. use B; cbn; eauto using sct_O0, scv_ext, noccb_O0.
Qed.

Ltac use' X := eapply ok_conseq; [apply ok_use; [first [eassumption|apply ext_refl]|apply X]|].

Lemma elim_in_range s c : k_elim (constr_of s c) = true -> c < length (constrs s).
Proof.
  intros Ke. destruct (Nat.lt_ge_cases c (length (constrs s))) as [L|L]; auto.
  rewrite constr_of_oob in Ke by exact L. discriminate.
Qed.

Lemma Forall_snoc {A} (P : A -> Prop) l x : Forall P l -> P x -> Forall P (l ++ [x]).
Proof. intros Fl Px. apply Forall_app. split; auto. Qed.

(* ---- minimize ---- *)
Lemma minimize_step f : spec_fix f -> spec_minimize (S f).
Proof.
  intros Fx c s I Ke. rewrite minimize_S. apply ok_gets.
  pose proof (elim_in_range _ _ Ke) as Lc.
  pose proof (scts_of_constr I Lc) as Sk. unfold constr_terms in Sk.
  inversion Sk as [|? ? Sref Salts]; subst.
  eapply ok_bind with (Q1 := fun r s2 => Forall (sct s2) r).
  - match goal with |- ok _ (?outer _ _) _ _ =>
      assert (OL : forall objs mins s1, inv s1 -> Forall (sct s1) objs -> Forall (sct s1) mins ->
                   ok s1 (outer objs mins) (fun r s2 => Forall (sct s2) r) s1) end.
    { induction objs as [|obj rest IHo]; intros mins s1 I1 So Sm; [apply ok_ret; auto using ext_refl|].
      cbv beta iota fix. inversion So as [|? ? Sobj Srest]; subst.
      eapply ok_bind with (Q1 := fun r s2 => Forall (sct s2) (fst r)).
      - match goal with |- ok _ (?inner _ _ _) _ _ =>
          assert (IL : forall post pre add s2, inv s2 -> sct s2 obj -> Forall (sct s2) pre ->
                       Forall (sct s2) post ->
                       ok s2 (inner pre post add) (fun r s3 => Forall (sct s3) (fst r)) s2) end.
        { induction post as [|mi post IHp]; intros pre add s2 I2 Sob Spre Spost;
            [apply ok_ret; auto using ext_refl|].
          cbv beta iota fix. inversion Spost as [|? ? Smi Spost']; subst.
          apply ok_lift; auto using ext_refl; [intros e; apply match_f_err|]. intros r1 _.
          eapply ok_bind with (Q1 := fun mi' s3 => sct s3 mi').
          - destruct r1 as [[|]|]; apply ok_ret; auto using ext_refl, follow_sct.
          - intros mi' s3 I3 E3 Smi'.
            apply ok_lift; auto; [intros e; apply match_f_err|]. intros r2 _.
            use' IHp; auto.
            + eapply sct_ext; eauto.
            + apply Forall_snoc; auto. eapply scts_ext; eauto.
            + eapply scts_ext; eauto.
            + cbv beta. intros a s4 _ _ (Q4 & _). exact Q4. }
        apply IL; auto.
      - intros [mins' add] s2 I2 E2 Sm'. cbn [fst] in Sm'. destruct add.
        + apply ok_gets.
          eapply ok_bind with (Q1 := fun o' s3 => sct s3 o' /\ ext s2 s3).
          * use' Fx; auto.
            -- apply follow_sct; auto. eapply sct_ext; eauto.
            -- cbv beta. intros a s3 _ _ ((_ & Q3) & E23). auto.
          * intros o' s3 I3 E3 (So' & E23).
            use' IHo; auto.
            -- eapply scts_ext; [|exact Srest]. exact E3.
            -- apply Forall_snoc; auto. eapply scts_ext; eauto.
            -- cbv beta. intros a s4 _ _ (Q4 & _). exact Q4.
        + use' IHo; auto.
          * eapply scts_ext; eauto.
          * cbv beta. intros a s4 _ _ (Q4 & _). exact Q4. }
    apply OL; auto.
  - intros mins s1 I1 E1 Sm. apply ok_gets. apply ok_gets. unfold upd_constr.
    assert (Lc1 : c < length (constrs s1)) by (pose proof (ext_constrs E1); lia).
    assert (Ke1 : k_elim (constr_of s1 c) = true) by (rewrite (ext_elim E1) by exact Lc; exact Ke).
    apply ok_modify_end.
    + apply inv_set_constr; auto. cbn [k_elim]. congruence.
      unfold constr_terms. cbn [k_ref k_alts]. constructor.
      * apply follow_sct; auto. eapply sct_ext; eauto.
      * rewrite Forall_forall in *. intros x Hx. apply in_map_iff in Hx. destruct Hx as (y & <- & Hy).
        apply follow_sct; auto.
    + eapply ext_trans; [exact E1|]. apply ext_set_constr. reflexivity.
    + rewrite constr_of_set_constr_same by exact Lc1. unfold constr_terms. cbn [k_ref k_alts].
      constructor.
      * apply (follow_unbound (k_ref (constr_of s c)) I1).
      * rewrite Forall_forall. intros x Hx. apply in_map_iff in Hx. destruct Hx as (y & <- & _).
        apply (follow_unbound y I1).
Qed.

(* ---- fulfill ---- *)
Lemma fulfill_step f : spec_unify f -> spec_minimize f -> spec_fulfill (S f).
Proof.
  intros U Mn c s I Lc. rewrite fulfill_S. apply ok_gets.
  destruct (k_elim (constr_of s c)) eqn:Ke.
  - destruct (k_done (constr_of s c)); [done_ret|].
    eapply ok_bind; [apply Mn; auto|]. intros u s1 I1 E1 N1. apply ok_gets. apply ok_gets.
    assert (Lc1 : c < length (constrs s1)) by (pose proof (ext_constrs E1); lia).
    assert (Ke1 : k_elim (constr_of s1 c) = true) by (rewrite (ext_elim E1) by exact Lc; exact Ke).
    match goal with |- context[negb ?b] => assert (Hn : b = true) end.
    { apply forallb_forall. intros x Hx. rewrite Forall_forall in N1. specialize (N1 x Hx).
      destruct x; cbn in N1; [rewrite N1|]; reflexivity. }
    rewrite Hn. cbn [negb].
    pose proof (scts_of_constr I1 Lc1) as Sk1. unfold constr_terms in Sk1.
    inversion Sk1 as [|? ? Sref1 Salts1]; subst.
    apply ok_lift; auto.
    { intros e. generalize (k_alts (constr_of s1 c)) as l.
      induction l as [|t l IHl]; [discriminate|].
      destruct (Engine.match_f H f s1 true true (k_ref (constr_of s1 c)) t) as [[[|]|]|e'] eqn:Em;
        try (destruct ((fix go (l : list tyv) : res (list tyv) := _) l); [discriminate|exact IHl]);
        try exact IHl.
      intros X; inversion X; subst. eapply match_f_err; eauto. }
    intros alts Halts.
    assert (Salts : Forall (sct s1) alts).
    { revert alts Halts Salts1. generalize (k_alts (constr_of s1 c)) as l.
      induction l as [|t l IHl]; intros alts Halts Sl.
      - inversion Halts; subst. constructor.
      - inversion Sl as [|? ? St Sl']; subst.
        destruct (Engine.match_f H f s1 true true (k_ref (constr_of s1 c)) t) as [[[|]|]|e'] eqn:Em;
          try discriminate; try (apply IHl; auto; fail);
          (destruct ((fix go (l : list tyv) : res (list tyv) := _) l) as [r'|] eqn:Eg; [|discriminate];
           inversion Halts; subst; constructor; auto). }
    clear Halts.
    unfold upd_constr. apply ok_modify.
    match goal with |- ok _ _ _ ?s' => set (s2 := s') end.
    assert (I2 : inv s2).
    { apply inv_set_constr; auto; [cbn; discriminate|]. unfold constr_terms. cbn [k_ref k_alts]. auto. }
    assert (E12 : ext s1 s2) by (apply ext_set_constr; intros _; cbn; congruence).
    assert (E2 : ext s s2) by (eapply ext_trans; eauto).
    assert (Lc2 : c < length (constrs s2)) by (pose proof (ext_constrs E12); lia).
    assert (Ke2 : k_elim (constr_of s2 c) = true).
    { unfold s2. rewrite constr_of_set_constr_same by exact Lc1. reflexivity. }
    clearbody s2.
    destruct alts as [|t [|t2 r]].
    + done_fail.
    + apply ok_modify.
      match goal with |- ok _ _ _ ?s' => set (s3 := s') end.
      assert (E23 : ext s2 s3) by (apply ext_set_constr; intros _; cbn; congruence).
      assert (I3 : inv s3).
      { apply inv_set_constr; auto; [cbn; discriminate|]. apply (scts_of_constr I2 Lc2). }
      assert (E3 : ext s s3) by (eapply ext_trans; eauto).
      clearbody s3.
      inversion Salts as [|? ? St _]; subst.
      assert (E13 : ext s1 s3) by (eapply ext_trans; eauto).
      eapply ok_bind with (Q1 := T); [use U; eapply sct_ext; eassumption|].
      intros u' s4 I4 E4 _. apply ok_gets. done_ret.
    + apply ok_gets. done_ret.
  - pose proof (inv_ar I Lc Ke) as La.
    pose proof (scts_of_constr I Lc) as Sk. unfold constr_terms in Sk.
    destruct (k_alts (constr_of s c)) as [|target [|]] eqn:Ea; cbn in La; try discriminate.
    inversion Sk as [|? ? Sref Salts]; subst. inversion Salts as [|? ? Star _]; subst.
    eapply ok_bind with (Q1 := T); [use U|]. intros u s1 I1 E1 _.
    apply ok_lift; auto; [intros e; apply match_f_err|]. intros r _.
    destruct r as [[|]|]; [|done_fail|apply ok_gets; done_ret].
    eapply ok_bind with (Q1 := T).
    + destruct (k_strict (constr_of s c)); [|done_ret].
      apply ok_lift_end; unfold T; auto. intros e; apply match_f_err.
    + intros same s2 I2 E2 _.
      destruct same as [[|]|]; [done_fail| |apply ok_gets; done_ret].
      assert (Lc2 : c < length (constrs s2)) by (pose proof (ext_constrs E2); lia).
      assert (Ke2 : k_elim (constr_of s2 c) = false) by (rewrite (ext_elim E2) by exact Lc; exact Ke).
      unfold upd_constr. apply ok_modify. apply ok_ret; unfold T; auto.
      * apply inv_set_constr; auto.
        -- cbn. intros _. apply (inv_ar I2); auto.
        -- apply (scts_of_constr I2 Lc2).
      * eapply ext_trans; [exact E2|]. apply ext_set_constr. intros _. cbn. congruence.
Qed.

Lemma Forall_fold_union (P : nat -> Prop) (g : nat -> list nat) base vs :
  Forall P base -> (forall w, Forall P (g w)) ->
  Forall P (fold_right (fun w acc => union (g w) acc) base vs).
Proof.
  intros Fb Fg. induction vs as [|w vs IH]; cbn [fold_right]; auto.
  apply Forall_union; auto.
Qed.

Lemma inv_set_cs s v i : inv s -> (b = true -> i < length (csets s)) ->
  inv (set_cell s v (mkCell (c_wild (cell_of s v)) (c_bound (cell_of s v)) (c_lower (cell_of s v))
                            (c_upper (cell_of s v)) i)).
Proof.
  intros I Hi. apply inv_set_cell; auto; cbn [c_lower c_upper c_bound c_cs].
  - apply (inv_lo I).
  - apply (inv_up I).
  - intros t. apply sct_of_bound. exact I.
Qed.

Lemma ok_set_cs {B} s0 v i (k : unit -> M B) (Q : B -> store -> Prop) s :
  inv s -> ext s0 s -> (b = true -> i < length (csets s)) ->
  (forall s1, inv s1 -> ext s0 s1 -> ext s s1 -> ok s0 (k tt) Q s1) ->
  ok s0 (bindM (set_cs v i) k) Q s.
Proof.
  intros I E Hi K. unfold set_cs, upd_cell. apply ok_modify.
  assert (E1 : ext s (set_cell s v (mkCell (c_wild (cell_of s v)) (c_bound (cell_of s v))
                 (c_lower (cell_of s v)) (c_upper (cell_of s v)) i))).
  { apply ext_set_cell. cbn. auto. }
  apply K; auto using inv_set_cs. eapply ext_trans; eauto.
Qed.

Lemma ok_set_cs_end s0 v i (Q : unit -> store -> Prop) s :
  inv s -> ext s0 s -> (b = true -> i < length (csets s)) ->
  (forall s1, inv s1 -> ext s0 s1 -> ext s s1 -> Q tt s1) ->
  ok s0 (set_cs v i) Q s.
Proof.
  intros I E Hi K. unfold set_cs, upd_cell.
  assert (E1 : ext s (set_cell s v (mkCell (c_wild (cell_of s v)) (c_bound (cell_of s v))
                 (c_lower (cell_of s v)) (c_upper (cell_of s v)) i))).
  { apply ext_set_cell. cbn. auto. }
  apply ok_modify_end; auto using inv_set_cs.
  - eapply ext_trans; eauto.
  - apply K; auto using inv_set_cs. eapply ext_trans; eauto.
Qed.

(* ---- bind ---- *)
Lemma bind_step f : spec_above f -> spec_below f -> spec_cc f -> spec_bind (S f).
Proof.
  intros Ab Be C v t s I Hv Nt Sv St No. rewrite bind_S. apply ok_gets. rewrite Hv.
  unfold set_wild at 1.
  apply ok_upd_cell; auto using ext_refl; cbn [c_lower c_upper]; try apply (inv_lo I); try apply (inv_up I).
  intros s1 Es1 I1 E1 _.
  assert (B1 : forall w, c_bound (cell_of s1 w) = c_bound (cell_of s w)).
  { subst s1. apply bound_set_cell_same. reflexivity. }
  assert (Hv1 : c_bound (cell_of s1 v) = None) by (rewrite B1; exact Hv).
  assert (Nt1 : nb s1 t) by (eapply nb_bound_eq; [exact B1|exact Nt]).
  assert (Sv1 : scv s1 v) by (eapply scv_ext; eauto).
  assert (St1 : sct s1 t) by (eapply sct_ext; eauto).
  assert (No1 : t <> V v -> b = true -> nocc s1 v t).
  { intros Ne Bt. destruct (No Bt) as [->|N]; [congruence|].
    eapply nocc_bound_eq; [exact B1|exact N]. }
  clear Es1.
  assert (SB : forall wld, let s2 := set_cell s1 v (mkCell wld (Some t) (c_lower (cell_of s1 v))
                                  (c_upper (cell_of s1 v)) (c_cs (cell_of s1 v))) in
               t <> V v -> inv s2 /\ ext s1 s2).
  { intros wld s2 Ne. split.
    - apply inv_set_cell; auto; cbn [c_lower c_upper c_bound c_cs]; try apply (inv_lo I1); try apply (inv_up I1).
      + right. split; auto. exists t. split; [reflexivity|split; [exact Nt1|split; [exact Ne|auto]]].
      + intros t' Ht'. inversion Ht'; subst. exact St1.
      + intros Bt L. apply (sc_cs (proj2 I1 Bt)). exact L.
    - apply ext_set_cell. intros t'. rewrite Hv1. discriminate. }
  destruct t as [w|o args].
  - destruct (Nat.eqb v w) eqn:Evw; [done_ret|]. apply Nat.eqb_neq in Evw.
    unfold set_bound, upd_cell. apply ok_modify.
    match goal with |- ok _ _ _ ?s' => set (s2 := s') end.
    destruct (SB (c_wild (cell_of s1 v))) as (I2 & E12); [congruence|]. fold s2 in I2, E12.
    assert (E2 : ext s s2) by (eapply ext_trans; eauto).
    clearbody s2.
    apply ok_modify.
    match goal with |- ok _ _ _ ?s' => set (s3 := s') end.
    assert (I3 : inv s3).
    { apply inv_set_cset; auto. apply Forall_union; apply inv_cs_Forall; auto. }
    assert (E3 : ext s s3) by (eapply ext_trans; [exact E2|apply ext_set_cset]).
    clearbody s3.
    assert (Sw3 : scv s3 w) by (apply sct_V; eapply sct_ext; eauto).
    apply ok_gets.
    apply ok_set_cs; auto. { intros Bt. apply (sc_cs (proj2 I3 Bt)). auto. }
    intros s4 I4 E4 _. unfold set_wild.
    apply ok_upd_cell; auto; cbn [c_lower c_upper]; try apply (inv_lo I4); try apply (inv_up I4).
    intros s5 _ I5 E5 _.
    assert (Sw5 : scv s5 w) by (apply sct_V; eapply sct_ext; eauto).
    eapply ok_bind with (Q1 := T).
    { destruct (c_lower (cell_of s v)) as [l|] eqn:El; [|done_ret].
      use Ab. intros ->. exfalso. eapply (inv_lo I); eauto. }
    intros u s6 I6 E6 _.
    eapply ok_bind with (Q1 := T).
    { destruct (c_upper (cell_of s v)) as [l|] eqn:El; [|done_ret].
      use Be. intros ->. exfalso. eapply (inv_up I); eauto.
      apply sct_V; eapply sct_ext; eauto. }
    intros u' s7 I7 E7 _. use C.
  - unfold set_bound, upd_cell. apply ok_modify.
    match goal with |- ok _ _ _ ?s' => set (s2 := s') end.
    destruct (SB (c_wild (cell_of s1 v))) as (I2 & E12); [discriminate|]. fold s2 in I2, E12.
    assert (E2 : ext s s2) by (eapply ext_trans; eauto).
    clearbody s2.
    eapply ok_bind with (Q1 := T); [|intros u s3 I3 E3 _; use C].
    destruct (Engine.basic H o).
    + break_if; try done_fail; done_ret.
    + match goal with |- context[if ?c then _ else _] => destruct c end; [done_fail|].
      apply ok_lift; auto; [intros e; apply vars_f_err|]. intros vs _.
      apply ok_modify.
      match goal with |- ok _ _ _ ?s' => set (s3 := s') end.
      assert (I3 : inv s3).
      { apply inv_set_cset; auto. apply Forall_fold_union with (g := fun w => cset_of s2 (c_cs (cell_of s2 w)));
          intros; apply inv_cs_Forall; auto. }
      assert (E3 : ext s s3) by (eapply ext_trans; [exact E2|apply ext_set_cset]).
      assert (Li : b = true -> c_cs (cell_of s3 v) < length (csets s3)).
      { intros Bt. apply (sc_cs (proj2 I3 Bt)). eapply scv_ext; eauto. }
      clearbody s3.
      apply ok_gets.
      eapply ok_conseq; [apply ok_forM with (J := fun s4 => ext s3 s4); auto using ext_refl|unfold T; auto].
      intros w s4 _ I4 E4 E34.
      apply ok_set_cs_end; auto.
      * intros Bt. pose proof (ext_csets E34). specialize (Li Bt). lia.
      * intros s5 _ _ E45. eapply ext_trans; eauto.
Qed.

(* ---- allocation ---- *)
Lemma ok_fresh {B} s0 w (k : nat -> M B) (Q : B -> store -> Prop) s :
  inv s -> ext s0 s ->
  (forall s1, s1 = snd (alloc_var s w) -> inv s1 -> ext s0 s1 -> ext s s1 ->
              ok s0 (k (length (vars s))) Q s1) ->
  ok s0 (bindM (fresh w) k) Q s.
Proof.
  intros I E K. unfold ok, bindM, fresh. cbn [alloc_var].
  apply (K (snd (alloc_var s w))); auto using inv_alloc_var, ext_alloc_var.
  eapply ext_trans; [exact E|apply ext_alloc_var].
Qed.

Definition is_fresh (s : store) (t : tyv) : Prop := exists w, t = V w /\ length (vars s) <= w.

Lemma fresh_list_spec n : forall s, inv s ->
  ok s (fresh_list n)
     (fun fr s1 => (forall w, c_bound (cell_of s1 w) = c_bound (cell_of s w)) /\
                   Forall (sct s1) fr /\ length fr = n /\ Forall (is_fresh s) fr) s.
Proof.
  induction n as [|n IH]; intros s I; cbn [fresh_list].
  - apply ok_ret; auto using ext_refl.
  - apply ok_fresh; auto using ext_refl. intros s1 Es1 I1 E1 _.
    eapply ok_bind; [apply ok_use; [exact E1|apply IH; auto]|].
    intros r s2 I2 E2 ((B2 & S2 & L2 & F2) & E12). apply ok_ret; auto.
    split; [|split; [|split]].
    + intros w. rewrite B2. subst s1. apply alloc_var_bound.
    + constructor; auto. apply scv_V. intros _.
      pose proof (ext_vars E12) as Lv. subst s1. rewrite alloc_var_length in Lv. lia.
    + cbn. lia.
    + constructor.
      * exists (length (vars s)). auto.
      * eapply Forall_impl; [|exact F2]. intros t (w & -> & Lw). exists w. split; auto.
        subst s1. rewrite alloc_var_length in Lw. lia.
Qed.

Lemma noccb_var s v w : c_bound (cell_of s w) = None -> noccb s v (V w).
Proof.
  intros Hw _. destruct (Nat.eq_dec w v) as [->|N]; [left; reflexivity|right; apply nocc_unb; auto].
Qed.

Lemma nocc_fresh s s1 v o fr :
  (forall w, c_bound (cell_of s1 w) = c_bound (cell_of s w)) -> v < length (vars s) ->
  Forall (is_fresh s) fr -> nocc s1 v (O o fr).
Proof.
  intros B1 Lv F. apply nocc_op. intros x Hx. rewrite Forall_forall in F.
  destruct (F x Hx) as (w & -> & Lw). apply nocc_unb; [lia|].
  rewrite B1. rewrite cell_of_oob by exact Lw. reflexivity.
Qed.

(* ---- unify ---- *)
Lemma unify_step f :
  spec_unify f -> spec_bind f -> spec_above f -> spec_below f -> spec_unify (S f).
Proof.
  intros U B Ab Be sub skb skw a0 b0 s I Sa0 Sb0. rewrite unify_S. apply ok_gets. apply ok_gets.
  pose proof (follow_unbound a0 I) as Na. pose proof (follow_unbound b0 I) as Nb.
  pose proof (follow_sct I Sa0) as Sa. pose proof (follow_sct I Sb0) as Sb.
  destruct (follow s a0) as [va|oa xs]; destruct (follow s b0) as [vb|ob ys].
  - apply ok_gets. apply ok_gets. break_if; [apply B; auto using sct_V, noccb_var|done_ret].
  - destruct (Nat.eqb ob Top); [done_ret|].
    apply ok_lift; auto using ext_refl; [intros e; apply occurs_f_err|]. intros oc Hoc.
    destruct oc; [done_fail|].
    assert (No : noccb s va (O ob ys)).
    { intros _. right. eapply occurs_false_nocc; eauto. apply I. }
    destruct (Engine.basic H ob).
    + apply ok_gets. break_if; [done_ret|apply Be; auto using sct_V|apply B; auto using sct_V].
    + destruct (skw || skb); [|apply B; auto using sct_V].
      eapply ok_bind; [apply fresh_list_spec; auto|]. intros fr s1 I1 E1 (B1 & S1 & _ & F1).
      eapply ok_bind with (Q1 := T).
      * use B; [rewrite B1; auto|apply sct_V; eapply sct_ext; eauto|apply sct_O; auto|].
        intros Bt. right. eapply nocc_fresh; eauto. apply (sct_V Sa Bt).
      * intros u s2 I2 E2 _. use U; eapply sct_ext; eauto.
  - destruct (Nat.eqb oa Bottom); [done_ret|].
    apply ok_lift; auto using ext_refl; [intros e; apply occurs_f_err|]. intros oc Hoc.
    destruct oc; [done_fail|].
    assert (No : noccb s vb (O oa xs)).
    { intros _. right. eapply occurs_false_nocc; eauto. apply I. }
    destruct (Engine.basic H oa).
    + apply ok_gets. break_if; [done_ret|apply Ab; auto using sct_V|apply B; auto using sct_V].
    + destruct (skw || skb); [|apply B; auto using sct_V].
      eapply ok_bind; [apply fresh_list_spec; auto|]. intros fr s1 I1 E1 (B1 & S1 & _ & F1).
      eapply ok_bind with (Q1 := T).
      * use B; [rewrite B1; auto|apply sct_V; eapply sct_ext; eauto|apply sct_O; auto|].
        intros Bt. right. eapply nocc_fresh; eauto. apply (sct_V Sb Bt).
      * intros u s2 I2 E2 _. use U; eapply sct_ext; eauto.
  - break_if; try done_ret; try done_fail.
    apply sct_args in Sa. apply sct_args in Sb.
    clear Na Nb Sa0 Sb0.
    assert (G : forall vs ys s1, inv s1 -> ext s s1 -> Forall (sct s) ys ->
              ok s1 ((fix go (vs : list bool) (xs ys : list tyv) : M unit :=
                 match vs, xs, ys with
                 | v :: vs', x :: xs', y :: ys' =>
                     (if v then Engine.unify H f sub skb skw x y else Engine.unify H f sub skb skw y x) ;;;
                     go vs' xs' ys'
                 | _, _, _ => ret tt
                 end) vs xs ys) T s1); [|apply G; auto using ext_refl].
    induction xs as [|x xs IHx]; intros vs ys' s1 I1 E1 Sy; destruct vs as [|b' vs]; try done_ret;
      destruct ys' as [|y ys']; try done_ret.
    inversion Sa; subst. inversion Sy; subst.
    eapply ok_bind with (Q1 := T).
    + destruct b'; apply U; auto; eapply sct_ext; eauto.
    + intros u s2 I2 E2 _. use IHx. eapply ext_trans; eauto.
Qed.

(* ---- the induction on fuel ---- *)
Theorem specs_all : forall f, specs f.
Proof.
  induction f as [|f (U & B & Ab & Be & C & F & Mn & Fx)]; [apply specs_0|].
  unfold specs. repeat apply conj.
  - apply unify_step; auto.
  - apply bind_step; auto.
  - apply above_step; auto.
  - apply below_step; auto.
  - apply cc_step; auto.
  - apply fulfill_step; auto.
  - apply minimize_step; auto.
  - apply fix_step; auto.
Qed.

Lemma unify_ok f : spec_unify f. Proof. apply specs_all. Qed.
Lemma bind_ok f : spec_bind f. Proof. apply specs_all. Qed.
Lemma above_ok f : spec_above f. Proof. apply specs_all. Qed.
Lemma below_ok f : spec_below f. Proof. apply specs_all. Qed.
Lemma cc_ok f : spec_cc f. Proof. apply specs_all. Qed.
Lemma fulfill_ok f : spec_fulfill f. Proof. apply specs_all. Qed.
Lemma minimize_ok f : spec_minimize f. Proof. apply specs_all. Qed.
Lemma fix_ok f : spec_fix f. Proof. apply specs_all. Qed.

(* ---- schemas ---- *)
Section sty_ind'.
  Variable P : sty -> Prop.
  Hypothesis HV : forall i, P (SVar i).
  Hypothesis HW : P SWild.
  Hypothesis HO : forall o args, Forall P args -> P (SOp o args).
  Fixpoint sty_ind' (t : sty) : P t :=
    match t with
    | SVar i => HV i
    | SWild => HW
    | SOp o args =>
        HO o ((fix go (l : list sty) : Forall P l :=
                 match l with
                 | [] => Forall_nil P
                 | x :: r => Forall_cons x (sty_ind' x) (go r)
                 end) args)
    end.
End sty_ind'.

(* well-scoped schemas: schematic variables below the declared number *)
Inductive sty_wf (n : nat) : sty -> Prop :=
| wf_SVar i : i < n -> sty_wf n (SVar i)
| wf_SWild : sty_wf n SWild
| wf_SOp o args : Forall (sty_wf n) args -> sty_wf n (SOp o args).

Definition sconstr_wf (n : nat) (sc : sconstr) : Prop :=
  match sc with
  | SCSub r t _ => sty_wf n r /\ sty_wf n t
  | SCElim r alts => sty_wf n r /\ Forall (sty_wf n) alts
  end.

Definition schema_wf (sc : schema) : Prop :=
  sty_wf (s_n sc) (s_body sc) /\ Forall (sconstr_wf (s_n sc)) (s_constrs sc).

Lemma eval_sty_ok env : forall t s, inv s -> Forall (sct s) env -> (b = true -> sty_wf (length env) t) ->
  ok s (eval_sty env t) (fun r s1 => sct s1 r) s.
Proof.
  induction t as [i| |o args IH] using sty_ind'; intros s I Se Wf; cbn [eval_sty].
  - apply ok_gets_end; auto using ext_refl. apply follow_sct; auto.
    intros Bt. specialize (Wf Bt). inversion Wf; subst.
    rewrite Forall_forall in Se. apply Se; auto. apply nth_In. auto.
  - apply ok_fresh; auto using ext_refl. intros s1 Es1 I1 E1 _. apply ok_ret; auto.
    apply scv_V. intros _. subst s1. rewrite alloc_var_length. lia.
  - eapply ok_bind with (Q1 := fun xs s1 => Forall (sct s1) xs);
      [|intros xs s1 I1 E1 Sx; apply ok_ret; auto using sct_O].
    assert (Wa : b = true -> Forall (sty_wf (length env)) args).
    { intros Bt. specialize (Wf Bt). inversion Wf; auto. }
    clear Wf. revert s I Se. induction IH as [|a r Ha Hr IHr]; intros s I Se; [apply ok_ret; auto using ext_refl|].
    eapply ok_bind; [apply Ha; auto|].
    { intros Bt. specialize (Wa Bt). inversion Wa; auto. }
    intros x s1 I1 E1 Sx.
    assert (Wr : b = true -> Forall (sty_wf (length env)) r).
    { intros Bt. specialize (Wa Bt). inversion Wa; auto. }
    assert (Se1 : Forall (sct s1) env) by (eapply scts_ext; eauto).
    eapply ok_bind with (Q1 := fun xs s2 => Forall (sct s2) xs /\ ext s1 s2).
    + use' IHr; auto; try (cbv beta; auto).
    + intros xs s2 I2 E2 (Sxs & E12). apply ok_ret; auto. constructor; auto. eapply sct_ext; eauto.
Qed.

Lemma eval_sty_list_ok env : forall l s, inv s -> Forall (sct s) env ->
  (b = true -> Forall (sty_wf (length env)) l) ->
  ok s ((fix go (l : list sty) : M (list tyv) :=
           match l with
           | [] => ret []
           | a :: rest => x <- eval_sty env a ;; xs <- go rest ;; ret (x :: xs)
           end) l) (fun r s1 => Forall (sct s1) r) s.
Proof.
  induction l as [|a r IH]; intros s I Se Wl; [apply ok_ret; auto using ext_refl|].
  eapply ok_bind; [apply eval_sty_ok; auto|].
  { intros Bt. specialize (Wl Bt). inversion Wl; auto. }
  intros x s1 I1 E1 Sx.
  assert (Wr : b = true -> Forall (sty_wf (length env)) r).
  { intros Bt. specialize (Wl Bt). inversion Wl; auto. }
  assert (Se1 : Forall (sct s1) env) by (eapply scts_ext; eauto).
  eapply ok_bind with (Q1 := fun xs s2 => Forall (sct s2) xs /\ ext s1 s2).
  - use' IH; auto; try (cbv beta; auto).
  - intros xs s2 I2 E2 (Sxs & E12). apply ok_ret; auto. constructor; auto. eapply sct_ext; eauto.
Qed.

Lemma ok_alloc_constr {B} s0 k (K : nat -> M B) (Q : B -> store -> Prop) s :
  inv s -> ext s0 s -> (k_elim k = false -> length (k_alts k) = 1) ->
  Forall (sct s) (constr_terms k) ->
  (forall s1, s1 = snd (alloc_constr s k) -> inv s1 -> ext s0 s1 -> ext s s1 ->
              ok s0 (K (length (constrs s))) Q s1) ->
  ok s0 (bindM (fun s => let (c, s') := alloc_constr s k in MOk c s') K) Q s.
Proof.
  intros I E A Sk HK. unfold ok, bindM. cbn [alloc_constr].
  apply (HK (snd (alloc_constr s k))); auto using inv_alloc_constr, ext_alloc_constr.
  eapply ext_trans; [exact E|apply ext_alloc_constr].
Qed.

Lemma new_constraint_ok fuel k s :
  inv s -> (k_elim k = false -> length (k_alts k) = 1) -> Forall (sct s) (constr_terms k) ->
  ok s (new_constraint H fuel k) T s.
Proof.
  intros I A Sk. unfold new_constraint.
  apply ok_alloc_constr; auto using ext_refl. intros s1 Es1 I1 E1 _.
  set (c := length (constrs s)).
  assert (Lc : c < length (constrs s1)) by (subst s1; rewrite alloc_constr_length; unfold c; lia).
  clear Es1.
  apply ok_lift; auto; [intros e; apply closure_f_err|]. intros vs Hvs.
  apply closure_f_unbound in Hvs; auto; [|apply I1].
  eapply ok_bind.
  - apply ok_forM with (J := fun s2 => (forall w, c_bound (cell_of s2 w) = c_bound (cell_of s1 w)) /\ ext s1 s2);
      auto using ext_refl.
    intros v s2 Hv I2 E2 (B2 & E12). apply ok_gets.
    rewrite B2. rewrite Forall_forall in Hvs. rewrite (Hvs v Hv).
    apply ok_modify_end.
    + apply inv_set_cset; auto. apply Forall_ins; [|apply inv_cs_Forall; auto].
      pose proof (ext_constrs E12). lia.
    + eapply ext_trans; [exact E2|apply ext_set_cset].
    + split; [exact B2|]. eapply ext_trans; [exact E12|apply ext_set_cset].
  - intros u s2 I2 E2 (B2 & E12).
    eapply ok_bind with (Q1 := T); [use fulfill_ok; pose proof (ext_constrs E12); lia|].
    intros d s3 I3 E3 _. done_ret.
Qed.

Lemma eval_constr_ok fuel env sc s : inv s -> Forall (sct s) env ->
  (b = true -> sconstr_wf (length env) sc) -> ok s (eval_constr H fuel env sc) T s.
Proof.
  intros I Se Wf. destruct sc as [r t strict|r alts]; cbn [eval_constr].
  - eapply ok_bind; [apply eval_sty_ok; auto|]. { intros Bt. apply (Wf Bt). }
    intros r' s1 I1 E1 Sr.
    eapply ok_bind with (Q1 := fun t' s2 => sct s2 t' /\ ext s1 s2).
    { assert (Se1 : Forall (sct s1) env) by (eapply scts_ext; eauto).
      assert (Wt : b = true -> sty_wf (length env) t) by (intros Bt; apply (Wf Bt)).
      use' eval_sty_ok; auto; try (cbv beta; auto). }
    intros t' s2 I2 E2 (St & E12).
    apply ok_gets. apply ok_gets. use new_constraint_ok.
    unfold constr_terms; cbn [k_ref k_alts].
    constructor; [|constructor; [|constructor]]; apply follow_sct; auto.
    eapply sct_ext; eauto.
  - eapply ok_bind; [apply eval_sty_ok; auto|]. { intros Bt. apply (Wf Bt). }
    intros r' s1 I1 E1 Sr.
    eapply ok_bind with (Q1 := fun t' s2 => Forall (sct s2) t' /\ ext s1 s2).
    { assert (Se1 : Forall (sct s1) env) by (eapply scts_ext; eauto).
      assert (Wt : b = true -> Forall (sty_wf (length env)) alts) by (intros Bt; apply (Wf Bt)).
      use' eval_sty_list_ok; auto; try (cbv beta; auto). }
    intros alts' s2 I2 E2 (St & E12).
    apply ok_gets. apply ok_gets. use new_constraint_ok. { cbn. discriminate. }
    unfold constr_terms; cbn [k_ref k_alts]. constructor.
    + apply follow_sct; auto. eapply sct_ext; eauto.
    + rewrite Forall_forall in *. intros x Hx. apply in_map_iff in Hx. destruct Hx as (y & <- & Hy).
      apply follow_sct; auto.
Qed.

Lemma instance_ok fuel sc s : inv s -> (b = true -> schema_wf sc) ->
  ok s (instance H fuel sc) (fun r s1 => sct s1 r) s.
Proof.
  intros I Wf. unfold instance.
  eapply ok_bind; [apply fresh_list_spec; auto|]. intros env s1 I1 E1 (_ & Se & Le & _).
  eapply ok_bind with (Q1 := fun t' s2 => sct s2 t' /\ ext s1 s2).
  { assert (Wb : b = true -> sty_wf (length env) (s_body sc)) by (rewrite Le; intros Bt; apply (Wf Bt)).
    use' eval_sty_ok; auto; try (cbv beta; auto). }
  intros body s2 I2 E2 (Sb & E12).
  eapply ok_bind with (Q1 := fun _ s3 => ext s2 s3).
  - apply ok_forM with (J := fun s3 => ext s2 s3); auto using ext_refl.
    intros c s3 Hc I3 E3 E23.
    assert (Se3 : Forall (sct s3) env).
    { eapply scts_ext; [|exact Se]. eapply ext_trans; eauto. }
    assert (Wc : b = true -> sconstr_wf (length env) c).
    { rewrite Le. intros Bt. destruct (Wf Bt) as (_ & Wc). rewrite Forall_forall in Wc. auto. }
    use' eval_constr_ok; auto.
    cbv beta. intros u s4 _ _ (_ & E34). eapply ext_trans; eauto.
  - intros u s3 I3 E3 E23.
    assert (Sb3 : sct s3 body) by (eapply sct_ext; eauto).
    use' fix_ok; auto.
    cbv beta. intros r s4 _ _ ((_ & Sr) & _). exact Sr.
Qed.

Lemma apply_ok fuel f0 x0 fixb s : inv s -> sct s f0 -> sct s x0 ->
  ok s (apply H fuel f0 x0 fixb) (fun r s1 => sct s1 r) s.
Proof.
  intros I Sf0 Sx0. unfold apply. apply ok_gets. apply ok_gets.
  pose proof (follow_unbound f0 I) as Nf.
  pose proof (follow_sct I Sf0) as Sf. pose proof (follow_sct I Sx0) as Sx.
  eapply ok_bind with (Q1 := fun f' s1 => sct s1 f').
  - destruct (follow s f0) as [vf|o args]; [|apply ok_ret; auto using ext_refl].
    apply ok_fresh; auto using ext_refl. intros s1 Es1 I1 E1 _.
    apply ok_fresh; auto. intros s2 Es2 I2 E2 E12.
    eapply ok_bind with (Q1 := T).
    + use bind_ok.
      5:{ intros Bt. right. pose proof (sct_V Sf Bt) as Lvf.
          apply nocc_op. intros x [<-|[<-|[]]];
            (apply nocc_unb; [|subst s2 s1; rewrite !alloc_var_bound; rewrite cell_of_oob; [reflexivity|]]);
            try (subst s1; rewrite alloc_var_length); try rewrite alloc_var_length; lia. }
      * subst s2 s1. rewrite !alloc_var_bound. exact Nf.
      * exact Logic.I.
      * apply sct_V. eapply sct_ext; [exact E2|exact Sf].
      * apply sct_O. constructor; [|constructor; [|constructor]]; apply scv_V; intros _.
        -- pose proof (ext_vars E12) as L. subst s1. rewrite alloc_var_length in L. lia.
        -- subst s2. rewrite alloc_var_length. lia.
    + intros u s3 I3 E3 _. apply ok_gets_end; auto. apply follow_sct; auto. eapply sct_ext; eauto.
  - intros f' s1 I1 E1 Sf'.
    destruct f' as [v|o [|lft [|rgt [|z r]]]]; try done_fail; break_if; try done_fail;
      try (apply ok_ret; auto using sct_O0; fail).
    + apply sct_args in Sf'. inversion Sf' as [|? ? Sl Sr']; subst. inversion Sr' as [|? ? Sr _]; subst.
      assert (Sx1 : sct s1 (follow s x0)) by (eapply sct_ext; eauto).
      eapply ok_bind with (Q1 := fun _ s2 => ext s1 s2).
      { use' unify_ok; auto. cbv beta. intros ? ? ? ? (_ & ?); auto. }
      intros u s2 I2 E2 E12.
      assert (Sr2 : sct s2 rgt) by (eapply sct_ext; eauto).
      use' fix_ok; auto.
      cbv beta. intros r s4 _ _ ((_ & Sr4) & _). exact Sr4.
    + apply sct_args in Sf'. inversion Sf' as [|? ? Sl Sr']; subst. inversion Sr' as [|? ? Sr _]; subst.
      assert (Sx1 : sct s1 (follow s x0)) by (eapply sct_ext; eauto).
      eapply ok_bind with (Q1 := fun _ s2 => ext s1 s2).
      { use' unify_ok; auto. cbv beta. intros ? ? ? ? (_ & ?); auto. }
      intros u s2 I2 E2 E12. apply ok_ret; auto. eapply sct_ext; eauto.
Qed.

(* ---- command programs ---- *)
Definition cmd_wf (n : nat) (c : cmd) : Prop :=
  match c with
  | CInst sc => schema_wf sc
  | CApply f x _ => f < n /\ x < n
  | CUnify a b0 _ => a < n /\ b0 < n
  | CFix a _ => a < n
  end.

(* n = number of values pushed so far *)
Fixpoint prog_wf (n : nat) (cs : list cmd) : Prop :=
  match cs with
  | [] => True
  | c :: r => cmd_wf n c /\ prog_wf (match c with CUnify _ _ _ => n | _ => S n end) r
  end.

Lemma sct_val s vals i : Forall (sct s) vals -> (b = true -> i < length vals) -> sct s (val vals i).
Proof.
  intros F L Bt. rewrite Forall_forall in F. apply F; auto. apply nth_In. auto.
Qed.

Definition vals_post (c : cmd) (vals : list tyv) : list tyv -> store -> Prop :=
  fun vals' s1 => Forall (sct s1) vals' /\
                  length vals' = match c with CUnify _ _ _ => length vals | _ => S (length vals) end.

Lemma run_cmd_ok fuel c vals s : inv s -> Forall (sct s) vals -> (b = true -> cmd_wf (length vals) c) ->
  ok s (run_cmd H fuel c vals) (vals_post c vals) s.
Proof.
  intros I Sv Wf. unfold vals_post.
  destruct c as [sc|f x fixb|a b0 sub|a pl]; cbn [run_cmd].
  - eapply ok_bind; [apply instance_ok; auto|]. intros t s1 I1 E1 St. apply ok_ret; auto.
    split; [apply Forall_snoc; auto; eapply scts_ext; eauto|rewrite app_length; cbn; lia].
  - eapply ok_bind; [apply apply_ok; auto; apply sct_val; auto; intros Bt; apply (Wf Bt)|].
    intros t s1 I1 E1 St. apply ok_ret; auto.
    split; [apply Forall_snoc; auto; eapply scts_ext; eauto|rewrite app_length; cbn; lia].
  - eapply ok_bind with (Q1 := T); [apply unify_ok; auto; apply sct_val; auto; intros Bt; apply (Wf Bt)|].
    intros t s1 I1 E1 _. apply ok_ret; auto. split; auto. eapply scts_ext; eauto.
  - eapply ok_bind; [apply fix_ok; auto; apply sct_val; auto|].
    intros t s1 I1 E1 (_ & St). apply ok_ret; auto.
    split; [apply Forall_snoc; auto; eapply scts_ext; eauto|rewrite app_length; cbn; lia].
Qed.

Definition no_crash (r : option (err * nat)) : Prop :=
  match r with Some (e, _) => forall n, e <> ECrash n | None => True end.

Theorem run_cmds_ok : forall fuel cs i vals s, inv s -> Forall (sct s) vals ->
  (b = true -> prog_wf (length vals) cs) ->
  inv (snd (run_cmds H fuel cs i vals s)) /\
  ext s (snd (run_cmds H fuel cs i vals s)) /\
  no_crash (fst (fst (run_cmds H fuel cs i vals s))) /\
  Forall (sct (snd (run_cmds H fuel cs i vals s))) (snd (fst (run_cmds H fuel cs i vals s))).
Proof.
  intros fuel. induction cs as [|c cs IH]; intros i vals s I Sv Wf; cbn [run_cmds].
  - cbn. auto using ext_refl.
  - assert (Wc : b = true -> cmd_wf (length vals) c) by (intros Bt; apply (Wf Bt)).
    pose proof (run_cmd_ok fuel c I Sv Wc) as K. unfold ok in K.
    destruct (run_cmd H fuel c vals s) as [vals' s'|e s'].
    + destruct K as (I' & E' & Sv' & Lv').
      assert (Wr : b = true -> prog_wf (length vals') cs).
      { intros Bt. destruct (Wf Bt) as (_ & Wr). rewrite Lv'. exact Wr. }
      destruct (IH (S i) vals' s' I' Sv' Wr) as (I2 & E2 & N2 & S2).
      split; [exact I2|split; [eapply ext_trans; eauto|split; [exact N2|exact S2]]].
    + destruct K as (I' & E' & N'). cbn. repeat (split; auto). eapply scts_ext; eauto.
Qed.

End Specs.

(* ------------------------------------------------------------------ *)
(* the exported statements                                              *)
(* ------------------------------------------------------------------ *)

(* the full invariant (a)-(d) asked for: core + well-scopedness *)
Definition inv (s : store) : Prop := invb true s.

Lemma inv_core s : inv s -> core s. Proof. intros I. apply I. Qed.
Lemma inv_wsc s : inv s -> wsc s. Proof. intros I. apply (proj2 I eq_refl). Qed.
Lemma inv_intro s : core s -> wsc s -> inv s. Proof. intros C W. split; auto. Qed.

(* every program, whatever its indices: no crash, and the core invariant holds at the end *)
Theorem engine_nocrash : forall H fuel sc prog e i vals s,
  run_cmds H fuel prog 0 [] (empty_store sc) = (Some (e, i), vals, s) -> forall n, e <> ECrash n.
Proof.
  intros H fuel sc prog e i vals s R.
  destruct (@run_cmds_ok H false fuel prog 0 [] (empty_store sc) (inv_empty false sc)) as (_ & _ & N & _);
    [constructor|discriminate|].
  rewrite R in N. exact N.
Qed.

Theorem engine_core : forall H fuel sc prog r vals s,
  run_cmds H fuel prog 0 [] (empty_store sc) = (r, vals, s) -> core s.
Proof.
  intros H fuel sc prog r vals s R.
  destruct (@run_cmds_ok H false fuel prog 0 [] (empty_store sc) (inv_empty false sc)) as (I & _);
    [constructor|discriminate|].
  rewrite R in I. apply I.
Qed.

(* well-scoped programs: the full invariant holds at the end and the values are in scope *)
Theorem engine_inv : forall H fuel sc prog r vals s, prog_wf 0 prog ->
  run_cmds H fuel prog 0 [] (empty_store sc) = (r, vals, s) ->
  inv s /\ Forall (tsc (length (vars s))) vals.
Proof.
  intros H fuel sc prog r vals s Wf R.
  destruct (@run_cmds_ok H true fuel prog 0 [] (empty_store sc) (inv_empty true sc)) as (I & _ & _ & S);
    [constructor|auto|].
  rewrite R in I, S. cbn [fst snd] in *. split; [exact I|].
  rewrite Forall_forall in *. intros x Hx. apply (S x Hx eq_refl).
Qed.

(* ---- C16, allocation part: instance and apply only ever extend the store ---- *)
Definition mstore {A} (r : mres A) : store := match r with MOk _ s | MEr _ s => s end.

Lemma ok_ext {A} b s0 (m : M A) Q s : ok b s0 m Q s -> ext s0 (mstore (m s)).
Proof. unfold ok. destruct (m s); cbn; tauto. Qed.

Lemma core_invb s : core s -> invb false s.
Proof. intros C. split; [exact C|discriminate]. Qed.

Theorem instance_ext H fuel sc s : core s -> ext s (mstore (instance H fuel sc s)).
Proof.
  intros C. eapply ok_ext. apply (@instance_ok H false fuel sc s (core_invb C)). discriminate.
Qed.

Theorem apply_ext H fuel f x fixb s : core s -> ext s (mstore (apply H fuel f x fixb s)).
Proof.
  intros C. eapply ok_ext. apply (@apply_ok H false fuel f x fixb s (core_invb C)); discriminate.
Qed.

Theorem readers_only_fuel : forall H fuel s,
  (forall sub aw x y e, match_f H fuel s sub aw x y = Er e -> e = EFuel) /\
  (forall x y e, occurs_f H fuel s x y = Er e -> e = EFuel) /\
  (forall t acc e, vars_f fuel s t acc = Er e -> e = EFuel) /\
  (forall todo seen e, closure_f fuel s todo seen = Er e -> e = EFuel).
Proof.
  intros H fuel s. repeat split; intros.
  - eapply match_f_err; eauto.
  - eapply occurs_f_err; eauto.
  - eapply vars_f_err; eauto.
  - eapply closure_f_err; eauto.
Qed.

Theorem fresh_alloc : forall H fuel s, core s ->
  (forall sc, let s' := mstore (instance H fuel sc s) in
     length (vars s) <= length (vars s') /\ length (csets s) <= length (csets s') /\
     length (constrs s) <= length (constrs s') /\
     forall v t, c_bound (cell_of s v) = Some t -> c_bound (cell_of s' v) = Some t) /\
  (forall f x fixb, let s' := mstore (apply H fuel f x fixb s) in
     length (vars s) <= length (vars s') /\ length (csets s) <= length (csets s') /\
     length (constrs s) <= length (constrs s') /\
     forall v t, c_bound (cell_of s v) = Some t -> c_bound (cell_of s' v) = Some t).
Proof.
  intros H fuel s C. split.
  - intros sc. destruct (instance_ext H fuel sc C) as [a b c _ e]. cbv zeta. auto.
  - intros f x fixb. destruct (apply_ext H fuel f x fixb C) as [a b c _ e]. cbv zeta. auto.
Qed.

(* ------------------------------------------------------------------ *)
(* fuel bounds for the pure readers                                     *)
(* ------------------------------------------------------------------ *)

(* [dle s t n]: looking through bindings, t has operator-nesting depth <= n *)
Inductive dle (s : store) : tyv -> nat -> Prop :=
| dle_unb v n : c_bound (cell_of s v) = None -> dle s (V v) n
| dle_bnd v t n : c_bound (cell_of s v) = Some t -> dle s t n -> dle s (V v) n
| dle_op o args n : (forall x, In x args -> dle s x n) -> dle s (O o args) (S n).

Lemma dle_mono s t n : dle s t n -> forall m, n <= m -> dle s t m.
Proof.
  induction 1 as [v n Hv|v t n Hv D IH|o args n D IH]; intros m L.
  - apply dle_unb; auto.
  - eapply dle_bnd; eauto.
  - destruct m as [|m]; [lia|]. apply dle_op. intros x Hx. apply IH; auto. lia.
Qed.

(* every well-founded term has a depth *)
Lemma wft_dle s t : wft s t -> exists n, dle s t n.
Proof.
  induction 1 as [v Hv|v t Hv W (n & D)|o args W IH].
  - exists 0. apply dle_unb; auto.
  - exists n. eapply dle_bnd; eauto.
  - assert (G : exists n, forall x, In x args -> dle s x n).
    { clear W. induction args as [|a r IHr]; [exists 0; intros x []|].
      destruct (IH a (or_introl eq_refl)) as (na & Da).
      destruct IHr as (nr & Dr); [intros x Hx; apply IH; right; exact Hx|].
      exists (max na nr). intros x [<-|Hx]; eapply dle_mono; eauto; lia. }
    destruct G as (n & D). exists (S n). apply dle_op. exact D.
Qed.

Lemma dle_follow_f s n : forall fuel t, dle s t n -> dle s (follow_f fuel s t) n.
Proof.
  induction fuel as [|f IH]; intros [v|o args] D; cbn; auto.
  - destruct (c_bound (cell_of s v)); auto.
  - destruct (c_bound (cell_of s v)) as [t'|] eqn:Hv; auto.
    apply IH. inversion D; subst; congruence.
Qed.

Lemma dle_args s o args n : dle s (O o args) n -> exists n', n = S n' /\ forall x, In x args -> dle s x n'.
Proof. intros D; inversion D; subst. eauto. Qed.

Ltac break_ifs := repeat match goal with |- context[if ?c then _ else _] => destruct c eqn:? end.

Section Fuel.
Variable H : hier.

Theorem match_f_fuel : forall fuel s sub aw a b n, dle s a n -> dle s b n -> n < fuel ->
  exists r, match_f H fuel s sub aw a b = Ok r.
Proof.
  induction fuel as [|f IH]; intros s sub aw a b n Da Db L; [lia|]. cbn [match_f].
  apply (dle_follow_f (S (length (vars s)))) in Da. apply (dle_follow_f (S (length (vars s)))) in Db.
  fold (follow s a) in Da. fold (follow s b) in Db.
  destruct (follow s a) as [va|oa xs]; destruct (follow s b) as [vb|ob ys].
  - break_ifs; eauto. destruct (c_lower (cell_of s va)); eauto.
    destruct (c_upper (cell_of s vb)); eauto. break_ifs; eauto.
  - break_ifs; eauto.
  - break_ifs; eauto.
  - break_ifs; eauto.
    destruct (dle_args Da) as (n' & -> & Dx). destruct (dle_args Db) as (n'' & E & Dy).
    inversion E; subst n''. clear Da Db E.
    generalize (Some true) as acc. generalize (variance H oa) as vs. revert ys Dy.
    induction xs as [|x xs IHx]; intros ys Dy vs acc; destruct vs as [|v vs]; eauto;
      destruct ys as [|y ys]; eauto.
    assert (Dx' : forall z, In z xs -> dle s z n') by (intros z Hz; apply Dx; right; exact Hz).
    assert (Dy' : forall z, In z ys -> dle s z n') by (intros z Hz; apply Dy; right; exact Hz).
    assert (Dxx : dle s x n') by (apply Dx; left; reflexivity).
    assert (Dyy : dle s y n') by (apply Dy; left; reflexivity).
    destruct v.
    + destruct (IH s sub aw x y n' Dxx Dyy) as ([[|]|] & ->); [lia| | |]; eauto.
    + destruct (IH s sub aw y x n' Dyy Dxx) as ([[|]|] & ->); [lia| | |]; eauto.
Qed.

Theorem vars_f_fuel : forall fuel s t acc n, dle s t n -> n < fuel ->
  exists r, vars_f fuel s t acc = Ok r.
Proof.
  induction fuel as [|f IH]; intros s t acc n D L; [lia|]. cbn [vars_f].
  apply (dle_follow_f (S (length (vars s)))) in D. fold (follow s t) in D.
  destruct (follow s t) as [v|o args]; eauto.
  destruct (dle_args D) as (n' & -> & Dx). clear D. revert acc.
  induction args as [|x xs IHx]; intros acc; eauto.
  destruct (IH s x acc n') as (acc' & ->); [apply Dx; left; reflexivity|lia|].
  apply IHx. intros z Hz. apply Dx. right. exact Hz.
Qed.

Theorem occurs_f_fuel : forall fuel s a b n m, dle s a n -> dle s b m -> n + m + 1 < fuel ->
  exists r, occurs_f H fuel s a b = Ok r.
Proof.
  induction fuel as [|f IH]; intros s a b n m Da Db L; [lia|]. cbn [occurs_f].
  assert (Db0 := Db).
  apply (dle_follow_f (S (length (vars s)))) in Da. apply (dle_follow_f (S (length (vars s)))) in Db.
  fold (follow s a) in Da. fold (follow s b) in Db.
  destruct (@match_f_fuel f s false false (follow s a) (follow s b) (n + m)) as (r & ->);
    [eapply dle_mono; eauto; lia|eapply dle_mono; eauto; lia|lia|].
  assert (G : exists r', match follow s a with
       | V _ => Ok false
       | O _ args =>
           (fix go (l : list tyv) : res bool :=
              match l with
              | [] => Ok false
              | t :: r0 =>
                  match occurs_f H f s t (follow s b) with
                  | Ok true => Ok true
                  | Ok false => go r0
                  | Er e0 => Er e0
                  end
              end) args
       end = Ok r').
  { destruct (follow s a) as [va|oa xs]; eauto.
    destruct (dle_args Da) as (n' & -> & Dx). clear Da.
    induction xs as [|x xs IHx]; eauto.
    destruct (IH s x (follow s b) n' m) as ([|] & ->); eauto; [apply Dx; left; reflexivity|lia|].
    apply IHx. intros z Hz. apply Dx. right. exact Hz. }
  destruct G as (r' & G). destruct r as [[|]|]; eauto.
Qed.
End Fuel.

Lemma wft_all s : wsc s -> forall t, wft s t.
Proof.
  intros W. induction t as [v|o args IH] using tyv_ind'.
  - apply (sc_wf W).
  - apply wft_op. rewrite Forall_forall in IH. exact IH.
Qed.

(* under the full invariant the pure readers terminate: some amount of fuel
   (the depth of the followed terms) is enough, and more never hurts *)
Theorem readers_terminate : forall H s, inv s -> forall a b, exists N, forall fuel, N < fuel ->
  (forall sub aw, exists r, match_f H fuel s sub aw a b = Ok r) /\
  (exists r, occurs_f H fuel s a b = Ok r) /\
  (forall acc, exists r, vars_f fuel s a acc = Ok r).
Proof.
  intros H s I a b.
  destruct (wft_dle (wft_all (inv_wsc I) a)) as (n & Da).
  destruct (wft_dle (wft_all (inv_wsc I) b)) as (m & Db).
  exists (n + m + 1). intros fuel L. split; [|split].
  - intros sub aw. apply match_f_fuel with (n := n + m); try lia; eapply dle_mono; eauto; lia.
  - eapply occurs_f_fuel; eauto.
  - intros acc. eapply vars_f_fuel; eauto. lia.
Qed.
