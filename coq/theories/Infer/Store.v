(* The heap of the inference engine: type variables with bounds, wildcard flag,
   binding and an aliased constraint set; constraint objects.
   Models the mutable state of transforge/type.py (TypeVariable, Constraint). *)
From Coq Require Import List Arith Bool Lia.
Import ListNotations.
From TF Require Import Base.Hier Base.Ty.

(* type instances: variables are references into the store *)
Inductive tyv : Type := V (v : nat) | O (o : nat) (args : list tyv).

Section tyv_ind'.
  Variable P : tyv -> Prop.
  Hypothesis HV : forall v, P (V v).
  Hypothesis HO : forall o args, Forall P args -> P (O o args).
  Fixpoint tyv_ind' (t : tyv) : P t :=
    match t with
    | V v => HV v
    | O o args =>
        HO o args ((fix go (l : list tyv) : Forall P l :=
                      match l with
                      | [] => Forall_nil P
                      | x :: r => Forall_cons x (tyv_ind' x) (go r)
                      end) args)
    end.
End tyv_ind'.

Fixpoint inj (t : ty) : tyv := match t with TOp o args => O o (map inj args) end.

Record cell := mkCell {
  c_wild : bool;
  c_bound : option tyv;
  c_lower : option nat;
  c_upper : option nat;
  c_cs : nat            (* which constraint set this variable currently points to *)
}.

(* SubtypeConstraint: k_alts = [target]; EliminationConstraint: alternatives *)
Record constr := mkConstr {
  k_elim : bool;
  k_ref : tyv;
  k_alts : list tyv;
  k_strict : bool;
  k_done : bool
}.

Record store := mkStore {
  vars : list cell;
  csets : list (list nat);     (* sorted duplicate-free lists of constraint ids *)
  constrs : list constr;
  sched : list nat             (* re-check schedule: one entry per choice point *)
}.

Definition empty_store (sc : list nat) : store := mkStore [] [] [] sc.

Definition dcell : cell := mkCell false None None None 0.
Definition dconstr : constr := mkConstr false (V 0) [] false false.

Definition cell_of (s : store) (v : nat) : cell := nth v (vars s) dcell.
Definition constr_of (s : store) (c : nat) : constr := nth c (constrs s) dconstr.
Definition cset_of (s : store) (i : nat) : list nat := nth i (csets s) [].

Fixpoint upd {A} (i : nat) (x : A) (l : list A) : list A :=
  match l, i with
  | [], _ => []
  | _ :: r, 0 => x :: r
  | y :: r, S j => y :: upd j x r
  end.

Definition set_cell (s : store) (v : nat) (c : cell) : store :=
  mkStore (upd v c (vars s)) (csets s) (constrs s) (sched s).
Definition set_constr (s : store) (i : nat) (k : constr) : store :=
  mkStore (vars s) (csets s) (upd i k (constrs s)) (sched s).
Definition set_cset (s : store) (i : nat) (l : list nat) : store :=
  mkStore (vars s) (upd i l (csets s)) (constrs s) (sched s).

(* TypeVariable(wildcard): a fresh cell with its own empty constraint set *)
Definition alloc_var (s : store) (wild : bool) : nat * store :=
  let v := length (vars s) in
  let i := length (csets s) in
  (v, mkStore (vars s ++ [mkCell wild None None None i]) (csets s ++ [[]]) (constrs s) (sched s)).

Definition alloc_constr (s : store) (k : constr) : nat * store :=
  let c := length (constrs s) in
  (c, mkStore (vars s) (csets s) (constrs s ++ [k]) (sched s)).

(* sorted-set operations on lists of nat *)
Fixpoint ins (x : nat) (l : list nat) : list nat :=
  match l with
  | [] => [x]
  | y :: r => if x <? y then x :: l else if x =? y then l else y :: ins x r
  end.
Definition union (a b : list nat) : list nat := fold_right ins b a.
Definition remove_nat (x : nat) (l : list nat) : list nat := filter (fun y => negb (x =? y)) l.
Definition mem (x : nat) (l : list nat) : bool := existsb (Nat.eqb x) l.

(* Lehmer-style decoding of a schedule entry into an order of the pending list *)
Fixpoint remove_nth {A} (i : nat) (l : list A) : list A :=
  match l, i with
  | [], _ => []
  | _ :: r, 0 => r
  | y :: r, S j => y :: remove_nth j r
  end.

Fixpoint permute (fuel r : nat) (l : list nat) : list nat :=
  match fuel with
  | 0 => l
  | S f =>
      match l with
      | [] => []
      | _ =>
          let n := length l in
          let i := r mod n in
          nth i l 0 :: permute f (r / n) (remove_nth i l)
      end
  end.
