(* Hierarchies of type operators: model of transforge/type.py TypeOperator
   (parent chain, variance table, subtype on operators). *)
From Coq Require Import List Arith Bool Lia.
Import ListNotations.

(* Operator identifiers.  The five built-ins have fixed numbers; operators
   declared by a language are numbered from 5 in declaration order. *)
Definition Top : nat := 0.
Definition Bottom : nat := 1.
Definition Unit : nat := 2.
Definition Function : nat := 3.
Definition Product : nat := 4.

(* variance: true = covariant (Variance.CO), false = contravariant *)
Record hier := mkHier {
  parent : nat -> option nat;
  variance : nat -> list bool
}.

Definition arity (H : hier) (o : nat) : nat := length (variance H o).

(* Executable construction from association lists (used by cases files). *)
Fixpoint assoc {A} (k : nat) (l : list (nat * A)) : option A :=
  match l with
  | [] => None
  | (k', v) :: r => if Nat.eqb k k' then Some v else assoc k r
  end.

Definition mk_hier (ps : list (nat * nat)) (vs : list (nat * list bool)) : hier :=
  mkHier (fun o => assoc o ps)
         (fun o => if Nat.eqb o Function then [false; true]
                   else if Nat.eqb o Product then [true; true]
                   else match assoc o vs with Some v => v | None => [] end).

(* Well-formed hierarchy: what TypeOperator.__init__ enforces for a forest of
   base types declared in order, plus the built-in table. *)
Record wf_hier (H : hier) : Prop := {
  wf_parent_lt : forall o p, parent H o = Some p -> p < o;
  wf_parent_base : forall o p, parent H o = Some p ->
                     variance H o = [] /\ variance H p = [] /\ p <> Top /\ p <> Bottom;
  wf_top : parent H Top = None /\ variance H Top = [];
  wf_bot : parent H Bottom = None /\ variance H Bottom = [];
  wf_fun : variance H Function = [false; true];
}.

(* TypeOperator.subtype(self, other, strict=False), lines 254-259.
   The recursive call is always non-strict. *)
Fixpoint op_sub_ns (H : hier) (fuel : nat) (a b : nat) : bool :=
  Nat.eqb a b || Nat.eqb a Bottom || Nat.eqb b Top ||
  match fuel with
  | 0 => false
  | S f => match parent H a with
           | Some p => op_sub_ns H f p b
           | None => false
           end
  end.

Definition op_subtype (H : hier) (strict : bool) (a b : nat) : bool :=
  (negb strict && Nat.eqb a b) || Nat.eqb a Bottom || Nat.eqb b Top ||
  match parent H a with
  | Some p => op_sub_ns H p p b
  | None => false
  end.

(* Declarative: b is a reflexive-transitive declared ancestor of a *)
Inductive Anc (H : hier) : nat -> nat -> Prop :=
| anc_refl a : Anc H a a
| anc_step a p b : parent H a = Some p -> Anc H p b -> Anc H a b.

Lemma Anc_trans H a b c : Anc H a b -> Anc H b c -> Anc H a c.
Proof. induction 1; intros; eauto using Anc. Qed.

Lemma Anc_le H : wf_hier H -> forall a b, Anc H a b -> b <= a.
Proof.
  intros W a b HA. induction HA as [|a p b Hp _ IH]; [lia|].
  apply (wf_parent_lt H W) in Hp. lia.
Qed.

Lemma Anc_antisym H : wf_hier H -> forall a b, Anc H a b -> Anc H b a -> a = b.
Proof. intros W a b H1 H2. apply (Anc_le H W) in H1, H2. lia. Qed.

(* ancestors of a base operator are base operators, and are never Top/Bottom
   unless it is the operator itself *)
Lemma Anc_inv H : wf_hier H -> forall a b, Anc H a b -> a = b \/
  (variance H a = [] /\ variance H b = [] /\ b <> Top /\ b <> Bottom /\ b < a).
Proof.
  intros W a b HA. induction HA as [|a p b Hp HA IH]; [now left|right].
  pose proof (wf_parent_base H W _ _ Hp) as (Va & Vp & NT & NB).
  pose proof (wf_parent_lt H W _ _ Hp) as Hlt.
  destruct IH as [->|(Vp' & Vb & NT' & NB' & Hlt')]; repeat split; auto; lia.
Qed.

(* two ancestors of one operator are comparable (single inheritance) *)
Lemma Anc_linear H a b c : Anc H a b -> Anc H a c -> Anc H b c \/ Anc H c b.
Proof.
  intros Hb. revert c. induction Hb as [a|a p b Hp Hb IH]; intros c Hc.
  - now left.
  - inversion Hc as [|a' p' c' Hp' Hc']; subst.
    + right. econstructor; eauto.
    + rewrite Hp in Hp'. injection Hp' as <-. auto.
Qed.

Lemma op_sub_ns_spec H : wf_hier H -> forall fuel a b, a <= fuel ->
  op_sub_ns H fuel a b = true <-> (a = Bottom \/ b = Top \/ Anc H a b).
Proof.
  intros W fuel. induction fuel as [|f IH]; intros a b Hle; cbn [op_sub_ns].
  - assert (a = 0) by lia; subst a.
    rewrite !orb_true_iff, !Nat.eqb_eq. split.
    + intros [[[->| ->]| ->]|F]; auto using anc_refl. discriminate.
    + intros [->|[->|HA]]; auto.
      inversion HA as [|a' p b' Hp]; subst; auto.
      apply (wf_parent_lt H W) in Hp. lia.
  - rewrite !orb_true_iff, !Nat.eqb_eq. split.
    + intros [[[->| ->]| ->]|F]; auto using anc_refl.
      destruct (parent H a) as [p|] eqn:Hp; [|discriminate].
      pose proof (wf_parent_lt H W _ _ Hp).
      apply IH in F; [|lia].
      destruct F as [->|[->|HA]]; auto.
      * exfalso. now apply (wf_parent_base H W) in Hp.
      * right; right. econstructor; eauto.
    + intros [->|[->|HA]]; auto.
      inversion HA as [|a' p b' Hp HA']; subst; auto.
      right. rewrite Hp. pose proof (wf_parent_lt H W _ _ Hp).
      apply IH; [lia|]. auto.
Qed.

Lemma op_subtype_ns_spec H : wf_hier H -> forall a b,
  op_subtype H false a b = true <-> (a = Bottom \/ b = Top \/ Anc H a b).
Proof.
  intros W a b. unfold op_subtype. cbn [negb andb].
  rewrite !orb_true_iff, !Nat.eqb_eq. split.
  - intros [[[->| ->]| ->]|F]; auto using anc_refl.
    destruct (parent H a) as [p|] eqn:Hp; [|discriminate].
    apply op_sub_ns_spec in F; auto.
    destruct F as [->|[->|HA]]; auto.
    + exfalso. now apply (wf_parent_base H W) in Hp.
    + right; right. econstructor; eauto.
  - intros [->|[->|HA]]; auto.
    inversion HA as [|a' p b' Hp HA']; subst; auto.
    right. rewrite Hp. apply op_sub_ns_spec; auto.
Qed.

(* The strict form: note Top.subtype(Top, strict) and Bottom.subtype(Bottom,
   strict) are True in the code; everywhere else strict excludes equality. *)
Lemma op_subtype_strict_spec H : wf_hier H -> forall a b,
  op_subtype H true a b = true <->
  (a = Bottom \/ b = Top \/ (Anc H a b /\ a <> b)).
Proof.
  intros W a b. unfold op_subtype. cbn [negb andb orb].
  rewrite !orb_true_iff, !Nat.eqb_eq. split.
  - intros [[->| ->]|F]; auto.
    destruct (parent H a) as [p|] eqn:Hp; [|discriminate].
    pose proof (wf_parent_lt H W _ _ Hp) as Hlt.
    apply op_sub_ns_spec in F; auto.
    destruct F as [->|[->|HA]]; auto.
    + exfalso. now apply (wf_parent_base H W) in Hp.
    + right; right. split; [econstructor; eauto|].
      apply (Anc_le H W) in HA. lia.
  - intros [->|[->|[HA Hne]]]; auto.
    inversion HA as [|a' p b' Hp HA']; subst; [congruence|].
    right. rewrite Hp. apply op_sub_ns_spec; auto.
Qed.
