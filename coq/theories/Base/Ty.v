(* Concrete (variable-free) types: TypeOperation trees of transforge/type.py *)
From Coq Require Import List Arith Bool Lia.
Import ListNotations.
From TF Require Import Base.Hier.

Inductive ty : Type := TOp (o : nat) (args : list ty).

Definition ty_op (t : ty) : nat := match t with TOp o _ => o end.
Definition ty_args (t : ty) : list ty := match t with TOp _ a => a end.

(* Nested induction principle *)
Section ty_ind'.
  Variable P : ty -> Prop.
  Hypothesis HOp : forall o args, Forall P args -> P (TOp o args).
  Fixpoint ty_ind' (t : ty) : P t :=
    match t with
    | TOp o args =>
        HOp o args ((fix go (l : list ty) : Forall P l :=
                       match l with
                       | [] => Forall_nil P
                       | x :: r => Forall_cons x (ty_ind' x) (go r)
                       end) args)
    end.
End ty_ind'.

Fixpoint ty_eqb (a b : ty) : bool :=
  match a, b with
  | TOp oa xs, TOp ob ys =>
      Nat.eqb oa ob &&
      (fix go (xs ys : list ty) : bool :=
         match xs, ys with
         | [], [] => true
         | x :: xs', y :: ys' => ty_eqb x y && go xs' ys'
         | _, _ => false
         end) xs ys
  end.

Lemma ty_eqb_eq a : forall b, ty_eqb a b = true <-> a = b.
Proof.
  induction a as [oa xs IH] using ty_ind'; intros [ob ys]; cbn [ty_eqb].
  rewrite andb_true_iff, Nat.eqb_eq.
  revert ys. induction IH as [|x xs Hx _ IHxs]; intros [|y ys].
  - split; [intros [-> _]; reflexivity | intros [= ->]; auto].
  - split; [intros [_ F]; discriminate | intros [= _ F]].
  - split; [intros [_ F]; discriminate | intros [= _ F]].
  - rewrite andb_true_iff. split.
    + intros [-> [H1 H2]]. apply Hx in H1. subst y.
      destruct (IHxs ys) as [I _]. specialize (I (conj eq_refl H2)).
      injection I as ->. reflexivity.
    + intros [= -> -> ->]. split; auto. split; [now apply Hx|].
      destruct (IHxs ys) as [_ I]. now apply I.
Qed.

Lemma ty_eq_dec (a b : ty) : {a = b} + {a <> b}.
Proof.
  destruct (ty_eqb a b) eqn:E.
  - left. now apply ty_eqb_eq.
  - right. intros F. apply ty_eqb_eq in F. congruence.
Qed.

Section All.
  Context {A : Type} (P : A -> Prop).
  Fixpoint All (l : list A) : Prop :=
    match l with [] => True | x :: r => P x /\ All r end.
  Lemma All_Forall l : All l <-> Forall P l.
  Proof.
    induction l as [|x r IH]; cbn [All].
    - split; auto.
    - split.
      + intros [HA HB]. constructor; [auto | now apply IH].
      + intros F. inversion F; subst. split; [auto | now apply IH].
  Qed.
End All.

(* Well-formed: every node has as many arguments as its operator's arity
   (TypeOperation.__init__ raises TypeParameterError otherwise). *)
Fixpoint wf_ty (H : hier) (t : ty) : Prop :=
  match t with
  | TOp o args => length args = length (variance H o) /\ All (wf_ty H) args
  end.

Lemma wf_ty_unfold H o args :
  wf_ty H (TOp o args) <-> length args = length (variance H o) /\ Forall (wf_ty H) args.
Proof. cbn [wf_ty]. now rewrite All_Forall. Qed.

Fixpoint wf_tyb (H : hier) (t : ty) : bool :=
  match t with
  | TOp o args => Nat.eqb (length args) (length (variance H o)) && forallb (wf_tyb H) args
  end.

Lemma wf_tyb_spec H t : wf_tyb H t = true <-> wf_ty H t.
Proof.
  induction t as [o args IH] using ty_ind'.
  rewrite wf_ty_unfold. cbn [wf_tyb]. rewrite andb_true_iff, Nat.eqb_eq, forallb_forall, Forall_forall.
  rewrite Forall_forall in IH. split; intros [L F]; split; auto; intros x Hx; apply IH; auto.
Qed.

Fixpoint ty_depth (t : ty) : nat :=
  match t with
  | TOp _ args => fold_right (fun x acc => Nat.max (S (ty_depth x)) acc) 0 args
  end.

(* prefix serialisation used to print model results: op, number of args, args *)
Fixpoint ty_enc (t : ty) : list nat :=
  match t with
  | TOp o args => o :: length args :: flat_map ty_enc args
  end.
