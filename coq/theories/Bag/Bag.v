(* Model of transforge/bag.py Bag (lines 60-87) and of the rendering of a bag
   into `containsType` clauses by TransformationQuery.types
   (transforge/query.py:254-271).

   A bag is a conjunction of disjunctions of concrete types: `content` is a
   list of TypeUnions (Bag/Union.v).  It is read against the set P of types
   a workflow contains; P is closed under supertypes because a workflow
   graph records every canonical supertype of the types it contains.

   [bag_add] models Bag.add AS REPAIRED by /verif/proposed_fixes/C20.diff;
   [bag_add_pinned] models the code of the pinned tree, which changes the
   meaning of the bag in two independent ways (see the end of this file and
   Bag/BagTy.v for the machine-checked counterexamples). *)
From Coq Require Import List Arith Bool Lia Permutation.
Import ListNotations.
From TF Require Import Bag.Union.

Definition is_nil {A} (l : list A) : bool := match l with [] => true | _ => false end.

Lemma is_nil_true {A} (l : list A) : is_nil l = true <-> l = [].
Proof. destruct l; cbn; split; congruence. Qed.

Section Bag.
  Variable T : Type.
  Variable D : T -> Prop.
  Variable leb : T -> T -> bool.
  Variable eqb : T -> T -> bool.
  Hypothesis eqb_spec : forall a b, eqb a b = true <-> a = b.
  Hypothesis le_refl : forall a, D a -> leb a a = true.
  Hypothesis le_trans : forall a b c, D a -> D b -> D c ->
    leb a b = true -> leb b c = true -> leb a c = true.
  Hypothesis le_antisym : forall a b, D a -> D b ->
    leb a b = true -> leb b a = true -> a = b.

  Local Notation union_of := (union_of T leb eqb).

  (* ---------------- model ---------------- *)

  (* TypeUnion.is_subtype(other: Type), bag.py:32-33:
     bool(self) and all(x.is_subtype(other) for x in self.data) *)
  Definition union_le_ty (c : list T) (t : T) : bool :=
    negb (is_nil c) && forallb (fun x => leb x t) c.

  (* TypeUnion.is_subtype(other: TypeUnion), bag.py:35-37:
     bool(self) and all(all(x.is_subtype(y) for x in self.data) for y in other.data) *)
  Definition union_le_union (n c : list T) : bool :=
    negb (is_nil n) && forallb (fun y => forallb (fun x => leb x y) n) c.

  (* any(t.is_subtype(nt) for t in self.content) *)
  Definition covered (content : list (list T)) (nt : T) : bool :=
    existsb (fun t => union_le_ty t nt) content.

  (* Bag.add as repaired:
       if any(t.is_subtype(nt) for nt in new_types for t in self.content): return
       new = TypeUnion(new_types, specific=False)
       if not new: return
       self.content = [c for c in self.content if not new.is_subtype(c)]
       self.content.append(new)                                            *)
  Definition bag_add (content : list (list T)) (news : list T) : list (list T) :=
    if existsb (covered content) news then content
    else
      let new := union_of false news in
      if is_nil new then content
      else filter (fun c => negb (union_le_union new c)) content ++ [new].

  (* Bag.add of the pinned tree, bag.py:76-87:
       new = TypeUnion(nt for nt in new_types
                       if not any(t.is_subtype(nt) for t in self.content))
       if not new: return
       self.content = [c for c in self.content if not new.is_subtype(c)]
       self.content.append(new)                                            *)
  Definition bag_add_pinned (content : list (list T)) (news : list T) : list (list T) :=
    let new := union_of true (filter (fun nt => negb (covered content nt)) news) in
    if is_nil new then content
    else filter (fun c => negb (union_le_union new c)) content ++ [new].

  (* a fresh Bag() after a sequence of add(news...) calls *)
  Definition bag_of (h : list (list T)) : list (list T) := fold_left bag_add h [].
  Definition bag_of_pinned (h : list (list T)) : list (list T) := fold_left bag_add_pinned h [].

  (* ---------------- meaning ---------------- *)

  (* P = the types present in a workflow.  The bag is satisfied when every
     clause has an alternative that is present. *)
  Definition sat (P : T -> Prop) (content : list (list T)) : Prop :=
    Forall (fun c => Exists P c) content.

  (* One inserted requirement add(news...): one of the alternatives is present.
     add() without types states no requirement (query.py:260 produces it for
     steps without a type). *)
  Definition req (P : T -> Prop) (news : list T) : Prop :=
    news <> [] -> Exists P news.

  Definition upclosed (P : T -> Prop) : Prop :=
    forall a b, D a -> D b -> P a -> leb a b = true -> P b.

  (* ---------------- proofs ---------------- *)

  Lemma union_le_ty_spec c t : union_le_ty c t = true <->
    c <> [] /\ forall x, In x c -> leb x t = true.
  Proof.
    unfold union_le_ty. rewrite andb_true_iff, negb_true_iff, forallb_forall.
    destruct c; cbn [is_nil]; split; intros [A B]; split; auto; congruence.
  Qed.

  Lemma union_le_union_spec n c : union_le_union n c = true <->
    n <> [] /\ forall y, In y c -> forall x, In x n -> leb x y = true.
  Proof.
    unfold union_le_union. rewrite andb_true_iff, negb_true_iff, forallb_forall.
    split.
    - intros [A B]. split; [destruct n; cbn in A; congruence|].
      intros y Hy. specialize (B y Hy). now rewrite forallb_forall in B.
    - intros [A B]. split; [destruct n; cbn; congruence|].
      intros y Hy. rewrite forallb_forall. auto.
  Qed.

  Lemma covered_spec content nt : covered content nt = true <->
    exists c, In c content /\ c <> [] /\ forall x, In x c -> leb x nt = true.
  Proof.
    unfold covered. rewrite existsb_exists. split.
    - intros (c & Hc & E). apply union_le_ty_spec in E. eauto.
    - intros (c & Hc & E). exists c. split; auto. now apply union_le_ty_spec.
  Qed.

  (* invariant of the content: clauses are non-empty sets over the carrier *)
  Definition bag_ok (content : list (list T)) : Prop :=
    Forall (fun c => c <> [] /\ NoDup c /\ Forall D c) content.

  Lemma sat_app P a b : sat P (a ++ b) <-> sat P a /\ sat P b.
  Proof. unfold sat. apply Forall_app. Qed.

  Lemma union_general_sat P news : Forall D news -> upclosed P ->
    (Exists P (union_of false news) <-> Exists P news).
  Proof.
    intros Dn UP. rewrite !Exists_exists. split.
    - intros (x & Hx & Px). exists x. split; auto.
      eapply union_of_sub; eauto.
    - intros (x & Hx & Px).
      destruct (union_of_cover T D leb eqb eqb_spec le_refl le_trans le_antisym
                  false news Dn x Hx) as (m & Hm & Em).
      exists m. split; auto. cbn [ext] in Em.
      rewrite Forall_forall in Dn.
      apply (UP x m); auto. apply Dn.
      eapply union_of_sub; eauto. now apply Forall_forall.
  Qed.

  (* one call of the repaired Bag.add: the new content is satisfied exactly
     when the old content and the inserted requirement are *)
  Lemma bag_add_sem content news P :
    bag_ok content -> Forall D news -> upclosed P ->
    bag_ok (bag_add content news) /\
    (sat P (bag_add content news) <-> sat P content /\ req P news).
  Proof.
    intros OK Dn UP. unfold bag_add.
    destruct (existsb (covered content) news) eqn:COV.
    - (* some alternative is implied by a clause already present *)
      split; auto. split; [|tauto]. intros S. split; auto. intros _.
      apply existsb_exists in COV. destruct COV as (nt & Hnt & C).
      apply covered_spec in C. destruct C as (c & Hc & NE & LE).
      unfold sat in S. rewrite Forall_forall in S. specialize (S c Hc).
      apply Exists_exists in S. destruct S as (x & Hx & Px).
      apply Exists_exists. exists nt. split; auto.
      unfold bag_ok in OK. rewrite Forall_forall in OK.
      destruct (OK c Hc) as (_ & _ & Dc). rewrite Forall_forall in Dc, Dn.
      apply (UP x nt); auto.
    - set (new := union_of false news).
      destruct (is_nil new) eqn:NIL.
      + (* add() without types *)
        apply is_nil_true in NIL.
        apply (union_of_nil_iff T D leb eqb eqb_spec le_refl le_trans le_antisym) in NIL; auto.
        subst news. split; auto. split; [|tauto]. intros S. split; auto. intros F. congruence.
      + assert (NE : new <> []) by (intros E; rewrite E in NIL; discriminate).
        assert (NEn : news <> []) by (intros E; apply NE; unfold new; now rewrite E).
        assert (Dnew : Forall D new).
        { rewrite Forall_forall in *. intros x Hx. apply Dn.
          eapply union_of_sub; eauto. now apply Forall_forall. }
        split.
        * unfold bag_ok in *. apply Forall_app. split.
          -- rewrite Forall_forall in *. intros c Hc. apply filter_In in Hc. apply OK, Hc.
          -- constructor; [|constructor]. split; auto. split; auto.
             eapply union_of_NoDup; eauto.
        * rewrite sat_app. unfold sat at 2. rewrite Forall_cons_iff.
          assert (GS : Exists P new <-> Exists P news)
            by (apply union_general_sat; auto).
          rewrite GS.
          unfold req. split.
          -- intros (SF & EX & _). split; auto.
             unfold sat, bag_ok in *. rewrite Forall_forall in *. intros c Hc.
             destruct (union_le_union new c) eqn:LE.
             ++ (* an obsoleted clause is implied by the new one *)
                apply union_le_union_spec in LE. destruct LE as [_ LE].
                apply GS in EX.
                apply Exists_exists in EX. destruct EX as (x & Hx & Px).
                destruct (OK c Hc) as (NEc & _ & Dc).
                destruct c as [|y c']; [congruence|].
                apply Exists_exists. exists y. split; [now left|].
                inversion Dc; subst.
                apply (UP x y); [now apply Dnew | assumption | assumption |].
                apply LE; [now left | assumption].
             ++ apply SF. apply filter_In. split; auto. now rewrite LE.
          -- intros (S & R). split; [|split; auto].
             unfold sat in *. rewrite Forall_forall in *. intros c Hc.
             apply filter_In in Hc. apply S, Hc.
  Qed.

  Lemma bag_of_sem_ok h P : Forall (Forall D) h -> upclosed P ->
    bag_ok (bag_of h) /\ (sat P (bag_of h) <-> Forall (req P) h).
  Proof.
    intros Dh UP. unfold bag_of. induction h as [|news h IH] using rev_ind.
    - cbn. split; [constructor|]. split; constructor.
    - apply Forall_app in Dh. destruct Dh as [Dh Dn]. inversion Dn; subst.
      destruct (IH Dh) as [OK SEM]. rewrite fold_left_app. cbn [fold_left].
      destruct (bag_add_sem (fold_left bag_add h []) news P OK) as [OK' SEM']; auto.
      split; auto. rewrite SEM', SEM, Forall_app. split.
      + intros [A B]. split; auto.
      + intros [A B]. split; auto. now inversion B.
  Qed.

  (* The reduced bag means what was inserted, for every insertion history. *)
  Theorem bag_of_sem h P : Forall (Forall D) h -> upclosed P ->
    (sat P (bag_of h) <-> Forall (req P) h).
  Proof. intros Dh UP. apply bag_of_sem_ok; auto. Qed.

  Theorem bag_of_ok h : Forall (Forall D) h -> bag_ok (bag_of h).
  Proof.
    intros Dh. apply (bag_of_sem_ok h (fun _ => True)); auto.
    intros a b _ _ _ _. exact I.
  Qed.

  Lemma req_perm P (h h' : list (list T)) : Permutation h h' ->
    Forall (req P) h -> Forall (req P) h'.
  Proof.
    intros PM F. rewrite Forall_forall in *. intros c Hc. apply F.
    eapply Permutation_in; [apply Permutation_sym|]; eauto.
  Qed.

  (* ... so the order of insertion never changes which P pass *)
  Theorem bag_of_perm h h' P : Forall (Forall D) h -> upclosed P -> Permutation h h' ->
    (sat P (bag_of h) <-> sat P (bag_of h')).
  Proof.
    intros Dh UP PM.
    assert (Dh' : Forall (Forall D) h').
    { rewrite Forall_forall in *. intros c Hc. apply Dh.
      eapply Permutation_in; [apply Permutation_sym|]; eauto. }
    rewrite !bag_of_sem; auto. split; apply req_perm; auto. now apply Permutation_sym.
  Qed.

  (* ---------------- rendering: query.py:262-271 ---------------- *)

  Inductive line :=
  | LOpen                (* "{" *)
  | LUnion               (* "} UNION {" *)
  | LClose               (* "}" *)
  | LContains (t : T).   (* "?workflow :containsType <uri of t>." *)

  (* for i, t in enumerate(ts): if i: yield "} UNION {"; yield containsType t *)
  Fixpoint emit_alts (i : nat) (ts : list T) : list line :=
    match ts with
    | [] => []
    | t :: r => (if Nat.eqb i 0 then [] else [LUnion]) ++ LContains t :: emit_alts (S i) r
    end.

  Definition emit_clause (ts : list T) : list line :=
    (if Nat.ltb 1 (length ts) then [LOpen] else []) ++
    emit_alts 0 ts ++
    (if Nat.ltb 1 (length ts) then [LClose] else []).

  Definition emit (content : list (list T)) : list line := flat_map emit_clause content.

  (* SPARQL reading of the emitted lines inside the sub-select: a sequence of
     triple patterns and `{..} UNION {..}` groups is a conjunction; a group is
     the disjunction of its branches.  [acc] = conjunction so far; inside a
     group, [(o, b)] = disjunction of the finished branches, conjunction of
     the current branch.  [None] = the lines are not well-bracketed. *)
  Fixpoint eval_lines (p : T -> bool) (ls : list line) (acc : bool)
      (grp : option (bool * bool)) : option bool :=
    match ls, grp with
    | [], None => Some acc
    | [], Some _ => None
    | LContains t :: r, None => eval_lines p r (acc && p t) None
    | LContains t :: r, Some (o, b) => eval_lines p r acc (Some (o, b && p t))
    | LOpen :: r, None => eval_lines p r acc (Some (false, true))
    | LUnion :: r, Some (o, b) => eval_lines p r acc (Some (o || b, true))
    | LClose :: r, Some (o, b) => eval_lines p r (acc && (o || b)) None
    | _, _ => None
    end.

  Definition satb (p : T -> bool) (content : list (list T)) : bool :=
    forallb (existsb p) content.

  Lemma satb_sat p content : satb p content = true <-> sat (fun t => p t = true) content.
  Proof.
    unfold satb, sat. rewrite forallb_forall, Forall_forall.
    split; intros HH c Hc; specialize (HH c Hc).
    - apply existsb_exists in HH. now apply Exists_exists.
    - apply Exists_exists in HH. now apply existsb_exists.
  Qed.

  (* the alternatives after the first, up to the closing brace *)
  Lemma eval_alts_close p rest acc : forall ts i o b, i <> 0 ->
    eval_lines p (emit_alts i ts ++ LClose :: rest) acc (Some (o, b)) =
    eval_lines p rest (acc && (o || b || existsb p ts)) None.
  Proof.
    induction ts as [|t r IH]; intros i o b Hi.
    - cbn. now rewrite orb_false_r.
    - cbn [emit_alts]. destruct (Nat.eqb_spec i 0) as [E|_]; [congruence|].
      cbn [app eval_lines andb]. rewrite IH; [|lia].
      cbn [existsb]. now rewrite !orb_assoc.
  Qed.

  Lemma eval_clause p ts rest acc : ts <> [] ->
    eval_lines p (emit_clause ts ++ rest) acc None =
    eval_lines p rest (acc && existsb p ts) None.
  Proof.
    intros NE. unfold emit_clause. destruct ts as [|t r]; [congruence|].
    destruct r as [|t' r'].
    - cbn. now rewrite orb_false_r.
    - cbn [length Nat.ltb Nat.leb]. cbn [app emit_alts Nat.eqb eval_lines andb].
      rewrite <- !app_assoc. cbn [app].
      rewrite eval_alts_close; [|lia]. cbn [existsb orb]. now rewrite !orb_assoc.
  Qed.

  (* The emitted clauses, read as SPARQL, hold for a workflow exactly when the
     bag is satisfied by the workflow's types. *)
  Theorem eval_emit p content : Forall (fun c => c <> []) content ->
    forall acc, eval_lines p (emit content) acc None = Some (acc && satb p content).
  Proof.
    unfold emit, satb. induction content as [|c cs IH]; intros NE acc.
    - cbn. now rewrite andb_true_r.
    - inversion NE; subst. cbn [flat_map forallb].
      rewrite eval_clause; auto. rewrite IH; auto. now rewrite andb_assoc.
  Qed.

  (* end to end: the pre-filter generated from any insertion history passes a
     workflow iff the workflow's types satisfy every inserted requirement *)
  Theorem prefilter_sem h p : Forall (Forall D) h ->
    upclosed (fun t => p t = true) ->
    (eval_lines p (emit (bag_of h)) true None = Some true <->
     Forall (req (fun t => p t = true)) h).
  Proof.
    intros Dh UP. rewrite eval_emit.
    - cbn [andb]. rewrite <- bag_of_sem; auto. rewrite <- satb_sat.
      split; [intros [= E]; auto | intros ->; auto].
    - pose proof (bag_of_ok h Dh) as OK. unfold bag_ok in OK.
      rewrite Forall_forall in *. intros c Hc. apply (OK c Hc).
  Qed.
End Bag.
