(* Faithful model of transforge/bag.py TypeUnion (lines 7-56): a Python set of
   concrete types that keeps only the most specific (or, with specific=False,
   the most general) of the types added to it.

   The development is parameterised by the carrier [D] (well-formed concrete
   types), the decidable order [leb] (Type.is_subtype answering True) and the
   equality [eqb] of the Python set (Type.__eq__/__hash__).  Bag/BagTy.v
   instantiates it with the model of is_subtype proved equal to Sub in C01.

   The Python set is modelled by a duplicate-free list; all statements are
   about membership, so they do not depend on the iteration order of the
   set. *)
From Coq Require Import List Arith Bool Lia Permutation.
Import ListNotations.

Section Union.
  Variable T : Type.
  Variable D : T -> Prop.
  Variable leb : T -> T -> bool.
  Variable eqb : T -> T -> bool.
  Hypothesis eqb_spec : forall a b, eqb a b = true <-> a = b.
  Hypothesis le_refl : forall a, D a -> leb a a = true.
  Hypothesis le_trans : forall a b c, D a -> D b -> D c ->
    leb a b = true -> leb b c = true -> leb a c = true.
  Hypothesis le_antisym : forall a b, D a -> D b ->
    leb a b = true -> leb b a = true -> a = b.

  (* ---------------- model ---------------- *)

  (* `x in s` *)
  Definition mem (x : T) (l : list T) : bool := existsb (eqb x) l.

  (* The loop of TypeUnion.add, bag.py:40-51.  [None] is the early `return`
     (the collected to_remove is then discarded), [Some rm] is falling out of
     the loop with to_remove = rm. *)
  Fixpoint scan (specific : bool) (new : T) (data to_remove : list T) : option (list T) :=
    match data with
    | [] => Some to_remove
    | t :: r =>
        if specific then
          if leb new t then scan specific new r (t :: to_remove)      (* 43-44 *)
          else if leb t new then None                                 (* 45-46 *)
          else scan specific new r to_remove
        else
          if leb new t then None                                      (* 48-49 *)
          else if leb t new then scan specific new r (t :: to_remove) (* 50-51 *)
          else scan specific new r to_remove
    end.

  (* `self.data -= to_remove` (52) and `self.data.add(new)` (53) *)
  Definition set_diff (l rm : list T) : list T := filter (fun t => negb (mem t rm)) l.
  Definition set_add (x : T) (l : list T) : list T := if mem x l then l else l ++ [x].

  Definition union_add (specific : bool) (data : list T) (new : T) : list T :=
    match scan specific new data [] with
    | None => data
    | Some rm => set_add new (set_diff data rm)
    end.

  (* TypeUnion.__init__, bag.py:13-17 *)
  Definition union_of (specific : bool) (xs : list T) : list T :=
    fold_left (union_add specific) xs [].

  (* ---------------- specification ---------------- *)

  (* [ext specific a b]: a is at least as extreme as b in the direction the
     union keeps: below for the most specific, above for the most general *)
  Definition ext (specific : bool) (a b : T) : bool :=
    if specific then leb a b else leb b a.

  (* x is one of the inserted types and nothing inserted is strictly more
     extreme: a minimal (specific) / maximal (general) element of h *)
  Definition extremal (specific : bool) (h : list T) (x : T) : Prop :=
    In x h /\ forall y, In y h -> ext specific y x = true -> y = x.

  (* ---------------- proofs ---------------- *)

  Lemma mem_In x l : mem x l = true <-> In x l.
  Proof.
    unfold mem. rewrite existsb_exists. split.
    - intros (y & Hy & E). apply eqb_spec in E. now subst.
    - intros HI. exists x. split; auto. now apply eqb_spec.
  Qed.

  Lemma mem_false x l : mem x l = false <-> ~ In x l.
  Proof.
    rewrite <- mem_In. destruct (mem x l); split; intros; try congruence; tauto.
  Qed.

  Lemma ext_refl sp a : D a -> ext sp a a = true.
  Proof. destruct sp; cbn; auto. Qed.

  Lemma ext_trans sp a b c : D a -> D b -> D c ->
    ext sp a b = true -> ext sp b c = true -> ext sp a c = true.
  Proof. destruct sp; cbn; intros; eauto. Qed.

  Lemma ext_antisym sp a b : D a -> D b ->
    ext sp a b = true -> ext sp b a = true -> a = b.
  Proof. destruct sp; cbn; intros; auto. Qed.

  (* what the loop computes, in terms of [ext] *)
  Definition ret_cond (sp : bool) (new t : T) : Prop :=
    if sp then ext sp new t = false /\ ext sp t new = true
    else ext sp t new = true.
  Definition rem_cond (sp : bool) (new t : T) : Prop :=
    if sp then ext sp new t = true
    else ext sp t new = false /\ ext sp new t = true.

  Lemma scan_spec sp new : forall data acc,
    match scan sp new data acc with
    | None => exists t, In t data /\ ret_cond sp new t
    | Some rm => (forall t, In t data -> ~ ret_cond sp new t) /\
                 (forall x, In x rm <-> In x acc \/ (In x data /\ rem_cond sp new x))
    end.
  Proof.
    induction data as [|t r IH]; intros acc; cbn [scan].
    - split; [intros t []|]. intros x. split; [auto|]. intros [HI|[[] _]]; auto.
    - destruct sp; unfold ret_cond, rem_cond, ext in *.
      + destruct (leb new t) eqn:E1.
        * specialize (IH (t :: acc)). destruct (scan true new r (t :: acc)) as [rm|].
          -- destruct IH as [IH1 IH2]. split.
             ++ intros t' [<-|HI]; [intros [F _]; congruence | auto].
             ++ intros x. rewrite IH2. cbn [In]. split.
                ** intros [[<-|HI]|[HI HR]]; auto.
                ** intros [HI|[[<-|HI] HR]]; auto.
          -- destruct IH as (t' & HI & HR). exists t'. split; [now right | auto].
        * destruct (leb t new) eqn:E2.
          -- exists t. split; [now left | auto].
          -- specialize (IH acc). destruct (scan true new r acc) as [rm|].
             ++ destruct IH as [IH1 IH2]. split.
                ** intros t' [<-|HI]; [intros [_ F]; congruence | auto].
                ** intros x. rewrite IH2. cbn [In]. split.
                   --- intros [HI|[HI HR]]; auto.
                   --- intros [HI|[[<-|HI] HR]]; auto. congruence.
             ++ destruct IH as (t' & HI & HR). exists t'. split; [now right | auto].
      + destruct (leb new t) eqn:E1.
        * exists t. split; [now left | auto].
        * destruct (leb t new) eqn:E2.
          -- specialize (IH (t :: acc)). destruct (scan false new r (t :: acc)) as [rm|].
             ++ destruct IH as [IH1 IH2]. split.
                ** intros t' [<-|HI]; [congruence | auto].
                ** intros x. rewrite IH2. cbn [In]. split.
                   --- intros [[<-|HI]|[HI HR]]; auto.
                   --- intros [HI|[[<-|HI] HR]]; auto.
             ++ destruct IH as (t' & HI & HR). exists t'. split; [now right | auto].
          -- specialize (IH acc). destruct (scan false new r acc) as [rm|].
             ++ destruct IH as [IH1 IH2]. split.
                ** intros t' [<-|HI]; [congruence | auto].
                ** intros x. rewrite IH2. cbn [In]. split.
                   --- intros [HI|[HI HR]]; auto.
                   --- intros [HI|[[<-|HI] [HR1 HR2]]]; auto. congruence.
             ++ destruct IH as (t' & HI & HR). exists t'. split; [now right | auto].
  Qed.

  Lemma set_diff_In l rm x : In x (set_diff l rm) <-> In x l /\ ~ In x rm.
  Proof.
    unfold set_diff. rewrite filter_In, negb_true_iff, mem_false. tauto.
  Qed.

  Lemma set_add_In x l y : In y (set_add x l) <-> y = x \/ In y l.
  Proof.
    unfold set_add. destruct (mem x l) eqn:E.
    - apply mem_In in E. split; [auto|]. intros [->|HI]; auto.
    - rewrite in_app_iff. cbn [In]. split; intros HH; intuition (subst; auto).
  Qed.

  Lemma set_add_NoDup x l : NoDup l -> NoDup (set_add x l).
  Proof.
    intros ND. unfold set_add. destruct (mem x l) eqn:E; auto.
    apply mem_false in E.
    apply NoDup_rev in ND. rewrite <- (rev_involutive (l ++ [x])), rev_app_distr.
    apply NoDup_rev. cbn. constructor; auto. now rewrite <- in_rev.
  Qed.

  (* The set-level effect of one add: either the early return (nothing
     changes, some present element is at least as extreme as the new one) or
     the new element replaces everything it is more extreme than. *)
  Lemma union_add_cases sp data new :
    NoDup data -> NoDup (union_add sp data new) /\
    (((exists t, In t data /\ ext sp t new = true) /\
      (forall x, In x (union_add sp data new) <-> In x data)) \/
     ((forall t, In t data -> ext sp t new = true -> ext sp new t = true) /\
      (forall x, In x (union_add sp data new) <->
                 x = new \/ (In x data /\ ext sp new x = false)))).
  Proof.
    intros ND. unfold union_add.
    pose proof (scan_spec sp new data []) as S.
    destruct (scan sp new data []) as [rm|].
    - destruct S as [S1 S2]. split.
      + apply set_add_NoDup. now apply NoDup_filter.
      + right. split.
        * intros t HI E. specialize (S1 t HI). destruct sp; unfold ret_cond in S1.
          -- destruct (ext true new t) eqn:E0; auto.
          -- exfalso. auto.
        * intros x. rewrite set_add_In, set_diff_In, S2. cbn [In].
          assert (EQ : In x data -> (rem_cond sp new x <-> ext sp new x = true)).
          { intros HI. destruct sp; unfold rem_cond; [tauto|].
            specialize (S1 x HI). unfold ret_cond in S1. split; [tauto|].
            intros E. split; auto. destruct (ext false x new); auto. now exfalso. }
          split.
          -- intros [->|[HI HN]]; auto. right. split; auto.
             destruct (ext sp new x) eqn:E; auto. exfalso. apply HN. right. split; auto.
             now apply EQ.
          -- intros [->|[HI HN]]; auto. right. split; auto.
             intros [[]|[_ HR]]. apply EQ in HR; auto. congruence.
    - destruct S as (t & HI & HR). split; auto. left. split; [|tauto].
      exists t. split; auto. destruct sp; unfold ret_cond in HR; tauto.
  Qed.

  (* Invariant tying the union's content to the insertion history *)
  Record Inv (sp : bool) (data h : list T) : Prop := {
    inv_nodup : NoDup data;
    inv_sub : forall x, In x data -> In x h;
    inv_anti : forall x y, In x data -> In y data -> ext sp x y = true -> x = y;
    inv_cover : forall y, In y h -> exists m, In m data /\ ext sp m y = true
  }.

  Lemma Inv_nil sp : Inv sp [] [].
  Proof. split; [constructor | auto | intros x y [] | intros y []]. Qed.

  Lemma Inv_step sp data h new :
    Forall D h -> D new -> Inv sp data h -> Inv sp (union_add sp data new) (h ++ [new]).
  Proof.
    intros Dh Dn [ND SUB ANTI COV].
    rewrite Forall_forall in Dh.
    assert (Dd : forall x, In x data -> D x) by auto.
    destruct (union_add_cases sp data new ND) as [ND' [[(t & Ht & Et) EQ]|[NR EQ]]].
    - split; auto.
      + intros x Hx. apply EQ in Hx. apply in_or_app. auto.
      + intros x y Hx Hy. apply EQ in Hx, Hy. auto.
      + intros y Hy. apply in_app_or in Hy. destruct Hy as [Hy|[<-|[]]].
        * destruct (COV y Hy) as (m & Hm & Em). exists m. split; auto. now apply EQ.
        * exists t. split; auto. now apply EQ.
    - split; auto.
      + intros x Hx. apply EQ in Hx. apply in_or_app. destruct Hx as [->|[Hx _]]; cbn; auto.
      + intros x y Hx Hy E. apply EQ in Hx, Hy.
        destruct Hx as [->|[Hx Nx]], Hy as [->|[Hy Ny]]; auto.
        * congruence.
        * apply NR in E; auto. congruence.
      + intros y Hy. apply in_app_or in Hy. destruct Hy as [Hy|[<-|[]]].
        * destruct (COV y Hy) as (m & Hm & Em).
          destruct (ext sp new m) eqn:E.
          -- exists new. split; [apply EQ; auto|].
             apply (ext_trans sp new m y); auto.
          -- exists m. split; auto. apply EQ. auto.
        * exists new. split; [apply EQ; auto | now apply ext_refl].
  Qed.

  Lemma union_of_Inv sp h : Forall D h -> Inv sp (union_of sp h) h.
  Proof.
    unfold union_of. induction h as [|new h IH] using rev_ind; intros Dh.
    - apply Inv_nil.
    - rewrite fold_left_app. cbn [fold_left].
      apply Forall_app in Dh. destruct Dh as [Dh Dn]. inversion Dn; subst.
      apply Inv_step; auto.
  Qed.

  Lemma Inv_extremal sp data h : Forall D h -> Inv sp data h ->
    forall x, In x data <-> extremal sp h x.
  Proof.
    intros Dh [ND SUB ANTI COV] x. rewrite Forall_forall in Dh. split.
    - intros Hx. split; auto. intros y Hy E.
      destruct (COV y Hy) as (m & Hm & Em).
      assert (m = x) as -> by (apply ANTI; auto; apply (ext_trans sp m y x); auto).
      apply (ext_antisym sp); auto.
    - intros [Hx MIN]. destruct (COV x Hx) as (m & Hm & Em).
      rewrite <- (MIN m); auto.
  Qed.

  (* The union after any insertion sequence is exactly the set of minimal
     (specific) / maximal (general) inserted types. *)
  Theorem union_of_extremal sp h : Forall D h ->
    forall x, In x (union_of sp h) <-> extremal sp h x.
  Proof. intros Dh. apply Inv_extremal; auto. now apply union_of_Inv. Qed.

  Theorem union_of_NoDup sp h : Forall D h -> NoDup (union_of sp h).
  Proof. intros Dh. apply (union_of_Inv sp h Dh). Qed.

  (* every inserted type is represented by a kept one *)
  Theorem union_of_cover sp h : Forall D h ->
    forall y, In y h -> exists m, In m (union_of sp h) /\ ext sp m y = true.
  Proof. intros Dh. apply (union_of_Inv sp h Dh). Qed.

  Theorem union_of_sub sp h : Forall D h -> forall x, In x (union_of sp h) -> In x h.
  Proof. intros Dh. apply (union_of_Inv sp h Dh). Qed.

  Theorem union_of_antichain sp h : Forall D h -> forall x y,
    In x (union_of sp h) -> In y (union_of sp h) -> ext sp x y = true -> x = y.
  Proof. intros Dh. apply (union_of_Inv sp h Dh). Qed.

  Lemma union_of_nil_iff sp h : Forall D h -> (union_of sp h = [] <-> h = []).
  Proof.
    intros Dh. split.
    - intros E. destruct h as [|y h]; auto. exfalso.
      destruct (union_of_cover sp (y :: h) Dh y (or_introl eq_refl)) as (m & Hm & _).
      rewrite E in Hm. destruct Hm.
    - intros ->. reflexivity.
  Qed.

  Lemma extremal_perm sp h h' x : Permutation h h' -> extremal sp h x -> extremal sp h' x.
  Proof.
    intros PM [Hx MIN]. split.
    - eapply Permutation_in; eauto.
    - intros y Hy. apply MIN. eapply Permutation_in; [apply Permutation_sym|]; eauto.
  Qed.

  (* ... hence the insertion order is irrelevant *)
  Theorem union_of_perm sp h h' : Forall D h -> Permutation h h' ->
    forall x, In x (union_of sp h) <-> In x (union_of sp h').
  Proof.
    intros Dh PM x.
    assert (Dh' : Forall D h').
    { rewrite Forall_forall in *. intros y Hy. apply Dh.
      eapply Permutation_in; [apply Permutation_sym|]; eauto. }
    rewrite !union_of_extremal; auto. split; apply extremal_perm; auto.
    now apply Permutation_sym.
  Qed.
End Union.
