(* TypeUnion and Bag over transforge's concrete types: Bag/Union.v and
   Bag/Bag.v instantiated with the model of Type.is_subtype (Sub/Match.v),
   which C01 proves equal to the declarative order [Sub]. *)
From Coq Require Import List Arith Bool Lia Permutation.
Import ListNotations.
From TF Require Import Base.Hier Base.Ty Sub.Match Sub.SubSpec Sub.SubProofs.
From TF Require Import Bag.Union Bag.Bag.

(* `if a.is_subtype(b):` -- truthiness of an Optional[bool] *)
Definition ty_leb (H : hier) (a b : ty) : bool :=
  match is_subtype H false a b with Some true => true | _ => false end.

Definition ty_union_add (H : hier) := union_add ty (ty_leb H) ty_eqb.
Definition ty_union_of (H : hier) := union_of ty (ty_leb H) ty_eqb.
Definition ty_bag_add (H : hier) := bag_add ty (ty_leb H) ty_eqb.
Definition ty_bag_of (H : hier) := bag_of ty (ty_leb H) ty_eqb.
Definition ty_bag_add_pinned (H : hier) := bag_add_pinned ty (ty_leb H) ty_eqb.
Definition ty_bag_of_pinned (H : hier) := bag_of_pinned ty (ty_leb H) ty_eqb.

(* P is closed under supertypes *)
Definition up_closed (H : hier) (P : ty -> Prop) : Prop :=
  forall a b, wf_ty H a -> wf_ty H b -> P a -> Sub H a b -> P b.

(* x is a minimal (specific) / maximal (general) element of h *)
Definition ty_extremal (H : hier) (specific : bool) (h : list ty) (x : ty) : Prop :=
  In x h /\ forall y, In y h -> (if specific then Sub H y x else Sub H x y) -> y = x.

Section Inst.
  Variable H : hier.
  Hypothesis W : wf_hier H.

  Lemma ty_leb_spec a b : wf_ty H a -> wf_ty H b -> (ty_leb H a b = true <-> Sub H a b).
  Proof.
    intros Wa Wb. unfold ty_leb.
    pose proof (is_subtype_spec H W false a b Wa Wb) as S.
    destruct (is_subtype H false a b) as [[|]|].
    - split; auto. intros _. now apply S.
    - split; [discriminate|]. intros HS.
      assert (F : Some false = Some true) by (apply S; split; [auto | discriminate]).
      discriminate.
    - split; [discriminate|]. intros HS.
      assert (F : @None bool = Some true) by (apply S; split; [auto | discriminate]).
      discriminate.
  Qed.

  Lemma ty_le_refl a : wf_ty H a -> ty_leb H a a = true.
  Proof. intros Wa. apply ty_leb_spec; auto. now apply Sub_refl. Qed.

  Lemma ty_le_trans a b c : wf_ty H a -> wf_ty H b -> wf_ty H c ->
    ty_leb H a b = true -> ty_leb H b c = true -> ty_leb H a c = true.
  Proof.
    intros Wa Wb Wc E1 E2. apply ty_leb_spec in E1, E2; auto.
    apply ty_leb_spec; auto. eapply Sub_trans; eauto.
  Qed.

  Lemma ty_le_antisym a b : wf_ty H a -> wf_ty H b ->
    ty_leb H a b = true -> ty_leb H b a = true -> a = b.
  Proof.
    intros Wa Wb E1 E2. apply ty_leb_spec in E1, E2; auto.
    eapply Sub_antisym; eauto.
  Qed.

  Lemma ty_extremal_iff sp h x : Forall (wf_ty H) h ->
    (extremal ty (ty_leb H) sp h x <-> ty_extremal H sp h x).
  Proof.
    intros Wh. rewrite Forall_forall in Wh. unfold extremal, ty_extremal, ext.
    split; intros [Hx MIN]; split; auto; intros y Hy E; apply MIN; auto.
    - destruct sp; apply ty_leb_spec; auto.
    - destruct sp; apply ty_leb_spec in E; auto.
  Qed.

  Theorem ty_union_min sp h : Forall (wf_ty H) h ->
    forall x, In x (ty_union_of H sp h) <-> ty_extremal H sp h x.
  Proof.
    intros Wh x. rewrite <- ty_extremal_iff; auto.
    apply (union_of_extremal ty (wf_ty H) (ty_leb H) ty_eqb ty_eqb_eq
             ty_le_refl ty_le_trans ty_le_antisym); auto.
  Qed.

  Theorem ty_union_nodup sp h : Forall (wf_ty H) h -> NoDup (ty_union_of H sp h).
  Proof.
    apply (union_of_NoDup ty (wf_ty H) (ty_leb H) ty_eqb ty_eqb_eq
             ty_le_refl ty_le_trans ty_le_antisym).
  Qed.

  Theorem ty_union_perm sp h h' : Forall (wf_ty H) h -> Permutation h h' ->
    forall x, In x (ty_union_of H sp h) <-> In x (ty_union_of H sp h').
  Proof.
    apply (union_of_perm ty (wf_ty H) (ty_leb H) ty_eqb ty_eqb_eq
             ty_le_refl ty_le_trans ty_le_antisym).
  Qed.

  Lemma up_closed_upclosed P : up_closed H P -> upclosed ty (wf_ty H) (ty_leb H) P.
  Proof.
    intros UP a b Wa Wb Pa E. apply (UP a b); auto. now apply ty_leb_spec.
  Qed.

  Theorem ty_bag_sem h P : Forall (Forall (wf_ty H)) h -> up_closed H P ->
    (sat ty P (ty_bag_of H h) <-> Forall (req ty P) h).
  Proof.
    intros Wh UP.
    apply (bag_of_sem ty (wf_ty H) (ty_leb H) ty_eqb ty_eqb_eq
             ty_le_refl ty_le_trans ty_le_antisym); auto.
    now apply up_closed_upclosed.
  Qed.

  Theorem ty_bag_perm h h' P : Forall (Forall (wf_ty H)) h -> up_closed H P ->
    Permutation h h' ->
    (sat ty P (ty_bag_of H h) <-> sat ty P (ty_bag_of H h')).
  Proof.
    intros Wh UP.
    apply (bag_of_perm ty (wf_ty H) (ty_leb H) ty_eqb ty_eqb_eq
             ty_le_refl ty_le_trans ty_le_antisym); auto.
    now apply up_closed_upclosed.
  Qed.

  (* clauses of the reduced bag are non-empty duplicate-free sets *)
  Theorem ty_bag_ok h : Forall (Forall (wf_ty H)) h ->
    Forall (fun c => c <> [] /\ NoDup c /\ Forall (wf_ty H) c) (ty_bag_of H h).
  Proof.
    apply (bag_of_ok ty (wf_ty H) (ty_leb H) ty_eqb ty_eqb_eq
             ty_le_refl ty_le_trans ty_le_antisym).
  Qed.

  Theorem ty_prefilter_sem h (p : ty -> bool) : Forall (Forall (wf_ty H)) h ->
    up_closed H (fun t => p t = true) ->
    (eval_lines ty p (emit ty (ty_bag_of H h)) true None = Some true <->
     Forall (req ty (fun t => p t = true)) h).
  Proof.
    intros Wh UP.
    apply (prefilter_sem ty (wf_ty H) (ty_leb H) ty_eqb ty_eqb_eq
             ty_le_refl ty_le_trans ty_le_antisym); auto.
    now apply up_closed_upclosed.
  Qed.
End Inst.

(* The set of supertypes of the given present types: the P the harness
   enumerates (it is closed under supertypes by transitivity). *)
Definition up_of (H : hier) (present : list ty) (t : ty) : bool :=
  existsb (fun p => ty_leb H p t) present.

Lemma up_of_closed H : wf_hier H -> forall present, Forall (wf_ty H) present ->
  up_closed H (fun t => up_of H present t = true).
Proof.
  intros W present Wp a b Wa Wb Pa S. unfold up_of in *.
  apply existsb_exists in Pa. destruct Pa as (p & Hp & E).
  apply existsb_exists. exists p. split; auto.
  rewrite Forall_forall in Wp.
  apply (ty_le_trans H W p a b); auto. now apply ty_leb_spec.
Qed.

(* ---------- the pinned Bag.add does change the meaning ---------- *)

(* A(5) > B(6), unrelated D(7) *)
Definition pinH : hier := mk_hier [(6, 5)] [].
Definition pA := TOp 5 []. Definition pB := TOp 6 []. Definition pD := TOp 7 [].

Lemma pinH_wf : wf_hier pinH.
Proof.
  split.
  - intros o p. cbn. repeat (destruct o as [|o]; try discriminate; cbn); intros [= <-]; auto with arith.
  - intros o p. cbn. repeat (destruct o as [|o]; try discriminate; cbn); intros [= <-]; cbn; repeat split; discriminate.
  - split; reflexivity.
  - split; reflexivity.
  - reflexivity.
Qed.

(* (1) add(B); add(A, D): the alternative A is covered by the clause {B}, and
   the pinned code drops the alternative instead of the (implied) clause,
   leaving [{B}; {D}].  A workflow containing B (hence A) but not D satisfies
   both requirements and fails the reduced bag. *)
Lemma pinned_refuted_covered :
  exists H h present,
    wf_hier H /\ Forall (Forall (wf_ty H)) h /\ Forall (wf_ty H) present /\
    let p := up_of H present in
    forallb (fun c => is_nil c || existsb p c) h = true /\
    satb ty p (ty_bag_of_pinned H h) = false.
Proof.
  exists pinH, [[pB]; [pA; pD]], [pB].
  split; [apply pinH_wf|]. split; [|split].
  - repeat constructor.
  - repeat constructor.
  - split; vm_compute; reflexivity.
Qed.

(* (2) add(A, B): the pinned code builds the new clause as a most-specific
   union and keeps only {B}; a workflow containing A and no B satisfies the
   requirement "A or B" and fails the reduced bag. *)
Lemma pinned_refuted_specific :
  exists H h present,
    wf_hier H /\ Forall (Forall (wf_ty H)) h /\ Forall (wf_ty H) present /\
    let p := up_of H present in
    forallb (fun c => is_nil c || existsb p c) h = true /\
    satb ty p (ty_bag_of_pinned H h) = false.
Proof.
  exists pinH, [[pA; pB]], [pA].
  split; [apply pinH_wf|]. split; [|split].
  - repeat constructor.
  - repeat constructor.
  - split; vm_compute; reflexivity.
Qed.

(* The two counterexamples are different root causes: each survives when only
   the other one is repaired. *)
Definition bag_add_half (H : hier) (fix_clause fix_general : bool)
    (content : list (list ty)) (news : list ty) : list (list ty) :=
  let cov := covered ty (ty_leb H) content in
  if fix_clause && existsb cov news then content
  else
    let new := ty_union_of H (negb fix_general) (filter (fun nt => negb (cov nt)) news) in
    if is_nil new then content
    else filter (fun c => negb (union_le_union ty (ty_leb H) new c)) content ++ [new].

Lemma half_fixes_insufficient :
  let p1 := up_of pinH [pB] in
  let p2 := up_of pinH [pA] in
  satb ty p1 (fold_left (bag_add_half pinH false true) [[pB]; [pA; pD]] []) = false /\
  satb ty p2 (fold_left (bag_add_half pinH true false) [[pA; pB]] []) = false /\
  satb ty p1 (fold_left (bag_add_half pinH true true) [[pB]; [pA; pD]] []) = true /\
  satb ty p2 (fold_left (bag_add_half pinH true true) [[pA; pB]] []) = true.
Proof. repeat split; vm_compute; reflexivity. Qed.

Lemma half_pinned_fixed H content news :
  bag_add_half H false false content news = ty_bag_add_pinned H content news.
Proof. reflexivity. Qed.

Lemma half_fixed_fixed H content news :
  bag_add_half H true true content news = ty_bag_add H content news.
Proof.
  unfold bag_add_half, ty_bag_add, bag_add. cbn [andb negb].
  destruct (existsb (covered ty (ty_leb H) content) news) eqn:E; [reflexivity|].
  assert (F : filter (fun nt => negb (covered ty (ty_leb H) content nt)) news = news).
  { induction news as [|nt r IH]; [reflexivity|]. cbn [existsb] in E.
    apply orb_false_iff in E. destruct E as [E1 E2]. cbn [filter]. rewrite E1. cbn [negb].
    f_equal. auto. }
  rewrite F. reflexivity.
Qed.
