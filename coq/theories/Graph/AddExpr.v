(* Graph/AddExpr.v -- model of TransformationGraph.add_expr (transforge/graph.py:215-402)
   restricted to what property C08 observes: tf:from, tf:internal and tf:via
   triples, the expr_nodes memo and blank-node allocation.

   Interface (used by C08; meant to be reused by C12 / C19):
     expr      expression trees; EVERY node carries the identity of the Python
               object it stands for (the memo [expr_nodes] is keyed by identity)
     gstate    graph state = triple list + expr_nodes memo + fresh counter
     add_expr  the recursion of graph.py:235-402, parameterised over
               - [add_from] (graph.py:404-417): C09 owns what it does with
                 tf:depends; here it is abstract, see [add_from_ok]
               - [pinned]: true = the code as pinned (dfa107a),
                           false = with proposed_fixes/C08.diff applied
   Nodes are numbers; BNode() is "take the counter and increment it".
   Stdlib only, structural recursion, no axioms.                             *)
From Coq Require Import List Arith Bool Lia.
Import ListNotations.

(* ------------------------------------------------------------------------ *)
(* Triples *)

Definition node := nat.
Definition pred := nat.
Definition p_from : pred := 0.
Definition p_internal : pred := 1.
Definition p_via : pred := 2.
Definition p_depends : pred := 3.   (* written by add_from only; never read here *)

Definition triple := (node * pred * nat)%type.
Definition t_subj (t : triple) : node := fst (fst t).
Definition t_pred (t : triple) : pred := snd (fst t).
Definition t_obj (t : triple) : nat := snd t.

(* Graph.objects(s, p): rdflib's memory store iterates over a snapshot
   (list(dict.keys())), so adding triples inside the loop does not change
   what the loop visits *)
Definition objs (g : list triple) (s : node) (p : pred) : list nat :=
  map t_obj (filter (fun t => Nat.eqb (t_subj t) s && Nat.eqb (t_pred t) p) g).

Lemma In_objs g s p o : In o (objs g s p) <-> In (s, p, o) g.
Proof.
  unfold objs. rewrite in_map_iff. split.
  - intros [[[a b] c] [Ho Hf]]. apply filter_In in Hf. destruct Hf as [Hin Heq].
    unfold t_subj, t_pred, t_obj in *. cbn [fst snd] in *.
    apply andb_true_iff in Heq. destruct Heq as [E1 E2].
    apply Nat.eqb_eq in E1. apply Nat.eqb_eq in E2. subst. exact Hin.
  - intros Hin. exists (s, p, o). split; [reflexivity|]. apply filter_In.
    split; [exact Hin|]. unfold t_subj, t_pred. cbn [fst snd].
    now rewrite !Nat.eqb_refl.
Qed.

(* ------------------------------------------------------------------------ *)
(* Expressions (transforge/expr.py:325-393).  The first field of every
   constructor is the identity of the Python object. *)

Inductive expr : Type :=
| ESrc (i : nat)                              (* Source *)
| EVar (i : nat)                              (* Variable (unbound, i.e. an abstraction parameter) *)
| EOp  (i : nat) (o : nat)                    (* Operation of operator o *)
| EApp (i : nat) (f x : expr) (fn : bool)     (* Application; fn = "x.type is a Function type" (graph.py:351-352) *)
| EAbs (i : nat) (ps : list nat) (b : expr).  (* Abstraction: identities of the parameter Variables, body *)

(* dict key: objects of different classes are never identical *)
Definition key := (nat * nat)%type.
Definition key_of (e : expr) : key :=
  match e with
  | ESrc i => (0, i) | EVar i => (1, i) | EOp i _ => (2, i)
  | EApp i _ _ _ => (3, i) | EAbs i _ _ => (4, i)
  end.
Definition key_eqb (a b : key) : bool := Nat.eqb (fst a) (fst b) && Nat.eqb (snd a) (snd b).

Lemma key_eqb_eq a b : key_eqb a b = true <-> a = b.
Proof.
  destruct a as [a1 a2], b as [b1 b2]. unfold key_eqb. cbn [fst snd].
  rewrite andb_true_iff, !Nat.eqb_eq. split; [intros [-> ->]; auto | intros [= -> ->]; auto].
Qed.

Definition memo := list (key * node).
Fixpoint memo_find (k : key) (m : memo) : option node :=
  match m with
  | [] => None
  | (k', n) :: r => if key_eqb k k' then Some n else memo_find k r
  end.

Record gstate : Type := mkG { g_tr : list triple; g_memo : memo; g_next : nat }.

Definition g_empty : gstate := mkG [] [] 0.
Definition fresh (st : gstate) : node * gstate :=
  (g_next st, mkG (g_tr st) (g_memo st) (S (g_next st))).
Definition add_tr (t : triple) (st : gstate) : gstate :=
  mkG (t :: g_tr st) (g_memo st) (g_next st).
Definition upd_tr (f : list triple -> list triple) (st : gstate) : gstate :=
  mkG (f (g_tr st)) (g_memo st) (g_next st).
Definition set_memo (k : key) (n : node) (st : gstate) : gstate :=
  mkG (g_tr st) ((k, n) :: g_memo st) (g_next st).
(* graph.py:362-363  for p in expr.x.params: self.expr_nodes[p] = internal *)
Definition bind_params (ps : list nat) (iN : node) (st : gstate) : gstate :=
  mkG (g_tr st) (map (fun p => ((1, p), iN)) ps ++ g_memo st) (g_next st).

Definition is_abs (e : expr) : bool := match e with EAbs _ _ _ => true | _ => false end.

Section Model.
  (* graph.py:404-417 *)
  Variable add_from : node -> node -> list triple -> list triple.
  Variable pinned : bool.

  Definition add_from_all (ps : list (node * node)) (g : list triple) : list triple :=
    fold_left (fun acc p => add_from (fst p) (snd p) acc) ps g.

  (* graph.py:374-398, given f, x and the internal node (if any) *)
  Definition wire (fnode xn : node) (ci : option node) (g : list triple) : list triple :=
    let prior := objs g fnode p_from in                  (* only the repaired code looks at this *)
    let g1 := add_from fnode xn g in                                              (* 374 *)
    let g2 := match ci with
              | Some iN => add_from_all (map (fun J => (J, iN)) (objs g1 xn p_internal)) g1   (* 380-382 *)
              | None => g1 end in
    let g3 := add_from_all
                (map (fun J => (J, xn))
                   (filter (fun J => match ci with Some iN => negb (Nat.eqb J iN) | None => true end)
                      (objs g2 fnode p_internal))) g2 in                          (* 386-388 *)
    match ci with
    | Some iN =>
        if pinned
        then add_from_all (map (fun y => (iN, y))
               (filter (fun y => negb (Nat.eqb xn y)) (objs g3 fnode p_from))) g3  (* 392-395 *)
        else add_from_all (map (fun y => (iN, y)) prior) g3                         (* repaired *)
    | None => g3
    end.

  Fixpoint add_expr (e : expr) (cur : option node) (st : gstate) {struct e}
      : option (node * gstate) :=
    match memo_find (key_of e) (g_memo st) with                                   (* 235-236 *)
    | Some n => Some (n, st)
    | None =>
      let '(c, st) := match cur with Some c => (c, st) | None => fresh st end in  (* 238 *)
      match e with
      | ESrc _ => Some (c, set_memo (key_of e) c st)                              (* 240-245 *)
      | EOp _ o => Some (c, add_tr (c, p_via, o) st)                              (* 273,285-287 *)
      | EVar _ => None                                 (* assert isinstance(expr, Application), 319 *)
      | EAbs _ _ _ => None                                                        (* idem *)
      | EApp _ f x fn =>
          if is_abs f then None else                                              (* assert, 320 *)
          match add_expr f (Some c) st with                                       (* 329 *)
          | None => None
          | Some (fnode, st1) =>
              let r :=
                if fn then                                                        (* 351-352 *)
                  let '(iN, st2) := fresh st1 in                                   (* 353 *)
                  let st3 := add_tr (fnode, p_internal, iN) st2 in                 (* 355 *)
                  match x with
                  | EAbs _ ps b =>                                                (* 361-366 *)
                      let st4 := bind_params ps iN st3 in
                      let '(xc, st5) := fresh st4 in
                      match add_expr b (Some xc) st5 with
                      | None => None
                      | Some (xn, st6) => Some (xn, Some iN, st6)
                      end
                  | _ =>                                                          (* 367-370 *)
                      let '(xc, st4) := fresh st3 in
                      match add_expr x (Some xc) st4 with
                      | None => None
                      | Some (xn, st5) => Some (xn, Some iN, upd_tr (add_from xn iN) st5)
                      end
                  end
                else                                                              (* 371-373 *)
                  let '(xc, st2) := fresh st1 in
                  match add_expr x (Some xc) st2 with
                  | None => None
                  | Some (xn, st3) => Some (xn, None, st3)
                  end in
              match r with
              | None => None
              | Some (xn, ci, st7) => Some (c, upd_tr (wire fnode xn ci) st7)     (* 374-402 *)
              end
          end
      end
    end.
End Model.

(* add_from without tf:depends (with_dependencies off) *)
Definition add_from_plain (a b : node) (g : list triple) : list triple := (a, p_from, b) :: g.

(* What C08 needs to know about add_from: apart from tf:depends triples it
   adds exactly (a, from, b).  Both the pinned and C09's repaired add_from
   satisfy this. *)
Definition add_from_ok (add_from : node -> node -> list triple -> list triple) : Prop :=
  forall a b g t, t_pred t <> p_depends ->
    (In t (add_from a b g) <-> t = (a, p_from, b) \/ In t g).

Lemma add_from_plain_ok : add_from_ok add_from_plain.
Proof. intros a b g t _. unfold add_from_plain. cbn [In]. intuition auto. Qed.
