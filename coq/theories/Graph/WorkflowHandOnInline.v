(* Graph/WorkflowHandOnInline.v -- C12_inline for workflows with hand-on tools.

   WorkflowInline.v shows, for the class [wf_okb] (every tool an operator application),
   that with passthrough on the workflow graph is the flow of an application tree of
   the single expression [inline] (Graph/WorkflowSpec.v) in which every tool input is
   replaced by its producer's expression.  [inline] already treats a hand-on tool
   correctly: for a_tx a = TIn k, [inst es (TIn k)] IS the inlined expression of the
   k-th input.  This file proves the same statement for the class [wf_okb2] of
   Graph/WorkflowHandOn.v.

   What changes: the resource -> node map is not injective (a hand-on resource has the
   node of the resource handed on), so the plugging function [eta_of] of [utree]
   (keyed by node) may pick another input with the same node; its plugged tree is
   the same, because both are at the end of hand-on chains with the same start.
   The pure facts about [lsubst] / [flow] / [shape] of WorkflowInline.v are reused. *)
From Coq Require Import List Arith Bool Lia.
Import ListNotations.
From TF Require Import Graph.AddExpr Graph.AddExprSpec Graph.AddExprProofs
  Graph.Workflow Graph.WorkflowSpec Graph.WorkflowProofs Graph.WorkflowInline
  Graph.WorkflowHandOn.

(* every tool mentions all its declared inputs, and is an operator application or
   hands its (then only) input on *)
Definition inl_okb2 (wf : wflow) : bool :=
  uses_all wf && forallb (fun a => tspine (a_tx a) || is_tin (a_tx a)) (w_apps wf).

Lemma inl_okb_okb2 wf : inl_okb wf = true -> inl_okb2 wf = true.
Proof.
  unfold inl_okb, inl_okb2. intros H. apply andb_true_iff in H. destruct H as [-> H].
  cbn [andb]. rewrite forallb_forall in *. intros a Ha. rewrite (H a Ha). reflexivity.
Qed.

(* shape_lsubst with a weaker requirement on anonymous sources: plugging leaves their leaf
   alone (eta may name that node, but then only with the same leaf: eta_anon below) *)
Lemma shape_lsubst' sm eta lf an es : forall t L,
  tshape lf an t L -> forall e, inst es t = Some e ->
  (forall k n, lf k = Some n -> forall ek, nth_error es k = Some ek ->
     shape sm [] ek (lsubst eta (LLeaf n))) ->
  (forall i n, an i = Some n -> sm i = Some n /\ lsubst eta (LLeaf n) = LLeaf n) ->
  shape sm [] e (lsubst eta L).
Proof.
  intros t L H. induction H; intros e He Hlf Han; cbn [inst] in He.
  - eapply Hlf; eauto.
  - injection He as <-. destruct (Han i n H) as [A B]. rewrite B. now apply sh_src.
  - injection He as <-. cbn [lsubst map]. apply sh_op.
  - destruct (inst es f) as [f'|] eqn:Ef; [|discriminate].
    destruct (inst es x) as [x'|] eqn:Ex; [|discriminate]. injection He as <-.
    cbn [lsubst]. rewrite map_app. cbn [map fst snd].
    apply sh_data.
    + apply (IHtshape1 f' eq_refl Hlf Han).
    + apply (IHtshape2 x' eq_refl Hlf Han).
  - destruct (inst es f) as [f'|] eqn:Ef; [|discriminate].
    destruct (inst es x) as [x'|] eqn:Ex; [|discriminate]. injection He as <-.
    cbn [lsubst]. rewrite map_app. cbn [map fst snd lsubst].
    apply sh_fun.
    + apply (IHtshape1 f' eq_refl Hlf Han).
    + apply (IHtshape2 x' eq_refl Hlf Han).
Qed.

Section Inline2.
  Variable wf : wflow.
  Hypothesis Hwf : wf_okb2 wf = true.
  Hypothesis Hinl : inl_okb2 wf = true.
  Variable res : wres.
  Variable T : list (nat * lx).
  Variable sg : nat -> option node.
  Variable tg : nat.
  Hypothesis Htg : target wf = Some tg.
  Hypothesis HdomT : forall r, In r (map fst T) <-> In r (w_srcs wf) \/ In r (outs wf).
  Hypothesis HndT : NoDup (map fst T).
  Hypothesis Hrho : forall r L, In (r, L) T -> rho res r = Some (lnode L).
  Hypothesis Hleaf : forall s L, In (s, L) T -> In s (w_srcs wf) -> exists n, L = LLeaf n.
  Hypothesis Hshape : forall a L, In a (w_apps wf) -> In (a_out a, L) T ->
    tshape (feed wf true res sg a) sg (a_tx a) L.
  Hypothesis Hsg : forall i n, sg i = Some n -> ~ In n (namesT T).
  Hypothesis Hsgs : forall s, In s (w_srcs wf) -> sg s = rho res s.
  Hypothesis Hshare : forall r r', In r (w_srcs wf) \/ In r (outs wf) ->
    In r' (w_srcs wf) \/ In r' (outs wf) ->
    (rho res r = rho res r' <-> exists r0, hroot wf true r r0 /\ hroot wf true r' r0).

  Let srcs := w_srcs wf.
  Let apps := w_apps wf.
  Let F := wf_fuel wf.

  Definition dom (r : nat) : Prop := In r (w_srcs wf) \/ In r (outs wf).

  Lemma T_lookup2 r L : In (r, L) T -> assoc_n r T = Some L.
  Proof. intros H. now apply In_assoc_n. Qed.

  Lemma T_dom r L : In (r, L) T -> dom r.
  Proof. intros H. apply HdomT. apply in_map_iff. exists (r, L). auto. Qed.

  Lemma dom_T r : dom r -> exists L, In (r, L) T.
  Proof.
    intros H. apply HdomT in H. apply in_map_iff in H. destruct H as [[r0 L] [E H]].
    cbn in E. subst r0. eauto.
  Qed.

  Lemma T_fun r L L' : In (r, L) T -> In (r, L') T -> L = L'.
  Proof. intros H H'. pose proof (T_lookup2 r L H). pose proof (T_lookup2 r L' H'). congruence. Qed.

  Lemma app_dom a : In a apps -> dom (a_out a).
  Proof. intros Ha. right. unfold outs. now apply in_map. Qed.

  Lemma app_not_src a : In a apps -> ~ In (a_out a) srcs.
  Proof. intros Ha F0. apply (src_not_out2 wf Hwf _ F0). unfold outs. now apply in_map. Qed.

  Lemma kind_of a : In a apps -> tspine (a_tx a) = true \/ exists k, a_tx a = TIn k.
  Proof.
    intros Ha. unfold inl_okb2 in Hinl. apply andb_true_iff in Hinl. destruct Hinl as [_ H].
    rewrite forallb_forall in H. specialize (H a Ha). apply orb_true_iff in H.
    destruct H as [H | H]; [auto|]. right. destruct (a_tx a); try discriminate. eauto.
  Qed.

  Lemma uses a k : In a apps -> k < length (a_ins a) -> tx_uses k (a_tx a) = true.
  Proof.
    intros Ha Hk. unfold inl_okb2 in Hinl. apply andb_true_iff in Hinl. destruct Hinl as [Hu _].
    unfold uses_all in Hu. rewrite forallb_forall in Hu. specialize (Hu a Ha).
    rewrite forallb_forall in Hu. apply Hu. apply in_seq. lia.
  Qed.

  (* a hand-on tool has exactly the input it hands on *)
  Lemma handon_single a k : In a apps -> a_tx a = TIn k -> k = 0 /\ exists q, a_ins a = [q].
  Proof.
    intros Ha Et.
    destruct (app_parts2 wf Hwf a Ha) as [_ [_ [Htwf _]]]. rewrite Et in Htwf. cbn [twfb] in Htwf.
    apply Nat.ltb_lt in Htwf.
    assert (Hu : forall j, j < length (a_ins a) -> j = k).
    { intros j Hj. pose proof (uses a j Ha Hj) as U. rewrite Et in U. cbn [tx_uses] in U.
      now apply Nat.eqb_eq in U. }
    destruct (a_ins a) as [|q [|q' l]]; cbn [length] in *.
    - lia.
    - split; [symmetry; apply Hu; lia | eauto].
    - exfalso. assert (0 = k) by (apply Hu; lia). assert (1 = k) by (apply Hu; lia). lia.
  Qed.

  Lemma spine_tree2 a L : In a apps -> tspine (a_tx a) = true -> In (a_out a, L) T ->
    exists c o args, L = LSpine c o args.
  Proof.
    intros Ha Hsp HT. pose proof (Hshape a L Ha HT) as Hs.
    destruct (a_tx a); cbn in Hsp; try discriminate; inversion Hs; subst; eauto.
  Qed.

  Lemma hroot_rho r r0 : dom r -> hroot wf true r r0 -> rho res r = rho res r0.
  Proof.
    intros Hd H. apply Hshare; [exact Hd | apply (hroot_dom wf true Hwf r r0 H Hd) |].
    exists r0. split; [exact H|]. apply hr_self. eapply hroot_root; eauto.
  Qed.

  Lemma same_node_root q q' Lq Lq' : In (q, Lq) T -> In (q', Lq') T -> lnode Lq = lnode Lq' ->
    exists r0, hroot wf true q r0 /\ hroot wf true q' r0.
  Proof.
    intros H H' E. apply Hshare; [eapply T_dom; eauto | eapply T_dom; eauto |].
    rewrite (Hrho _ _ H), (Hrho _ _ H'), E. reflexivity.
  Qed.

  (* the start of a chain is a source or the output of an operator application *)
  Lemma root_kind r0 : dom r0 -> hand_on wf true r0 = None ->
    In r0 srcs \/ exists a, In a apps /\ a_out a = r0 /\ tspine (a_tx a) = true.
  Proof.
    intros [Hs | Ho] Hr; [left; exact Hs|]. right.
    destruct (out_app2 wf Hwf r0 Ho) as [a [Ha [Eo Ef]]]. exists a. split; [exact Ha|].
    split; [exact Eo|]. destruct (kind_of a Ha) as [H | [k Et]]; [exact H|]. exfalso.
    destruct (handon_single a k Ha Et) as [-> [q Eq]].
    unfold hand_on in Hr. rewrite Ef, Et, Eq in Hr. cbn in Hr. discriminate Hr.
  Qed.

  (* ---------------------------------------------------------------------- *)
  (* the plugged trees *)

  Definition eta_of2 (sub : nat -> option lx) (a : tapp) (n : node) : option lx :=
    match find (fun q => negb (memb q srcs) &&
                         match assoc_n q T with
                         | Some Lq => Nat.eqb (lnode Lq) n
                         | None => false
                         end) (a_ins a) with
    | Some q => sub q
    | None => None
    end.

  Lemma utree_unfold2 f r :
    utree wf T (S f) r =
    match assoc_n r T with
    | None => None
    | Some L => if memb r srcs then Some L
                else match find_app wf r with
                     | None => None
                     | Some a => Some (lsubst (eta_of2 (utree wf T f) a) L)
                     end
    end.
  Proof. reflexivity. Qed.

  Lemma utree_src f s L : In s srcs -> In (s, L) T -> utree wf T f s = Some L.
  Proof.
    intros Hs HT. destruct f as [|f]; cbn [utree]; rewrite (T_lookup2 s L HT);
      fold srcs; rewrite (proj2 (memb_In s srcs) Hs); reflexivity.
  Qed.

  Lemma utree_stable2 : forall f f' r, rank wf r < f -> rank wf r < f' ->
    utree wf T f r = utree wf T f' r.
  Proof.
    induction f as [|f IH]; intros f' r H1 H2; [lia|]. destruct f' as [|f']; [lia|].
    rewrite !utree_unfold2. destruct (assoc_n r T) as [L|]; [|reflexivity].
    destruct (memb r srcs); [reflexivity|].
    destruct (find_app wf r) as [a|] eqn:Ef; [|reflexivity].
    destruct (find_app_some wf r a Ef) as [Ha Eo]. f_equal. apply lsubst_ext. intros n.
    unfold eta_of2. destruct (find _ (a_ins a)) as [q|] eqn:Eq; [|reflexivity].
    apply find_some in Eq. destruct Eq as [Hq _].
    destruct (app_parts2 wf Hwf a Ha) as [Hins _]. destruct (Hins q Hq) as [_ Hlt].
    rewrite Eo in Hlt. apply IH; lia.
  Qed.

  (* plugged trees exist and keep the root *)
  Lemma utree_some : forall f r L, In (r, L) T -> rank wf r < f ->
    exists U, utree wf T f r = Some U /\ lnode U = lnode L.
  Proof.
    induction f as [|f IH]; intros r L HT Hlt; [lia|].
    rewrite utree_unfold2, (T_lookup2 r L HT).
    destruct (memb r srcs) eqn:Es; [eauto|]. apply memb_false in Es.
    destruct (T_dom r L HT) as [Hs | Ho]; [contradiction|].
    destruct (out_app2 wf Hwf r Ho) as [a [Ha [Eo Ef]]]. rewrite Ef.
    eexists. split; [reflexivity|]. apply lsubst_lnode.
    intros n U Hn. unfold eta_of2 in Hn.
    destruct (find _ (a_ins a)) as [q|] eqn:Eq; [|discriminate].
    apply find_some in Eq. destruct Eq as [Hq Hc]. apply andb_true_iff in Hc. destruct Hc as [_ Hc].
    destruct (assoc_n q T) as [Lq|] eqn:El; [|discriminate]. apply Nat.eqb_eq in Hc.
    apply assoc_n_In in El.
    destruct (app_parts2 wf Hwf a Ha) as [Hins _]. destruct (Hins q Hq) as [_ Hqlt].
    rewrite Eo in Hqlt.
    destruct (IH q Lq El) as [Uq [EUq Hl]]; [lia|]. rewrite EUq in Hn. injection Hn as <-. congruence.
  Qed.

  Lemma eta_ok2 f a : In a apps -> rank wf (a_out a) <= f -> eta_ok (eta_of2 (utree wf T f) a).
  Proof.
    intros Ha Hf n U Hn. unfold eta_of2 in Hn.
    destruct (find _ (a_ins a)) as [q|] eqn:Eq; [|discriminate].
    apply find_some in Eq. destruct Eq as [Hq Hc]. apply andb_true_iff in Hc. destruct Hc as [_ Hc].
    destruct (assoc_n q T) as [Lq|] eqn:El; [|discriminate]. apply Nat.eqb_eq in Hc.
    apply assoc_n_In in El.
    destruct (app_parts2 wf Hwf a Ha) as [Hins _]. destruct (Hins q Hq) as [_ Hqlt].
    destruct (utree_some f q Lq El) as [Uq [EUq Hl]]; [lia|]. rewrite EUq in Hn. injection Hn as <-.
    congruence.
  Qed.

  (* the plugged tree of a handed-on resource is that of the start of its chain *)
  Lemma utree_hroot r r0 : hroot wf true r r0 -> dom r ->
    forall f, rank wf r < f -> utree wf T f r = utree wf T f r0.
  Proof.
    induction 1 as [r Hr | r q r0 Hs Hq IH]; intros Hd f Hlt; [reflexivity|].
    destruct (hand_on_some wf true r q Hs) as [a [k [Hf [Ha [Eo [Et [Hk _]]]]]]].
    destruct (handon_single a k Ha Et) as [-> [q' Eins]]. rewrite Eins in Hk. cbn in Hk.
    injection Hk as ->.
    pose proof (hand_on_rank wf true Hwf r q Hs) as Hrk.
    assert (Hdq : dom q).
    { destruct (app_parts2 wf Hwf a Ha) as [Hins _]. apply (Hins q). rewrite Eins. cbn. auto. }
    destruct (dom_T r Hd) as [L HT]. destruct (dom_T q Hdq) as [Lq HTq].
    (* the tree of r is the leaf that feeds it *)
    subst r. pose proof (Hshape a L Ha HT) as Hts. rewrite Et in Hts. inversion Hts; subst.
    match goal with H : feed _ _ _ _ _ _ = Some _ |- _ => rename H into Hfeed end.
    unfold feed in Hfeed. rewrite Eins in Hfeed. cbn in Hfeed. rewrite (Hrho q Lq HTq) in Hfeed.
    injection Hfeed as <-.
    destruct f as [|f]; [lia|].
    rewrite utree_unfold2, (T_lookup2 _ _ HT).
    rewrite (proj2 (memb_false (a_out a) srcs) (app_not_src a Ha)), Hf.
    cbn [lsubst]. unfold eta_of2. rewrite Eins. cbn [find]. rewrite (T_lookup2 q Lq HTq), Nat.eqb_refl.
    destruct (memb q srcs) eqn:Eqs; cbn [negb andb].
    - (* a source is handed on *)
      apply memb_In in Eqs.
      pose proof (hroot_self wf true q r0 (src_root wf true Hwf q Eqs) Hq) as ->.
      rewrite (utree_src (S f) q Lq Eqs HTq). destruct (Hleaf q Lq HTq Eqs) as [m ->]. reflexivity.
    - destruct (utree_some f q Lq HTq) as [Uq [EUq _]]; [lia|]. rewrite EUq.
      rewrite <- (IH Hdq (S f)) by lia. rewrite <- EUq. apply utree_stable2; lia.
  Qed.

  (* what plugging puts at the leaf that feeds an input: the plugged tree of that input *)
  Lemma eta_input f a q Lq Uq :
    In a apps -> In q (a_ins a) -> In (q, Lq) T -> rank wf (a_out a) <= f ->
    utree wf T f q = Some Uq ->
    lsubst (eta_of2 (utree wf T f) a) (LLeaf (lnode Lq)) = Uq.
  Proof.
    intros Ha Hq HT Hf EU. cbn [lsubst]. unfold eta_of2.
    destruct (app_parts2 wf Hwf a Ha) as [Hins _].
    destruct (find _ (a_ins a)) as [q'|] eqn:Ef.
    - apply find_some in Ef. destruct Ef as [Hq' Hc]. apply andb_true_iff in Hc. destruct Hc as [_ Hc].
      destruct (assoc_n q' T) as [Lq'|] eqn:El; [|discriminate]. apply Nat.eqb_eq in Hc.
      apply assoc_n_In in El.
      destruct (same_node_root q' q Lq' Lq El HT Hc) as [r0 [H1 H2]].
      destruct (Hins q Hq) as [Hd Hl]. destruct (Hins q' Hq') as [Hd' Hl'].
      rewrite (utree_hroot q' r0 H1 Hd' f) by lia.
      rewrite <- (utree_hroot q r0 H2 Hd f) by lia. now rewrite EU.
    - pose proof (find_none _ _ Ef q Hq) as Hn. cbn beta in Hn.
      rewrite (T_lookup2 q Lq HT), Nat.eqb_refl, andb_true_r in Hn.
      apply negb_false_iff, memb_In in Hn.
      rewrite (utree_src f q Lq Hn HT) in EU. injection EU as <-.
      destruct (Hleaf q Lq HT Hn) as [m ->]. reflexivity.
  Qed.

  (* plugging leaves the leaf of an anonymous source alone *)
  Lemma eta_anon f a i n :
    In a apps -> rank wf (a_out a) <= f -> sg i = Some n ->
    lsubst (eta_of2 (utree wf T f) a) (LLeaf n) = LLeaf n.
  Proof.
    intros Ha Hf Hi. cbn [lsubst]. unfold eta_of2.
    destruct (app_parts2 wf Hwf a Ha) as [Hins _].
    destruct (find _ (a_ins a)) as [q'|] eqn:Ef; [|reflexivity].
    apply find_some in Ef. destruct Ef as [Hq' Hc]. apply andb_true_iff in Hc. destruct Hc as [_ Hc].
    destruct (assoc_n q' T) as [Lq'|] eqn:El; [|discriminate]. apply Nat.eqb_eq in Hc.
    apply assoc_n_In in El. destruct (Hins q' Hq') as [Hd' Hl'].
    destruct (hroot_total wf true Hwf q') as [r0 Hr0].
    rewrite (utree_hroot q' r0 Hr0 Hd' f) by lia.
    assert (Hd0 : dom r0) by (apply (hroot_dom wf true Hwf q' r0 Hr0 Hd')).
    destruct (dom_T r0 Hd0) as [L0 HT0].
    assert (Hn0 : lnode L0 = n).
    { pose proof (hroot_rho q' r0 Hd' Hr0) as E. rewrite (Hrho _ _ El), (Hrho _ _ HT0) in E.
      injection E as E. congruence. }
    destruct (root_kind r0 Hd0 (hroot_root _ _ _ _ Hr0)) as [Hs | [a0 [Ha0 [Eo0 Hsp]]]].
    - rewrite (utree_src f r0 L0 Hs HT0). destruct (Hleaf r0 L0 HT0 Hs) as [m ->].
      cbn [lnode] in Hn0. now subst m.
    - exfalso. subst r0. destruct (spine_tree2 a0 L0 Ha0 Hsp HT0) as [c [o [args ->]]].
      cbn [lnode] in Hn0. subst c. apply (Hsg i n Hi).
      unfold namesT. apply in_flat_map. exists (a_out a0, LSpine n o args). split; [exact HT0|].
      cbn. auto.
  Qed.

  (* fuel by fuel: the inlined expression, its tree, and what its flow contains *)
  Definition InlStmt2 (f : nat) : Prop := forall r L,
    In (r, L) T -> rank wf r < f ->
    exists e U, inline wf f r = Some e /\ utree wf T f r = Some U /\
      shape sg [] e U /\ lnode U = lnode L /\
      (forall t, In t (flow U) -> In t (flowT T)) /\
      (forall t, In t (flow L) -> In t (flow U)).

  Lemma inl_step2 : forall f, InlStmt2 f.
  Proof.
    induction f as [|f IH]; intros r L HT Hlt; [lia|].
    pose proof (T_dom r L HT) as Hr.
    rewrite utree_unfold2. cbn [inline]. rewrite (T_lookup2 r L HT). fold srcs.
    destruct (memb r srcs) eqn:Es.
    - (* a source *)
      apply memb_In in Es. destruct (Hleaf r L HT Es) as [n ->].
      exists (ESrc r), (LLeaf n). split; [reflexivity|]. split; [reflexivity|]. split.
      + apply sh_src. rewrite (Hsgs r Es). apply (Hrho r _ HT).
      + split; [reflexivity|]. split; intros t [].
    - apply memb_false in Es. destruct Hr as [Hr | Hr]; [contradiction|].
      destruct (out_app2 wf Hwf r Hr) as [a [Ha [Eo Efind]]]. rewrite Efind. subst r.
      destruct (app_parts2 wf Hwf a Ha) as [Hins [_ [Htwf _]]].
      pose proof (Hshape a L Ha HT) as Hts.
      (* the inputs *)
      assert (Hinp : forall q, In q (a_ins a) -> exists Lq eq Uq, In (q, Lq) T /\
                inline wf f q = Some eq /\ utree wf T f q = Some Uq /\ shape sg [] eq Uq /\
                lnode Uq = lnode Lq /\ (forall t, In t (flow Uq) -> In t (flowT T))).
      { intros q Hq. destruct (Hins q Hq) as [Hqr Hqlt].
        destruct (dom_T q Hqr) as [Lq HqT].
        destruct (IH q Lq HqT) as [eq [Uq [A [B [C [D [E1 _]]]]]]]; [lia|].
        exists Lq, eq, Uq. auto 10. }
      destruct (mapM_o_some (inline wf f) (a_ins a)) as [es Ees].
      { intros q Hq. destruct (Hinp q Hq) as [_ [eq [_ [_ [A _]]]]]. eauto. }
      rewrite Ees.
      assert (Hlen : length es = length (a_ins a)) by (eapply mapM_o_length; eauto).
      destruct (inst_some es (a_tx a)) as [e Einst]; [now rewrite Hlen|].
      set (eta := eta_of2 (utree wf T f) a).
      assert (Hfa : rank wf (a_out a) <= f) by lia.
      assert (Heta_ok : eta_ok eta) by (apply eta_ok2; auto).
      exists e, (lsubst eta L). split; [exact Einst|]. split; [reflexivity|].
      assert (Hdl : dlb L = true) by (eapply tshape_dlb; eauto).
      split; [|split; [now apply lsubst_lnode|split]].
      + (* shape *)
        apply (shape_lsubst' sg eta (feed wf true res sg a) sg es (a_tx a) L Hts e Einst).
        * intros k n Hfeed ek Hek. unfold feed in Hfeed.
          destruct (nth_error (a_ins a) k) as [q|] eqn:Ek; [|discriminate]. cbn [orb] in Hfeed.
          destruct (mapM_o_nth _ _ _ k q Ees Ek) as [ek' [Hek' Hinl']]. rewrite Hek in Hek'.
          injection Hek' as <-.
          destruct (Hinp q (nth_error_In _ _ Ek)) as [Lq [eq [Uq [HqT [A [B [C [D _]]]]]]]].
          rewrite Hinl' in A. injection A as <-.
          rewrite (Hrho q Lq HqT) in Hfeed. injection Hfeed as <-.
          unfold eta. rewrite (eta_input f a q Lq Uq Ha (nth_error_In _ _ Ek) HqT Hfa B). exact C.
        * intros i n Hi. split; [exact Hi|]. unfold eta. eapply eta_anon; eauto.
      + (* nothing but the flows of the tool trees *)
        intros t Ht. apply (flow_lsubst eta Heta_ok L Hdl) in Ht.
        destruct Ht as [Ht | [n [U [Hn [He Hu]]]]].
        * unfold flowT. apply in_flat_map. exists (a_out a, L). auto.
        * unfold eta, eta_of2 in He. destruct (find _ (a_ins a)) as [q|] eqn:Ef; [|discriminate].
          apply find_some in Ef. destruct Ef as [Hq _].
          destruct (Hinp q Hq) as [Lq [eq [Uq [_ [_ [B [_ [_ Hsub]]]]]]]].
          rewrite B in He. injection He as <-. now apply Hsub.
      + intros t Ht. apply (flow_lsubst eta Heta_ok L Hdl). auto.
  Qed.

  Definition Uof2 (r : nat) : option lx := utree wf T F r.

  Lemma rank_lt_F2 r : dom r -> rank wf r < F.
  Proof. apply (rank_bound wf Hwf). Qed.

  (* the tree of a producer sits inside the tree of its consumer *)
  Lemma producer_inside2 a b La Lb Ua Ub :
    In a apps -> In b apps -> In (a_out a) (a_ins b) ->
    In (a_out a, La) T -> In (a_out b, Lb) T ->
    Uof2 (a_out a) = Some Ua -> Uof2 (a_out b) = Some Ub ->
    forall t, In t (flow Ua) -> In t (flow Ub).
  Proof.
    intros Ha Hb Hin HTa HTb EUa EUb t Ht.
    unfold Uof2, F, wf_fuel in *. rewrite utree_unfold2 in EUb.
    rewrite (T_lookup2 _ _ HTb) in EUb.
    rewrite (proj2 (memb_false (a_out b) srcs) (app_not_src b Hb)) in EUb.
    rewrite (find_app_unique wf b (nd_outs2 wf Hwf) Hb) in EUb. injection EUb as <-.
    pose proof (Hshape b Lb Hb HTb) as Hts.
    assert (Hdl : dlb Lb = true) by (eapply tshape_dlb; eauto).
    destruct (app_parts2 wf Hwf b Hb) as [Hins [Hle _]]. destruct (Hins _ Hin) as [_ Hlt].
    (* the position *)
    destruct (In_nth_error _ _ Hin) as [k Hk].
    assert (Huse : tx_uses k (a_tx b) = true).
    { apply uses; [exact Hb|]. apply nth_error_Some. congruence. }
    destruct (tshape_leaf _ _ _ _ k Hts Huse) as [n [Hfeed Hleafn]].
    unfold feed in Hfeed. rewrite Hk in Hfeed. cbn [orb] in Hfeed.
    rewrite (Hrho _ _ HTa) in Hfeed. injection Hfeed as <-.
    set (eta := eta_of2 (utree wf T (length (w_apps wf))) b).
    assert (Hfb : rank wf (a_out b) <= length (w_apps wf)) by exact Hle.
    assert (Heta_ok : eta_ok eta) by (apply eta_ok2; auto).
    assert (EUa' : utree wf T (length (w_apps wf)) (a_out a) = Some Ua).
    { rewrite <- EUa. apply utree_stable2; [lia|]. apply rank_lt_F2. now apply app_dom. }
    pose proof (eta_input _ b (a_out a) La Ua Hb Hin HTa Hfb EUa') as Hplug.
    cbn [lsubst] in Hplug. fold eta in Hplug.
    apply (flow_lsubst eta Heta_ok Lb Hdl). right. exists (lnode La), Ua.
    split; [exact Hleafn|]. split; [|exact Ht].
    destruct (eta (lnode La)) as [U|]; [now rewrite Hplug|].
    exfalso. subst Ua. destruct Ht.
  Qed.

  Theorem inline_tree2 :
    exists e U, inline wf F tg = Some e /\ shape sg [] e U /\ rho res tg = Some (lnode U) /\
      forall t, In t (flow U) <-> In t (flowT T).
  Proof.
    destruct (target_spec wf tg Htg) as [Htgo Hcons].
    destruct (dom_T tg (or_intror Htgo)) as [Ltg HtgT].
    destruct (inl_step2 F tg Ltg HtgT (rank_lt_F2 tg (or_intror Htgo)))
      as [e [U [Ei [Eu [Hsh [Hln [Hsub Hown]]]]]]].
    exists e, U. split; [exact Ei|]. split; [exact Hsh|]. split.
    { rewrite Hln. apply (Hrho tg Ltg HtgT). }
    intros t. split; [apply Hsub|].
    (* every tool tree is inside *)
    assert (Hall : forall d a La Ua, In a apps -> length apps - rank wf (a_out a) <= d ->
              In (a_out a, La) T -> Uof2 (a_out a) = Some Ua ->
              forall t0, In t0 (flow Ua) -> In t0 (flow U)).
    { induction d as [|d IHd]; intros a La Ua Ha Hd HTa EUa t0 Ht0;
        (destruct (Nat.eq_dec (a_out a) tg) as [Eq | Hne];
         [unfold Uof2 in EUa; rewrite Eq, Eu in EUa; now injection EUa as <-|]);
        assert (Ho : In (a_out a) (outs wf)) by (unfold outs; now apply in_map);
        specialize (Hcons _ Ho Hne); unfold consumed in Hcons; apply existsb_exists in Hcons;
        destruct Hcons as [b [Hb Hm]]; apply memb_In in Hm;
        destruct (app_parts2 wf Hwf b Hb) as [Hins [Hle _]]; destruct (Hins _ Hm) as [_ Hlt].
      - exfalso. unfold apps in *. lia.
      - destruct (dom_T (a_out b) (app_dom b Hb)) as [Lb HbT].
        destruct (inl_step2 F (a_out b) Lb HbT) as [eb [Ub [_ [EUb _]]]].
        { apply rank_lt_F2. now apply app_dom. }
        apply (IHd b Lb Ub Hb); [unfold apps in *; lia | exact HbT | exact EUb |].
        eapply (producer_inside2 a b La Lb Ua Ub); eauto. }
    intros Ht. unfold flowT in Ht. apply in_flat_map in Ht. destruct Ht as [[r L] [HT Ht]].
    cbn [snd] in Ht.
    destruct (T_dom r L HT) as [Hs | Ho].
    - destruct (Hleaf r L HT Hs) as [n ->]. destruct Ht.
    - destruct (out_app2 wf Hwf r Ho) as [a [Ha [Eo _]]]. subst r.
      destruct (inl_step2 F (a_out a) L HT (rank_lt_F2 _ (or_intror Ho)))
        as [ea [Ua [_ [EUa [_ [_ [_ Hown_a]]]]]]].
      apply (Hall (length apps) a L Ua Ha); [lia | exact HT | exact EUa |].
      now apply Hown_a.
  Qed.
End Inline2.

(* ------------------------------------------------------------------------ *)
(* the theorems *)

Theorem add_workflow_handon_inline add_from add_from_r :
  add_from_ok add_from -> add_from_ok add_from_r ->
  forall wf, wf_okb2 wf = true -> inl_okb2 wf = true ->
  exists res tg e U sm0,
    add_workflow add_from add_from_r false true wf = Some res /\
    target wf = Some tg /\
    inline wf (wf_fuel wf) tg = Some e /\
    shape sm0 [] e U /\ lnode U = r_output res /\
    (forall t, vis t -> (In t (r_tr res) <-> In t (flow U))).
Proof.
  intros Hok Hokr wf Hwf Hinl.
  destruct (add_workflow_handon add_from add_from_r Hok Hokr true wf Hwf)
    as (res & T & sg & tg & Hrun & Htg & _ & _ & Hshare & _ & HdomT & HndT & Hrho & Hleaf & Hshape &
        Hnd & Hsg & Hsgs & Hgraph & _ & Hout).
  destruct (inline_tree2 wf Hwf Hinl res T sg tg Htg HdomT HndT Hrho Hleaf Hshape Hsg Hsgs Hshare)
    as [e [U [Ei [Hsh [Hn Hflow]]]]].
  exists res, tg, e, U, sg. split; [exact Hrun|]. split; [exact Htg|]. split; [exact Ei|].
  split; [exact Hsh|]. split; [congruence|].
  intros t Hv. rewrite (Hgraph t Hv), Hflow. split; [|auto].
  intros [H | [F0 _]]; [exact H | discriminate F0].
Qed.

Lemma inline_wfb2 wf : wf_okb2 wf = true -> forall f r e, inline wf f r = Some e ->
  wfb [] e = true /\ is_abs e = false.
Proof.
  intros Hwf. induction f as [|f IH]; intros r e; cbn [inline].
  - destruct (memb r (w_srcs wf)); [|discriminate]. intros [= <-]. auto.
  - destruct (memb r (w_srcs wf)); [intros [= <-]; auto|].
    destruct (find_app wf r) as [a|] eqn:Ef; [|discriminate].
    destruct (mapM_o (inline wf f) (a_ins a)) as [es|] eqn:Ees; [|discriminate].
    intros Hi. destruct (find_app_some wf r a Ef) as [Ha _].
    destruct (app_parts2 wf Hwf a Ha) as [_ [_ [Htwf _]]].
    apply (inst_wfb es (a_tx a) e Hi).
    + now rewrite (mapM_o_length _ _ _ Ees).
    + intros k ek Hk.
      assert (Hlt : k < length (a_ins a)).
      { rewrite <- (mapM_o_length _ _ _ Ees). apply nth_error_Some. congruence. }
      destruct (nth_error (a_ins a) k) as [q|] eqn:Eq; [|apply nth_error_None in Eq; lia].
      destruct (mapM_o_nth _ _ _ k q Ees Eq) as [y [Hy Hq]]. rewrite Hk in Hy. injection Hy as <-.
      apply (IH q ek Hq).
Qed.

Theorem add_workflow_handon_vs_add_expr add_from add_from_r :
  add_from_ok add_from -> add_from_ok add_from_r ->
  forall wf, wf_okb2 wf = true -> inl_okb2 wf = true ->
  exists res tg e U sm0 L st',
    add_workflow add_from add_from_r false true wf = Some res /\
    target wf = Some tg /\ inline wf (wf_fuel wf) tg = Some e /\
    (* the workflow *)
    shape sm0 [] e U /\ lnode U = r_output res /\
    (forall t, vis t -> (In t (r_tr res) <-> In t (flow U))) /\
    (* the expression *)
    add_expr add_from false e None g_empty = Some (lnode L, st') /\
    shape (srcmap (g_memo st')) [] e L /\
    (forall t, vis t -> (In t (g_tr st') <-> In t (flow L))).
Proof.
  intros Hok Hokr wf Hwf Hinl.
  destruct (add_workflow_handon_inline add_from add_from_r Hok Hokr wf Hwf Hinl)
    as [res [tg [e [U [sm0 [Hrun [Htg [Ei [Hsh [Hn Hg]]]]]]]]]].
  destruct (inline_wfb2 wf Hwf _ _ _ Ei) as [Hw _].
  destruct (add_expr_flow add_from Hok e Hw) as [L [st' [Ea [Hs [_ [_ [_ Hf]]]]]]].
  exists res, tg, e, U, sm0, L, st'. auto 12.
Qed.
