(* Graph/WorkflowSpec.v -- the declarative side of property C12.

   [wf_okb]   the workflows the property speaks about (decidable): resources
              named once, every input defined, acyclic, exactly one final
              application, every tool expression an operator application (or a
              single anonymous source) that uses its inputs as data, distinct
              objects have distinct identities
   [tshape]   "L is the application tree of this tool expression when input k
              is fed by node lf k" -- says nothing about how add_workflow works
   [lsubst]   plugging trees into the leaves of a tree (the inlined expression)
   The graph the property prescribes is [flow] (Graph/AddExprSpec.v, C08) of
   these trees.                                                            *)
From Coq Require Import List Arith Bool Lia.
Import ListNotations.
From TF Require Import Graph.AddExpr Graph.AddExprSpec Graph.Workflow.

(* ------------------------------------------------------------------------ *)
(* well-formed tool expressions *)

Fixpoint tspine (t : tx) : bool :=
  match t with TOp _ _ => true | TApp _ f _ _ => tspine f | _ => false end.

(* n = number of inputs of the tool.  Every application is headed by an
   operator; a function-typed argument is an operator or a partial application;
   inputs and anonymous sources are used as data *)
Fixpoint twfb (n : nat) (t : tx) : bool :=
  match t with
  | TIn k => Nat.ltb k n
  | TAnon _ => true
  | TOp _ _ => true
  | TApp _ f x fn =>
      tspine f && twfb n f && (if fn then tspine x && twfb n x else twfb n x)
  end.

Definition ttop (t : tx) : bool :=
  tspine t || match t with TAnon _ => true | _ => false end.

(* identities of the objects parse_expr creates for a tool expression *)
Fixpoint tx_ids (t : tx) : list nat :=
  match t with
  | TIn _ => []
  | TAnon i => [i]
  | TOp i _ => [i]
  | TApp i f x _ => i :: tx_ids f ++ tx_ids x
  end.

Definition all_ids (wf : wflow) : list nat :=
  flat_map (fun a => tx_ids (a_tx a) ++ a_ind a) (w_apps wf).

Definition outs (wf : wflow) : list nat := map a_out (w_apps wf).

(* ------------------------------------------------------------------------ *)
(* acyclic: the depth of a resource (sources 0), computed with fuel, strictly
   increases along every input edge *)

Fixpoint rk (wf : wflow) (fuel : nat) (r : nat) : nat :=
  match fuel with
  | 0 => 0
  | S f => match find_app wf r with
           | None => 0
           | Some a => S (list_max (map (rk wf f) (a_ins a)))
           end
  end.

Definition rank (wf : wflow) (r : nat) : nat := rk wf (wf_fuel wf) r.

Fixpoint nodupb (l : list nat) : bool :=
  match l with [] => true | x :: r => negb (memb x r) && nodupb r end.

Definition app_okb (wf : wflow) (a : tapp) : bool :=
  forallb (fun i => (memb i (w_srcs wf) || memb i (outs wf))
                    && Nat.ltb (rank wf i) (rank wf (a_out a))) (a_ins a)
  && Nat.leb (rank wf (a_out a)) (length (w_apps wf))
  && twfb (length (a_ins a)) (a_tx a) && ttop (a_tx a)
  && Nat.eqb (length (a_ind a)) (length (a_ins a)).

Definition wf_okb (wf : wflow) : bool :=
  nodupb (w_srcs wf ++ outs wf)
  && nodupb (w_srcs wf ++ all_ids wf)
  && forallb (app_okb wf) (w_apps wf)
  && match target wf with Some _ => true | None => false end.

(* ------------------------------------------------------------------------ *)
(* the application tree of a tool expression.  lf k: node that feeds input k;
   an i: node of the anonymous source with identity i *)

Inductive tshape (lf an : nat -> option node) : tx -> lx -> Prop :=
| ts_in k n : lf k = Some n -> tshape lf an (TIn k) (LLeaf n)
| ts_anon i n : an i = Some n -> tshape lf an (TAnon i) (LLeaf n)
| ts_op i o c : tshape lf an (TOp i o) (LSpine c o [])
| ts_data i f x c o args Lx :
    tshape lf an f (LSpine c o args) -> tshape lf an x Lx ->
    tshape lf an (TApp i f x false) (LSpine c o (args ++ [(AData, Lx)]))
| ts_fun i f x c o args iN cx ox argsx :
    tshape lf an f (LSpine c o args) -> tshape lf an x (LSpine cx ox argsx) ->
    tshape lf an (TApp i f x true) (LSpine c o (args ++ [(AFun iN, LSpine cx ox argsx)])).

(* ------------------------------------------------------------------------ *)
(* plugging: replace the leaves named by [eta] by trees *)

Fixpoint lsubst (eta : node -> option lx) (l : lx) : lx :=
  match l with
  | LLeaf n => match eta n with Some u => u | None => LLeaf n end
  | LSpine c o args => LSpine c o (map (fun a => (fst a, lsubst eta (snd a))) args)
  end.

Fixpoint assoc_n {A} (k : nat) (l : list (nat * A)) : option A :=
  match l with
  | [] => None
  | (k', v) :: r => if Nat.eqb k k' then Some v else assoc_n k r
  end.

(* the node of a resource according to the returned dict *)
Definition rho (res : wres) (r : nat) : option node := assoc_n r (r_map res).

(* the node that feeds input k of tool application a: the producer's node, or -
   passthrough off and the producer is a tool application - the node of the
   Source object made for that input (sg: nodes of Source objects by identity) *)
Definition feed (wf : wflow) (pt : bool) (res : wres) (sg : nat -> option node)
    (a : tapp) (k : nat) : option node :=
  match nth_error (a_ins a) k with
  | Some q => if pt || memb q (w_srcs wf) then rho res q else sg (nth k (a_ind a) 0)
  | None => None
  end.

(* ------------------------------------------------------------------------ *)
(* the inlined expression *)

Fixpoint mapM_o {A B} (f : A -> option B) (l : list A) : option (list B) :=
  match l with
  | [] => Some []
  | x :: r => match f x, mapM_o f r with
              | Some y, Some ys => Some (y :: ys)
              | _, _ => None
              end
  end.

(* the single expression in which every tool input is replaced by the
   expression of the tool that produced it (sources: their Source object).  Copies
   of one sub-expression keep the identities of its objects. *)
Fixpoint inline (wf : wflow) (fuel : nat) (r : nat) : option expr :=
  if memb r (w_srcs wf) then Some (ESrc r)
  else match fuel with
       | 0 => None
       | S f => match find_app wf r with
                | None => None
                | Some a => match mapM_o (inline wf f) (a_ins a) with
                            | Some es => inst es (a_tx a)
                            | None => None
                            end
                end
       end.

(* every input of every tool occurs in the tool's expression *)
Fixpoint tx_uses (k : nat) (t : tx) : bool :=
  match t with
  | TIn k' => Nat.eqb k k'
  | TApp _ f x _ => tx_uses k f || tx_uses k x
  | _ => false
  end.

Definition uses_all (wf : wflow) : bool :=
  forallb (fun a => forallb (fun k => tx_uses k (a_tx a)) (seq 0 (length (a_ins a)))) (w_apps wf).

(* the tree of the inlined expression: the tree of r with the trees of the
   producers plugged into its input leaves, recursively *)
Fixpoint utree (wf : wflow) (T : list (nat * lx)) (fuel : nat) (r : nat) : option lx :=
  match assoc_n r T with
  | None => None
  | Some L =>
      if memb r (w_srcs wf) then Some L
      else match fuel with
           | 0 => None
           | S f =>
               match find_app wf r with
               | None => None
               | Some a =>
                   Some (lsubst (fun n =>
                     match find (fun q => negb (memb q (w_srcs wf)) &&
                                          match assoc_n q T with
                                          | Some Lq => Nat.eqb (lnode Lq) n
                                          | None => false
                                          end) (a_ins a) with
                     | Some q => utree wf T f q
                     | None => None
                     end) L)
               end
           end
  end.
