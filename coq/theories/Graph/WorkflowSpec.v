(* Graph/WorkflowSpec.v -- the declarative side of property C12.

   [wf_okb]   the workflows the property speaks about (decidable): resources
              named once, every input defined, acyclic, exactly one final
              application, every tool expression an operator application (or a
              single anonymous source) that uses its inputs as data, distinct
              objects have distinct identities
   [tshape]   "L is the application tree of this tool expression when input k
              is fed by node lf k" -- says nothing about how add_workflow works
   [lsubst]   plugging trees into the leaves of a tree (the inlined expression)
   The graph the property prescribes is [flow] (Graph/AddExprSpec.v, C08) of
   these trees.                                                            *)
From Coq Require Import List Arith Bool Lia.
Import ListNotations.
From TF Require Import Graph.AddExpr Graph.AddExprSpec Graph.Workflow.

(* ------------------------------------------------------------------------ *)
(* well-formed tool expressions *)

Fixpoint tspine (t : tx) : bool :=
  match t with TOp _ _ => true | TApp _ f _ _ => tspine f | _ => false end.

(* n = number of inputs of the tool.  Every application is headed by an
   operator; a function-typed argument is an operator or a partial application;
   inputs and anonymous sources are used as data *)
Fixpoint twfb (n : nat) (t : tx) : bool :=
  match t with
  | TIn k => Nat.ltb k n
  | TAnon _ => true
  | TOp _ _ => true
  | TApp _ f x fn =>
      tspine f && twfb n f && (if fn then tspine x && twfb n x else twfb n x)
  end.

Definition ttop (t : tx) : bool :=
  tspine t || match t with TAnon _ => true | _ => false end.

(* identities of the objects parse_expr creates for a tool expression *)
Fixpoint tx_ids (t : tx) : list nat :=
  match t with
  | TIn _ => []
  | TAnon i => [i]
  | TOp i _ => [i]
  | TApp i f x _ => i :: tx_ids f ++ tx_ids x
  end.

Definition all_ids (wf : wflow) : list nat :=
  flat_map (fun a => tx_ids (a_tx a) ++ a_ind a) (w_apps wf).

Definition outs (wf : wflow) : list nat := map a_out (w_apps wf).

(* ------------------------------------------------------------------------ *)
(* acyclic: the depth of a resource (sources 0), computed with fuel, strictly
   increases along every input edge *)

Fixpoint rk (wf : wflow) (fuel : nat) (r : nat) : nat :=
  match fuel with
  | 0 => 0
  | S f => match find_app wf r with
           | None => 0
           | Some a => S (list_max (map (rk wf f) (a_ins a)))
           end
  end.

Definition rank (wf : wflow) (r : nat) : nat := rk wf (wf_fuel wf) r.

Fixpoint nodupb (l : list nat) : bool :=
  match l with [] => true | x :: r => negb (memb x r) && nodupb r end.

Definition app_okb (wf : wflow) (a : tapp) : bool :=
  forallb (fun i => (memb i (w_srcs wf) || memb i (outs wf))
                    && Nat.ltb (rank wf i) (rank wf (a_out a))) (a_ins a)
  && Nat.leb (rank wf (a_out a)) (length (w_apps wf))
  && twfb (length (a_ins a)) (a_tx a) && ttop (a_tx a)
  && Nat.eqb (length (a_ind a)) (length (a_ins a)).

Definition wf_okb (wf : wflow) : bool :=
  nodupb (w_srcs wf ++ outs wf)
  && nodupb (w_srcs wf ++ all_ids wf)
  && forallb (app_okb wf) (w_apps wf)
  && match target wf with Some _ => true | None => false end.

(* ------------------------------------------------------------------------ *)
(* the application tree of a tool expression.  lf k: node that feeds input k;
   an i: node of the anonymous source with identity i *)

Inductive tshape (lf an : nat -> option node) : tx -> lx -> Prop :=
| ts_in k n : lf k = Some n -> tshape lf an (TIn k) (LLeaf n)
| ts_anon i n : an i = Some n -> tshape lf an (TAnon i) (LLeaf n)
| ts_op i o c : tshape lf an (TOp i o) (LSpine c o [])
| ts_data i f x c o args Lx :
    tshape lf an f (LSpine c o args) -> tshape lf an x Lx ->
    tshape lf an (TApp i f x false) (LSpine c o (args ++ [(AData, Lx)]))
| ts_fun i f x c o args iN cx ox argsx :
    tshape lf an f (LSpine c o args) -> tshape lf an x (LSpine cx ox argsx) ->
    tshape lf an (TApp i f x true) (LSpine c o (args ++ [(AFun iN, LSpine cx ox argsx)])).

(* ------------------------------------------------------------------------ *)
(* plugging: replace the leaves named by [eta] by trees *)

Fixpoint lsubst (eta : node -> option lx) (l : lx) : lx :=
  match l with
  | LLeaf n => match eta n with Some u => u | None => LLeaf n end
  | LSpine c o args => LSpine c o (map (fun a => (fst a, lsubst eta (snd a))) args)
  end.

Fixpoint assoc_n {A} (k : nat) (l : list (nat * A)) : option A :=
  match l with
  | [] => None
  | (k', v) :: r => if Nat.eqb k k' then Some v else assoc_n k r
  end.

(* the node of a resource according to the returned dict *)
Definition rho (res : wres) (r : nat) : option node := assoc_n r (r_map res).

(* the node that feeds input k of tool application a: the producer's node, or -
   passthrough off and the producer is a tool application - the node of the
   Source object made for that input (sg: nodes of Source objects by identity) *)
Definition feed (wf : wflow) (pt : bool) (res : wres) (sg : nat -> option node)
    (a : tapp) (k : nat) : option node :=
  match nth_error (a_ins a) k with
  | Some q => if pt || memb q (w_srcs wf) then rho res q else sg (nth k (a_ind a) 0)
  | None => None
  end.
