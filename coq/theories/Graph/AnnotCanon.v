(* Graph/AnnotCanon.v -- the annotation model of Graph/Annot.v with
   Language.supertypes(t, transitive=True) instantiated by the model of
   Canon/Canon.v (Language.successors as repaired by proposed_fixes/C10.diff).
   With property C10's theorem [transitive_exact] the tf:subtypeOf objects of a
   concept whose type is canonical are exactly the URIs of the canonical
   supertypes of that type in the declarative subtype order, itself included,
   and the membership supertypes are exactly the strict ones. *)
From Coq Require Import List Arith Bool Lia.
Import ListNotations.
From TF Require Import Base.Hier Base.Ty Sub.Match Sub.SubSpec Parse.Lang Uri.Uri Uri.UriProofs.
From TF Require Import Canon.Worklist Canon.Succ Canon.Canon Canon.CanonProofs.
From TF Require Import Graph.AddExpr Graph.Annot Graph.AnnotProofs Graph.AnnotNodes.

(* Language.supertypes(t, transitive=True), lang.py:164-166 *)
Definition csup (H : hier) (canon : list ty) (t : ty) : list ty := lang_succ H canon UP t true.

Section Canon.
  Variable sw : switches.
  Variable L : lang.
  Variable ns : list nat.
  Variable H : hier.
  Variable canon : list ty.
  Hypothesis W : wf_hier H.
  Hypothesis canon_wf : Forall (wf_ty H) canon.

  Variable root : term.
  Variable evs : list ev.
  Variable st : tstate.
  Hypothesis Hrun : run sw L ns canon (csup H canon) root evs (tinit sw L ns canon) = Some st.

  Notation uri := (uri L ns canon).
  Notation typed := (typed sw canon).

  Lemma csup_spec t s : In t canon -> (In s (csup H canon t) <-> In s canon /\ Sub H t s /\ s <> t).
  Proof.
    intros Ht. assert (Wt : wf_ty H t) by (rewrite Forall_forall in canon_wf; auto).
    unfold csup. destruct (transitive_exact H W canon canon_wf t s Wt) as [_ E]. rewrite E.
    unfold Lt. split.
    - intros (A & B & C). repeat split; auto.
    - intros (A & B & C). repeat split; auto.
  Qed.

  Lemma csup_canon t s : In s (csup H canon t) -> In s canon.
  Proof. unfold csup, lang_succ, related. rewrite !filter_In. tauto. Qed.

  Lemma canon_node s n : In s canon -> tfind s (t_memo st) = Some n ->
    exists u, uri s = Some u /\ n = TUri u.
  Proof.
    intros Hs E. pose proof (run_memo_shape sw L ns canon _ root evs st Hrun s n E) as S.
    destruct (uri s) as [u|] eqn:Eu; [eauto|]. exfalso. eapply uri_canon; eauto.
  Qed.

  (* the subtypeOf set of a concept whose type is canonical *)
  Theorem subtypeOf_exact e : In e evs -> typed e = true -> w_supertypes sw = true ->
    In (ev_ty e) canon ->
    (forall e', In e' evs -> ev_cur e' = ev_cur e -> typed e' = true -> ev_ty e' = ev_ty e) ->
    forall o, In (ev_cur e, PSubtypeOf, o) (t_tr st) <->
      exists s u, In s canon /\ Sub H (ev_ty e) s /\ uri s = Some u /\ o = TUri u.
  Proof.
    intros He T Ws Ht U o.
    assert (Wt : wf_ty H (ev_ty e)) by (rewrite Forall_forall in canon_wf; auto).
    rewrite (node_subtypeOf sw L ns canon _ root evs st Hrun e He T U). split.
    - intros (_ & _ & s & [->|Hs] & E).
      + destruct (canon_node _ _ Ht E) as (u & Eu & ->). exists (ev_ty e), u.
        repeat split; auto. now apply Sub_refl.
      + apply csup_spec in Hs as (Hs & Sb & _); [|exact Ht].
        destruct (canon_node _ _ Hs E) as (u & Eu & ->). exists s, u. auto.
    - intros (s & u & Hs & Sb & Eu & ->). split; [exact Ws|].
      split; [now apply canon_mem_In|].
      destruct (run_covered sw L ns canon _ root evs st Hrun e He T) as [(n & En) Cs].
      destruct (ty_eq_dec s (ev_ty e)) as [->|Ne].
      + exists (ev_ty e). split; [now left|].
        destruct (canon_node _ _ Ht En) as (u' & Eu' & ->). congruence.
      + assert (Hin : In s (csup H canon (ev_ty e))) by (apply csup_spec; auto).
        destruct (Cs (proj2 (canon_mem_In _ _) Ht) s Hin) as (n' & En').
        exists s. split; [now right|].
        destruct (canon_node _ _ Hs En') as (u' & Eu' & ->). congruence.
  Qed.

  (* a concept whose type is not canonical has no subtypeOf triple *)
  Theorem subtypeOf_noncanonical e : In e evs -> typed e = true -> ~ In (ev_ty e) canon ->
    (forall e', In e' evs -> ev_cur e' = ev_cur e -> typed e' = true -> ev_ty e' = ev_ty e) ->
    forall o, ~ In (ev_cur e, PSubtypeOf, o) (t_tr st).
  Proof.
    intros He T Ht U o Hx.
    apply (node_subtypeOf sw L ns canon _ root evs st Hrun e He T U) in Hx as (_ & C & _).
    apply canon_mem_In in C. auto.
  Qed.

  (* the containsType set: the type nodes of the typed concepts (with_membership)
     and the strict canonical supertypes of their canonical types
     (with_membership_supertypes) *)
  Theorem containsType_exact r o : In (r, PContainsType, o) (t_tr st) <->
    r = root /\ exists e, In e evs /\ typed e = true /\
      ((w_membership sw = true /\ tfind (ev_ty e) (t_memo st) = Some o) \/
       (w_membership_super sw = true /\ In (ev_ty e) canon /\
        exists s u, In s canon /\ Sub H (ev_ty e) s /\ s <> ev_ty e /\
                    uri s = Some u /\ o = TUri u)).
  Proof.
    rewrite (membership_types sw L ns canon _ root evs st Hrun). split.
    - intros (-> & e & He & T & [A|(Wm & C & s & Hs & E)]); (split; [reflexivity|]);
        exists e; (split; [exact He|]); (split; [exact T|]); [now left|right].
      apply canon_mem_In in C. apply csup_spec in Hs as (Hs & Sb & Ne); [|exact C].
      destruct (canon_node _ _ Hs E) as (u & Eu & ->).
      split; [exact Wm|]. split; [exact C|]. exists s, u. auto.
    - intros (-> & e & He & T & [A|(Wm & C & s & u & Hs & Sb & Ne & Eu & ->)]);
        (split; [reflexivity|]); exists e; (split; [exact He|]); (split; [exact T|]); [now left|right].
      split; [exact Wm|]. split; [now apply canon_mem_In|].
      assert (Hin : In s (csup H canon (ev_ty e))) by (apply csup_spec; auto).
      destruct (run_covered sw L ns canon _ root evs st Hrun e He T) as [_ Cs].
      destruct (Cs (proj2 (canon_mem_In _ _) C) s Hin) as (n' & En').
      exists s. split; [exact Hin|]. destruct (canon_node _ _ Hs En') as (u' & Eu' & ->). congruence.
  Qed.
End Canon.

(* ------------------------------------------------------------------------ *)
(* end to end: expressions added to a fresh graph (add_expr / add_workflow) *)

Theorem exprs_annotation sw L ns H canon : wf_hier H -> Forall (wf_ty H) canon ->
  forall es g st, annot_exprs sw L ns canon (csup H canon) es = Some (g, st) ->
  exists evs,
    concepts_seq es g_empty = Some (g, evs) /\
    run sw L ns canon (csup H canon) TRoot evs (tinit sw L ns canon) = Some st /\
    (* one node per annotated concept, all of them expression nodes *)
    NoDup (map ev_cur evs) /\
    (forall e, In e evs -> exists k, ev_cur e = TEn k /\ k < g_next g) /\
    forall e, In e evs -> typed sw canon e = true ->
      (* its type: exactly one, the node of the inferred type *)
      (exists n, tfind (ev_ty e) (t_memo st) = Some n /\
         (forall o, In (ev_cur e, PType, o) (t_tr st) <-> o = n) /\
         (In (ev_ty e) canon -> exists u, uri L ns canon (ev_ty e) = Some u /\ n = TUri u) /\
         (uri L ns canon (ev_ty e) = None -> exists k, n = TBn k)) /\
      (* its supertypes *)
      (w_supertypes sw = true -> In (ev_ty e) canon ->
         forall o, In (ev_cur e, PSubtypeOf, o) (t_tr st) <->
           exists s u, In s canon /\ Sub H (ev_ty e) s /\ uri L ns canon s = Some u /\ o = TUri u) /\
      (~ In (ev_ty e) canon -> forall o, ~ In (ev_cur e, PSubtypeOf, o) (t_tr st)).
Proof.
  intros W Cw es g st E. unfold annot_exprs in E.
  destruct (concepts_seq es g_empty) as [[g0 evs]|] eqn:Ec; [|discriminate].
  destruct (run sw L ns canon (csup H canon) TRoot evs (tinit sw L ns canon)) as [st0|] eqn:Er;
    [|discriminate].
  injection E as <- <-. exists evs.
  destruct (concepts_seq_nodes _ _ _ _ Ec) as (_ & B & N).
  split; [reflexivity|]. split; [exact Er|]. split; [exact N|]. split.
  { intros e He. destruct (B e He) as (k & Ek & Hk). exists k. split; [exact Ek | lia]. }
  intros e He T.
  assert (U : forall e', In e' evs -> ev_cur e' = ev_cur e -> typed sw canon e' = true ->
                ev_ty e' = ev_ty e).
  { intros e' He' Ecur _. now rewrite (nodup_cur_unique evs N e e' He He' Ecur). }
  split; [|split].
  - destruct (node_type sw L ns canon _ TRoot evs st0 Er e He T U) as (n & En & Hn & Sh).
    exists n. split; [exact En|]. split; [exact Hn|]. split.
    + intros Hc. destruct (uri L ns canon (ev_ty e)) as [u|] eqn:Eu; [eauto|].
      exfalso. eapply uri_canon; eauto.
    + intros Eu. rewrite Eu in Sh. exact Sh.
  - intros Ws Hc. eapply subtypeOf_exact; eauto.
  - intros Hc. eapply subtypeOf_noncanonical; eauto.
Qed.

(* ------------------------------------------------------------------------ *)
(* type nodes, with the conditions put on the inputs: the canonical types and
   the types of the concepts are types that have URIs by name (C14: uri_domb) *)
Section TypeNodes.
  Variable sw : switches.
  Variable L : lang.
  Variable ns : list nat.
  Variable H : hier.
  Variable canon : list ty.
  Variable root : term.
  Variable evs : list ev.
  Variable st : tstate.
  Hypothesis Hrun : run sw L ns canon (csup H canon) root evs (tinit sw L ns canon) = Some st.
  Hypothesis HL : lang_uri_okb L = true.
  Hypothesis Wn : wf_nsb ns = true.
  Hypothesis Dc : Forall (fun t => uri_domb L t = true) canon.
  Hypothesis De : forall e, In e evs -> uri_domb L (ev_ty e) = true.

  Lemma memo_domb t n : tfind t (t_memo st) = Some n -> uri_domb L t = true.
  Proof.
    apply (run_memo_dom sw L ns canon _ root evs st Hrun (fun t => uri_domb L t = true)).
    - intros s t' S. now apply Subt_domb.
    - exact Dc.
    - intros e He. split; [auto|]. apply Forall_forall. intros s Hs.
      apply csup_canon in Hs. rewrite Forall_forall in Dc. auto.
  Qed.

  (* one node per distinct type *)
  Theorem type_node_once t1 t2 n :
    tfind t1 (t_memo st) = Some n -> tfind t2 (t_memo st) = Some n -> t1 = t2.
  Proof.
    intros E1 E2. eapply (node_inj sw L ns canon _ root evs st Hrun); eauto using memo_domb.
  Qed.

  (* a compound type's own node records its operator and its parameters in
     order; each position exactly once *)
  Theorem type_node_params o args n :
    tfind (TOp o args) (init_memo sw L ns canon) = None ->
    tfind (TOp o args) (t_memo st) = Some n ->
    (0 <? op_arity L o) && w_type_params sw = true ->
    (forall x, In (n, PSubClassOf, x) (t_tr st) <-> x = TUri (uri_op L ns (OTy o))) /\
    (forall i x, In (n, PParam i, x) (t_tr st) <->
       exists j a, i = S j /\ nth_error args j = Some a /\ tfind a (t_memo st) = Some x) /\
    (forall j a, nth_error args j = Some a -> exists x, tfind a (t_memo st) = Some x).
  Proof.
    intros E0 E1 F. eapply (type_node_described sw L ns canon _ root evs st Hrun); eauto using memo_domb.
  Qed.

  (* types known beforehand by their URI, base types, and everything when
     with_type_parameters is off, are not described *)
  Theorem type_node_undescribed o args n :
    tfind (TOp o args) (t_memo st) = Some n ->
    tfind (TOp o args) (init_memo sw L ns canon) <> None \/
      (0 <? op_arity L o) && w_type_params sw = false ->
    forall p x, is_descr (n, p, x) = true -> ~ In (n, p, x) (t_tr st).
  Proof.
    intros E1 Hp. eapply (type_node_plain sw L ns canon _ root evs st Hrun); eauto using memo_domb.
  Qed.
End TypeNodes.

(* ------------------------------------------------------------------------ *)
(* several transformations in one graph: the membership sets of each root are
   exactly the unions over the concepts added under that root, whatever the
   other transformations in the graph already contain *)
Section CanonRoots.
  Variable sw : switches.
  Variable L : lang.
  Variable ns : list nat.
  Variable H : hier.
  Variable canon : list ty.
  Hypothesis W : wf_hier H.
  Hypothesis canon_wf : Forall (wf_ty H) canon.
  Variable res : list (term * ev).
  Variable st : tstate.
  Hypothesis Hrun : runr sw L ns canon (csup H canon) res (tinit sw L ns canon) = Some st.

  Lemma canon_node_r s n : In s canon -> tfind s (t_memo st) = Some n ->
    exists u, uri L ns canon s = Some u /\ n = TUri u.
  Proof.
    intros Hs E. pose proof (runr_memo_shape sw L ns canon _ res st Hrun s n E) as S.
    destruct (uri L ns canon s) as [u|] eqn:Eu; [eauto|]. exfalso. eapply uri_canon; eauto.
  Qed.

  Theorem containsType_per_root r o : In (r, PContainsType, o) (t_tr st) <->
    exists e, In (r, e) res /\ typed sw canon e = true /\
      ((w_membership sw = true /\ tfind (ev_ty e) (t_memo st) = Some o) \/
       (w_membership_super sw = true /\ In (ev_ty e) canon /\
        exists s u, In s canon /\ Sub H (ev_ty e) s /\ s <> ev_ty e /\
                    uri L ns canon s = Some u /\ o = TUri u)).
  Proof.
    rewrite (runr_membership_types sw L ns canon _ res st Hrun). split.
    - intros (e & He & T & [A|(Wm & C & s & Hs & E)]); exists e; (split; [exact He|]);
        (split; [exact T|]); [now left|right].
      apply canon_mem_In in C. apply (csup_spec H canon W canon_wf) in Hs as (Hs & Sb & Ne); [|exact C].
      destruct (canon_node_r _ _ Hs E) as (u & Eu & ->).
      split; [exact Wm|]. split; [exact C|]. exists s, u. auto.
    - intros (e & He & T & [A|(Wm & C & s & u & Hs & Sb & Ne & Eu & ->)]); exists e;
        (split; [exact He|]); (split; [exact T|]); [now left|right].
      split; [exact Wm|]. split; [now apply canon_mem_In|].
      assert (Hin : In s (csup H canon (ev_ty e))) by (apply (csup_spec H canon W canon_wf); auto).
      destruct (runr_covered sw L ns canon _ res st Hrun r e He T) as [_ Cs].
      destruct (Cs (proj2 (canon_mem_In _ _) C) s Hin) as (n' & En').
      exists s. split; [exact Hin|]. destruct (canon_node_r _ _ Hs En') as (u' & Eu' & ->). congruence.
  Qed.
End CanonRoots.
