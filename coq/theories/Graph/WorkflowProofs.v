(* Graph/WorkflowProofs.v -- add_workflow (model, Graph/Workflow.v) builds
   exactly the tool trees plugged together, for every well-formed workflow.

   Part 1  add_expr on an expression some of whose sub-expressions are already
           in the memo expr_nodes (the situation add_workflow creates): the new
           triples are [flow L] for the application tree L whose leaves are the
           memoised nodes.  Generalises C08's add_expr_step, whose invariant
           does not allow memoised operator applications; reuses its lemmas
           about [flow] and [wire].
   Part 2  step 1 of add_workflow (expressions for the resources)
   Part 3  step 2 (nodes for the resources), the final loops, the theorems  *)
From Coq Require Import List Arith Bool Lia.
Import ListNotations.
From TF Require Import Graph.AddExpr Graph.AddExprSpec Graph.AddExprProofs
  Graph.Workflow Graph.WorkflowSpec.

(* ======================================================================== *)
(* Part 1 *)

Definition hit (m : memo) (e : expr) : bool :=
  match memo_find (key_of e) m with Some _ => true | None => false end.

(* an operator application none of whose function parts is in the memo *)
Fixpoint spine_miss (m : memo) (e : expr) : bool :=
  match e with
  | EOp _ _ => negb (hit m e)
  | EApp _ f _ _ => negb (hit m e) && spine_miss m f
  | _ => false
  end.

(* the expressions add_workflow hands to add_expr: below a memoised
   sub-expression nothing is looked at; otherwise every application is headed
   by an operation, function-typed arguments are (new) operations or partial
   applications, data arguments are anything in the domain; no abstractions *)
Fixpoint wdom (m : memo) (e : expr) : bool :=
  match e with
  | ESrc _ => true
  | EOp _ _ => true
  | EApp _ f x fn =>
      hit m e || (spine_miss m f && wdom m f &&
                  (if fn then spine_miss m x && wdom m x else wdom m x))
  | _ => hit m e
  end.

(* L is the application tree of e down to the sub-expressions at which add_expr
   stops ([stop]: sources and what is in the memo when add_expr is called); the
   leaves are named by the memo [m] *)
Inductive wshape (stop : expr -> bool) (m : memo) : expr -> lx -> Prop :=
| ws_hit e n : stop e = true -> memo_find (key_of e) m = Some n -> wshape stop m e (LLeaf n)
| ws_op i o c : stop (EOp i o) = false -> wshape stop m (EOp i o) (LSpine c o [])
| ws_data i f x c o args Lx :
    stop (EApp i f x false) = false ->
    wshape stop m f (LSpine c o args) -> wshape stop m x Lx ->
    wshape stop m (EApp i f x false) (LSpine c o (args ++ [(AData, Lx)]))
| ws_fun i f x c o args iN cx ox argsx :
    stop (EApp i f x true) = false ->
    wshape stop m f (LSpine c o args) -> wshape stop m x (LSpine cx ox argsx) ->
    wshape stop m (EApp i f x true) (LSpine c o (args ++ [(AFun iN, LSpine cx ox argsx)])).

Definition stopf (m : memo) (e : expr) : bool :=
  match e with ESrc _ => true | _ => hit m e end.

(* the Source objects add_expr gets to see *)
Fixpoint srcs_of (stop : expr -> bool) (e : expr) : list nat :=
  match e with
  | ESrc i => [i]
  | EApp _ f x _ => if stop e then [] else srcs_of stop f ++ srcs_of stop x
  | _ => []
  end.

Lemma srcs_of_ext stop stop' e : (forall e, stop' e = stop e) -> srcs_of stop' e = srcs_of stop e.
Proof.
  intros H. induction e as [i | v | i o | i f IHf x IHx fn | j ps b IHb]; cbn [srcs_of]; auto.
  rewrite H, IHf, IHx. reflexivity.
Qed.

(* the memo grows by sources only *)
Definition mext (m m' : memo) : Prop :=
  (forall k n, memo_find k m = Some n -> memo_find k m' = Some n) /\
  (forall k, fst k <> 0 -> memo_find k m' = memo_find k m).

Lemma mext_refl m : mext m m.
Proof. split; auto. Qed.

Lemma mext_trans m1 m2 m3 : mext m1 m2 -> mext m2 m3 -> mext m1 m3.
Proof.
  intros [A1 B1] [A2 B2]. split.
  - intros k n H. apply A2, A1, H.
  - intros k Hk. rewrite (B2 k Hk). apply B1, Hk.
Qed.

Lemma hit_mono m m' e : mext m m' -> hit m e = true -> hit m' e = true.
Proof.
  intros [A _]. unfold hit. destruct (memo_find (key_of e) m) as [n|] eqn:E; [|discriminate].
  intros _. now rewrite (A _ _ E).
Qed.

Lemma hit_ext m m' e : mext m m' -> fst (key_of e) <> 0 -> hit m' e = hit m e.
Proof. intros [_ B] Hk. unfold hit. now rewrite (B _ Hk). Qed.

Lemma spine_miss_ext m m' e : mext m m' -> spine_miss m' e = spine_miss m e.
Proof.
  intros Hm. induction e as [i | v | i o | i f IHf x IHx fn | j ps b IHb]; cbn [spine_miss]; auto.
  - rewrite (hit_ext m m') by (auto; cbn; discriminate). reflexivity.
  - rewrite (hit_ext m m') by (auto; cbn; discriminate). now rewrite IHf.
Qed.

Lemma wdom_ext m m' e : mext m m' -> wdom m e = true -> wdom m' e = true.
Proof.
  intros Hm. induction e as [i | v | i o | i f IHf x IHx fn | j ps b IHb]; cbn [wdom]; auto.
  - apply hit_mono, Hm.
  - intros H. apply orb_true_iff in H. apply orb_true_iff. destruct H as [H | H].
    + left. now apply (hit_mono m m').
    + right. apply andb_true_iff in H. destruct H as [H Hx].
      apply andb_true_iff in H. destruct H as [Hsf Hwf].
      rewrite (spine_miss_ext m m') by exact Hm. rewrite Hsf, (IHf Hwf). cbn [andb].
      destruct fn.
      * apply andb_true_iff in Hx. destruct Hx as [Hsx Hwx].
        rewrite (spine_miss_ext m m') by exact Hm. now rewrite Hsx, (IHx Hwx).
      * now apply IHx.
  - apply hit_mono, Hm.
Qed.

Lemma spine_miss_nohit m e : spine_miss m e = true -> hit m e = false.
Proof.
  destruct e; cbn [spine_miss]; try discriminate.
  - intros H. now apply negb_true_iff in H.
  - intros H. apply andb_true_iff in H. destruct H as [H _]. now apply negb_true_iff in H.
Qed.

Lemma spine_miss_not_abs m e : spine_miss m e = true -> is_abs e = false.
Proof. destruct e; cbn; auto; discriminate. Qed.

Lemma stopf_ext m m' e : mext m m' -> stopf m' e = stopf m e.
Proof.
  intros Hm. destruct e; cbn [stopf]; auto; apply hit_ext; auto; cbn; discriminate.
Qed.

Lemma wshape_mono stop stop' m m' e L :
  (forall e, stop' e = stop e) ->
  (forall k n, memo_find k m = Some n -> memo_find k m' = Some n) ->
  wshape stop m e L -> wshape stop' m' e L.
Proof.
  intros Hs Hm H. induction H.
  - apply ws_hit; [rewrite Hs|]; auto.
  - apply ws_op. now rewrite Hs.
  - apply ws_data; auto. now rewrite Hs.
  - apply ws_fun; auto. now rewrite Hs.
Qed.

Lemma wshape_okb stop m e L : wshape stop m e L -> okb L = true.
Proof.
  intros H. induction H; try reflexivity.
  - rewrite okb_snoc, IHwshape1. cbn [okarg fst snd andb]. exact IHwshape2.
  - rewrite okb_snoc, IHwshape1. cbn [okarg fst snd andb]. exact IHwshape2.
Qed.

(* different keys have different nodes *)
Definition minj (m : memo) : Prop :=
  forall k k' n, memo_find k m = Some n -> memo_find k' m = Some n -> k = k'.

Definition WInv (st : gstate) : Prop :=
  (forall t, In t (g_tr st) -> vis t -> t_subj t < g_next st) /\
  (forall k n, In (k, n) (g_memo st) -> n < g_next st) /\
  minj (g_memo st).

Record PostW (e : expr) (c : node) (st : gstate) (L : lx) (st' : gstate) : Prop := mkPostW {
  q_shape : wshape (stopf (g_memo st)) (g_memo st') e L;
  q_veq : veq (g_tr st') (flow L ++ g_tr st);
  q_names : forall x, In x (names L) -> x = c \/ (g_next st <= x < g_next st');
  q_spine : spine_miss (g_memo st) e = true -> exists o args, L = LSpine c o args;
  q_nodup : NoDup (names L);
  q_inv : WInv st';
  q_next : g_next st <= g_next st';
  q_ext : mext (g_memo st) (g_memo st');
  q_new : forall k n, In (k, n) (g_memo st') ->
            In (k, n) (g_memo st) \/
            (fst k = 0 /\ (n = c \/ g_next st <= n) /\ ~ In n (names L));
  q_src : forall k n, In (k, n) (g_memo st') ->
            In (k, n) (g_memo st) \/
            exists i, k = (0, i) /\ In i (srcs_of (stopf (g_memo st)) e)
}.

Lemma WInv_fresh st : WInv st -> WInv (snd (fresh st)).
Proof.
  intros [I1 [I2 I3]]. unfold fresh. cbn [snd]. split; [|split]; cbn [g_tr g_memo g_next].
  - intros t Ht Hv. specialize (I1 t Ht Hv). lia.
  - intros k n Hk. specialize (I2 k n Hk). lia.
  - exact I3.
Qed.

Lemma cur_ok_freshW st : WInv st -> cur_ok (g_next st) (snd (fresh st)).
Proof.
  intros [I1 [I2 I3]]. unfold fresh, cur_ok. cbn [snd g_tr g_memo g_next]. split; [lia|]. split.
  - intros t Ht Hv. specialize (I1 t Ht Hv). lia.
  - intros k Hk. specialize (I2 k _ Hk). lia.
Qed.

Lemma post_hitW e c st n :
  WInv st -> memo_find (key_of e) (g_memo st) = Some n -> PostW e c st (LLeaf n) st.
Proof.
  intros Hinv Hm. constructor.
  - apply ws_hit; [|exact Hm]. destruct e; cbn [stopf]; auto; unfold hit; now rewrite Hm.
  - cbn [flow app]. apply veq_refl.
  - intros x [].
  - intros Hs. apply spine_miss_nohit in Hs. unfold hit in Hs. rewrite Hm in Hs. discriminate.
  - constructor.
  - exact Hinv.
  - lia.
  - apply mext_refl.
  - auto.
  - auto.
Qed.

Section Part1.
  Variable add_from : node -> node -> list triple -> list triple.
  Hypothesis Hok : add_from_ok add_from.

  (* a data argument that is a memoised node (possibly with internal nodes of
     its own, which C08's invariant excludes): only the edge to it and the
     edges from the step's internal nodes to it are added *)
  Lemma wire_data_leaf c o args n G tr0 :
    (forall j, In (c, p_internal, j) G <-> In j (flat_map aint args)) ->
    veq G (flow (LSpine c o args) ++ tr0) ->
    veq (wire add_from false c n None G) (flow (LSpine c o (args ++ [(AData, LLeaf n)])) ++ tr0).
  Proof.
    intros Hci HG t Hv.
    rewrite (wire_in add_from Hok) by exact Hv.
    rewrite in_app_iff, In_flow_snoc. rewrite (HG t Hv), in_app_iff.
    unfold arg_edges, aint, anode. cbn [fst snd kint lnode flow In].
    split.
    - intros [[H | H] | [H | [H | [H | H]]]].
      + left. left. exact H.
      + right. exact H.
      + left. right. left. left. symmetry. exact H.
      + destruct H as [iN [j [E _]]]. discriminate E.
      + destruct H as [j [Hj [_ ->]]]. apply Hci in Hj. apply in_flat_map in Hj.
        destruct Hj as [b [Hb Hj]]. left. right. right. right. left. exists b, j. auto.
      + destruct H as [iN [y [E _]]]. discriminate E.
    - intros [[H | [H | [H | [H | H]]]] | H].
      + left. left. exact H.
      + destruct H as [<- | []]. right. left. reflexivity.
      + destruct H as [i [b [[] _]]].
      + destruct H as [b [i [Hb [Hi ->]]]]. right. right. right. left. exists i.
        split; [|split; [discriminate | reflexivity]]. apply Hci. apply in_flat_map. exists b. auto.
      + destruct H.
      + left. right. exact H.
  Qed.

  Lemma wire_internalW f x ci g s j :
    In (s, p_internal, j) (wire add_from false f x ci g) <-> In (s, p_internal, j) g.
  Proof. apply (wire_internal add_from Hok). Qed.

  (* everything after the recursive call for the argument *)
  Lemma app_tailW i f x fn c st o args st1 (a : akind * lx) xc ss se G :
    cur_ok c st -> WInv st -> memo_find (3, i) (g_memo st) = None ->
    PostW f c st (LSpine c o args) st1 ->
    PostW x xc ss (snd a) se ->
    okarg a = true -> (forall j, fst a <> AAbs j) ->
    g_tr ss = map (fun j => (c, p_internal, j)) (aint a) ++ g_tr st1 ->
    g_memo ss = g_memo st1 ->
    g_next st1 <= xc -> xc < g_next ss ->
    (forall j, In j (aint a) -> j = g_next st1 /\ j < xc) ->
    veq G (pre_from a ++ g_tr se) ->
    wshape (stopf (g_memo st)) (g_memo se) (EApp i f x fn) (LSpine c o (args ++ [a])) ->
    PostW (EApp i f x fn) c st (LSpine c o (args ++ [a]))
      (mkG (wire add_from false c (anode a) (ci_of a) G) (g_memo se) (g_next se)).
  Proof.
    intros Hcur Hinv Hmiss Pf Px Hoka Hnoabs Htr Hmemo Hxc1 Hxc2 Hai HG Hsh'.
    destruct Pf as [Fsh Fveq Fnames Fspine Fnd Finv Fnext Fext Fnew Fsrc].
    destruct Px as [Xsh Xveq Xnames Xspine Xnd Xinv Xnext Xext Xnew Xsrc].
    destruct Hcur as [Hc1 [Hc2 Hc3]].
    destruct Hinv as [I1 [I2 I3]].
    assert (Hokf : okb (LSpine c o args) = true) by (eapply wshape_okb; eauto).
    assert (Hokx : okb (snd a) = true) by (eapply wshape_okb; eauto).
    assert (HnF : forall y, In y (names (LSpine c o args)) -> y < g_next st1).
    { intros y Hy. destruct (Fnames y Hy); lia. }
    assert (HnX : forall y, In y (names (snd a)) -> xc <= y /\ y < g_next se).
    { intros y Hy. destruct (Xnames y Hy); lia. }
    assert (Hkint : forall y, In y (kint (fst a)) -> y = g_next st1 /\ y < xc).
    { intros y Hy. apply Hai. exact Hy. }
    set (L' := LSpine c o (args ++ [a])).
    set (st' := mkG (wire add_from false c (anode a) (ci_of a) G) (g_memo se) (g_next se)).
    assert (Hveq' : veq (g_tr st') (flow L' ++ g_tr st)).
    { unfold st', L'. cbn [g_tr].
      destruct a as [ka la]. cbn [fst snd] in *.
      destruct la as [n | cx ox argsx].
      - (* a memoised node (or a new source) passed as data *)
        destruct ka as [|iN|iN]; [|discriminate Hoka|exfalso; apply (Hnoabs iN); reflexivity].
        unfold anode, ci_of. cbn [fst snd lnode].
        assert (HGv : veq G (flow (LSpine c o args) ++ g_tr st)).
        { intros t Hv. rewrite (HG t Hv). unfold pre_from. cbn [fst app].
          rewrite (Xveq t Hv). cbn [flow app]. rewrite Htr. unfold aint. cbn [fst kint map app].
          apply (Fveq t Hv). }
        apply wire_data_leaf; [|exact HGv].
        intros j. rewrite (HGv _ (vis_internal c j)), in_app_iff. split.
        + intros [H | H].
          * now apply (flow_own_internal c o args j Fnd Hokf).
          * exfalso. apply (Hc2 _ H (vis_internal c j)). reflexivity.
        + intros H. left. now apply (flow_own_internal c o args j Fnd Hokf).
      - apply (tail_step add_from Hok c o args (ka, LSpine cx ox argsx) (g_tr st) (g_tr st1)
                 (g_tr se) G (g_next st1)); auto.
        + intros t Ht Hv. split; [apply Hc2; auto|]. specialize (I1 t Ht Hv). lia.
        + cbn [snd]. rewrite <- Htr. exact Xveq.
        + intros y Hy. apply HnX in Hy. lia.
        + intros j Hj. apply Hai in Hj. tauto.
        + intros n Hn. discriminate Hn. }
    assert (HokL : okb L' = true).
    { unfold L'. rewrite okb_snoc, Hokf, Hoka, Hokx. reflexivity. }
    assert (HnL : forall y, In y (names L') -> y = c \/ (g_next st <= y < g_next se)).
    { intros y Hy. unfold L' in Hy. rewrite names_snoc in Hy.
      apply in_app_iff in Hy. destruct Hy as [Hy | Hy].
      - destruct (Fnames y Hy); [auto | right; lia].
      - apply in_app_iff in Hy. destruct Hy as [Hy | Hy].
        + apply Hkint in Hy. right. lia.
        + apply HnX in Hy. right. lia. }
    constructor.
    - exact Hsh'.
    - exact Hveq'.
    - exact HnL.
    - intros _. exists o, (args ++ [a]). reflexivity.
    - fold L'. unfold L'. rewrite names_snoc. apply NoDup_app_intro; [exact Fnd | |].
      + apply NoDup_app_intro; [| exact Xnd |].
        * destruct (fst a); cbn [kint]; repeat constructor; intros [].
        * intros y Hy Hy'. apply Hkint in Hy. apply HnX in Hy'. lia.
      + intros y Hy Hy'. apply HnF in Hy. apply in_app_iff in Hy'. destruct Hy' as [Hy' | Hy'].
        * apply Hkint in Hy'. lia.
        * apply HnX in Hy'. lia.
    - (* WInv *)
      fold st'. split; [|split].
      + intros t Ht Hv. apply (Hveq' t Hv) in Ht. apply in_app_iff in Ht.
        unfold st'. cbn [g_next]. destruct Ht as [Ht | Ht].
        * apply (flow_subj _ HokL) in Ht. destruct (HnL _ Ht); lia.
        * specialize (I1 t Ht Hv). lia.
      + unfold st'. cbn [g_memo g_next]. apply Xinv.
      + unfold st'. cbn [g_memo]. apply Xinv.
    - unfold st'. cbn [g_next]. lia.
    - unfold st'. cbn [g_memo]. apply (mext_trans _ (g_memo st1)); [exact Fext|].
      rewrite <- Hmemo. exact Xext.
    - intros k n Hk. unfold st' in Hk. cbn [g_memo] in Hk. fold L'. unfold L'.
      rewrite names_snoc, !in_app_iff.
      destruct (Xnew k n Hk) as [H | [Htag [Hn Hnx]]].
      + rewrite Hmemo in H. destruct (Fnew k n H) as [H' | [Htag [Hn Hnf]]]; [left; exact H'|].
        right. split; [exact Htag|]. split; [exact Hn|].
        assert (Hlt : n < g_next st1) by (destruct Finv as [_ [F2 _]]; apply (F2 k n H)).
        intros [Hy | [Hy | Hy]].
        * apply (Hnf Hy).
        * apply Hkint in Hy. lia.
        * apply HnX in Hy. lia.
      + right. split; [exact Htag|]. split; [right; lia|].
        assert (Hge : xc <= n) by lia.
        intros [Hy | [Hy | Hy]].
        * apply HnF in Hy. lia.
        * apply Hkint in Hy. lia.
        * apply (Hnx Hy).
    - intros k n Hk. unfold st' in Hk. cbn [g_memo] in Hk.
      cbn [srcs_of stopf]. unfold hit. cbn [key_of]. rewrite Hmiss.
      destruct (Xsrc k n Hk) as [H | [i0 [-> Hi0]]].
      + rewrite Hmemo in H. destruct (Fsrc k n H) as [H' | [i0 [-> Hi0]]]; [auto|].
        right. exists i0. split; [reflexivity|]. apply in_app_iff. auto.
      + right. exists i0. split; [reflexivity|]. apply in_app_iff. right.
        rewrite <- (srcs_of_ext (stopf (g_memo st)) (stopf (g_memo ss))); [exact Hi0|].
        intros e0. rewrite Hmemo. now apply stopf_ext.
  Qed.

  Definition StmtW (e : expr) : Prop :=
    forall c st, wdom (g_memo st) e = true -> WInv st -> cur_ok c st ->
    exists L st', add_expr add_from false e (Some c) st = Some (lnode L, st') /\
                  PostW e c st L st'.

  Lemma add_expr_w e : StmtW e.
  Proof.
    induction e as [i | v | i o | i f IHf x IHx fn | j ps b IHb]; intros c st Hdom Hinv Hcur.
    - (* ESrc *)
      cbn [add_expr key_of].
      destruct (memo_find (0, i) (g_memo st)) as [n|] eqn:Em.
      + exists (LLeaf n), st. split; [reflexivity|]. now apply post_hitW.
      + exists (LLeaf c), (set_memo (0, i) c st). split; [reflexivity|].
        destruct Hinv as [I1 [I2 I3]]. destruct Hcur as [Hc1 [Hc2 Hc3]].
        constructor; unfold set_memo; cbn [g_tr g_memo g_next].
        * apply ws_hit; [reflexivity|]. cbn [key_of memo_find]. now rewrite key_eqb_refl.
        * cbn [flow app]. apply veq_refl.
        * intros y [].
        * cbn. discriminate.
        * constructor.
        * unfold WInv. cbn [g_tr g_memo g_next]. split; [exact I1|]. split.
          -- intros k n [[= <- <-] | Hk]; [exact Hc1 | apply (I2 k n Hk)].
          -- intros k k' n. cbn [memo_find].
             destruct (key_eqb k (0, i)) eqn:E1; destruct (key_eqb k' (0, i)) eqn:E2.
             ++ apply key_eqb_eq in E1. apply key_eqb_eq in E2. congruence.
             ++ intros [= <-] H2. apply memo_find_In in H2. exfalso. apply (Hc3 _ H2).
             ++ intros H1 [= <-]. apply memo_find_In in H1. exfalso. apply (Hc3 _ H1).
             ++ apply I3.
        * lia.
        * split.
          -- intros k n Hn. cbn [memo_find]. destruct (key_eqb k (0, i)) eqn:E; [|exact Hn].
             apply key_eqb_eq in E. subst k. rewrite Em in Hn. discriminate.
          -- intros k Hk. cbn [memo_find]. destruct (key_eqb k (0, i)) eqn:E; [|reflexivity].
             apply key_eqb_eq in E. subst k. cbn in Hk. congruence.
        * intros k n [[= <- <-] | Hk]; [|left; exact Hk].
          right. cbn. split; [reflexivity|]. split; [left; reflexivity | intros []].
        * intros k n [[= <- <-] | Hk]; [|left; exact Hk].
          right. exists i. cbn. auto.
    - (* EVar *)
      cbn [wdom] in Hdom. unfold hit in Hdom. cbn [add_expr].
      destruct (memo_find (key_of (EVar v)) (g_memo st)) as [n|] eqn:Em; [|discriminate].
      exists (LLeaf n), st. split; [reflexivity|]. now apply post_hitW.
    - (* EOp *)
      cbn [add_expr key_of].
      destruct (memo_find (2, i) (g_memo st)) as [n|] eqn:Em.
      + exists (LLeaf n), st. split; [reflexivity|]. now apply post_hitW.
      + exists (LSpine c o []), (add_tr (c, p_via, o) st). split; [reflexivity|].
        destruct Hinv as [I1 [I2 I3]]. destruct Hcur as [Hc1 [Hc2 Hc3]].
        constructor; unfold add_tr; cbn [g_tr g_memo g_next].
        * apply ws_op. cbn [stopf]. unfold hit. cbn [key_of]. now rewrite Em.
        * cbn. apply veq_refl.
        * intros y [<- | []]. auto.
        * intros _. exists o, []. reflexivity.
        * cbn. repeat constructor. intros [].
        * unfold WInv. cbn [g_tr g_memo g_next]. split; [|split].
          -- intros t [<- | Ht] Hv; [exact Hc1 | apply I1; auto].
          -- exact I2.
          -- exact I3.
        * lia.
        * apply mext_refl.
        * auto.
        * auto.
    - (* EApp *)
      cbn [add_expr key_of].
      destruct (memo_find (3, i) (g_memo st)) as [n|] eqn:Em.
      { exists (LLeaf n), st. split; [reflexivity|]. now apply post_hitW. }
      cbn [wdom] in Hdom. unfold hit at 1 in Hdom. cbn [key_of] in Hdom. rewrite Em in Hdom.
      cbn [orb] in Hdom.
      apply andb_true_iff in Hdom. destruct Hdom as [Hdom Hwx].
      apply andb_true_iff in Hdom. destruct Hdom as [Hsf Hwf].
      rewrite (spine_miss_not_abs _ f Hsf).
      destruct (IHf c st Hwf Hinv Hcur) as [Lf [st1 [Ef Pf]]].
      destruct (q_spine _ _ _ _ _ Pf Hsf) as [o [args ->]].
      cbn [lnode] in Ef. rewrite Ef.
      assert (Hinv1 := q_inv _ _ _ _ _ Pf).
      assert (Hnext1 := q_next _ _ _ _ _ Pf).
      assert (Hext1 := q_ext _ _ _ _ _ Pf).
      assert (Hc1 : c < g_next st) by apply Hcur.
      destruct fn.
      + (* a function is passed: a new operation or partial application *)
        apply andb_true_iff in Hwx. destruct Hwx as [Hsx Hwx].
        assert (Habs : is_abs x = false) by (eapply spine_miss_not_abs; eauto).
        assert (Hmatch : forall (T : Type) (A : nat -> list nat -> expr -> T) (B : T),
                  match x with
                  | ESrc _ => B | EVar _ => B | EOp _ _ => B | EApp _ _ _ _ => B
                  | EAbs j ps b => A j ps b end = B).
        { intros T A B. destruct x; try reflexivity. discriminate Habs. }
        cbn [fresh fst snd].
        rewrite Hmatch.
        set (iN := g_next st1).
        set (st3 := add_tr (c, p_internal, iN) (mkG (g_tr st1) (g_memo st1) (S (g_next st1)))).
        assert (Hinv3 : WInv st3).
        { destruct Hinv1 as [J1 [J2 J3]]. unfold st3, add_tr, WInv. cbn [g_tr g_memo g_next].
          split; [|split].
          - intros t [<- | Ht] Hv; [unfold t_subj; cbn; lia | specialize (J1 t Ht Hv); lia].
          - intros k n Hk. specialize (J2 k n Hk). lia.
          - exact J3. }
        assert (Hwx3 : wdom (g_memo (snd (fresh st3))) x = true).
        { cbn. apply (wdom_ext (g_memo st)); auto. }
        destruct (IHx (g_next st3) (snd (fresh st3)) Hwx3 (WInv_fresh _ Hinv3)
                    (cur_ok_freshW _ Hinv3)) as [Lx [se [Ex Px]]].
        assert (Hsx3 : spine_miss (g_memo (snd (fresh st3))) x = true).
        { cbn. rewrite (spine_miss_ext (g_memo st)); auto. }
        destruct (q_spine _ _ _ _ _ Px Hsx3) as [ox [argsx ->]].
        cbn [lnode] in Ex.
        match goal with |- context [add_expr add_from false x ?u ?w] =>
          change (add_expr add_from false x u w)
            with (add_expr add_from false x (@Some node (g_next st3)) (snd (fresh st3))) end.
        rewrite Ex.
        exists (LSpine c o (args ++ [(AFun iN, LSpine (g_next st3) ox argsx)])),
               (mkG (wire add_from false c (g_next st3) (Some iN)
                       (add_from (g_next st3) iN (g_tr se))) (g_memo se) (g_next se)).
        split; [reflexivity|].
        apply (app_tailW i f x true c st o args st1
                 (AFun iN, LSpine (g_next st3) ox argsx) (g_next st3)
                 (snd (fresh st3)) se (add_from (g_next st3) iN (g_tr se)));
          [exact Hcur | exact Hinv | exact Em | exact Pf | exact Px | reflexivity | intros j0 E; discriminate E
          | reflexivity | reflexivity | | | | |].
        * cbn. lia.
        * cbn. lia.
        * intros j0 [<- | []]. unfold iN. cbn. lia.
        * intros t Hv. rewrite (add_from_in add_from Hok) by exact Hv. cbn.
          split; (intros [E | H]; [left; symmetry; exact E | right; exact H]).
        * apply ws_fun.
          -- cbn [stopf]. unfold hit. cbn [key_of]. now rewrite Em.
          -- apply (wshape_mono (stopf (g_memo st)) _ (g_memo st1)); [auto | |exact (q_shape _ _ _ _ _ Pf)].
             apply (q_ext _ _ _ _ _ Px).
          -- apply (wshape_mono (stopf (g_memo (snd (fresh st3)))) _ (g_memo se));
               [|auto|exact (q_shape _ _ _ _ _ Px)].
             intros e0. cbn. symmetry. now apply stopf_ext.
      + (* data is passed *)
        cbn [fresh fst snd].
        assert (Hwx1 : wdom (g_memo (snd (fresh st1))) x = true).
        { cbn. apply (wdom_ext (g_memo st)); auto. }
        destruct (IHx (g_next st1) (snd (fresh st1)) Hwx1 (WInv_fresh _ Hinv1)
                    (cur_ok_freshW _ Hinv1)) as [Lx [se [Ex Px]]].
        match goal with |- context [add_expr add_from false x ?u ?w] =>
          change (add_expr add_from false x u w)
            with (add_expr add_from false x (@Some node (g_next st1)) (snd (fresh st1))) end.
        rewrite Ex.
        exists (LSpine c o (args ++ [(AData, Lx)])),
               (mkG (wire add_from false c (lnode Lx) None (g_tr se)) (g_memo se) (g_next se)).
        split; [reflexivity|].
        apply (app_tailW i f x false c st o args st1 (AData, Lx) (g_next st1)
                 (snd (fresh st1)) se (g_tr se));
          [exact Hcur | exact Hinv | exact Em | exact Pf | exact Px | reflexivity | intros j0 E; discriminate E
          | reflexivity | reflexivity | | | | |].
        * lia.
        * cbn. lia.
        * intros j0 [].
        * cbn. apply veq_refl.
        * apply ws_data.
          -- cbn [stopf]. unfold hit. cbn [key_of]. now rewrite Em.
          -- apply (wshape_mono (stopf (g_memo st)) _ (g_memo st1)); [auto | |exact (q_shape _ _ _ _ _ Pf)].
             apply (q_ext _ _ _ _ _ Px).
          -- apply (wshape_mono (stopf (g_memo (snd (fresh st1)))) _ (g_memo se));
               [|auto|exact (q_shape _ _ _ _ _ Px)].
             intros e0. cbn. symmetry. now apply stopf_ext.
    - (* EAbs *)
      cbn [wdom] in Hdom. unfold hit in Hdom. cbn [add_expr].
      destruct (memo_find (key_of (EAbs j ps b)) (g_memo st)) as [n|] eqn:Em; [|discriminate].
      exists (LLeaf n), st. split; [reflexivity|]. now apply post_hitW.
  Qed.
End Part1.

(* ======================================================================== *)
(* Part 2: step 1 of add_workflow *)

Lemma memb_In x l : memb x l = true <-> In x l.
Proof.
  unfold memb. rewrite existsb_exists. split.
  - intros [y [Hy E]]. apply Nat.eqb_eq in E. now subst.
  - intros H. exists x. split; [exact H | apply Nat.eqb_refl].
Qed.

Lemma memb_false x l : memb x l = false <-> ~ In x l.
Proof.
  rewrite <- memb_In. destruct (memb x l); split; intros H; try reflexivity; try discriminate.
  exfalso. now apply H.
Qed.

Lemma nodupb_NoDup l : nodupb l = true -> NoDup l.
Proof.
  induction l as [|x l IH]; cbn [nodupb]; [constructor|].
  intros H. apply andb_true_iff in H. destruct H as [Hx Hl]. constructor; [|auto].
  apply negb_true_iff in Hx. now apply memb_false.
Qed.

Lemma NoDup_app_l {A} (l1 l2 : list A) : NoDup (l1 ++ l2) -> NoDup l1.
Proof.
  induction l1 as [|x l1 IH]; cbn [app]; [constructor|].
  intros H. apply NoDup_cons_iff in H. destruct H as [Hx H]. constructor; [|auto].
  intros F. apply Hx. apply in_app_iff. auto.
Qed.

Lemma NoDup_app_r {A} (l1 l2 : list A) : NoDup (l1 ++ l2) -> NoDup l2.
Proof.
  induction l1 as [|x l1 IH]; cbn [app]; [auto|].
  intros H. apply NoDup_cons_iff in H. apply IH, H.
Qed.

Lemma NoDup_app_disj {A} (l1 l2 : list A) x : NoDup (l1 ++ l2) -> In x l1 -> In x l2 -> False.
Proof.
  induction l1 as [|y l1 IH]; cbn [app]; [intros _ []|].
  intros H [<- | H1] H2; apply NoDup_cons_iff in H; destruct H as [Hy H].
  - apply Hy. apply in_app_iff. auto.
  - now apply IH.
Qed.

Lemma elookup_In r ex e : elookup r ex = Some e -> In (r, e) ex.
Proof.
  induction ex as [|[r' e'] ex IH]; cbn [elookup]; [discriminate|].
  destruct (Nat.eqb r r') eqn:E.
  - intros [= ->]. apply Nat.eqb_eq in E. subst. cbn. auto.
  - intros H. cbn. auto.
Qed.

Lemma elookup_None r ex : elookup r ex = None <-> ~ In r (map fst ex).
Proof.
  induction ex as [|[r' e'] ex IH]; cbn [elookup map fst In]; [tauto|].
  destruct (Nat.eqb r r') eqn:E.
  - apply Nat.eqb_eq in E. subst. split; [discriminate|]. intros H. exfalso. auto.
  - apply Nat.eqb_neq in E. rewrite IH. split; intros H; [intros [F | F]; [congruence | auto] | auto].
Qed.

Lemma elookup_dom r ex e : elookup r ex = Some e -> In r (map fst ex).
Proof. intros H. apply elookup_In in H. apply in_map_iff. exists (r, e). auto. Qed.

Lemma In_elookup r e ex : NoDup (map fst ex) -> In (r, e) ex -> elookup r ex = Some e.
Proof.
  induction ex as [|[r' e'] ex IH]; cbn [elookup map fst]; [intros _ []|].
  intros Hnd [[= -> ->] | H].
  - now rewrite Nat.eqb_refl.
  - apply NoDup_cons_iff in Hnd. destruct Hnd as [Hr Hnd].
    destruct (Nat.eqb r r') eqn:E; [|auto].
    apply Nat.eqb_eq in E. subst. exfalso. apply Hr. apply in_map_iff. exists (r', e). auto.
Qed.

Lemma elookup_snoc r ex r' e' :
  elookup r (ex ++ [(r', e')]) =
  match elookup r ex with Some e => Some e | None => if Nat.eqb r r' then Some e' else None end.
Proof.
  induction ex as [|[r0 e0] ex IH]; cbn [elookup app]; [reflexivity|].
  destruct (Nat.eqb r r0); [reflexivity | exact IH].
Qed.

Lemma find_app_some wf r a : find_app wf r = Some a -> In a (w_apps wf) /\ a_out a = r.
Proof.
  unfold find_app. intros H. apply find_some in H. destruct H as [H E].
  apply Nat.eqb_eq in E. auto.
Qed.

Lemma find_app_unique wf a :
  NoDup (outs wf) -> In a (w_apps wf) -> find_app wf (a_out a) = Some a.
Proof.
  unfold find_app, outs. induction (w_apps wf) as [|b l IH]; cbn [find map]; [intros _ []|].
  intros Hnd [-> | H].
  - now rewrite Nat.eqb_refl.
  - apply NoDup_cons_iff in Hnd. destruct Hnd as [Hb Hnd].
    destruct (Nat.eqb (a_out b) (a_out a)) eqn:E; [|auto].
    apply Nat.eqb_eq in E. exfalso. apply Hb. rewrite E. now apply in_map.
Qed.

Lemma list_max_ge l x : In x l -> x <= list_max l.
Proof.
  induction l as [|y l IH]; [intros []|].
  change (list_max (y :: l)) with (Nat.max y (list_max l)). intros [-> | H].
  - apply Nat.le_max_l.
  - specialize (IH H). lia.
Qed.

(* passthrough on, or the input is a workflow source: the producer's
   expression is handed to the parser; otherwise a new Source *)
Section Feeds.
  Variable wf : wflow.
  Variable pt : bool.

  Fixpoint feeds (ex : etab) (ins ids : list nat) : option (list expr) :=
    match ins with
    | [] => Some []
    | q :: ins' =>
        match elookup q ex, feeds ex ins' (tl ids) with
        | Some e, Some es =>
            Some ((if pt || memb q (w_srcs wf) then e else ESrc (hd 0 ids)) :: es)
        | _, _ => None
        end
    end.

  Lemma feeds_mono ex ex' ins : forall ids es,
    (forall r e, elookup r ex = Some e -> elookup r ex' = Some e) ->
    feeds ex ins ids = Some es -> feeds ex' ins ids = Some es.
  Proof.
    induction ins as [|q ins IH]; intros ids es Hm; cbn [feeds]; [auto|].
    destruct (elookup q ex) as [e|] eqn:Eq; [|discriminate].
    destruct (feeds ex ins (tl ids)) as [es0|] eqn:Ef; [|discriminate].
    intros [= <-]. rewrite (Hm _ _ Eq), (IH _ _ Hm Ef). reflexivity.
  Qed.

  Lemma feeds_nth ex ins : forall ids es k q,
    feeds ex ins ids = Some es -> nth_error ins k = Some q ->
    exists e, elookup q ex = Some e /\
      nth_error es k = Some (if pt || memb q (w_srcs wf) then e else ESrc (nth k ids 0)).
  Proof.
    induction ins as [|q0 ins IH]; intros ids es k q; cbn [feeds].
    - intros _ H. destruct k; discriminate H.
    - destruct (elookup q0 ex) as [e|] eqn:Eq; [|discriminate].
      destruct (feeds ex ins (tl ids)) as [es0|] eqn:Ef; [|discriminate].
      intros [= <-]. destruct k as [|k]; cbn [nth_error].
      + intros [= <-]. exists e. split; [exact Eq|]. destruct ids; reflexivity.
      + intros Hk. destruct (IH _ _ _ _ Ef Hk) as [e' [He' Hn]]. exists e'. split; [exact He'|].
        rewrite Hn. destruct ids; cbn [tl nth]; [destruct k|]; reflexivity.
  Qed.

  Lemma feeds_length ex ins : forall ids es, feeds ex ins ids = Some es -> length es = length ins.
  Proof.
    induction ins as [|q ins IH]; intros ids es; cbn [feeds].
    - intros [= <-]. reflexivity.
    - destruct (elookup q ex); [|discriminate].
      destruct (feeds ex ins (tl ids)) as [es0|] eqn:Ef; [|discriminate].
      intros [= <-]. cbn. now rewrite (IH _ _ Ef).
  Qed.
End Feeds.

Lemma inst_some es : forall t, twfb (length es) t = true -> exists e, inst es t = Some e.
Proof.
  induction t as [k | i | i o | i f IHf x IHx fn]; cbn [twfb inst]; intros H.
  - apply Nat.ltb_lt in H. destruct (nth_error es k) as [e|] eqn:E; [eauto|].
    apply nth_error_None in E. lia.
  - eauto.
  - eauto.
  - apply andb_true_iff in H. destruct H as [H Hx]. apply andb_true_iff in H. destruct H as [_ Hf].
    destruct (IHf Hf) as [f' ->].
    assert (Hx' : twfb (length es) x = true).
    { destruct fn; [apply andb_true_iff in Hx; apply Hx | exact Hx]. }
    destruct (IHx Hx') as [x' ->]. eauto.
Qed.

Definition tmono (ex ex' : etab) : Prop :=
  forall r e, elookup r ex = Some e -> elookup r ex' = Some e.

Lemma tmono_refl ex : tmono ex ex.
Proof. intros r e H. exact H. Qed.

Lemma tmono_trans a b c : tmono a b -> tmono b c -> tmono a c.
Proof. intros H1 H2 r e H. apply H2, H1, H. Qed.

Lemma tmono_snoc ex r e : tmono ex (ex ++ [(r, e)]).
Proof. intros r0 e0 H. rewrite elookup_snoc, H. reflexivity. Qed.

Lemma tmono_dom ex ex' r : tmono ex ex' -> In r (map fst ex) -> In r (map fst ex').
Proof.
  intros Hm Hr. destruct (elookup r ex) as [e|] eqn:E.
  - apply (elookup_dom r ex' e). apply Hm, E.
  - apply elookup_None in E. contradiction.
Qed.

Lemma Forall2_nth {A B} (R : A -> B -> Prop) l1 l2 : Forall2 R l1 l2 ->
  forall k a, nth_error l1 k = Some a -> exists b, nth_error l2 k = Some b /\ R a b.
Proof.
  induction 1 as [|x y l1 l2 Hxy H IH]; intros k a Hk.
  - destruct k; discriminate Hk.
  - destruct k as [|k]; cbn [nth_error] in *.
    + injection Hk as <-. eauto.
    + apply IH, Hk.
Qed.

Lemma Forall2_mono {A B} (R R' : A -> B -> Prop) l1 l2 :
  (forall a b, R a b -> R' a b) -> Forall2 R l1 l2 -> Forall2 R' l1 l2.
Proof. intros H F. induction F; constructor; auto. Qed.

Section Indirect.
  Variable wf : wflow.

  Lemma feeds_pass ex ins : forall ids es,
    Forall2 (fun q e => elookup q ex = Some e) ins es -> feeds wf true ex ins ids = Some es.
  Proof.
    induction ins as [|q ins IH]; intros ids es F; inversion F; subst; cbn [feeds]; [reflexivity|].
    match goal with H : elookup q ex = Some _ |- _ => rewrite H end.
    erewrite IH by eassumption. reflexivity.
  Qed.

  Lemma indirect_spec ex ins : forall ids es ind es' E',
    Forall2 (fun q e => elookup q ex = Some e) ins es ->
    indirect wf ins ids es (mkE ex ind) = (es', E') ->
    e_tab E' = ex /\ feeds wf false ex ins ids = Some es' /\
    (forall id e, In (id, e) (e_ind E') <->
       In (id, e) ind \/
       exists k q, nth_error ins k = Some q /\ ~ In q (w_srcs wf) /\ nth k ids 0 = id /\
                   nth_error es k = Some e).
  Proof.
    induction ins as [|q ins IH]; intros ids es ind es' E' F; inversion F; subst; cbn [indirect feeds].
    - intros [= <- <-]. cbn [e_tab e_ind]. split; [reflexivity|]. split; [reflexivity|].
      intros id e. split; [auto|]. intros [H | [k [q [Hk _]]]]; [exact H|]. destruct k; discriminate Hk.
    - match goal with H : elookup q ex = Some ?y |- _ => rename H into Hq; rename y into e0 end.
      match goal with H : Forall2 _ ins ?l |- _ => rename H into F'; rename l into es0 end.
      rewrite Hq. cbn [orb].
      destruct (memb q (w_srcs wf)) eqn:Eq.
      + destruct (indirect wf ins (tl ids) es0 (mkE ex ind)) as [es'' E''] eqn:Ei.
        intros [= <- <-]. destruct (IH _ _ _ _ _ F' Ei) as [A [B D]].
        split; [exact A|]. rewrite B. split; [reflexivity|].
        intros id e. rewrite D. split.
        * intros [H | [k [q' [Hk [Hs [Hi He]]]]]]; [auto|]. right. exists (S k), q'. cbn [nth_error].
          split; [exact Hk|]. split; [exact Hs|]. split; [|exact He].
          destruct ids; cbn [tl nth] in *; [destruct k|]; exact Hi.
        * intros [H | [k [q' [Hk [Hs [Hi He]]]]]]; [auto|]. destruct k as [|k]; cbn [nth_error] in *.
          -- injection Hk as <-. apply memb_In in Eq. contradiction.
          -- right. exists k, q'. split; [exact Hk|]. split; [exact Hs|]. split; [|exact He].
             destruct ids; cbn [tl nth] in *; [destruct k|]; exact Hi.
      + cbn [e_tab e_ind].
        destruct (indirect wf ins (tl ids) es0 (mkE ex (ind ++ [(hd 0 ids, e0)]))) as [es'' E''] eqn:Ei.
        intros [= <- <-]. destruct (IH _ _ _ _ _ F' Ei) as [A [B D]].
        split; [exact A|]. rewrite B. split; [reflexivity|].
        apply memb_false in Eq.
        intros id e. rewrite D, in_app_iff. cbn [In]. split.
        * intros [[H | [[= <- <-] | []]] | [k [q' [Hk [Hs [Hi He]]]]]].
          -- auto.
          -- right. exists 0, q. cbn [nth_error]. split; [reflexivity|]. split; [exact Eq|].
             split; [destruct ids; reflexivity | reflexivity].
          -- right. exists (S k), q'. cbn [nth_error].
             split; [exact Hk|]. split; [exact Hs|]. split; [|exact He].
             destruct ids; cbn [tl nth] in *; [destruct k|]; exact Hi.
        * intros [H | [k [q' [Hk [Hs [Hi He]]]]]]; [auto|]. destruct k as [|k]; cbn [nth_error] in *.
          -- injection Hk as <-. injection He as <-. left. right. left.
             destruct ids; cbn [hd nth] in *; subst; reflexivity.
          -- right. exists k, q'. split; [exact Hk|]. split; [exact Hs|]. split; [|exact He].
             destruct ids; cbn [tl nth] in *; [destruct k|]; exact Hi.
  Qed.
End Indirect.

Section WF.
  Variable wf : wflow.
  Variable pt : bool.
  Hypothesis Hwf : wf_okb wf = true.

  Let srcs := w_srcs wf.
  Let apps := w_apps wf.
  Let rnk := rank wf.

  Lemma wf_parts :
    NoDup (srcs ++ outs wf) /\ NoDup (srcs ++ all_ids wf) /\
    (forall a, In a apps -> app_okb wf a = true) /\ exists tg, target wf = Some tg.
  Proof.
    unfold wf_okb in Hwf.
    apply andb_true_iff in Hwf. destruct Hwf as [H Ht].
    apply andb_true_iff in H. destruct H as [H Ha].
    apply andb_true_iff in H. destruct H as [H1 H2].
    split; [now apply nodupb_NoDup|]. split; [now apply nodupb_NoDup|]. split.
    - intros a Ha'. rewrite forallb_forall in Ha. now apply Ha.
    - destruct (target wf) as [tg|]; [eauto | discriminate].
  Qed.

  Lemma nd_res : NoDup (srcs ++ outs wf). Proof. apply wf_parts. Qed.
  Lemma nd_ids : NoDup (srcs ++ all_ids wf). Proof. apply wf_parts. Qed.
  Lemma nd_outs : NoDup (outs wf). Proof. apply (NoDup_app_r srcs), nd_res. Qed.
  Lemma nd_srcs : NoDup srcs. Proof. apply (NoDup_app_l srcs (outs wf)), nd_res. Qed.

  Lemma src_not_out r : In r srcs -> In r (outs wf) -> False.
  Proof. apply NoDup_app_disj, nd_res. Qed.

  Lemma app_parts a : In a apps ->
    (forall i, In i (a_ins a) -> (In i srcs \/ In i (outs wf)) /\ rnk i < rnk (a_out a)) /\
    rnk (a_out a) <= length apps /\
    twfb (length (a_ins a)) (a_tx a) = true /\ ttop (a_tx a) = true /\
    length (a_ind a) = length (a_ins a).
  Proof.
    intros Ha. destruct wf_parts as [_ [_ [H _]]]. specialize (H a Ha). unfold app_okb in H.
    apply andb_true_iff in H. destruct H as [H H5]. apply andb_true_iff in H. destruct H as [H H4].
    apply andb_true_iff in H. destruct H as [H H3]. apply andb_true_iff in H. destruct H as [H1 H2].
    split; [|split; [|split; [|split]]].
    - intros i Hi. rewrite forallb_forall in H1. specialize (H1 i Hi).
      apply andb_true_iff in H1. destruct H1 as [A B]. split.
      + apply orb_true_iff in A. destruct A as [A | A]; apply memb_In in A; auto.
      + now apply Nat.ltb_lt in B.
    - now apply Nat.leb_le in H2.
    - exact H3.
    - exact H4.
    - now apply Nat.eqb_eq in H5.
  Qed.

  Lemma out_app r : In r (outs wf) -> exists a, In a apps /\ a_out a = r /\ find_app wf r = Some a.
  Proof.
    intros H. apply in_map_iff in H. destruct H as [a [E Ha]]. exists a. split; [exact Ha|].
    split; [exact E|]. rewrite <- E. apply find_app_unique; [apply nd_outs | exact Ha].
  Qed.

  (* the table of expressions *)
  Definition ExOK (ex : etab) : Prop :=
    NoDup (map fst ex) /\
    (forall s, In s srcs -> elookup s ex = Some (ESrc s)) /\
    (forall r, In r (map fst ex) -> In r srcs \/ In r (outs wf)) /\
    (forall r e, elookup r ex = Some e -> ~ In r srcs ->
       exists a es, find_app wf r = Some a /\ feeds wf pt ex (a_ins a) (a_ind a) = Some es /\
                    inst es (a_tx a) = Some e).

  Definition IndOK (E : est) : Prop :=
    forall id e, In (id, e) (e_ind E) <->
      pt = false /\ exists a k q, In (a_out a) (map fst (e_tab E)) /\ In a apps /\
        nth_error (a_ins a) k = Some q /\ ~ In q srcs /\ nth_error (a_ind a) k = Some id /\
        elookup q (e_tab E) = Some e.

  Definition W2E (fuel : nat) : Prop := forall r E,
    ExOK (e_tab E) -> IndOK E -> (In r srcs \/ In r (outs wf)) -> rnk r < fuel ->
    exists e E', w2e wf pt fuel r E = Some (e, E') /\
      ExOK (e_tab E') /\ IndOK E' /\ tmono (e_tab E) (e_tab E') /\
      elookup r (e_tab E') = Some e /\
      (forall r', In r' (map fst (e_tab E')) -> In r' (map fst (e_tab E)) \/ rnk r' <= rnk r).

  Lemma mapM_ok fuel (IH : W2E fuel) : forall rs E,
    ExOK (e_tab E) -> IndOK E ->
    (forall q, In q rs -> (In q srcs \/ In q (outs wf)) /\ rnk q < fuel) ->
    exists es E', mapM_e (w2e wf pt fuel) rs E = Some (es, E') /\
      ExOK (e_tab E') /\ IndOK E' /\ tmono (e_tab E) (e_tab E') /\
      Forall2 (fun q e => elookup q (e_tab E') = Some e) rs es /\
      (forall r', In r' (map fst (e_tab E')) ->
         In r' (map fst (e_tab E)) \/ exists q, In q rs /\ rnk r' <= rnk q).
  Proof.
    induction rs as [|q rs IHrs]; intros E Hex Hind Hrs; cbn [mapM_e].
    - exists [], E. split; [reflexivity|]. split; [exact Hex|]. split; [exact Hind|].
      split; [apply tmono_refl|]. split; [constructor | auto].
    - destruct (Hrs q (or_introl eq_refl)) as [Hq1 Hq2].
      destruct (IH q E Hex Hind Hq1 Hq2) as [e [E1 [Ew [Hex1 [Hind1 [Hm1 [Hl1 Hn1]]]]]]].
      rewrite Ew.
      destruct (IHrs E1 Hex1 Hind1) as [es [E2 [Em [Hex2 [Hind2 [Hm2 [Hf2 Hn2]]]]]]].
      { intros q' Hq'. apply Hrs. cbn. auto. }
      rewrite Em. exists (e :: es), E2. split; [reflexivity|]. split; [exact Hex2|].
      split; [exact Hind2|]. split; [eapply tmono_trans; eauto|]. split.
      + constructor; [apply Hm2, Hl1 | exact Hf2].
      + intros r' Hr'. destruct (Hn2 r' Hr') as [H | [q' [Hq' Hle]]].
        * destruct (Hn1 r' H) as [H' | H']; [auto|]. right. exists q. cbn. auto.
        * right. exists q'. cbn. auto.
  Qed.

  Lemma w2e_ok : forall fuel, W2E fuel.
  Proof.
    induction fuel as [|fuel IH]; intros r E Hex Hind Hr Hrk; [lia|].
    cbn [w2e].
    destruct (elookup r (e_tab E)) as [e|] eqn:El.
    { exists e, E. split; [reflexivity|]. split; [exact Hex|]. split; [exact Hind|].
      split; [apply tmono_refl|]. split; [exact El | auto]. }
    destruct Hex as [X0 [X1 [X2 X3]]].
    assert (Hns : ~ In r srcs).
    { intros Hs. rewrite (X1 r Hs) in El. discriminate. }
    destruct Hr as [Hr | Hr]; [contradiction|].
    destruct (out_app r Hr) as [a [Ha [Eo Efind]]]. rewrite Efind.
    destruct (app_parts a Ha) as [Hins [Hrka [Htwf [Htop Hlen]]]].
    rewrite Eo in Hins.
    destruct (mapM_ok fuel IH (a_ins a) E (conj X0 (conj X1 (conj X2 X3))) Hind)
      as [es [E1 [Em [Hex1 [Hind1 [Hm1 [Hf1 Hn1]]]]]]].
    { intros q Hq. destruct (Hins q Hq) as [A B]. split; [exact A|]. lia. }
    rewrite Em.
    assert (Hr1 : ~ In r (map fst (e_tab E1))).
    { intros H. destruct (Hn1 r H) as [H' | [q [Hq Hle]]].
      - apply elookup_None in El. contradiction.
      - destruct (Hins q Hq) as [_ B]. lia. }
    (* the expressions handed to the parser *)
    assert (Hfeed : exists es' E2,
      (if pt then (es, E1) else indirect wf (a_ins a) (a_ind a) es E1) = (es', E2) /\
      e_tab E2 = e_tab E1 /\ feeds wf pt (e_tab E1) (a_ins a) (a_ind a) = Some es' /\
      (forall id e, In (id, e) (e_ind E2) <->
         In (id, e) (e_ind E1) \/
         (pt = false /\ exists k q, nth_error (a_ins a) k = Some q /\ ~ In q srcs /\
            nth k (a_ind a) 0 = id /\ nth_error es k = Some e))).
    { destruct pt eqn:Ept.
      - exists es, E1. split; [reflexivity|]. split; [reflexivity|]. split; [now apply feeds_pass|].
        intros id e. split; [auto|]. intros [H | [H _]]; [exact H | discriminate H].
      - destruct E1 as [tab1 ind1]. cbn [e_tab e_ind] in *.
        destruct (indirect wf (a_ins a) (a_ind a) es (mkE tab1 ind1)) as [es' E2] eqn:Ei.
        destruct (indirect_spec wf tab1 (a_ins a) (a_ind a) es ind1 es' E2 Hf1 Ei) as [A [B D]].
        exists es', E2. split; [reflexivity|]. split; [exact A|]. split; [exact B|].
        intros id e. rewrite D. split.
        + intros [H | H]; [auto|]. right. split; [reflexivity | exact H].
        + intros [H | [_ H]]; auto. }
    destruct Hfeed as [es' [E2 [Efeed [Etab2 [Hfeeds Hind2]]]]].
    rewrite Efeed.
    assert (Hlen' : length es' = length (a_ins a)) by (eapply feeds_length; eauto).
    destruct (inst_some es' (a_tx a)) as [e Einst]; [now rewrite Hlen'|].
    rewrite Einst.
    set (tab3 := e_tab E2 ++ [(r, e)]).
    assert (Hm3 : tmono (e_tab E1) tab3).
    { unfold tab3. rewrite Etab2. apply tmono_snoc. }
    assert (Hl3 : elookup r tab3 = Some e).
    { unfold tab3. rewrite elookup_snoc, Etab2.
      destruct (elookup r (e_tab E1)) as [e1|] eqn:E1r.
      - exfalso. apply Hr1. eapply elookup_dom; eauto.
      - now rewrite Nat.eqb_refl. }
    destruct Hex1 as [Y0 [Y1 [Y2 Y3]]].
    assert (Hdom3 : forall r', In r' (map fst tab3) <-> In r' (map fst (e_tab E1)) \/ r' = r).
    { intros r'. unfold tab3. rewrite Etab2, map_app, in_app_iff. cbn. intuition auto. }
    exists e, (mkE tab3 (e_ind E2)). split; [reflexivity|]. cbn [e_tab e_ind].
    split; [|split; [|split; [|split]]].
    - (* ExOK *)
      split; [|split; [|split]].
      + unfold tab3. rewrite Etab2, map_app. cbn [map fst].
        apply NoDup_app_intro; [exact Y0 | repeat constructor; intros [] |].
        intros y Hy [<- | []]. contradiction.
      + intros s Hs. apply Hm3, Y1, Hs.
      + intros r' Hr'. apply Hdom3 in Hr'. destruct Hr' as [H | ->]; [apply Y2, H | auto].
      + intros r' e' Hl' Hns'. unfold tab3 in Hl'. rewrite elookup_snoc, Etab2 in Hl'.
        destruct (elookup r' (e_tab E1)) as [e1|] eqn:E1r.
        * injection Hl' as <-. destruct (Y3 r' e1 E1r Hns') as [a' [es1 [A [B D]]]].
          exists a', es1. split; [exact A|]. split; [|exact D].
          eapply feeds_mono; [exact Hm3 | exact B].
        * destruct (Nat.eqb r' r) eqn:Er; [|discriminate]. apply Nat.eqb_eq in Er. subst r'.
          injection Hl' as <-. exists a, es'. split; [exact Efind|]. split; [|exact Einst].
          eapply feeds_mono; [exact Hm3 | exact Hfeeds].
    - (* IndOK *)
      unfold IndOK. cbn [e_tab e_ind]. intros id e0. rewrite Hind2, (Hind1 id e0). split.
      + intros [[Hp [a' [k [q [Hd [Ha' [Hk [Hq [Hi He]]]]]]]]] | [Hp [k [q [Hk [Hq [Hi He]]]]]]].
        * split; [exact Hp|]. exists a', k, q. split; [apply Hdom3; auto|]. split; [exact Ha'|].
          split; [exact Hk|]. split; [exact Hq|]. split; [exact Hi|]. apply Hm3, He.
        * split; [exact Hp|]. exists a, k, q. split; [apply Hdom3; auto|]. split; [exact Ha|].
          split; [exact Hk|]. split; [exact Hq|]. split.
          -- rewrite <- Hi. apply nth_error_nth'. rewrite Hlen. apply nth_error_Some. congruence.
          -- destruct (Forall2_nth _ _ _ Hf1 k q Hk) as [e1 [He1 Hl1]].
             rewrite He in He1. injection He1 as <-. apply Hm3, Hl1.
      + intros [Hp [a' [k [q [Hd [Ha' [Hk [Hq [Hi He]]]]]]]]].
        apply Hdom3 in Hd. destruct Hd as [Hd | Hd].
        * left. split; [exact Hp|]. exists a', k, q. split; [exact Hd|]. split; [exact Ha'|].
          split; [exact Hk|]. split; [exact Hq|]. split; [exact Hi|].
          (* q was looked up when a' was built *)
          assert (Hns' : ~ In (a_out a') srcs).
          { intros F. apply (src_not_out _ F). unfold outs. now apply in_map. }
          destruct (elookup (a_out a') (e_tab E1)) as [ea|] eqn:Ela;
            [|apply elookup_None in Ela; contradiction].
          destruct (Y3 _ _ Ela Hns') as [a'' [es1 [A [B _]]]].
          rewrite (find_app_unique wf a' nd_outs Ha') in A. injection A as <-.
          destruct (feeds_nth wf pt _ _ _ _ k q B Hk) as [e1 [He1 _]].
          rewrite (Hm3 _ _ He1) in He. injection He as <-. exact He1.
        * right. split; [exact Hp|].
          assert (a' = a).
          { rewrite <- Eo in Hd. pose proof (find_app_unique wf a' nd_outs Ha') as F1.
            rewrite Hd in F1. rewrite Eo, Efind in F1. now injection F1. }
          subst a'. exists k, q. split; [exact Hk|]. split; [exact Hq|]. split.
          -- now apply nth_error_nth.
          -- destruct (Forall2_nth _ _ _ Hf1 k q Hk) as [e1 [He1 Hl1]].
             rewrite (Hm3 _ _ Hl1) in He. injection He as <-. exact He1.
    - eapply tmono_trans; eauto.
    - exact Hl3.
    - intros r' Hr'. apply Hdom3 in Hr'. destruct Hr' as [H | ->]; [|right; lia].
      destruct (Hn1 r' H) as [H' | [q [Hq Hle]]]; [auto|].
      destruct (Hins q Hq) as [_ B]. right. lia.
  Qed.
End WF.

(* ======================================================================== *)
(* Part 3: step 2 of add_workflow *)

(* the key under which the expression of a tool is memoised *)
Definition troot (t : tx) : key :=
  match t with
  | TIn _ => (5, 0)
  | TAnon i => (0, i)
  | TOp i _ => (2, i)
  | TApp i _ _ _ => (3, i)
  end.

Definition not_in (t : tx) : Prop := match t with TIn _ => False | _ => True end.

Lemma ttop_not_in t : ttop t = true -> not_in t.
Proof. destruct t; cbn; auto. discriminate. Qed.

Lemma inst_key es t e : inst es t = Some e -> not_in t -> key_of e = troot t.
Proof.
  destruct t as [k | i | i o | i f x fn]; cbn [inst troot not_in]; try tauto.
  - intros [= <-] _. reflexivity.
  - intros [= <-] _. reflexivity.
  - destruct (inst es f); [|discriminate]. destruct (inst es x); [|discriminate].
    intros [= <-] _. reflexivity.
Qed.

Lemma troot_id t : not_in t -> In (snd (troot t)) (tx_ids t).
Proof. destruct t; cbn; tauto. Qed.

Lemma flat_map_owner {A} (f : A -> list nat) (l : list A) a a' i :
  NoDup (flat_map f l) -> In a l -> In a' l -> In i (f a) -> In i (f a') -> a = a'.
Proof.
  induction l as [|b l IH]; [intros _ []|]. cbn [flat_map]. intros Hnd Ha Ha' Hi Hi'.
  assert (Hb : forall c, In c l -> In i (f b) -> In i (f c) -> False).
  { intros c Hc H1 H2. apply (NoDup_app_disj _ _ i Hnd H1). apply in_flat_map. eauto. }
  destruct Ha as [-> | Ha]; destruct Ha' as [-> | Ha']; auto.
  - exfalso. eapply Hb; eauto.
  - exfalso. eapply Hb; eauto.
  - apply IH; auto. eapply NoDup_app_r; eauto.
Qed.

Lemma hit_wdom m e : hit m e = true -> wdom m e = true.
Proof. destruct e; cbn [wdom]; auto. intros ->. reflexivity. Qed.

(* the expression parsed for a tool is in the domain of Part 1 *)
Lemma wdom_inst m es : forall t,
  twfb (length es) t = true ->
  (forall k e, nth_error es k = Some e -> stopf m e = true) ->
  (forall i, In i (tx_ids t) -> memo_find (2, i) m = None /\ memo_find (3, i) m = None) ->
  exists e, inst es t = Some e /\ wdom m e = true /\ (tspine t = true -> spine_miss m e = true).
Proof.
  induction t as [k | i | i o | i f IHf x IHx fn]; cbn [twfb inst tx_ids tspine]; intros Hw Hes Hids.
  - apply Nat.ltb_lt in Hw. destruct (nth_error es k) as [e|] eqn:E.
    + exists e. split; [reflexivity|]. split; [|discriminate].
      specialize (Hes k e E). destruct e; cbn [stopf] in Hes; try (now apply hit_wdom). reflexivity.
    + apply nth_error_None in E. lia.
  - exists (ESrc i). split; [reflexivity|]. split; [reflexivity | discriminate].
  - exists (EOp i o). split; [reflexivity|]. split; [reflexivity|]. intros _.
    cbn [spine_miss]. unfold hit. cbn [key_of]. destruct (Hids i) as [-> _]; cbn; auto.
  - apply andb_true_iff in Hw. destruct Hw as [Hw Hx]. apply andb_true_iff in Hw.
    destruct Hw as [Hsf Hwf].
    assert (Hx' : twfb (length es) x = true /\ (fn = true -> tspine x = true)).
    { destruct fn; [apply andb_true_iff in Hx; destruct Hx; auto | split; [exact Hx | discriminate]]. }
    destruct Hx' as [Hwx Hsx].
    destruct (IHf Hwf Hes) as [f' [Ef [Df Sf]]].
    { intros i0 Hi0. apply Hids. cbn. right. apply in_app_iff. auto. }
    destruct (IHx Hwx Hes) as [x' [Ex [Dx Sx]]].
    { intros i0 Hi0. apply Hids. cbn. right. apply in_app_iff. auto. }
    rewrite Ef, Ex. exists (EApp i f' x' fn). split; [reflexivity|].
    assert (Hmiss : hit m (EApp i f' x' fn) = false).
    { unfold hit. cbn [key_of]. destruct (Hids i) as [_ ->]; cbn; auto. }
    split.
    + cbn [wdom]. rewrite Hmiss, (Sf Hsf), Df. cbn [orb andb].
      destruct fn; [rewrite (Sx (Hsx eq_refl)), Dx; reflexivity | exact Dx].
    + intros _. cbn [spine_miss]. rewrite Hmiss, (Sf Hsf). reflexivity.
Qed.

Lemma tshape_mono lf lf' an an' t L :
  (forall k n, lf k = Some n -> lf' k = Some n) ->
  (forall i n, an i = Some n -> an' i = Some n) ->
  tshape lf an t L -> tshape lf' an' t L.
Proof.
  intros H1 H2 H. induction H.
  - apply ts_in. auto.
  - apply ts_anon. auto.
  - apply ts_op.
  - apply ts_data; auto.
  - apply ts_fun; auto.
Qed.

(* the tree add_expr built is the application tree of the tool expression *)
Lemma tshape_of_wshape stop m es : forall t e L,
  inst es t = Some e ->
  (forall k e, nth_error es k = Some e -> stop e = true) ->
  (forall i o, In i (tx_ids t) -> stop (EOp i o) = false) ->
  (forall i f x fn, In i (tx_ids t) -> stop (EApp i f x fn) = false) ->
  wshape stop m e L ->
  tshape (fun k => match nth_error es k with Some e => memo_find (key_of e) m | None => None end)
         (fun i => memo_find (0, i) m) t L.
Proof.
  induction t as [k | i | i o | i f IHf x IHx fn]; cbn [inst tx_ids]; intros e L Hi Hes Hop Happ Hs.
  - pose proof (Hes k e Hi) as Hst. inversion Hs; subst; try congruence.
    apply ts_in. now rewrite Hi.
  - injection Hi as <-. inversion Hs; subst. apply ts_anon. assumption.
  - injection Hi as <-. inversion Hs; subst.
    + rewrite (Hop i o) in *; [discriminate | cbn; auto].
    + apply ts_op.
  - destruct (inst es f) as [f'|] eqn:Ef; [|discriminate].
    destruct (inst es x) as [x'|] eqn:Ex; [|discriminate]. injection Hi as <-.
    inversion Hs; subst.
    + rewrite (Happ i f' x' fn) in *; [discriminate | cbn; auto].
    + apply ts_data.
      * apply (IHf f'); auto; intros; [apply Hop | apply Happ]; cbn; right; apply in_app_iff; auto.
      * apply (IHx x'); auto; intros; [apply Hop | apply Happ]; cbn; right; apply in_app_iff; auto.
    + apply ts_fun.
      * apply (IHf f'); auto; intros; [apply Hop | apply Happ]; cbn; right; apply in_app_iff; auto.
      * apply (IHx x'); auto; intros; [apply Hop | apply Happ]; cbn; right; apply in_app_iff; auto.
Qed.

Lemma srcs_of_inst stop es : forall t e,
  inst es t = Some e ->
  (forall k e, nth_error es k = Some e -> stop e = true) ->
  forall i, In i (srcs_of stop e) -> In i (tx_ids t) \/ exists k, nth_error es k = Some (ESrc i).
Proof.
  induction t as [k | i0 | i0 o | i0 f IHf x IHx fn]; cbn [inst tx_ids]; intros e Hi Hes i Hin.
  - specialize (Hes k e Hi). destruct e; cbn [srcs_of] in Hin; try (destruct Hin; fail).
    + destruct Hin as [<- | []]. right. eauto.
    + rewrite Hes in Hin. destruct Hin.
  - injection Hi as <-. destruct Hin as [<- | []]. left. cbn. auto.
  - injection Hi as <-. destruct Hin.
  - destruct (inst es f) as [f'|] eqn:Ef; [|discriminate].
    destruct (inst es x) as [x'|] eqn:Ex; [|discriminate]. injection Hi as <-.
    cbn [srcs_of] in Hin. destruct (stop (EApp i0 f' x' fn)); [destruct Hin|].
    apply in_app_iff in Hin. destruct Hin as [Hin | Hin].
    + destruct (IHf f' eq_refl Hes i Hin) as [H | H]; [|auto]. left. cbn. right. apply in_app_iff. auto.
    + destruct (IHx x' eq_refl Hes i Hin) as [H | H]; [|auto]. left. cbn. right. apply in_app_iff. auto.
Qed.

Lemma minj_set m k n :
  minj m -> (memo_find k m = Some n \/ forall k', memo_find k' m <> Some n) -> minj ((k, n) :: m).
Proof.
  intros Hm Hc k1 k2 n0. cbn [memo_find].
  destruct (key_eqb k1 k) eqn:E1; destruct (key_eqb k2 k) eqn:E2.
  - apply key_eqb_eq in E1. apply key_eqb_eq in E2. congruence.
  - apply key_eqb_eq in E1. subst k1. intros [= <-] H2. destruct Hc as [Hc | Hc].
    + apply (Hm _ _ _ Hc H2).
    + exfalso. apply (Hc _ H2).
  - apply key_eqb_eq in E2. subst k2. intros H1 [= <-]. destruct Hc as [Hc | Hc].
    + apply (Hm _ _ _ H1 Hc).
    + exfalso. apply (Hc _ H1).
  - apply Hm.
Qed.

(* lookups that succeed keep their answer *)
Definition mpres (m m' : memo) : Prop :=
  forall k n, memo_find k m = Some n -> memo_find k m' = Some n.

Lemma mpres_refl m : mpres m m.
Proof. intros k n H. exact H. Qed.

Lemma mpres_trans a b c : mpres a b -> mpres b c -> mpres a c.
Proof. intros H1 H2 k n H. apply H2, H1, H. Qed.

Lemma mpres_set m k n : (memo_find k m = None \/ memo_find k m = Some n) -> mpres m ((k, n) :: m).
Proof.
  intros Hc k0 n0 H. cbn [memo_find]. destruct (key_eqb k0 k) eqn:E; [|exact H].
  apply key_eqb_eq in E. subst k0. destruct Hc as [Hc | Hc]; rewrite Hc in H; congruence.
Qed.

Definition flowT (T : list (nat * lx)) : list triple := flat_map (fun p => flow (snd p)) T.
Definition namesT (T : list (nat * lx)) : list node := flat_map (fun p => names (snd p)) T.

(* the node that feeds input k of a tool / the node of an anonymous source *)
Definition lfm (m : memo) (es : list expr) (k : nat) : option node :=
  match nth_error es k with Some e => memo_find (key_of e) m | None => None end.
Definition anm (m : memo) (i : nat) : option node := memo_find (0, i) m.

Lemma lfm_mono m m' es k n : mpres m m' -> lfm m es k = Some n -> lfm m' es k = Some n.
Proof. unfold lfm. intros Hm. destruct (nth_error es k); [apply Hm | discriminate]. Qed.

Lemma flowT_app T1 T2 t : In t (flowT (T1 ++ T2)) <-> In t (flowT T1) \/ In t (flowT T2).
Proof. unfold flowT. rewrite flat_map_app, in_app_iff. tauto. Qed.

Lemma namesT_app T1 T2 : namesT (T1 ++ T2) = namesT T1 ++ namesT T2.
Proof. unfold namesT. apply flat_map_app. Qed.

Lemma flowT_single r L : flowT [(r, L)] = flow L.
Proof. unfold flowT. cbn. apply app_nil_r. Qed.

Lemma namesT_single r L : namesT [(r, L)] = names L.
Proof. unfold namesT. cbn. apply app_nil_r. Qed.

Section S2.
  Variable add_from add_from_r : node -> node -> list triple -> list triple.
  Hypothesis Hok : add_from_ok add_from.
  Hypothesis Hokr : add_from_ok add_from_r.
  Variable wf : wflow.
  Variable pt : bool.
  Hypothesis Hwf : wf_okb wf = true.
  Variable ex : etab.
  Hypothesis Hex : ExOK wf pt ex.

  Let srcs := w_srcs wf.
  Let apps := w_apps wf.
  Let rnk := rank wf.

  Definition own_ids (a : tapp) : list nat := tx_ids (a_tx a) ++ a_ind a.

  Lemma own_all a i : In a apps -> In i (own_ids a) -> In i (all_ids wf).
  Proof. intros Ha Hi. unfold all_ids. apply in_flat_map. exists a. auto. Qed.

  Lemma own_unique a a' i : In a apps -> In a' apps -> In i (own_ids a) -> In i (own_ids a') -> a = a'.
  Proof.
    intros Ha Ha' Hi Hi'. apply (flat_map_owner own_ids apps a a' i); auto.
    apply (NoDup_app_r srcs). apply (nd_ids wf Hwf).
  Qed.

  Lemma own_not_src a i : In a apps -> In i (own_ids a) -> ~ In i srcs.
  Proof.
    intros Ha Hi Hs. apply (NoDup_app_disj _ _ i (nd_ids wf Hwf) Hs). eapply own_all; eauto.
  Qed.

  Lemma tool_expr r e : elookup r ex = Some e -> ~ In r srcs ->
    exists a es, In a apps /\ a_out a = r /\ find_app wf r = Some a /\
      feeds wf pt ex (a_ins a) (a_ind a) = Some es /\ inst es (a_tx a) = Some e /\
      key_of e = troot (a_tx a) /\ In (snd (troot (a_tx a))) (tx_ids (a_tx a)).
  Proof.
    intros He Hns. destruct Hex as [_ [_ [_ X3]]].
    destruct (X3 r e He Hns) as [a [es [Hf [Hfe Hi]]]].
    destruct (find_app_some wf r a Hf) as [Ha Eo].
    destruct (app_parts wf Hwf a Ha) as [_ [_ [_ [Htop _]]]].
    exists a, es. repeat (split; [assumption|]). split.
    - eapply inst_key; eauto. now apply ttop_not_in.
    - apply troot_id. now apply ttop_not_in.
  Qed.

  Lemma src_expr s : In s srcs -> elookup s ex = Some (ESrc s).
  Proof. intros Hs. destruct Hex as [_ [X1 _]]. now apply X1. Qed.

  Lemma key_inj r r' e e' :
    elookup r ex = Some e -> elookup r' ex = Some e' -> key_of e = key_of e' -> r = r'.
  Proof.
    intros He He' Hk.
    destruct (in_dec Nat.eq_dec r srcs) as [Hs | Hs]; destruct (in_dec Nat.eq_dec r' srcs) as [Hs' | Hs'].
    - rewrite (src_expr r Hs) in He. rewrite (src_expr r' Hs') in He'.
      injection He as <-. injection He' as <-. cbn in Hk. congruence.
    - rewrite (src_expr r Hs) in He. injection He as <-.
      destruct (tool_expr r' e' He' Hs') as [a [es [Ha [_ [_ [_ [_ [Kk Ki]]]]]]]].
      rewrite Kk in Hk. rewrite <- Hk in Ki. cbn [key_of snd] in Ki.
      exfalso. apply (own_not_src a r Ha); [|exact Hs]. unfold own_ids. apply in_app_iff. auto.
    - rewrite (src_expr r' Hs') in He'. injection He' as <-.
      destruct (tool_expr r e He Hs) as [a [es [Ha [_ [_ [_ [_ [Kk Ki]]]]]]]].
      rewrite Kk in Hk. rewrite Hk in Ki. cbn [key_of snd] in Ki.
      exfalso. apply (own_not_src a r' Ha); [|exact Hs']. unfold own_ids. apply in_app_iff. auto.
    - destruct (tool_expr r e He Hs) as [a [es [Ha [Eo [_ [_ [_ [Kk Ki]]]]]]]].
      destruct (tool_expr r' e' He' Hs') as [a' [es' [Ha' [Eo' [_ [_ [_ [Kk' Ki']]]]]]]].
      rewrite Kk, Kk' in Hk. rewrite Hk in Ki.
      assert (a = a').
      { apply (own_unique a a' (snd (troot (a_tx a')))); auto; unfold own_ids; apply in_app_iff; auto. }
      subst a'. congruence.
  Qed.

  Record WS (X : list triple) (st : gstate) (T : list (nat * lx)) : Prop := mkWS {
    s_inv : WInv st;
    s_memo : forall r L, In (r, L) T ->
      exists e, elookup r ex = Some e /\ memo_find (key_of e) (g_memo st) = Some (lnode L);
    s_veq : veq (g_tr st) (flowT T ++ X);
    s_nd : NoDup (namesT T);
    s_lt : forall x, In x (namesT T) -> x < g_next st;
    s_src : forall i n, In ((0, i), n) (g_memo st) -> ~ In n (namesT T);
    s_shape : forall r L, In (r, L) T -> ~ In r srcs ->
      exists a es, find_app wf r = Some a /\ feeds wf pt ex (a_ins a) (a_ind a) = Some es /\
        tshape (lfm (g_memo st) es) (anm (g_memo st)) (a_tx a) L;
    s_leaf : forall r L, In (r, L) T -> In r srcs -> exists n, L = LLeaf n;
    s_closed : forall r L a, In (r, L) T -> find_app wf r = Some a ->
      forall q, In q (a_ins a) -> In q (map fst T);
    s_ndT : NoDup (map fst T);
    s_keys : forall k n, In (k, n) (g_memo st) -> 2 <= fst k ->
      exists r L e, In (r, L) T /\ elookup r ex = Some e /\ k = key_of e;
    s_own : forall i n, In ((0, i), n) (g_memo st) ->
      (In i srcs /\ In i (map fst T)) \/
      (exists a, In a apps /\ In (a_out a) (map fst T) /\ In i (own_ids a))
  }.

  (* what is in the memo under the key of a resource's expression was put there
     when that resource was processed *)
  Lemma hit_in_T X st T r e n :
    WS X st T -> elookup r ex = Some e -> memo_find (key_of e) (g_memo st) = Some n ->
    exists L, In (r, L) T /\ lnode L = n.
  Proof.
    intros W He Hm.
    assert (HrT : In r (map fst T)).
    { destruct (le_lt_dec 2 (fst (key_of e))) as [Hk | Hk].
      - destruct (s_keys _ _ _ W _ _ (memo_find_In _ _ _ Hm) Hk) as [r' [L' [e' [HT [He' Ek]]]]].
        rewrite (key_inj r r' e e' He He' Ek). apply in_map_iff. exists (r', L'). auto.
      - assert (Htag : fst (key_of e) <> 1).
        { destruct (in_dec Nat.eq_dec r srcs) as [Hr | Hr].
          - rewrite (src_expr r Hr) in He. injection He as <-. cbn. discriminate.
          - destruct (tool_expr r _ He Hr) as [a [es [Ha [_ [Hf [_ [_ [Kk _]]]]]]]].
            rewrite Kk. destruct (app_parts wf Hwf a Ha) as [_ [_ [_ [Htop _]]]].
            apply ttop_not_in in Htop. destruct (a_tx a); cbn in *; try discriminate; tauto. }
        assert (exists i, e = ESrc i) as [i ->].
        { destruct e; cbn in Hk, Htag; try lia. eauto. }
        cbn [key_of] in Hm.
        destruct (s_own _ _ _ W i n (memo_find_In _ _ _ Hm)) as [[Hs HT] | [a [Ha [HT Hi]]]].
        + destruct (in_dec Nat.eq_dec r srcs) as [Hr | Hr].
          * rewrite (src_expr r Hr) in He. now injection He as ->.
          * destruct (tool_expr r _ He Hr) as [a [es [Ha [_ [_ [_ [_ [Kk Ki]]]]]]]].
            cbn [key_of] in Kk. rewrite <- Kk in Ki. cbn [snd] in Ki. exfalso.
            apply (own_not_src a i Ha); [|exact Hs]. unfold own_ids. apply in_app_iff. auto.
        + destruct (in_dec Nat.eq_dec r srcs) as [Hr | Hr].
          * rewrite (src_expr r Hr) in He. injection He as ->. exfalso.
            apply (own_not_src a i Ha Hi Hr).
          * destruct (tool_expr r _ He Hr) as [a' [es [Ha' [Eo [_ [_ [_ [Kk Ki]]]]]]]].
            cbn [key_of] in Kk. rewrite <- Kk in Ki. cbn [snd] in Ki.
            assert (a = a').
            { apply (own_unique a a' i); auto. unfold own_ids. apply in_app_iff. auto. }
            subst a'. now rewrite <- Eo. }
    apply in_map_iff in HrT. destruct HrT as [[r0 L] [E HT]]. cbn in E. subst r0.
    exists L. split; [exact HT|].
    destruct (s_memo _ _ _ W r L HT) as [e' [He' Hm']]. rewrite He in He'. injection He' as <-.
    rewrite Hm in Hm'. now injection Hm'.
  Qed.

  Lemma stop_of_hit m e : hit m e = true -> stopf m e = true.
  Proof. destruct e; cbn [stopf]; auto. Qed.

  Lemma feeds_leaf es a k e' :
    In a apps -> feeds wf pt ex (a_ins a) (a_ind a) = Some es -> nth_error es k = Some e' ->
    exists q, nth_error (a_ins a) k = Some q /\
      ((exists i, e' = ESrc i /\ In i (a_ind a) /\ pt = false /\ ~ In q srcs) \/ elookup q ex = Some e').
  Proof.
    intros Ha Hf Hk.
    assert (Hlen : length es = length (a_ins a)) by (eapply feeds_length; eauto).
    assert (Hlt : k < length (a_ins a)).
    { rewrite <- Hlen. apply nth_error_Some. congruence. }
    destruct (nth_error (a_ins a) k) as [q|] eqn:Eq; [|apply nth_error_None in Eq; lia].
    exists q. split; [reflexivity|].
    destruct (feeds_nth wf pt ex _ _ _ k q Hf Eq) as [e0 [He0 Hn]].
    rewrite Hk in Hn. injection Hn as ->.
    destruct (pt || memb q (w_srcs wf)) eqn:Ec; [right; exact He0|].
    left. apply orb_false_iff in Ec. destruct Ec as [Ep Em]. apply memb_false in Em.
    exists (nth k (a_ind a) 0). split; [reflexivity|]. split; [|split; [exact Ep | exact Em]].
    apply nth_In. destruct (app_parts wf Hwf a Ha) as [_ [_ [_ [_ Hl]]]]. lia.
  Qed.

  Lemma ids_miss X st T a :
    WS X st T -> In a apps -> ~ In (a_out a) (map fst T) ->
    forall i tg, In i (tx_ids (a_tx a)) -> 2 <= tg -> memo_find (tg, i) (g_memo st) = None.
  Proof.
    intros W Ha HnT i tg Hi Htg.
    destruct (memo_find (tg, i) (g_memo st)) as [n|] eqn:Em; [|reflexivity]. exfalso.
    destruct (s_keys _ _ _ W _ _ (memo_find_In _ _ _ Em) Htg) as [r' [L' [e' [HT [He' Ek]]]]].
    destruct (in_dec Nat.eq_dec r' srcs) as [Hr | Hr].
    - rewrite (src_expr r' Hr) in He'. injection He' as <-. cbn in Ek. injection Ek as -> _. lia.
    - destruct (tool_expr r' e' He' Hr) as [a' [es [Ha' [Eo [_ [_ [_ [Kk Ki]]]]]]]].
      rewrite Kk in Ek. rewrite <- Ek in Ki. cbn [snd] in Ki.
      assert (a = a').
      { apply (own_unique a a' i); auto; unfold own_ids; apply in_app_iff; auto. }
      subst a'. apply HnT. rewrite Eo. apply in_map_iff. exists (r', L'). auto.
  Qed.

  Lemma add_step X st T r e :
    WS X st T -> elookup r ex = Some e -> ~ In r (map fst T) ->
    (In r srcs \/ exists a, find_app wf r = Some a /\ forall q, In q (a_ins a) -> In q (map fst T)) ->
    exists L st2, add_expr add_from false e None st = Some (lnode L, st2) /\
      WS X (set_memo (key_of e) (lnode L) st2) (T ++ [(r, L)]) /\
      g_next st <= g_next st2 /\
      mpres (g_memo st) (g_memo (set_memo (key_of e) (lnode L) st2)).
  Proof.
    intros W He HnT Hcase.
    assert (Hmiss : memo_find (key_of e) (g_memo st) = None).
    { destruct (memo_find (key_of e) (g_memo st)) as [n|] eqn:Em; [|reflexivity]. exfalso.
      destruct (hit_in_T X st T r e n W He Em) as [L [HT _]]. apply HnT.
      apply in_map_iff. exists (r, L). auto. }
    rewrite (add_expr_None_eq add_from false e st Hmiss).
    set (c := g_next st). set (st0 := snd (fresh st)).
    assert (Hinv := s_inv _ _ _ W).
    assert (Hinv0 : WInv st0) by (apply WInv_fresh; exact Hinv).
    assert (Hcur0 : cur_ok c st0) by (apply cur_ok_freshW; exact Hinv).
    assert (Hm0 : g_memo st0 = g_memo st) by reflexivity.
    assert (Htr0 : g_tr st0 = g_tr st) by reflexivity.
    assert (Hn0 : g_next st0 = S c) by reflexivity.
    (* the shape of e *)
    assert (Hform :
      (In r srcs /\ e = ESrc r) \/
      (~ In r srcs /\ exists a es, In a apps /\ a_out a = r /\ find_app wf r = Some a /\
         feeds wf pt ex (a_ins a) (a_ind a) = Some es /\ inst es (a_tx a) = Some e /\
         (forall q, In q (a_ins a) -> In q (map fst T)))).
    { destruct (in_dec Nat.eq_dec r srcs) as [Hr | Hr].
      - left. split; [exact Hr|]. rewrite (src_expr r Hr) in He. now injection He.
      - right. split; [exact Hr|]. destruct Hcase as [F | [a [Hf Hq]]]; [contradiction|].
        destruct (tool_expr r e He Hr) as [a' [es [Ha' [Eo [Hf' [Hfe [Hi _]]]]]]].
        rewrite Hf in Hf'. injection Hf' as <-. exists a, es. auto 10. }
    (* the leaves of a tool expression are memoised or are sources *)
    assert (Hleaves : forall a es, In a apps -> feeds wf pt ex (a_ins a) (a_ind a) = Some es ->
      (forall q, In q (a_ins a) -> In q (map fst T)) ->
      forall k e', nth_error es k = Some e' -> stopf (g_memo st) e' = true).
    { intros a es Ha Hfe Hq k e' Hk.
      destruct (feeds_leaf es a k e' Ha Hfe Hk) as [q [Hqk [[i [-> _]] | Hl]]]; [reflexivity|].
      apply stop_of_hit. apply nth_error_In in Hqk. specialize (Hq q Hqk).
      apply in_map_iff in Hq. destruct Hq as [[q0 Lq] [E HT]]. cbn in E. subst q0.
      destruct (s_memo _ _ _ W q Lq HT) as [e0 [He0 Hm]]. rewrite Hl in He0. injection He0 as <-.
      unfold hit. now rewrite Hm. }
    assert (Hdom : wdom (g_memo st0) e = true /\
                   ((exists i, e = ESrc i) \/ spine_miss (g_memo st0) e = true)).
    { rewrite Hm0. destruct Hform as [[_ ->] | [Hr [a [es [Ha [Eo [Hf [Hfe [Hi Hq]]]]]]]]].
      - split; [reflexivity | left; eauto].
      - destruct (app_parts wf Hwf a Ha) as [_ [_ [Htwf [Htop _]]]].
        assert (HaT : ~ In (a_out a) (map fst T)) by (rewrite Eo; exact HnT).
        destruct (wdom_inst (g_memo st) es (a_tx a)) as [e1 [Ei [Hd Hs]]].
        + erewrite feeds_length by eauto. exact Htwf.
        + apply (Hleaves a es Ha Hfe Hq).
        + intros i Hi0. split; apply (ids_miss X st T a W Ha HaT i); auto.
        + rewrite Hi in Ei. injection Ei as <-. split; [exact Hd|].
          unfold ttop in Htop. apply orb_true_iff in Htop. destruct Htop as [Hsp | Han].
          * right. now apply Hs.
          * left. destruct (a_tx a); try discriminate. cbn in Hi. injection Hi as <-. eauto. }
    destruct Hdom as [Hdom Hkind].
    destruct (add_expr_w add_from Hok e c st0 Hdom Hinv0 Hcur0) as [L [st2 [Ea P]]].
    exists L, st2. split; [exact Ea|].
    destruct P as [Psh Pveq Pnames Pspine Pnd Pinv Pnext Pext Pnew Psrc].
    rewrite Hm0 in *. rewrite Htr0 in Pveq. rewrite Hn0 in *.
    assert (Hpres : mpres (g_memo st) (g_memo st2)) by (destruct Pext as [Pe _]; exact Pe).
    (* the two kinds of result *)
    assert (Hres : (exists i n, e = ESrc i /\ L = LLeaf n /\ memo_find (0, i) (g_memo st2) = Some n) \/
                   (exists o args, L = LSpine c o args /\ 2 <= fst (key_of e))).
    { destruct Hkind as [[i ->] | Hs].
      - left. inversion Psh; subst. exists i, n. auto.
      - right. destruct (Pspine Hs) as [o [args ->]]. exists o, args. split; [reflexivity|].
        destruct e; cbn in Hs; try discriminate; cbn; lia. }
    assert (HlnL : lnode L < g_next st2).
    { destruct Hres as [[i [n [_ [-> Hm]]]] | [o [args [-> _]]]]; cbn [lnode].
      - destruct Pinv as [_ [P2 _]]. apply (P2 _ _ (memo_find_In _ _ _ Hm)).
      - unfold c. lia. }
    assert (Hold_lt : forall k n, In (k, n) (g_memo st) -> n < c).
    { intros k n Hk. destruct Hinv as [_ [I2 _]]. apply (I2 k n Hk). }
    assert (HnamesL : forall x, In x (names L) -> c <= x < g_next st2).
    { intros x Hx. destruct (Pnames x Hx) as [-> | H]; unfold c in *; lia. }
    assert (Hpres' : mpres (g_memo st2) ((key_of e, lnode L) :: g_memo st2)).
    { apply mpres_set. destruct Hres as [[i [n [-> [-> Hm]]]] | [o [args [-> Htag]]]].
      - right. exact Hm.
      - left. destruct Pext as [_ Pe2]. rewrite Pe2 by lia. exact Hmiss. }
    split; [|split; [lia | unfold set_memo; cbn [g_memo]; eapply mpres_trans; eauto]].
    unfold set_memo.
    constructor; cbn [g_tr g_memo g_next].
    - (* WInv *)
      destruct Pinv as [P1 [P2 P3]]. split; [exact P1|]. split.
      + intros k n [[= <- <-] | Hk]; [exact HlnL | apply (P2 k n Hk)].
      + apply minj_set; [exact P3|].
        destruct Hres as [[i [n [-> [-> Hm]]]] | [o [args [-> Htag]]]]; cbn [lnode key_of].
        * left. exact Hm.
        * right. intros k' Hk'. apply memo_find_In in Hk'.
          destruct (Pnew _ _ Hk') as [H | [_ [_ H]]].
          -- apply Hold_lt in H. lia.
          -- apply H. cbn. auto.
    - (* s_memo *)
      intros r' L' HT'. apply in_app_iff in HT'. destruct HT' as [HT' | [[= <- <-] | []]].
      + destruct (s_memo _ _ _ W r' L' HT') as [e' [He' Hm']]. exists e'. split; [exact He'|].
        apply Hpres', Hpres, Hm'.
      + exists e. split; [exact He|]. cbn [memo_find]. now rewrite key_eqb_refl.
    - (* s_veq *)
      intros t Hv. rewrite (Pveq t Hv), !in_app_iff, flowT_app, (s_veq _ _ _ W t Hv), in_app_iff.
      rewrite flowT_single. tauto.
    - (* s_nd *)
      rewrite namesT_app, namesT_single.
      apply NoDup_app_intro; [apply (s_nd _ _ _ W) | exact Pnd |].
      intros x Hx Hx'. apply (s_lt _ _ _ W) in Hx. apply HnamesL in Hx'. unfold c in *. lia.
    - (* s_lt *)
      intros x Hx. rewrite namesT_app in Hx. apply in_app_iff in Hx. destruct Hx as [Hx | Hx].
      + apply (s_lt _ _ _ W) in Hx. lia.
      + rewrite namesT_single in Hx. apply HnamesL in Hx. lia.
    - (* s_src *)
      intros i n Hk.
      assert (Hk2 : In ((0, i), n) (g_memo st2)).
      { destruct Hk as [E | Hk]; [|exact Hk]. injection E as E1 E2.
        destruct Hres as [[i0 [n0 [-> [-> Hm]]]] | [o [args [_ Htag]]]].
        - cbn in E1, E2. injection E1 as <-. subst n. now apply memo_find_In.
        - rewrite E1 in Htag. cbn in Htag. lia. }
      rewrite namesT_app, in_app_iff, namesT_single.
      destruct (Pnew _ _ Hk2) as [H | [_ [Hn Hnl]]].
      + intros [Hx | Hx].
        * apply (s_src _ _ _ W i n H Hx).
        * apply HnamesL in Hx. apply Hold_lt in H. lia.
      + intros [Hx | Hx]; [|exact (Hnl Hx)].
        apply (s_lt _ _ _ W) in Hx. unfold c in *. lia.
    - (* s_shape *)
      intros r' L' HT' Hr'. apply in_app_iff in HT'. destruct HT' as [HT' | [[= <- <-] | []]].
      + destruct (s_shape _ _ _ W r' L' HT' Hr') as [a [es [Hf [Hfe Hts]]]].
        exists a, es. split; [exact Hf|]. split; [exact Hfe|].
        eapply tshape_mono; [| |exact Hts].
        * intros k n Hl. eapply lfm_mono; [|exact Hl]. eapply mpres_trans; eauto.
        * intros i n Hl. unfold anm in *. apply Hpres', Hpres, Hl.
      + destruct Hform as [[Hs _] | [_ [a [es [Ha [Eo [Hf [Hfe [Hi Hq]]]]]]]]]; [contradiction|].
        exists a, es. split; [exact Hf|]. split; [exact Hfe|].
        assert (HaT : ~ In (a_out a) (map fst T)) by (rewrite Eo; exact HnT).
        eapply tshape_mono; [| |apply (tshape_of_wshape (stopf (g_memo st)) (g_memo st2) es (a_tx a) e L Hi)].
        * intros k n Hl. eapply lfm_mono; [|exact Hl]. exact Hpres'.
        * intros i n Hl. unfold anm in *. apply Hpres', Hl.
        * apply (Hleaves a es Ha Hfe Hq).
        * intros i o Hi0. cbn [stopf]. unfold hit. cbn [key_of].
          now rewrite (ids_miss X st T a W Ha HaT i 2 Hi0).
        * intros i f x fn Hi0. cbn [stopf]. unfold hit. cbn [key_of].
          now rewrite (ids_miss X st T a W Ha HaT i 3 Hi0) by lia.
        * exact Psh.
    - (* s_leaf *)
      intros r' L' HT' Hr'. apply in_app_iff in HT'. destruct HT' as [HT' | [[= <- <-] | []]].
      + apply (s_leaf _ _ _ W r' L' HT' Hr').
      + destruct Hform as [[_ ->] | [Hns _]]; [|contradiction].
        inversion Psh; subst. eauto.
    - (* s_closed *)
      intros r' L' a HT' Hf q Hq. rewrite map_app, in_app_iff.
      apply in_app_iff in HT'. destruct HT' as [HT' | [[= <- <-] | []]].
      + left. apply (s_closed _ _ _ W r' L' a HT' Hf q Hq).
      + left. destruct Hform as [[Hs _] | [_ [a' [es [Ha [Eo [Hf' [_ [_ Hq']]]]]]]]].
        * exfalso. destruct (find_app_some wf r a Hf) as [Ha Eo].
          apply (src_not_out wf Hwf r Hs). rewrite <- Eo. unfold outs. now apply in_map.
        * rewrite Hf in Hf'. injection Hf' as <-. now apply Hq'.
    - (* s_ndT *)
      rewrite map_app. cbn [map fst]. apply NoDup_app_intro; [apply (s_ndT _ _ _ W) | |].
      + repeat constructor. intros [].
      + intros x Hx [<- | []]. contradiction.
    - (* s_keys *)
      intros k n Hk Htag. destruct Hk as [[= <- <-] | Hk].
      + exists r, L, e. split; [apply in_app_iff; cbn; auto | auto].
      + destruct (Pnew _ _ Hk) as [H | [H0 _]]; [|lia].
        destruct (s_keys _ _ _ W k n H Htag) as [r' [L' [e' [HT' [He' Ek]]]]].
        exists r', L', e'. split; [apply in_app_iff; auto | auto].
    - (* s_own *)
      intros i n Hk. rewrite map_app. cbn [map fst].
      assert (HrT' : In r (map fst T ++ [r])) by (apply in_app_iff; cbn; auto).
      assert (Hmine : forall i0, In i0 (srcs_of (stopf (g_memo st)) e) ->
        (In i0 srcs /\ In i0 (map fst T ++ [r])) \/
        (exists a, In a apps /\ In (a_out a) (map fst T ++ [r]) /\ In i0 (own_ids a))).
      { intros i0 Hi0.
        destruct Hform as [[Hs ->] | [Hns [a [es [Ha [Eo [Hf [Hfe [Hi Hq]]]]]]]]].
        - cbn in Hi0. destruct Hi0 as [<- | []]. left. auto.
        - destruct (srcs_of_inst (stopf (g_memo st)) es (a_tx a) e Hi (Hleaves a es Ha Hfe Hq) i0 Hi0)
            as [Hin | [k Hk0]].
          + right. exists a. split; [exact Ha|]. split; [rewrite Eo; exact HrT'|].
            unfold own_ids. apply in_app_iff. auto.
          + destruct (feeds_leaf es a k _ Ha Hfe Hk0) as [q [Hqk [[i1 [[= <-] [Hind _]]] | Hl]]].
            * right. exists a. split; [exact Ha|]. split; [rewrite Eo; exact HrT'|].
              unfold own_ids. apply in_app_iff. auto.
            * apply nth_error_In in Hqk. specialize (Hq q Hqk).
              destruct (in_dec Nat.eq_dec q srcs) as [Hqs | Hqs].
              -- rewrite (src_expr q Hqs) in Hl. injection Hl as <-. left. split; [exact Hqs|].
                 apply in_app_iff. auto.
              -- destruct (tool_expr q _ Hl Hqs) as [aq [esq [Haq [Eoq [_ [_ [_ [Kk Ki]]]]]]]].
                 cbn [key_of] in Kk. rewrite <- Kk in Ki. cbn [snd] in Ki.
                 right. exists aq. split; [exact Haq|]. split; [rewrite Eoq; apply in_app_iff; auto|].
                 unfold own_ids. apply in_app_iff. auto. }
      assert (Hk2 : In ((0, i), n) (g_memo st2) \/ e = ESrc i).
      { destruct Hk as [E | Hk]; [|left; exact Hk]. injection E as E1 E2.
        destruct Hres as [[i0 [n0 [-> [-> Hm]]]] | [o [args [_ Htag]]]].
        - cbn in E1. injection E1 as <-. auto.
        - rewrite E1 in Htag. cbn in Htag. lia. }
      destruct Hk2 as [Hk2 | ->].
      + destruct (Psrc _ _ Hk2) as [H | [i0 [[= <-] Hi0]]].
        * destruct (s_own _ _ _ W i n H) as [[Hs HT] | [a [Ha [HT Hi]]]].
          -- left. split; [exact Hs | apply in_app_iff; auto].
          -- right. exists a. split; [exact Ha|]. split; [apply in_app_iff; auto | exact Hi].
        * apply Hmine, Hi0.
      + apply Hmine. cbn. auto.
  Qed.

  Lemma in_dom_lookup r : In r (map fst ex) -> exists e, elookup r ex = Some e.
  Proof.
    intros H. destruct (elookup r ex) as [e|] eqn:E; [eauto|]. apply elookup_None in E. contradiction.
  Qed.

  Lemma tool_inputs r e a : elookup r ex = Some e -> ~ In r srcs -> find_app wf r = Some a ->
    forall q, In q (a_ins a) -> In q (map fst ex) /\ rnk q < rnk r.
  Proof.
    intros He Hr Hf q Hq.
    destruct (tool_expr r e He Hr) as [a' [es [Ha [Eo [Hf' [Hfe _]]]]]].
    rewrite Hf in Hf'. injection Hf' as <-.
    destruct (In_nth_error _ _ Hq) as [k Hk].
    destruct (feeds_nth wf pt ex _ _ _ k q Hfe Hk) as [e0 [He0 _]]. split.
    - eapply elookup_dom; eauto.
    - destruct (app_parts wf Hwf a Ha) as [Hins _]. rewrite <- Eo. apply Hins, Hq.
  Qed.

  Definition W2T (fuel : nat) : Prop := forall X r st T,
    WS X st T -> In r (map fst ex) -> rnk r < fuel ->
    exists n st' T', w2t add_from false wf ex fuel r st = Some (n, st') /\
      WS X st' T' /\ (exists L, In (r, L) T' /\ lnode L = n) /\
      incl T T' /\ g_next st <= g_next st' /\ mpres (g_memo st) (g_memo st') /\
      (forall x, In x (map fst T') -> In x (map fst T) \/ rnk x <= rnk r).

  Lemma foldM_ok fuel (IH : W2T fuel) : forall rs X st T,
    WS X st T -> (forall q, In q rs -> In q (map fst ex) /\ rnk q < fuel) ->
    exists st' T', foldM_t (w2t add_from false wf ex fuel) rs st = Some st' /\
      WS X st' T' /\ incl T T' /\ (forall q, In q rs -> In q (map fst T')) /\
      g_next st <= g_next st' /\ mpres (g_memo st) (g_memo st') /\
      (forall x, In x (map fst T') -> In x (map fst T) \/ exists q, In q rs /\ rnk x <= rnk q).
  Proof.
    induction rs as [|q rs IHrs]; intros X st T W Hrs; cbn [foldM_t].
    - exists st, T. split; [reflexivity|]. split; [exact W|]. split; [apply incl_refl|].
      split; [intros q []|]. split; [lia|]. split; [apply mpres_refl | auto].
    - destruct (Hrs q (or_introl eq_refl)) as [Hq1 Hq2].
      destruct (IH X q st T W Hq1 Hq2) as [n [st1 [T1 [Ew [W1 [[L [HL _]] [Hi1 [Hn1 [Hp1 Hr1]]]]]]]]].
      rewrite Ew.
      destruct (IHrs X st1 T1 W1) as [st2 [T2 [Ef [W2 [Hi2 [Hq2' [Hn2 [Hp2 Hr2]]]]]]]].
      { intros q' Hq'. apply Hrs. cbn. auto. }
      exists st2, T2. split; [exact Ef|]. split; [exact W2|].
      split; [eapply incl_tran; eauto|]. split; [|split; [lia|split; [eapply mpres_trans; eauto|]]].
      + intros q' [<- | Hq']; [|now apply Hq2'].
        apply in_map_iff. exists (q, L). split; [reflexivity | apply Hi2, HL].
      + intros x Hx. destruct (Hr2 x Hx) as [H | [q' [Hq' Hle]]].
        * destruct (Hr1 x H) as [H' | H']; [auto|]. right. exists q. cbn. auto.
        * right. exists q'. cbn. auto.
  Qed.

  Lemma w2t_ok : forall fuel, W2T fuel.
  Proof.
    induction fuel as [|fuel IH]; intros X r st T W Hr Hrk; [lia|].
    destruct (in_dom_lookup r Hr) as [e He].
    cbn [w2t]. rewrite He.
    destruct (memo_find (key_of e) (g_memo st)) as [n|] eqn:Em.
    { destruct (hit_in_T X st T r e n W He Em) as [L [HT HL]].
      exists n, st, T. split; [reflexivity|]. split; [exact W|]. split; [eauto|].
      split; [apply incl_refl|]. split; [lia|]. split; [apply mpres_refl | auto]. }
    assert (HnT : ~ In r (map fst T)).
    { intros H. apply in_map_iff in H. destruct H as [[r0 L] [E HT]]. cbn in E. subst r0.
      destruct (s_memo _ _ _ W r L HT) as [e' [He' Hm']]. rewrite He in He'. injection He' as <-.
      rewrite Em in Hm'. discriminate. }
    destruct (memb r (w_srcs wf)) eqn:Es.
    - (* a workflow source *)
      apply memb_In in Es.
      destruct (add_step X st T r e W He HnT (or_introl Es)) as [L [st2 [Ea [W2 [Hn2 Hp2]]]]].
      rewrite Ea. exists (lnode L), (set_memo (key_of e) (lnode L) st2), (T ++ [(r, L)]).
      split; [reflexivity|]. split; [exact W2|]. split.
      { exists L. split; [apply in_app_iff; cbn; auto | reflexivity]. }
      split; [apply incl_appl, incl_refl|]. split; [cbn [set_memo g_next]; exact Hn2|]. split; [exact Hp2|].
      + intros x Hx. rewrite map_app in Hx. apply in_app_iff in Hx. destruct Hx as [Hx | [<- | []]]; auto.
    - (* the output of a tool application *)
      apply memb_false in Es.
      destruct (tool_expr r e He Es) as [a [es [Ha [Eo [Hf _]]]]].
      rewrite Hf.
      destruct (foldM_ok fuel IH (a_ins a) X st T W) as [st1 [T1 [Ef [W1 [Hi1 [Hq1 [Hn1 [Hp1 Hr1]]]]]]]].
      { intros q Hq. destruct (tool_inputs r e a He Es Hf q Hq) as [A B]. split; [exact A|].
        unfold rnk in *. lia. }
      rewrite Ef.
      assert (HnT1 : ~ In r (map fst T1)).
      { intros H. destruct (Hr1 r H) as [H' | [q [Hq Hle]]]; [contradiction|].
        destruct (tool_inputs r e a He Es Hf q Hq) as [_ B]. unfold rnk in *. lia. }
      destruct (add_step X st1 T1 r e W1 He HnT1) as [L [st2 [Ea [W2 [Hn2 Hp2]]]]].
      { right. exists a. auto. }
      rewrite Ea. exists (lnode L), (set_memo (key_of e) (lnode L) st2), (T1 ++ [(r, L)]).
      split; [reflexivity|]. split; [exact W2|]. split.
      { exists L. split; [apply in_app_iff; cbn; auto | reflexivity]. }
      split; [apply incl_appl; exact Hi1|]. split; [cbn [set_memo g_next]; lia|]. split.
      + eapply mpres_trans; eauto.
      + intros x Hx. rewrite map_app in Hx. apply in_app_iff in Hx. destruct Hx as [Hx | [<- | []]]; auto.
        destruct (Hr1 x Hx) as [H | [q [Hq Hle]]]; [auto|]. right.
        destruct (tool_inputs r e a He Es Hf q Hq) as [_ B]. unfold rnk in *. lia.
  Qed.

  (* every tool application feeds, directly or not, the final one *)
  Lemma target_spec tg : target wf = Some tg ->
    In tg (outs wf) /\ forall r, In r (outs wf) -> r <> tg -> consumed wf r = true.
  Proof.
    unfold target. destruct (targets wf) as [|t [|t' l]] eqn:E; try discriminate.
    intros [= <-]. split.
    - assert (H : In t (targets wf)) by (rewrite E; cbn; auto).
      unfold targets in H. apply filter_In in H. apply H.
    - intros r Hr Hne. destruct (consumed wf r) eqn:Ec; [reflexivity|]. exfalso.
      assert (H : In r (targets wf)).
      { unfold targets. apply filter_In. split; [exact Hr|]. now rewrite Ec. }
      rewrite E in H. destruct H as [H | []]. congruence.
  Qed.

  Lemma all_outs_in_T X st T tg :
    WS X st T -> target wf = Some tg -> In tg (map fst T) ->
    forall a, In a apps -> In (a_out a) (map fst T).
  Proof.
    intros W Htg HtT.
    destruct (target_spec tg Htg) as [_ Hcons].
    assert (H : forall d a, In a apps -> length apps - rnk (a_out a) <= d -> In (a_out a) (map fst T)).
    { induction d as [|d IHd]; intros a Ha Hd.
      - destruct (Nat.eq_dec (a_out a) tg) as [-> | Hne]; [exact HtT|]. exfalso.
        assert (Ho : In (a_out a) (outs wf)) by (unfold outs; now apply in_map).
        specialize (Hcons _ Ho Hne). unfold consumed in Hcons. apply existsb_exists in Hcons.
        destruct Hcons as [b [Hb Hm]]. apply memb_In in Hm.
        destruct (app_parts wf Hwf b Hb) as [Hins [Hle _]]. destruct (Hins _ Hm) as [_ Hlt].
        unfold rnk, apps in *. lia.
      - destruct (Nat.eq_dec (a_out a) tg) as [-> | Hne]; [exact HtT|].
        assert (Ho : In (a_out a) (outs wf)) by (unfold outs; now apply in_map).
        specialize (Hcons _ Ho Hne). unfold consumed in Hcons. apply existsb_exists in Hcons.
        destruct Hcons as [b [Hb Hm]]. apply memb_In in Hm.
        destruct (app_parts wf Hwf b Hb) as [Hins [Hle _]]. destruct (Hins _ Hm) as [_ Hlt].
        assert (HbT : In (a_out b) (map fst T)).
        { apply IHd; [exact Hb|]. unfold rnk, apps in *. lia. }
        apply in_map_iff in HbT. destruct HbT as [[r0 Lb] [E HT]]. cbn in E. subst r0.
        apply (s_closed _ _ _ W (a_out b) Lb b HT); [|exact Hm].
        apply find_app_unique; [apply (nd_outs wf Hwf) | exact Hb]. }
    intros a Ha. apply (H (length apps) a Ha). lia.
  Qed.

  (* a new source node (graph.py:488 when the input is not used by the tool's expression) *)
  Lemma WS_add_src X st T id a :
    WS X st T -> memo_find (0, id) (g_memo st) = None ->
    In a apps -> In (a_out a) (map fst T) -> In id (own_ids a) ->
    WS X (set_memo (0, id) (g_next st) (snd (fresh st))) T.
  Proof.
    intros W Hmiss Ha HaT Hid.
    assert (Hinv := s_inv _ _ _ W). destruct Hinv as [I1 [I2 I3]].
    assert (Hp : mpres (g_memo st) (((0, id), g_next st) :: g_memo st)) by (apply mpres_set; auto).
    unfold set_memo, fresh. cbn [snd g_tr g_memo g_next].
    constructor; cbn [g_tr g_memo g_next].
    - unfold WInv. cbn [g_tr g_memo g_next]. split; [|split].
      + intros t Ht Hv. specialize (I1 t Ht Hv). lia.
      + intros k n [[= <- <-] | Hk]; [lia | specialize (I2 k n Hk); lia].
      + apply minj_set; [exact I3|]. right. intros k' Hk'. apply memo_find_In in Hk'.
        specialize (I2 _ _ Hk'). lia.
    - intros r L HT. destruct (s_memo _ _ _ W r L HT) as [e [He Hm]]. exists e. split; [exact He|].
      apply Hp, Hm.
    - apply (s_veq _ _ _ W).
    - apply (s_nd _ _ _ W).
    - intros x Hx. apply (s_lt _ _ _ W) in Hx. lia.
    - intros i n [[= <- <-] | Hk].
      + intros Hx. apply (s_lt _ _ _ W) in Hx. lia.
      + apply (s_src _ _ _ W i n Hk).
    - intros r L HT Hr. destruct (s_shape _ _ _ W r L HT Hr) as [a' [es [Hf [Hfe Hts]]]].
      exists a', es. split; [exact Hf|]. split; [exact Hfe|].
      eapply tshape_mono; [| |exact Hts].
      + intros k n Hl. eapply lfm_mono; eauto.
      + intros i n Hl. unfold anm in *. apply Hp, Hl.
    - apply (s_leaf _ _ _ W).
    - apply (s_closed _ _ _ W).
    - apply (s_ndT _ _ _ W).
    - intros k n [[= <- <-] | Hk] Htag; [cbn in Htag; lia|]. apply (s_keys _ _ _ W k n Hk Htag).
    - intros i n [[= <- <-] | Hk]; [|apply (s_own _ _ _ W i n Hk)].
      right. exists a. auto.
  Qed.

  Lemma WS_add_edge X st T sn rn :
    WS X st T -> sn < g_next st ->
    WS ((sn, p_from, rn) :: X) (upd_tr (add_from_r sn rn) st) T.
  Proof.
    intros W Hsn. unfold upd_tr.
    assert (Hin : forall t, vis t -> (In t (add_from_r sn rn (g_tr st)) <-> t = (sn, p_from, rn) \/ In t (g_tr st))).
    { intros t Hv. apply Hokr. exact Hv. }
    constructor; cbn [g_tr g_memo g_next]; try apply W.
    - destruct (s_inv _ _ _ W) as [I1 [I2 I3]]. unfold WInv. cbn [g_tr g_memo g_next].
      split; [|split; [exact I2 | exact I3]].
      intros t Ht Hv. apply (Hin t Hv) in Ht. destruct Ht as [-> | Ht].
      + exact Hsn.
      + apply (I1 t Ht Hv).
    - intros t Hv. rewrite (Hin t Hv), in_app_iff. cbn [In]. rewrite (s_veq _ _ _ W t Hv), in_app_iff.
      split; [intros [E | [H | H]] | intros [H | [E | H]]]; auto.
  Qed.

  Definition ind_edge (m : memo) (id : nat) (e : expr) (t : triple) : Prop :=
    exists sn rn, memo_find (0, id) m = Some sn /\ memo_find (key_of e) m = Some rn /\
                  t = (sn, p_from, rn).

  Lemma indir_ok : forall ind X st T,
    WS X st T ->
    (forall id e, In (id, e) ind -> exists a q, In a apps /\ In (a_out a) (map fst T) /\
       In id (own_ids a) /\ elookup q ex = Some e /\ In q (map fst T)) ->
    exists st' X', indir_loop add_from add_from_r false ind st = Some st' /\ WS X' st' T /\
      mpres (g_memo st) (g_memo st') /\
      (forall t, In t X' <-> In t X \/ exists id e, In (id, e) ind /\ ind_edge (g_memo st') id e t) /\
      (forall id e, In (id, e) ind -> exists sn rn, memo_find (0, id) (g_memo st') = Some sn /\
                                                 memo_find (key_of e) (g_memo st') = Some rn).
  Proof.
    induction ind as [|[id ref] ind IH]; intros X st T W Hind; cbn [indir_loop].
    - exists st, X. split; [reflexivity|]. split; [exact W|]. split; [apply mpres_refl|].
      split; [|intros id e []].
      intros t. split; [auto|]. intros [H | [id [e [[] _]]]]. exact H.
    - destruct (Hind id ref (or_introl eq_refl)) as [a [q [Ha [HaT [Hid [Hq HqT]]]]]].
      (* 488 *)
      assert (Hsrc : exists sn st1, add_expr add_from false (ESrc id) None st = Some (sn, st1) /\
                WS X st1 T /\ mpres (g_memo st) (g_memo st1) /\
                memo_find (0, id) (g_memo st1) = Some sn /\ sn < g_next st1 /\ g_tr st1 = g_tr st).
      { cbn [add_expr key_of]. destruct (memo_find (0, id) (g_memo st)) as [sn|] eqn:Em.
        - exists sn, st. split; [reflexivity|]. split; [exact W|]. split; [apply mpres_refl|].
          split; [exact Em|]. split; [|reflexivity].
          destruct (s_inv _ _ _ W) as [_ [I2 _]]. apply (I2 _ _ (memo_find_In _ _ _ Em)).
        - cbn [fresh fst snd].
          exists (g_next st), (set_memo (0, id) (g_next st) (snd (fresh st))).
          split; [reflexivity|]. split; [eapply WS_add_src; eauto|].
          split; [unfold set_memo; cbn [g_memo snd fresh]; apply mpres_set; auto|].
          split; [unfold set_memo; cbn [g_memo memo_find]; now rewrite key_eqb_refl|].
          split; [cbn; lia | reflexivity]. }
      destruct Hsrc as [sn [st1 [Ea [W1 [Hp1 [Hsn [Hlt Htr]]]]]]].
      rewrite Ea.
      (* 489 *)
      apply in_map_iff in HqT. destruct HqT as [[q0 Lq] [E HT]]. cbn in E. subst q0.
      destruct (s_memo _ _ _ W1 q Lq HT) as [e' [He' Hrn]]. rewrite Hq in He'. injection He' as <-.
      rewrite Hrn.
      (* 490 *)
      destruct (IH ((sn, p_from, lnode Lq) :: X) (upd_tr (add_from_r sn (lnode Lq)) st1) T)
        as [st' [X' [El [W' [Hp' [HX' Hall']]]]]].
      { now apply WS_add_edge. }
      { intros id' e' Hin. apply Hind. cbn. auto. }
      exists st', X'. split; [exact El|]. split; [exact W'|].
      split; [eapply mpres_trans; [exact Hp1 | exact Hp']|].
      split; [|intros id' e' [[= <- <-] | Hin];
               [exists sn, (lnode Lq); split; [apply Hp', Hsn | apply Hp', Hrn] | now apply Hall']].
      intros t. rewrite HX'. cbn [In]. split.
      + intros [[<- | H] | [id' [e' [Hin He']]]].
        * right. exists id, ref. split; [auto|]. exists sn, (lnode Lq).
          split; [apply Hp', Hsn|]. split; [apply Hp', Hrn | reflexivity].
        * auto.
        * right. exists id', e'. auto.
      + intros [H | [id' [e' [[[= <- <-] | Hin] He']]]].
        * auto.
        * left. left. destruct He' as [sn' [rn' [A [B ->]]]].
          rewrite (Hp' _ _ Hsn) in A. rewrite (Hp' _ _ Hrn) in B. congruence.
        * right. exists id', e'. auto.
  Qed.

  Lemma rank_src s : In s srcs -> rnk s = 0.
  Proof.
    intros Hs. unfold rnk, rank, wf_fuel. cbn [rk].
    destruct (find_app wf s) as [a|] eqn:Ef; [|reflexivity]. exfalso.
    destruct (find_app_some wf s a Ef) as [Ha Eo]. apply (src_not_out wf Hwf s Hs).
    rewrite <- Eo. unfold outs. now apply in_map.
  Qed.

  Lemma inputs_ok : forall ss X st T,
    WS X st T -> (forall s, In s ss -> In s srcs) ->
    exists ns st' T', inputs_loop add_from false wf ex (wf_fuel wf) ss st = Some (ns, st') /\
      WS X st' T' /\ incl T T' /\ mpres (g_memo st) (g_memo st') /\
      (forall s, In s ss -> In s (map fst T')) /\
      Forall2 (fun s n => memo_find (0, s) (g_memo st') = Some n) ss ns.
  Proof.
    induction ss as [|s ss IH]; intros X st T W Hss; cbn [inputs_loop].
    - exists [], st, T. split; [reflexivity|]. split; [exact W|]. split; [apply incl_refl|].
      split; [apply mpres_refl|]. split; [intros s []|constructor].
    - assert (Hs : In s srcs) by (apply Hss; cbn; auto).
      assert (Hdom : In s (map fst ex)).
      { eapply elookup_dom. apply (src_expr s Hs). }
      destruct (w2t_ok (wf_fuel wf) X s st T W Hdom) as [n [st1 [T1 [Ew [W1 [[L [HL Hn]] [Hi1 [_ [Hp1 _]]]]]]]]].
      { rewrite (rank_src s Hs). unfold wf_fuel. lia. }
      rewrite Ew.
      destruct (IH X st1 T1 W1) as [ns [st2 [T2 [El [W2 [Hi2 [Hp2 [Hin2 Hf2]]]]]]]].
      { intros s' Hs'. apply Hss. cbn. auto. }
      rewrite El. exists (n :: ns), st2, T2. split; [reflexivity|]. split; [exact W2|].
      split; [eapply incl_tran; eauto|]. split; [eapply mpres_trans; eauto|]. split.
      + intros s' [<- | Hs']; [|now apply Hin2]. apply in_map_iff. exists (s, L). split; [reflexivity|].
        apply Hi2, HL.
      + constructor; [|exact Hf2]. apply Hp2.
        destruct (s_memo _ _ _ W1 s L HL) as [e [He Hm]]. rewrite (src_expr s Hs) in He.
        injection He as <-. cbn [key_of] in Hm. now rewrite Hn in Hm.
  Qed.

  Lemma rank_dom r : In r (map fst ex) -> rnk r < wf_fuel wf.
  Proof.
    intros Hr. destruct Hex as [_ [_ [X2 _]]]. destruct (X2 r Hr) as [Hs | Ho].
    - rewrite (rank_src r Hs). unfold wf_fuel. lia.
    - destruct (out_app wf Hwf r Ho) as [a [Ha [Eo _]]].
      destruct (app_parts wf Hwf a Ha) as [_ [Hle _]]. rewrite Eo in Hle.
      unfold rnk, wf_fuel. lia.
  Qed.

  (* the all-resources pass of the repaired code (for wfnode in exprs: wfnode2tfmnode(wfnode)):
     resources not visited so far (e.g. sources nobody uses) get their nodes now *)
  Lemma result_map_t_okW : forall tab X st T,
    WS X st T -> (forall r, In r (map fst tab) -> In r (map fst ex)) ->
    exists l st' T', result_map_t add_from false wf ex (wf_fuel wf) tab st = Some (l, st') /\
      WS X st' T' /\ incl T T' /\ mpres (g_memo st) (g_memo st') /\
      (forall r, In r (map fst tab) -> In r (map fst T')).
  Proof.
    induction tab as [|[r e] tab IH]; intros X st T W Hd; cbn [result_map_t].
    - exists [], st, T. split; [reflexivity|]. split; [exact W|]. split; [apply incl_refl|].
      split; [apply mpres_refl | intros r []].
    - assert (Hr : In r (map fst ex)) by (apply Hd; cbn; auto).
      destruct (w2t_ok (wf_fuel wf) X r st T W Hr (rank_dom r Hr))
        as [n [st1 [T1 [Ew [W1 [[L [HL _]] [Hi1 [_ [Hp1 _]]]]]]]]].
      rewrite Ew.
      destruct (IH X st1 T1 W1) as [l [st2 [T2 [El [W2 [Hi2 [Hp2 Hin2]]]]]]].
      { intros r' Hr'. apply Hd. cbn. auto. }
      rewrite El. exists ((r, n) :: l), st2, T2. split; [reflexivity|]. split; [exact W2|].
      split; [eapply incl_tran; eauto|]. split; [eapply mpres_trans; eauto|].
      intros r' [<- | Hr']; [|now apply Hin2].
      apply in_map_iff. exists (r, L). split; [reflexivity | apply Hi2, HL].
  Qed.

  Lemma result_map_ok m : forall tab,
    (forall r e, In (r, e) tab -> exists n, memo_find (key_of e) m = Some n) ->
    exists l, result_map tab m = Some l /\ map fst l = map fst tab /\
      forall r n, In (r, n) l -> exists e, In (r, e) tab /\ memo_find (key_of e) m = Some n.
  Proof.
    induction tab as [|[r e] tab IH]; intros H; cbn [result_map].
    - exists []. split; [reflexivity|]. split; [reflexivity | intros r n []].
    - destruct (H r e (or_introl eq_refl)) as [n Hn]. rewrite Hn.
      destruct IH as [l [El [Ef Hl]]]; [intros r' e' Hin; apply (H r' e'); cbn; auto|].
      rewrite El. exists ((r, n) :: l). split; [reflexivity|]. split; [cbn; now rewrite Ef|].
      intros r' n' [[= <- <-] | Hin].
      + exists e. cbn. auto.
      + destruct (Hl r' n' Hin) as [e' [A B]]. exists e'. cbn. auto.
  Qed.
End S2.

(* ======================================================================== *)
(* The theorem *)

Lemma assoc_n_In {A} r (l : list (nat * A)) v : assoc_n r l = Some v -> In (r, v) l.
Proof.
  induction l as [|[r' v'] l IH]; cbn [assoc_n]; [discriminate|].
  destruct (Nat.eqb r r') eqn:E.
  - intros [= ->]. apply Nat.eqb_eq in E. subst. cbn. auto.
  - intros H. cbn. auto.
Qed.

Lemma In_assoc_n {A} r (l : list (nat * A)) v : NoDup (map fst l) -> In (r, v) l -> assoc_n r l = Some v.
Proof.
  induction l as [|[r' v'] l IH]; cbn [assoc_n map fst]; [intros _ []|].
  intros Hnd [[= -> ->] | H].
  - now rewrite Nat.eqb_refl.
  - apply NoDup_cons_iff in Hnd. destruct Hnd as [Hr Hnd].
    destruct (Nat.eqb r r') eqn:E; [|auto].
    apply Nat.eqb_eq in E. subst. exfalso. apply Hr. apply in_map_iff. exists (r', v). auto.
Qed.

Lemma NoDup_snd_of_inj {A B} (l : list (A * B)) :
  NoDup (map fst l) -> (forall a a' b, In (a, b) l -> In (a', b) l -> a = a') -> NoDup (map snd l).
Proof.
  induction l as [|[a b] l IH]; cbn [map fst snd]; intros Hnd Hinj; [constructor|].
  apply NoDup_cons_iff in Hnd. destruct Hnd as [Ha Hnd]. constructor.
  - intros Hb. apply in_map_iff in Hb. destruct Hb as [[a' b'] [E Hin]]. cbn in E. subst b'.
    assert (a = a') by (apply (Hinj a a' b); cbn; auto). subst a'.
    apply Ha. apply in_map_iff. exists (a, b). auto.
  - apply IH; [exact Hnd|]. intros a1 a2 b0 H1 H2. apply (Hinj a1 a2 b0); cbn; auto.
Qed.

Lemma Forall2_mono_in {A B} (R R' : A -> B -> Prop) l1 l2 :
  (forall a b, In a l1 -> R a b -> R' a b) -> Forall2 R l1 l2 -> Forall2 R' l1 l2.
Proof.
  intros H F. induction F; constructor.
  - apply H; cbn; auto.
  - apply IHF. intros a b Ha. apply H. cbn. auto.
Qed.

(* graph.py:512-514 as repaired: when every resource of the table already has a node,
   the pass through wfnode2tfmnode is a sequence of memo hits and returns the dict the
   pinned comprehension returns, leaving the graph as it is *)
Lemma result_map_t_hit add_from pinned wf ex fuel st : forall tab m,
  (forall r e, In (r, e) tab -> elookup r ex = Some e) ->
  result_map tab (g_memo st) = Some m ->
  result_map_t add_from pinned wf ex fuel tab st = Some (m, st).
Proof.
  induction tab as [|[r e] tab IH]; intros m Hl; cbn [result_map result_map_t].
  - intros [= <-]. reflexivity.
  - destruct (memo_find (key_of e) (g_memo st)) as [n|] eqn:En; [|discriminate].
    destruct (result_map tab (g_memo st)) as [l|] eqn:El; [|discriminate].
    intros [= <-].
    assert (Hw : w2t add_from pinned wf ex fuel r st = Some (n, st)).
    { destruct fuel; cbn [w2t]; rewrite (Hl r e (or_introl eq_refl)), En; reflexivity. }
    rewrite Hw. rewrite (IH l); [reflexivity | | reflexivity].
    intros r' e' Hin. apply Hl. cbn. auto.
Qed.

Theorem add_workflow_plugged add_from add_from_r :
  add_from_ok add_from -> add_from_ok add_from_r ->
  forall pt wf, wf_okb wf = true ->
  exists res T sg tg,
    add_workflow add_from add_from_r false pt wf = Some res /\
    target wf = Some tg /\
    (forall r, In r (map fst (r_map res)) <-> In r (w_srcs wf) \/ In r (outs wf)) /\
    NoDup (map fst (r_map res)) /\ NoDup (map snd (r_map res)) /\
    (forall r, In r (map fst T) <-> In r (w_srcs wf) \/ In r (outs wf)) /\
    NoDup (map fst T) /\
    (forall r L, In (r, L) T -> rho res r = Some (lnode L)) /\
    (forall s L, In (s, L) T -> In s (w_srcs wf) -> exists n, L = LLeaf n) /\
    (forall a L, In a (w_apps wf) -> In (a_out a, L) T ->
       tshape (feed wf pt res sg a) sg (a_tx a) L) /\
    NoDup (namesT T) /\
    (forall i n, sg i = Some n -> ~ In n (namesT T)) /\
    (forall s, In s (w_srcs wf) -> sg s = rho res s) /\
    (forall t, vis t ->
       (In t (r_tr res) <-> In t (flowT T) \/
          (pt = false /\ exists a k q sn rn, In a (w_apps wf) /\ nth_error (a_ins a) k = Some q /\
             ~ In q (w_srcs wf) /\ sg (nth k (a_ind a) 0) = Some sn /\ rho res q = Some rn /\
             t = (sn, p_from, rn)))) /\
    Forall2 (fun s n => rho res s = Some n) (w_srcs wf) (r_inputs res) /\
    rho res tg = Some (r_output res).
Proof.
  intros Hok Hokr pt wf Hwf.
  destruct (wf_parts wf Hwf) as [_ [_ [_ [tg Htg]]]].
  destruct (target_spec wf tg Htg) as [Htgo _].
  set (srcs := w_srcs wf). set (apps := w_apps wf).
  set (E0 := mkE (map (fun s => (s, ESrc s)) srcs) []).
  assert (Hdom0 : map fst (e_tab E0) = srcs).
  { cbn. rewrite map_map. cbn. apply map_id. }
  assert (Hex0 : ExOK wf pt (e_tab E0)).
  { split; [rewrite Hdom0; apply (nd_srcs wf Hwf)|]. split; [|split].
    - intros s Hs. apply In_elookup; [rewrite Hdom0; apply (nd_srcs wf Hwf)|].
      cbn. apply in_map_iff. exists s. auto.
    - intros r Hr. rewrite Hdom0 in Hr. auto.
    - intros r e He Hns. exfalso. apply Hns. apply elookup_dom in He. now rewrite Hdom0 in He. }
  assert (Hind0 : IndOK wf pt E0).
  { intros id e. cbn [e_ind E0]. split; [intros []|].
    intros [_ [a [k [q [Hd [Ha _]]]]]]. rewrite Hdom0 in Hd. exfalso.
    apply (src_not_out wf Hwf _ Hd). unfold outs. now apply in_map. }
  assert (Hrk : rank wf tg < wf_fuel wf).
  { destruct (out_app wf Hwf tg Htgo) as [a [Ha [Eo _]]].
    destruct (app_parts wf Hwf a Ha) as [_ [Hle _]]. rewrite Eo in Hle. unfold wf_fuel. lia. }
  destruct (w2e_ok wf pt Hwf (wf_fuel wf) tg E0 Hex0 Hind0 (or_intror Htgo) Hrk)
    as [e1 [E1 [Ew [Hex [Hind [_ [Hltg _]]]]]]].
  set (ex := e_tab E1) in *.
  assert (W0 : WS wf pt ex [] g_empty []).
  { constructor; cbn.
    - split; [intros t0 []|]. split; [intros k n []|]. intros k k' n H. discriminate H.
    - intros r L [].
    - intros t0 _. tauto.
    - constructor.
    - intros x [].
    - intros i n [].
    - intros r L [].
    - intros r L [].
    - intros r L a [].
    - constructor.
    - intros k n [].
    - intros i n []. }
  destruct (w2t_ok add_from Hok wf pt Hwf ex Hex (wf_fuel wf) [] tg g_empty [] W0
              (elookup_dom _ _ _ Hltg) Hrk)
    as [res0 [st1 [T1 [Et [W1 [[Ltg [HLtg Hres0]] _]]]]]].
  (* the all-resources pass *)
  destruct (result_map_t_okW add_from Hok wf pt Hwf ex Hex ex [] st1 T1 W1 (fun r H => H))
    as [l1 [st1p [T1p [Epass [W1p [Hi1p _]]]]]].
  apply Hi1p in HLtg.
  assert (Hall1 : forall a, In a apps -> In (a_out a) (map fst T1p)).
  { apply (all_outs_in_T wf pt Hwf ex [] st1p T1p tg W1p Htg).
    apply in_map_iff. exists (tg, Ltg). auto. }
  assert (Hlook : forall X st T r, WS wf pt ex X st T -> In r (map fst T) ->
            exists e n, elookup r ex = Some e /\ memo_find (key_of e) (g_memo st) = Some n).
  { intros X st T r W HT. apply in_map_iff in HT. destruct HT as [[r0 L] [E HT]]. cbn in E. subst r0.
    destruct (s_memo _ _ _ _ _ _ W r L HT) as [e [He Hm]]. eauto. }
  destruct (indir_ok add_from add_from_r Hokr wf pt ex (e_ind E1) [] st1p T1p W1p)
    as [st2 [X2 [Ei [W2 [Hp2 [HX2 Hall2]]]]]].
  { intros id e Hin. apply Hind in Hin. destruct Hin as [_ [a [k [q [Hd [Ha [Hk [Hq [Hi He]]]]]]]]].
    exists a, q. split; [exact Ha|]. split; [apply Hall1, Ha|]. split.
    - unfold own_ids. apply in_app_iff. right. eapply nth_error_In; eauto.
    - split; [exact He|].
      destruct (app_parts wf Hwf a Ha) as [Hins _]. destruct (Hins q (nth_error_In _ _ Hk)) as [[F | Ho] _];
        [contradiction|].
      destruct (out_app wf Hwf q Ho) as [aq [Haq [Eoq _]]]. rewrite <- Eoq. apply Hall1, Haq. }
  destruct (inputs_ok add_from Hok wf pt Hwf ex Hex srcs X2 st2 T1p W2 (fun s H => H))
    as [ins [st3 [T3 [El [W3 [Hi3 [Hp3 [Hs3 Hf3]]]]]]]].
  destruct Hex as [X0 [X1 [X2' X3]]].
  assert (HdomT3 : forall r, In r (map fst T3) <-> In r srcs \/ In r (outs wf)).
  { intros r. split.
    - intros HT. destruct (Hlook _ _ _ r W3 HT) as [e [n [He _]]]. apply X2'. eapply elookup_dom; eauto.
    - intros [Hs | Ho]; [now apply Hs3|].
      destruct (out_app wf Hwf r Ho) as [a [Ha [Eo _]]]. rewrite <- Eo.
      specialize (Hall1 a Ha). apply in_map_iff in Hall1. destruct Hall1 as [[r0 L] [E HT]].
      apply in_map_iff. exists (r0, L). split; [exact E | apply Hi3, HT]. }
  assert (Hdomex : forall r, In r (map fst ex) <-> In r srcs \/ In r (outs wf)).
  { intros r. split; [apply X2'|]. intros H. apply HdomT3 in H.
    destruct (Hlook _ _ _ r W3 H) as [e [n [He _]]]. eapply elookup_dom; eauto. }
  destruct (result_map_ok (g_memo st3) ex) as [m [Em [Hmf Hm]]].
  { intros r e Hin. assert (HT : In r (map fst T3)).
    { apply HdomT3, Hdomex. apply in_map_iff. exists (r, e). auto. }
    destruct (Hlook _ _ _ r W3 HT) as [e' [n [He' Hn]]].
    rewrite (In_elookup r e ex X0 Hin) in He'. injection He' as <-. eauto. }
  unfold add_workflow. fold srcs. fold E0. rewrite Htg, Ew. fold ex. rewrite Et, Epass.
  cbn [option_map snd]. rewrite Ei. fold srcs.
  rewrite El, Em.
  set (res := mkRes (g_tr st3) ins res0 m).
  assert (Hndm : NoDup (map fst m)) by (rewrite Hmf; exact X0).
  assert (Hrho : forall r e n, elookup r ex = Some e -> memo_find (key_of e) (g_memo st3) = Some n ->
            rho res r = Some n).
  { intros r e n He Hn. unfold rho. cbn [r_map res]. apply In_assoc_n; [exact Hndm|].
    assert (Hr : In r (map fst m)) by (rewrite Hmf; eapply elookup_dom; eauto).
    apply in_map_iff in Hr. destruct Hr as [[r0 n0] [E Hin]]. cbn in E. subst r0.
    destruct (Hm r n0 Hin) as [e' [Hin' Hn']].
    rewrite (In_elookup r e' ex X0 Hin') in He. injection He as <-. congruence. }
  assert (HrhoT : forall r L, In (r, L) T3 -> rho res r = Some (lnode L)).
  { intros r L HT. destruct (s_memo _ _ _ _ _ _ W3 r L HT) as [e [He Hn]]. eapply Hrho; eauto. }
  exists res, T3, (anm (g_memo st3)), tg.
  split; [reflexivity|]. split; [reflexivity|].
  split; [intros r; cbn [r_map res]; rewrite Hmf; apply Hdomex|].
  split; [exact Hndm|]. split.
  { (* different resources, different nodes *)
    cbn [r_map res]. apply NoDup_snd_of_inj; [exact Hndm|].
    intros r r' n H1 H2. destruct (Hm r n H1) as [e [Hin Hn]]. destruct (Hm r' n H2) as [e' [Hin' Hn']].
    apply (key_inj wf pt Hwf ex (conj X0 (conj X1 (conj X2' X3))) r r' e e');
      [apply In_elookup; auto | apply In_elookup; auto |].
    destruct (s_inv _ _ _ _ _ _ W3) as [_ [_ I3]]. apply (I3 _ _ n Hn Hn'). }
  split; [exact HdomT3|]. split; [apply (s_ndT _ _ _ _ _ _ W3)|]. split; [exact HrhoT|].
  split; [apply (s_leaf _ _ _ _ _ _ W3)|]. split.
  { (* the tree of a tool application *)
    intros a L Ha HT.
    assert (Hns : ~ In (a_out a) srcs).
    { intros F. apply (src_not_out wf Hwf _ F). unfold outs. now apply in_map. }
    destruct (s_shape _ _ _ _ _ _ W3 (a_out a) L HT Hns) as [a' [es [Hf [Hfe Hts]]]].
    rewrite (find_app_unique wf a (nd_outs wf Hwf) Ha) in Hf. injection Hf as <-.
    eapply tshape_mono; [| |exact Hts]; [|auto].
    intros k n Hl. unfold lfm in Hl. destruct (nth_error es k) as [e0|] eqn:Ek; [|discriminate].
    assert (Hlen : length es = length (a_ins a)) by (eapply feeds_length; eauto).
    destruct (nth_error (a_ins a) k) as [q|] eqn:Eq.
    2:{ apply nth_error_None in Eq. assert (k < length es) by (apply nth_error_Some; congruence). lia. }
    destruct (feeds_nth wf pt ex _ _ _ k q Hfe Eq) as [eq [Heq Hn]].
    rewrite Ek in Hn. injection Hn as ->. unfold feed. rewrite Eq.
    destruct (pt || memb q (w_srcs wf)).
    - eapply Hrho; eauto.
    - exact Hl. }
  split; [apply (s_nd _ _ _ _ _ _ W3)|]. split.
  { intros i n Hi. apply (s_src _ _ _ _ _ _ W3 i n). now apply memo_find_In. }
  split.
  { intros s Hs. specialize (Hs3 s Hs). apply in_map_iff in Hs3. destruct Hs3 as [[s0 L] [E HT]].
    cbn in E. subst s0. rewrite (HrhoT s L HT).
    destruct (s_memo _ _ _ _ _ _ W3 s L HT) as [e [He Hn]]. rewrite (X1 s Hs) in He. injection He as <-.
    exact Hn. }
  split.
  { (* the graph *)
    intros t Hv. cbn [r_tr res]. rewrite (s_veq _ _ _ _ _ _ W3 t Hv), in_app_iff, HX2. cbn [In].
    split.
    - intros [H | [[] | [id [e [Hin [sn [rn [Hsn [Hrn ->]]]]]]]]]; [auto|]. right.
      apply Hind in Hin. destruct Hin as [Hp [a [k [q [Hd [Ha [Hk [Hq [Hi He]]]]]]]]].
      split; [exact Hp|]. exists a, k, q, sn, rn. split; [exact Ha|]. split; [exact Hk|].
      split; [exact Hq|]. split.
      + rewrite (nth_error_nth _ _ 0 Hi). unfold anm. apply Hp3, Hsn.
      + split; [|reflexivity]. eapply Hrho; [exact He | apply Hp3, Hrn].
    - intros [H | [Hp [a [k [q [sn [rn [Ha [Hk [Hq [Hsn [Hrn ->]]]]]]]]]]]]; [auto|]. right. right.
      destruct (app_parts wf Hwf a Ha) as [Hins [_ [_ [_ Hlen]]]].
      destruct (Hins q (nth_error_In _ _ Hk)) as [[F | Ho] _]; [contradiction|].
      assert (HqT : In q (map fst T3)) by (apply HdomT3; auto).
      destruct (Hlook _ _ _ q W3 HqT) as [e [n [He Hn]]].
      assert (Hkl : k < length (a_ind a)).
      { rewrite Hlen. apply nth_error_Some. congruence. }
      assert (Hin : In (nth k (a_ind a) 0, e) (e_ind E1)).
      { apply Hind. split; [exact Hp|]. exists a, k, q. split.
        - apply Hdomex. right. unfold outs. now apply in_map.
        - split; [exact Ha|]. split; [exact Hk|]. split; [exact Hq|]. split; [|exact He].
          now apply nth_error_nth'. }
      exists (nth k (a_ind a) 0), e. split; [exact Hin|].
      destruct (Hall2 _ _ Hin) as [sn' [rn' [A B]]].
      exists sn', rn'. split; [exact A|]. split; [exact B|].
      unfold anm in Hsn. rewrite (Hp3 _ _ A) in Hsn. injection Hsn as <-.
      rewrite (Hrho q e rn' He (Hp3 _ _ B)) in Hrn. now injection Hrn as <-. }
  split.
  { cbn [r_inputs res]. eapply Forall2_mono_in; [|exact Hf3]. intros s n Hs Hn. cbn beta in Hn.
    apply (Hrho s (ESrc s) n (X1 s Hs)). exact Hn. }
  cbn [r_output res]. rewrite <- Hres0. apply HrhoT. apply Hi3, HLtg.
Qed.
