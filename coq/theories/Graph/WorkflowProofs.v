(* Graph/WorkflowProofs.v -- add_workflow (model, Graph/Workflow.v) builds
   exactly the tool trees plugged together, for every well-formed workflow.

   Part 1  add_expr on an expression some of whose sub-expressions are already
           in the memo expr_nodes (the situation add_workflow creates): the new
           triples are [flow L] for the application tree L whose leaves are the
           memoised nodes.  Generalises C08's add_expr_step, whose invariant
           does not allow memoised operator applications; reuses its lemmas
           about [flow] and [wire].
   Part 2  step 1 of add_workflow (expressions for the resources)
   Part 3  step 2 (nodes for the resources), the final loops, the theorems  *)
From Coq Require Import List Arith Bool Lia.
Import ListNotations.
From TF Require Import Graph.AddExpr Graph.AddExprSpec Graph.AddExprProofs
  Graph.Workflow Graph.WorkflowSpec.

(* ======================================================================== *)
(* Part 1 *)

Definition hit (m : memo) (e : expr) : bool :=
  match memo_find (key_of e) m with Some _ => true | None => false end.

(* an operator application none of whose function parts is in the memo *)
Fixpoint spine_miss (m : memo) (e : expr) : bool :=
  match e with
  | EOp _ _ => negb (hit m e)
  | EApp _ f _ _ => negb (hit m e) && spine_miss m f
  | _ => false
  end.

(* the expressions add_workflow hands to add_expr: below a memoised
   sub-expression nothing is looked at; otherwise every application is headed
   by an operation, function-typed arguments are (new) operations or partial
   applications, data arguments are anything in the domain; no abstractions *)
Fixpoint wdom (m : memo) (e : expr) : bool :=
  match e with
  | ESrc _ => true
  | EOp _ _ => true
  | EApp _ f x fn =>
      hit m e || (spine_miss m f && wdom m f &&
                  (if fn then spine_miss m x && wdom m x else wdom m x))
  | _ => hit m e
  end.

(* L is the application tree of e down to the memoised sub-expressions *)
Inductive wshape (m : memo) : expr -> lx -> Prop :=
| ws_hit e n : memo_find (key_of e) m = Some n -> wshape m e (LLeaf n)
| ws_op i o c : wshape m (EOp i o) (LSpine c o [])
| ws_data i f x c o args Lx :
    wshape m f (LSpine c o args) -> wshape m x Lx ->
    wshape m (EApp i f x false) (LSpine c o (args ++ [(AData, Lx)]))
| ws_fun i f x c o args iN cx ox argsx :
    wshape m f (LSpine c o args) -> wshape m x (LSpine cx ox argsx) ->
    wshape m (EApp i f x true) (LSpine c o (args ++ [(AFun iN, LSpine cx ox argsx)])).

(* the memo grows by sources only *)
Definition mext (m m' : memo) : Prop :=
  (forall k n, memo_find k m = Some n -> memo_find k m' = Some n) /\
  (forall k, fst k <> 0 -> memo_find k m' = memo_find k m).

Lemma mext_refl m : mext m m.
Proof. split; auto. Qed.

Lemma mext_trans m1 m2 m3 : mext m1 m2 -> mext m2 m3 -> mext m1 m3.
Proof.
  intros [A1 B1] [A2 B2]. split.
  - intros k n H. apply A2, A1, H.
  - intros k Hk. rewrite (B2 k Hk). apply B1, Hk.
Qed.

Lemma hit_mono m m' e : mext m m' -> hit m e = true -> hit m' e = true.
Proof.
  intros [A _]. unfold hit. destruct (memo_find (key_of e) m) as [n|] eqn:E; [|discriminate].
  intros _. now rewrite (A _ _ E).
Qed.

Lemma hit_ext m m' e : mext m m' -> fst (key_of e) <> 0 -> hit m' e = hit m e.
Proof. intros [_ B] Hk. unfold hit. now rewrite (B _ Hk). Qed.

Lemma spine_miss_ext m m' e : mext m m' -> spine_miss m' e = spine_miss m e.
Proof.
  intros Hm. induction e as [i | v | i o | i f IHf x IHx fn | j ps b IHb]; cbn [spine_miss]; auto.
  - rewrite (hit_ext m m') by (auto; cbn; discriminate). reflexivity.
  - rewrite (hit_ext m m') by (auto; cbn; discriminate). now rewrite IHf.
Qed.

Lemma wdom_ext m m' e : mext m m' -> wdom m e = true -> wdom m' e = true.
Proof.
  intros Hm. induction e as [i | v | i o | i f IHf x IHx fn | j ps b IHb]; cbn [wdom]; auto.
  - apply hit_mono, Hm.
  - intros H. apply orb_true_iff in H. apply orb_true_iff. destruct H as [H | H].
    + left. now apply (hit_mono m m').
    + right. apply andb_true_iff in H. destruct H as [H Hx].
      apply andb_true_iff in H. destruct H as [Hsf Hwf].
      rewrite (spine_miss_ext m m') by exact Hm. rewrite Hsf, (IHf Hwf). cbn [andb].
      destruct fn.
      * apply andb_true_iff in Hx. destruct Hx as [Hsx Hwx].
        rewrite (spine_miss_ext m m') by exact Hm. now rewrite Hsx, (IHx Hwx).
      * now apply IHx.
  - apply hit_mono, Hm.
Qed.

Lemma spine_miss_nohit m e : spine_miss m e = true -> hit m e = false.
Proof.
  destruct e; cbn [spine_miss]; try discriminate.
  - intros H. now apply negb_true_iff in H.
  - intros H. apply andb_true_iff in H. destruct H as [H _]. now apply negb_true_iff in H.
Qed.

Lemma spine_miss_not_abs m e : spine_miss m e = true -> is_abs e = false.
Proof. destruct e; cbn; auto; discriminate. Qed.

Lemma wshape_mono m m' e L :
  (forall k n, memo_find k m = Some n -> memo_find k m' = Some n) ->
  wshape m e L -> wshape m' e L.
Proof.
  intros Hm H. induction H.
  - apply ws_hit. auto.
  - apply ws_op.
  - apply ws_data; auto.
  - apply ws_fun; auto.
Qed.

Lemma wshape_okb m e L : wshape m e L -> okb L = true.
Proof.
  intros H. induction H; try reflexivity.
  - rewrite okb_snoc, IHwshape1. cbn [okarg fst snd andb]. exact IHwshape2.
  - rewrite okb_snoc, IHwshape1. cbn [okarg fst snd andb]. exact IHwshape2.
Qed.

(* different keys have different nodes *)
Definition minj (m : memo) : Prop :=
  forall k k' n, memo_find k m = Some n -> memo_find k' m = Some n -> k = k'.

Definition WInv (st : gstate) : Prop :=
  (forall t, In t (g_tr st) -> vis t -> t_subj t < g_next st) /\
  (forall k n, In (k, n) (g_memo st) -> n < g_next st) /\
  minj (g_memo st).

Record PostW (e : expr) (c : node) (st : gstate) (L : lx) (st' : gstate) : Prop := mkPostW {
  q_shape : wshape (g_memo st') e L;
  q_veq : veq (g_tr st') (flow L ++ g_tr st);
  q_names : forall x, In x (names L) -> x = c \/ (g_next st <= x < g_next st');
  q_spine : spine_miss (g_memo st) e = true -> exists o args, L = LSpine c o args;
  q_nodup : NoDup (names L);
  q_inv : WInv st';
  q_next : g_next st <= g_next st';
  q_ext : mext (g_memo st) (g_memo st');
  q_new : forall k n, In (k, n) (g_memo st') ->
            In (k, n) (g_memo st) \/
            (fst k = 0 /\ (n = c \/ g_next st <= n) /\ ~ In n (names L))
}.

Lemma WInv_fresh st : WInv st -> WInv (snd (fresh st)).
Proof.
  intros [I1 [I2 I3]]. unfold fresh. cbn [snd]. split; [|split]; cbn [g_tr g_memo g_next].
  - intros t Ht Hv. specialize (I1 t Ht Hv). lia.
  - intros k n Hk. specialize (I2 k n Hk). lia.
  - exact I3.
Qed.

Lemma cur_ok_freshW st : WInv st -> cur_ok (g_next st) (snd (fresh st)).
Proof.
  intros [I1 [I2 I3]]. unfold fresh, cur_ok. cbn [snd g_tr g_memo g_next]. split; [lia|]. split.
  - intros t Ht Hv. specialize (I1 t Ht Hv). lia.
  - intros k Hk. specialize (I2 k _ Hk). lia.
Qed.

Lemma post_hitW e c st n :
  WInv st -> memo_find (key_of e) (g_memo st) = Some n -> PostW e c st (LLeaf n) st.
Proof.
  intros Hinv Hm. constructor.
  - now apply ws_hit.
  - cbn [flow app]. apply veq_refl.
  - intros x [].
  - intros Hs. apply spine_miss_nohit in Hs. unfold hit in Hs. rewrite Hm in Hs. discriminate.
  - constructor.
  - exact Hinv.
  - lia.
  - apply mext_refl.
  - auto.
Qed.

Section Part1.
  Variable add_from : node -> node -> list triple -> list triple.
  Hypothesis Hok : add_from_ok add_from.

  (* a data argument that is a memoised node (possibly with internal nodes of
     its own, which C08's invariant excludes): only the edge to it and the
     edges from the step's internal nodes to it are added *)
  Lemma wire_data_leaf c o args n G tr0 :
    (forall j, In (c, p_internal, j) G <-> In j (flat_map aint args)) ->
    veq G (flow (LSpine c o args) ++ tr0) ->
    veq (wire add_from false c n None G) (flow (LSpine c o (args ++ [(AData, LLeaf n)])) ++ tr0).
  Proof.
    intros Hci HG t Hv.
    rewrite (wire_in add_from Hok) by exact Hv.
    rewrite in_app_iff, In_flow_snoc. rewrite (HG t Hv), in_app_iff.
    unfold arg_edges, aint, anode. cbn [fst snd kint lnode flow In].
    split.
    - intros [[H | H] | [H | [H | [H | H]]]].
      + left. left. exact H.
      + right. exact H.
      + left. right. left. left. symmetry. exact H.
      + destruct H as [iN [j [E _]]]. discriminate E.
      + destruct H as [j [Hj [_ ->]]]. apply Hci in Hj. apply in_flat_map in Hj.
        destruct Hj as [b [Hb Hj]]. left. right. right. right. left. exists b, j. auto.
      + destruct H as [iN [y [E _]]]. discriminate E.
    - intros [[H | [H | [H | [H | H]]]] | H].
      + left. left. exact H.
      + destruct H as [<- | []]. right. left. reflexivity.
      + destruct H as [i [b [[] _]]].
      + destruct H as [b [i [Hb [Hi ->]]]]. right. right. right. left. exists i.
        split; [|split; [discriminate | reflexivity]]. apply Hci. apply in_flat_map. exists b. auto.
      + destruct H.
      + left. right. exact H.
  Qed.

  Lemma wire_internalW f x ci g s j :
    In (s, p_internal, j) (wire add_from false f x ci g) <-> In (s, p_internal, j) g.
  Proof. apply (wire_internal add_from Hok). Qed.

  (* everything after the recursive call for the argument *)
  Lemma app_tailW i f x fn c st o args st1 (a : akind * lx) xc ss se G :
    cur_ok c st -> WInv st ->
    PostW f c st (LSpine c o args) st1 ->
    PostW x xc ss (snd a) se ->
    okarg a = true -> (forall j, fst a <> AAbs j) ->
    g_tr ss = map (fun j => (c, p_internal, j)) (aint a) ++ g_tr st1 ->
    g_memo ss = g_memo st1 ->
    g_next st1 <= xc -> xc < g_next ss ->
    (forall j, In j (aint a) -> j = g_next st1 /\ j < xc) ->
    veq G (pre_from a ++ g_tr se) ->
    wshape (g_memo se) (EApp i f x fn) (LSpine c o (args ++ [a])) ->
    PostW (EApp i f x fn) c st (LSpine c o (args ++ [a]))
      (mkG (wire add_from false c (anode a) (ci_of a) G) (g_memo se) (g_next se)).
  Proof.
    intros Hcur Hinv Pf Px Hoka Hnoabs Htr Hmemo Hxc1 Hxc2 Hai HG Hsh'.
    destruct Pf as [Fsh Fveq Fnames Fspine Fnd Finv Fnext Fext Fnew].
    destruct Px as [Xsh Xveq Xnames Xspine Xnd Xinv Xnext Xext Xnew].
    destruct Hcur as [Hc1 [Hc2 Hc3]].
    destruct Hinv as [I1 [I2 I3]].
    assert (Hokf : okb (LSpine c o args) = true) by (eapply wshape_okb; eauto).
    assert (Hokx : okb (snd a) = true) by (eapply wshape_okb; eauto).
    assert (HnF : forall y, In y (names (LSpine c o args)) -> y < g_next st1).
    { intros y Hy. destruct (Fnames y Hy); lia. }
    assert (HnX : forall y, In y (names (snd a)) -> xc <= y /\ y < g_next se).
    { intros y Hy. destruct (Xnames y Hy); lia. }
    assert (Hkint : forall y, In y (kint (fst a)) -> y = g_next st1 /\ y < xc).
    { intros y Hy. apply Hai. exact Hy. }
    set (L' := LSpine c o (args ++ [a])).
    set (st' := mkG (wire add_from false c (anode a) (ci_of a) G) (g_memo se) (g_next se)).
    assert (Hveq' : veq (g_tr st') (flow L' ++ g_tr st)).
    { unfold st', L'. cbn [g_tr].
      destruct (snd a) as [n | cx ox argsx] eqn:Ea.
      - (* a memoised node (or a new source) passed as data *)
        destruct a as [ka la]. cbn [fst snd] in *. subst la.
        destruct ka as [|iN|iN]; [|discriminate Hoka|exfalso; apply (Hnoabs iN); reflexivity].
        unfold anode, ci_of. cbn [fst snd lnode].
        assert (HGv : veq G (flow (LSpine c o args) ++ g_tr st)).
        { intros t Hv. rewrite (HG t Hv). unfold pre_from. cbn [fst app].
          rewrite (Xveq t Hv). cbn [flow app]. rewrite Htr. unfold aint. cbn [fst kint map app].
          apply (Fveq t Hv). }
        apply wire_data_leaf; [|exact HGv].
        intros j. rewrite (HGv _ (vis_internal c j)), in_app_iff. split.
        + intros [H | H].
          * now apply (flow_own_internal c o args j Fnd Hokf).
          * exfalso. apply (Hc2 _ H (vis_internal c j)). reflexivity.
        + intros H. left. now apply (flow_own_internal c o args j Fnd Hokf).
      - rewrite <- Ea.
        apply (tail_step add_from Hok c o args a (g_tr st) (g_tr st1) (g_tr se) G (g_next st1)); auto.
        + intros t Ht Hv. split; [apply Hc2; auto|]. specialize (I1 t Ht Hv). lia.
        + rewrite <- Htr. exact Xveq.
        + intros y Hy. apply HnX in Hy. lia.
        + intros j Hj. apply Hai in Hj. tauto.
        + intros n Hn. rewrite Ea in Hn. discriminate Hn. }
    assert (HokL : okb L' = true).
    { unfold L'. rewrite okb_snoc, Hokf, Hoka, Hokx. reflexivity. }
    assert (HnL : forall y, In y (names L') -> y = c \/ (g_next st <= y < g_next se)).
    { intros y Hy. unfold L' in Hy. rewrite names_snoc in Hy.
      apply in_app_iff in Hy. destruct Hy as [Hy | Hy].
      - destruct (Fnames y Hy); [auto | right; lia].
      - apply in_app_iff in Hy. destruct Hy as [Hy | Hy].
        + apply Hkint in Hy. right. lia.
        + apply HnX in Hy. right. lia. }
    constructor.
    - exact Hsh'.
    - exact Hveq'.
    - exact HnL.
    - intros _. exists o, (args ++ [a]). reflexivity.
    - fold L'. unfold L'. rewrite names_snoc. apply NoDup_app_intro; [exact Fnd | |].
      + apply NoDup_app_intro; [| exact Xnd |].
        * destruct (fst a); cbn [kint]; repeat constructor; intros [].
        * intros y Hy Hy'. apply Hkint in Hy. apply HnX in Hy'. lia.
      + intros y Hy Hy'. apply HnF in Hy. apply in_app_iff in Hy'. destruct Hy' as [Hy' | Hy'].
        * apply Hkint in Hy'. lia.
        * apply HnX in Hy'. lia.
    - (* WInv *)
      fold st'. split; [|split].
      + intros t Ht Hv. apply (Hveq' t Hv) in Ht. apply in_app_iff in Ht.
        unfold st'. cbn [g_next]. destruct Ht as [Ht | Ht].
        * apply (flow_subj _ HokL) in Ht. destruct (HnL _ Ht); lia.
        * specialize (I1 t Ht Hv). lia.
      + unfold st'. cbn [g_memo g_next]. apply Xinv.
      + unfold st'. cbn [g_memo]. apply Xinv.
    - unfold st'. cbn [g_next]. lia.
    - unfold st'. cbn [g_memo]. apply (mext_trans _ (g_memo st1)); [exact Fext|].
      rewrite <- Hmemo. exact Xext.
    - intros k n Hk. unfold st' in Hk. cbn [g_memo] in Hk. fold L'. unfold L'.
      rewrite names_snoc, !in_app_iff.
      destruct (Xnew k n Hk) as [H | [Htag [Hn Hnx]]].
      + rewrite Hmemo in H. destruct (Fnew k n H) as [H' | [Htag [Hn Hnf]]]; [left; exact H'|].
        right. split; [exact Htag|]. split; [exact Hn|].
        assert (Hlt : n < g_next st1) by (destruct Finv as [_ [F2 _]]; apply (F2 k n H)).
        intros [Hy | [Hy | Hy]].
        * apply (Hnf Hy).
        * apply Hkint in Hy. lia.
        * apply HnX in Hy. lia.
      + right. split; [exact Htag|]. split; [right; lia|].
        assert (Hge : xc <= n) by lia.
        intros [Hy | [Hy | Hy]].
        * apply HnF in Hy. lia.
        * apply Hkint in Hy. lia.
        * apply (Hnx Hy).
  Qed.

  Definition StmtW (e : expr) : Prop :=
    forall c st, wdom (g_memo st) e = true -> WInv st -> cur_ok c st ->
    exists L st', add_expr add_from false e (Some c) st = Some (lnode L, st') /\
                  PostW e c st L st'.

  Lemma add_expr_w e : StmtW e.
  Proof.
    induction e as [i | v | i o | i f IHf x IHx fn | j ps b IHb]; intros c st Hdom Hinv Hcur.
    - (* ESrc *)
      cbn [add_expr key_of].
      destruct (memo_find (0, i) (g_memo st)) as [n|] eqn:Em.
      + exists (LLeaf n), st. split; [reflexivity|]. now apply post_hitW.
      + exists (LLeaf c), (set_memo (0, i) c st). split; [reflexivity|].
        destruct Hinv as [I1 [I2 I3]]. destruct Hcur as [Hc1 [Hc2 Hc3]].
        constructor; unfold set_memo; cbn [g_tr g_memo g_next].
        * apply ws_hit. cbn [key_of memo_find]. now rewrite key_eqb_refl.
        * cbn [flow app]. apply veq_refl.
        * intros y [].
        * cbn. discriminate.
        * constructor.
        * unfold WInv. cbn [g_tr g_memo g_next]. split; [exact I1|]. split.
          -- intros k n [[= <- <-] | Hk]; [exact Hc1 | apply (I2 k n Hk)].
          -- intros k k' n. cbn [memo_find].
             destruct (key_eqb k (0, i)) eqn:E1; destruct (key_eqb k' (0, i)) eqn:E2.
             ++ apply key_eqb_eq in E1. apply key_eqb_eq in E2. congruence.
             ++ intros [= <-] H2. apply memo_find_In in H2. exfalso. apply (Hc3 _ H2).
             ++ intros H1 [= <-]. apply memo_find_In in H1. exfalso. apply (Hc3 _ H1).
             ++ apply I3.
        * lia.
        * split.
          -- intros k n Hn. cbn [memo_find]. destruct (key_eqb k (0, i)) eqn:E; [|exact Hn].
             apply key_eqb_eq in E. subst k. rewrite Em in Hn. discriminate.
          -- intros k Hk. cbn [memo_find]. destruct (key_eqb k (0, i)) eqn:E; [|reflexivity].
             apply key_eqb_eq in E. subst k. cbn in Hk. congruence.
        * intros k n [[= <- <-] | Hk]; [|left; exact Hk].
          right. cbn. split; [reflexivity|]. split; [left; reflexivity | intros []].
    - (* EVar *)
      cbn [wdom] in Hdom. unfold hit in Hdom. cbn [add_expr].
      destruct (memo_find (key_of (EVar v)) (g_memo st)) as [n|] eqn:Em; [|discriminate].
      exists (LLeaf n), st. split; [reflexivity|]. now apply post_hitW.
    - (* EOp *)
      cbn [add_expr key_of].
      destruct (memo_find (2, i) (g_memo st)) as [n|] eqn:Em.
      + exists (LLeaf n), st. split; [reflexivity|]. now apply post_hitW.
      + exists (LSpine c o []), (add_tr (c, p_via, o) st). split; [reflexivity|].
        destruct Hinv as [I1 [I2 I3]]. destruct Hcur as [Hc1 [Hc2 Hc3]].
        constructor; unfold add_tr; cbn [g_tr g_memo g_next].
        * apply ws_op.
        * cbn. apply veq_refl.
        * intros y [<- | []]. auto.
        * intros _. exists o, []. reflexivity.
        * cbn. repeat constructor. intros [].
        * unfold WInv. cbn [g_tr g_memo g_next]. split; [|split].
          -- intros t [<- | Ht] Hv; [exact Hc1 | apply I1; auto].
          -- exact I2.
          -- exact I3.
        * lia.
        * apply mext_refl.
        * auto.
    - (* EApp *)
      cbn [add_expr key_of].
      destruct (memo_find (3, i) (g_memo st)) as [n|] eqn:Em.
      { exists (LLeaf n), st. split; [reflexivity|]. now apply post_hitW. }
      cbn [wdom] in Hdom. unfold hit at 1 in Hdom. cbn [key_of] in Hdom. rewrite Em in Hdom.
      cbn [orb] in Hdom.
      apply andb_true_iff in Hdom. destruct Hdom as [Hdom Hwx].
      apply andb_true_iff in Hdom. destruct Hdom as [Hsf Hwf].
      rewrite (spine_miss_not_abs _ f Hsf).
      destruct (IHf c st Hwf Hinv Hcur) as [Lf [st1 [Ef Pf]]].
      destruct (q_spine _ _ _ _ _ Pf Hsf) as [o [args ->]].
      cbn [lnode] in Ef. rewrite Ef.
      assert (Hinv1 := q_inv _ _ _ _ _ Pf).
      assert (Hnext1 := q_next _ _ _ _ _ Pf).
      assert (Hext1 := q_ext _ _ _ _ _ Pf).
      assert (Hc1 : c < g_next st) by apply Hcur.
      destruct fn.
      + (* a function is passed: a new operation or partial application *)
        apply andb_true_iff in Hwx. destruct Hwx as [Hsx Hwx].
        assert (Habs : is_abs x = false) by (eapply spine_miss_not_abs; eauto).
        assert (Hmatch : forall (T : Type) (A : nat -> list nat -> expr -> T) (B : T),
                  match x with
                  | ESrc _ => B | EVar _ => B | EOp _ _ => B | EApp _ _ _ _ => B
                  | EAbs j ps b => A j ps b end = B).
        { intros T A B. destruct x; try reflexivity. discriminate Habs. }
        rewrite Hmatch.
        cbn [fresh fst snd].
        set (iN := g_next st1).
        set (st3 := add_tr (c, p_internal, iN) (mkG (g_tr st1) (g_memo st1) (S (g_next st1)))).
        assert (Hinv3 : WInv st3).
        { destruct Hinv1 as [J1 [J2 J3]]. unfold st3, add_tr, WInv. cbn [g_tr g_memo g_next].
          split; [|split].
          - intros t [<- | Ht] Hv; [unfold t_subj; cbn; lia | specialize (J1 t Ht Hv); lia].
          - intros k n Hk. specialize (J2 k n Hk). lia.
          - exact J3. }
        assert (Hwx3 : wdom (g_memo (snd (fresh st3))) x = true).
        { cbn. apply (wdom_ext (g_memo st)); auto. }
        destruct (IHx (g_next st3) (snd (fresh st3)) Hwx3 (WInv_fresh _ Hinv3)
                    (cur_ok_freshW _ Hinv3)) as [Lx [se [Ex Px]]].
        assert (Hsx3 : spine_miss (g_memo (snd (fresh st3))) x = true).
        { cbn. rewrite (spine_miss_ext (g_memo st)); auto. }
        destruct (q_spine _ _ _ _ _ Px Hsx3) as [ox [argsx ->]].
        cbn [lnode] in Ex.
        match goal with |- context [add_expr add_from false x ?u ?w] =>
          change (add_expr add_from false x u w)
            with (add_expr add_from false x (@Some node (g_next st3)) (snd (fresh st3))) end.
        rewrite Ex.
        exists (LSpine c o (args ++ [(AFun iN, LSpine (g_next st3) ox argsx)])),
               (mkG (wire add_from false c (g_next st3) (Some iN)
                       (add_from (g_next st3) iN (g_tr se))) (g_memo se) (g_next se)).
        split; [reflexivity|].
        apply (app_tailW i f x true c st o args st1
                 (AFun iN, LSpine (g_next st3) ox argsx) (g_next st3)
                 (snd (fresh st3)) se (add_from (g_next st3) iN (g_tr se)));
          [exact Hcur | exact Hinv | exact Pf | exact Px | reflexivity | intros j0 E; discriminate E
          | reflexivity | reflexivity | | | | |].
        * cbn. lia.
        * cbn. lia.
        * intros j0 [<- | []]. unfold iN. cbn. lia.
        * intros t Hv. rewrite (add_from_in add_from Hok) by exact Hv. cbn.
          split; (intros [E | H]; [left; symmetry; exact E | right; exact H]).
        * apply ws_fun.
          -- apply (wshape_mono (g_memo st1)); [|exact (q_shape _ _ _ _ _ Pf)].
             apply (q_ext _ _ _ _ _ Px).
          -- exact (q_shape _ _ _ _ _ Px).
      + (* data is passed *)
        cbn [fresh fst snd].
        assert (Hwx1 : wdom (g_memo (snd (fresh st1))) x = true).
        { cbn. apply (wdom_ext (g_memo st)); auto. }
        destruct (IHx (g_next st1) (snd (fresh st1)) Hwx1 (WInv_fresh _ Hinv1)
                    (cur_ok_freshW _ Hinv1)) as [Lx [se [Ex Px]]].
        match goal with |- context [add_expr add_from false x ?u ?w] =>
          change (add_expr add_from false x u w)
            with (add_expr add_from false x (@Some node (g_next st1)) (snd (fresh st1))) end.
        rewrite Ex.
        exists (LSpine c o (args ++ [(AData, Lx)])),
               (mkG (wire add_from false c (lnode Lx) None (g_tr se)) (g_memo se) (g_next se)).
        split; [reflexivity|].
        apply (app_tailW i f x false c st o args st1 (AData, Lx) (g_next st1)
                 (snd (fresh st1)) se (g_tr se));
          [exact Hcur | exact Hinv | exact Pf | exact Px | reflexivity | intros j0 E; discriminate E
          | reflexivity | reflexivity | | | | |].
        * lia.
        * cbn. lia.
        * intros j0 [].
        * cbn. apply veq_refl.
        * apply ws_data.
          -- apply (wshape_mono (g_memo st1)); [|exact (q_shape _ _ _ _ _ Pf)].
             apply (q_ext _ _ _ _ _ Px).
          -- exact (q_shape _ _ _ _ _ Px).
    - (* EAbs *)
      cbn [wdom] in Hdom. unfold hit in Hdom. cbn [add_expr].
      destruct (memo_find (key_of (EAbs j ps b)) (g_memo st)) as [n|] eqn:Em; [|discriminate].
      exists (LLeaf n), st. split; [reflexivity|]. now apply post_hitW.
  Qed.
End Part1.
