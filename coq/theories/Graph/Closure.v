(* C09: tf:depends is the transitive closure of tf:from.

   Model of transforge/graph.py TransformationGraph.add_from (lines 404-417):
   the only place where tf:from and tf:depends triples are created.  A graph is
   reduced to its two edge sets; nodes are numbers.  rdflib's Graph.add has set
   semantics, modelled by insert-if-absent on lists.

   [add_from]         the REPAIRED code (proposed_fixes/C09.diff)
   [add_from_pinned]  the code as pinned (dfa107a), kept for the refutation
   [clos]             declarative "reachable over one or more edges"           *)
From Coq Require Import List Arith Bool Lia.
Import ListNotations.

Definition edge := (nat * nat)%type.

Definition edge_eqb (e1 e2 : edge) : bool :=
  Nat.eqb (fst e1) (fst e2) && Nat.eqb (snd e1) (snd e2).

Lemma edge_eqb_spec e1 e2 : edge_eqb e1 e2 = true <-> e1 = e2.
Proof.
  destruct e1 as [a b], e2 as [c d]. unfold edge_eqb. cbn [fst snd].
  rewrite andb_true_iff, !Nat.eqb_eq. split.
  - intros [-> ->]. reflexivity.
  - intros [= -> ->]. auto.
Qed.

Definition mem (e : edge) (l : list edge) : bool := existsb (edge_eqb e) l.

Lemma mem_spec e l : mem e l = true <-> In e l.
Proof.
  unfold mem. rewrite existsb_exists. split.
  - intros [x [Hin Heq]]. apply edge_eqb_spec in Heq. subst. exact Hin.
  - intros Hin. exists e. split; [exact Hin | apply edge_eqb_spec; reflexivity].
Qed.

(* Graph.add((s, p, o)) for a fixed predicate p: a triple store is a set *)
Definition ins (e : edge) (l : list edge) : list edge := if mem e l then l else e :: l.

Definition ins_all (es : list edge) (l : list edge) : list edge :=
  fold_left (fun acc e => ins e acc) es l.

Lemma In_ins e l x : In x (ins e l) <-> x = e \/ In x l.
Proof.
  unfold ins. destruct (mem e l) eqn:M.
  - apply mem_spec in M. split; [auto|]. intros [-> | H]; assumption.
  - cbn [In]. split; intros [H | H]; auto.
Qed.

Lemma In_ins_all es : forall l x, In x (ins_all es l) <-> In x es \/ In x l.
Proof.
  induction es as [|e es IH]; intros l x; cbn [ins_all fold_left In].
  - tauto.
  - fold (ins_all es (ins e l)). rewrite IH, In_ins. intuition auto.
Qed.

(* Graph.objects(s, p) and Graph.subjects(p, o) *)
Definition objects (l : list edge) (s : nat) : list nat :=
  map snd (filter (fun e => Nat.eqb (fst e) s) l).
Definition subjects (l : list edge) (o : nat) : list nat :=
  map fst (filter (fun e => Nat.eqb (snd e) o) l).

Lemma In_objects l s y : In y (objects l s) <-> In (s, y) l.
Proof.
  unfold objects. rewrite in_map_iff. split.
  - intros [[a b] [Hy Hf]]. apply filter_In in Hf. destruct Hf as [Hin Heq].
    cbn [fst snd] in *. apply Nat.eqb_eq in Heq. subst. exact Hin.
  - intros Hin. exists (s, y). split; [reflexivity|]. apply filter_In.
    split; [exact Hin | cbn [fst]; apply Nat.eqb_refl].
Qed.

Lemma In_subjects l o x : In x (subjects l o) <-> In (x, o) l.
Proof.
  unfold subjects. rewrite in_map_iff. split.
  - intros [[a b] [Hy Hf]]. apply filter_In in Hf. destruct Hf as [Hin Heq].
    cbn [fst snd] in *. apply Nat.eqb_eq in Heq. subst. exact Hin.
  - intros Hin. exists (x, o). split; [reflexivity|]. apply filter_In.
    split; [exact Hin | cbn [snd]; apply Nat.eqb_refl].
Qed.

Definition product (xs ys : list nat) : list edge :=
  flat_map (fun x => map (pair x) ys) xs.

Lemma In_product xs ys x y : In (x, y) (product xs ys) <-> In x xs /\ In y ys.
Proof.
  unfold product. rewrite in_flat_map. split.
  - intros [x' [Hx Hm]]. apply in_map_iff in Hm. destruct Hm as [y' [[= -> ->] Hy]]. auto.
  - intros [Hx Hy]. exists x. split; [exact Hx|]. apply in_map_iff. exists y. auto.
Qed.

(* ------------------------------------------------------------------------ *)
(* Declarative side: y is reachable from x over one or more edges of E.      *)

Inductive clos (E : list edge) : nat -> nat -> Prop :=
| clos_one x y : In (x, y) E -> clos E x y
| clos_step x z y : In (x, z) E -> clos E z y -> clos E x y.

Lemma clos_trans E x y z : clos E x y -> clos E y z -> clos E x z.
Proof.
  intros H1 H2. induction H1 as [x y Hin | x w y Hin _ IH].
  - eapply clos_step; eauto.
  - eapply clos_step; eauto.
Qed.

Lemma clos_incl E E' : (forall e, In e E -> In e E') -> forall x y, clos E x y -> clos E' x y.
Proof.
  intros Hi x y H. induction H as [x y Hin | x z y Hin _ IH].
  - apply clos_one. auto.
  - eapply clos_step; eauto.
Qed.

Lemma clos_ext E E' : (forall e, In e E <-> In e E') -> forall x y, clos E x y <-> clos E' x y.
Proof. intros He x y. split; apply clos_incl; intros e; apply He. Qed.

Lemma clos_nil x y : ~ clos [] x y.
Proof. intros H. inversion H; subst; contradiction. Qed.

(* clos E is the least transitive relation containing E *)
Lemma clos_least E (R : nat -> nat -> Prop) :
  (forall x y, In (x, y) E -> R x y) -> (forall x y z, R x y -> R y z -> R x z) ->
  forall x y, clos E x y -> R x y.
Proof.
  intros HE HT x y H. induction H as [x y Hin | x z y Hin _ IH]; eauto.
Qed.

(* Adding one edge: the new closure is the old one plus
   (a and everything above a) x (b and everything below b).  *)
Lemma clos_add E a b x y :
  clos ((a, b) :: E) x y <->
  clos E x y \/ ((x = a \/ clos E x a) /\ (y = b \/ clos E b y)).
Proof.
  split.
  - intros H. induction H as [x y Hin | x z y Hin _ IH].
    + destruct Hin as [[= <- <-] | Hin].
      * right. auto.
      * left. apply clos_one. exact Hin.
    + destruct Hin as [[= <- <-] | Hin].
      * right. split; [auto|]. destruct IH as [IH | [_ IH]]; auto.
      * destruct IH as [IH | [[-> | IH] Hy]].
        -- left. eapply clos_step; eauto.
        -- right. split; [right; apply clos_one; exact Hin | exact Hy].
        -- right. split; [right; eapply clos_step; eauto | exact Hy].
  - assert (Hm : forall u v, clos E u v -> clos ((a, b) :: E) u v).
    { apply clos_incl. intros e He. right. exact He. }
    assert (Hab : clos ((a, b) :: E) a b) by (apply clos_one; left; reflexivity).
    intros [H | [[-> | Hx] [-> | Hy]]].
    + auto.
    + exact Hab.
    + eapply clos_trans; [exact Hab | auto].
    + eapply clos_trans; [apply Hm; exact Hx | exact Hab].
    + eapply clos_trans; [apply Hm; exact Hx |]. eapply clos_trans; [exact Hab | auto].
Qed.

(* ------------------------------------------------------------------------ *)
(* The graph state and add_from.                                             *)

Record graph := mkG { frm : list edge; dep : list edge }.
Definition empty : graph := mkG [] [].

(* the invariant the property asks for *)
Definition closed (g : graph) : Prop :=
  forall x y, In (x, y) (dep g) <-> clos (frm g) x y.

(* Common part of the repaired add_from:
     self.add((a, TF["from"], b))                                   line 407
     above = {a, *self.subjects(TF.depends, a)}
     for adep in above: for bdep in below: self.add((adep, TF.depends, bdep))
   [below] is computed by the caller; [above] is read before any depends
   triple is added. *)
Definition add_core (g : graph) (a b : nat) (below : list nat) : graph :=
  mkG (ins (a, b) (frm g))
      (ins_all (product (a :: subjects (dep g) a) below) (dep g)).

(* recursive=False:  below = {b, *self.objects(b, TF.depends)} *)
Definition add_from_nr (g : graph) (a b : nat) : graph :=
  add_core g a b (b :: objects (dep g) b).

(* A certified closure function: insert the edges one by one. *)
Definition tcl (E : list edge) : list edge :=
  dep (fold_left (fun g e => add_from_nr g (fst e) (snd e)) E empty).

(* rdflib Graph.transitive_objects(b, p): b itself and everything reachable
   from b over p-edges (rdflib is library code: modelled by its specification,
   computed with the certified closure above). *)
Definition trans_objects (E : list edge) (b : nat) : list nat := b :: objects (tcl E) b.

(* recursive=True:  below = set(self.transitive_objects(b, TF["from"])),
   evaluated after the new from-edge has been added (line 407 comes first). *)
Definition add_from (recursive : bool) (g : graph) (a b : nat) : graph :=
  add_core g a b
    (if recursive then trans_objects (ins (a, b) (frm g)) b
     else b :: objects (dep g) b).

(* The code as pinned (graph.py 404-417 at dfa107a):
     self.add((a, from, b)); self.add((a, depends, b))
     recursive:  for bdep in transitive_objects(b, from): add((a, depends, bdep))
     otherwise:  for bdep in objects(b, depends):         add((a, depends, bdep))
   Only [a] itself receives new dependencies. *)
Definition add_from_pinned (recursive : bool) (g : graph) (a b : nat) : graph :=
  let f' := ins (a, b) (frm g) in
  let d1 := ins (a, b) (dep g) in
  mkG f' (ins_all (map (pair a) (if recursive then trans_objects f' b else objects d1 b)) d1).

(* A history: the sequence of add_from calls (recursive flag, (a, b)). *)
Definition op := (bool * edge)%type.
Definition step (g : graph) (o : op) : graph := add_from (fst o) g (fst (snd o)) (snd (snd o)).
Definition step_pinned (g : graph) (o : op) : graph :=
  add_from_pinned (fst o) g (fst (snd o)) (snd (snd o)).
Definition run_from (g : graph) (ops : list op) : graph := fold_left step ops g.
Definition run (ops : list op) : graph := run_from empty ops.
Definition run_pinned (ops : list op) : graph := fold_left step_pinned ops empty.

(* states after every call, for the correspondence check *)
Fixpoint trace_from (g : graph) (ops : list op) : list graph :=
  match ops with
  | [] => []
  | o :: r => let g' := step g o in g' :: trace_from g' r
  end.
Fixpoint trace_pinned_from (g : graph) (ops : list op) : list graph :=
  match ops with
  | [] => []
  | o :: r => let g' := step_pinned g o in g' :: trace_pinned_from g' r
  end.

(* ------------------------------------------------------------------------ *)
(* Proofs.                                                                   *)

Lemma closed_empty : closed empty.
Proof.
  intros x y. cbn [empty dep frm]. split; [intros [] | intros H; exact (clos_nil _ _ H)].
Qed.

Lemma clos_ins E a b x y : clos (ins (a, b) E) x y <-> clos ((a, b) :: E) x y.
Proof.
  apply clos_ext. intros e. rewrite In_ins. cbn [In]. split; intros [H | H]; auto.
Qed.

(* Any [below] between "b and what b depends on" and "b and what is reachable
   from b once the edge is there" keeps the invariant. *)
Lemma add_core_closed g a b below :
  closed g ->
  (forall y, In y below -> y = b \/ clos (ins (a, b) (frm g)) b y) ->
  (forall y, y = b \/ clos (frm g) b y -> In y below) ->
  closed (add_core g a b below).
Proof.
  intros Hc Hlo Hhi x y. unfold add_core. cbn [dep frm].
  rewrite In_ins_all, In_product, clos_ins. cbn [In]. rewrite In_subjects.
  assert (Hm : forall u v, clos (frm g) u v -> clos ((a, b) :: frm g) u v).
  { apply clos_incl. intros e He. right. exact He. }
  assert (Hab : clos ((a, b) :: frm g) a b) by (apply clos_one; left; reflexivity).
  split.
  - intros [[Hx Hy] | Hd].
    + assert (Hxa : x = a \/ clos ((a, b) :: frm g) x a).
      { destruct Hx as [<- | Hx]; [auto|]. right. apply Hm, Hc. exact Hx. }
      assert (Hby : y = b \/ clos ((a, b) :: frm g) b y).
      { destruct (Hlo y Hy) as [-> | H]; [auto|]. right. apply clos_ins. exact H. }
      assert (Hxb : clos ((a, b) :: frm g) x b).
      { destruct Hxa as [-> | Hxa]; [exact Hab|]. eapply clos_trans; eauto. }
      destruct Hby as [-> | Hby]; [exact Hxb|]. eapply clos_trans; eauto.
    + apply Hm, Hc. exact Hd.
  - intros H. apply clos_add in H. destruct H as [H | [Hx Hy]].
    + right. apply Hc. exact H.
    + left. split.
      * destruct Hx as [-> | Hx]; [auto|]. right. apply Hc. exact Hx.
      * apply Hhi. exact Hy.
Qed.

Lemma add_from_nr_closed g a b : closed g -> closed (add_from_nr g a b).
Proof.
  intros Hc. unfold add_from_nr. apply add_core_closed; [exact Hc | |].
  - intros y [<- | Hy]; [auto|]. right. apply In_objects, Hc in Hy.
    apply clos_ins. revert Hy. apply clos_incl. intros e He. right. exact He.
  - intros y [-> | Hy]; [left; reflexivity|]. right. apply In_objects, Hc. exact Hy.
Qed.

Lemma frm_add_core g a b below e :
  In e (frm (add_core g a b below)) <-> e = (a, b) \/ In e (frm g).
Proof. unfold add_core. cbn [frm]. apply In_ins. Qed.

Lemma fold_nr_spec E : forall g, closed g ->
  let g' := fold_left (fun g e => add_from_nr g (fst e) (snd e)) E g in
  closed g' /\ (forall e, In e (frm g') <-> In e E \/ In e (frm g)).
Proof.
  induction E as [|[a b] E IH]; intros g Hc; cbn [fold_left fst snd].
  - split; [exact Hc | intros e; cbn [In]; tauto].
  - specialize (IH (add_from_nr g a b) (add_from_nr_closed g a b Hc)).
    cbn zeta in IH. destruct IH as [IH1 IH2]. split; [exact IH1|].
    intros e. rewrite IH2. unfold add_from_nr. rewrite frm_add_core. cbn [In].
    intuition auto.
Qed.

(* the closure function is correct *)
Lemma tcl_spec E x y : In (x, y) (tcl E) <-> clos E x y.
Proof.
  unfold tcl. destruct (fold_nr_spec E empty closed_empty) as [Hc Hf]. cbn zeta in *.
  rewrite (Hc x y). apply clos_ext. intros e. rewrite Hf. cbn [empty frm In]. tauto.
Qed.

Lemma In_trans_objects E b y : In y (trans_objects E b) <-> y = b \/ clos E b y.
Proof.
  unfold trans_objects. cbn [In]. rewrite In_objects, tcl_spec. split; intros [H | H]; auto.
Qed.

(* the repaired add_from keeps depends = closure of from, whatever the flag *)
Lemma add_from_closed r g a b : closed g -> closed (add_from r g a b).
Proof.
  intros Hc. destruct r; [| exact (add_from_nr_closed g a b Hc)].
  unfold add_from. apply add_core_closed; [exact Hc | |].
  - intros y Hy. apply In_trans_objects in Hy. exact Hy.
  - intros y Hy. apply In_trans_objects. destruct Hy as [-> | Hy]; [auto|]. right.
    revert Hy. apply clos_incl. intros e He. apply In_ins. auto.
Qed.

Lemma frm_add_from r g a b e : In e (frm (add_from r g a b)) <-> e = (a, b) \/ In e (frm g).
Proof. unfold add_from. apply frm_add_core. Qed.

Lemma run_from_spec ops : forall g, closed g ->
  closed (run_from g ops) /\
  (forall e, In e (frm (run_from g ops)) <-> In e (map snd ops) \/ In e (frm g)).
Proof.
  induction ops as [|[r [a b]] ops IH]; intros g Hc; cbn [run_from fold_left map].
  - split; [exact Hc | intros e; cbn [In]; tauto].
  - fold (run_from (step g (r, (a, b))) ops).
    assert (Hc' : closed (step g (r, (a, b)))) by (apply add_from_closed; exact Hc).
    destruct (IH _ Hc') as [IH1 IH2]. split; [exact IH1|].
    intros e. rewrite IH2. unfold step. cbn [fst snd]. rewrite frm_add_from. cbn [In].
    intuition auto.
Qed.

(* every insertion history, from any closed graph *)
Theorem run_from_closed g ops : closed g -> closed (run_from g ops).
Proof. intros Hc. apply run_from_spec. exact Hc. Qed.

Theorem run_closed ops : closed (run ops).
Proof. apply run_from_closed, closed_empty. Qed.

Theorem run_frm ops e : In e (frm (run ops)) <-> In e (map snd ops).
Proof.
  destruct (run_from_spec ops empty closed_empty) as [_ H]. unfold run. rewrite H.
  cbn [empty frm In]. tauto.
Qed.

(* the property, in its own words: a depends b iff b is reachable from a over one
   or more of the from-edges that were added, in whatever order and with
   whatever flags they were added *)
Theorem depends_iff_reachable ops a b :
  In (a, b) (dep (run ops)) <-> clos (map snd ops) a b.
Proof.
  rewrite (run_closed ops a b). apply clos_ext. intros e. apply run_frm.
Qed.

(* the order of insertion does not matter at all *)
Theorem run_order_irrelevant ops ops' :
  (forall e, In e (map snd ops) <-> In e (map snd ops')) ->
  forall a b, In (a, b) (dep (run ops)) <-> In (a, b) (dep (run ops')).
Proof.
  intros He a b. rewrite !depends_iff_reachable. apply clos_ext. exact He.
Qed.

(* every intermediate state is closed too *)
Lemma trace_from_closed ops : forall g, closed g -> Forall closed (trace_from g ops).
Proof.
  induction ops as [|o ops IH]; intros g Hc; cbn [trace_from]; constructor.
  - destruct o as [r [a b]]. apply add_from_closed. exact Hc.
  - apply IH. destruct o as [r [a b]]. apply add_from_closed. exact Hc.
Qed.

(* depends is a transitive relation (vocab/transforge.ttl: owl:TransitiveProperty) *)
Theorem depends_transitive ops a b c :
  In (a, b) (dep (run ops)) -> In (b, c) (dep (run ops)) -> In (a, c) (dep (run ops)).
Proof. rewrite !depends_iff_reachable. apply clos_trans. Qed.

(* and contains from *)
Theorem from_in_depends ops a b : In (a, b) (frm (run ops)) -> In (a, b) (dep (run ops)).
Proof. intros H. apply run_closed. apply clos_one. exact H. Qed.

(* ------------------------------------------------------------------------ *)
(* The pinned code.                                                          *)

(* What it gets right: an edge whose source has no incoming edge yet (graphs
   built strictly bottom-up: first-order expressions, passthrough workflows). *)
Lemma add_from_pinned_closed r g a b :
  closed g -> (forall x, ~ In (x, a) (frm g)) -> a <> b ->
  closed (add_from_pinned r g a b).
Proof.
  intros Hc Hno Hab x y.
  assert (Hnoc : forall x, ~ clos (frm g) x a).
  { intros u H. assert (exists w, In (w, a) (frm g)) as [w Hw].
    { clear -H. induction H as [u v Hin | u z v Hin _ IH]; eauto. }
    exact (Hno w Hw). }
  pose proof (add_from_closed r g a b Hc x y) as Hfix.
  rewrite <- Hfix. unfold add_from_pinned, add_from, add_core. cbn [dep].
  rewrite !In_ins_all, In_product, in_map_iff, In_ins. cbn [In]. rewrite In_subjects.
  split.
  - intros [[y' [[= <- <-] Hy]] | [[= -> ->] | Hd]].
    + left. split; [auto|]. destruct r.
      * exact Hy.
      * apply In_objects, In_ins in Hy. destruct Hy as [[= <- <-] | Hy]; [contradiction|].
        right. apply In_objects. exact Hy.
    + left. split; [auto|]. destruct r; [apply In_trans_objects|]; cbn [In]; auto.
    + auto.
  - intros [[[<- | Hx] Hy] | Hd].
    + destruct r.
      * left. exists y. auto.
      * destruct Hy as [<- | Hy]; [right; left; reflexivity|].
        left. exists y. split; [reflexivity|]. apply In_objects, In_ins. right.
        apply In_objects. exact Hy.
    + apply Hc in Hx. exfalso. exact (Hnoc x Hx).
    + auto.
Qed.

Lemma frm_add_from_pinned r g a b e :
  In e (frm (add_from_pinned r g a b)) <-> e = (a, b) \/ In e (frm g).
Proof. unfold add_from_pinned. cbn [frm]. apply In_ins. Qed.

(* a history is bottom-up when no edge is added below a node that already has an
   incoming edge: the source of each new edge is not yet anybody's input *)
Fixpoint bottom_up (seen : list edge) (ops : list op) : Prop :=
  match ops with
  | [] => True
  | o :: rest => (forall x, ~ In (x, fst (snd o)) seen) /\ fst (snd o) <> snd (snd o) /\
                 bottom_up (snd o :: seen) rest
  end.

Lemma pinned_bottom_up_from ops : forall g seen, closed g ->
  (forall e, In e (frm g) <-> In e seen) -> bottom_up seen ops ->
  closed (fold_left step_pinned ops g).
Proof.
  induction ops as [|[r [a b]] ops IH]; intros g seen Hc Hs Hb; cbn [fold_left].
  - exact Hc.
  - cbn [bottom_up fst snd] in Hb. destruct Hb as [Hno [Hab Hb]].
    apply IH with (seen := (a, b) :: seen).
    + unfold step_pinned. cbn [fst snd]. apply add_from_pinned_closed; [exact Hc | | exact Hab].
      intros x Hx. apply (Hno x), Hs. exact Hx.
    + intros e. unfold step_pinned. cbn [fst snd]. rewrite frm_add_from_pinned. cbn [In].
      rewrite Hs. split; intros [H | H]; auto.
    + exact Hb.
Qed.

Theorem pinned_bottom_up ops : bottom_up [] ops -> closed (run_pinned ops).
Proof.
  intros Hb. unfold run_pinned. apply pinned_bottom_up_from with (seen := []); auto.
  - exact closed_empty.
  - intros e. cbn [empty frm]. tauto.
Qed.

(* the history add_expr produces for  h f (-: A)  with  h : (A ** A) ** A ** A
   (nodes: 0 = h, 1 = internal, 2 = f, 3 = source):
   add_from(f, internal); add_from(h, f); add_from(h, src); add_from(internal, src) *)
Definition witness_ops : list op :=
  [(false, (2, 1)); (false, (0, 2)); (false, (0, 3)); (false, (1, 3))].

Lemma pinned_misses : clos (frm (run_pinned witness_ops)) 2 3 /\
                      ~ In (2, 3) (dep (run_pinned witness_ops)).
Proof.
  split.
  - apply clos_step with 1; [vm_compute; tauto|]. apply clos_one. vm_compute. tauto.
  - vm_compute. intuition discriminate.
Qed.

Theorem pinned_refuted : exists ops, ~ closed (run_pinned ops).
Proof.
  exists witness_ops. intros Hc. destruct pinned_misses as [H1 H2]. apply H2, Hc, H1.
Qed.

(* decidable check used by the oracle side of the harness: every dep pair is in
   the certified closure of frm and vice versa *)
Definition subset (l1 l2 : list edge) : bool := forallb (fun e => mem e l2) l1.
Definition closedb (g : graph) : bool :=
  let t := tcl (frm g) in subset (dep g) t && subset t (dep g).

Lemma subset_spec l1 l2 : subset l1 l2 = true <-> (forall e, In e l1 -> In e l2).
Proof.
  unfold subset. rewrite forallb_forall. split; intros H e He.
  - apply mem_spec. apply H. exact He.
  - apply mem_spec. apply H. exact He.
Qed.

Theorem closedb_spec g : closedb g = true <-> closed g.
Proof.
  unfold closedb. rewrite andb_true_iff, !subset_spec. split.
  - intros [H1 H2] x y. split; intros H.
    + apply tcl_spec. auto.
    + apply H2. apply tcl_spec. exact H.
  - intros Hc. split; intros [x y] He.
    + apply tcl_spec, Hc. exact He.
    + apply Hc, tcl_spec. exact He.
Qed.
