(* Graph/AnnotNodes.v -- the traversal [concepts] of Graph/Annot.v:
     concepts_sim         it returns the node and leaves the expr_nodes memo and
                          the BNode() counter exactly as AddExpr.add_expr does
                          (the model property C08 is proved about), so the
                          annotated nodes are the nodes the from-edges talk about
     concepts_nodes       every annotated concept sits on its own expression
                          node: the nodes of the events are pairwise different
     concepts_seq_nodes   the same for a sequence of expressions added to one
                          graph (add_workflow) *)
From Coq Require Import List Arith Bool Lia.
Import ListNotations.
From TF Require Import Base.Hier Base.Ty Graph.AddExpr Graph.Annot.

Definition geq (g h : gstate) : Prop := g_memo g = g_memo h /\ g_next g = g_next h.

Lemma geq_refl g : geq g g. Proof. split; reflexivity. Qed.

Lemma geq_fresh g h : geq g h -> fst (fresh g) = fst (fresh h) /\ geq (snd (fresh g)) (snd (fresh h)).
Proof. intros [A B]. unfold fresh, geq. cbn [fst snd g_memo g_next]. rewrite A, B. auto. Qed.

Lemma geq_set_memo k n g h : geq g h -> geq (set_memo k n g) (set_memo k n h).
Proof. intros [A B]. unfold set_memo, geq. cbn [g_memo g_next]. rewrite A, B. auto. Qed.

Lemma geq_bind ps n g h : geq g h -> geq (bind_params ps n g) (bind_params ps n h).
Proof. intros [A B]. unfold bind_params, geq. cbn [g_memo g_next]. rewrite A, B. auto. Qed.

Lemma geq_upd f g h : geq g h -> geq g (upd_tr f h).
Proof. intros [A B]. unfold upd_tr, geq. cbn [g_memo g_next]. auto. Qed.

Lemma geq_add_tr t g h : geq g h -> geq g (add_tr t h).
Proof. intros [A B]. unfold add_tr, geq. cbn [g_memo g_next]. auto. Qed.

Lemma cis_abs_erase e : is_abs (erase e) = cis_abs e.
Proof. destruct e; reflexivity. Qed.

Section Sim.
  Variable add_from : node -> node -> list triple -> list triple.
  Variable pinned : bool.

  Definition SimStmt (e : cexpr) : Prop :=
    forall cur im g n g' evs, concepts e cur im g = Some (n, g', evs) ->
    forall h, geq g h ->
    exists h', add_expr add_from pinned (erase e) cur h = Some (n, h') /\ geq g' h'.

  Lemma sim_rec e : SimStmt e /\ (forall j ps b, e = CAbs j ps b -> SimStmt b).
  Proof.
    induction e as [i t | v | i j out | i f IHf x IHx fn | j ps b IHb].
    - (* CSrc *)
      split; [|intros ? ? ? E; discriminate E].
      intros cur im g n g' evs E h G. cbn [concepts] in E. cbn [erase add_expr].
      unfold ckey in E. cbn [erase] in E. destruct G as [Gm Gn]. rewrite <- Gm.
      destruct (memo_find (key_of (ESrc i)) (g_memo g)) as [n0|].
      + injection E as <- <- <-. exists h. split; [reflexivity | split; auto].
      + destruct cur as [c|]; cbn [fst snd] in E; injection E as <- <- <-.
        * eexists. split; [reflexivity|]. apply geq_set_memo. split; auto.
        * unfold fresh. cbn [fst snd]. rewrite Gn. eexists. split; [reflexivity|].
          unfold set_memo, geq. cbn [g_memo g_next key_of]. rewrite Gm. auto.
    - (* CVar *)
      split; [|intros ? ? ? E; discriminate E].
      intros cur im g n g' evs E h G. cbn [concepts] in E. cbn [erase add_expr].
      unfold ckey in E. cbn [erase] in E. destruct G as [Gm Gn]. rewrite <- Gm.
      destruct (memo_find (key_of (EVar v)) (g_memo g)) as [n0|]; [|discriminate].
      injection E as <- <- <-. exists h. split; [reflexivity | split; auto].
    - (* COp *)
      split; [|intros ? ? ? E; discriminate E].
      intros cur im g n g' evs E h G. cbn [concepts] in E. cbn [erase add_expr].
      unfold ckey in E. cbn [erase] in E. destruct G as [Gm Gn]. rewrite <- Gm.
      destruct (memo_find (key_of (EOp i j)) (g_memo g)) as [n0|].
      + injection E as <- <- <-. exists h. split; [reflexivity | split; auto].
      + destruct cur as [c|]; cbn [fst snd] in E; injection E as <- <- <-.
        * eexists. split; [reflexivity|]. apply geq_add_tr. split; auto.
        * unfold fresh. cbn [fst snd]. rewrite Gn. eexists. split; [reflexivity|].
          unfold add_tr, geq. cbn [g_memo g_next]. rewrite Gm. auto.
    - (* CApp *)
      split; [|intros ? ? ? E; discriminate E].
      destruct IHf as [IHf _]. destruct IHx as [IHx IHb].
      intros cur im g n g' evs E h G. cbn [concepts] in E. cbn [erase add_expr].
      unfold ckey in E. cbn [erase] in E. pose proof G as [Gm Gn]. rewrite <- Gm.
      destruct (memo_find (key_of (EApp i (erase f) (erase x) fn)) (g_memo g)) as [n0|].
      { injection E as <- <- <-. exists h. split; [reflexivity | exact G]. }
      (* the current node *)
      set (cg := match cur with Some c => (c, g) | None => fresh g end) in *.
      assert (Hc : exists h0, (match cur with Some c => (c, h) | None => fresh h end) = (fst cg, h0)
                              /\ geq (snd cg) h0).
      { unfold cg. destruct cur as [c|]; cbn [fst snd].
        - exists h. split; [reflexivity | exact G].
        - destruct (geq_fresh g h G) as [F1 F2]. exists (snd (fresh h)). split; [|exact F2].
          rewrite F1. destruct (fresh h); reflexivity. }
      destruct Hc as (h0 & -> & G0).
      rewrite cis_abs_erase. destruct (cis_abs f); [discriminate|].
      destruct (concepts f (Some (fst cg)) im (snd cg)) as [[[fnode g1] ev1]|] eqn:Ef; [|discriminate].
      destruct (IHf _ _ _ _ _ _ Ef h0 G0) as (h1 & -> & G1).
      destruct fn.
      + (* function-typed argument *)
        destruct (geq_fresh g1 h1 G1) as [Fi Gi].
        destruct (fresh h1) as [iN h2] eqn:Eh2. cbn [fst snd] in Fi, Gi.
        assert (Gi' : geq (snd (fresh g1)) (add_tr (fnode, p_internal, iN) h2))
          by (apply geq_add_tr; exact Gi).
        destruct x as [xi xt | xv | xi xj xout | xi xf xx xfn | xj xps xb]; cbn [erase].
        * (* source *)
          destruct (geq_fresh _ _ Gi') as [Fx Gx].
          destruct (fresh (add_tr (fnode, p_internal, iN) h2)) as [xc h4] eqn:Eh4. cbn [fst snd] in Fx, Gx.
          destruct (concepts (CSrc xi xt) (Some (fst (fresh (snd (fresh g1))))) true
                      (snd (fresh (snd (fresh g1))))) as [[[xn g7] ev2]|] eqn:Ex; [|discriminate].
          injection E as <- <- <-. rewrite Fx in Ex.
          destruct (IHx _ _ _ _ _ _ Ex h4 Gx) as (h5 & Eh5 & G5). cbn [erase] in Eh5. rewrite Eh5.
          eexists. split; [reflexivity|]. apply geq_upd. apply geq_upd. exact G5.
        * destruct (geq_fresh _ _ Gi') as [Fx Gx].
          destruct (fresh (add_tr (fnode, p_internal, iN) h2)) as [xc h4] eqn:Eh4. cbn [fst snd] in Fx, Gx.
          destruct (concepts (CVar xv) (Some (fst (fresh (snd (fresh g1))))) true
                      (snd (fresh (snd (fresh g1))))) as [[[xn g7] ev2]|] eqn:Ex; [|discriminate].
          injection E as <- <- <-. rewrite Fx in Ex.
          destruct (IHx _ _ _ _ _ _ Ex h4 Gx) as (h5 & Eh5 & G5). cbn [erase] in Eh5. rewrite Eh5.
          eexists. split; [reflexivity|]. apply geq_upd. apply geq_upd. exact G5.
        * destruct (geq_fresh _ _ Gi') as [Fx Gx].
          destruct (fresh (add_tr (fnode, p_internal, iN) h2)) as [xc h4] eqn:Eh4. cbn [fst snd] in Fx, Gx.
          destruct (concepts (COp xi xj xout) (Some (fst (fresh (snd (fresh g1))))) true
                      (snd (fresh (snd (fresh g1))))) as [[[xn g7] ev2]|] eqn:Ex; [|discriminate].
          injection E as <- <- <-. rewrite Fx in Ex.
          destruct (IHx _ _ _ _ _ _ Ex h4 Gx) as (h5 & Eh5 & G5). cbn [erase] in Eh5. rewrite Eh5.
          eexists. split; [reflexivity|]. apply geq_upd. apply geq_upd. exact G5.
        * destruct (geq_fresh _ _ Gi') as [Fx Gx].
          destruct (fresh (add_tr (fnode, p_internal, iN) h2)) as [xc h4] eqn:Eh4. cbn [fst snd] in Fx, Gx.
          destruct (concepts (CApp xi xf xx xfn) (Some (fst (fresh (snd (fresh g1))))) true
                      (snd (fresh (snd (fresh g1))))) as [[[xn g7] ev2]|] eqn:Ex; [|discriminate].
          injection E as <- <- <-. rewrite Fx in Ex.
          destruct (IHx _ _ _ _ _ _ Ex h4 Gx) as (h5 & Eh5 & G5). cbn [erase] in Eh5. rewrite Eh5.
          eexists. split; [reflexivity|]. apply geq_upd. apply geq_upd. exact G5.
        * (* abstraction: its parameters stand for the internal node *)
          rewrite Fi in E.
          assert (Gb : geq (bind_params xps iN (snd (fresh g1)))
                           (bind_params xps iN (add_tr (fnode, p_internal, iN) h2)))
            by (apply geq_bind; exact Gi').
          destruct (geq_fresh _ _ Gb) as [Fx Gx].
          destruct (fresh (bind_params xps iN (add_tr (fnode, p_internal, iN) h2))) as [xc h5] eqn:Eh5.
          cbn [fst snd] in Fx, Gx.
          destruct (concepts xb (Some (fst (fresh (bind_params xps iN (snd (fresh g1)))))) true
                      (snd (fresh (bind_params xps iN (snd (fresh g1)))))) as [[[xn g7] ev2]|] eqn:Ex;
            [|discriminate].
          injection E as <- <- <-. rewrite Fx in Ex.
          destruct (IHb _ _ _ eq_refl _ _ _ _ _ _ Ex h5 Gx) as (h6 & Eh6 & G6). rewrite Eh6.
          eexists. split; [reflexivity|]. apply geq_upd. exact G6.
      + (* data argument *)
        destruct (geq_fresh g1 h1 G1) as [Fx Gx].
        destruct (fresh h1) as [xc h2] eqn:Eh2. cbn [fst snd] in Fx, Gx.
        destruct (concepts x (Some (fst (fresh g1))) true (snd (fresh g1))) as [[[xn g7] ev2]|] eqn:Ex;
          [|discriminate].
        injection E as <- <- <-. rewrite Fx in Ex.
        destruct (IHx _ _ _ _ _ _ Ex h2 Gx) as (h3 & Eh3 & G3). rewrite Eh3.
        eexists. split; [reflexivity|]. apply geq_upd. exact G3.
    - (* CAbs *)
      split.
      + intros cur im g n g' evs E h G. cbn [concepts] in E. cbn [erase add_expr].
        unfold ckey in E. cbn [erase] in E. destruct G as [Gm Gn]. rewrite <- Gm.
        destruct (memo_find (key_of (EAbs j ps (erase b))) (g_memo g)) as [n0|]; [|discriminate].
        injection E as <- <- <-. exists h. split; [reflexivity | split; auto].
      + intros j' ps' b' [= _ _ <-]. apply IHb.
  Qed.

  Theorem concepts_sim e cur im g n g' evs : concepts e cur im g = Some (n, g', evs) ->
    forall h, geq g h ->
    exists h', add_expr add_from pinned (erase e) cur h = Some (n, h') /\ geq g' h'.
  Proof. apply sim_rec. Qed.
End Sim.

(* ------------------------------------------------------------------------ *)
(* every annotated concept has its own node *)

Lemma NoDup_app_disj {A} (l1 l2 : list A) : NoDup l1 -> NoDup l2 ->
  (forall x, In x l1 -> ~ In x l2) -> NoDup (l1 ++ l2).
Proof.
  induction l1 as [|x l1 IH]; intros N1 N2 D; [exact N2|].
  inversion N1 as [|? ? Hx N1']; subst. cbn [app]. constructor.
  - intros F. apply in_app_or in F as [F|F]; [auto | exact (D x (or_introl eq_refl) F)].
  - apply IH; auto. intros y Hy. apply D. now right.
Qed.

Definition inr (cur : option node) (lo hi k : nat) : Prop := cur = Some k \/ lo <= k < hi.

Definition NodesStmt (e : cexpr) : Prop :=
  forall cur im g n g' evs, concepts e cur im g = Some (n, g', evs) ->
  (forall c, cur = Some c -> c < g_next g) ->
  g_next g <= g_next g' /\
  (forall v, In v evs -> exists k, ev_cur v = TEn k /\ inr cur (g_next g) (g_next g') k) /\
  NoDup (map ev_cur evs).

Lemma nodes_rec e : NodesStmt e /\ (forall j ps b, e = CAbs j ps b -> NodesStmt b).
Proof.
  induction e as [i t | v | i j out | i f IHf x IHx fn | j ps b IHb].
  - split; [|intros ? ? ? E; discriminate E].
    intros cur im g n g' evs E Hc. cbn [concepts] in E.
    destruct (memo_find (ckey (CSrc i t)) (g_memo g)) as [n0|].
    + injection E as <- <- <-. split; [lia|]. split; [intros v []|constructor].
    + destruct cur as [c|]; cbn [fst snd fresh] in E; injection E as <- <- <-;
        cbn [set_memo g_next map ev_cur]; (split; [lia|]); (split; [|repeat constructor; intros []]).
      * intros v [<-|[]]. exists c. split; [reflexivity | now left].
      * intros v [<-|[]]. exists (g_next g). split; [reflexivity | right; lia].
  - split; [|intros ? ? ? E; discriminate E].
    intros cur im g n g' evs E Hc. cbn [concepts] in E.
    destruct (memo_find (ckey (CVar v)) (g_memo g)) as [n0|]; [|discriminate].
    injection E as <- <- <-. split; [lia|]. split; [intros v0 []|constructor].
  - split; [|intros ? ? ? E; discriminate E].
    intros cur im g n g' evs E Hc. cbn [concepts] in E.
    destruct (memo_find (ckey (COp i j out)) (g_memo g)) as [n0|].
    + injection E as <- <- <-. split; [lia|]. split; [intros v []|constructor].
    + destruct cur as [c|]; cbn [fst snd fresh] in E; injection E as <- <- <-;
        cbn [g_next map ev_cur]; (split; [lia|]); (split; [|repeat constructor; intros []]).
      * intros v [<-|[]]. exists c. split; [reflexivity | now left].
      * intros v [<-|[]]. exists (g_next g). split; [reflexivity | right; lia].
  - split; [|intros ? ? ? E; discriminate E].
    destruct IHf as [IHf _]. destruct IHx as [IHx IHb].
    intros cur im g n g' evs E Hc. cbn [concepts] in E.
    destruct (memo_find (ckey (CApp i f x fn)) (g_memo g)) as [n0|].
    { injection E as <- <- <-. split; [lia|]. split; [intros v []|constructor]. }
    set (cg := match cur with Some c => (c, g) | None => fresh g end) in *.
    assert (Hcg : fst cg < g_next (snd cg) /\ g_next g <= g_next (snd cg) /\
                  (cur = Some (fst cg) \/ (cur = None /\ fst cg = g_next g))).
    { unfold cg. destruct cur as [c|]; cbn [fst snd fresh g_next].
      - split; [auto|]. split; [lia | now left].
      - split; [lia|]. split; [lia | right; auto]. }
    destruct Hcg as (Hc1 & Hc2 & Hc3).
    destruct (cis_abs f); [discriminate|].
    destruct (concepts f (Some (fst cg)) im (snd cg)) as [[[fnode g1] ev1]|] eqn:Ef; [|discriminate].
    destruct (IHf _ _ _ _ _ _ Ef) as (F1 & F2 & F3); [intros c [= <-]; exact Hc1|].
    (* the argument: which expression is descended into, on which node *)
    assert (Hx : exists y xc gx xn g7 ev2, concepts y (Some xc) true gx = Some (xn, g7, ev2) /\
               NodesStmt y /\ g_next g1 <= xc < g_next gx /\
               n = fst cg /\ g' = g7 /\ evs = ev1 ++ ev2).
    { destruct fn.
      - destruct x as [xi xt | xv | xi xj xout | xi xf xx xfn | xj xps xb].
        1-4: match type of E with
             | match ?cc with _ => _ end = _ =>
                 destruct cc as [[[xn g7] ev2]|] eqn:Ex; [|discriminate]
             end; injection E as <- <- <-;
             eexists _, _, _, xn, g7, ev2; (split; [exact Ex|]); (split; [exact IHx|]);
             (split; [cbn [fst snd fresh g_next]; lia | auto]).
        match type of E with
        | match ?cc with _ => _ end = _ =>
            destruct cc as [[[xn g7] ev2]|] eqn:Ex; [|discriminate]
        end. injection E as <- <- <-.
        eexists _, _, _, xn, g7, ev2. split; [exact Ex|]. split; [exact (IHb _ _ _ eq_refl)|].
        split; [cbn [fst snd fresh bind_params g_next]; lia | auto].
      - match type of E with
        | match ?cc with _ => _ end = _ =>
            destruct cc as [[[xn g7] ev2]|] eqn:Ex; [|discriminate]
        end. injection E as <- <- <-.
        eexists _, _, _, xn, g7, ev2. split; [exact Ex|]. split; [exact IHx|].
        split; [cbn [fst snd fresh g_next]; lia | auto]. }
    destruct Hx as (y & xc & gx & xn & g7 & ev2 & Ex & IHy & Hxc & -> & -> & ->).
    destruct (IHy _ _ _ _ _ _ Ex) as (X1 & X2 & X3); [intros c [= <-]; lia|].
    split; [lia|]. split.
    + intros v Hv. apply in_app_or in Hv as [Hv|Hv].
      * destruct (F2 v Hv) as (k & Ek & Hk). exists k. split; [exact Ek|].
        destruct Hk as [[= Hk]|Hk].
        -- destruct Hc3 as [Hc3|[Hc3 Hc4]]; [left; rewrite Hc3; f_equal; exact Hk | right; lia].
        -- right. lia.
      * destruct (X2 v Hv) as (k & Ek & Hk). exists k. split; [exact Ek|].
        destruct Hk as [[= Hk]|Hk]; right; lia.
    + rewrite map_app. apply NoDup_app_disj; auto.
      intros t Ht1 Ht2. apply in_map_iff in Ht1 as (v1 & <- & Hv1).
      apply in_map_iff in Ht2 as (v2 & E2 & Hv2).
      destruct (F2 v1 Hv1) as (k1 & Ek1 & Hk1). destruct (X2 v2 Hv2) as (k2 & Ek2 & Hk2).
      rewrite Ek1, Ek2 in E2. injection E2 as ->.
      destruct Hk1 as [[= Hk1]|Hk1]; destruct Hk2 as [[= Hk2]|Hk2]; lia.
  - split.
    + intros cur im g n g' evs E Hc. cbn [concepts] in E.
      destruct (memo_find (ckey (CAbs j ps b)) (g_memo g)) as [n0|]; [|discriminate].
      injection E as <- <- <-. split; [lia|]. split; [intros v0 []|constructor].
    + intros j' ps' b' [= _ _ <-]. apply IHb.
Qed.

Theorem concepts_nodes e cur im g n g' evs : concepts e cur im g = Some (n, g', evs) ->
  (forall c, cur = Some c -> c < g_next g) ->
  g_next g <= g_next g' /\
  (forall v, In v evs -> exists k, ev_cur v = TEn k /\ inr cur (g_next g) (g_next g') k) /\
  NoDup (map ev_cur evs).
Proof. apply nodes_rec. Qed.

(* several expressions added to one graph: add_workflow *)
Theorem concepts_seq_nodes : forall es g g' evs, concepts_seq es g = Some (g', evs) ->
  g_next g <= g_next g' /\
  (forall v, In v evs -> exists k, ev_cur v = TEn k /\ g_next g <= k < g_next g') /\
  NoDup (map ev_cur evs).
Proof.
  induction es as [|e r IH]; intros g g' evs E; cbn [concepts_seq] in E.
  - injection E as <- <-. split; [lia|]. split; [intros v []|constructor].
  - destruct (memo_find (ckey e) (g_memo g)) as [n0|]; [apply IH; exact E|].
    destruct (concepts e None false g) as [[[n g1] ev1]|] eqn:Ec; [|discriminate].
    destruct (concepts_seq r (set_memo (ckey e) n g1)) as [[g2 ev2]|] eqn:Er; [|discriminate].
    injection E as <- <-.
    destruct (concepts_nodes _ _ _ _ _ _ _ Ec) as (A1 & A2 & A3); [intros c F; discriminate|].
    destruct (IH _ _ _ Er) as (B1 & B2 & B3). cbn [set_memo g_next] in B1, B2.
    split; [lia|]. split.
    + intros v Hv. apply in_app_or in Hv as [Hv|Hv].
      * destruct (A2 v Hv) as (k & Ek & [F|Hk]); [discriminate|]. exists k. split; [exact Ek | lia].
      * destruct (B2 v Hv) as (k & Ek & Hk). exists k. split; [exact Ek | lia].
    + rewrite map_app. apply NoDup_app_disj; auto.
      intros t Ht1 Ht2. apply in_map_iff in Ht1 as (v1 & <- & Hv1).
      apply in_map_iff in Ht2 as (v2 & E2 & Hv2).
      destruct (A2 v1 Hv1) as (k1 & Ek1 & [F|Hk1]); [discriminate|].
      destruct (B2 v2 Hv2) as (k2 & Ek2 & Hk2).
      rewrite Ek1, Ek2 in E2. injection E2 as ->. lia.
Qed.

(* with distinct nodes, the concept on a node is unique *)
Lemma nodup_cur_unique (evs : list ev) : NoDup (map ev_cur evs) ->
  forall v v', In v evs -> In v' evs -> ev_cur v' = ev_cur v -> v' = v.
Proof.
  induction evs as [|a r IH]; intros N v v' Hv Hv' Ec; [destruct Hv|].
  cbn [map] in N. inversion N as [|? ? Ha N']; subst.
  destruct Hv as [<-|Hv]; destruct Hv' as [<-|Hv']; auto.
  - exfalso. apply Ha. rewrite <- Ec. now apply in_map.
  - exfalso. apply Ha. rewrite Ec. now apply in_map.
Qed.

(* ------------------------------------------------------------------------ *)
(* every event is the annotation of a Source / Operation leaf of the
   expression, with the type that leaf carries *)

Fixpoint cleaves (e : cexpr) : list cexpr :=
  match e with
  | CSrc _ _ | CVar _ | COp _ _ _ => [e]
  | CApp _ f x _ => cleaves f ++ cleaves x
  | CAbs _ _ b => cleaves b
  end.

Definition ev_of_leaf (v : ev) (l : cexpr) : Prop :=
  match v, l with
  | EvSrc _ t, CSrc _ t' => t = t'
  | EvOp _ j out _, COp _ j' out' => j = j' /\ out = out'
  | _, _ => False
  end.

Definition LeafStmt (e : cexpr) : Prop :=
  forall cur im g n g' evs, concepts e cur im g = Some (n, g', evs) ->
  forall v, In v evs -> exists l, In l (cleaves e) /\ ev_of_leaf v l.

Lemma leaves_rec e : LeafStmt e /\ (forall j ps b, e = CAbs j ps b -> LeafStmt b).
Proof.
  induction e as [i t | v | i j out | i f IHf x IHx fn | j ps b IHb].
  - split; [|intros ? ? ? E; discriminate E].
    intros cur im g n g' evs E v Hv. cbn [concepts] in E.
    destruct (memo_find (ckey (CSrc i t)) (g_memo g)) as [n0|].
    + injection E as <- <- <-. destruct Hv.
    + injection E as <- <- <-. destruct Hv as [<-|[]].
      exists (CSrc i t). split; [now left | reflexivity].
  - split; [|intros ? ? ? E; discriminate E].
    intros cur im g n g' evs E v0 Hv. cbn [concepts] in E.
    destruct (memo_find (ckey (CVar v)) (g_memo g)) as [n0|]; [|discriminate].
    injection E as <- <- <-. destruct Hv.
  - split; [|intros ? ? ? E; discriminate E].
    intros cur im g n g' evs E v Hv. cbn [concepts] in E.
    destruct (memo_find (ckey (COp i j out)) (g_memo g)) as [n0|].
    + injection E as <- <- <-. destruct Hv.
    + injection E as <- <- <-. destruct Hv as [<-|[]].
      exists (COp i j out). split; [now left | split; reflexivity].
  - split; [|intros ? ? ? E; discriminate E].
    destruct IHf as [IHf _]. destruct IHx as [IHx IHb].
    intros cur im g n g' evs E v Hv. cbn [concepts] in E.
    destruct (memo_find (ckey (CApp i f x fn)) (g_memo g)) as [n0|].
    { injection E as <- <- <-. destruct Hv. }
    destruct (cis_abs f); [discriminate|].
    match type of E with
    | match ?cc with _ => _ end = _ => destruct cc as [[[fnode g1] ev1]|] eqn:Ef; [|discriminate]
    end.
    assert (Hx : exists y xc b' gx xn g7 ev2, concepts y xc b' gx = Some (xn, g7, ev2) /\
               LeafStmt y /\ incl (cleaves y) (cleaves x) /\ evs = ev1 ++ ev2).
    { destruct fn.
      - destruct x as [xi xt | xv | xi xj xout | xi xf xx xfn | xj xps xb].
        1-4: match type of E with
             | match ?cc with _ => _ end = _ =>
                 destruct cc as [[[xn g7] ev2]|] eqn:Ex; [|discriminate]
             end; injection E as <- <- <-;
             eexists _, _, _, _, xn, g7, ev2; (split; [exact Ex|]); (split; [exact IHx|]);
             (split; [apply incl_refl | reflexivity]).
        match type of E with
        | match ?cc with _ => _ end = _ =>
            destruct cc as [[[xn g7] ev2]|] eqn:Ex; [|discriminate]
        end. injection E as <- <- <-.
        eexists _, _, _, _, xn, g7, ev2. split; [exact Ex|]. split; [exact (IHb _ _ _ eq_refl)|].
        split; [cbn [cleaves]; apply incl_refl | reflexivity].
      - match type of E with
        | match ?cc with _ => _ end = _ =>
            destruct cc as [[[xn g7] ev2]|] eqn:Ex; [|discriminate]
        end. injection E as <- <- <-.
        eexists _, _, _, _, xn, g7, ev2. split; [exact Ex|]. split; [exact IHx|].
        split; [apply incl_refl | reflexivity]. }
    destruct Hx as (y & xc & b' & gx & xn & g7 & ev2 & Ex & IHy & Hi & ->).
    cbn [cleaves]. apply in_app_or in Hv as [Hv|Hv].
    + destruct (IHf _ _ _ _ _ _ Ef v Hv) as (l & Hl & Hm). exists l. split; [|exact Hm].
      apply in_or_app. now left.
    + destruct (IHy _ _ _ _ _ _ Ex v Hv) as (l & Hl & Hm). exists l. split; [|exact Hm].
      apply in_or_app. right. apply Hi. exact Hl.
  - split.
    + intros cur im g n g' evs E v Hv. cbn [concepts] in E.
      destruct (memo_find (ckey (CAbs j ps b)) (g_memo g)) as [n0|]; [|discriminate].
      injection E as <- <- <-. destruct Hv.
    + intros j' ps' b' [= _ _ <-]. apply IHb.
Qed.

Theorem concepts_leaves e cur im g n g' evs : concepts e cur im g = Some (n, g', evs) ->
  forall v, In v evs -> exists l, In l (cleaves e) /\ ev_of_leaf v l.
Proof. apply leaves_rec. Qed.

Theorem concepts_seq_leaves : forall es g g' evs, concepts_seq es g = Some (g', evs) ->
  forall v, In v evs -> exists e l, In e es /\ In l (cleaves e) /\ ev_of_leaf v l.
Proof.
  induction es as [|e r IH]; intros g g' evs E v Hv; cbn [concepts_seq] in E.
  - injection E as <- <-. destruct Hv.
  - destruct (memo_find (ckey e) (g_memo g)) as [n0|].
    { destruct (IH _ _ _ E v Hv) as (e0 & l & He0 & Hl). exists e0, l. split; [now right | exact Hl]. }
    destruct (concepts e None false g) as [[[n g1] ev1]|] eqn:Ec; [|discriminate].
    destruct (concepts_seq r (set_memo (ckey e) n g1)) as [[g2 ev2]|] eqn:Er; [|discriminate].
    injection E as <- <-. apply in_app_or in Hv as [Hv|Hv].
    + destruct (concepts_leaves _ _ _ _ _ _ _ Ec v Hv) as (l & Hl). exists e, l. split; [now left | exact Hl].
    + destruct (IH _ _ _ Er v Hv) as (e0 & l & He0 & Hl). exists e0, l. split; [now right | exact Hl].
Qed.

(* ------------------------------------------------------------------------ *)
(* several transformations with their own roots in one graph *)

Theorem concepts_roots_nodes : forall res g g' evs, concepts_roots res g = Some (g', evs) ->
  g_next g <= g_next g' /\
  (forall r v, In (r, v) evs -> exists k, ev_cur v = TEn k /\ g_next g <= k < g_next g') /\
  NoDup (map (fun p => ev_cur (snd p)) evs) /\
  (* every event carries the root of the call it was made in *)
  (forall r v, In (r, v) evs -> exists e l, In (r, e) res /\ In l (cleaves e) /\ ev_of_leaf v l).
Proof.
  induction res as [|[r0 e] rest IH]; intros g g' evs E; cbn [concepts_roots] in E.
  - injection E as <- <-. split; [lia|]. split; [intros r v []|]. split; [constructor | intros r v []].
  - destruct (concepts e None false g) as [[[n g1] ev1]|] eqn:Ec; [|discriminate].
    destruct (concepts_roots rest g1) as [[g2 ev2]|] eqn:Er; [|discriminate].
    injection E as <- <-.
    destruct (concepts_nodes _ _ _ _ _ _ _ Ec) as (A1 & A2 & A3); [intros c F; discriminate|].
    destruct (IH _ _ _ Er) as (B1 & B2 & B3 & B4).
    split; [lia|]. split; [|split].
    + intros r v Hv. apply in_app_or in Hv as [Hv|Hv].
      * apply in_map_iff in Hv as (v0 & [= <- <-] & Hv0).
        destruct (A2 v0 Hv0) as (k & Ek & [F|Hk]); [discriminate|]. exists k. split; [exact Ek | lia].
      * destruct (B2 r v Hv) as (k & Ek & Hk). exists k. split; [exact Ek | lia].
    + rewrite map_app, map_map. cbn [snd]. apply NoDup_app_disj; auto.
      intros t Ht1 Ht2. apply in_map_iff in Ht1 as (v1 & <- & Hv1).
      apply in_map_iff in Ht2 as ([r2 v2] & E2 & Hv2). cbn [snd] in E2.
      destruct (A2 v1 Hv1) as (k1 & Ek1 & [F|Hk1]); [discriminate|].
      destruct (B2 r2 v2 Hv2) as (k2 & Ek2 & Hk2).
      rewrite Ek1, Ek2 in E2. injection E2 as ->. lia.
    + intros r v Hv. apply in_app_or in Hv as [Hv|Hv].
      * apply in_map_iff in Hv as (v0 & [= <- <-] & Hv0).
        destruct (concepts_leaves _ _ _ _ _ _ _ Ec v0 Hv0) as (l & Hl & Hm).
        exists e, l. split; [now left | auto].
      * destruct (B4 r v Hv) as (e0 & l & He0 & Hl). exists e0, l. split; [now right | exact Hl].
Qed.
