(* Graph/AnnotProofs.v -- what the annotation model of Graph/Annot.v emits,
   for every list of events (every insertion history into a fresh graph):
     run_annot_exact   the tf:type / subtypeOf / via / containsType /
                       containsOperation triples are exactly those prescribed
                       per event by [EvSpec]
     run_descr_exact   the rdfs:subClassOf / rdf:_i triples are exactly the
                       descriptions of the types that got a node ([DescrOf])
     run_memo_shape, node_inj   type nodes: URI iff Language.uri has one,
                       blank otherwise, one node per distinct type
   and for the traversal:
     concepts_sim      same nodes as AddExpr.add_expr (property C08's model)
     concepts_seq_nodup  every annotated concept has its own node *)
From Coq Require Import List Arith Bool Lia.
Import ListNotations.
From TF Require Import Base.Hier Base.Ty Parse.Lang Uri.Uri Uri.UriProofs Graph.AddExpr Graph.Annot.

(* ------------------------------------------------------------------------ *)
(* generalities *)

Lemma ty_eqb_refl t : ty_eqb t t = true.
Proof. now apply ty_eqb_eq. Qed.

Lemma tfind_cons_eq t n m : tfind t ((t, n) :: m) = Some n.
Proof. cbn [tfind]. now rewrite ty_eqb_refl. Qed.

Lemma tfind_cons_neq t t' n m : t <> t' -> tfind t ((t', n) :: m) = tfind t m.
Proof.
  intros N. cbn [tfind]. destruct (ty_eqb t t') eqn:E; [|reflexivity].
  apply ty_eqb_eq in E. congruence.
Qed.

Lemma canon_mem_In t canon : canon_mem t canon = true <-> In t canon.
Proof.
  unfold canon_mem. rewrite existsb_exists. split.
  - intros (x & Hx & E). apply ty_eqb_eq in E. now subst.
  - intros Ht. exists t. split; [auto | apply ty_eqb_refl].
Qed.

Fixpoint ty_size (t : ty) : nat :=
  match t with TOp _ args => S (list_sum (map ty_size args)) end.

Lemma size_arg o args a : In a args -> ty_size a < ty_size (TOp o args).
Proof.
  intros Ha. cbn [ty_size]. induction args as [|x r IH]; [destruct Ha|].
  unfold list_sum in *. cbn [map fold_right] in *. destruct Ha as [->|Ha]; [lia|]. specialize (IH Ha). lia.
Qed.

(* s occurs in t *)
Inductive Subt : ty -> ty -> Prop :=
| subt_refl t : Subt t t
| subt_arg s o args a : In a args -> Subt s a -> Subt s (TOp o args).

Lemma Subt_size s t : Subt s t -> ty_size s <= ty_size t.
Proof.
  induction 1 as [t|s o args a Ha _ IH]; [lia|].
  pose proof (size_arg o args a Ha). lia.
Qed.

Lemma Subt_domb L s t : Subt s t -> uri_domb L t = true -> uri_domb L s = true.
Proof.
  induction 1 as [t|s o args a Ha _ IH]; [auto|].
  intros W. apply uri_domb_inv in W as (_ & _ & _ & F).
  rewrite forallb_forall in F. auto.
Qed.

Lemma term_eqb_eq a b : term_eqb a b = true <-> a = b.
Proof.
  destruct a, b; cbn [term_eqb]; try (split; [discriminate|discriminate]).
  - rewrite name_eqb_eq. split; [intros ->; reflexivity | intros [= ->]; reflexivity].
  - rewrite Nat.eqb_eq. split; [intros ->; reflexivity | intros [= ->]; reflexivity].
  - rewrite Nat.eqb_eq. split; [intros ->; reflexivity | intros [= ->]; reflexivity].
  - split; reflexivity.
Qed.

Lemma apred_eqb_eq p q : apred_eqb p q = true <-> p = q.
Proof.
  destruct p, q; cbn [apred_eqb]; try (split; [discriminate|discriminate]); try (split; reflexivity).
  rewrite Nat.eqb_eq. split; [intros ->; reflexivity | intros [= ->]; reflexivity].
Qed.

(* the executable membership test is membership *)
Lemma tr_has_In tr x : tr_has tr x = true <-> In x tr.
Proof.
  unfold tr_has. rewrite existsb_exists. split.
  - intros ([[s p] o] & Hy & E). destruct x as [[s' p'] o']. unfold atriple_eqb in E.
    cbn [fst snd] in E. apply andb_true_iff in E as [E E3]. apply andb_true_iff in E as [E1 E2].
    apply term_eqb_eq in E1, E3. apply apred_eqb_eq in E2. now subst.
  - intros Hx. exists x. split; [exact Hx|]. destruct x as [[s p] o]. unfold atriple_eqb.
    cbn [fst snd]. rewrite !andb_true_iff. repeat split;
      [apply term_eqb_eq | apply apred_eqb_eq | apply term_eqb_eq]; reflexivity.
Qed.

Definition is_descr (x : atriple) : bool :=
  match snd (fst x) with PSubClassOf | PParam _ => true | _ => false end.

Lemma apred_via_dec (p : apred) :
  {p = PVia \/ p = PContainsOperation} + {~ (p = PVia \/ p = PContainsOperation)}.
Proof. destruct p; (left; auto; fail) || (right; intros [F|F]; discriminate). Qed.

Section Proofs.
  Variable sw : switches.
  Variable L : lang.
  Variable ns : list nat.
  Variable canon : list ty.
  Variable sup : ty -> list ty.

  Notation add_type := (add_type sw L ns canon).
  Notation add_supers := (add_supers sw L ns canon).
  Notation annot_src := (annot_src sw L ns canon sup).
  Notation annot_op := (annot_op sw L ns canon sup).
  Notation step := (step sw L ns canon sup).
  Notation run := (run sw L ns canon sup).
  Notation uri := (uri L ns canon).

  Lemma uri_canon t : In t canon -> uri t <> None.
  Proof.
    intros Ht. destruct t as [o args]. cbn [Uri.uri].
    destruct (op_arity L o =? 0); [discriminate|].
    apply canon_mem_In in Ht. rewrite Ht. discriminate.
  Qed.

  (* ---------------------------------------------------------------------- *)
  (* invariant of type_nodes *)

  Definition mshape (st : tstate) : Prop :=
    forall t n, tfind t (t_memo st) = Some n ->
      match uri t with
      | Some u => n = TUri u
      | None => exists k, n = TBn k /\ k < t_next st
      end.
  Definition binj (st : tstate) : Prop :=
    forall t1 t2 k, tfind t1 (t_memo st) = Some (TBn k) ->
      tfind t2 (t_memo st) = Some (TBn k) -> t1 = t2.
  Definition MI (st : tstate) : Prop := mshape st /\ binj st.

  (* the description of a type that got its node between memo m and memo m' *)
  Definition dflag (o : nat) : bool := (0 <? op_arity L o) && w_type_params sw.
  Definition DescrOf (m m' : tmemo) (x : atriple) : Prop :=
    exists o args n, tfind (TOp o args) m = None /\ tfind (TOp o args) m' = Some n /\
      dflag o = true /\
      (x = (n, PSubClassOf, TUri (uri_op L ns (OTy o))) \/
       exists i a xa, nth_error args i = Some a /\ tfind a m' = Some xa /\
         x = (n, PParam (S i), xa)).

  Definition msub (m m' : tmemo) : Prop := forall t n, tfind t m = Some n -> tfind t m' = Some n.

  Record ext0 (st st' : tstate) : Prop := {
    x_mono : msub (t_memo st) (t_memo st');
    x_next : t_next st <= t_next st';
    x_incl : incl (t_tr st) (t_tr st');
    x_newb : forall t k, tfind t (t_memo st) = None -> tfind t (t_memo st') = Some (TBn k) ->
               t_next st <= k;
    x_dcomplete : forall o args n, tfind (TOp o args) (t_memo st) = None ->
               tfind (TOp o args) (t_memo st') = Some n -> dflag o = true ->
               In (n, PSubClassOf, TUri (uri_op L ns (OTy o))) (t_tr st') /\
               forall i a, nth_error args i = Some a ->
                 exists xa, tfind a (t_memo st') = Some xa /\ In (n, PParam (S i), xa) (t_tr st')
  }.
  Definition dsound (st st' : tstate) : Prop :=
    forall x, is_descr x = true -> In x (t_tr st') ->
      In x (t_tr st) \/ DescrOf (t_memo st) (t_memo st') x.
  Definition Ext (st st' : tstate) : Prop := ext0 st st' /\ dsound st st'.
  (* no annotation triple is added *)
  Definition same_annot (st st' : tstate) : Prop :=
    forall x, is_descr x = false -> In x (t_tr st') -> In x (t_tr st).

  Lemma msub_none m m' t : msub m m' -> tfind t m' = None -> tfind t m = None.
  Proof.
    intros M E. destruct (tfind t m) as [n|] eqn:F; [|reflexivity].
    apply M in F. congruence.
  Qed.

  Lemma DescrOf_lift m0 m1 m2 m3 x : msub m0 m1 -> msub m2 m3 ->
    DescrOf m1 m2 x -> DescrOf m0 m3 x.
  Proof.
    intros M01 M23 (o & args & n & E1 & E2 & F & D).
    exists o, args, n. split; [eapply msub_none; eauto|]. split; [auto|]. split; [auto|].
    destruct D as [->|(i & a & xa & Hi & Ha & ->)]; [now left|right].
    exists i, a, xa. auto.
  Qed.

  Lemma msub_refl m : msub m m. Proof. intros t n E; exact E. Qed.
  Lemma msub_trans m1 m2 m3 : msub m1 m2 -> msub m2 m3 -> msub m1 m3.
  Proof. intros A B t n E. auto. Qed.

  Lemma ext0_refl st : ext0 st st.
  Proof.
    split; auto using msub_refl, incl_refl.
    - intros t k E1 E2. congruence.
    - intros o args n E1 E2. congruence.
  Qed.

  Lemma ext0_trans s1 s2 s3 : ext0 s1 s2 -> ext0 s2 s3 -> ext0 s1 s3.
  Proof.
    intros A B. split.
    - eapply msub_trans; [apply A | apply B].
    - pose proof (x_next _ _ A). pose proof (x_next _ _ B). lia.
    - eapply incl_tran; [apply A | apply B].
    - intros t k E1 E3. destruct (tfind t (t_memo s2)) as [n|] eqn:E2.
      + pose proof (x_mono _ _ B _ _ E2) as E3'. rewrite E3 in E3'. injection E3' as <-.
        apply (x_newb _ _ A _ _ E1 E2).
      + pose proof (x_newb _ _ B _ _ E2 E3). pose proof (x_next _ _ A). lia.
    - intros o args n E1 E3 F. destruct (tfind (TOp o args) (t_memo s2)) as [n2|] eqn:E2.
      + pose proof (x_mono _ _ B _ _ E2) as E3'. rewrite E3 in E3'. injection E3' as <-.
        destruct (x_dcomplete _ _ A _ _ _ E1 E2 F) as [C1 C2]. split.
        * apply (x_incl _ _ B). exact C1.
        * intros i a Hi. destruct (C2 i a Hi) as (xa & Ha & Hin).
          exists xa. split; [apply (x_mono _ _ B); exact Ha | apply (x_incl _ _ B); exact Hin].
      + apply (x_dcomplete _ _ B _ _ _ E2 E3 F).
  Qed.

  Lemma Ext_refl st : Ext st st.
  Proof. split; [apply ext0_refl|]. intros x _ Hx. now left. Qed.

  Lemma Ext_trans s1 s2 s3 : Ext s1 s2 -> Ext s2 s3 -> Ext s1 s3.
  Proof.
    intros [A SA] [B SB]. split; [eapply ext0_trans; eauto|].
    intros x D Hx. destruct (SB x D Hx) as [H2|H2].
    - destruct (SA x D H2) as [H1|H1]; [now left|right].
      eapply DescrOf_lift; [apply msub_refl | apply B | exact H1].
    - right. eapply DescrOf_lift; [apply A | apply msub_refl | exact H2].
  Qed.

  Lemma same_annot_trans s1 s2 s3 : same_annot s1 s2 -> same_annot s2 s3 -> same_annot s1 s3.
  Proof. intros A B x D Hx. auto. Qed.

  (* adding one triple *)
  Lemma ext0_tadd x st : ext0 st (tadd x st).
  Proof.
    split; cbn [tadd t_memo t_next t_tr]; auto using msub_refl.
    - intros y Hy. now right.
    - intros t k E1 E2. congruence.
    - intros o args n E1 E2. congruence.
  Qed.

  Lemma Ext_tadd_annot x st : is_descr x = false -> Ext st (tadd x st).
  Proof.
    intros D. split; [apply ext0_tadd|]. intros y Dy [<-|Hy]; [congruence | now left].
  Qed.

  Lemma MI_tadd x st : MI st -> MI (tadd x st).
  Proof. intros [A B]. split; [exact A | exact B]. Qed.

  Lemma mshape_next st st' : t_memo st' = t_memo st -> t_next st <= t_next st' ->
    mshape st -> mshape st'.
  Proof.
    intros Em Hn A t n E. rewrite Em in E. specialize (A t n E).
    destruct (uri t); [exact A|]. destruct A as (k & -> & Hk). exists k. split; [reflexivity | lia].
  Qed.

  (* ---------------------------------------------------------------------- *)
  (* add_type *)

  Lemma add_type_eq t st : add_type t st =
    match tfind t (t_memo st) with
    | Some n => Some (n, st)
    | None =>
        match (match uri t with
               | Some u => Some (TUri u, st)
               | None => if w_noncanon sw then Some (tfresh st) else None
               end) with
        | None => None
        | Some (nd, st1) =>
            match (if dflag (ty_op t) then
                     add_params add_type nd (ty_args t) 1
                       (tadd (nd, PSubClassOf, TUri (uri_op L ns (OTy (ty_op t)))) st1)
                   else Some st1) with
            | None => None
            | Some st2 => Some (nd, tset t nd st2)
            end
        end
    end.
  Proof. destruct t as [o args]. reflexivity. Qed.

  (* what one call of add_type guarantees *)
  Definition good_add (t : ty) (st : tstate) (n : term) (st' : tstate) : Prop :=
    MI st' /\ Ext st st' /\ same_annot st st' /\ tfind t (t_memo st') = Some n /\
    (forall t', tfind t' (t_memo st) = None -> tfind t' (t_memo st') <> None -> Subt t' t).

  Definition P_add (t : ty) : Prop :=
    forall st n st', MI st -> add_type t st = Some (n, st') -> good_add t st n st'.

  (* the parameter loop, given the statement for every parameter *)
  Lemma add_params_ok nd : forall l, Forall P_add l -> forall i s s',
    MI s -> add_params add_type nd l i s = Some s' ->
    MI s' /\ ext0 s s' /\ same_annot s s' /\
    (forall t', tfind t' (t_memo s) = None -> tfind t' (t_memo s') <> None ->
       exists a, In a l /\ Subt t' a) /\
    (forall j a, nth_error l j = Some a ->
       exists xa, tfind a (t_memo s') = Some xa /\ In (nd, PParam (i + j), xa) (t_tr s')) /\
    (forall x, is_descr x = true -> In x (t_tr s') ->
       In x (t_tr s) \/ DescrOf (t_memo s) (t_memo s') x \/
       exists j a xa, nth_error l j = Some a /\ tfind a (t_memo s') = Some xa /\
         x = (nd, PParam (i + j), xa)).
  Proof.
    induction 1 as [|a r Pa _ IH]; intros i s s' I E; cbn [add_params] in E.
    - assert (s' = s) by congruence. subst s'. clear E.
      split; [exact I|]. split; [apply ext0_refl|]. split; [intros x _ Hx; exact Hx|].
      split; [intros t' E1 E2; congruence|].
      split; [intros j a Hj; destruct j; discriminate|]. intros x _ Hx. now left.
    - destruct (add_type a s) as [[pn s1]|] eqn:Ea; [|discriminate].
      destruct (Pa s pn s1 I Ea) as (I1 & [X1 S1] & A1 & F1 & N1).
      set (s2 := tadd (nd, PParam i, pn) s1) in *.
      assert (I2 : MI s2) by (apply MI_tadd; exact I1).
      destruct (IH (S i) s2 s' I2 E) as (I' & X2 & A2 & N2 & C2 & D2).
      assert (X12 : ext0 s s2) by (eapply ext0_trans; [exact X1 | apply ext0_tadd]).
      assert (X : ext0 s s') by (eapply ext0_trans; eauto).
      split; [exact I'|]. split; [exact X|]. split; [|split; [|split]].
      + intros x D Hx. apply A2 in Hx; auto. destruct Hx as [<-|Hx]; [discriminate|]. auto.
      + intros t' E1 E2. destruct (tfind t' (t_memo s1)) as [n1|] eqn:E11.
        * exists a. split; [now left|]. apply N1; [exact E1 | congruence].
        * destruct (N2 t' E11 E2) as (b & Hb & Sb). exists b. split; [now right | exact Sb].
      + intros j b Hj. destruct j as [|j]; cbn [nth_error] in Hj.
        * injection Hj as <-. exists pn. split.
          -- apply (x_mono _ _ X2). exact F1.
          -- apply (x_incl _ _ X2). left. f_equal. f_equal. f_equal. lia.
        * destruct (C2 j b Hj) as (xa & Ha & Hin). exists xa. split; [exact Ha|].
          replace (i + S j) with (S i + j) by lia. exact Hin.
      + intros x D Hx. destruct (D2 x D Hx) as [H2|[H2|H2]].
        * destruct H2 as [<-|H2].
          -- right; right. exists 0, a, pn. split; [reflexivity|]. split.
             ++ apply (x_mono _ _ X2). exact F1.
             ++ f_equal. f_equal. f_equal. lia.
          -- destruct (S1 x D H2) as [H1|H1]; [now left|].
             right; left. eapply DescrOf_lift; [apply msub_refl | apply X2 | exact H1].
        * right; left. eapply DescrOf_lift; [apply X12 | apply msub_refl | exact H2].
        * destruct H2 as (j & b & xa & Hj & Hb & ->). right; right.
          exists (S j), b, xa. split; [exact Hj|]. split; [exact Hb|].
          f_equal. f_equal. f_equal. lia.
  Qed.

  Lemma add_type_ok : forall t, P_add t.
  Proof.
    induction t as [o args IH] using ty_ind'. intros st n st' I E.
    rewrite add_type_eq in E. cbn [ty_op ty_args] in E.
    destruct (tfind (TOp o args) (t_memo st)) as [n0|] eqn:Ef.
    { injection E as <- <-. split; [exact I|]. split; [apply Ext_refl|].
      split; [intros x _ Hx; exact Hx|]. split; [exact Ef|]. intros t' E1 E2. congruence. }
    set (t := TOp o args) in *.
    (* the node *)
    assert (Hnode : exists nd st1, (match uri t with
               | Some u => Some (TUri u, st)
               | None => if w_noncanon sw then Some (tfresh st) else None
               end) = Some (nd, st1) /\ t_tr st1 = t_tr st /\ t_memo st1 = t_memo st /\
             t_next st <= t_next st1 /\
             match uri t with Some u => nd = TUri u
             | None => nd = TBn (t_next st) /\ t_next st1 = S (t_next st) end).
    { destruct (uri t) as [u|] eqn:Eu.
      - exists (TUri u), st. repeat split; auto.
      - destruct (w_noncanon sw); [|discriminate].
        exists (TBn (t_next st)), (snd (tfresh st)). cbn. repeat split; auto. }
    destruct Hnode as (nd & st1 & En & Etr1 & Em1 & Hn1 & Hnd). rewrite En in E.
    assert (I1 : MI st1).
    { destruct I as [A B]. split.
      - eapply mshape_next; eauto.
      - intros t1 t2 k. rewrite Em1. apply B. }
    (* the state after the description *)
    assert (Hloop : exists st2, (if dflag o then
                     add_params add_type nd args 1
                       (tadd (nd, PSubClassOf, TUri (uri_op L ns (OTy o))) st1)
                   else Some st1) = Some st2 /\ st' = tset t nd st2 /\ n = nd).
    { destruct (if dflag o then _ else _) as [st2|]; [|discriminate].
      injection E as <- <-. eauto. }
    destruct Hloop as (st2 & El & -> & ->). clear E.
    (* facts about st1 -> st2 *)
    assert (H12 : MI st2 /\ ext0 st1 st2 /\ same_annot st1 st2 /\
       (forall t', tfind t' (t_memo st1) = None -> tfind t' (t_memo st2) <> None ->
          exists a, In a args /\ Subt t' a) /\
       (dflag o = true -> In (nd, PSubClassOf, TUri (uri_op L ns (OTy o))) (t_tr st2) /\
          forall j a, nth_error args j = Some a ->
            exists xa, tfind a (t_memo st2) = Some xa /\ In (nd, PParam (S j), xa) (t_tr st2)) /\
       (forall x, is_descr x = true -> In x (t_tr st2) ->
          In x (t_tr st1) \/ DescrOf (t_memo st1) (t_memo st2) x \/
          (dflag o = true /\ (x = (nd, PSubClassOf, TUri (uri_op L ns (OTy o))) \/
           exists j a xa, nth_error args j = Some a /\ tfind a (t_memo st2) = Some xa /\
             x = (nd, PParam (S j), xa))))).
    { destruct (dflag o) eqn:Fl.
      - set (s0 := tadd (nd, PSubClassOf, TUri (uri_op L ns (OTy o))) st1) in *.
        assert (I0 : MI s0) by (apply MI_tadd; exact I1).
        destruct (add_params_ok nd args IH 1 s0 st2 I0 El) as (I2 & X2 & A2 & N2 & C2 & D2).
        split; [exact I2|]. split; [eapply ext0_trans; [apply ext0_tadd | exact X2]|].
        split; [|split; [|split]].
        + intros x D Hx. apply A2 in Hx; auto. destruct Hx as [<-|Hx]; [discriminate | exact Hx].
        + exact N2.
        + intros _. split.
          * apply (x_incl _ _ X2). now left.
          * intros j a Hj. destruct (C2 j a Hj) as (xa & Ha & Hin). exists xa. split; auto.
        + intros x D Hx. destruct (D2 x D Hx) as [H0|[H0|H0]].
          * destruct H0 as [<-|H0]; [|now left]. right; right. split; [reflexivity | now left].
          * right; left. exact H0.
          * destruct H0 as (j & a & xa & Hj & Ha & ->). right; right. split; [reflexivity|].
            right. exists j, a, xa. auto.
      - injection El as <-. split; [exact I1|]. split; [apply ext0_refl|].
        split; [intros x _ Hx; exact Hx|]. split; [intros t' E1 E2; congruence|].
        split; [discriminate|]. intros x _ Hx. now left. }
    destruct H12 as (I2 & X2 & A2 & N2 & C2 & D2).
    (* t itself is still unknown after the loop *)
    assert (Eft2 : tfind t (t_memo st2) = None).
    { destruct (tfind t (t_memo st2)) as [n2|] eqn:E2; [|reflexivity]. exfalso.
      rewrite <- Em1 in Ef. destruct (N2 t Ef) as (a & Ha & Sa); [congruence|].
      apply Subt_size in Sa. pose proof (size_arg o args a Ha). unfold t in Sa. lia. }
    assert (M2 : msub (t_memo st2) (t_memo (tset t nd st2))).
    { intros t' n' E'. cbn [tset t_memo]. rewrite tfind_cons_neq; [exact E'|]. congruence. }
    assert (M02 : msub (t_memo st) (t_memo st2)) by (rewrite <- Em1; apply X2).
    assert (Hnext : t_next st <= t_next st2) by (pose proof (x_next _ _ X2); lia).
    unfold good_add. split; [|split; [|split; [|split]]].
    - (* MI *)
      destruct I2 as [A B]. split.
      + intros t' n' E'. cbn [tset t_memo t_next] in *.
        destruct (ty_eq_dec t' t) as [->|Ne].
        * rewrite tfind_cons_eq in E'. injection E' as <-.
          destruct (uri t); [exact Hnd|]. destruct Hnd as [-> Hs].
          exists (t_next st). split; [reflexivity|]. pose proof (x_next _ _ X2). lia.
        * rewrite tfind_cons_neq in E' by exact Ne. apply A. exact E'.
      + intros t1 t2 k E1 E2. cbn [tset t_memo] in *.
        assert (Hnew : forall t', tfind t' (t_memo st2) = Some (TBn k) -> nd = TBn k -> False).
        { intros t' E' Hk. destruct (uri t) as [u|] eqn:Eu; [congruence|].
          destruct Hnd as [Hnd Hs]. rewrite Hnd in Hk. injection Hk as Hk.
          destruct (tfind t' (t_memo st)) as [n0|] eqn:E0.
          - pose proof (M02 _ _ E0) as E0'. rewrite E' in E0'. injection E0' as <-.
            destruct I as [A0 _]. specialize (A0 t' _ E0).
            destruct (uri t') as [u'|]; [discriminate|].
            destruct A0 as (k' & [= <-] & Hlt). lia.
          - rewrite <- Em1 in E0. pose proof (x_newb _ _ X2 _ _ E0 E'). lia. }
        destruct (ty_eq_dec t1 t) as [->|N1]; destruct (ty_eq_dec t2 t) as [->|N2']; auto.
        * rewrite tfind_cons_eq in E1. rewrite tfind_cons_neq in E2 by exact N2'.
          injection E1 as E1. exfalso. eapply Hnew; eauto.
        * rewrite tfind_cons_eq in E2. rewrite tfind_cons_neq in E1 by exact N1.
          injection E2 as E2. exfalso. eapply Hnew; eauto.
        * rewrite tfind_cons_neq in E1 by exact N1. rewrite tfind_cons_neq in E2 by exact N2'.
          eapply B; eauto.
    - (* Ext *)
      split.
      + split; cbn [tset t_memo t_next t_tr].
        * intros t' n' E'. apply M2. apply M02. exact E'.
        * exact Hnext.
        * rewrite <- Etr1. apply X2.
        * intros t' k E1 E2. destruct (ty_eq_dec t' t) as [->|Ne].
          -- rewrite tfind_cons_eq in E2. injection E2 as E2.
             destruct (uri t); [congruence|]. destruct Hnd as [Hnd _]. rewrite Hnd in E2.
             injection E2 as <-. lia.
          -- rewrite tfind_cons_neq in E2 by exact Ne. rewrite <- Em1 in E1.
             pose proof (x_newb _ _ X2 _ _ E1 E2). lia.
        * intros o' args' n' E1 E2 F. destruct (ty_eq_dec (TOp o' args') t) as [Et|Ne].
          -- rewrite Et in E2. rewrite tfind_cons_eq in E2. injection E2 as <-.
             unfold t in Et. injection Et as -> ->. destruct (C2 F) as [C21 C22]. split; [exact C21|].
             intros i a Hi. destruct (C22 i a Hi) as (xa & Ha & Hin). exists xa. split; [|exact Hin].
             apply M2. exact Ha.
          -- rewrite tfind_cons_neq in E2 by exact Ne. rewrite <- Em1 in E1.
             destruct (x_dcomplete _ _ X2 _ _ _ E1 E2 F) as [C1 C3]. split; [exact C1|].
             intros i a Hi. destruct (C3 i a Hi) as (xa & Ha & Hin). exists xa. split; [|exact Hin].
             apply M2. exact Ha.
      + intros x D Hx. cbn [tset t_tr t_memo] in *. destruct (D2 x D Hx) as [H1|[H1|[F H1]]].
        * left. rewrite <- Etr1. exact H1.
        * right. rewrite Em1 in H1. eapply DescrOf_lift; [apply msub_refl | exact M2 | exact H1].
        * right. exists o, args, nd. split; [exact Ef|]. split; [apply tfind_cons_eq|].
          split; [exact F|]. destruct H1 as [->|(j & a & xa & Hj & Ha & ->)]; [now left|right].
          exists j, a, xa. split; [exact Hj|]. split; [apply M2; exact Ha | reflexivity].
    - intros x D Hx. cbn [tset t_tr] in Hx. rewrite <- Etr1. apply A2; auto.
    - cbn [tset t_memo]. apply tfind_cons_eq.
    - intros t' E1 E2. cbn [tset t_memo] in E2. destruct (ty_eq_dec t' t) as [->|Ne]; [constructor|].
      rewrite tfind_cons_neq in E2 by exact Ne. rewrite <- Em1 in E1.
      destruct (N2 t' E1 E2) as (a & Ha & Sa). econstructor; eauto.
  Qed.

  (* ---------------------------------------------------------------------- *)
  (* annotation triples *)

  Lemma MI_same_memo s s' : t_memo s' = t_memo s -> t_next s' = t_next s -> MI s -> MI s'.
  Proof.
    intros Em En [A B]. split.
    - eapply mshape_next; eauto. lia.
    - intros t1 t2 k. rewrite Em. apply B.
  Qed.

  Lemma Ext_same_memo s s' : t_memo s' = t_memo s -> t_next s' = t_next s ->
    incl (t_tr s) (t_tr s') ->
    (forall y, In y (t_tr s') -> In y (t_tr s) \/ is_descr y = false) -> Ext s s'.
  Proof.
    intros Em En Hi Hd. split.
    - split; rewrite ?Em, ?En; auto using msub_refl.
      + intros t k E1 E2. congruence.
      + intros o args n E1 E2. congruence.
    - intros x D Hx. destruct (Hd x Hx) as [H|H]; [now left | congruence].
  Qed.

  Definition typed (e : ev) : bool :=
    match e with
    | EvSrc _ t => w_types sw && (canon_mem t canon || w_noncanon sw)
    | EvOp _ _ out im =>
        w_types sw && (w_noncanon sw || canon_mem out canon) && (w_intermediate sw || negb im)
    end.

  (* what one annotated concept contributes, nodes taken from the memo M *)
  Inductive EvSpec (root : term) (e : ev) (M : tmemo) : atriple -> Prop :=
  | es_type n : typed e = true -> tfind (ev_ty e) M = Some n ->
      EvSpec root e M (ev_cur e, PType, n)
  | es_self n : typed e = true -> w_supertypes sw = true ->
      canon_mem (ev_ty e) canon = true -> tfind (ev_ty e) M = Some n ->
      EvSpec root e M (ev_cur e, PSubtypeOf, n)
  | es_sup s n : typed e = true -> w_supertypes sw = true ->
      canon_mem (ev_ty e) canon = true -> In s (sup (ev_ty e)) -> tfind s M = Some n ->
      EvSpec root e M (ev_cur e, PSubtypeOf, n)
  | es_mtype n : typed e = true -> w_membership sw = true -> tfind (ev_ty e) M = Some n ->
      EvSpec root e M (root, PContainsType, n)
  | es_msup s n : typed e = true -> w_membership_super sw = true ->
      canon_mem (ev_ty e) canon = true -> In s (sup (ev_ty e)) -> tfind s M = Some n ->
      EvSpec root e M (root, PContainsType, n)
  | es_via c j out im : e = EvOp c j out im -> w_operators sw = true ->
      EvSpec root e M (c, PVia, TUri (uri_op L ns (OOp j)))
  | es_mop c j out im : e = EvOp c j out im -> w_operators sw = true ->
      w_membership sw = true ->
      EvSpec root e M (root, PContainsOperation, TUri (uri_op L ns (OOp j))).

  Definition covered (e : ev) (m : tmemo) : Prop :=
    typed e = true ->
    (exists n, tfind (ev_ty e) m = Some n) /\
    (canon_mem (ev_ty e) canon = true ->
       forall s, In s (sup (ev_ty e)) -> exists n, tfind s m = Some n).

  Lemma EvSpec_mono root e m M x : msub m M -> EvSpec root e m x -> EvSpec root e M x.
  Proof.
    intros S H. destruct H; [eapply es_type | eapply es_self | eapply es_sup | eapply es_mtype
      | eapply es_msup | eapply es_via | eapply es_mop]; eauto.
  Qed.

  Lemma EvSpec_back root e m M x : covered e m -> msub m M ->
    EvSpec root e M x -> EvSpec root e m x.
  Proof.
    intros C S H. destruct H as [n T E|n T W Cn E|s n T W Cn Hs E|n T W E|s n T W Cn Hs E| |].
    - destruct (C T) as [(n0 & E0) _]. pose proof (S _ _ E0). replace n with n0 by congruence.
      now constructor.
    - destruct (C T) as [(n0 & E0) _]. pose proof (S _ _ E0). replace n with n0 by congruence.
      now constructor.
    - destruct (C T) as [_ C2]. destruct (C2 Cn s Hs) as (n0 & E0). pose proof (S _ _ E0).
      replace n with n0 by congruence. eapply es_sup; eauto.
    - destruct (C T) as [(n0 & E0) _]. pose proof (S _ _ E0). replace n with n0 by congruence.
      now constructor.
    - destruct (C T) as [_ C2]. destruct (C2 Cn s Hs) as (n0 & E0). pose proof (S _ _ E0).
      replace n with n0 by congruence. eapply es_msup; eauto.
    - eapply es_via; eauto.
    - eapply es_mop; eauto.
  Qed.

  Lemma covered_mono e m M : msub m M -> covered e m -> covered e M.
  Proof.
    intros S C T. destruct (C T) as [(n & E) C2]. split; [exists n; auto|].
    intros Cn s Hs. destruct (C2 Cn s Hs) as (n0 & E0). exists n0. auto.
  Qed.

  Lemma add_supers_ok root cur : forall ss st st', MI st ->
    add_supers root cur ss st = Some st' ->
    MI st' /\ Ext st st' /\
    (forall s, In s ss -> exists n, tfind s (t_memo st') = Some n /\
       (w_membership_super sw = true -> In (root, PContainsType, n) (t_tr st')) /\
       (w_supertypes sw = true -> In (cur, PSubtypeOf, n) (t_tr st'))) /\
    (forall x, is_descr x = false -> In x (t_tr st') -> In x (t_tr st) \/
       exists s n, In s ss /\ tfind s (t_memo st') = Some n /\
         ((w_membership_super sw = true /\ x = (root, PContainsType, n)) \/
          (w_supertypes sw = true /\ x = (cur, PSubtypeOf, n)))).
  Proof.
    induction ss as [|s r IH]; intros st st' I E; cbn [Annot.add_supers] in E.
    - assert (st' = st) by congruence. subst st'.
      split; [exact I|]. split; [apply Ext_refl|]. split; [intros s []|]. intros x _ Hx. now left.
    - destruct (add_type s st) as [[sn st1]|] eqn:Ea; [|discriminate].
      destruct (add_type_ok s st sn st1 I Ea) as (I1 & X1 & A1 & F1 & _).
      set (st2 := if w_membership_super sw then tadd (root, PContainsType, sn) st1 else st1) in *.
      set (st3 := if w_supertypes sw then tadd (cur, PSubtypeOf, sn) st2 else st2) in *.
      assert (Em3 : t_memo st3 = t_memo st1)
        by (unfold st3, st2; destruct (w_supertypes sw), (w_membership_super sw); reflexivity).
      assert (En3 : t_next st3 = t_next st1)
        by (unfold st3, st2; destruct (w_supertypes sw), (w_membership_super sw); reflexivity).
      assert (T3 : forall y, In y (t_tr st3) <-> In y (t_tr st1) \/
                (w_membership_super sw = true /\ y = (root, PContainsType, sn)) \/
                (w_supertypes sw = true /\ y = (cur, PSubtypeOf, sn))).
      { intros y. unfold st3, st2.
        destruct (w_supertypes sw), (w_membership_super sw); cbn [tadd t_tr In];
          intuition congruence. }
      assert (I3 : MI st3) by (eapply MI_same_memo; eauto).
      assert (X13 : Ext st1 st3).
      { apply Ext_same_memo; auto.
        - intros y Hy. apply T3. now left.
        - intros y Hy. apply T3 in Hy. destruct Hy as [Hy|[[_ ->]|[_ ->]]]; auto. }
      destruct (IH st3 st' I3 E) as (I' & X3 & C3 & S3).
      assert (X : Ext st st') by (eapply Ext_trans; [exact X1|]; eapply Ext_trans; eauto).
      split; [exact I'|]. split; [exact X|]. split.
      + intros s0 [<-|Hs0]; [|apply C3; exact Hs0].
        exists sn. split; [|split].
        * apply (x_mono _ _ (proj1 X3)). rewrite Em3. exact F1.
        * intros W. apply (x_incl _ _ (proj1 X3)). apply T3. right; left. auto.
        * intros W. apply (x_incl _ _ (proj1 X3)). apply T3. right; right. auto.
      + intros x D Hx. destruct (S3 x D Hx) as [H3|(s0 & n & Hs0 & En & Hc)].
        * apply T3 in H3. destruct H3 as [H1|H3].
          -- left. apply A1; auto.
          -- right. exists s, sn. split; [now left|]. split.
             ++ apply (x_mono _ _ (proj1 X3)). rewrite Em3. exact F1.
             ++ exact H3.
        * right. exists s0, n. split; [now right|]. auto.
  Qed.

  (* the part of both branches after add_type: type, self, membership, supertypes *)
  Lemma tail_ok root e st tn st1 stA st' :
    MI st -> add_type (ev_ty e) st = Some (tn, st1) -> typed e = true ->
    t_memo stA = t_memo st1 -> t_next stA = t_next st1 ->
    (forall y, In y (t_tr stA) <-> In y (t_tr st1) \/ y = (ev_cur e, PType, tn) \/
       (w_supertypes sw && canon_mem (ev_ty e) canon = true /\ y = (ev_cur e, PSubtypeOf, tn)) \/
       (w_membership sw = true /\ y = (root, PContainsType, tn))) ->
    (if canon_mem (ev_ty e) canon then add_supers root (ev_cur e) (sup (ev_ty e)) stA
     else Some stA) = Some st' ->
    MI st' /\ Ext st st' /\ covered e (t_memo st') /\
    (forall x, is_descr x = false -> In x (t_tr st') ->
       In x (t_tr st) \/ EvSpec root e (t_memo st') x) /\
    (forall x, EvSpec root e (t_memo st') x -> snd (fst x) <> PVia ->
       snd (fst x) <> PContainsOperation -> In x (t_tr st')).
  Proof.
    intros I Ea T Em En TA E.
    destruct (add_type_ok _ st tn st1 I Ea) as (I1 & X1 & A1 & F1 & _).
    assert (IA : MI stA) by (eapply MI_same_memo; eauto).
    assert (X1A : Ext st1 stA).
    { apply Ext_same_memo; auto.
      - intros y Hy. apply TA. now left.
      - intros y Hy. apply TA in Hy. destruct Hy as [Hy|[->|[[_ ->]|[_ ->]]]]; auto. }
    assert (XA : Ext st stA) by (eapply Ext_trans; eauto).
    assert (FA : tfind (ev_ty e) (t_memo stA) = Some tn) by (rewrite Em; exact F1).
    destruct (canon_mem (ev_ty e) canon) eqn:Cn.
    - destruct (add_supers_ok root (ev_cur e) _ stA st' IA E) as (I' & XS & CS & SS).
      assert (F' : tfind (ev_ty e) (t_memo st') = Some tn) by (apply (x_mono _ _ (proj1 XS)); exact FA).
      split; [exact I'|]. split; [eapply Ext_trans; eauto|]. split; [|split].
      + intros _. split; [eauto|]. intros _ s Hs. destruct (CS s Hs) as (n & En' & _). eauto.
      + intros x D Hx. destruct (SS x D Hx) as [HA|(s & n & Hs & Es & Hc)].
        * apply TA in HA. destruct HA as [H1|[->|[[W ->]|[W ->]]]].
          -- left. apply A1; auto.
          -- right. now constructor.
          -- right. apply andb_true_iff in W as [W _]. now constructor.
          -- right. now constructor.
        * right. destruct Hc as [[W ->]|[W ->]]; [eapply es_msup | eapply es_sup]; eauto.
      + intros x H N1 N2.
        destruct H as [n _ E1|n _ W _ E1|s n _ W _ Hs E1|n _ W E1|s n _ W _ Hs E1| |];
          cbn [fst snd] in N1, N2; try congruence.
        * replace n with tn by congruence. apply (x_incl _ _ (proj1 XS)). apply TA. auto.
        * replace n with tn by congruence. apply (x_incl _ _ (proj1 XS)). apply TA.
          right; right; left. rewrite W. auto.
        * destruct (CS s Hs) as (n0 & E0 & _ & H0). replace n with n0 by congruence. auto.
        * replace n with tn by congruence. apply (x_incl _ _ (proj1 XS)). apply TA. auto.
        * destruct (CS s Hs) as (n0 & E0 & H0 & _). replace n with n0 by congruence. auto.
    - assert (st' = stA) by congruence. subst st'.
      split; [exact IA|]. split; [exact XA|]. split; [|split].
      + intros _. split; [eauto|]. intros F. congruence.
      + intros x D Hx. apply TA in Hx. destruct Hx as [H1|[->|[[W ->]|[W ->]]]].
        * left. apply A1; auto.
        * right. now constructor.
        * rewrite andb_false_r in W. discriminate.
        * right. now constructor.
      + intros x H N1 N2.
        destruct H as [n _ E1|n _ W F E1|s n _ W F Hs E1|n _ W E1|s n _ W F Hs E1| |];
          cbn [fst snd] in N1, N2; try congruence.
        * replace n with tn by congruence. apply TA. auto.
        * replace n with tn by congruence. apply TA. auto.
  Qed.

  Definition good_step (root : term) (e : ev) (st st' : tstate) : Prop :=
    MI st' /\ Ext st st' /\ covered e (t_memo st') /\
    (forall x, is_descr x = false -> In x (t_tr st') ->
       In x (t_tr st) \/ EvSpec root e (t_memo st') x) /\
    (forall x, EvSpec root e (t_memo st') x -> In x (t_tr st')).

  Lemma annot_src_ok root cur t st st' : MI st -> annot_src root cur t st = Some st' ->
    good_step root (EvSrc cur t) st st'.
  Proof.
    intros I E. unfold Annot.annot_src in E.
    destruct (w_types sw && (canon_mem t canon || w_noncanon sw)) eqn:T.
    - destruct (add_type t st) as [[tn st1]|] eqn:Ea; [|discriminate].
      match type of E with (if _ then _ ?r ?s else _) = _ => set (stA := s) in * end.
      destruct (tail_ok root (EvSrc cur t) st tn st1 stA st' I Ea T) as (I' & X & C & S1 & S2).
      + unfold stA. destruct (w_membership sw), (w_supertypes sw && canon_mem t canon); reflexivity.
      + unfold stA. destruct (w_membership sw), (w_supertypes sw && canon_mem t canon); reflexivity.
      + intros y. unfold stA. cbn [ev_cur ev_ty].
        destruct (w_membership sw), (w_supertypes sw && canon_mem t canon);
          cbn [tadd t_tr In]; intuition congruence.
      + exact E.
      + split; [exact I'|]. split; [exact X|]. split; [exact C|]. split; [exact S1|].
        intros x H. apply S2; [exact H| |]; destruct H; cbn [fst snd]; congruence.
    - assert (st' = st) by congruence. subst st'.
      split; [exact I|]. split; [apply Ext_refl|]. split; [intros F; cbn [typed] in F; congruence|].
      split; [intros x _ Hx; now left|].
      intros x H. destruct H; cbn [typed] in *; congruence.
  Qed.

  Lemma annot_op_ok root cur j out im st st' : MI st ->
    annot_op root cur j out im st = Some st' ->
    good_step root (EvOp cur j out im) st st'.
  Proof.
    intros I E. unfold Annot.annot_op in E.
    match type of E with (if _ then match _ _ ?s with _ => _ end else _) = _ =>
      set (st0 := s) in * end.
    assert (Em0 : t_memo st0 = t_memo st)
      by (unfold st0; destruct (w_operators sw), (w_membership sw); reflexivity).
    assert (En0 : t_next st0 = t_next st)
      by (unfold st0; destruct (w_operators sw), (w_membership sw); reflexivity).
    assert (T0 : forall y, In y (t_tr st0) <-> In y (t_tr st) \/
        (w_operators sw = true /\ y = (cur, PVia, TUri (uri_op L ns (OOp j)))) \/
        (w_operators sw = true /\ w_membership sw = true /\
           y = (root, PContainsOperation, TUri (uri_op L ns (OOp j))))).
    { intros y. unfold st0. destruct (w_operators sw), (w_membership sw);
        cbn [tadd t_tr In]; intuition congruence. }
    assert (I0 : MI st0) by (eapply MI_same_memo; eauto).
    assert (X0 : Ext st st0).
    { apply Ext_same_memo; auto.
      - intros y Hy. apply T0. now left.
      - intros y Hy. apply T0 in Hy. destruct Hy as [Hy|[[_ ->]|[_ [_ ->]]]]; auto. }
    assert (V : forall M x, EvSpec root (EvOp cur j out im) M x ->
              snd (fst x) = PVia \/ snd (fst x) = PContainsOperation -> In x (t_tr st0)).
    { intros M x H Hp. destruct H as [| | | | |c j' o' i' Ee W|c j' o' i' Ee W W2];
        cbn [fst snd] in Hp; try (destruct Hp; congruence).
      - injection Ee as <- <- <- <-. apply T0. auto.
      - injection Ee as <- <- <- <-. apply T0. auto. }
    assert (V2 : forall M y, In y (t_tr st0) -> In y (t_tr st) \/ EvSpec root (EvOp cur j out im) M y).
    { intros M y Hy. apply T0 in Hy. destruct Hy as [Hy|[[W ->]|[W [W2 ->]]]]; [now left| |].
      - right. eapply es_via; eauto.
      - right. eapply es_mop; eauto. }
    destruct (w_types sw && (w_noncanon sw || canon_mem out canon) &&
              (w_intermediate sw || negb im)) eqn:T.
    - destruct (add_type out st0) as [[tn st1]|] eqn:Ea; [|discriminate].
      match type of E with (if _ then _ ?r ?s else _) = _ => set (stA := s) in * end.
      destruct (tail_ok root (EvOp cur j out im) st0 tn st1 stA st' I0 Ea T) as (I' & X & C & S1 & S2).
      + unfold stA. destruct (w_membership sw), (w_supertypes sw && canon_mem out canon); reflexivity.
      + unfold stA. destruct (w_membership sw), (w_supertypes sw && canon_mem out canon); reflexivity.
      + intros y. unfold stA. cbn [ev_cur ev_ty].
        destruct (w_membership sw), (w_supertypes sw && canon_mem out canon);
          cbn [tadd t_tr In]; intuition congruence.
      + exact E.
      + split; [exact I'|]. split; [eapply Ext_trans; eauto|]. split; [exact C|]. split.
        * intros x D Hx. destruct (S1 x D Hx) as [H0|H0]; [|now right]. apply V2. exact H0.
        * intros x H. destruct (apred_via_dec (snd (fst x))) as [Hp|Hp].
          -- apply (x_incl _ _ (proj1 X)). eapply V; eauto.
          -- apply S2; [exact H| |]; intros F; apply Hp; auto.
    - assert (st' = st0) by congruence. subst st'.
      split; [exact I0|]. split; [exact X0|]. split; [intros F; cbn [typed] in F; congruence|].
      split.
      + intros x _ Hx. apply V2. exact Hx.
      + intros x H. eapply V; [exact H|].
        destruct H; cbn [typed fst snd] in *; try congruence; auto.
  Qed.

  Lemma step_ok root e st st' : MI st -> step root e st = Some st' -> good_step root e st st'.
  Proof. destruct e; cbn [Annot.step]; [apply annot_src_ok | apply annot_op_ok]. Qed.

  Lemma run_ok root : forall evs st st', MI st -> run root evs st = Some st' ->
    MI st' /\ Ext st st' /\ (forall e, In e evs -> covered e (t_memo st')) /\
    (forall x, is_descr x = false -> In x (t_tr st') ->
       In x (t_tr st) \/ exists e, In e evs /\ EvSpec root e (t_memo st') x) /\
    (forall e x, In e evs -> EvSpec root e (t_memo st') x -> In x (t_tr st')).
  Proof.
    induction evs as [|e r IH]; intros st st' I E; cbn [Annot.run] in E.
    - assert (st' = st) by congruence. subst st'.
      split; [exact I|]. split; [apply Ext_refl|]. split; [intros e []|].
      split; [intros x _ Hx; now left | intros e x []].
    - destruct (step root e st) as [s1|] eqn:Es; [|discriminate].
      destruct (step_ok root e st s1 I Es) as (I1 & X1 & C1 & S1 & B1).
      destruct (IH s1 st' I1 E) as (I' & X2 & C2 & S2 & B2).
      pose proof (x_mono _ _ (proj1 X2)) as M.
      split; [exact I'|]. split; [eapply Ext_trans; eauto|]. split; [|split].
      + intros e0 [<-|He0]; [eapply covered_mono; eauto | auto].
      + intros x D Hx. destruct (S2 x D Hx) as [H1|(e0 & He0 & H0)].
        * destruct (S1 x D H1) as [H|H]; [now left|]. right. exists e. split; [now left|].
          eapply EvSpec_mono; eauto.
        * right. exists e0. split; [now right | exact H0].
      + intros e0 x [<-|He0] H.
        * apply (x_incl _ _ (proj1 X2)). apply B1. eapply EvSpec_back; eauto.
        * eapply B2; eauto.
  Qed.

  (* ---------------------------------------------------------------------- *)
  (* which types ever get a node: subterms of the types handed to add_type *)

  Section Dom.
    Variable Pd : ty -> Prop.
    Hypothesis Pd_sub : forall s t, Subt s t -> Pd t -> Pd s.
    Definition mdom (st : tstate) : Prop := forall t n, tfind t (t_memo st) = Some n -> Pd t.

    Lemma add_type_dom t st n st' : MI st -> mdom st -> Pd t ->
      add_type t st = Some (n, st') -> mdom st'.
    Proof.
      intros I D Pt E. destruct (add_type_ok t st n st' I E) as (_ & _ & _ & _ & N).
      intros t' n' E'. destruct (tfind t' (t_memo st)) as [n0|] eqn:E0; [eapply D; eauto|].
      eapply Pd_sub; [|exact Pt]. apply N; [exact E0 | congruence].
    Qed.

    Lemma add_supers_dom root cur : forall ss st st', MI st -> mdom st -> Forall Pd ss ->
      add_supers root cur ss st = Some st' -> mdom st'.
    Proof.
      induction ss as [|s r IH]; intros st st' I D F E; cbn [Annot.add_supers] in E.
      - assert (st' = st) by congruence. now subst.
      - destruct (add_type s st) as [[sn st1]|] eqn:Ea; [|discriminate].
        inversion F as [|? ? Ps Fr]; subst.
        destruct (add_type_ok s st sn st1 I Ea) as (I1 & _).
        pose proof (add_type_dom s st sn st1 I D Ps Ea) as D1.
        eapply IH; [| |exact Fr|exact E].
        + eapply MI_same_memo; [| |exact I1];
            destruct (w_supertypes sw), (w_membership_super sw); reflexivity.
        + intros t n. destruct (w_supertypes sw), (w_membership_super sw); apply D1.
    Qed.

    Lemma step_dom root e st st' : MI st -> mdom st -> Pd (ev_ty e) ->
      Forall Pd (sup (ev_ty e)) -> step root e st = Some st' -> mdom st'.
    Proof.
      intros I D Pt Ps E. destruct e as [cur t|cur j out im]; cbn [Annot.step ev_ty] in *.
      - unfold Annot.annot_src in E.
        destruct (w_types sw && (canon_mem t canon || w_noncanon sw));
          [|replace st' with st by congruence; exact D].
        destruct (add_type t st) as [[tn st1]|] eqn:Ea; [|discriminate].
        destruct (add_type_ok t st tn st1 I Ea) as (I1 & _).
        pose proof (add_type_dom t st tn st1 I D Pt Ea) as D1.
        match type of E with (if _ then _ ?r ?s else _) = _ => set (stA := s) in * end.
        assert (Em : t_memo stA = t_memo st1)
          by (unfold stA; destruct (w_membership sw), (w_supertypes sw && canon_mem t canon); reflexivity).
        assert (En : t_next stA = t_next st1)
          by (unfold stA; destruct (w_membership sw), (w_supertypes sw && canon_mem t canon); reflexivity).
        assert (DA : mdom stA) by (intros t' n'; rewrite Em; apply D1).
        destruct (canon_mem t canon); [|replace st' with stA by congruence; exact DA].
        eapply add_supers_dom; [| | |exact E]; auto. eapply MI_same_memo; eauto.
      - unfold Annot.annot_op in E.
        match type of E with (if _ then match _ _ ?s with _ => _ end else _) = _ =>
          set (st0 := s) in * end.
        assert (Em0 : t_memo st0 = t_memo st)
          by (unfold st0; destruct (w_operators sw), (w_membership sw); reflexivity).
        assert (En0 : t_next st0 = t_next st)
          by (unfold st0; destruct (w_operators sw), (w_membership sw); reflexivity).
        assert (I0 : MI st0) by (eapply MI_same_memo; eauto).
        assert (D0 : mdom st0) by (intros t' n'; rewrite Em0; apply D).
        destruct (w_types sw && (w_noncanon sw || canon_mem out canon) &&
                  (w_intermediate sw || negb im));
          [|replace st' with st0 by congruence; exact D0].
        destruct (add_type out st0) as [[tn st1]|] eqn:Ea; [|discriminate].
        destruct (add_type_ok out st0 tn st1 I0 Ea) as (I1 & _).
        pose proof (add_type_dom out st0 tn st1 I0 D0 Pt Ea) as D1.
        match type of E with (if _ then _ ?r ?s else _) = _ => set (stA := s) in * end.
        assert (Em : t_memo stA = t_memo st1)
          by (unfold stA; destruct (w_membership sw), (w_supertypes sw && canon_mem out canon); reflexivity).
        assert (En : t_next stA = t_next st1)
          by (unfold stA; destruct (w_membership sw), (w_supertypes sw && canon_mem out canon); reflexivity).
        assert (DA : mdom stA) by (intros t' n'; rewrite Em; apply D1).
        destruct (canon_mem out canon); [|replace st' with stA by congruence; exact DA].
        eapply add_supers_dom; [| | |exact E]; auto. eapply MI_same_memo; eauto.
    Qed.

    Lemma run_dom root : forall evs st st', MI st -> mdom st ->
      (forall e, In e evs -> Pd (ev_ty e) /\ Forall Pd (sup (ev_ty e))) ->
      run root evs st = Some st' -> mdom st'.
    Proof.
      induction evs as [|e r IH]; intros st st' I D F E; cbn [Annot.run] in E.
      - assert (st' = st) by congruence. now subst.
      - destruct (step root e st) as [s1|] eqn:Es; [|discriminate].
        destruct (step_ok root e st s1 I Es) as (I1 & _).
        destruct (F e (or_introl eq_refl)) as [Pt Ps].
        eapply IH; [exact I1| | |exact E].
        + eapply (step_dom root e st s1); eauto.
        + intros e0 He0. apply F. now right.
    Qed.
  End Dom.

  (* ---------------------------------------------------------------------- *)
  (* a fresh graph *)

  Notation init_memo := (init_memo sw L ns canon).
  Notation tinit := (tinit sw L ns canon).

  Lemma init_memo_spec t n : tfind t init_memo = Some n ->
    exists u, uri t = Some u /\ n = TUri u /\ In t canon /\ w_canonical_types sw = false.
  Proof.
    unfold Annot.init_memo. destruct (w_canonical_types sw); [discriminate|].
    induction canon as [|a r IH]; cbn [flat_map]; [discriminate|].
    destruct (Uri.uri L ns (a :: r) a) as [u|] eqn:Eu.
  Abort.

  Lemma init_memo_gen (f : ty -> option (list nat)) (l : list ty) t n :
    tfind t (flat_map (fun t => match f t with Some u => [(t, TUri u)] | None => [] end) l) = Some n ->
    exists u, f t = Some u /\ n = TUri u /\ In t l.
  Proof.
    induction l as [|a r IH]; cbn [flat_map]; [discriminate|].
    destruct (f a) as [u|] eqn:Eu; cbn [app tfind].
    - destruct (ty_eqb t a) eqn:Ea.
      + apply ty_eqb_eq in Ea. subst a. intros [= <-]. exists u. auto with datatypes.
      + intros E. destruct (IH E) as (u' & H1 & H2 & H3). exists u'. auto with datatypes.
    - intros E. destruct (IH E) as (u' & H1 & H2 & H3). exists u'. auto with datatypes.
  Qed.

  Lemma init_memo_gen_complete (f : ty -> option (list nat)) (l : list ty) t u :
    In t l -> f t = Some u ->
    tfind t (flat_map (fun t => match f t with Some u => [(t, TUri u)] | None => [] end) l)
      = Some (TUri u).
  Proof.
    induction l as [|a r IH]; intros Ht Eu; [destruct Ht|]. cbn [flat_map].
    destruct (ty_eq_dec t a) as [<-|Ne].
    - rewrite Eu. cbn [app]. apply tfind_cons_eq.
    - destruct Ht as [->|Ht]; [congruence|]. destruct (f a); cbn [app]; auto.
      rewrite tfind_cons_neq by exact Ne. auto.
  Qed.

  Lemma init_memo_spec t n : tfind t init_memo = Some n ->
    exists u, uri t = Some u /\ n = TUri u /\ In t canon /\ w_canonical_types sw = false.
  Proof.
    unfold Annot.init_memo. destruct (w_canonical_types sw); [discriminate|].
    intros E. apply init_memo_gen in E as (u & H1 & H2 & H3). exists u. auto.
  Qed.

  Lemma init_memo_complete t : w_canonical_types sw = false -> In t canon ->
    exists u, uri t = Some u /\ tfind t init_memo = Some (TUri u).
  Proof.
    intros W Ht. unfold Annot.init_memo. rewrite W.
    destruct (uri t) as [u|] eqn:Eu; [|now apply uri_canon in Ht].
    exists u. split; [reflexivity|]. now apply init_memo_gen_complete.
  Qed.

  Lemma MI_tinit : MI tinit.
  Proof.
    split.
    - intros t n E. cbn [Annot.tinit t_memo] in E.
      apply init_memo_spec in E as (u & -> & -> & _). reflexivity.
    - intros t1 t2 k E. cbn [Annot.tinit t_memo] in E.
      apply init_memo_spec in E as (u & _ & F & _). discriminate.
  Qed.

  Lemma EvSpec_mop_inv root e M r o : EvSpec root e M (r, PContainsOperation, o) ->
    r = root /\ w_operators sw = true /\ w_membership sw = true /\
    exists c j out im, e = EvOp c j out im /\ o = TUri (uri_op L ns (OOp j)).
  Proof. intros H. inversion H; subst. repeat split; auto. eauto 8. Qed.

  Section Fresh.
    Variable root : term.
    Variable evs : list ev.
    Variable st : tstate.
    Hypothesis Hrun : run root evs tinit = Some st.

    Let R := run_ok root evs tinit st MI_tinit Hrun.

    Theorem run_annot_exact x : is_descr x = false ->
      (In x (t_tr st) <-> exists e, In e evs /\ EvSpec root e (t_memo st) x).
    Proof.
      destruct R as (_ & _ & _ & S & B). intros D. split.
      - intros Hx. destruct (S x D Hx) as [[]|H]. exact H.
      - intros (e & He & H). eapply B; eauto.
    Qed.

    Theorem run_descr_exact x : is_descr x = true ->
      (In x (t_tr st) <-> DescrOf init_memo (t_memo st) x).
    Proof.
      destruct R as (_ & [X DS] & _). intros D. split.
      - intros Hx. destruct (DS x D Hx) as [[]|H]. exact H.
      - intros (o & args & n & E1 & E2 & F & H).
        destruct (x_dcomplete _ _ X o args n E1 E2 F) as [C1 C2].
        destruct H as [->|(i & a & xa & Hi & Ha & ->)]; [exact C1|].
        destruct (C2 i a Hi) as (xa' & Ha' & Hin). replace xa with xa' by congruence. exact Hin.
    Qed.

    Theorem run_covered e : In e evs -> covered e (t_memo st).
    Proof. destruct R as (_ & _ & C & _). apply C. Qed.

    Theorem run_memo_shape t n : tfind t (t_memo st) = Some n ->
      match uri t with Some u => n = TUri u | None => exists k, n = TBn k end.
    Proof.
      destruct R as ([A _] & _). intros E. specialize (A t n E).
      destruct (uri t); [exact A|]. destruct A as (k & -> & _). eauto.
    Qed.

    Theorem run_memo_init t n : tfind t init_memo = Some n -> tfind t (t_memo st) = Some n.
    Proof. destruct R as (_ & [X _] & _). apply (x_mono _ _ X). Qed.

    (* every type with a node occurs in a type handed over, in the canon (when
       known beforehand) or among the supertypes asked for *)
    Theorem run_memo_dom (Pd : ty -> Prop) :
      (forall s t, Subt s t -> Pd t -> Pd s) -> Forall Pd canon ->
      (forall e, In e evs -> Pd (ev_ty e) /\ Forall Pd (sup (ev_ty e))) ->
      forall t n, tfind t (t_memo st) = Some n -> Pd t.
    Proof.
      intros Ps Pc Pe. eapply (run_dom Pd Ps root evs tinit st MI_tinit); [|exact Pe|exact Hrun].
      intros t n E. cbn [Annot.tinit t_memo] in E. apply init_memo_spec in E as (_ & _ & _ & Hc & _).
      rewrite Forall_forall in Pc. auto.
    Qed.

    (* one node per distinct type *)
    Theorem node_inj t1 t2 n : lang_uri_okb L = true -> wf_nsb ns = true ->
      uri_domb L t1 = true -> uri_domb L t2 = true ->
      tfind t1 (t_memo st) = Some n -> tfind t2 (t_memo st) = Some n -> t1 = t2.
    Proof.
      intros HL Wn W1 W2 E1 E2. destruct R as ([A B] & _).
      pose proof (A _ _ E1) as S1. pose proof (A _ _ E2) as S2.
      destruct (uri t1) as [u1|] eqn:U1; destruct (uri t2) as [u2|] eqn:U2.
      - subst n. injection S2 as <-. eapply uri_inj_types; eauto.
      - subst n. destruct S2 as (k & F & _). discriminate.
      - subst n. destruct S1 as (k & F & _). discriminate.
      - destruct S1 as (k & -> & _). eapply B; eauto.
    Qed.

    (* ---- per-node statements ---- *)

    Theorem node_via c o : In (c, PVia, o) (t_tr st) <->
      w_operators sw = true /\ exists j out im, In (EvOp c j out im) evs /\
        o = TUri (uri_op L ns (OOp j)).
    Proof.
      rewrite run_annot_exact by reflexivity. split.
      - intros (e & He & H). inversion H; subst. split; [assumption|]. eauto.
      - intros (W & j & out & im & He & ->). exists (EvOp c j out im). split; [exact He|].
        eapply es_via; eauto.
    Qed.

    Theorem node_type e : In e evs -> typed e = true ->
      (forall e', In e' evs -> ev_cur e' = ev_cur e -> typed e' = true -> ev_ty e' = ev_ty e) ->
      exists n, tfind (ev_ty e) (t_memo st) = Some n /\
        (forall o, In (ev_cur e, PType, o) (t_tr st) <-> o = n) /\
        match uri (ev_ty e) with Some u => n = TUri u | None => exists k, n = TBn k end.
    Proof.
      intros He T U. destruct (run_covered e He T) as [(n & En) _]. exists n.
      split; [exact En|]. split; [|apply run_memo_shape; exact En].
      intros o. rewrite run_annot_exact by reflexivity. split.
      - intros (e' & He' & H). inversion H as [n' T' E' Hc| | | | | |]; subst.
        rewrite (U e' He' Hc T') in E'. congruence.
      - intros ->. exists e. split; [exact He|]. now constructor.
    Qed.

    Theorem node_untyped c : (forall e, In e evs -> ev_cur e = c -> typed e = false) ->
      forall o, ~ In (c, PType, o) (t_tr st) /\ ~ In (c, PSubtypeOf, o) (t_tr st).
    Proof.
      intros U o. split; rewrite run_annot_exact by reflexivity; intros (e & He & H);
        inversion H; subst;
        match goal with T : typed ?e = true |- _ => rewrite (U e He eq_refl) in T; discriminate end.
    Qed.

    Theorem node_subtypeOf e : In e evs -> typed e = true ->
      (forall e', In e' evs -> ev_cur e' = ev_cur e -> typed e' = true -> ev_ty e' = ev_ty e) ->
      forall o, In (ev_cur e, PSubtypeOf, o) (t_tr st) <->
        w_supertypes sw = true /\ canon_mem (ev_ty e) canon = true /\
        exists s, (s = ev_ty e \/ In s (sup (ev_ty e))) /\ tfind s (t_memo st) = Some o.
    Proof.
      intros He T U o. rewrite run_annot_exact by reflexivity. split.
      - intros (e' & He' & H).
        inversion H as [|n' T' W' C' E' Hc|s n' T' W' C' Hs E' Hc| | | |]; subst;
          rewrite (U e' He' Hc T') in *; split; auto; split; auto.
        + exists (ev_ty e). auto.
        + exists s. auto.
      - intros (W & C & s & [->|Hs] & E); exists e; (split; [exact He|]).
        + now apply es_self.
        + eapply es_sup; eauto.
    Qed.

    (* ---- membership ---- *)

    Theorem membership_types r o : In (r, PContainsType, o) (t_tr st) <->
      r = root /\ exists e, In e evs /\ typed e = true /\
        ((w_membership sw = true /\ tfind (ev_ty e) (t_memo st) = Some o) \/
         (w_membership_super sw = true /\ canon_mem (ev_ty e) canon = true /\
          exists s, In s (sup (ev_ty e)) /\ tfind s (t_memo st) = Some o)).
    Proof.
      rewrite run_annot_exact by reflexivity. split.
      - intros (e & He & H). inversion H; subst; (split; [reflexivity|]); exists e;
          (split; [exact He|]); (split; [assumption|]); [left|right]; eauto.
      - intros (-> & e & He & T & [[W E]|(W & C & s & Hs & E)]); exists e; (split; [exact He|]).
        + now apply es_mtype.
        + eapply es_msup; eauto.
    Qed.

    Theorem membership_ops r o : In (r, PContainsOperation, o) (t_tr st) <->
      r = root /\ w_membership sw = true /\ exists c, In (c, PVia, o) (t_tr st).
    Proof.
      split.
      - intros Hx. apply run_annot_exact in Hx; [|reflexivity]. destruct Hx as (e & He & H).
        apply EvSpec_mop_inv in H as (-> & W1 & W2 & c & j & out & im & -> & ->).
        split; [reflexivity|]. split; [exact W2|]. exists c. apply node_via. split; [exact W1|]. eauto.
      - intros (-> & W & c & Hx). apply node_via in Hx as (W2 & j & out & im & He & ->).
        apply run_annot_exact; [reflexivity|]. exists (EvOp c j out im). split; [exact He|].
        eapply es_mop; eauto.
    Qed.

    (* literally "the union over the nodes" *)
    Theorem membership_union_types : w_membership sw = true ->
      w_membership_super sw = false ->
      forall o, In (root, PContainsType, o) (t_tr st) <-> exists c, In (c, PType, o) (t_tr st).
    Proof.
      intros W1 W2 o. rewrite membership_types. split.
      - intros (_ & e & He & T & [[_ E]|(F & _)]); [|congruence].
        exists (ev_cur e). apply run_annot_exact; [reflexivity|]. exists e. split; [exact He|].
        now constructor.
      - intros (c & Hx). apply run_annot_exact in Hx; [|reflexivity]. destruct Hx as (e & He & H).
        inversion H; subst. split; [reflexivity|]. exists e. split; [exact He|]. split; [assumption|].
        left. auto.
    Qed.

    Theorem membership_union_all : w_membership sw = true ->
      w_membership_super sw = true -> w_supertypes sw = true ->
      forall o, In (root, PContainsType, o) (t_tr st) <->
        exists c, In (c, PType, o) (t_tr st) \/ In (c, PSubtypeOf, o) (t_tr st).
    Proof.
      intros W1 W2 W3 o. rewrite membership_types. split.
      - intros (_ & e & He & T & [[_ E]|(_ & C & s & Hs & E)]); exists (ev_cur e); [left|right];
          (apply run_annot_exact; [reflexivity|]); exists e; (split; [exact He|]).
        + now constructor.
        + eapply es_sup; eauto.
      - intros (c & [Hx|Hx]); (apply run_annot_exact in Hx; [|reflexivity]);
          destruct Hx as (e & He & H); inversion H; subst; (split; [reflexivity|]);
          exists e; (split; [exact He|]); (split; [assumption|]).
        + left. auto.
        + left. auto.
        + right. split; [assumption|]. split; [assumption|]. eauto.
    Qed.

    (* ---- type nodes ---- *)

    Theorem type_node_described o args n :
      lang_uri_okb L = true -> wf_nsb ns = true ->
      (forall t n, tfind t (t_memo st) = Some n -> uri_domb L t = true) ->
      tfind (TOp o args) init_memo = None -> tfind (TOp o args) (t_memo st) = Some n ->
      dflag o = true ->
      (forall x, In (n, PSubClassOf, x) (t_tr st) <-> x = TUri (uri_op L ns (OTy o))) /\
      (forall i x, In (n, PParam i, x) (t_tr st) <->
         exists j a, i = S j /\ nth_error args j = Some a /\ tfind a (t_memo st) = Some x) /\
      (forall j a, nth_error args j = Some a -> exists x, tfind a (t_memo st) = Some x).
    Proof.
      intros HL Wn Dm E0 E1 F.
      assert (Same : forall o' args' n', tfind (TOp o' args') (t_memo st) = Some n' -> n' = n ->
                o' = o /\ args' = args).
      { intros o' args' n' E' ->.
        assert (TOp o' args' = TOp o args) as [= -> ->]; [|auto].
        eapply node_inj; eauto. }
      destruct R as (_ & [X _] & _).
      destruct (x_dcomplete _ _ X o args n E0 E1 F) as [C1 C2].
      split; [|split].
      - intros x. split.
        + intros Hx. apply run_descr_exact in Hx; [|reflexivity].
          destruct Hx as (o' & args' & n' & _ & E' & _ & [H|(i & a & xa & _ & _ & H)]);
            [|discriminate]. injection H as Hn ->.
          destruct (Same o' args' n' E' (eq_sym Hn)) as [-> _]. reflexivity.
        + intros ->. exact C1.
      - intros i x. split.
        + intros Hx. apply run_descr_exact in Hx; [|reflexivity].
          destruct Hx as (o' & args' & n' & _ & E' & _ & [H|(j & a & xa & Hj & Ha & H)]);
            [discriminate|]. injection H as Hn -> ->.
          destruct (Same o' args' n' E' (eq_sym Hn)) as [_ ->]. eauto.
        + intros (j & a & -> & Hj & Ha). destruct (C2 j a Hj) as (xa & Ha' & Hin).
          replace x with xa by congruence. exact Hin.
      - intros j a Hj. destruct (C2 j a Hj) as (xa & Ha & _). eauto.
    Qed.

    (* a type known beforehand, or one without parameters to record, is not described *)
    Theorem type_node_plain o args n :
      lang_uri_okb L = true -> wf_nsb ns = true ->
      (forall t n, tfind t (t_memo st) = Some n -> uri_domb L t = true) ->
      tfind (TOp o args) (t_memo st) = Some n ->
      (tfind (TOp o args) init_memo <> None \/ dflag o = false) ->
      forall p x, is_descr (n, p, x) = true -> ~ In (n, p, x) (t_tr st).
    Proof.
      intros HL Wn Dm E1 Hp p x D Hx. apply run_descr_exact in Hx; [|exact D].
      destruct Hx as (o' & args' & n' & E0' & E' & F' & H).
      assert (n' = n) by (destruct H as [H|(i & a & xa & _ & _ & H)]; congruence). subst n'.
      assert (TOp o' args' = TOp o args) as [= -> ->] by (eapply node_inj; eauto).
      destruct Hp as [Hp|Hp]; congruence.
    Qed.
  End Fresh.

  (* ---------------------------------------------------------------------- *)
  (* several transformations (roots) in one graph *)

  Notation runr := (runr sw L ns canon sup).

  Lemma run_runr root : forall evs st, run root evs st = runr (map (pair root) evs) st.
  Proof.
    induction evs as [|e r IH]; intros st; cbn [Annot.run Annot.runr map]; [reflexivity|].
    destruct (step root e st); auto.
  Qed.

  Lemma runr_ok : forall res st st', MI st -> runr res st = Some st' ->
    MI st' /\ Ext st st' /\ (forall r e, In (r, e) res -> covered e (t_memo st')) /\
    (forall x, is_descr x = false -> In x (t_tr st') ->
       In x (t_tr st) \/ exists r e, In (r, e) res /\ EvSpec r e (t_memo st') x) /\
    (forall r e x, In (r, e) res -> EvSpec r e (t_memo st') x -> In x (t_tr st')).
  Proof.
    induction res as [|[r0 e0] rest IH]; intros st st' I E; cbn [Annot.runr] in E.
    - assert (st' = st) by congruence. subst st'.
      split; [exact I|]. split; [apply Ext_refl|]. split; [intros r e []|].
      split; [intros x _ Hx; now left | intros r e x []].
    - destruct (step r0 e0 st) as [s1|] eqn:Es; [|discriminate].
      destruct (step_ok r0 e0 st s1 I Es) as (I1 & X1 & C1 & S1 & B1).
      destruct (IH s1 st' I1 E) as (I' & X2 & C2 & S2 & B2).
      pose proof (x_mono _ _ (proj1 X2)) as M.
      split; [exact I'|]. split; [eapply Ext_trans; eauto|]. split; [|split].
      + intros r e He. destruct He as [He|He]; [injection He as <- <-; eapply covered_mono; eauto | eauto].
      + intros x D Hx. destruct (S2 x D Hx) as [H1|(r & e & He & H0)].
        * destruct (S1 x D H1) as [H|H]; [now left|]. right. exists r0, e0. split; [now left|].
          eapply EvSpec_mono; eauto.
        * right. exists r, e. split; [now right | exact H0].
      + intros r e x He HS. destruct He as [He|He].
        * injection He as <- <-. apply (x_incl _ _ (proj1 X2)). apply B1. eapply EvSpec_back; eauto.
        * eapply B2; eauto.
  Qed.

  Section FreshR.
    Variable res : list (term * ev).
    Variable st : tstate.
    Hypothesis Hrun : runr res tinit = Some st.

    Let R := runr_ok res tinit st MI_tinit Hrun.

    Theorem runr_annot_exact x : is_descr x = false ->
      (In x (t_tr st) <-> exists r e, In (r, e) res /\ EvSpec r e (t_memo st) x).
    Proof.
      destruct R as (_ & _ & _ & S & B). intros D. split.
      - intros Hx. destruct (S x D Hx) as [[]|H]. exact H.
      - intros (r & e & He & H). eapply B; eauto.
    Qed.

    Theorem runr_covered r e : In (r, e) res -> covered e (t_memo st).
    Proof. destruct R as (_ & _ & C & _). apply C. Qed.

    Theorem runr_memo_shape t n : tfind t (t_memo st) = Some n ->
      match uri t with Some u => n = TUri u | None => exists k, n = TBn k end.
    Proof.
      destruct R as ([A _] & _). intros E. specialize (A t n E).
      destruct (uri t); [exact A|]. destruct A as (k & -> & _). eauto.
    Qed.

    (* the membership sets of a root are made of the concepts added under THAT root *)
    Theorem runr_membership_types r o : In (r, PContainsType, o) (t_tr st) <->
      exists e, In (r, e) res /\ typed e = true /\
        ((w_membership sw = true /\ tfind (ev_ty e) (t_memo st) = Some o) \/
         (w_membership_super sw = true /\ canon_mem (ev_ty e) canon = true /\
          exists s, In s (sup (ev_ty e)) /\ tfind s (t_memo st) = Some o)).
    Proof.
      rewrite runr_annot_exact by reflexivity. split.
      - intros (r' & e & He & H). inversion H; subst; exists e;
          (split; [exact He|]); (split; [assumption|]); [left|right]; eauto.
      - intros (e & He & T & [[W E]|(W & C & s & Hs & E)]); exists r, e; (split; [exact He|]).
        + now apply es_mtype.
        + eapply es_msup; eauto.
    Qed.

    Theorem runr_membership_ops r o : In (r, PContainsOperation, o) (t_tr st) <->
      w_operators sw = true /\ w_membership sw = true /\
      exists c j out im, In (r, EvOp c j out im) res /\ o = TUri (uri_op L ns (OOp j)).
    Proof.
      rewrite runr_annot_exact by reflexivity. split.
      - intros (r' & e & He & H).
        apply EvSpec_mop_inv in H as (-> & W1 & W2 & c & j & out & im & -> & ->). eauto 10.
      - intros (W1 & W2 & c & j & out & im & He & ->). exists r, (EvOp c j out im).
        split; [exact He|]. eapply es_mop; eauto.
    Qed.

    (* a concept's own annotation does not depend on the root *)
    Theorem runr_via c o : In (c, PVia, o) (t_tr st) <->
      w_operators sw = true /\ exists r j out im, In (r, EvOp c j out im) res /\
        o = TUri (uri_op L ns (OOp j)).
    Proof.
      rewrite runr_annot_exact by reflexivity. split.
      - intros (r & e & He & H). inversion H; subst. split; [assumption|]. eauto 10.
      - intros (W & r & j & out & im & He & ->). exists r, (EvOp c j out im). split; [exact He|].
        eapply es_via; eauto.
    Qed.
  End FreshR.
End Proofs.
