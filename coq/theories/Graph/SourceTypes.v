(* Graph/SourceTypes.v -- model of Workflow.source_types
   (transforge/workflow.py:108-133) on what it can see: every tool expression
   is parsed with unify=False and fresh Source inputs, so a use of a source
   contributes either the type of its explicit annotation `k : T` (a concrete
   type here) or nothing (the input stays a wildcard type variable).

   [upd_fixed]   one step of the loop with proposed_fixes/C12.diff applied
   [upd_pinned]  the loop body as pinned
   The uses are listed in the order the loop meets them (applications in the
   iteration order of the set tool_outputs, inputs in order); the theorem is
   about every permutation of the uses, which includes every listing order of
   the applications.  Stdlib only, no axioms.                              *)
From Coq Require Import List Arith Bool Lia Permutation.
Import ListNotations.
From TF Require Import Base.Hier Base.Ty Sub.Match Sub.SubSpec Sub.SubProofs.

(* min_type.get(node): not yet seen / a type variable / a concrete type *)
Definition acc := option (option ty).

(* `x is not False` for an Optional[bool] *)
Definition not_false (r : option bool) : bool :=
  match r with Some false => false | _ => true end.

(* workflow.py:124-127 as pinned:
     t = min_type.get(node)
     if not t or expr.type.is_subtype(t, True) is not False: min_type[node] = expr.type
   is_subtype with a wildcard variable on one side answers True (type.py:546-567,
   146-153); two wildcards match each other, so the strict test answers False *)
Definition upd_pinned (H : hier) (t : acc) (a : option ty) : acc :=
  match t with
  | None => Some a
  | Some t0 =>
      let ok := match a, t0 with
                | Some x, Some y => not_false (is_subtype H true x y)
                | None, None => false
                | _, _ => true
                end in
      if ok then Some a else t
  end.

(* with proposed_fixes/C12.diff: a use without annotation leaves the source to
   inference, whatever came before or comes after *)
Definition upd_fixed (H : hier) (t : acc) (a : option ty) : acc :=
  match t with
  | None => Some a
  | Some None => Some None
  | Some (Some y) =>
      match a with
      | None => Some None
      | Some x => if not_false (is_subtype H true x y) then Some (Some x) else t
      end
  end.

Definition fupd (m : nat -> acc) (s : nat) (v : acc) : nat -> acc :=
  fun x => if Nat.eqb x s then v else m x.

Definition memn (x : nat) (l : list nat) : bool := existsb (Nat.eqb x) l.

(* the loop over the applications and their inputs (workflow.py:118-127), then
   the loop over the sources (129-133); None = a fresh TypeVariable *)
Definition source_types (upd : acc -> option ty -> acc) (srcs : list nat)
    (uses : list (nat * option ty)) : list (nat * option ty) :=
  let m := fold_left (fun m u => if memn (fst u) srcs
                                 then fupd m (fst u) (upd (m (fst u)) (snd u)) else m)
                     uses (fun _ => None) in
  map (fun s => (s, match m s with Some a => a | None => None end)) srcs.

Definition annots (s : nat) (uses : list (nat * option ty)) : list (option ty) :=
  map snd (filter (fun u => Nat.eqb (fst u) s) uses).

Lemma fold_per_source upd srcs s : memn s srcs = true -> forall uses m,
  fold_left (fun m u => if memn (fst u) srcs
                        then fupd m (fst u) (upd (m (fst u)) (snd u)) else m) uses m s =
  fold_left upd (annots s uses) (m s).
Proof.
  intros Hs. induction uses as [|[s' a] uses IH]; intros m; [reflexivity|].
  cbn [fold_left fst snd]. unfold annots. cbn [filter fst]. rewrite IH.
  destruct (Nat.eqb s' s) eqn:E.
  - apply Nat.eqb_eq in E. subst s'. rewrite Hs. cbn [map fold_left snd].
    unfold fupd at 1. rewrite Nat.eqb_refl. reflexivity.
  - fold (annots s uses). destruct (memn s' srcs); [|reflexivity].
    unfold fupd at 1. rewrite Nat.eqb_sym, E. reflexivity.
Qed.

Section Fixed.
  Variable H : hier.
  Hypothesis W : wf_hier H.

  (* the annotated types of one source are well-formed and pairwise comparable *)
  Definition ok_annots (l : list (option ty)) : Prop :=
    (forall x, In (Some x) l -> wf_ty H x) /\
    (forall x y, In (Some x) l -> In (Some y) l -> Sub H x y \/ Sub H y x).

  (* what the loop has computed after the uses [l] of one source *)
  Definition st_spec (l : list (option ty)) (t : acc) : Prop :=
    match t with
    | None => l = []
    | Some None => In None l
    | Some (Some m) => ~ In None l /\ In (Some m) l /\ forall x, In (Some x) l -> Sub H m x
    end.

  Lemma st_step l t a : ok_annots (l ++ [a]) -> st_spec l t -> st_spec (l ++ [a]) (upd_fixed H t a).
  Proof.
    intros [Hwf Hcmp] Hs. destruct t as [[y|]|]; cbn [upd_fixed st_spec] in *.
    - destruct Hs as [Hn [Hy Hmin]]. destruct a as [x|].
      + assert (Wx : wf_ty H x) by (apply Hwf, in_app_iff; cbn; auto).
        assert (Wy : wf_ty H y) by (apply Hwf, in_app_iff; auto).
        destruct (is_subtype_total H W true x y Wx Wy) as [b Eb]. rewrite Eb.
        destruct b; cbn [not_false st_spec].
        * apply (is_subtype_spec H W true x y Wx Wy) in Eb. destruct Eb as [Sxy _].
          split; [|split].
          -- intros F. apply in_app_iff in F. destruct F as [F | [F | []]]; [auto | discriminate].
          -- apply in_app_iff. cbn. auto.
          -- intros z Hz. apply in_app_iff in Hz. destruct Hz as [Hz | [[= <-] | []]].
             ++ eapply (Sub_trans H W); eauto.
             ++ apply (Sub_refl H), Wx.
        * split; [|split].
          -- intros F. apply in_app_iff in F. destruct F as [F | [F | []]]; [auto | discriminate].
          -- apply in_app_iff. auto.
          -- intros z Hz. apply in_app_iff in Hz. destruct Hz as [Hz | [[= <-] | []]]; [auto|].
             destruct (Hcmp x y) as [Sxy | Syx]; [apply in_app_iff; cbn; auto | apply in_app_iff; auto | |exact Syx].
             (* x <= y but not strictly: x = y *)
             destruct (ty_eq_dec x y) as [-> | Hne]; [apply (Sub_refl H), Wy|].
             assert (E : is_subtype H true x y = Some true).
             { apply (is_subtype_spec H W true x y Wx Wy). split; [exact Sxy | intros _; exact Hne]. }
             rewrite E in Eb. discriminate.
      + apply in_app_iff. cbn. auto.
    - apply in_app_iff. auto.
    - subst l. cbn [app]. destruct a as [x|]; cbn [st_spec].
      + split; [intros [F | []]; discriminate|]. split; [cbn; auto|].
        intros z [[= <-] | []]. apply (Sub_refl H). apply Hwf. cbn. auto.
      + cbn. auto.
  Qed.

  Lemma ok_annots_prefix l l' : ok_annots (l ++ l') -> ok_annots l.
  Proof.
    intros [A B]. split.
    - intros x Hx. apply A, in_app_iff. auto.
    - intros x y Hx Hy. apply B; apply in_app_iff; auto.
  Qed.

  Lemma st_fold : forall l' l t, ok_annots (l ++ l') -> st_spec l t ->
    st_spec (l ++ l') (fold_left (upd_fixed H) l' t).
  Proof.
    induction l' as [|a l' IH]; intros l t Hok Hs; cbn [fold_left].
    - now rewrite app_nil_r.
    - replace (l ++ a :: l') with ((l ++ [a]) ++ l') in * by (rewrite <- app_assoc; reflexivity).
      apply IH; [exact Hok|]. apply st_step; [|exact Hs]. eapply ok_annots_prefix; eauto.
  Qed.

  Theorem st_fixed_spec l : ok_annots l -> st_spec l (fold_left (upd_fixed H) l None).
  Proof. intros Hok. apply (st_fold l [] None); [exact Hok | reflexivity]. Qed.

  Lemma st_spec_unique l l' t t' :
    (forall a, In a l <-> In a l') -> st_spec l t -> st_spec l' t' -> t = t'.
  Proof.
    intros Hl Hs Hs'.
    destruct t as [[m|]|]; destruct t' as [[m'|]|]; cbn [st_spec] in *; try reflexivity.
    - destruct Hs as [Hn [Hm Hmin]]. destruct Hs' as [Hn' [Hm' Hmin']].
      f_equal. f_equal. apply (Sub_antisym H W).
      + apply Hmin. apply Hl, Hm'.
      + apply Hmin'. apply Hl, Hm.
    - exfalso. apply Hs. apply Hl, Hs'.
    - subst l'. destruct Hs as [_ [Hm _]]. apply Hl in Hm. destruct Hm.
    - exfalso. apply Hs'. apply Hl, Hs.
    - subst l'. apply Hl in Hs. destruct Hs.
    - subst l. destruct Hs' as [_ [Hm _]]. apply Hl in Hm. destruct Hm.
    - subst l. apply Hl in Hs'. destruct Hs'.
  Qed.

  Theorem st_fixed_perm l l' : Permutation l l' -> ok_annots l ->
    fold_left (upd_fixed H) l None = fold_left (upd_fixed H) l' None.
  Proof.
    intros Hp Hok.
    assert (Hl : forall a, In a l <-> In a l').
    { intros a. split; apply Permutation_in; [exact Hp | now apply Permutation_sym]. }
    assert (Hok' : ok_annots l').
    { destruct Hok as [A B]. split.
      - intros x Hx. apply A, Hl, Hx.
      - intros x y Hx Hy. apply B; apply Hl; assumption. }
    apply (st_spec_unique l l'); [exact Hl | apply st_fixed_spec, Hok | apply st_fixed_spec, Hok'].
  Qed.
End Fixed.

Lemma Permutation_filter' {A} (f : A -> bool) l l' :
  Permutation l l' -> Permutation (filter f l) (filter f l').
Proof.
  induction 1; cbn [filter].
  - constructor.
  - destruct (f x); [constructor|]; assumption.
  - destruct (f x); destruct (f y); try apply Permutation_refl. apply perm_swap.
  - eapply Permutation_trans; eauto.
Qed.

(* the whole function: independent of the order in which the uses are met *)
Theorem source_types_perm H : wf_hier H -> forall srcs uses uses',
  Permutation uses uses' ->
  (forall s, In s srcs -> ok_annots H (annots s uses)) ->
  source_types (upd_fixed H) srcs uses = source_types (upd_fixed H) srcs uses'.
Proof.
  intros W srcs uses uses' Hp Hok. unfold source_types. apply map_ext_in. intros s Hs.
  assert (Hm : memn s srcs = true).
  { unfold memn. apply existsb_exists. exists s. split; [exact Hs | apply Nat.eqb_refl]. }
  rewrite !(fold_per_source _ srcs s Hm). f_equal.
  rewrite (st_fixed_perm H W (annots s uses) (annots s uses')); [reflexivity | | apply Hok, Hs].
  unfold annots. apply Permutation_map. now apply Permutation_filter'.
Qed.

(* ... and what it computes: nothing for a source with a use that is not
   annotated (or with no use), else the least of the annotated types *)
Theorem source_types_spec H : wf_hier H -> forall srcs uses s,
  In s srcs -> ok_annots H (annots s uses) ->
  exists t, In (s, t) (source_types (upd_fixed H) srcs uses) /\
    match t with
    | None => annots s uses = [] \/ In None (annots s uses)
    | Some m => ~ In None (annots s uses) /\ In (Some m) (annots s uses) /\
                forall x, In (Some x) (annots s uses) -> Sub H m x
    end.
Proof.
  intros W srcs uses s Hs Hok.
  assert (Hm : memn s srcs = true).
  { unfold memn. apply existsb_exists. exists s. split; [exact Hs | apply Nat.eqb_refl]. }
  pose proof (st_fixed_spec H W (annots s uses) Hok) as Hsp.
  unfold source_types.
  eexists. split.
  - apply in_map_iff. exists s. split; [reflexivity | exact Hs].
  - rewrite (fold_per_source _ srcs s Hm). cbn beta.
    destruct (fold_left (upd_fixed H) (annots s uses) None) as [[m|]|]; cbn [st_spec] in Hsp; auto.
Qed.

(* The loop as pinned depends on the order: one source, used once with the
   annotation `A` (operator 5) and once without annotation. *)
Definition refute_H : hier := mk_hier [] [].
Theorem source_types_pinned_refuted :
  exists uses uses', Permutation uses uses' /\
    source_types (upd_pinned refute_H) [0] uses <> source_types (upd_pinned refute_H) [0] uses'.
Proof.
  exists [(0, None); (0, Some (TOp 5 []))], [(0, Some (TOp 5 [])); (0, None)].
  split; [apply perm_swap|]. vm_compute. discriminate.
Qed.
