(* Graph/AddExprProofs.v -- add_expr (repaired code) builds exactly the graph
   [flow] prescribes, for every well-formed expression.                      *)
From Coq Require Import List Arith Bool Lia.
Import ListNotations.
From TF Require Import Graph.AddExpr Graph.AddExprSpec.

(* tf:depends triples are C09's business; everything else is compared *)
Definition vis (t : triple) : Prop := t_pred t <> p_depends.
Definition veq (g1 g2 : list triple) : Prop := forall t, vis t -> (In t g1 <-> In t g2).

Lemma veq_refl g : veq g g.
Proof. intros t _. tauto. Qed.

(* ------------------------------------------------------------------------ *)
(* Part A: facts about labelled trees *)

(* a passed operation is an operator application (has a node of its own) *)
Definition okarg (a : akind * lx) : bool :=
  match fst a with
  | AFun _ => match snd a with LSpine _ _ _ => true | LLeaf _ => false end
  | _ => true
  end.

Fixpoint okb (l : lx) : bool :=
  match l with
  | LLeaf _ => true
  | LSpine _ _ args => forallb (fun a => okarg a && okb (snd a)) args
  end.

Lemma In_names_spine x c o args :
  In x (names (LSpine c o args)) <->
  x = c \/ exists a, In a args /\ (In x (kint (fst a)) \/ In x (names (snd a))).
Proof.
  cbn [names In]. rewrite in_flat_map. split.
  - intros [H | [a [Ha Hx]]]; [left; auto|]. right. exists a. split; [auto|].
    apply in_app_iff in Hx. exact Hx.
  - intros [H | [a [Ha Hx]]]; [left; auto|]. right. exists a. split; [auto|].
    apply in_app_iff. exact Hx.
Qed.

Lemma names_snoc c o args a :
  names (LSpine c o (args ++ [a])) = names (LSpine c o args) ++ kint (fst a) ++ names (snd a).
Proof.
  cbn [names]. rewrite flat_map_app. cbn [flat_map]. rewrite app_nil_r.
  rewrite app_comm_cons. reflexivity.
Qed.

Lemma linternals_names l j : In j (linternals l) -> In j (names l).
Proof.
  destruct l as [n | c o args]; cbn [linternals]; [intros []|].
  intros H. apply in_flat_map in H. destruct H as [a [Ha Hj]].
  apply In_names_spine. right. exists a. split; [auto|]. left. exact Hj.
Qed.

Lemma anode_names a : okarg a = true -> (exists i, fst a = AFun i) -> In (anode a) (names (snd a)).
Proof.
  intros Hok [i Hi]. unfold okarg in Hok. rewrite Hi in Hok. unfold anode.
  destruct (snd a) as [n | c o args]; [discriminate|]. cbn [lnode names In]. auto.
Qed.

Lemma In_pairs1 (l : list (akind * lx)) (is : list node) t :
  In t (flat_map (fun i => map (fun b => (i, p_from, anode b)) l) is) <->
  exists i b, In i is /\ In b l /\ t = (i, p_from, anode b).
Proof.
  rewrite in_flat_map. split.
  - intros [i [Hi Ht]]. apply in_map_iff in Ht. destruct Ht as [b [Hb Hbl]].
    exists i, b. auto.
  - intros [i [b [Hi [Hb Ht]]]]. exists i. split; [auto|]. apply in_map_iff.
    exists b. auto.
Qed.

Lemma In_pairs2 (l : list (akind * lx)) (n : node) t :
  In t (flat_map (fun b => map (fun i => (i, p_from, n)) (aint b)) l) <->
  exists b i, In b l /\ In i (aint b) /\ t = (i, p_from, n).
Proof.
  rewrite in_flat_map. split.
  - intros [b [Hb Ht]]. apply in_map_iff in Ht. destruct Ht as [i [Hi Hil]].
    exists b, i. auto.
  - intros [b [i [Hb [Hi Ht]]]]. exists b. split; [auto|]. apply in_map_iff.
    exists i. auto.
Qed.

Lemma In_cross_cons x l t :
  In t (cross (x :: l)) <->
  (exists i b, In i (aint x) /\ In b l /\ t = (i, p_from, anode b)) \/
  (exists b i, In b l /\ In i (aint b) /\ t = (i, p_from, anode x)) \/
  In t (cross l).
Proof. cbn [cross]. rewrite !in_app_iff, In_pairs1, In_pairs2. tauto. Qed.

Lemma In_cross_snoc l a t :
  In t (cross (l ++ [a])) <->
  In t (cross l) \/
  (exists i b, In i (aint a) /\ In b l /\ t = (i, p_from, anode b)) \/
  (exists b i, In b l /\ In i (aint b) /\ t = (i, p_from, anode a)).
Proof.
  induction l as [|x l IH].
  - cbn [app]. rewrite In_cross_cons. cbn [cross In]. split.
    + intros [[i [b [_ [[] _]]]] | [[b [i [[] _]]] | []]].
    + intros [[] | [[i [b [_ [[] _]]]] | [b [i [[] _]]]]].
  - cbn [app]. rewrite !In_cross_cons, IH. split.
    + intros [[i [b [Hi [Hb Ht]]]] | [[b [i [Hb [Hi Ht]]]] | [H | [H | H]]]].
      * apply in_app_iff in Hb. destruct Hb as [Hb | [<- | []]].
        -- left. left. exists i, b. auto.
        -- right. right. exists x, i. cbn [In]. auto.
      * apply in_app_iff in Hb. destruct Hb as [Hb | [<- | []]].
        -- left. right. left. exists b, i. auto.
        -- right. left. exists i, x. cbn [In]. auto.
      * left. right. right. exact H.
      * right. left. destruct H as [i [b [Hi [Hb Ht]]]]. exists i, b. cbn [In]. auto.
      * right. right. destruct H as [b [i [Hb [Hi Ht]]]]. exists b, i. cbn [In]. auto.
    + intros [[H | [H | H]] | [H | H]].
      * left. destruct H as [i [b [Hi [Hb Ht]]]]. exists i, b. rewrite in_app_iff. auto.
      * right. left. destruct H as [b [i [Hb [Hi Ht]]]]. exists b, i. rewrite in_app_iff. auto.
      * right. right. left. exact H.
      * destruct H as [i [b [Hi [[<- | Hb] Ht]]]].
        -- right. left. exists a, i. rewrite in_app_iff. cbn [In]. auto.
        -- right. right. right. left. exists i, b. auto.
      * destruct H as [b [i [[<- | Hb] [Hi Ht]]]].
        -- left. exists i, a. rewrite in_app_iff. cbn [In]. auto.
        -- right. right. right. right. exists b, i. auto.
Qed.

Lemma In_cross l t :
  In t (cross l) -> exists a b i, In a l /\ In b l /\ In i (aint a) /\ t = (i, p_from, anode b).
Proof.
  induction l as [|x l IH]; [intros []|].
  rewrite In_cross_cons. intros [[i [b [Hi [Hb Ht]]]] | [[b [i [Hb [Hi Ht]]]] | H]].
  - exists x, b, i. cbn [In]. auto.
  - exists b, x, i. cbn [In]. auto.
  - destruct (IH H) as [a [b [i [Ha [Hb [Hi Ht]]]]]]. exists a, b, i. cbn [In]. auto.
Qed.

Lemma In_flow_spine c o args t :
  In t (flow (LSpine c o args)) <->
  t = (c, p_via, o) \/ (exists a, In a args /\ In t (arg_edges c a)) \/ In t (cross args)
  \/ (exists a, In a args /\ In t (flow (snd a))).
Proof.
  cbn [flow In]. rewrite !in_app_iff, !in_flat_map. split.
  - intros [H | [H | [H | H]]]; auto.
  - intros [H | [H | [H | H]]]; auto.
Qed.

Lemma In_flow_snoc c o args a t :
  In t (flow (LSpine c o (args ++ [a]))) <->
  In t (flow (LSpine c o args)) \/ In t (arg_edges c a) \/
  (exists i b, In i (aint a) /\ In b args /\ t = (i, p_from, anode b)) \/
  (exists b i, In b args /\ In i (aint b) /\ t = (i, p_from, anode a)) \/
  In t (flow (snd a)).
Proof.
  rewrite !In_flow_spine, In_cross_snoc. split.
  - intros [H | [[b [Hb Ht]] | [[H | [H | H]] | [b [Hb Ht]]]]].
    + auto.
    + apply in_app_iff in Hb. destruct Hb as [Hb | [<- | []]].
      * left. right. left. exists b. auto.
      * right. left. exact Ht.
    + left. right. right. left. exact H.
    + right. right. left. exact H.
    + right. right. right. left. exact H.
    + apply in_app_iff in Hb. destruct Hb as [Hb | [<- | []]].
      * left. right. right. right. exists b. auto.
      * right. right. right. right. exact Ht.
  - intros [[H | [[b [Hb Ht]] | [H | [b [Hb Ht]]]]] | [H | [H | [H | H]]]].
    + auto.
    + right. left. exists b. rewrite in_app_iff. auto.
    + right. right. left. left. exact H.
    + right. right. right. exists b. rewrite in_app_iff. auto.
    + right. left. exists a. rewrite in_app_iff. cbn [In]. auto.
    + right. right. left. right. left. exact H.
    + right. right. left. right. right. exact H.
    + right. right. right. exists a. rewrite in_app_iff. cbn [In]. auto.
Qed.

Lemma In_arg_edges c a t :
  In t (arg_edges c a) ->
  t = (c, p_from, anode a) \/
  (exists i, In i (aint a) /\ t = (c, p_internal, i)) \/
  (exists i, fst a = AFun i /\ t = (anode a, p_from, i)) \/
  (exists i j, In i (aint a) /\ In j (linternals (snd a)) /\ t = (j, p_from, i)).
Proof.
  unfold arg_edges, aint. destruct (fst a) as [|i|i]; cbn [In kint].
  - intros [<- | []]. auto.
  - intros [<- | [<- | [<- | H]]]; auto.
    + right. left. exists i. auto.
    + right. right. left. exists i. auto.
    + apply in_map_iff in H. destruct H as [j [<- Hj]]. right. right. right.
      exists i, j. auto.
  - intros [<- | [<- | H]]; auto.
    + right. left. exists i. auto.
    + apply in_map_iff in H. destruct H as [j [<- Hj]]. right. right. right.
      exists i, j. auto.
Qed.

Lemma okb_spine_arg c o args a :
  okb (LSpine c o args) = true -> In a args -> okarg a = true /\ okb (snd a) = true.
Proof.
  cbn [okb]. intros H Ha. rewrite forallb_forall in H. specialize (H a Ha).
  apply andb_true_iff in H. exact H.
Qed.

Lemma okb_snoc c o args a :
  okb (LSpine c o (args ++ [a])) = okb (LSpine c o args) && (okarg a && okb (snd a)).
Proof. cbn [okb]. rewrite forallb_app. cbn [forallb]. now rewrite andb_true_r. Qed.

(* every triple of the prescribed graph starts at a node the tree introduces *)
Lemma flow_subj l : okb l = true -> forall t, In t (flow l) -> In (t_subj t) (names l).
Proof.
  induction l as [n | c o args IH] using lx_ind'; intros Hok t Ht; [destruct Ht|].
  rewrite Forall_forall in IH.
  apply In_flow_spine in Ht. destruct Ht as [-> | [[a [Ha Ht]] | [Ht | [a [Ha Ht]]]]].
  - cbn. auto.
  - destruct (okb_spine_arg _ _ _ _ Hok Ha) as [Hoa Hos].
    apply In_names_spine.
    apply In_arg_edges in Ht.
    destruct Ht as [-> | [[i [Hi ->]] | [[i [Hi ->]] | [i [j [Hi [Hj ->]]]]]]];
      unfold t_subj; cbn [fst snd].
    + auto.
    + auto.
    + right. exists a. split; [auto|]. right. apply anode_names; eauto.
    + right. exists a. split; [auto|]. right. now apply linternals_names.
  - apply In_cross in Ht. destruct Ht as [a [b [i [Ha [Hb [Hi ->]]]]]].
    unfold t_subj; cbn [fst snd]. apply In_names_spine. right. exists a. auto.
  - destruct (okb_spine_arg _ _ _ _ Hok Ha) as [Hoa Hos].
    apply In_names_spine. right. exists a. split; [auto|]. right.
    apply (IH a Ha Hos t Ht).
Qed.

(* the triples that start at the step's own node *)
Lemma flow_own c o args t :
  NoDup (names (LSpine c o args)) -> okb (LSpine c o args) = true ->
  In t (flow (LSpine c o args)) -> t_subj t = c ->
  t = (c, p_via, o) \/ (exists a, In a args /\ t = (c, p_from, anode a)) \/
  (exists a i, In a args /\ In i (aint a) /\ t = (c, p_internal, i)).
Proof.
  intros Hnd Hok Ht Hs.
  assert (Hc : forall a x, In a args -> In x (kint (fst a)) \/ In x (names (snd a)) -> x <> c).
  { intros a x Ha Hx ->. cbn [names] in Hnd. apply NoDup_cons_iff in Hnd.
    destruct Hnd as [Hn _]. apply Hn. apply in_flat_map. exists a. split; [auto|].
    apply in_app_iff. exact Hx. }
  apply In_flow_spine in Ht. destruct Ht as [-> | [[a [Ha Ht]] | [Ht | [a [Ha Ht]]]]].
  - auto.
  - destruct (okb_spine_arg _ _ _ _ Hok Ha) as [Hoa Hos].
    apply In_arg_edges in Ht.
    destruct Ht as [-> | [[i [Hi ->]] | [[i [Hi ->]] | [i [j [Hi [Hj ->]]]]]]];
      unfold t_subj in Hs; cbn [fst snd] in Hs.
    + right. left. exists a. auto.
    + right. right. exists a, i. auto.
    + exfalso. apply (Hc a (anode a) Ha); [|exact Hs]. right. apply anode_names; eauto.
    + exfalso. apply (Hc a j Ha); [|exact Hs]. right. now apply linternals_names.
  - apply In_cross in Ht. destruct Ht as [a [b [i [Ha [Hb [Hi ->]]]]]].
    unfold t_subj in Hs; cbn [fst snd] in Hs. exfalso. apply (Hc a i Ha); auto.
  - destruct (okb_spine_arg _ _ _ _ Hok Ha) as [Hoa Hos].
    exfalso. apply (Hc a (t_subj t) Ha); [|exact Hs]. right. now apply flow_subj.
Qed.

Lemma flow_own_internal c o args j :
  NoDup (names (LSpine c o args)) -> okb (LSpine c o args) = true ->
  (In (c, p_internal, j) (flow (LSpine c o args)) <-> In j (flat_map aint args)).
Proof.
  intros Hnd Hok. split.
  - intros H. destruct (flow_own _ _ _ _ Hnd Hok H eq_refl) as [E | [[a [Ha E]] | [a [i [Ha [Hi E]]]]]].
    + discriminate E.
    + discriminate E.
    + injection E as ->. apply in_flat_map. exists a. auto.
  - intros H. apply in_flat_map in H. destruct H as [a [Ha Hj]].
    apply In_flow_spine. right. left. exists a. split; [auto|].
    unfold arg_edges. unfold aint in Hj. destruct (fst a) as [|i|i]; cbn [kint In] in *.
    + destruct Hj.
    + destruct Hj as [<- | []]. auto.
    + destruct Hj as [<- | []]. auto.
Qed.

Lemma flow_own_from c o args y :
  NoDup (names (LSpine c o args)) -> okb (LSpine c o args) = true ->
  (In (c, p_from, y) (flow (LSpine c o args)) <-> exists b, In b args /\ y = anode b).
Proof.
  intros Hnd Hok. split.
  - intros H. destruct (flow_own _ _ _ _ Hnd Hok H eq_refl) as [E | [[a [Ha E]] | [a [i [Ha [Hi E]]]]]].
    + discriminate E.
    + injection E as ->. exists a. auto.
    + discriminate E.
  - intros [b [Hb ->]]. apply In_flow_spine. right. left. exists b. split; [auto|].
    unfold arg_edges. cbn [In]. auto.
Qed.

(* ------------------------------------------------------------------------ *)
(* Part B: what the wiring step (graph.py:374-398, repaired) adds *)

Lemma vis_from s o : vis (s, p_from, o).
Proof. unfold vis, t_pred. cbn. discriminate. Qed.
Lemma vis_internal s o : vis (s, p_internal, o).
Proof. unfold vis, t_pred. cbn. discriminate. Qed.
Lemma vis_via s o : vis (s, p_via, o).
Proof. unfold vis, t_pred. cbn. discriminate. Qed.

Lemma in_map_pairs_l (l : list node) (b : node) (t : triple) :
  (exists p, In p (map (fun j => (j, b)) l) /\ t = (fst p, p_from, snd p)) <->
  exists j, In j l /\ t = (j, p_from, b).
Proof.
  split.
  - intros [p [Hp Ht]]. apply in_map_iff in Hp. destruct Hp as [j [<- Hj]]. exists j. auto.
  - intros [j [Hj Ht]]. exists (j, b). split; [|exact Ht]. apply in_map_iff. exists j. auto.
Qed.

Lemma in_map_pairs_r (l : list node) (a : node) (t : triple) :
  (exists p, In p (map (fun y => (a, y)) l) /\ t = (fst p, p_from, snd p)) <->
  exists y, In y l /\ t = (a, p_from, y).
Proof.
  split.
  - intros [p [Hp Ht]]. apply in_map_iff in Hp. destruct Hp as [y [<- Hy]]. exists y. auto.
  - intros [y [Hy Ht]]. exists (a, y). split; [|exact Ht]. apply in_map_iff. exists y. auto.
Qed.

Section Wire.
  Variable add_from : node -> node -> list triple -> list triple.
  Hypothesis Hok : add_from_ok add_from.

  Lemma add_from_in a b g t : vis t -> (In t (add_from a b g) <-> t = (a, p_from, b) \/ In t g).
  Proof. apply Hok. Qed.

  Lemma add_from_all_in ps : forall g t, vis t ->
    (In t (add_from_all add_from ps g) <->
     (exists p, In p ps /\ t = (fst p, p_from, snd p)) \/ In t g).
  Proof.
    induction ps as [|p ps IH]; intros g t Hv; unfold add_from_all; cbn [fold_left].
    - split; [auto | intros [[p [[] _]] | H]; auto].
    - fold (add_from_all add_from ps (add_from (fst p) (snd p) g)).
      rewrite IH by auto. rewrite add_from_in by auto. split.
      + intros [[q [Hq Ht]] | [Ht | Ht]].
        * left. exists q. cbn [In]. auto.
        * left. exists p. cbn [In]. auto.
        * auto.
      + intros [[q [[<- | Hq] Ht]] | H].
        * right. left. exact Ht.
        * left. exists q. auto.
        * right. right. exact H.
  Qed.

  Lemma add_from_internal a b g s j :
    In (s, p_internal, j) (add_from a b g) <-> In (s, p_internal, j) g.
  Proof.
    rewrite add_from_in by apply vis_internal. split; [|auto].
    intros [E | H]; [discriminate E | exact H].
  Qed.

  Lemma add_from_all_internal ps g s j :
    In (s, p_internal, j) (add_from_all add_from ps g) <-> In (s, p_internal, j) g.
  Proof.
    rewrite add_from_all_in by apply vis_internal. split; [|auto].
    intros [[p [_ E]] | H]; [discriminate E | exact H].
  Qed.

  Lemma wire_in f x ci g t : vis t ->
    (In t (wire add_from false f x ci g) <->
      In t g \/ t = (f, p_from, x)
      \/ (exists iN j, ci = Some iN /\ In (x, p_internal, j) g /\ t = (j, p_from, iN))
      \/ (exists j, In (f, p_internal, j) g /\ ci <> Some j /\ t = (j, p_from, x))
      \/ (exists iN y, ci = Some iN /\ In (f, p_from, y) g /\ t = (iN, p_from, y))).
  Proof.
    intros Hv. unfold wire. destruct ci as [iN|].
    - rewrite add_from_all_in by auto. rewrite in_map_pairs_r.
      rewrite add_from_all_in by auto. rewrite in_map_pairs_l.
      rewrite add_from_all_in by auto. rewrite in_map_pairs_l.
      rewrite add_from_in by auto.
      split.
      + intros [[y [Hy Ht]] | [[j [Hj Ht]] | [[j [Hj Ht]] | [Ht | Ht]]]].
        * apply In_objs in Hy. right. right. right. right. exists iN, y. auto.
        * apply filter_In in Hj. destruct Hj as [Hj Hne]. apply In_objs in Hj.
          apply add_from_all_internal, add_from_internal in Hj.
          right. right. right. left. exists j. split; [auto|]. split; [|auto].
          intros [= ->]. rewrite Nat.eqb_refl in Hne. discriminate.
        * apply In_objs in Hj. apply add_from_internal in Hj.
          right. right. left. exists iN, j. auto.
        * auto.
        * auto.
      + intros [Ht | [Ht | [[i' [j [[= <-] [Hj Ht]]]] | [[j [Hj [Hne Ht]]] | [i' [y [[= <-] [Hy Ht]]]]]]]].
        * auto.
        * auto.
        * right. right. left. exists j. split; [|auto]. apply In_objs.
          now apply add_from_internal.
        * right. left. exists j. split; [|auto]. apply filter_In. split.
          -- apply In_objs. now apply add_from_all_internal, add_from_internal.
          -- apply negb_true_iff. apply Nat.eqb_neq. intros ->. now apply Hne.
        * left. exists y. split; [|auto]. now apply In_objs.
    - rewrite add_from_all_in by auto. rewrite in_map_pairs_l.
      rewrite add_from_in by auto.
      split.
      + intros [[j [Hj Ht]] | [Ht | Ht]].
        * apply filter_In in Hj. destruct Hj as [Hj _]. apply In_objs in Hj.
          apply add_from_internal in Hj.
          right. right. right. left. exists j. split; [auto|]. split; [discriminate|auto].
        * auto.
        * auto.
      + intros [Ht | [Ht | [[i' [j [E _]]] | [[j [Hj [_ Ht]]] | [i' [y [E _]]]]]]]; try discriminate E.
        * auto.
        * auto.
        * left. exists j. split; [|auto]. apply filter_In. split; [|reflexivity].
          apply In_objs. now apply add_from_internal.
  Qed.

  (* The wiring step turns the graph of a step with arguments [args] into the
     graph of the step with arguments [args ++ [a]] *)
  Definition pre_edges (c : node) (a : akind * lx) : list triple :=
    match fst a with
    | AData => []
    | AFun i => [(anode a, p_from, i); (c, p_internal, i)]
    | AAbs i => [(c, p_internal, i)]
    end.
  Definition ci_of (a : akind * lx) : option node :=
    match fst a with AData => None | AFun i => Some i | AAbs i => Some i end.

  Lemma wire_snoc c o args a G tr0 :
    (forall j, In (c, p_internal, j) G <-> In j (aint a) \/ In j (flat_map aint args)) ->
    (forall y, In (c, p_from, y) G <-> exists b, In b args /\ y = anode b) ->
    (forall j, In (anode a, p_internal, j) G <-> In j (linternals (snd a))) ->
    (forall i, In i (aint a) -> ~ In i (flat_map aint args)) ->
    veq G (pre_edges c a ++ flow (snd a) ++ flow (LSpine c o args) ++ tr0) ->
    veq (wire add_from false c (anode a) (ci_of a) G) (flow (LSpine c o (args ++ [a])) ++ tr0).
  Proof.
    intros Hci Hcf Hxi Hfresh HG t Hv.
    rewrite wire_in by auto. rewrite in_app_iff, In_flow_snoc.
    rewrite (HG t Hv). rewrite !in_app_iff.
    assert (Hint : forall j, In j (flat_map aint args) <-> exists b, In b args /\ In j (aint b)).
    { intros j. apply in_flat_map. }
    split.
    - intros [[H | [H | [H | H]]] | [H | [H | [H | H]]]].
      + (* pre_edges *)
        unfold pre_edges in H. left. right. left. unfold arg_edges.
        destruct (fst a) as [|i|i]; cbn [In] in *.
        * destruct H.
        * destruct H as [<- | [<- | []]]; auto.
        * destruct H as [<- | []]; auto.
      + left. right. right. right. right. exact H.
      + left. left. exact H.
      + right. exact H.
      + subst t. left. right. left. unfold arg_edges. cbn [In]. auto.
      + destruct H as [iN [j [Hc [Hj ->]]]]. apply Hxi in Hj.
        left. right. left. unfold arg_edges. unfold ci_of in Hc.
        destruct (fst a) as [|i|i]; [discriminate| |]; injection Hc as ->; cbn [In];
          right; right; [right|]; apply in_map_iff; exists j; auto.
      + destruct H as [j [Hj [Hne ->]]]. apply Hci in Hj. destruct Hj as [Hj | Hj].
        * exfalso. apply Hne. unfold ci_of, aint in *.
          destruct (fst a) as [|i|i]; cbn [kint In] in Hj.
          -- destruct Hj.
          -- destruct Hj as [<- | []]. reflexivity.
          -- destruct Hj as [<- | []]. reflexivity.
        * apply Hint in Hj. destruct Hj as [b [Hb Hj]].
          left. right. right. right. left. exists b, j. auto.
      + destruct H as [iN [y [Hc [Hy ->]]]]. apply Hcf in Hy. destruct Hy as [b [Hb ->]].
        left. right. right. left. exists iN, b. split; [|auto].
        unfold ci_of, aint in *. destruct (fst a) as [|i|i]; [discriminate| |];
          injection Hc as ->; cbn; auto.
    - intros [[H | [H | [H | [H | H]]]] | H].
      + left. right. right. left. exact H.
      + (* arg_edges *)
        unfold arg_edges in H. unfold pre_edges, ci_of.
        destruct (fst a) as [|i|i] eqn:Ek; cbn [In] in *.
        * destruct H as [<- | []]. right. left. reflexivity.
        * destruct H as [<- | [<- | [<- | H]]].
          -- right. left. reflexivity.
          -- left. left. auto.
          -- left. left. auto.
          -- apply in_map_iff in H. destruct H as [j [<- Hj]].
             right. right. left. exists i, j. split; [auto|]. split; [|auto]. now apply Hxi.
        * destruct H as [<- | [<- | H]].
          -- right. left. reflexivity.
          -- left. left. auto.
          -- apply in_map_iff in H. destruct H as [j [<- Hj]].
             right. right. left. exists i, j. split; [auto|]. split; [|auto]. now apply Hxi.
      + destruct H as [i [b [Hi [Hb ->]]]].
        right. right. right. right. exists i, (anode b). split.
        * unfold ci_of, aint in *. destruct (fst a) as [|k|k]; cbn [kint In] in Hi.
          -- destruct Hi.
          -- destruct Hi as [<- | []]. reflexivity.
          -- destruct Hi as [<- | []]. reflexivity.
        * split; [|auto]. apply Hcf. exists b. auto.
      + destruct H as [b [i [Hb [Hi ->]]]].
        assert (Hi' : In i (flat_map aint args)) by (apply Hint; exists b; auto).
        right. right. right. left. exists i. split; [apply Hci; auto|]. split; [|auto].
        intros Hc. apply (Hfresh i); [|exact Hi'].
        unfold ci_of, aint in *. destruct (fst a) as [|k|k]; [discriminate| |];
          injection Hc as ->; cbn; auto.
      + left. right. left. exact H.
      + left. right. right. right. exact H.
  Qed.
End Wire.

(* ------------------------------------------------------------------------ *)
(* Part C: the recursion *)

Lemma NoDup_app_intro {A} (l1 l2 : list A) :
  NoDup l1 -> NoDup l2 -> (forall x, In x l1 -> ~ In x l2) -> NoDup (l1 ++ l2).
Proof.
  induction l1 as [|x l1 IH]; intros H1 H2 H; cbn [app]; [exact H2|].
  apply NoDup_cons_iff in H1. destruct H1 as [Hx H1]. constructor.
  - rewrite in_app_iff. intros [F | F]; [auto|]. apply (H x); cbn; auto.
  - apply IH; auto. intros y Hy. apply H. cbn. auto.
Qed.

Lemma memo_find_In k m n : memo_find k m = Some n -> In (k, n) m.
Proof.
  induction m as [|[k' n'] m IH]; cbn [memo_find]; [discriminate|].
  destruct (key_eqb k k') eqn:E.
  - intros [= ->]. apply key_eqb_eq in E. subst. cbn. auto.
  - intros H. cbn. auto.
Qed.

Lemma memo_find_tag k m :
  (forall k' n, In (k', n) m -> fst k' = 0 \/ fst k' = 1) -> 2 <= fst k -> memo_find k m = None.
Proof.
  intros H Hk. destruct (memo_find k m) as [n|] eqn:E; [|reflexivity].
  apply memo_find_In in E. apply H in E. lia.
Qed.

Lemma memo_find_bind k ps iN m :
  memo_find k (map (fun p => ((1, p), iN)) ps ++ m) =
  if Nat.eqb (fst k) 1 && memb (snd k) ps then Some iN else memo_find k m.
Proof.
  destruct k as [k1 k2]. cbn [fst snd].
  induction ps as [|p ps IH]; cbn [map app memo_find memb existsb].
  - now rewrite andb_false_r.
  - unfold key_eqb. cbn [fst snd]. fold (memb k2 ps).
    destruct (Nat.eqb k1 1) eqn:E1; cbn [andb].
    + destruct (Nat.eqb k2 p) eqn:E2; cbn [orb]; [reflexivity|]. rewrite IH. reflexivity.
    + rewrite IH. reflexivity.
Qed.

Lemma env_find_bind v ps iN en :
  env_find v (env_bind ps iN en) = if memb v ps then Some iN else env_find v en.
Proof.
  unfold env_bind. induction ps as [|p ps IH]; cbn [map app env_find memb existsb]; [reflexivity|].
  fold (memb v ps). destruct (Nat.eqb v p); cbn [orb]; [reflexivity | exact IH].
Qed.

Lemma memb_app v l1 l2 : memb v (l1 ++ l2) = memb v l1 || memb v l2.
Proof. unfold memb. apply existsb_app. Qed.

Definition srcmap (m : memo) : nat -> option node := fun i => memo_find (0, i) m.

Lemma shape_mono sm sm' en e L :
  (forall i n, sm i = Some n -> sm' i = Some n) -> shape sm en e L -> shape sm' en e L.
Proof.
  intros Hm H. induction H.
  - apply sh_src. auto.
  - apply sh_var. auto.
  - apply sh_op.
  - apply sh_data; auto.
  - apply sh_fun; auto.
  - apply sh_abs; auto.
Qed.

Lemma shape_okb sm en e L : shape sm en e L -> okb L = true.
Proof.
  intros H. induction H; try reflexivity.
  - rewrite okb_snoc, IHshape1. cbn [okarg fst snd andb]. exact IHshape2.
  - rewrite okb_snoc, IHshape1. cbn [okarg fst snd andb]. exact IHshape2.
  - rewrite okb_snoc, IHshape1. cbn [okarg fst snd andb]. exact IHshape2.
Qed.

Definition Inv (st : gstate) : Prop :=
  (forall t, In t (g_tr st) -> vis t -> t_subj t < g_next st) /\
  (forall k n, In (k, n) (g_memo st) ->
     n < g_next st /\ (fst k = 0 \/ fst k = 1) /\ (forall j, ~ In (n, p_internal, j) (g_tr st))) /\
  (forall i j n, memo_find (0, i) (g_memo st) = Some n ->
     memo_find (0, j) (g_memo st) = Some n -> i = j).

(* the node handed down as [current]: allocated, unused so far *)
Definition cur_ok (c : node) (st : gstate) : Prop :=
  c < g_next st /\ (forall t, In t (g_tr st) -> vis t -> t_subj t <> c) /\
  (forall k, ~ In (k, c) (g_memo st)).

Definition env_ok (vs : list nat) (en : env) (m : memo) : Prop :=
  forall v, memb v vs = true -> exists n, env_find v en = Some n /\ memo_find (1, v) m = Some n.

Record Post (vs : list nat) (en : env) (e : expr) (c : node) (st : gstate) (L : lx) (st' : gstate)
    : Prop := mkPost {
  p_shape : shape (srcmap (g_memo st')) en e L;
  p_veq : veq (g_tr st') (flow L ++ g_tr st);
  p_names : forall x, In x (names L) -> x = c \/ (g_next st <= x < g_next st');
  p_spine : is_spine e = true -> exists o args, L = LSpine c o args;
  p_leaf : forall n, L = LLeaf n -> exists k, In (k, n) (g_memo st');
  p_nodup : NoDup (names L);
  p_inv : Inv st';
  p_next : g_next st <= g_next st';
  p_vars : forall v, memb v vs = true ->
             memo_find (1, v) (g_memo st') = memo_find (1, v) (g_memo st);
  p_srcs : forall i n, memo_find (0, i) (g_memo st) = Some n ->
             memo_find (0, i) (g_memo st') = Some n;
  p_new : forall k n, In (k, n) (g_memo st') ->
             In (k, n) (g_memo st) \/ g_next st <= n \/ (n = c /\ L = LLeaf c);
  p_srcnames : forall k n, In (k, n) (g_memo st') -> fst k = 0 -> ~ In n (names L)
}.

Definition pre_from (a : akind * lx) : list triple :=
  match fst a with AFun i => [(anode a, p_from, i)] | _ => [] end.

Section Main.
  Variable add_from : node -> node -> list triple -> list triple.
  Hypothesis Hok : add_from_ok add_from.

  (* everything after the recursive call for the argument *)
  Lemma tail_step c o args a tr0 tr1 tr5 G n1 :
    veq tr1 (flow (LSpine c o args) ++ tr0) ->
    NoDup (names (LSpine c o args)) -> okb (LSpine c o args) = true ->
    (forall x, In x (names (LSpine c o args)) -> x < n1) ->
    (forall t, In t tr0 -> vis t -> t_subj t <> c /\ t_subj t < n1) ->
    veq tr5 (flow (snd a) ++ map (fun i => (c, p_internal, i)) (aint a) ++ tr1) ->
    okarg a = true -> okb (snd a) = true -> NoDup (names (snd a)) ->
    (forall x, In x (names (snd a)) -> n1 <= x) ->
    (forall i, In i (aint a) -> i = n1) ->
    (forall n, snd a = LLeaf n -> forall j, ~ In (n, p_internal, j) tr5) ->
    veq G (pre_from a ++ tr5) ->
    veq (wire add_from false c (anode a) (ci_of a) G) (flow (LSpine c o (args ++ [a])) ++ tr0).
  Proof.
    intros H1 Hnd Hokf Hnf H0 H5 Hoka Hokx Hndx Hnx Hai Hleaf HG.
    assert (Hc : c < n1) by (apply Hnf; cbn; auto).
    assert (HcX : ~ In c (names (snd a))) by (intros F; apply Hnx in F; lia).
    (* membership in G of a visible triple *)
    assert (HGin : forall t, vis t ->
      (In t G <-> In t (pre_from a) \/ In t (flow (snd a)) \/
                  In t (map (fun i => (c, p_internal, i)) (aint a)) \/
                  In t (flow (LSpine c o args)) \/ In t tr0)).
    { intros t Hv. rewrite (HG t Hv), in_app_iff, (H5 t Hv), !in_app_iff, (H1 t Hv), in_app_iff.
      tauto. }
    apply wire_snoc; auto.
    - (* internal nodes attached to c *)
      intros j. rewrite (HGin _ (vis_internal c j)). split.
      + intros [H | [H | [H | [H | H]]]].
        * unfold pre_from in H. destruct (fst a); cbn [In] in H; try tauto.
          destruct H as [E | []]. discriminate E.
        * exfalso. apply HcX. apply (flow_subj _ Hokx _ H).
        * apply in_map_iff in H. destruct H as [i [[= ->] Hi]]. auto.
        * right. now apply (flow_own_internal c o args j Hnd Hokf).
        * exfalso. apply (H0 _ H (vis_internal c j)). reflexivity.
      + intros [H | H].
        * right. right. left. apply in_map_iff. exists j. auto.
        * right. right. right. left. now apply (flow_own_internal c o args j Hnd Hokf).
    - (* inputs of c *)
      intros y. rewrite (HGin _ (vis_from c y)). split.
      + intros [H | [H | [H | [H | H]]]].
        * exfalso. unfold pre_from in H. destruct (fst a) as [|i|i] eqn:Ek; cbn [In] in H; try tauto.
          destruct H as [E | []]. injection E as E1 E2. apply HcX. rewrite <- E1.
          apply anode_names; eauto.
        * exfalso. apply HcX. apply (flow_subj _ Hokx _ H).
        * apply in_map_iff in H. destruct H as [i [E _]]. discriminate E.
        * now apply (flow_own_from c o args y Hnd Hokf).
        * exfalso. apply (H0 _ H (vis_from c y)). reflexivity.
      + intros H. right. right. right. left. now apply (flow_own_from c o args y Hnd Hokf).
    - (* internal nodes attached to the argument's node *)
      intros j. unfold anode. destruct (snd a) as [n | cx ox argsx] eqn:Ex; cbn [lnode linternals].
      + split; [|intros []]. intros H. exfalso.
        assert (Hv := vis_internal n j).
        apply (HG _ Hv) in H. apply in_app_iff in H. destruct H as [H | H].
        * unfold pre_from in H. destruct (fst a); cbn [In] in H; try tauto.
          destruct H as [E | []]. discriminate E.
        * apply (Hleaf n eq_refl j H).
      + assert (Hcx : n1 <= cx) by (apply Hnx; cbn; auto).
        rewrite (HGin _ (vis_internal cx j)). split.
        * intros [H | [H | [H | [H | H]]]].
          -- unfold pre_from in H. destruct (fst a); cbn [In] in H; try tauto.
             destruct H as [E | []]. discriminate E.
          -- now apply (flow_own_internal cx ox argsx j Hndx Hokx).
          -- apply in_map_iff in H. destruct H as [i [[= -> ->] _]]. lia.
          -- apply (flow_subj _ Hokf) in H. unfold t_subj in H. cbn [fst snd] in H.
             apply Hnf in H. lia.
          -- apply H0 in H; [|apply vis_internal]. unfold t_subj in H. cbn [fst snd] in H. lia.
        * intros H. right. left. now apply (flow_own_internal cx ox argsx j Hndx Hokx).
    - intros i Hi Hi'. apply Hai in Hi. subst i.
      assert (In n1 (names (LSpine c o args))).
      { apply in_flat_map in Hi'. destruct Hi' as [b [Hb Hi']].
        apply In_names_spine. right. exists b. auto. }
      apply Hnf in H. lia.
    - intros t Hv. rewrite (HGin t Hv), !in_app_iff.
      assert (E : In t (pre_edges c a) <->
                  In t (pre_from a) \/ In t (map (fun i => (c, p_internal, i)) (aint a))).
      { unfold pre_edges, pre_from, aint. destruct (fst a); cbn [kint map In]; tauto. }
      rewrite E. tauto.
  Qed.

  Lemma wire_internal f x ci g s j :
    In (s, p_internal, j) (wire add_from false f x ci g) <-> In (s, p_internal, j) g.
  Proof.
    rewrite (wire_in add_from Hok) by apply vis_internal. split; [|auto].
    intros [H | [E | [[i [k [_ [_ E]]]] | [[k [_ [_ E]]] | [i [y [_ [_ E]]]]]]]];
      try discriminate E. exact H.
  Qed.

  Lemma app_tail vs en f c st o args st1 (a : akind * lx) vsx enx ex xc ss se G :
    cur_ok c st -> Inv st ->
    Post vs en f c st (LSpine c o args) st1 ->
    Post vsx enx ex xc ss (snd a) se ->
    okarg a = true ->
    (forall v, memb v vs = true -> memb v vsx = true) ->
    g_tr ss = map (fun i => (c, p_internal, i)) (aint a) ++ g_tr st1 ->
    g_next st1 <= xc -> xc < g_next ss ->
    (forall i, In i (aint a) -> i = g_next st1 /\ i < xc) ->
    (forall k n, In (k, n) (g_memo ss) ->
       In (k, n) (g_memo st1) \/ (fst k = 1 /\ g_next st1 <= n)) ->
    (forall v, memb v vs = true ->
       memo_find (1, v) (g_memo ss) = memo_find (1, v) (g_memo st1)) ->
    (forall i, memo_find (0, i) (g_memo ss) = memo_find (0, i) (g_memo st1)) ->
    veq G (pre_from a ++ g_tr se) ->
    (forall s j, In (s, p_internal, j) G <-> In (s, p_internal, j) (g_tr se)) ->
    forall e', shape (srcmap (g_memo se)) en e' (LSpine c o (args ++ [a])) ->
    Post vs en e' c st (LSpine c o (args ++ [a]))
      (mkG (wire add_from false c (anode a) (ci_of a) G) (g_memo se) (g_next se)).
  Proof.
    intros Hcur Hinv Pf Px Hoka Hvs Htr Hxc1 Hxc2 Hai Hmemo Hmv Hms HG HGi e' Hsh'.
    destruct Pf as [Fsh Fveq Fnames Fspine Fleaf Fnd Finv Fnext Fvars Fsrcs Fnew Fsn].
    destruct Px as [Xsh Xveq Xnames Xspine Xleaf Xnd Xinv Xnext Xvars Xsrcs Xnew Xsn].
    destruct Hcur as [Hc1 [Hc2 Hc3]].
    destruct Hinv as [I1 [I2 I3]].
    assert (Hokf : okb (LSpine c o args) = true) by (eapply shape_okb; eauto).
    assert (Hokx : okb (snd a) = true) by (eapply shape_okb; eauto).
    assert (HnF : forall x, In x (names (LSpine c o args)) -> x < g_next st1).
    { intros x Hx. destruct (Fnames x Hx); lia. }
    assert (HnX : forall x, In x (names (snd a)) -> xc <= x /\ x < g_next se).
    { intros x Hx. destruct (Xnames x Hx); lia. }
    assert (Hkint : forall x, In x (kint (fst a)) -> x = g_next st1 /\ x < xc).
    { intros x Hx. apply Hai. exact Hx. }
    set (L' := LSpine c o (args ++ [a])).
    set (st' := mkG (wire add_from false c (anode a) (ci_of a) G) (g_memo se) (g_next se)).
    assert (Hveq' : veq (g_tr st') (flow L' ++ g_tr st)).
    { unfold st', L'. cbn [g_tr].
      apply (tail_step c o args a (g_tr st) (g_tr st1) (g_tr se) G (g_next st1)); auto.
      - intros t Ht Hv. split; [apply Hc2; auto|]. specialize (I1 t Ht Hv). lia.
      - rewrite <- Htr. exact Xveq.
      - intros x Hx. apply HnX in Hx. lia.
      - intros i Hi. apply Hai in Hi. tauto.
      - intros n Hn j. destruct (Xleaf n Hn) as [k Hk].
        destruct Xinv as [_ [X2 _]]. apply (X2 k n Hk). }
    assert (HokL : okb L' = true).
    { unfold L'. rewrite okb_snoc, Hokf, Hoka, Hokx. reflexivity. }
    assert (HnL : forall x, In x (names L') -> x = c \/ (g_next st <= x < g_next se)).
    { intros x Hx. unfold L' in Hx. rewrite names_snoc in Hx.
      apply in_app_iff in Hx. destruct Hx as [Hx | Hx].
      - destruct (Fnames x Hx); [auto | right; lia].
      - apply in_app_iff in Hx. destruct Hx as [Hx | Hx].
        + apply Hkint in Hx. right. lia.
        + apply HnX in Hx. right. lia. }
    constructor.
    - exact Hsh'.
    - exact Hveq'.
    - exact HnL.
    - intros _. exists o, (args ++ [a]). reflexivity.
    - intros n E. discriminate E.
    - fold L'. unfold L'. rewrite names_snoc. apply NoDup_app_intro; [exact Fnd | |].
      + apply NoDup_app_intro; [| exact Xnd |].
        * destruct (fst a); cbn [kint]; repeat constructor; intros [].
        * intros x Hx Hx'. apply Hkint in Hx. apply HnX in Hx'. lia.
      + intros x Hx Hx'. apply HnF in Hx. apply in_app_iff in Hx'. destruct Hx' as [Hx' | Hx'].
        * apply Hkint in Hx'. lia.
        * apply HnX in Hx'. lia.
    - (* Inv *)
      fold st'. split; [|split].
      + intros t Ht Hv. apply (Hveq' t Hv) in Ht. apply in_app_iff in Ht.
        unfold st'. cbn [g_next]. destruct Ht as [Ht | Ht].
        * apply (flow_subj _ HokL) in Ht. destruct (HnL _ Ht); lia.
        * specialize (I1 t Ht Hv). lia.
      + intros k n Hk. unfold st' in *. cbn [g_memo g_next g_tr] in *.
        destruct Xinv as [_ [X2 _]]. destruct (X2 k n Hk) as [Hn [Htag Hni]].
        split; [exact Hn|]. split; [exact Htag|].
        intros j Hj. apply wire_internal in Hj. apply HGi in Hj. apply (Hni j Hj).
      + unfold st'. cbn [g_memo]. destruct Xinv as [_ [_ X3]]. exact X3.
    - unfold st'. cbn [g_next]. lia.
    - intros v Hv. unfold st'. cbn [g_memo]. rewrite (Xvars v (Hvs v Hv)), (Hmv v Hv). apply Fvars. exact Hv.
    - intros i n Hn. unfold st'. cbn [g_memo]. apply Xsrcs. rewrite Hms. apply Fsrcs. exact Hn.
    - intros k n Hk. unfold st' in Hk. cbn [g_memo] in Hk. destruct (Xnew k n Hk) as [H | [H | [H _]]].
      + destruct (Hmemo k n H) as [H' | [_ H']].
        * destruct (Fnew k n H') as [H'' | [H'' | [_ H'']]]; [auto | auto | discriminate H''].
        * right. left. lia.
      + right. left. lia.
      + right. left. lia.
    - intros k n Hk Htag. unfold st' in Hk. cbn [g_memo] in Hk. unfold L'. rewrite names_snoc.
      rewrite !in_app_iff.
      destruct (Xnew k n Hk) as [H | H].
      + destruct (Hmemo k n H) as [H' | [H' _]]; [|lia].
        destruct Finv as [_ [F2 _]]. destruct (F2 k n H') as [Hn _].
        intros [Hx | [Hx | Hx]].
        * apply (Fsn k n H' Htag Hx).
        * apply Hkint in Hx. lia.
        * apply HnX in Hx. lia.
      + assert (Hn : xc <= n) by (destruct H as [H | [H _]]; lia).
        intros [Hx | [Hx | Hx]].
        * apply HnF in Hx. lia.
        * apply Hkint in Hx. lia.
        * apply (Xsn k n Hk Htag Hx).
  Qed.
End Main.

Lemma key_eqb_refl k : key_eqb k k = true.
Proof. apply key_eqb_eq. reflexivity. Qed.

Lemma Inv_fresh st : Inv st -> Inv (snd (fresh st)).
Proof.
  intros [I1 [I2 I3]]. unfold fresh. cbn [snd]. split; [|split]; cbn [g_tr g_memo g_next].
  - intros t Ht Hv. specialize (I1 t Ht Hv). lia.
  - intros k n Hk. destruct (I2 k n Hk) as [A [B C]]. split; [lia|]. split; auto.
  - exact I3.
Qed.

Lemma cur_ok_fresh st : Inv st -> cur_ok (g_next st) (snd (fresh st)).
Proof.
  intros [I1 [I2 I3]]. unfold fresh, cur_ok. cbn [snd g_tr g_memo g_next]. split; [lia|]. split.
  - intros t Ht Hv. specialize (I1 t Ht Hv). lia.
  - intros k Hk. destruct (I2 k _ Hk) as [A _]. lia.
Qed.

Lemma post_hit vs en e c st n :
  Inv st -> shape (srcmap (g_memo st)) en e (LLeaf n) -> (exists k, In (k, n) (g_memo st)) ->
  is_spine e = false -> Post vs en e c st (LLeaf n) st.
Proof.
  intros Hinv Hsh Hk Hsp. constructor; auto.
  - cbn [flow app]. apply veq_refl.
  - intros x [].
  - rewrite Hsp. discriminate.
  - intros n' [= <-]. exact Hk.
  - constructor.
Qed.

Lemma is_spine_not_abs e : is_spine e = true -> is_abs e = false.
Proof. destruct e; cbn; auto; discriminate. Qed.

Section Rec.
  Variable add_from : node -> node -> list triple -> list triple.
  Hypothesis Hok : add_from_ok add_from.

  Definition MainStmt (e : expr) : Prop :=
    forall vs en c st, wfb vs e = true -> Inv st -> cur_ok c st -> env_ok vs en (g_memo st) ->
    exists L st', add_expr add_from false e (Some c) st = Some (lnode L, st') /\
                  Post vs en e c st L st'.

  Lemma main_rec e : MainStmt e /\ (forall j ps b, e = EAbs j ps b -> MainStmt b).
  Proof.
    induction e as [i | v | i o | i f IHf x IHx fn | j ps b IHb].
    - (* ESrc *)
      split; [|intros ? ? ? E; discriminate E].
      intros vs en c st _ Hinv Hcur Henv. cbn [add_expr key_of].
      destruct (memo_find (0, i) (g_memo st)) as [n|] eqn:Em.
      + exists (LLeaf n), st. split; [reflexivity|]. apply post_hit; auto.
        * apply sh_src. exact Em.
        * exists (0, i). now apply memo_find_In.
      + exists (LLeaf c), (set_memo (0, i) c st). split; [reflexivity|].
        destruct Hinv as [I1 [I2 I3]]. destruct Hcur as [Hc1 [Hc2 Hc3]].
        constructor; unfold set_memo; cbn [g_tr g_memo g_next].
        * apply sh_src. unfold srcmap. cbn [memo_find]. now rewrite key_eqb_refl.
        * cbn [flow app]. apply veq_refl.
        * intros x [].
        * cbn. discriminate.
        * intros n [= <-]. exists (0, i). cbn. auto.
        * constructor.
        * unfold Inv. cbn [g_tr g_memo g_next]. split; [exact I1|]. split.
          -- intros k n [[= <- <-] | Hk].
             ++ split; [exact Hc1|]. split; [cbn; auto|].
                intros j Hj. apply (Hc2 _ Hj (vis_internal c j)). reflexivity.
             ++ apply I2. exact Hk.
          -- intros i1 i2 n. cbn [memo_find].
             destruct (key_eqb (0, i1) (0, i)) eqn:E1; destruct (key_eqb (0, i2) (0, i)) eqn:E2.
             ++ apply key_eqb_eq in E1. apply key_eqb_eq in E2. congruence.
             ++ intros [= <-] H2. apply memo_find_In in H2. exfalso. apply (Hc3 _ H2).
             ++ intros H1 [= <-]. apply memo_find_In in H1. exfalso. apply (Hc3 _ H1).
             ++ apply I3.
        * lia.
        * intros v _. cbn [memo_find]. unfold key_eqb. cbn. reflexivity.
        * intros i' n Hn. cbn [memo_find]. destruct (key_eqb (0, i') (0, i)) eqn:E; [|exact Hn].
          apply key_eqb_eq in E. injection E as ->. rewrite Em in Hn. discriminate.
        * intros k n [[= <- <-] | Hk]; auto.
        * intros k n _ _ [].
    - (* EVar *)
      split; [|intros ? ? ? E; discriminate E].
      intros vs en c st Hwf Hinv Hcur Henv. cbn [wfb] in Hwf.
      destruct (Henv v Hwf) as [n [He Hm]]. cbn [add_expr key_of]. rewrite Hm.
      exists (LLeaf n), st. split; [reflexivity|]. apply post_hit; auto.
      + apply sh_var. exact He.
      + exists (1, v). now apply memo_find_In.
    - (* EOp *)
      split; [|intros ? ? ? E; discriminate E].
      intros vs en c st _ Hinv Hcur Henv. cbn [add_expr key_of].
      destruct Hinv as [I1 [I2 I3]]. destruct Hcur as [Hc1 [Hc2 Hc3]].
      rewrite (memo_find_tag (2, i) (g_memo st)); [|intros k n Hk; apply (I2 k n Hk)|cbn; lia].
      exists (LSpine c o []), (add_tr (c, p_via, o) st). split; [reflexivity|].
      constructor; unfold add_tr; cbn [g_tr g_memo g_next].
      + apply sh_op.
      + cbn. apply veq_refl.
      + intros x [<- | []]. auto.
      + intros _. exists o, []. reflexivity.
      + intros n E. discriminate E.
      + cbn. repeat constructor. intros [].
      + unfold Inv. cbn [g_tr g_memo g_next]. split; [|split].
        * intros t [<- | Ht] Hv; [exact Hc1 | apply I1; auto].
        * intros k n Hk. destruct (I2 k n Hk) as [A [B C]]. split; [exact A|]. split; [exact B|].
          intros j [E | Hj]; [discriminate E | apply (C j Hj)].
        * exact I3.
      + lia.
      + reflexivity.
      + auto.
      + auto.
      + intros k n Hk _ [<- | []]. apply (Hc3 _ Hk).
    - (* EApp *)
      split; [|intros ? ? ? E; discriminate E].
      destruct IHf as [IHf _].
      intros vs en c st Hwf Hinv Hcur Henv. cbn [wfb] in Hwf.
      apply andb_true_iff in Hwf. destruct Hwf as [Hwf Hwx].
      apply andb_true_iff in Hwf. destruct Hwf as [Hspf Hwf].
      cbn [add_expr key_of].
      assert (Htag : forall k n, In (k, n) (g_memo st) -> fst k = 0 \/ fst k = 1).
      { intros k n Hk. destruct Hinv as [_ [I2 _]]. apply (I2 k n Hk). }
      rewrite (memo_find_tag (3, i) (g_memo st) Htag); [|cbn; lia].
      rewrite (is_spine_not_abs f Hspf).
      destruct (IHf vs en c st Hwf Hinv Hcur Henv) as [Lf [st1 [Ef Pf]]].
      destruct (p_spine _ _ _ _ _ _ _ Pf Hspf) as [o [args ->]].
      cbn [lnode] in Ef. rewrite Ef.
      assert (Hinv1 := p_inv _ _ _ _ _ _ _ Pf).
      assert (Hnext1 := p_next _ _ _ _ _ _ _ Pf).
      assert (Hc1 : c < g_next st) by apply Hcur.
      assert (Hcm1 : forall k, ~ In (k, c) (g_memo st1)).
      { intros k Hk. destruct (p_new _ _ _ _ _ _ _ Pf k c Hk) as [H | [H | [_ H]]].
        - destruct Hcur as [_ [_ Hc3]]. apply (Hc3 _ H).
        - lia.
        - discriminate H. }
      assert (Henv1 : env_ok vs en (g_memo st1)).
      { intros v Hv. destruct (Henv v Hv) as [n [A B]]. exists n. split; [exact A|].
        rewrite (p_vars _ _ _ _ _ _ _ Pf v Hv). exact B. }
      destruct fn.
      + (* a function is passed *)
        cbn [fresh fst snd].
        set (iN := g_next st1).
        set (st3 := add_tr (c, p_internal, iN) (mkG (g_tr st1) (g_memo st1) (S (g_next st1)))).
        assert (Hinv3 : Inv st3).
        { destruct Hinv1 as [I1 [I2 I3]]. unfold st3, add_tr, Inv. cbn [g_tr g_memo g_next].
          split; [|split].
          - intros t [<- | Ht] Hv; [unfold t_subj; cbn; lia | specialize (I1 t Ht Hv); lia].
          - intros k n Hk. destruct (I2 k n Hk) as [A [B C]]. split; [lia|]. split; [exact B|].
            intros j [E | Hj]; [|apply (C j Hj)]. injection E as -> _. apply (Hcm1 _ Hk).
          - exact I3. }
        destruct (is_abs x) eqn:Eabs.
        * (* an abstraction *)
          destruct x as [| | | |jx psx bx]; try discriminate Eabs.
          destruct IHx as [_ IHb]. specialize (IHb jx psx bx eq_refl).
          apply andb_true_iff in Hwx. destruct Hwx as [Hdisj Hwb].
          assert (Hnotin : forall v, memb v vs = true -> memb v psx = false).
          { intros v Hv. destruct (memb v psx) eqn:E; [|reflexivity]. exfalso.
            unfold memb in E. apply existsb_exists in E. destruct E as [p [Hp Hvp]].
            apply Nat.eqb_eq in Hvp. subst p. rewrite forallb_forall in Hdisj.
            specialize (Hdisj v Hp). rewrite Hv in Hdisj. discriminate. }
          cbn [bind_params fresh fst snd].
          set (st5 := mkG (g_tr st3) (map (fun p => ((1, p), iN)) psx ++ g_memo st3) (S (g_next st3))).
          assert (Hg3 : g_next st3 = S (g_next st1)) by reflexivity.
          assert (Hinv5 : Inv st5).
          { destruct Hinv3 as [I1 [I2 I3]]. unfold st5, Inv. cbn [g_tr g_memo g_next].
            split; [|split].
            - intros t Ht Hv. specialize (I1 t Ht Hv). lia.
            - intros k n Hk. apply in_app_iff in Hk. destruct Hk as [Hk | Hk].
              + apply in_map_iff in Hk. destruct Hk as [p [[= <- <-] _]].
                split; [unfold iN; lia|]. split; [cbn; auto|].
                intros j [E | Hj].
                * injection E as E1 _. unfold iN in E1. lia.
                * destruct Hinv1 as [J1 _]. specialize (J1 _ Hj (vis_internal iN j)).
                  unfold t_subj, iN in J1. cbn [fst snd] in J1. lia.
              + destruct (I2 k n Hk) as [A [B C]]. split; [lia|]. split; [exact B | exact C].
            - intros i1 i2 n. rewrite !memo_find_bind. cbn [fst snd Nat.eqb andb]. apply I3. }
          assert (Hcur5 : cur_ok (g_next st3) st5).
          { destruct Hinv3 as [I1 [I2 I3]]. unfold st5, cur_ok. cbn [g_tr g_memo g_next].
            split; [lia|]. split.
            - intros t Ht Hv. specialize (I1 t Ht Hv). lia.
            - intros k Hk. apply in_app_iff in Hk. destruct Hk as [Hk | Hk].
              + apply in_map_iff in Hk. destruct Hk as [p [[= _ E] _]]. unfold iN in E. lia.
              + destruct (I2 k _ Hk) as [A _]. lia. }
          assert (Henv5 : env_ok (psx ++ vs) (env_bind psx iN en) (g_memo st5)).
          { intros v Hv. unfold st5. cbn [g_memo]. rewrite env_find_bind, memo_find_bind.
            cbn [fst snd Nat.eqb andb]. rewrite memb_app in Hv.
            destruct (memb v psx) eqn:E.
            - exists iN. auto.
            - cbn [orb] in Hv. apply (Henv1 v Hv). }
          destruct (IHb (psx ++ vs) (env_bind psx iN en) (g_next st3) st5 Hwb Hinv5 Hcur5 Henv5)
            as [Lb [se [Eb Pb]]].
          match goal with |- context [add_expr add_from false bx ?u ?w] =>
            change (add_expr add_from false bx u w)
              with (add_expr add_from false bx (@Some node (g_next st3)) st5) end.
          rewrite Eb.
          exists (LSpine c o (args ++ [(AAbs iN, Lb)])),
                 (mkG (wire add_from false c (lnode Lb) (Some iN) (g_tr se)) (g_memo se) (g_next se)).
          split; [reflexivity|].
          apply (app_tail add_from Hok vs en f c st o args st1 (AAbs iN, Lb) (psx ++ vs)
                   (env_bind psx iN en) bx (g_next st3) st5 se (g_tr se));
            [exact Hcur | exact Hinv | exact Pf | exact Pb | reflexivity | | reflexivity
            | | | | | | | | |].
          -- intros v Hv. rewrite memb_app, Hv. apply orb_true_r.
          -- rewrite Hg3. lia.
          -- unfold st5. cbn [g_next]. lia.
          -- intros i0 [<- | []]. rewrite Hg3. unfold iN. lia.
          -- intros k n Hk. unfold st5 in Hk. cbn [g_memo] in Hk. apply in_app_iff in Hk.
             destruct Hk as [Hk | Hk]; [|left; exact Hk].
             apply in_map_iff in Hk. destruct Hk as [p [[= <- <-] _]]. right. cbn. unfold iN. lia.
          -- intros v Hv. unfold st5. cbn [g_memo]. rewrite memo_find_bind.
             cbn [fst snd Nat.eqb andb]. rewrite (Hnotin v Hv). reflexivity.
          -- intros i0. unfold st5. cbn [g_memo]. rewrite memo_find_bind. reflexivity.
          -- cbn. apply veq_refl.
          -- intros s j0. tauto.
          -- apply sh_abs.
             ++ apply (shape_mono (srcmap (g_memo st1))); [|exact (p_shape _ _ _ _ _ _ _ Pf)].
                intros i0 n Hn. unfold srcmap in *. apply (p_srcs _ _ _ _ _ _ _ Pb).
                unfold st5. cbn [g_memo]. rewrite memo_find_bind. exact Hn.
             ++ exact (p_shape _ _ _ _ _ _ _ Pb).
        * (* an operation or a partial application *)
          destruct IHx as [IHx _].
          assert (Hmatch : forall (T : Type) (A : nat -> list nat -> expr -> T) (B : T),
                    match x with
                    | ESrc _ => B | EVar _ => B | EOp _ _ => B | EApp _ _ _ _ => B
                    | EAbs j ps b => A j ps b end = B).
          { intros T A B. destruct x; try reflexivity. discriminate Eabs. }
          rewrite Hmatch in Hwx. rewrite Hmatch.
          apply andb_true_iff in Hwx. destruct Hwx as [Hspx Hwx].
          cbn [fresh fst snd].
          destruct (IHx vs en (g_next st3) (snd (fresh st3)) Hwx (Inv_fresh _ Hinv3)
                      (cur_ok_fresh _ Hinv3) Henv1) as [Lx [se [Ex Px]]].
          destruct (p_spine _ _ _ _ _ _ _ Px Hspx) as [ox [argsx ->]].
          cbn [lnode] in Ex.
          match goal with |- context [add_expr add_from false x ?u ?w] =>
            change (add_expr add_from false x u w)
              with (add_expr add_from false x (@Some node (g_next st3)) (snd (fresh st3))) end.
          rewrite Ex.
          exists (LSpine c o (args ++ [(AFun iN, LSpine (g_next st3) ox argsx)])),
                 (mkG (wire add_from false c (g_next st3) (Some iN)
                         (add_from (g_next st3) iN (g_tr se))) (g_memo se) (g_next se)).
          split; [reflexivity|].
          apply (app_tail add_from Hok vs en f c st o args st1
                   (AFun iN, LSpine (g_next st3) ox argsx) vs en x (g_next st3)
                   (snd (fresh st3)) se (add_from (g_next st3) iN (g_tr se)));
            [exact Hcur | exact Hinv | exact Pf | exact Px | reflexivity | auto | reflexivity
            | | | | | | | | |].
          -- cbn. lia.
          -- cbn. lia.
          -- intros i0 [<- | []]. unfold iN. cbn. lia.
          -- intros k n Hk. left. exact Hk.
          -- reflexivity.
          -- reflexivity.
          -- intros t Hv. rewrite (add_from_in add_from Hok) by exact Hv. cbn.
             split; (intros [E | H]; [left; symmetry; exact E | right; exact H]).
          -- intros s j0. apply (add_from_internal add_from Hok).
          -- apply sh_fun.
             ++ apply (shape_mono (srcmap (g_memo st1))); [|exact (p_shape _ _ _ _ _ _ _ Pf)].
                intros i0 n Hn. unfold srcmap in *. apply (p_srcs _ _ _ _ _ _ _ Px). exact Hn.
             ++ exact (p_shape _ _ _ _ _ _ _ Px).
      + (* data is passed *)
        destruct IHx as [IHx _].
        cbn [fresh fst snd].
        destruct (IHx vs en (g_next st1) (snd (fresh st1)) Hwx (Inv_fresh _ Hinv1)
                    (cur_ok_fresh _ Hinv1) Henv1) as [Lx [se [Ex Px]]].
        match goal with |- context [add_expr add_from false x ?u ?w] =>
          change (add_expr add_from false x u w)
            with (add_expr add_from false x (@Some node (g_next st1)) (snd (fresh st1))) end.
        rewrite Ex.
        exists (LSpine c o (args ++ [(AData, Lx)])),
               (mkG (wire add_from false c (lnode Lx) None (g_tr se)) (g_memo se) (g_next se)).
        split; [reflexivity|].
        apply (app_tail add_from Hok vs en f c st o args st1 (AData, Lx) vs en x (g_next st1)
                 (snd (fresh st1)) se (g_tr se));
          [exact Hcur | exact Hinv | exact Pf | exact Px | reflexivity | auto | reflexivity
          | | | | | | | | |].
        * lia.
        * cbn. lia.
        * intros i0 [].
        * intros k n Hk. left. exact Hk.
        * reflexivity.
        * reflexivity.
        * cbn. apply veq_refl.
        * intros s j0. tauto.
        * apply sh_data.
          -- apply (shape_mono (srcmap (g_memo st1))); [|exact (p_shape _ _ _ _ _ _ _ Pf)].
             intros i0 n Hn. unfold srcmap in *. apply (p_srcs _ _ _ _ _ _ _ Px). exact Hn.
          -- exact (p_shape _ _ _ _ _ _ _ Px).
    - (* EAbs *)
      split.
      + intros vs en c st Hwf. discriminate Hwf.
      + intros j' ps' b' E. injection E as E1 E2 E3. subst. apply IHb.
  Qed.
End Rec.

(* ------------------------------------------------------------------------ *)
(* Part D: the exported statements *)

Lemma add_expr_None_eq add_from pinned e st :
  memo_find (key_of e) (g_memo st) = None ->
  add_expr add_from pinned e None st =
  add_expr add_from pinned e (Some (g_next st)) (snd (fresh st)).
Proof.
  intros H. destruct e; cbn [add_expr key_of fresh snd g_memo] in *; rewrite H; reflexivity.
Qed.

Lemma Inv_empty : Inv g_empty.
Proof.
  split; [|split]; cbn.
  - intros t [].
  - intros k n [].
  - intros i j n E. discriminate E.
Qed.

(* from any consistent graph state, with a fresh current node: what C12 needs *)
Theorem add_expr_step add_from : add_from_ok add_from ->
  forall e vs en c st, wfb vs e = true -> Inv st -> cur_ok c st -> env_ok vs en (g_memo st) ->
  exists L st', add_expr add_from false e (Some c) st = Some (lnode L, st') /\
                Post vs en e c st L st'.
Proof. intros Hok e. exact (proj1 (main_rec add_from Hok e)). Qed.

Theorem add_expr_flow add_from : add_from_ok add_from ->
  forall e, wfb [] e = true ->
  exists L st',
    add_expr add_from false e None g_empty = Some (lnode L, st') /\
    shape (srcmap (g_memo st')) [] e L /\
    NoDup (names L) /\
    (forall i j n, srcmap (g_memo st') i = Some n -> srcmap (g_memo st') j = Some n -> i = j) /\
    (forall i n, srcmap (g_memo st') i = Some n -> ~ In n (names L)) /\
    (forall t, vis t -> (In t (g_tr st') <-> In t (flow L))).
Proof.
  intros Hok e Hwf.
  rewrite add_expr_None_eq by reflexivity.
  destruct (add_expr_step add_from Hok e [] [] (g_next g_empty) (snd (fresh g_empty)) Hwf
              (Inv_fresh _ Inv_empty) (cur_ok_fresh _ Inv_empty)) as [L [st' [E P]]].
  { intros v Hv. discriminate Hv. }
  exists L, st'. split; [exact E|].
  destruct P as [Psh Pveq Pnames Pspine Pleaf Pnd Pinv Pnext Pvars Psrcs Pnew Psn].
  split; [exact Psh|]. split; [exact Pnd|]. split; [apply Pinv|]. split.
  - intros i n Hn. apply (Psn (0, i) n); [|reflexivity]. apply memo_find_In. exact Hn.
  - intros t Hv. rewrite (Pveq t Hv). cbn [fresh snd g_tr g_empty]. rewrite app_nil_r. tauto.
Qed.

(* all arguments are data: the graph is the application tree *)
Lemma shape_fob sm en e L : shape sm en e L -> first_order e = true -> fob L = true.
Proof.
  intros H. induction H; cbn [first_order]; intros Hfo; try reflexivity; try discriminate Hfo.
  cbn [negb andb] in Hfo. apply andb_true_iff in Hfo. destruct Hfo as [Hf Hx].
  cbn [fob] in *. rewrite forallb_app. cbn [forallb fst snd is_data andb].
  rewrite (IHshape1 Hf), (IHshape2 Hx). reflexivity.
Qed.

Lemma cross_fob args : forallb (fun a => is_data (fst a) && fob (snd a)) args = true ->
  forall t, ~ In t (cross args).
Proof.
  intros H t Ht. apply In_cross in Ht. destruct Ht as [a [b [i [Ha [_ [Hi _]]]]]].
  rewrite forallb_forall in H. specialize (H a Ha). apply andb_true_iff in H.
  destruct H as [H _]. unfold aint in Hi. destruct (fst a); cbn in *; try discriminate; auto.
Qed.

Lemma flow_fob l : fob l = true -> forall t, In t (flow l) <-> In t (tree l).
Proof.
  induction l as [n | c o args IH] using lx_ind'; intros Hfo t; [tauto|].
  rewrite Forall_forall in IH. cbn [fob] in Hfo.
  assert (Ha : forall a, In a args -> fst a = AData /\ fob (snd a) = true).
  { intros a Hin. rewrite forallb_forall in Hfo. specialize (Hfo a Hin).
    apply andb_true_iff in Hfo. destruct Hfo as [H1 H2]. split; [|exact H2].
    destruct (fst a); cbn in H1; try discriminate. reflexivity. }
  rewrite In_flow_spine. cbn [tree In]. rewrite in_app_iff, in_map_iff, in_flat_map. split.
  - intros [H | [[a [Hin Ht]] | [H | [a [Hin Ht]]]]].
    + auto.
    + right. left. exists a. split; [|exact Hin]. unfold arg_edges in Ht.
      destruct (Ha a Hin) as [E _]. rewrite E in Ht. destruct Ht as [<- | []]. reflexivity.
    + exfalso. apply (cross_fob args Hfo t H).
    + right. right. exists a. split; [exact Hin|]. apply (IH a Hin); [apply (Ha a Hin) | exact Ht].
  - intros [H | [[a [Ht Hin]] | [a [Hin Ht]]]].
    + auto.
    + right. left. exists a. split; [exact Hin|]. unfold arg_edges. cbn [In]. auto.
    + right. right. right. exists a. split; [exact Hin|].
      apply (IH a Hin); [apply (Ha a Hin) | exact Ht].
Qed.

Lemma tree_no_internal l s o : ~ In (s, p_internal, o) (tree l).
Proof.
  induction l as [n | c o' args IH] using lx_ind'; [intros []|].
  rewrite Forall_forall in IH. cbn [tree In]. rewrite in_app_iff, in_map_iff, in_flat_map.
  intros [E | [[a [E _]] | [a [Hin Ht]]]]; try discriminate E. apply (IH a Hin Ht).
Qed.

Theorem add_expr_first_order add_from : add_from_ok add_from ->
  forall e, wfb [] e = true -> first_order e = true ->
  exists L st',
    add_expr add_from false e None g_empty = Some (lnode L, st') /\
    shape (srcmap (g_memo st')) [] e L /\ fob L = true /\
    NoDup (names L) /\
    (forall i j n, srcmap (g_memo st') i = Some n -> srcmap (g_memo st') j = Some n -> i = j) /\
    (forall i n, srcmap (g_memo st') i = Some n -> ~ In n (names L)) /\
    (forall t, vis t -> (In t (g_tr st') <-> In t (tree L))) /\
    (forall s o, ~ In (s, p_internal, o) (g_tr st')).
Proof.
  intros Hok e Hwf Hfo.
  destruct (add_expr_flow add_from Hok e Hwf) as [L [st' [E [Hsh [Hnd [Hinj [Hsn Hveq]]]]]]].
  exists L, st'. assert (Hfb := shape_fob _ _ _ _ Hsh Hfo).
  repeat (split; [assumption|]). split.
  - intros t Hv. rewrite (Hveq t Hv). apply flow_fob. exact Hfb.
  - intros s o H. apply (Hveq _ (vis_internal s o)) in H. apply (flow_fob L Hfb) in H.
    apply (tree_no_internal L s o H).
Qed.

(* The code as pinned (graph.py:392-395 skips every input equal to x) builds a
   different graph on   h s (\y. s) : the internal node of the second argument
   does not receive the first argument.  Witness for replay on the implementation. *)
Definition refute_expr : expr :=
  EApp 5 (EApp 4 (EOp 3 0) (ESrc 1) false) (EAbs 6 [7] (ESrc 1)) true.
Definition refute_tree : lx := LSpine 0 0 [(AData, LLeaf 1); (AAbs 2, LLeaf 1)].

Theorem add_expr_pinned_refuted :
  exists e L st',
    wfb [] e = true /\
    add_expr add_from_plain true e None g_empty = Some (lnode L, st') /\
    shape (srcmap (g_memo st')) [] e L /\
    exists t, In t (flow L) /\ ~ In t (g_tr st').
Proof.
  exists refute_expr, refute_tree.
  eexists. split; [reflexivity|]. split; [vm_compute; reflexivity|]. split.
  - unfold refute_expr, refute_tree.
    apply (sh_abs _ [] 5 (EApp 4 (EOp 3 0) (ESrc 1) false) 6 [7] (ESrc 1) 0 0 [(AData, LLeaf 1)] 2 (LLeaf 1)).
    + apply (sh_data _ [] 4 (EOp 3 0) (ESrc 1) 0 0 [] (LLeaf 1)).
      * apply sh_op.
      * apply sh_src. reflexivity.
    + apply sh_src. reflexivity.
  - exists (2, p_from, 1). split.
    + vm_compute. tauto.
    + vm_compute. intros H. repeat (destruct H as [H | H]; [discriminate H|]). exact H.
Qed.
