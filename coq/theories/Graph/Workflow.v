(* Graph/Workflow.v -- model of TransformationGraph.add_workflow
   (transforge/graph.py:422-507), Workflow.target (workflow.py:79-92) and, in
   Graph/SourceTypes.v, Workflow.source_types (workflow.py:108-133), restricted
   to what property C12 observes structurally: tf:from / tf:internal / tf:via
   triples (through C08's model of add_expr), the returned resource -> node
   map, and the tf:input / tf:output marks.

   What is abstract:
   * tool expressions are given as the trees Language.parse_expr builds
     (lang.py:242-330): numbered inputs, anonymous sources, operators,
     applications.  Every object parse_expr creates carries an identity (as in
     Graph/AddExpr.v; the memo expr_nodes is keyed by object identity).  The
     flag [fn] on an application is "x.type is a Function type"
     (graph.py:351-352), i.e. the outcome of type inference, which this
     structural model does not compute.
   * resources are numbers; the Source object made for workflow source r
     (graph.py:436-437) has identity r.
   * the iteration orders of the sets wf.sources and wf.tool_outputs are the
     orders of the lists [w_srcs] and [w_apps] (schedule parameters: the
     theorems hold for every order).
   * origin annotations, types, labels and membership triples are not modelled
     (types: harness, implementation against implementation).
   Stdlib only, structural recursion / explicit fuel, no axioms.            *)
From Coq Require Import List Arith Bool Lia.
Import ListNotations.
From TF Require Import Graph.AddExpr Graph.AddExprSpec.

(* ------------------------------------------------------------------------ *)
(* Tool expressions as parsed (lang.py:242-330) *)

Inductive tx : Type :=
| TIn (k : nat)                          (* numeric token k+1: args_map[k]   (306-311) *)
| TAnon (i : nat)                        (* "-" or a constant operator: a new Source (304-305, 313) *)
| TOp (i o : nat)                        (* operator token: a new Operation (313) *)
| TApp (i : nat) (f x : tx) (fn : bool). (* Application(previous, current) (275, 316) *)

(* parse_expr(text, *ins) *)
Fixpoint inst (ins : list expr) (t : tx) : option expr :=
  match t with
  | TIn k => nth_error ins k                      (* IndexError -> MissingInputError *)
  | TAnon i => Some (ESrc i)
  | TOp i o => Some (EOp i o)
  | TApp i f x fn =>
      match inst ins f, inst ins x with
      | Some f', Some x' => Some (EApp i f' x' fn)
      | _, _ => None
      end
  end.

(* One tool application: output resource, expression, input resources, and the
   identities of the Source objects made for its inputs when passthrough is off
   (graph.py:450, one per input position; unused for inputs that are sources) *)
Record tapp : Type := mkApp { a_out : nat; a_tx : tx; a_ins : list nat; a_ind : list nat }.
Record wflow : Type := mkWf { w_srcs : list nat; w_apps : list tapp }.

Definition find_app (wf : wflow) (r : nat) : option tapp :=
  find (fun a => Nat.eqb (a_out a) r) (w_apps wf).

(* Workflow.target (workflow.py:79-92): the tool outputs that are nobody's input *)
Definition consumed (wf : wflow) (r : nat) : bool :=
  existsb (fun a => memb r (a_ins a)) (w_apps wf).
Definition targets (wf : wflow) : list nat :=
  filter (fun r => negb (consumed wf r)) (map a_out (w_apps wf)).
Definition target (wf : wflow) : option nat :=
  match targets wf with [t] => Some t | _ => None end.      (* ValueError otherwise *)

(* ------------------------------------------------------------------------ *)
(* Step 1 (graph.py:430-461): expressions for the resources *)

Definition etab := list (nat * expr).
Fixpoint elookup (r : nat) (ex : etab) : option expr :=
  match ex with
  | [] => None
  | (r', e) :: rest => if Nat.eqb r r' then Some e else elookup r rest
  end.

(* exprs (dict, insertion order) and indirection (dict keyed by the new Source
   objects, insertion order) *)
Record est : Type := mkE { e_tab : etab; e_ind : list (nat * expr) }.

Fixpoint mapM_e (f : nat -> est -> option (expr * est)) (rs : list nat) (E : est)
    : option (list expr * est) :=
  match rs with
  | [] => Some ([], E)
  | r :: rs' =>
      match f r E with
      | None => None
      | Some (e, E1) =>
          match mapM_e f rs' E1 with
          | None => None
          | Some (es, E2) => Some (e :: es, E2)
          end
      end
  end.

Section Step1.
  Variable wf : wflow.
  Variable passthrough : bool.

  (* graph.py:446-452 *)
  Fixpoint indirect (ins ids : list nat) (es : list expr) (E : est) : list expr * est :=
    match ins, es with
    | r :: ins', e :: es' =>
        if memb r (w_srcs wf)
        then let '(es'', E') := indirect ins' (tl ids) es' E in (e :: es'', E')
        else let id := hd 0 ids in
             let '(es'', E') := indirect ins' (tl ids) es' (mkE (e_tab E) (e_ind E ++ [(id, e)])) in
             (ESrc id :: es'', E')
    | _, _ => ([], E)
    end.

  (* wfnode2expr, graph.py:439-459 *)
  Fixpoint w2e (fuel : nat) (r : nat) (E : est) : option (expr * est) :=
    match elookup r (e_tab E) with
    | Some e => Some (e, E)                                               (* 440-441 *)
    | None =>
        match fuel with
        | 0 => None
        | S fuel' =>
            match find_app wf r with
            | None => None                                                (* assert, 443 *)
            | Some a =>
                match mapM_e (w2e fuel') (a_ins a) E with                 (* 444-445 *)
                | None => None
                | Some (es, E1) =>
                    let '(es', E2) := if passthrough then (es, E1)
                                      else indirect (a_ins a) (a_ind a) es E1 in   (* 446-452 *)
                    match inst es' (a_tx a) with                          (* 455-456 *)
                    | None => None
                    | Some e => Some (e, mkE (e_tab E2 ++ [(r, e)]) (e_ind E2))
                    end
                end
            end
        end
    end.
End Step1.

(* ------------------------------------------------------------------------ *)
(* Step 2 (graph.py:467-507) *)

Fixpoint foldM_t (f : nat -> gstate -> option (node * gstate)) (rs : list nat) (st : gstate)
    : option gstate :=
  match rs with
  | [] => Some st
  | r :: rs' => match f r st with
                | None => None
                | Some (_, st1) => foldM_t f rs' st1
                end
  end.

Record wres : Type := mkRes {
  r_tr : list triple;            (* the graph *)
  r_inputs : list node;          (* objects of (root, tf:input, _), in the order added *)
  r_output : node;               (* object of (root, tf:output, _) *)
  r_map : list (nat * node)      (* the returned dict *)
}.

Section Step2.
  Variable add_from : node -> node -> list triple -> list triple.     (* add_from(a, b) *)
  Variable add_from_r : node -> node -> list triple -> list triple.   (* add_from(a, b, recursive=True) *)
  Variable pinned : bool.                                             (* see Graph/AddExpr.v *)
  Variable wf : wflow.
  Variable ex : etab.

  (* wfnode2tfmnode, graph.py:467-481 *)
  Fixpoint w2t (fuel : nat) (r : nat) (st : gstate) : option (node * gstate) :=
    match elookup r ex with
    | None => None       (* wfnode2expr would build it only now; every resource reached
                            here has been built in step 1 *)
    | Some e =>
        match memo_find (key_of e) (g_memo st) with                       (* 469-470 *)
        | Some n => Some (n, st)
        | None =>
            match fuel with
            | 0 => None
            | S fuel' =>
                let pre :=
                  if memb r (w_srcs wf) then Some st                      (* 472 *)
                  else match find_app wf r with
                       | None => None                                     (* wf.inputs raises *)
                       | Some a => foldM_t (w2t fuel') (a_ins a) st       (* 473-476 *)
                       end in
                match pre with
                | None => None
                | Some st1 =>
                    match add_expr add_from pinned e None st1 with        (* 478-479 *)
                    | None => None
                    | Some (n, st2) => Some (n, set_memo (key_of e) n st2)
                    end
                end
            end
        end
    end.

  (* graph.py:487-490 *)
  Fixpoint indir_loop (ind : list (nat * expr)) (st : gstate) : option gstate :=
    match ind with
    | [] => Some st
    | (s, ref) :: rest =>
        match add_expr add_from pinned (ESrc s) None st with              (* 488 *)
        | None => None
        | Some (sn, st1) =>
            match memo_find (key_of ref) (g_memo st1) with                (* 489, KeyError *)
            | None => None
            | Some rn => indir_loop rest (upd_tr (add_from_r sn rn) st1)  (* 490 *)
            end
        end
    end.

  (* graph.py:492-495 *)
  Fixpoint inputs_loop (fuel : nat) (srcs : list nat) (st : gstate) : option (list node * gstate) :=
    match srcs with
    | [] => Some ([], st)
    | s :: rest =>
        match w2t fuel s st with
        | None => None
        | Some (n, st1) =>
            match inputs_loop fuel rest st1 with
            | None => None
            | Some (ns, st2) => Some (n :: ns, st2)
            end
        end
    end.

  (* graph.py:506-507 *)
  Fixpoint result_map (tab : etab) (m : memo) : option (list (nat * node)) :=
    match tab with
    | [] => Some []
    | (r, e) :: rest =>
        match memo_find (key_of e) m, result_map rest m with
        | Some n, Some l => Some ((r, n) :: l)
        | _, _ => None                                                    (* KeyError *)
        end
    end.

  (* graph.py, the loop added after `result_node = ...` by the repair: wfnode2tfmnode for
     every resource, so one that has not been reached from the target gets its node now *)
  Fixpoint result_map_t (fuel : nat) (tab : etab) (st : gstate)
      : option (list (nat * node) * gstate) :=
    match tab with
    | [] => Some ([], st)
    | (r, _) :: rest =>
        match w2t fuel r st with
        | None => None
        | Some (n, st1) =>
            match result_map_t fuel rest st1 with
            | None => None
            | Some (l, st2) => Some ((r, n) :: l, st2)
            end
        end
    end.
End Step2.

Definition wf_fuel (wf : wflow) : nat := S (length (w_apps wf)).

Definition add_workflow
    (add_from add_from_r : node -> node -> list triple -> list triple)
    (pinned passthrough : bool) (wf : wflow) : option wres :=
  let E0 := mkE (map (fun s => (s, ESrc s)) (w_srcs wf)) [] in            (* 436-437 *)
  match target wf with
  | None => None
  | Some tg =>
      match w2e wf passthrough (wf_fuel wf) tg E0 with                    (* 461 *)
      | None => None
      | Some (_, E1) =>
          match w2t add_from pinned wf (e_tab E1) (wf_fuel wf) tg g_empty with      (* 483 *)
          | None => None
          | Some (res, st1) =>
              (* as repaired (commits 5e78fd2, then the one after it): every resource is
                 visited right after the target, before the stand-in sources are connected *)
              match (if pinned then Some st1
                     else option_map snd (result_map_t add_from pinned wf (e_tab E1) (wf_fuel wf)
                                            (e_tab E1) st1)) with
              | None => None
              | Some st1' =>
              match indir_loop add_from add_from_r pinned (e_ind E1) st1' with      (* 487-490 *)
              | None => None
              | Some st2 =>
                  match inputs_loop add_from pinned wf (e_tab E1) (wf_fuel wf) (w_srcs wf) st2 with
                  | None => None                                          (* 492-495 *)
                  | Some (ins, st3) =>
                      match result_map (e_tab E1) (g_memo st3) with       (* 506-507 *)
                      | None => None
                      | Some m => Some (mkRes (g_tr st3) ins res m)       (* 497-498 *)
                      end
                  end
              end
              end
          end
      end
  end.
